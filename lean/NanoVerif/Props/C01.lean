import NanoVerif.Proofs.SolverSkeleton
import NanoVerif.Proofs.SolverAlgebra
/-!
  C01 — L-BFGS/BFGS solve well-conditioned smooth convex problems, truthfully: the property theorems.

  * `converged_truthful*` hold for EVERY scalar type with the core operation classes (so also for `Float`, the type the
    driver runs the same definitions at), every objective, every direction rule and every line search that meets the
    contract `LsContract` (the state it leaves behind is an evaluation of `f`; proved for the five line searches in C07
    and monitored at run time against the wrapper's evaluation log). They are statements about the generated fragments
    (`doneCond`, `doneStatus`, `lbfgsConverged`, …): an edit of `solver_t::done` or of a `converged = …` line re-elaborates them.
  * the remaining theorems are exact arithmetic over an arbitrary linear ordered field.
  * NOT proved here (tested by `tools/props/c01.py` on the statement's problem class): "status `converged` within 1500
    evaluations" — a floating-point convergence-rate claim.
-/
namespace NanoVerif.Solver
open NanoVerif.Gen.DoneLogic
set_option linter.unusedSectionVars false

section generic
variable {α : Type} [Add α] [Sub α] [Mul α] [Div α] [Neg α] [LT α] [LE α] [DecidableLT α] [DecidableLE α] [∀ n, OfNat α n]

/-- For every objective `f`, direction rule (with any memory), line-search oracle meeting the contract, ε, budget and
    fuel: what `minimize` returns is an evaluation of `f`, and if its status is `converged` then the solver's convergence
    test holds for the gradient and value of `f` AT THE RETURNED POINT. -/
theorem converged_truthful {M : Type} (env : Env α) (rule : Rule α M) (ls : Ls α) (f : Objective α)
    (hls : LsContract f ls) (eps : α) (maxEvals fuel : Nat) (x0 : Vec α) :
    let r := lsMinimize env rule ls f eps maxEvals fuel x0
    r.fx = (f r.x).1 ∧ r.gx = (f r.x).2 ∧
    (r.status = Status.converged →
      rule.conv (gradientTest (infNorm (f r.x).2) (f r.x).1) eps = true ∨
      rule.convInit (gradientTest (infNorm (f r.x).2) (f r.x).1) eps = true) := by
  intro r
  have h := lsRun_good env f rule ls hls eps maxEvals fuel (initState f x0) (initState_consistent f x0)
    (initState_status f x0)
  have hc : Consistent f r := h.cons
  refine ⟨hc.1, hc.2, fun hs => ?_⟩
  have := h.conv hs
  unfold gradientTestS at this
  rw [← hc.1, ← hc.2]
  exact this

/-- the conclusion in the form of the statement, for any rule whose two generated tests imply `gradient_test < ε` -/
theorem converged_truthful_lt {M : Type} (env : Env α) (rule : Rule α M) (ls : Ls α) (f : Objective α)
    (hls : LsContract f ls) (eps : α) (maxEvals fuel : Nat) (x0 : Vec α)
    (h1 : ∀ g e, rule.conv g e = true → g < e) (h2 : ∀ g e, rule.convInit g e = true → g < e) :
    let r := lsMinimize env rule ls f eps maxEvals fuel x0
    r.status = Status.converged →
      r.fx = (f r.x).1 ∧ r.gx = (f r.x).2 ∧ gradientTest (infNorm (f r.x).2) (f r.x).1 < eps := by
  intro r hs
  have h := converged_truthful env rule ls f hls eps maxEvals fuel x0
  refine ⟨h.1, h.2.1, ?_⟩
  rcases h.2.2 hs with h3 | h3
  · exact h1 _ _ h3
  · exact h2 _ _ h3

/-- gd (gd.cpp): `converged` ⇒ returned `gx = ∇f(x)`, `fx = f(x)` and `‖∇f(x)‖∞ / max(1, |f(x)|) < ε` -/
theorem converged_truthful_gd (env : Env α) (ls : Ls α) (f : Objective α) (hls : LsContract f ls) (eps : α)
    (maxEvals fuel : Nat) (x0 : Vec α) :
    let r := lsMinimize env (gdRule : Rule α Unit) ls f eps maxEvals fuel x0
    r.status = Status.converged →
      r.fx = (f r.x).1 ∧ r.gx = (f r.x).2 ∧ gradientTest (infNorm (f r.x).2) (f r.x).1 < eps :=
  converged_truthful_lt env gdRule ls f hls eps maxEvals fuel x0
    (fun g e h => by simpa [gdRule, gdConverged] using h) (fun g e h => by simpa [gdRule, gdConvergedInit] using h)

/-- the ten cgd variants (cgd.cpp), whatever β formula, `orthotest` and `eta` -/
theorem converged_truthful_cgd (env : Env α) (kind : CgdKind) (eta orthotest : α) (ls : Ls α) (f : Objective α)
    (hls : LsContract f ls) (eps : α) (maxEvals fuel : Nat) (x0 : Vec α) :
    let r := lsMinimize env (cgdRule env kind eta orthotest) ls f eps maxEvals fuel x0
    r.status = Status.converged →
      r.fx = (f r.x).1 ∧ r.gx = (f r.x).2 ∧ gradientTest (infNorm (f r.x).2) (f r.x).1 < eps :=
  converged_truthful_lt env (cgdRule env kind eta orthotest) ls f hls eps maxEvals fuel x0
    (fun g e h => by simpa [cgdRule, cgdConverged] using h) (fun g e h => by simpa [cgdRule, cgdConvergedInit] using h)

/-- L-BFGS (lbfgs.cpp), whatever the history size -/
theorem converged_truthful_lbfgs (env : Env α) (history : Nat) (ls : Ls α) (f : Objective α) (hls : LsContract f ls)
    (eps : α) (maxEvals fuel : Nat) (x0 : Vec α) :
    let r := lsMinimize env (lbfgsRule history) ls f eps maxEvals fuel x0
    r.status = Status.converged →
      r.fx = (f r.x).1 ∧ r.gx = (f r.x).2 ∧ gradientTest (infNorm (f r.x).2) (f r.x).1 < eps :=
  converged_truthful_lt env (lbfgsRule history) ls f hls eps maxEvals fuel x0
    (fun g e h => by simpa [lbfgsRule, lbfgsConverged] using h)
    (fun g e h => by simpa [lbfgsRule, lbfgsConvergedInit] using h)

/-- SR1 / DFP / BFGS / Hoshino / Fletcher (quasi.cpp), whatever the initialisation and `r` -/
theorem converged_truthful_quasi (env : Env α) (kind : QuasiKind) (r0 : α) (scaled : Bool) (n : Nat) (ls : Ls α)
    (f : Objective α) (hls : LsContract f ls) (eps : α) (maxEvals fuel : Nat) (x0 : Vec α) :
    let r := lsMinimize env (quasiRule env kind r0 scaled n) ls f eps maxEvals fuel x0
    r.status = Status.converged →
      r.fx = (f r.x).1 ∧ r.gx = (f r.x).2 ∧ gradientTest (infNorm (f r.x).2) (f r.x).1 < eps :=
  converged_truthful_lt env (quasiRule env kind r0 scaled n) ls f hls eps maxEvals fuel x0
    (fun g e h => by simpa [quasiRule, quasiConverged] using h)
    (fun g e h => by simpa [quasiRule, quasiConvergedInit] using h)

end generic

section field
variable {α : Type} [Field α] [LinearOrder α] [IsStrictOrderedRing α]

/-- reading of the conclusion of `converged_truthful_*` in exact arithmetic: every component of the gradient of `f` at the
    returned point is below `ε · max(1, |f(x)|)` -/
theorem converged_components (g : Vec α) (fx eps : α) (h : gradientTest (infNorm g) fx < eps) :
    ∀ v ∈ g, |v| < eps * max 1 |fx| := components_lt_of_gradientTest_lt g fx eps h

/-- the L-BFGS two-loop recursion gives a descent direction whenever every stored pair has `s·y > 0`
    (it is the product form of a positive definite operator). NB: lbfgs.cpp does NOT test `s·y > 0` when it stores a pair —
    hence `direction_is_descent_lbfgs` below, which needs no such hypothesis. -/
theorem twoloop_descent (n : Nat) (hist : List (Vec α × Vec α)) (g : Vec α) (hok : HistOK n hist) (hg : g.length = n)
    (hne : ∃ a ∈ g, a ≠ 0) : vdot g (lbfgsRaw hist g) < 0 := by
  unfold lbfgsRaw
  rw [vdot_vneg_right]
  have := twoLoop_pos (lbfgsGamma hist) (lbfgsGamma_ok n hist hok) n hist g hok hg hne
  linarith

theorem vdot_self_vneg_neg (g : Vec α) (hne : ∃ a ∈ g, a ≠ 0) : vdot g (vneg g) < 0 := by
  rw [vdot_vneg_right]; have := vdot_self_pos g hne; linarith

/-- what L-BFGS hands to the line search is ALWAYS a descent direction (recursion result, or the forced `−g` fallback),
    for any history whatsoever -/
theorem direction_is_descent_lbfgs (m : LbfgsMem α) (c : State α) (hne : ∃ a ∈ c.gx, a ≠ 0) :
    vdot c.gx (lbfgsDirection m c).1 < 0 := by
  unfold lbfgsDirection
  simp only
  split
  · rename_i h; simpa [hasDescent] using h
  · exact vdot_self_vneg_neg c.gx hne

/-- the same for the quasi-Newton solvers (restart with `H = I` when `−H g` is not a descent direction) -/
theorem direction_is_descent_quasi (n : Nat) (m : QuasiMem α) (c : State α) (hne : ∃ a ∈ c.gx, a ≠ 0) :
    vdot c.gx (quasiDirection n m c).1 < 0 := by
  unfold quasiDirection
  simp only
  split
  · rename_i h; simpa [hasDescent] using h
  · exact vdot_self_vneg_neg c.gx hne

/-- the same for the ten cgd variants (restart with `−g`), whatever β is (even a division by zero) -/
theorem direction_is_descent_cgd (env : Env α) (kind : CgdKind) (eta orthotest : α) (m : Option (Vec α)) (p c : State α)
    (hne : ∃ a ∈ c.gx, a ≠ 0) : vdot c.gx (cgdDirection env kind eta orthotest m p c).1 < 0 := by
  unfold cgdDirection
  cases m with
  | none => exact vdot_self_vneg_neg c.gx hne
  | some pd =>
    simp only
    split
    · exact vdot_self_vneg_neg c.gx hne
    · rename_i h
      simp only [Bool.or_eq_true, Bool.not_eq_true', not_or] at h
      have h1 := h.1
      simp only [Bool.not_eq_false] at h1
      simpa [hasDescent] using h1

theorem direction_is_descent_gd (p c : State α) (hne : ∃ a ∈ c.gx, a ≠ 0) :
    vdot c.gx ((gdRule : Rule α Unit).direction () p c).1 < 0 := vdot_self_vneg_neg c.gx hne

/-- the BFGS update satisfies the secant equation `H⁺ y = s` (for any `H`, when `s·y ≠ 0`) -/
theorem bfgs_update_secant (env : Env α) (r : α) (n : Nat) (H : Mat α) (s y : Vec α) (hs : s.length = n)
    (hy : y.length = n) (hsy : vdot s y ≠ 0) : matVec (quasiUpdateH env QuasiKind.bfgs r n H s y) y = s :=
  bfgs_secant n H s y hs hy hsy

/-- gradient of `½ xᵀA x + aᵀx` -/
def quadGrad (A : Mat α) (a x : Vec α) : Vec α := vadd (matVec A x) a

/-- strongly convex quadratics (exact): if `vᵀA v ≥ λ‖v‖²` for all `v` and `∇f(x*) = 0`, then
    `λ² ‖x − x*‖₂² ≤ ‖∇f(x)‖₂²` -/
theorem strongly_convex_gradient_bound (n : Nat) (A : Mat α) (a xs x : Vec α) (lam : α) (hlam : 0 ≤ lam)
    (hA : ∀ r ∈ A, r.length = n) (hAl : A.length = n) (ha : a.length = n) (hxs : xs.length = n) (hx : x.length = n)
    (hstar : quadGrad A a xs = List.replicate n 0)
    (hconv : ∀ v : Vec α, v.length = n → lam * vdot v v ≤ vdot v (matVec A v)) :
    lam * lam * vdot (vsub x xs) (vsub x xs) ≤ vdot (quadGrad A a x) (quadGrad A a x) := by
  have hv : (vsub x xs).length = n := by rw [vsub_length x xs (by rw [hx, hxs]), hx]
  have hAx : (matVec A x).length = n := by rw [matVec_length, hAl]
  have hAxs : (matVec A xs).length = n := by rw [matVec_length, hAl]
  -- v·∇f(x) = v·A v
  have h0 : vdot (vsub x xs) (matVec A xs) + vdot (vsub x xs) a = 0 := by
    rw [← vdot_vadd_right _ _ _ (by rw [hv, hAxs]) (by rw [hAxs, ha])]
    show vdot (vsub x xs) (quadGrad A a xs) = 0
    rw [hstar, vdot_replicate_zero_right]
  have h1 : vdot (vsub x xs) (quadGrad A a x) = vdot (vsub x xs) (matVec A (vsub x xs)) := by
    unfold quadGrad
    rw [vdot_vadd_right _ _ _ (by rw [hv, hAx]) (by rw [hAx, ha]), matVec_vsub A x xs n hA hx hxs,
      vdot_vsub_right _ _ _ (by rw [hv, hAx]) (by rw [hAx, hAxs])]
    linarith
  have h2 := hconv (vsub x xs) hv
  rw [← h1] at h2
  have hcs := vdot_sq_le (vsub x xs) (quadGrad A a x)
  have hvv := vdot_self_nonneg (vsub x xs)
  have hgg := vdot_self_nonneg (quadGrad A a x)
  rcases eq_or_lt_of_le hvv with h | h
  · rw [← h]; simpa using hgg
  · -- λ² (v·v)² ≤ (v·g)² ≤ (v·v)(g·g)
    have h3 : 0 ≤ lam * vdot (vsub x xs) (vsub x xs) := mul_nonneg hlam hvv
    have h4 : (lam * vdot (vsub x xs) (vsub x xs)) * (lam * vdot (vsub x xs) (vsub x xs))
        ≤ vdot (vsub x xs) (quadGrad A a x) * vdot (vsub x xs) (quadGrad A a x) :=
      mul_le_mul h2 h2 h3 (le_trans h3 h2)
    have h5 : vdot (vsub x xs) (vsub x xs) * (lam * lam * vdot (vsub x xs) (vsub x xs))
        ≤ vdot (vsub x xs) (vsub x xs) * vdot (quadGrad A a x) (quadGrad A a x) := by nlinarith
    exact le_of_mul_le_mul_left h5 h

/-- the accuracy clause of the statement (squared, exact): for `f(x) = ½xᵀAx + aᵀx` with `vᵀAv ≥ λ‖v‖²`, minimiser `x*`, ANY
    line-search solver of the model, ANY line search meeting the contract: status `converged` implies
    `λ² ‖x − x*‖₂² ≤ n · (ε · max(1, |f(x)|))²`, i.e. `‖x − x*‖₂ ≤ √n · ε · max(1, |f(x)|) / λ`. -/
theorem strongly_convex_accuracy {M : Type} (env : Env α) (rule : Rule α M) (ls : Ls α) (n : Nat) (A : Mat α)
    (a xs : Vec α) (lam : α) (value : Vec α → α) (hlam : 0 ≤ lam)
    (hA : ∀ r ∈ A, r.length = n) (hAl : A.length = n) (ha : a.length = n) (hxs : xs.length = n)
    (hstar : quadGrad A a xs = List.replicate n 0)
    (hconv : ∀ v : Vec α, v.length = n → lam * vdot v v ≤ vdot v (matVec A v))
    (hls : LsContract (fun x => (value x, quadGrad A a x)) ls)
    (h1 : ∀ g e, rule.conv g e = true → g < e) (h2 : ∀ g e, rule.convInit g e = true → g < e)
    (eps : α) (maxEvals fuel : Nat) (x0 : Vec α)
    (hx : (lsMinimize env rule ls (fun x => (value x, quadGrad A a x)) eps maxEvals fuel x0).x.length = n) :
    let r := lsMinimize env rule ls (fun x => (value x, quadGrad A a x)) eps maxEvals fuel x0
    r.status = Status.converged →
      lam * lam * vdot (vsub r.x xs) (vsub r.x xs) ≤ (n : α) * ((eps * max 1 |value r.x|) * (eps * max 1 |value r.x|)) := by
  intro r hs
  have ht := converged_truthful_lt env rule ls (fun x => (value x, quadGrad A a x)) hls eps maxEvals fuel x0 h1 h2 hs
  have hcomp := converged_components _ _ _ ht.2.2
  have hb := strongly_convex_gradient_bound n A a xs r.x lam hlam hA hAl ha hxs hx hstar hconv
  have hlen : (quadGrad A a r.x).length = n := by
    unfold quadGrad
    have : ∀ (u v : Vec α), u.length = v.length → (vadd u v).length = u.length := by
      intro u
      induction u with
      | nil => intro v h; cases v <;> simp_all [vadd]
      | cons c u ih => intro v h; cases v with
        | nil => simp at h
        | cons d v => simp [vadd, ih v (by simpa using h)]
    rw [this _ _ (by rw [matVec_length, hAl, ha]), matVec_length, hAl]
  have hle := vdot_self_le_of_components (quadGrad A a r.x) (eps * max 1 |value r.x|)
    (fun c hc => le_of_lt (hcomp c hc))
  rw [hlen] at hle
  exact le_trans hb hle

end field

/-! ### non-vacuity: `converged` is reached, and the hypotheses of the theorems are satisfiable -/

section examples

def envZ : Env Int := ⟨fun _ => true, fun x => x, -1000000, 1000000⟩
/-- `f(x) = x²` in one dimension over `Int` -/
def sqF : Objective Int := fun x => (vdot x x, x.map (fun v => 2 * v))
/-- an exact line search: jumps to the minimiser and evaluates `f` there -/
def lsExact : Ls Int := fun _ s _ => (⟨[0], (sqF [0]).1, (sqF [0]).2, s.status, s.fcalls + 1, s.gcalls + 1⟩, true)

theorem lsExact_contract : LsContract sqF lsExact := fun _ _ _ => ⟨fun _ => ⟨rfl, rfl⟩, rfl⟩

/-- gd, L-BFGS and BFGS do not stop at the start `x0 = [1]` (gradient test 2 ≥ ε = 1), take one iteration and report
    `converged` at `[0]`: the premise of `converged_truthful` is not vacuous -/
example : (lsMinimize envZ (gdRule : Rule Int Unit) lsExact sqF 1 100 5 [1]).status = Status.converged := by decide
example : (lsMinimize envZ (gdRule : Rule Int Unit) lsExact sqF 1 100 5 [1]).x = [0] := by decide
example : (lsMinimize envZ (lbfgsRule 5) lsExact sqF 1 100 5 [1]).status = Status.converged := by decide
example : (lsMinimize envZ (quasiRule envZ QuasiKind.bfgs 0 false 1) lsExact sqF 1 100 5 [1]).x = [0] := by decide
/-- … and a run whose line search makes no progress stops on the budget and keeps the default status -/
example : (lsMinimize envZ (gdRule : Rule Int Unit) (fun _ s _ => ({ s with fcalls := s.fcalls + 60 }, true)) sqF 1 100 5 [1]).status
    = Status.max_iters := by decide
/-- … and a failing line search gives `failed` -/
example : (lsMinimize envZ (lbfgsRule 5) (fun _ s _ => (s, false)) sqF 1 100 5 [1]).status = Status.failed := by decide

/-- a history with `s·y > 0` exists: the hypothesis of `twoloop_descent` is satisfiable -/
example : HistOK (α := ℚ) 2 [([1, 0], [2, 1]), ([0, 1], [1, 3])] := by
  intro p hp
  simp only [List.mem_cons, List.not_mem_nil, or_false] at hp
  rcases hp with rfl | rfl <;> refine ⟨rfl, rfl, ?_⟩ <;> norm_num [vdot]

/-- the identity matrix is strongly convex with λ = 1: the hypotheses of `strongly_convex_gradient_bound` are satisfiable -/
example {α : Type} [Field α] [LinearOrder α] [IsStrictOrderedRing α] :
    ∀ v : Vec α, v.length = 2 → (1 : α) * vdot v v ≤ vdot v (matVec (identity 2) v) := by
  intro v hv
  have h := matVec_identity v
  rw [hv] at h
  rw [h, one_mul]

end examples

end NanoVerif.Solver
