import NanoVerif.Proofs.Parameter
import NanoVerif.Proofs.ParameterExt
import NanoVerif.Proofs.ParameterReads
import NanoVerif.Gen.FactoryParams
/-!
  C19 — property theorems: parameters stay inside their declared domain; what the factories hand out.

  The theorems are stated over
    * `Gen/ParamCheck.lean` (`check`, `updateEnum`, `updateRange`, `updatePair`: regenerated from the text of
      src/parameter.cpp on every run) through `Model/Parameter.lean` (`step`, `make`), `Model/ParamNarrow.lean` (`xstep`,
      `xmake`: the rest of the interface), `Model/Configurable.lean`, `Model/Factory.lean`;
    * `Gen/FactoryParams.lean` (every registered parameter of every id of the 11 factories, regenerated from a
      run of the implementation) and `Gen/ParamReads.lean` (every typed read of a parameter in the sources).
  The *declared domain* (`Range.InDomain`, `PRange.InDomain`, `EnumP.InDomain`, `Storage.InDomain`) is written
  independently in `Model/ParamTypes.lean`. `α` (the scalar type) is arbitrary: the comparisons, `isfinite`, the
  int64 ↔ scalar conversions and `std::stod` are parameters, so the theorems hold in particular for IEEE doubles
  (`XF`) with NaN, ±∞ and signed zeros, and for whatever `static_cast<int64_t>` does to values outside its range.

  GAP TABLE (gap-closing round) — every function of the anchored files:
  `modelled` = hand-written Lean definition tied by the correspondence run, `translated` = regenerated into Gen/,
  `static` = checked by `static_checks()` of tools/props/c19.py on every run, `outside` = not in the model (why).

  src/parameter.cpp
    name(LEorLT)                          outside    text of messages and of `domain()` only (see `operator<<` below)
    check(LEorLT, a, b)                   translated Gen.ParamCheck.check            (check_sound)
    split_pair                            modelled   splitPair (Model/ParamParse.lean)
    update(name, enum_t&, value)          translated Gen.ParamCheck.updateEnum       (updateEnum_accepts_iff, rejected_is_noop_enum)
    update(name, range_t&, value)         translated Gen.ParamCheck.updateRange      (updateRange_accepts_iff)
    update(name, pair_range_t&, v1, v2)   translated Gen.ParamCheck.updatePair       (updatePair_accepts_iff)
    update(name, storage_t&, tvalue)      modelled   setInt / setFloat
    update(name, storage_t&, tuple)       modelled   setPairInt / setPairFloat
    make_comp / make_flag                 modelled   Cmp.flag (operator==); the stream side is C15's codec
    read(range) / read(pair) / write(…)   outside    byte codec = C15 (`Op.writeRead` is the identity + operator== + eof, checked)
    operator==(enum / range / pair / tparam vs storage)   modelled   Range.eqv, PRange.eqv, Storage.eqv   (param_eq_self)
    value(stream, …) / domain(stream, …)  outside    diagnostic text (`%g`-style formatting of doubles); the property does not
                                                     mention it; monitored at run time by the oracle-only family `paramshow`
    parameter_t::parameter_t() / (name, enum_t) / (name, string_t) / (name, irange_t) / (name, frange_t) /
      (name, iprange_t) / (name, fprange_t)                 modelled   make            (construct_in_domain)
    seti / setd                           modelled   Op.setInt / Op.setFloat
    operator=(string_t)                   modelled   setString with stoll / stodXF / splitPair
    operator=(tuple<int32,int32> / <int64,int64> / <scalar,scalar>)   modelled   Op.setPairInt / Op.setPairFloat (`sp32`, `spi`, `spf`)
    parameter_t::read / write             outside    C15 (see above)
    logical_error                         modelled   `.throw .critical`               (mismatched_read_throws, narrow_read_mismatch_throws)
    operator== / operator!=(parameter_t)  modelled   paramEq (names + Storage.eqv); `!=` checked against `==` in the harness
    operator<<(parameter_t / value_t / domain_t)   outside   as value(stream)/domain(stream)
  include/nano/parameter.h
    range_t::value<T>() / pair_range_t::value<T>()          modelled   the read operations of `step` and `xstep` (T = int64_t,
                                                     scalar_t, int32_t, uint64_t, float)      (readI32_exact, readU64_exact)
    make_enum / make_enum_                modelled   Spec.enum (one enumeration declared in the harness)
    make_string                           modelled   Spec.str
    make_scalar / make_integer / make_scalar_pair / make_integer_pair / make_scalar_ (both)
                                          modelled   XSpec + XSpec.lower (arguments converted first)   (xconstruct_in_domain)
    operator=(tscalar)                    modelled   XOp.setI32 / setU64 / setBool / setF32 + Op.setInt / Op.setFloat   (xstep_lowers)
    operator=(tenum)                      modelled   Op.setEnum                        (enum_out_of_domain_rejected)
    value<string_t> / value<tenum> / value<tscalar> / value_pair<tscalar>   modelled   Op.read*, XOp.read*
    name() / storage()                    (observation points of the harness)
    value() / domain()                    outside    wrappers for operator<<
  src/configurable.cpp, include/nano/configurable.h
    find_param (both overloads)           modelled   Config.find?                      (lookup_exact_name)
    register_parameter                    modelled   Config.register                   (duplicate_register_throws, register_then_found)
    parameter(name) (both) / parameter_if(name) (both)      modelled   Config.applyAt / Config.has; the const overloads are compared
                                                     with the non-const ones on every call of the harness
    config(name, value, …)                modelled   Config.applyAt with an assignment
    copy / move construction and assignment (defaulted)     modelled   identity (`copy` operation of the `config` family)
    read / write                          outside    C15
    major/minor/patch_version             outside    C15
  include/nano/factory.h
    add / has / get / ids(regex) / size / description / find   modelled   Model/Factory.lean   (factory_add_spec, factory_get_unknown,
                                                     factory_get_is_clone, factory_ids_spec, factory_prototypes_untouched)
  src/{solver,lsearchk,lsearch0,loss,splitter,tuner,generator,wlearner,linear,datasource,function}.cpp
    T::all() (the registrations) and the constructors registering parameters   translated   Gen/FactoryParams.lean (dump of a run)
                                                     (defaults_in_domain, defaults_constructible, type_ids_match)
    every `parameter("…").value<T>()` of src/ and include/   translated   Gen/ParamReads.lean   (library_reads_well_typed)
    T::clone() of the 105 classes implementing it            static     canonical `std::make_unique<T>(*this)`, or reviewed
    user-provided copy operations (solver_t, ml::params_t, gboost_model_t, gboost::result_t, functional_t, logger_t, …)
                                          static     reviewed allow-list + "every data member and base is copied"
                                          modelled   Tree.clone / setChild / ostep     (clone_configuration_equal, clone_independent)
    solver_t::lsearch0/lsearchk setters, params_t setters, gboost_model_t::prototypes   modelled   OOp.inst / instid / protos
    what the objects DO (minimize, get, fit, split, optimize, …)   outside   other properties; here only probed: original vs clone
                                                     bit-identical on fixed inputs (loss, function, splitter, solver, lsearch0,
                                                     lsearchk, tuner, weak learner incl. clone-after-fit, generator)
-/
namespace NanoVerif.Param
open NanoVerif.Gen.ParamCheck NanoVerif.Gen

set_option linter.unusedSectionVars false

/-! ### the regenerated guards against the declared domain -/

/-- `check(LE, a, b) ⇔ a ≤ b`, `check(LT, a, b) ⇔ a < b` -/
theorem check_sound {β : Type} [LT β] [LE β] [DecidableLT β] [DecidableLE β] (c : Cmp) (a b : β) :
    check c a b = true ↔ c.Rel a b := check_iff c a b

/-- `update(range_t)` accepts exactly the values (after the `static_cast`) inside the declared domain, stores
    the converted value on acceptance and leaves the parameter untouched when it throws -/
theorem updateRange_accepts_iff {β γ : Type} [LT β] [LE β] [DecidableLT β] [DecidableLE β] [IsFinite β]
    (cast : γ → β) (p : Range β) (v : γ) :
    ((updateRange cast p v).2 = false ↔ ({ p with value := cast v } : Range β).InDomain) ∧
    ((updateRange cast p v).2 = false → (updateRange cast p v).1 = { p with value := cast v }) ∧
    ((updateRange cast p v).2 = true → (updateRange cast p v).1 = p) :=
  ⟨updateRange_iff cast p v, fun h => (updateRange_accept cast p v h).1, updateRange_reject cast p v⟩

theorem updatePair_accepts_iff {β γ : Type} [LT β] [LE β] [DecidableLT β] [DecidableLE β] [IsFinite β]
    (cast : γ → β) (p : PRange β) (v1 v2 : γ) :
    ((updatePair cast p v1 v2).2 = false ↔
      ({ p with value1 := cast v1, value2 := cast v2 } : PRange β).InDomain) ∧
    ((updatePair cast p v1 v2).2 = false →
      (updatePair cast p v1 v2).1 = { p with value1 := cast v1, value2 := cast v2 }) ∧
    ((updatePair cast p v1 v2).2 = true → (updatePair cast p v1 v2).1 = p) :=
  ⟨updatePair_iff cast p v1 v2, fun h => (updatePair_accept cast p v1 v2 h).1, updatePair_reject cast p v1 v2⟩

theorem updateEnum_accepts_iff (p : EnumP) (v : String) :
    ((updateEnum p v).2 = false ↔ ({ p with value := v } : EnumP).InDomain) ∧
    ((updateEnum p v).2 = false → (updateEnum p v).1 = { p with value := v }) ∧
    ((updateEnum p v).2 = true → (updateEnum p v).1 = p) :=
  ⟨updateEnum_iff p v, fun h => (updateEnum_accept p v h).1, updateEnum_reject p v⟩

section
variable {α : Type} [LT α] [LE α] [DecidableLT α] [DecidableLE α] [FOps α]

/-! ### one parameter, any history -/

/-- **step_preserves_domain**: whatever operation is applied — an assignment of an integer, a scalar (NaN and ±∞
    included), a pair, a string (numeric or garbage), an enumeration value, a typed read, a write+read — and
    whether it is accepted or throws, the stored value is inside the declared domain afterwards. -/
theorem step_preserves_domain (s : Storage α) (op : Op α) (h : s.InDomain) : (step s op).1.InDomain := by
  cases op with
  | setInt v =>
    cases s <;> first | exact h | exact ofUpd_range _ _ _ h
  | setFloat v =>
    cases s <;> first | exact h | exact ofUpd_range _ _ _ h
  | setPairInt v1 v2 =>
    cases s <;> first | exact h | exact ofUpd_pair _ _ _ _ h
  | setPairFloat v1 v2 =>
    cases s <;> first | exact h | exact ofUpd_pair _ _ _ _ h
  | setString v => exact setString_dom s v h
  | setEnum name =>
    cases s <;> first | exact h | exact setString_dom _ name h
  | readInt => cases s <;> exact h
  | readFloat => cases s <;> exact h
  | readPairInt => cases s <;> exact h
  | readPairFloat => cases s <;> exact h
  | readString => cases s <;> exact h
  | readEnum => cases s <;> exact h
  | writeRead => exact h

/-- **construct_in_domain**: a parameter that was constructed (the constructor did not throw) starts inside its
    domain: a default outside the domain cannot be registered. -/
theorem construct_in_domain (spec : Spec α) (s : Storage α) (h : make spec = .ok s) : s.InDomain := by
  cases spec with
  | mono => cases h; trivial
  | str v => cases h; trivial
  | enum p =>
    simp only [make, madeBy] at h
    split at h
    · cases h
    · rename_i hc
      cases h
      have hc' : (updateEnum p p.value).2 = false := by simpa using hc
      rw [(updateEnum_accept p p.value hc').1]; exact (updateEnum_accept p p.value hc').2
  | int p =>
    simp only [make, madeBy] at h
    split at h
    · cases h
    · rename_i hc
      cases h
      have hc' : (updateRange (fun (x : Int) => x) p p.value).2 = false := by simpa using hc
      rw [(updateRange_accept _ p p.value hc').1]; exact (updateRange_accept _ p p.value hc').2
  | float p =>
    simp only [make, madeBy] at h
    split at h
    · cases h
    · rename_i hc
      cases h
      have hc' : (updateRange (fun (x : α) => x) p p.value).2 = false := by simpa using hc
      rw [(updateRange_accept _ p p.value hc').1]; exact (updateRange_accept _ p p.value hc').2
  | ipair p =>
    simp only [make, madeBy] at h
    split at h
    · cases h
    · rename_i hc
      cases h
      have hc' : (updatePair (fun (x : Int) => x) p p.value1 p.value2).2 = false := by simpa using hc
      rw [(updatePair_accept _ p _ _ hc').1]; exact (updatePair_accept _ p _ _ hc').2
  | fpair p =>
    simp only [make, madeBy] at h
    split at h
    · cases h
    · rename_i hc
      cases h
      have hc' : (updatePair (fun (x : α) => x) p p.value1 p.value2).2 = false := by simpa using hc
      rw [(updatePair_accept _ p _ _ hc').1]; exact (updatePair_accept _ p _ _ hc').2

/-- **reachable_in_domain**: after *any* sequence of operations on a constructed parameter the stored value lies
    in the declared domain with its ordering constraints (induction over the history; no bound on its length). -/
theorem reachable_in_domain (spec : Spec α) (s0 : Storage α) (h : make spec = .ok s0) (ops : List (Op α)) :
    (run s0 ops).InDomain := by
  have h0 := construct_in_domain spec s0 h
  clear h
  induction ops generalizing s0 with
  | nil => exact h0
  | cons op ops ih => exact ih (step s0 op).1 (step_preserves_domain s0 op h0)

/-- **rejected_is_noop**: an operation that throws (value outside the domain, NaN, malformed text, wrong type,
    mismatched read) leaves the previous value — the whole stored alternative — intact. -/
theorem rejected_is_noop (s : Storage α) (op : Op α) (h : (step s op).2.isThrow = true) : (step s op).1 = s := by
  cases op with
  | setInt v =>
    cases s <;> first | rfl | exact ofUpd_noop _ _ _ (updateRange_reject _ _ _) h
  | setFloat v =>
    cases s <;> first | rfl | exact ofUpd_noop _ _ _ (updateRange_reject _ _ _) h
  | setPairInt v1 v2 =>
    cases s <;> first | rfl | exact ofUpd_noop _ _ _ (updatePair_reject _ _ _ _) h
  | setPairFloat v1 v2 =>
    cases s <;> first | rfl | exact ofUpd_noop _ _ _ (updatePair_reject _ _ _ _) h
  | setString v => exact setString_noop s v h
  | setEnum name =>
    cases s <;> first | rfl | exact setString_noop _ name h
  | readInt => cases s <;> rfl
  | readFloat => cases s <;> rfl
  | readPairInt => cases s <;> rfl
  | readPairFloat => cases s <;> rfl
  | readString => cases s <;> rfl
  | readEnum => cases s <;> rfl
  | writeRead => rfl

/-- **read_is_pure**: typed reads and the write+read round trip never change what is stored. -/
theorem read_is_pure (s : Storage α) (op : Op α) (h : op.isAssign = false) : (step s op).1 = s := by
  cases op <;> first | (simp [Op.isAssign] at h; done) | (cases s <;> rfl) | rfl

/-- **accepted_reads_back**: an accepted assignment is read back — by the typed read of the parameter's kind,
    which does not change the parameter — as the assigned value converted to the parameter's integer / scalar
    kind (`requested`: `static_cast` for numbers and pairs, `std::stoll` / `std::stod` of the tokens for strings,
    the name itself for enumerations and strings). -/
theorem accepted_reads_back (s : Storage α) (op : Op α) (hop : op.isAssign = true) (hok : (step s op).2 = Res.ok) :
    ∃ r, requested s op = some r ∧ step (step s op).1 ((step s op).1.readOp) = ((step s op).1, r) := by
  cases op with
  | setInt v =>
    cases s with
    | irange p =>
      have h1 := ofUpd_ok _ _ hok
      refine ⟨.int v, rfl, ?_⟩
      simp only [step, setInt, h1.2, (updateRange_accept _ p v h1.1).1, Storage.readOp]
    | frange p =>
      have h1 := ofUpd_ok _ _ hok
      refine ⟨.float (FOps.ofI64 v), rfl, ?_⟩
      simp only [step, setInt, h1.2, (updateRange_accept _ p v h1.1).1, Storage.readOp]
    | _ => simp [step, setInt] at hok
  | setFloat v =>
    cases s with
    | irange p =>
      have h1 := ofUpd_ok _ _ hok
      refine ⟨.int (FOps.toI64 v), rfl, ?_⟩
      simp only [step, setFloat, h1.2, (updateRange_accept _ p v h1.1).1, Storage.readOp]
    | frange p =>
      have h1 := ofUpd_ok _ _ hok
      refine ⟨.float v, rfl, ?_⟩
      simp only [step, setFloat, h1.2, (updateRange_accept _ p v h1.1).1, Storage.readOp]
    | _ => simp [step, setFloat] at hok
  | setPairInt v1 v2 =>
    cases s with
    | iprange p =>
      have h1 := ofUpd_ok _ _ hok
      refine ⟨.pairInt v1 v2, rfl, ?_⟩
      simp only [step, setPairInt, h1.2, (updatePair_accept _ p v1 v2 h1.1).1, Storage.readOp]
    | fprange p =>
      have h1 := ofUpd_ok _ _ hok
      refine ⟨.pairFloat (FOps.ofI64 v1) (FOps.ofI64 v2), rfl, ?_⟩
      simp only [step, setPairInt, h1.2, (updatePair_accept _ p v1 v2 h1.1).1, Storage.readOp]
    | _ => simp [step, setPairInt] at hok
  | setPairFloat v1 v2 =>
    cases s with
    | iprange p =>
      have h1 := ofUpd_ok _ _ hok
      refine ⟨.pairInt (FOps.toI64 v1) (FOps.toI64 v2), rfl, ?_⟩
      simp only [step, setPairFloat, h1.2, (updatePair_accept _ p v1 v2 h1.1).1, Storage.readOp]
    | fprange p =>
      have h1 := ofUpd_ok _ _ hok
      refine ⟨.pairFloat v1 v2, rfl, ?_⟩
      simp only [step, setPairFloat, h1.2, (updatePair_accept _ p v1 v2 h1.1).1, Storage.readOp]
    | _ => simp [step, setPairFloat] at hok
  | setString v => exact setString_reads_back s v hok
  | setEnum name =>
    cases s with
    | enum p =>
      obtain ⟨r, hr, hs⟩ := setString_reads_back (Storage.enum p) name hok
      exact ⟨r, hr, hs⟩
    | _ => simp [step, setEnum] at hok
  | _ => simp [Op.isAssign] at hop

/-- **mismatched_read_throws**: a typed read whose type does not fit the stored alternative throws
    (`logical_error`) and changes nothing. -/
theorem mismatched_read_throws (s : Storage α) (op : Op α) (hop : op.isAssign = false)
    (h : op.readable s = false) : step s op = (s, .throw .critical) := by
  cases op <;> cases s <;> first | rfl | (simp [Op.readable] at h; done) | (simp [Op.isAssign] at hop; done)

/-- **mismatched_assign_throws**: an assignment of a kind the stored alternative cannot take (a number to an
    enumeration, a pair to a range, an enumeration value to a number, anything to the empty parameter) throws
    and changes nothing. -/
theorem mismatched_assign_throws (s : Storage α) (op : Op α) (hop : op.isAssign = true)
    (h : op.assignable s = false) : step s op = (s, .throw .critical) := by
  cases op <;> cases s <;> first | rfl | (simp [Op.assignable] at h; done) | (simp [Op.isAssign] at hop; done)

/-! ### configurable objects -/

/-- **unknown_name_throws**: looking up a name that was never registered throws (whatever one wanted to do with
    the parameter) and `parameter_if` answers null. -/
theorem unknown_name_throws (c : Config α) (name : String) (op : Op α) (h : name ∉ c.names) :
    c.applyAt name op = (c, .throw .critical) ∧ c.has name = false := by
  have hf := find?_none_of_not_mem c name h
  simp [Config.applyAt, Config.has, hf]

/-- **duplicate_register_throws**: registering a second parameter under a name already in use throws and leaves
    the registered parameters as they were. -/
theorem duplicate_register_throws (c : Config α) (name : String) (s : Storage α) (h : name ∈ c.names) :
    c.register name s = (c, true) := by
  obtain ⟨s', hs⟩ := find?_some_of_mem c name h
  simp [Config.register, Config.has, hs]

/-- **register_then_found**: a new name is accepted, appended, and found afterwards with the registered value. -/
theorem register_then_found (c : Config α) (name : String) (s : Storage α) (h : name ∉ c.names) :
    (c.register name s).2 = false ∧ (c.register name s).1.names = c.names ++ [name] ∧
      (c.register name s).1.find? name = some s := by
  have hf := find?_none_of_not_mem c name h
  have hn : c.params.find? (fun p => p.1 == name) = none := by
    unfold Config.find? at hf
    cases hq : c.params.find? (fun p => p.1 == name) with
    | none => rfl
    | some q => rw [hq] at hf; cases hf
  simp [Config.register, Config.has, Config.names, Config.find?, List.find?_append, hn]

/-- **config_preserves_domain**: every registered parameter of a configurable object stays inside its domain
    under any lookup-and-operate step (`parameter(name) = value`, `config(name, value)`, typed reads), and
    under registration of a parameter that is itself inside its domain (the only kind that can be constructed). -/
theorem config_preserves_domain (c : Config α) (hc : c.InDomain) :
    (∀ name op, (c.applyAt name op).1.InDomain) ∧
    (∀ name s, s.InDomain → (c.register name s).1.InDomain) := by
  constructor
  · intro name op
    unfold Config.applyAt
    cases hf : c.find? name with
    | none => exact hc
    | some s =>
      obtain ⟨q, hq, hqs⟩ := find?_mem c name s hf
      have hs : s.InDomain := hqs ▸ hc q hq
      intro p hp
      rcases setFirst_mem name _ c.params p hp with h | h
      · exact hc p h
      · rw [h]; exact step_preserves_domain s op hs
  · intro name s hs
    unfold Config.register
    split
    · exact hc
    · intro p hp
      rcases List.mem_append.1 hp with h | h
      · exact hc p h
      · rw [List.mem_singleton.1 h]; exact hs

end

/-! ### what the factories hand out (table regenerated from the implementation on every run) -/

/-- **defaults_in_domain**: every default of every parameter registered by every object obtainable from the 11
    factories (solvers, line-searches, losses, splitters, tuners, generators, weak learners, linear models, data
    sources, functions) is inside its declared domain — evaluated by the kernel on exact doubles. -/
theorem defaults_in_domain : ∀ e ∈ FactoryParams.table, ∀ p ∈ e.params, p.2.InDomain := by
  decide +kernel

/-- **defaults_constructible**: the regenerated guards of src/parameter.cpp accept every one of these defaults
    (so the table and the guards agree on every boundary that a real parameter sits on). -/
theorem defaults_constructible : ∀ e ∈ FactoryParams.table, ∀ p ∈ e.params, constructible p.2 = true := by
  decide +kernel

/-- **type_ids_match**: every object reports the id it was registered under, no id is registered twice within a
    factory, and the parameter names of an object are pairwise distinct. -/
theorem type_ids_match :
    (∀ e ∈ FactoryParams.table, e.typeId = e.id ∧ (e.params.map (·.1)).Nodup) ∧
    (∀ ch ∈ FactoryParams.chunks, (ch.map (·.id)).Nodup) := by
  decide +kernel


/-! ## gap-closing round: the rest of the interface -/

section
variable {α : Type} [LT α] [LE α] [DecidableLT α] [DecidableLE α] [FOps α]

/-! ### `rejected_is_noop`, kind by kind (a change of ONE of the regenerated `update` functions breaks the theorem of
    that kind) -/

/-- enumeration: whatever is tried on it and thrown — a string that is not a name of the enumeration, a number, a pair,
    a mismatched read — the stored name and the domain are exactly what they were -/
theorem rejected_is_noop_enum (p : EnumP) (op : Op α) (h : (step (Storage.enum p : Storage α) op).2.isThrow = true) :
    (step (Storage.enum p : Storage α) op).1 = .enum p := rejected_is_noop _ op h

/-- a string that is not a name of the enumeration is rejected by both ways of assigning it (`operator=(string_t)`,
    `operator=(tenum)` goes through the same function) and nothing is stored -/
theorem enum_out_of_domain_rejected (p : EnumP) (v : String) (hv : v ∉ p.domain) :
    step (Storage.enum p : Storage α) (.setString v) = (.enum p, .throw .critical) ∧
    step (Storage.enum p : Storage α) (.setEnum v) = (.enum p, .throw .critical) := by
  have h2 : (updateEnum p v).2 = true := by
    cases h : (updateEnum p v).2 with
    | true => rfl
    | false => exact absurd ((updateEnum_iff p v).1 h) hv
  have h1 := updateEnum_reject p v h2
  constructor <;> simp [step, setEnum, setString, ofUpd, h1, h2]

theorem rejected_is_noop_integer (p : Range Int) (op : Op α)
    (h : (step (Storage.irange p : Storage α) op).2.isThrow = true) :
    (step (Storage.irange p : Storage α) op).1 = .irange p := rejected_is_noop _ op h

theorem rejected_is_noop_scalar (p : Range α) (op : Op α) (h : (step (Storage.frange p) op).2.isThrow = true) :
    (step (Storage.frange p) op).1 = .frange p := rejected_is_noop _ op h

theorem rejected_is_noop_integer_pair (p : PRange Int) (op : Op α)
    (h : (step (Storage.iprange p : Storage α) op).2.isThrow = true) :
    (step (Storage.iprange p : Storage α) op).1 = .iprange p := rejected_is_noop _ op h

theorem rejected_is_noop_scalar_pair (p : PRange α) (op : Op α) (h : (step (Storage.fprange p) op).2.isThrow = true) :
    (step (Storage.fprange p) op).1 = .fprange p := rejected_is_noop _ op h

theorem rejected_is_noop_string (v : String) (op : Op α) (h : (step (Storage.str v : Storage α) op).2.isThrow = true) :
    (step (Storage.str v : Storage α) op).1 = .str v := rejected_is_noop _ op h

/-- an enumeration stays an enumeration over the same names, holding one of them, along ANY history — so every later
    read, write or copy sees a name of the enumeration -/
theorem enum_history_in_domain (p : EnumP) (hp : p.InDomain) (ops : List (Op α)) :
    ∃ q : EnumP, run (Storage.enum p : Storage α) ops = .enum q ∧ q.domain = p.domain ∧ q.value ∈ p.domain := by
  induction ops generalizing p with
  | nil => exact ⟨p, rfl, rfl, hp⟩
  | cons op ops ih =>
    have key : ∃ q : EnumP, (step (Storage.enum p : Storage α) op).1 = .enum q ∧ q.domain = p.domain ∧ q.InDomain := by
      have upd : ∀ v : String, (updateEnum p v).1.domain = p.domain ∧ (updateEnum p v).1.InDomain := by
        intro v
        cases h : (updateEnum p v).2 with
        | false =>
          rw [(updateEnum_accept p v h).1]; exact ⟨rfl, (updateEnum_accept p v h).2⟩
        | true => rw [updateEnum_reject p v h]; exact ⟨rfl, hp⟩
      cases op with
      | setString v => exact ⟨(updateEnum p v).1, rfl, (upd v).1, (upd v).2⟩
      | setEnum v => exact ⟨(updateEnum p v).1, rfl, (upd v).1, (upd v).2⟩
      | _ => exact ⟨p, rfl, rfl, hp⟩
    obtain ⟨q, hq, hqd, hqi⟩ := key
    obtain ⟨r, hr, hrd, hrv⟩ := ih q hqi
    refine ⟨r, ?_, hrd.trans hqd, hqd ▸ hrv⟩
    simp only [run, hq, hr]

/-! ### every arithmetic overload of `operator=`, the narrowing reads, the converting constructors -/

variable [FNarrow α]

/-- every overload of `operator=(tscalar)` is one of the two assignments of the basic alphabet applied to the converted
    argument; every other extended operation leaves the parameter alone -/
theorem xstep_lowers (s : Storage α) (x : XOp α) :
    (∀ op, x.lower = some op → (xstep s x).1 = (step s op).1 ∧ (xstep s x).2 = .res (step s op).2) ∧
    (x.lower = none → (xstep s x).1 = s) := by
  constructor
  · intro op h
    cases x <;> simp only [XOp.lower, Option.some.injEq, reduceCtorEq] at h <;> subst h <;> exact ⟨rfl, rfl⟩
  · intro h
    cases x with
    | eqWith b spec => simp only [xstep]; split <;> rfl
    | readI32 => cases s <;> rfl
    | readU64 => cases s <;> rfl
    | readF32 => cases s <;> rfl
    | readPairI32 => cases s <;> rfl
    | readPairF32 => cases s <;> rfl
    | _ => simp [XOp.lower] at h

/-- the stored value stays inside the declared domain under every operation of the whole interface -/
theorem xstep_preserves_domain (s : Storage α) (x : XOp α) (h : s.InDomain) : (xstep s x).1.InDomain := by
  cases hl : x.lower with
  | some op => rw [((xstep_lowers s x).1 op hl).1]; exact step_preserves_domain s op h
  | none => rw [(xstep_lowers s x).2 hl]; exact h

/-- … and an operation of the whole interface that throws leaves it as it was -/
theorem xrejected_is_noop (s : Storage α) (x : XOp α) (h : (xstep s x).2.isThrow = true) : (xstep s x).1 = s := by
  cases hl : x.lower with
  | some op =>
    have := (xstep_lowers s x).1 op hl
    rw [this.1]
    apply rejected_is_noop
    rw [this.2] at h
    exact h
  | none => exact (xstep_lowers s x).2 hl

/-- the converting factory functions: whatever arithmetic types the bounds and the default are given in, a parameter
    that is constructed is inside its domain — the domain being the CONVERTED bounds -/
theorem xconstruct_in_domain (spec : XSpec α) (s : Storage α) (h : xmake spec = .ok s) : s.InDomain :=
  construct_in_domain spec.lower s h

theorem xreachable_in_domain (spec : XSpec α) (s0 : Storage α) (h : xmake spec = .ok s0) (ops : List (XOp α)) :
    (xrun s0 ops).InDomain := by
  have h0 := xconstruct_in_domain spec s0 h
  clear h
  induction ops generalizing s0 with
  | nil => exact h0
  | cons op ops ih => exact ih (xstep s0 op).1 (xstep_preserves_domain s0 op h0)

/-- `value<int32_t>()` of an integer parameter returns the stored value iff it fits: exact on [-2^31, 2^31), and always
    the value modulo 2^32 (no throw, no saturation) -/
theorem readI32_exact (p : Range Int) :
    (-twoP31 ≤ p.value ∧ p.value < twoP31 →
      xstep (Storage.irange p : Storage α) .readI32 = (.irange p, .res (.int p.value))) ∧
    (∃ v, xstep (Storage.irange p : Storage α) .readI32 = (.irange p, .res (.int v)) ∧
      -twoP31 ≤ v ∧ v < twoP31 ∧ (v - p.value) % twoP32 = 0) := by
  constructor
  · intro h; simp only [xstep, wrapI32_id p.value h]
  · refine ⟨wrapI32 p.value, rfl, (wrapI32_range _).1, (wrapI32_range _).2, ?_⟩
    unfold wrapI32 twoP32 twoP31
    simp only
    split <;> omega

/-- … in particular for every value of a declared domain inside [-2^31, 2^31) -/
theorem readI32_exact_of_domain (p : Range Int) (hd : p.InDomain) (hmin : -twoP31 ≤ p.min) (hmax : p.max < twoP31) :
    xstep (Storage.irange p : Storage α) .readI32 = (.irange p, .res (.int p.value)) := by
  apply (readI32_exact p).1
  obtain ⟨_, h1, h2⟩ := hd
  have a : p.min ≤ p.value := by cases hc : p.mincomp <;> rw [hc] at h1 <;> simp only [Cmp.Rel] at h1 <;> omega
  have b : p.value ≤ p.max := by cases hc : p.maxcomp <;> rw [hc] at h2 <;> simp only [Cmp.Rel] at h2 <;> omega
  omega

/-- `value<uint64_t>()` / `value<size_t>()` of an integer parameter: exact for a non-negative `int64_t` -/
theorem readU64_exact (p : Range Int) (h : 0 ≤ p.value ∧ p.value < XF.twoP63) :
    xstep (Storage.irange p : Storage α) .readU64 = (.irange p, .res (.int p.value)) := by
  have : wrapU64 p.value = p.value := wrapU64_id _ ⟨h.1, by unfold XF.twoP63 at h; unfold twoP64; omega⟩
  simp only [xstep, this]

/-- the narrowing reads of the other kinds throw `logical_error` like the full-width ones -/
theorem narrow_read_mismatch_throws (s : Storage α) :
    (match s with | .irange _ | .frange _ => True | _ => (xstep s .readI32).2 = .res (.throw .critical) ∧
      (xstep s .readU64).2 = .res (.throw .critical) ∧ (xstep s .readF32).2 = .res (.throw .critical)) ∧
    (match s with | .iprange _ | .fprange _ => True | _ => (xstep s .readPairI32).2 = .res (.throw .critical) ∧
      (xstep s .readPairF32).2 = .res (.throw .critical)) := by
  cases s <;> exact ⟨by first | trivial | exact ⟨rfl, rfl, rfl⟩, by first | trivial | exact ⟨rfl, rfl⟩⟩

end

/-! ### the typed reads of the library (tables regenerated on every run) -/

/-- what `fitsRead` promises for `value<int>()`: exact on every value of the declared domain -/
theorem fitsRead_i32_sound (q : Range Int) (h : fitsRead false .i32 (.irange q) = true) (hd : q.InDomain) :
    xstep (Storage.irange q : Storage XF) .readI32 = (.irange q, .res (.int q.value)) := by
  simp only [fitsRead, Bool.not_false, Bool.true_and, decide_eq_true_eq] at h
  exact readI32_exact_of_domain q hd h.1 h.2

/-- what `fitsRead` promises for `value<uint64_t>()` / `value<size_t>()` (the stored value being an `int64_t`) -/
theorem fitsRead_u64_sound (q : Range Int) (h : fitsRead false .u64 (.irange q) = true) (hd : q.InDomain)
    (h64 : q.value < XF.twoP63) :
    xstep (Storage.irange q : Storage XF) .readU64 = (.irange q, .res (.int q.value)) := by
  simp only [fitsRead, Bool.not_false, Bool.true_and, decide_eq_true_eq] at h
  apply readU64_exact q
  obtain ⟨_, h1, _⟩ := hd
  have a : q.min ≤ q.value := by cases hc : q.mincomp <;> rw [hc] at h1 <;> simp only [Cmp.Rel] at h1 <;> omega
  exact ⟨by omega, h64⟩

/-- **library_reads_well_typed**: every typed read `parameter("name").value<T>()` / `.value_pair<T>()` in the sources of
    the library, against every parameter of that name registered by an object of the factories or by `ml::params_t` /
    `gboost_model_t`: the read is of the parameter's kind (it cannot throw `logical_error`) and narrowing reads
    (`int`, `size_t`, `uint64_t`, integer as `scalar_t`) are exact on the whole declared domain. -/
theorem library_reads_well_typed :
    (∀ r ∈ ParamReads.reads, r.kind = RKind.ofType r.ty) ∧
    (∀ r ∈ ParamReads.reads, ∀ p ∈ allParams, p.1 = r.name → fitsRead r.pair r.kind p.2 = true) :=
  ⟨reads_kinds_checked, reads_fit_table⟩

/-! ### `operator==` and copies -/

/-- a parameter that is inside its domain equals itself under `operator==` (bounds and value are not NaN), and
    `operator==` needs equal names -/
theorem param_eq_self (n : String) (s : Storage XF) (h : s.InDomain) :
    paramEq n s n s = true ∧ ∀ m, m ≠ n → paramEq n s m s = false := by
  constructor
  · simp only [paramEq, beq_self_eq_true, Bool.true_and]
    cases s with
    | mono => rfl
    | str v => simp [Storage.eqv]
    | enum p => simp [Storage.eqv]
    | irange p => simp [Storage.eqv, Range.eqv]
    | iprange p => simp [Storage.eqv, PRange.eqv]
    | frange p =>
      obtain ⟨_, h1, h2⟩ := h
      have a := XF.eqNum_self_of_rel_left _ _ _ h1
      have b := XF.eqNum_self_of_rel_right _ _ _ h1
      have c := XF.eqNum_self_of_rel_right _ _ _ h2
      simp [Storage.eqv, Range.eqv, FNarrow.eqNum, a, b, c]
    | fprange p =>
      obtain ⟨_, _, h1, h2, h3⟩ := h
      have a := XF.eqNum_self_of_rel_left _ _ _ h1
      have b := XF.eqNum_self_of_rel_right _ _ _ h1
      have c := XF.eqNum_self_of_rel_right _ _ _ h2
      have d := XF.eqNum_self_of_rel_right _ _ _ h3
      simp [Storage.eqv, PRange.eqv, FNarrow.eqNum, a, b, c, d]
  · intro m hm
    have : (n == m) = false := by simpa using (Ne.symm hm)
    simp [paramEq, this]

/-- **clone_configuration_equal**: a clone (copy construction, what a setter stores, what `factory.get` hands out) has
    the type id, the parameters and — recursively — the owned objects of its source -/
theorem clone_configuration_equal {α : Type} (t : Tree α) : t.clone = t := Tree.clone_eq t

section
variable {α : Type} [LT α] [LE α] [DecidableLT α] [DecidableLE α] [FOps α]

/-- **clone_independent**: along any history over variables (clone, install, extract, assign, parameter assignments,
    probes) a variable changes only by operations applied to IT: a clone and its source never influence each other -/
theorem clone_independent (lookup : String → String → Option (Tree α)) (ops : List (OOp α)) (env : Env α) (i : Nat)
    (hi : i < env.length) (h : ∀ op ∈ ops, op.target ≠ some i) : (orun lookup env ops)[i]? = env[i]? :=
  orun_frame lookup ops env i hi h

/-! ### configurable objects: exact names -/

/-- **lookup_exact_name**: the lookup of `n` succeeds iff some registered parameter is named exactly `n` (a prefix or an
    extension of a registered name is unknown), and registering `n` is rejected iff `n` is registered already -/
theorem lookup_exact_name (c : Config α) (n : String) :
    (c.has n = true ↔ n ∈ c.names) ∧
    ((∃ s, c.find? n = some s) ↔ ∃ p ∈ c.params, p.1 = n) ∧
    (∀ op, n ∉ c.names → c.applyAt n op = (c, .throw .critical)) ∧
    (∀ s, (c.register n s).2 = true ↔ n ∈ c.names) := by
  refine ⟨Config.has_iff_mem c n, ?_, ?_, ?_⟩
  · constructor
    · rintro ⟨s, hs⟩
      have : n ∈ c.names := by
        refine Classical.byContradiction (fun hn => ?_)
        rw [find?_none_of_not_mem c n hn] at hs; cases hs
      simpa [Config.names] using this
    · rintro ⟨p, hp, hpn⟩
      exact find?_some_of_mem c n (by simp only [Config.names, List.mem_map]; exact ⟨p, hp, hpn⟩)
  · intro op hn
    exact (unknown_name_throws c n op hn).1
  · intro s
    unfold Config.register
    constructor
    · intro h
      by_cases hh : c.has n = true
      · exact (Config.has_iff_mem c n).1 hh
      · simp [hh] at h
    · intro h
      simp [(Config.has_iff_mem c n).2 h]

end

/-! ### the factory -/

section
variable {α : Type}

/-- **factory_add_spec**: `add` of an object whose id is registered already returns `false` and changes nothing; otherwise
    it returns `true`, the object is appended under the id it reports and is found afterwards with its description -/
theorem factory_add_spec (f : Factory α) (obj : Tree α) (d : String) :
    (obj.typeId ∈ f.allIds → f.add obj d = (f, false)) ∧
    (obj.typeId ∉ f.allIds → (f.add obj d).2 = true ∧ (f.add obj d).1.allIds = f.allIds ++ [obj.typeId] ∧
      (f.add obj d).1.get obj.typeId = some obj ∧ (f.add obj d).1.description obj.typeId = d ∧
      (f.add obj d).1.has obj.typeId = true) := by
  constructor
  · intro h; simp [Factory.add, (Factory.has_iff_mem f _).2 h]
  · intro h
    have hfn : f.find? obj.typeId = none := (Factory.find?_none_iff f _).2 h
    have hf : (Factory.mk (f.protos ++ [⟨obj.typeId, obj, d⟩])).find? obj.typeId = some ⟨obj.typeId, obj, d⟩ :=
      Factory.find?_append_new f ⟨obj.typeId, obj, d⟩ hfn
    simp [Factory.add, Factory.has, hfn, Factory.get, Factory.description, hf, Factory.allIds, Tree.clone_eq]

/-- **factory_get_unknown**: an id that was never registered: `get` returns null, `has` is false, the description is empty -/
theorem factory_get_unknown (f : Factory α) (id : String) (h : id ∉ f.allIds) :
    f.get id = none ∧ f.has id = false ∧ f.description id = "" := by
  have := (Factory.find?_none_iff f id).2 h
  simp [Factory.get, Factory.has, Factory.description, this]

/-- the invariant "every prototype is filed under the id it reports, no id twice" holds for every factory built by `add` -/
theorem factory_wf_preserved (f : Factory α) (obj : Tree α) (d : String) (h : f.WF ∧ f.allIds.Nodup) :
    (f.add obj d).1.WF ∧ (f.add obj d).1.allIds.Nodup := by
  unfold Factory.add
  cases hc : f.has obj.typeId with
  | true => simpa using h
  | false =>
    have hn : obj.typeId ∉ f.allIds := fun hm => by
      rw [(Factory.has_iff_mem f _).2 hm] at hc; cases hc
    simp only [Bool.false_eq_true, if_false]
    constructor
    · intro p hp
      rcases List.mem_append.1 hp with hp | hp
      · exact h.1 p hp
      · rw [List.mem_singleton.1 hp]
    · simp only [Factory.allIds, List.map_append, List.map_cons, List.map_nil]
      exact List.nodup_append.2 ⟨h.2, (by simp), by
        intro a ha b hb; rw [List.mem_singleton.1 hb]; intro hab; exact hn (hab ▸ ha)⟩

/-- **factory_get_is_clone**: what `get(id)` hands out is a clone of the prototype registered under `id`: it reports `id`
    and has the prototype's configuration -/
theorem factory_get_is_clone (f : Factory α) (hwf : f.WF) (id : String) (t : Tree α) (h : f.get id = some t) :
    t.typeId = id ∧ ∃ p ∈ f.protos, p.id = id ∧ t = p.obj := by
  unfold Factory.get at h
  cases hf : f.find? id with
  | none => rw [hf] at h; cases h
  | some p =>
    rw [hf] at h
    simp only [Option.map_some, Option.some.injEq] at h
    obtain ⟨hp, hid⟩ := Factory.find?_some_spec f id p hf
    rw [Tree.clone_eq] at h
    exact ⟨by rw [← h, ← hwf p hp, hid], p, hp, hid, h.symm⟩

/-- **factory_ids_spec**: `ids(regex)` lists exactly the registered ids the regular expression matches, in registration order -/
theorem factory_ids_spec (f : Factory α) (pat : Pat) :
    (∀ i, i ∈ f.ids pat ↔ i ∈ f.allIds ∧ pat.matches i = true) ∧ (f.ids pat).Sublist f.allIds := by
  constructor
  · intro i; simp [Factory.ids, List.mem_filter]
  · exact List.filter_sublist

variable [LT α] [LE α] [DecidableLT α] [DecidableLE α] [FOps α]

/-- **factory_prototypes_untouched**: nothing but `add` changes the factory — not `get`, not any assignment to a
    parameter of an object it handed out, not cloning such an object: the prototypes are never handed out themselves.
    So after any such history `get(id)` hands out what it handed out before. -/
theorem factory_prototypes_untouched (st : FState α) (ops : List (FOp α))
    (h : ∀ op ∈ ops, ∀ obj d, op ≠ FOp.add obj d) :
    (frun st ops).factory = st.factory ∧ ∀ id, (frun st ops).factory.get id = st.factory.get id := by
  have key : (frun st ops).factory = st.factory := by
    induction ops generalizing st with
    | nil => rfl
    | cons op ops ih =>
      have h1 : (fstep st op).1.factory = st.factory := by
        cases op with
        | add obj d => exact absurd rfl (h _ List.mem_cons_self obj d)
        | get id => simp only [fstep]; split <;> rfl
        | setp v name o => simp only [fstep]; split <;> rfl
        | cloneVar v => simp only [fstep]; split <;> rfl
        | _ => rfl
      simp only [frun]
      rw [ih (fstep st op).1 (fun o ho => h o (List.mem_cons_of_mem _ ho)), h1]
  exact ⟨key, fun id => by rw [key]⟩

/-- an assignment to a parameter of one got object changes no other got object -/
theorem got_objects_independent (st : FState α) (v : Nat) (name : String) (op : Op α) (i : Nat) (hi : i ≠ v) :
    (fstep st (.setp v name op)).1.vars[i]? = st.vars[i]? := by
  simp only [fstep]
  split
  · rfl
  · exact List.getElem?_set_ne (Ne.symm hi)

end

/-! ### non-vacuity -/

private def exI : Storage XF := .irange ⟨5, 0, 10, .le, .lt⟩
private def exOne : XF := .fin false 4503599627370496 (-52)
private def exF : Storage XF := .frange ⟨exOne, .fin false 0 (-1074), exOne, .lt, .le⟩
private def exP : Storage XF := .iprange ⟨1, 2, 0, 5, .le, .lt, .le⟩

/-- an integer parameter `0 <= v < 10`: accepted, rejected at the excluded bound, rejected garbage, read back -/
example :
    (Except.toOption' (make (.int ⟨5, 0, 10, .le, .lt⟩)) = some exI ∧ exI.InDomain) ∧
    ((step exI (.setInt 0)).2.isThrow = false ∧ (step exI (.setInt 10)).2.isThrow = true ∧
      (step exI (.setInt 9)).2.isThrow = false) ∧
    ((step exI (.setString "7x")).1 = Storage.irange ⟨7, 0, 10, .le, .lt⟩) ∧
    ((step exI (.setString "x7")).2.isThrow = true) ∧
    ((step exI .readString).2.isThrow = true) ∧
    Except.toOption' (make (.int ⟨10, 0, 10, .le, .lt⟩ : Spec XF)) = none := by
  decide +kernel

/-- a scalar parameter `0 < v <= 1` on exact doubles: NaN, +∞, -0 and the double after 1 are rejected, 1 and the
    smallest subnormal are accepted; "1e-400" is a range error of `std::stod`, "0x1p-1" is 0.5 -/
example :
    ((step exF (.setFloat .nan)).2.isThrow = true ∧ (step exF (.setFloat (.inf false))).2.isThrow = true ∧
      (step exF (.setFloat (.fin true 0 (-1074)))).2.isThrow = true ∧
      (step exF (.setFloat (.fin false 4503599627370497 (-52)))).2.isThrow = true) ∧
    ((step exF (.setFloat exOne)).2.isThrow = false ∧ (step exF (.setFloat (.fin false 1 (-1074)))).2.isThrow = false) ∧
    (Except.toOption' (stodXF "1e-400") = none ∧
      Except.toOption' (stodXF "0x1p-1") = some (.fin false 4503599627370496 (-53)) ∧
      Except.toOption' (stodXF "abc") = none ∧
      Except.toOption' (stodXF "0.1") = some (.fin false 7205759403792794 (-56))) := by
  decide +kernel

/-- an ordered pair `0 <= v1 < v2 <= 5`: out of order and equal pairs are rejected, the string "1;x;4" is (1, 4) -/
example :
    (step exP (.setPairInt 3 3)).2.isThrow = true ∧ (step exP (.setPairInt 4 3)).2.isThrow = true ∧
    (step exP (.setPairInt 0 5)).2.isThrow = false ∧
    (step exP (.setString "1;x;4")).1 = Storage.iprange ⟨1, 4, 0, 5, .le, .lt, .le⟩ := by
  decide +kernel

/-- the table is not empty and contains constrained parameters of every numeric kind -/
example : FactoryParams.table.length > 100 ∧
    (FactoryParams.table.map (fun e => e.params.length)).sum > 200 ∧
    FactoryParams.table.any (fun e => e.params.any (fun p => match p.2 with | .fprange _ => true | _ => false)) = true ∧
    FactoryParams.table.any (fun e => e.params.any (fun p => match p.2 with | .enum _ => true | _ => false)) = true := by
  decide +kernel

private def exC : Config XF := ((Config.empty : Config XF).register "a" (.irange ⟨5, 0, 10, .le, .le⟩)).1

/-- a configurable object: duplicate registration and unknown names -/
example :
    (exC.register "a" .mono).2 = true ∧ (exC.applyAt "b" .readInt).2.isThrow = true ∧
    (exC.applyAt "a" (.setInt 7)).2.isThrow = false ∧ (exC.applyAt "a" (.setInt 11)).2.isThrow = true := by
  decide +kernel


/-! ### non-vacuity of the gap-closing theorems -/

private def exE : Storage XF := .enum ⟨"green", ["red", "green", "blue", "dark blue"]⟩

/-- an enumeration: a string that is not one of its names (a prefix, another case, a blank more) is rejected and the stored
    name survives; reads, a write+read and accepted assignments afterwards see names of the enumeration only -/
example :
    (step exE (.setString "gree")).1 = exE ∧ (step exE (.setString "gree")).2.isThrow = true ∧
    (step exE (.setString "Green")).1 = exE ∧ (step exE (.setString "dark  blue")).2.isThrow = true ∧
    run exE [.setString "pink", .readEnum, .writeRead, .setString "dark blue", .setString "", .readEnum] =
      .enum ⟨"dark blue", ["red", "green", "blue", "dark blue"]⟩ := by
  decide +kernel

private def exBig : Storage XF := .irange ⟨2147483648, 0, 4294967296, .le, .le⟩
private def resInt? : XRes XF → Option Int
  | .res (.int v) => some v
  | _ => none
private def resFloat? : XRes XF → Option XF
  | .res (.float v) => some v
  | _ => none

/-- the hypothesis of `readI32_exact` is necessary: an integer parameter whose domain exceeds `int` holds 2^31 and
    `value<int>()` answers -2^31 without throwing (replayed on the real code by a corpus line); a negative value read as
    `uint64_t` wraps; 16777217 read as `float` is 16777216; 1e10 read as `int` from a scalar parameter is -2^31 -/
example :
    exBig.InDomain ∧ (xstep exBig .readI32).2.isThrow = false ∧
    resInt? (xstep exBig .readI32).2 = some (-2147483648) ∧
    resInt? (xstep (Storage.irange ⟨-1, -5, 5, .le, .le⟩ : Storage XF) .readU64).2 = some 18446744073709551615 ∧
    resFloat? (xstep (Storage.irange ⟨16777217, 0, 100000000, .le, .le⟩ : Storage XF) .readF32).2 =
      some (XF.ofI64 16777216) ∧
    XF.toI32 (XF.ofI64 10000000000) = -2147483648 ∧ XF.toI32 (.fin true 3 (-1)) = -1 := by
  decide +kernel

/-- the converting constructors: `make_integer("p", 0.5, LE, 1.7, LE, 10.9)` is the parameter `0 <= 1 <= 10`;
    `make_integer("p", 0.5, LT, 0.9, LE, 10)` does not exist (the converted default 0 is not above the converted
    bound 0) although 0.5 < 0.9 -/
example :
    Except.toOption' (xmake (.integer (.f (.fin false 1 (-1))) .le (.f (.fin false 17 (-3))) .le
      (.f (.fin false 87 (-3))) : XSpec XF)) = some (.irange ⟨2, 0, 10, .le, .le⟩) ∧
    Except.toOption' (xmake (.integer (.f (.fin false 1 (-1))) .lt (.f (.fin false 7 (-3))) .le (.i 10) : XSpec XF)) =
      none := by
  decide +kernel

/-- `operator==`: -0 and +0 are equal values with different bits; another name is another parameter -/
example :
    paramEq "p" (.frange ⟨.fin true 0 (-1074), .fin true 0 (-1074), exOne, .le, .le⟩ : Storage XF)
      "p" (.frange ⟨.fin false 0 (-1074), .fin false 0 (-1074), exOne, .le, .le⟩) = true ∧
    paramEq "p" exI "q" exI = false ∧ paramEq "p" exI "p" exI = true ∧
    paramEq "p" exI "p" (.irange ⟨5, 0, 10, .le, .le⟩) = false := by
  decide +kernel

private def exC2 : Config XF :=
  (((Config.empty : Config XF).register "solver::epsilon" (.irange ⟨5, 0, 10, .le, .le⟩)).1.register "ab" .mono).1

/-- exact names: prefixes, the empty name and extensions of registered names are unknown, and can be registered -/
example :
    exC2.has "solver::eps" = false ∧ exC2.has "" = false ∧ exC2.has "a" = false ∧ exC2.has "abc" = false ∧
    exC2.has "ab" = true ∧ (exC2.applyAt "solver::epsilo" .readInt).2.isThrow = true ∧
    (exC2.register "solver" .mono).2 = false ∧ (exC2.register "" .mono).2 = false ∧
    (exC2.register "solver::epsilon" .mono).2 = true := by
  decide +kernel

private def exObj (id : String) (v : Int) : Tree XF := .node id [("p", .irange ⟨v, 0, 10, .le, .le⟩)] []
private def exFac : Factory XF := ((Factory.empty.add (exObj "gd" 3) "gradient descent").1.add (exObj "cgd-n" 4) "cgd").1

/-- a factory: duplicate ids, unknown ids, `ids(regex)`, descriptions; a got object is modified, a second `get` hands out
    the default again -/
example :
    exFac.WF ∧ exFac.allIds = ["gd", "cgd-n"] ∧ (exFac.add (exObj "gd" 9) "again").2 = false ∧
    (exFac.add (exObj "gd" 9) "again").1.allIds = ["gd", "cgd-n"] ∧ exFac.has "g" = false ∧ exFac.has "gd" = true ∧
    (exFac.get "gdx").isNone = true ∧ exFac.description "gd" = "gradient descent" ∧ exFac.description "cgd" = "" ∧
    exFac.ids .any = ["gd", "cgd-n"] ∧ exFac.ids (.pre "cgd") = ["cgd-n"] ∧ exFac.ids (.suf "d") = ["gd"] ∧
    exFac.ids (.sub "gd") = ["gd", "cgd-n"] ∧ exFac.ids (.lit "cgd") = [] ∧
    (let st := frun ⟨exFac, []⟩ [.get "gd", .setp 0 "p" (.setInt 7), .get "gd"]
     st.vars.map (·.params) = [(exObj "gd" 7).params, (exObj "gd" 3).params] ∧
       (st.factory.get "gd").map (·.params) = some (exObj "gd" 3).params) := by
  refine ⟨?_, by decide +kernel⟩
  intro p hp
  simp only [exFac, Factory.add, Factory.empty, Factory.has, Factory.find?, exObj, Tree.typeId] at hp
  simp at hp
  rcases hp with rfl | rfl <;> rfl

/-- the tables are not empty: 100+ distinct typed reads, narrowing ones among them -/
example : ParamReads.reads.length > 100 ∧ (ParamReads.reads.filter (fun r => r.kind == .i32)).length ≥ 5 ∧
    (ParamReads.reads.filter (fun r => r.kind == .u64)).length ≥ 4 ∧ allParams.length > 300 := by
  decide +kernel

end NanoVerif.Param
