import NanoVerif.Proofs.Parameter
import NanoVerif.Gen.FactoryParams
/-!
  C19 — property theorems: parameters stay inside their declared domain; what the factories hand out.

  The theorems are stated over
    * `Gen/ParamCheck.lean` (`check`, `updateEnum`, `updateRange`, `updatePair`: regenerated from the text of
      src/parameter.cpp on every run) through `Model/Parameter.lean` (`step`, `make`) and `Model/Configurable.lean`;
    * `Gen/FactoryParams.lean` (every registered parameter of every id of the 11 factories, regenerated from a
      run of the implementation).
  The *declared domain* (`Range.InDomain`, `PRange.InDomain`, `EnumP.InDomain`, `Storage.InDomain`) is written
  independently in `Model/ParamTypes.lean`. `α` (the scalar type) is arbitrary: the comparisons, `isfinite`, the
  int64 ↔ scalar conversions and `std::stod` are parameters, so the theorems hold in particular for IEEE doubles
  (`XF`) with NaN, ±∞ and signed zeros, and for whatever `static_cast<int64_t>` does to values outside its range.
-/
namespace NanoVerif.Param
open NanoVerif.Gen.ParamCheck NanoVerif.Gen

set_option linter.unusedSectionVars false

/-! ### the regenerated guards against the declared domain -/

/-- `check(LE, a, b) ⇔ a ≤ b`, `check(LT, a, b) ⇔ a < b` -/
theorem check_sound {β : Type} [LT β] [LE β] [DecidableLT β] [DecidableLE β] (c : Cmp) (a b : β) :
    check c a b = true ↔ c.Rel a b := check_iff c a b

/-- `update(range_t)` accepts exactly the values (after the `static_cast`) inside the declared domain, stores
    the converted value on acceptance and leaves the parameter untouched when it throws -/
theorem updateRange_accepts_iff {β γ : Type} [LT β] [LE β] [DecidableLT β] [DecidableLE β] [IsFinite β]
    (cast : γ → β) (p : Range β) (v : γ) :
    ((updateRange cast p v).2 = false ↔ ({ p with value := cast v } : Range β).InDomain) ∧
    ((updateRange cast p v).2 = false → (updateRange cast p v).1 = { p with value := cast v }) ∧
    ((updateRange cast p v).2 = true → (updateRange cast p v).1 = p) :=
  ⟨updateRange_iff cast p v, fun h => (updateRange_accept cast p v h).1, updateRange_reject cast p v⟩

theorem updatePair_accepts_iff {β γ : Type} [LT β] [LE β] [DecidableLT β] [DecidableLE β] [IsFinite β]
    (cast : γ → β) (p : PRange β) (v1 v2 : γ) :
    ((updatePair cast p v1 v2).2 = false ↔
      ({ p with value1 := cast v1, value2 := cast v2 } : PRange β).InDomain) ∧
    ((updatePair cast p v1 v2).2 = false →
      (updatePair cast p v1 v2).1 = { p with value1 := cast v1, value2 := cast v2 }) ∧
    ((updatePair cast p v1 v2).2 = true → (updatePair cast p v1 v2).1 = p) :=
  ⟨updatePair_iff cast p v1 v2, fun h => (updatePair_accept cast p v1 v2 h).1, updatePair_reject cast p v1 v2⟩

theorem updateEnum_accepts_iff (p : EnumP) (v : String) :
    ((updateEnum p v).2 = false ↔ ({ p with value := v } : EnumP).InDomain) ∧
    ((updateEnum p v).2 = false → (updateEnum p v).1 = { p with value := v }) ∧
    ((updateEnum p v).2 = true → (updateEnum p v).1 = p) :=
  ⟨updateEnum_iff p v, fun h => (updateEnum_accept p v h).1, updateEnum_reject p v⟩

section
variable {α : Type} [LT α] [LE α] [DecidableLT α] [DecidableLE α] [FOps α]

/-! ### one parameter, any history -/

/-- **step_preserves_domain**: whatever operation is applied — an assignment of an integer, a scalar (NaN and ±∞
    included), a pair, a string (numeric or garbage), an enumeration value, a typed read, a write+read — and
    whether it is accepted or throws, the stored value is inside the declared domain afterwards. -/
theorem step_preserves_domain (s : Storage α) (op : Op α) (h : s.InDomain) : (step s op).1.InDomain := by
  cases op with
  | setInt v =>
    cases s <;> first | exact h | exact ofUpd_range _ _ _ h
  | setFloat v =>
    cases s <;> first | exact h | exact ofUpd_range _ _ _ h
  | setPairInt v1 v2 =>
    cases s <;> first | exact h | exact ofUpd_pair _ _ _ _ h
  | setPairFloat v1 v2 =>
    cases s <;> first | exact h | exact ofUpd_pair _ _ _ _ h
  | setString v => exact setString_dom s v h
  | setEnum name =>
    cases s <;> first | exact h | exact setString_dom _ name h
  | readInt => cases s <;> exact h
  | readFloat => cases s <;> exact h
  | readPairInt => cases s <;> exact h
  | readPairFloat => cases s <;> exact h
  | readString => cases s <;> exact h
  | readEnum => cases s <;> exact h
  | writeRead => exact h

/-- **construct_in_domain**: a parameter that was constructed (the constructor did not throw) starts inside its
    domain: a default outside the domain cannot be registered. -/
theorem construct_in_domain (spec : Spec α) (s : Storage α) (h : make spec = .ok s) : s.InDomain := by
  cases spec with
  | mono => cases h; trivial
  | str v => cases h; trivial
  | enum p =>
    simp only [make, madeBy] at h
    split at h
    · cases h
    · rename_i hc
      cases h
      have hc' : (updateEnum p p.value).2 = false := by simpa using hc
      rw [(updateEnum_accept p p.value hc').1]; exact (updateEnum_accept p p.value hc').2
  | int p =>
    simp only [make, madeBy] at h
    split at h
    · cases h
    · rename_i hc
      cases h
      have hc' : (updateRange (fun (x : Int) => x) p p.value).2 = false := by simpa using hc
      rw [(updateRange_accept _ p p.value hc').1]; exact (updateRange_accept _ p p.value hc').2
  | float p =>
    simp only [make, madeBy] at h
    split at h
    · cases h
    · rename_i hc
      cases h
      have hc' : (updateRange (fun (x : α) => x) p p.value).2 = false := by simpa using hc
      rw [(updateRange_accept _ p p.value hc').1]; exact (updateRange_accept _ p p.value hc').2
  | ipair p =>
    simp only [make, madeBy] at h
    split at h
    · cases h
    · rename_i hc
      cases h
      have hc' : (updatePair (fun (x : Int) => x) p p.value1 p.value2).2 = false := by simpa using hc
      rw [(updatePair_accept _ p _ _ hc').1]; exact (updatePair_accept _ p _ _ hc').2
  | fpair p =>
    simp only [make, madeBy] at h
    split at h
    · cases h
    · rename_i hc
      cases h
      have hc' : (updatePair (fun (x : α) => x) p p.value1 p.value2).2 = false := by simpa using hc
      rw [(updatePair_accept _ p _ _ hc').1]; exact (updatePair_accept _ p _ _ hc').2

/-- **reachable_in_domain**: after *any* sequence of operations on a constructed parameter the stored value lies
    in the declared domain with its ordering constraints (induction over the history; no bound on its length). -/
theorem reachable_in_domain (spec : Spec α) (s0 : Storage α) (h : make spec = .ok s0) (ops : List (Op α)) :
    (run s0 ops).InDomain := by
  have h0 := construct_in_domain spec s0 h
  clear h
  induction ops generalizing s0 with
  | nil => exact h0
  | cons op ops ih => exact ih (step s0 op).1 (step_preserves_domain s0 op h0)

/-- **rejected_is_noop**: an operation that throws (value outside the domain, NaN, malformed text, wrong type,
    mismatched read) leaves the previous value — the whole stored alternative — intact. -/
theorem rejected_is_noop (s : Storage α) (op : Op α) (h : (step s op).2.isThrow = true) : (step s op).1 = s := by
  cases op with
  | setInt v =>
    cases s <;> first | rfl | exact ofUpd_noop _ _ _ (updateRange_reject _ _ _) h
  | setFloat v =>
    cases s <;> first | rfl | exact ofUpd_noop _ _ _ (updateRange_reject _ _ _) h
  | setPairInt v1 v2 =>
    cases s <;> first | rfl | exact ofUpd_noop _ _ _ (updatePair_reject _ _ _ _) h
  | setPairFloat v1 v2 =>
    cases s <;> first | rfl | exact ofUpd_noop _ _ _ (updatePair_reject _ _ _ _) h
  | setString v => exact setString_noop s v h
  | setEnum name =>
    cases s <;> first | rfl | exact setString_noop _ name h
  | readInt => cases s <;> rfl
  | readFloat => cases s <;> rfl
  | readPairInt => cases s <;> rfl
  | readPairFloat => cases s <;> rfl
  | readString => cases s <;> rfl
  | readEnum => cases s <;> rfl
  | writeRead => rfl

/-- **read_is_pure**: typed reads and the write+read round trip never change what is stored. -/
theorem read_is_pure (s : Storage α) (op : Op α) (h : op.isAssign = false) : (step s op).1 = s := by
  cases op <;> first | (simp [Op.isAssign] at h; done) | (cases s <;> rfl) | rfl

/-- **accepted_reads_back**: an accepted assignment is read back — by the typed read of the parameter's kind,
    which does not change the parameter — as the assigned value converted to the parameter's integer / scalar
    kind (`requested`: `static_cast` for numbers and pairs, `std::stoll` / `std::stod` of the tokens for strings,
    the name itself for enumerations and strings). -/
theorem accepted_reads_back (s : Storage α) (op : Op α) (hop : op.isAssign = true) (hok : (step s op).2 = Res.ok) :
    ∃ r, requested s op = some r ∧ step (step s op).1 ((step s op).1.readOp) = ((step s op).1, r) := by
  cases op with
  | setInt v =>
    cases s with
    | irange p =>
      have h1 := ofUpd_ok _ _ hok
      refine ⟨.int v, rfl, ?_⟩
      simp only [step, setInt, h1.2, (updateRange_accept _ p v h1.1).1, Storage.readOp]
    | frange p =>
      have h1 := ofUpd_ok _ _ hok
      refine ⟨.float (FOps.ofI64 v), rfl, ?_⟩
      simp only [step, setInt, h1.2, (updateRange_accept _ p v h1.1).1, Storage.readOp]
    | _ => simp [step, setInt] at hok
  | setFloat v =>
    cases s with
    | irange p =>
      have h1 := ofUpd_ok _ _ hok
      refine ⟨.int (FOps.toI64 v), rfl, ?_⟩
      simp only [step, setFloat, h1.2, (updateRange_accept _ p v h1.1).1, Storage.readOp]
    | frange p =>
      have h1 := ofUpd_ok _ _ hok
      refine ⟨.float v, rfl, ?_⟩
      simp only [step, setFloat, h1.2, (updateRange_accept _ p v h1.1).1, Storage.readOp]
    | _ => simp [step, setFloat] at hok
  | setPairInt v1 v2 =>
    cases s with
    | iprange p =>
      have h1 := ofUpd_ok _ _ hok
      refine ⟨.pairInt v1 v2, rfl, ?_⟩
      simp only [step, setPairInt, h1.2, (updatePair_accept _ p v1 v2 h1.1).1, Storage.readOp]
    | fprange p =>
      have h1 := ofUpd_ok _ _ hok
      refine ⟨.pairFloat (FOps.ofI64 v1) (FOps.ofI64 v2), rfl, ?_⟩
      simp only [step, setPairInt, h1.2, (updatePair_accept _ p v1 v2 h1.1).1, Storage.readOp]
    | _ => simp [step, setPairInt] at hok
  | setPairFloat v1 v2 =>
    cases s with
    | iprange p =>
      have h1 := ofUpd_ok _ _ hok
      refine ⟨.pairInt (FOps.toI64 v1) (FOps.toI64 v2), rfl, ?_⟩
      simp only [step, setPairFloat, h1.2, (updatePair_accept _ p v1 v2 h1.1).1, Storage.readOp]
    | fprange p =>
      have h1 := ofUpd_ok _ _ hok
      refine ⟨.pairFloat v1 v2, rfl, ?_⟩
      simp only [step, setPairFloat, h1.2, (updatePair_accept _ p v1 v2 h1.1).1, Storage.readOp]
    | _ => simp [step, setPairFloat] at hok
  | setString v => exact setString_reads_back s v hok
  | setEnum name =>
    cases s with
    | enum p =>
      obtain ⟨r, hr, hs⟩ := setString_reads_back (Storage.enum p) name hok
      exact ⟨r, hr, hs⟩
    | _ => simp [step, setEnum] at hok
  | _ => simp [Op.isAssign] at hop

/-- **mismatched_read_throws**: a typed read whose type does not fit the stored alternative throws
    (`logical_error`) and changes nothing. -/
theorem mismatched_read_throws (s : Storage α) (op : Op α) (hop : op.isAssign = false)
    (h : op.readable s = false) : step s op = (s, .throw .critical) := by
  cases op <;> cases s <;> first | rfl | (simp [Op.readable] at h; done) | (simp [Op.isAssign] at hop; done)

/-- **mismatched_assign_throws**: an assignment of a kind the stored alternative cannot take (a number to an
    enumeration, a pair to a range, an enumeration value to a number, anything to the empty parameter) throws
    and changes nothing. -/
theorem mismatched_assign_throws (s : Storage α) (op : Op α) (hop : op.isAssign = true)
    (h : op.assignable s = false) : step s op = (s, .throw .critical) := by
  cases op <;> cases s <;> first | rfl | (simp [Op.assignable] at h; done) | (simp [Op.isAssign] at hop; done)

/-! ### configurable objects -/

/-- **unknown_name_throws**: looking up a name that was never registered throws (whatever one wanted to do with
    the parameter) and `parameter_if` answers null. -/
theorem unknown_name_throws (c : Config α) (name : String) (op : Op α) (h : name ∉ c.names) :
    c.applyAt name op = (c, .throw .critical) ∧ c.has name = false := by
  have hf := find?_none_of_not_mem c name h
  simp [Config.applyAt, Config.has, hf]

/-- **duplicate_register_throws**: registering a second parameter under a name already in use throws and leaves
    the registered parameters as they were. -/
theorem duplicate_register_throws (c : Config α) (name : String) (s : Storage α) (h : name ∈ c.names) :
    c.register name s = (c, true) := by
  obtain ⟨s', hs⟩ := find?_some_of_mem c name h
  simp [Config.register, Config.has, hs]

/-- **register_then_found**: a new name is accepted, appended, and found afterwards with the registered value. -/
theorem register_then_found (c : Config α) (name : String) (s : Storage α) (h : name ∉ c.names) :
    (c.register name s).2 = false ∧ (c.register name s).1.names = c.names ++ [name] ∧
      (c.register name s).1.find? name = some s := by
  have hf := find?_none_of_not_mem c name h
  have hn : c.params.find? (fun p => p.1 == name) = none := by
    unfold Config.find? at hf
    cases hq : c.params.find? (fun p => p.1 == name) with
    | none => rfl
    | some q => rw [hq] at hf; cases hf
  simp [Config.register, Config.has, Config.names, Config.find?, List.find?_append, hn]

/-- **config_preserves_domain**: every registered parameter of a configurable object stays inside its domain
    under any lookup-and-operate step (`parameter(name) = value`, `config(name, value)`, typed reads), and
    under registration of a parameter that is itself inside its domain (the only kind that can be constructed). -/
theorem config_preserves_domain (c : Config α) (hc : c.InDomain) :
    (∀ name op, (c.applyAt name op).1.InDomain) ∧
    (∀ name s, s.InDomain → (c.register name s).1.InDomain) := by
  constructor
  · intro name op
    unfold Config.applyAt
    cases hf : c.find? name with
    | none => exact hc
    | some s =>
      obtain ⟨q, hq, hqs⟩ := find?_mem c name s hf
      have hs : s.InDomain := hqs ▸ hc q hq
      intro p hp
      rcases setFirst_mem name _ c.params p hp with h | h
      · exact hc p h
      · rw [h]; exact step_preserves_domain s op hs
  · intro name s hs
    unfold Config.register
    split
    · exact hc
    · intro p hp
      rcases List.mem_append.1 hp with h | h
      · exact hc p h
      · rw [List.mem_singleton.1 h]; exact hs

end

/-! ### what the factories hand out (table regenerated from the implementation on every run) -/

/-- **defaults_in_domain**: every default of every parameter registered by every object obtainable from the 11
    factories (solvers, line-searches, losses, splitters, tuners, generators, weak learners, linear models, data
    sources, functions) is inside its declared domain — evaluated by the kernel on exact doubles. -/
theorem defaults_in_domain : ∀ e ∈ FactoryParams.table, ∀ p ∈ e.params, p.2.InDomain := by
  decide +kernel

/-- **defaults_constructible**: the regenerated guards of src/parameter.cpp accept every one of these defaults
    (so the table and the guards agree on every boundary that a real parameter sits on). -/
theorem defaults_constructible : ∀ e ∈ FactoryParams.table, ∀ p ∈ e.params, constructible p.2 = true := by
  decide +kernel

/-- **type_ids_match**: every object reports the id it was registered under, no id is registered twice within a
    factory, and the parameter names of an object are pairwise distinct. -/
theorem type_ids_match :
    (∀ e ∈ FactoryParams.table, e.typeId = e.id ∧ (e.params.map (·.1)).Nodup) ∧
    (∀ ch ∈ FactoryParams.chunks, (ch.map (·.id)).Nodup) := by
  decide +kernel

/-! ### non-vacuity -/

private def exI : Storage XF := .irange ⟨5, 0, 10, .le, .lt⟩
private def exOne : XF := .fin false 4503599627370496 (-52)
private def exF : Storage XF := .frange ⟨exOne, .fin false 0 (-1074), exOne, .lt, .le⟩
private def exP : Storage XF := .iprange ⟨1, 2, 0, 5, .le, .lt, .le⟩

/-- an integer parameter `0 <= v < 10`: accepted, rejected at the excluded bound, rejected garbage, read back -/
example :
    (Except.toOption' (make (.int ⟨5, 0, 10, .le, .lt⟩)) = some exI ∧ exI.InDomain) ∧
    ((step exI (.setInt 0)).2.isThrow = false ∧ (step exI (.setInt 10)).2.isThrow = true ∧
      (step exI (.setInt 9)).2.isThrow = false) ∧
    ((step exI (.setString "7x")).1 = Storage.irange ⟨7, 0, 10, .le, .lt⟩) ∧
    ((step exI (.setString "x7")).2.isThrow = true) ∧
    ((step exI .readString).2.isThrow = true) ∧
    Except.toOption' (make (.int ⟨10, 0, 10, .le, .lt⟩ : Spec XF)) = none := by
  decide +kernel

/-- a scalar parameter `0 < v <= 1` on exact doubles: NaN, +∞, -0 and the double after 1 are rejected, 1 and the
    smallest subnormal are accepted; "1e-400" is a range error of `std::stod`, "0x1p-1" is 0.5 -/
example :
    ((step exF (.setFloat .nan)).2.isThrow = true ∧ (step exF (.setFloat (.inf false))).2.isThrow = true ∧
      (step exF (.setFloat (.fin true 0 (-1074)))).2.isThrow = true ∧
      (step exF (.setFloat (.fin false 4503599627370497 (-52)))).2.isThrow = true) ∧
    ((step exF (.setFloat exOne)).2.isThrow = false ∧ (step exF (.setFloat (.fin false 1 (-1074)))).2.isThrow = false) ∧
    (Except.toOption' (stodXF "1e-400") = none ∧
      Except.toOption' (stodXF "0x1p-1") = some (.fin false 4503599627370496 (-53)) ∧
      Except.toOption' (stodXF "abc") = none ∧
      Except.toOption' (stodXF "0.1") = some (.fin false 7205759403792794 (-56))) := by
  decide +kernel

/-- an ordered pair `0 <= v1 < v2 <= 5`: out of order and equal pairs are rejected, the string "1;x;4" is (1, 4) -/
example :
    (step exP (.setPairInt 3 3)).2.isThrow = true ∧ (step exP (.setPairInt 4 3)).2.isThrow = true ∧
    (step exP (.setPairInt 0 5)).2.isThrow = false ∧
    (step exP (.setString "1;x;4")).1 = Storage.iprange ⟨1, 4, 0, 5, .le, .lt, .le⟩ := by
  decide +kernel

/-- the table is not empty and contains constrained parameters of every numeric kind -/
example : FactoryParams.table.length > 100 ∧
    (FactoryParams.table.map (fun e => e.params.length)).sum > 200 ∧
    FactoryParams.table.any (fun e => e.params.any (fun p => match p.2 with | .fprange _ => true | _ => false)) = true ∧
    FactoryParams.table.any (fun e => e.params.any (fun p => match p.2 with | .enum _ => true | _ => false)) = true := by
  decide +kernel

private def exC : Config XF := ((Config.empty : Config XF).register "a" (.irange ⟨5, 0, 10, .le, .le⟩)).1

/-- a configurable object: duplicate registration and unknown names -/
example :
    (exC.register "a" .mono).2 = true ∧ (exC.applyAt "b" .readInt).2.isThrow = true ∧
    (exC.applyAt "a" (.setInt 7)).2.isThrow = false ∧ (exC.applyAt "a" (.setInt 11)).2.isThrow = true := by
  decide +kernel

end NanoVerif.Param
