import NanoVerif.Proofs.Parameter
import NanoVerif.Gen.FactoryParams
/-!
  C19 — property theorems: parameters stay inside their declared domain; what the factories hand out.

  The theorems are stated over
    * `Gen/ParamCheck.lean` (`check`, `updateEnum`, `updateRange`, `updatePair`: regenerated from the text of
      src/parameter.cpp on every run) through `Model/Parameter.lean` (`step`, `make`) and `Model/Configurable.lean`;
    * `Gen/FactoryParams.lean` (every registered parameter of every id of the 11 factories, regenerated from a
      run of the implementation).
  The *declared domain* (`Range.InDomain`, `PRange.InDomain`, `EnumP.InDomain`, `Storage.InDomain`) is written
  independently in `Model/ParamTypes.lean`. `α` (the scalar type) is arbitrary: the comparisons, `isfinite`, the
  int64 ↔ scalar conversions and `std::stod` are parameters, so the theorems hold in particular for IEEE doubles
  (`XF`) with NaN, ±∞ and signed zeros, and for whatever `static_cast<int64_t>` does to values outside its range.
-/
namespace NanoVerif.Param
open NanoVerif.Gen.ParamCheck NanoVerif.Gen

/-! ### the regenerated guards against the declared domain -/

/-- `check(LE, a, b) ⇔ a ≤ b`, `check(LT, a, b) ⇔ a < b` -/
theorem check_sound {β : Type} [LT β] [LE β] [DecidableLT β] [DecidableLE β] (c : Cmp) (a b : β) :
    check c a b = true ↔ c.Rel a b := check_iff c a b

/-- `update(range_t)` accepts exactly the values (after the `static_cast`) inside the declared domain, stores
    the converted value on acceptance and leaves the parameter untouched when it throws -/
theorem updateRange_accepts_iff {β γ : Type} [LT β] [LE β] [DecidableLT β] [DecidableLE β] [IsFinite β]
    (cast : γ → β) (p : Range β) (v : γ) :
    ((updateRange cast p v).2 = false ↔ ({ p with value := cast v } : Range β).InDomain) ∧
    ((updateRange cast p v).2 = false → (updateRange cast p v).1 = { p with value := cast v }) ∧
    ((updateRange cast p v).2 = true → (updateRange cast p v).1 = p) :=
  ⟨updateRange_iff cast p v, fun h => (updateRange_accept cast p v h).1, updateRange_reject cast p v⟩

theorem updatePair_accepts_iff {β γ : Type} [LT β] [LE β] [DecidableLT β] [DecidableLE β] [IsFinite β]
    (cast : γ → β) (p : PRange β) (v1 v2 : γ) :
    ((updatePair cast p v1 v2).2 = false ↔
      ({ p with value1 := cast v1, value2 := cast v2 } : PRange β).InDomain) ∧
    ((updatePair cast p v1 v2).2 = false →
      (updatePair cast p v1 v2).1 = { p with value1 := cast v1, value2 := cast v2 }) ∧
    ((updatePair cast p v1 v2).2 = true → (updatePair cast p v1 v2).1 = p) :=
  ⟨updatePair_iff cast p v1 v2, fun h => (updatePair_accept cast p v1 v2 h).1, updatePair_reject cast p v1 v2⟩

theorem updateEnum_accepts_iff (p : EnumP) (v : String) :
    ((updateEnum p v).2 = false ↔ ({ p with value := v } : EnumP).InDomain) ∧
    ((updateEnum p v).2 = false → (updateEnum p v).1 = { p with value := v }) ∧
    ((updateEnum p v).2 = true → (updateEnum p v).1 = p) :=
  ⟨updateEnum_iff p v, fun h => (updateEnum_accept p v h).1, updateEnum_reject p v⟩

section
variable {α : Type} [LT α] [LE α] [DecidableLT α] [DecidableLE α] [FOps α]

/-! ### one parameter, any history -/

/-- every wrapper around a generated `update`: in the domain afterwards when the parameter was in the domain -/
private theorem ofUpd_range {β γ : Type} [LT β] [LE β] [DecidableLT β] [DecidableLE β] [IsFinite β]
    (cast : γ → β) (p : Range β) (v : γ) (hp : p.InDomain) : (updateRange cast p v).1.InDomain := by
  cases h : (updateRange cast p v).2
  · rw [(updateRange_accept cast p v h).1]; exact (updateRange_accept cast p v h).2
  · rw [updateRange_reject cast p v h]; exact hp

private theorem ofUpd_pair {β γ : Type} [LT β] [LE β] [DecidableLT β] [DecidableLE β] [IsFinite β]
    (cast : γ → β) (p : PRange β) (v1 v2 : γ) (hp : p.InDomain) : (updatePair cast p v1 v2).1.InDomain := by
  cases h : (updatePair cast p v1 v2).2
  · rw [(updatePair_accept cast p v1 v2 h).1]; exact (updatePair_accept cast p v1 v2 h).2
  · rw [updatePair_reject cast p v1 v2 h]; exact hp

private theorem ofUpd_enum (p : EnumP) (v : String) (hp : p.InDomain) : (updateEnum p v).1.InDomain := by
  cases h : (updateEnum p v).2
  · rw [(updateEnum_accept p v h).1]; exact (updateEnum_accept p v h).2
  · rw [updateEnum_reject p v h]; exact hp

private theorem setString_dom (s : Storage α) (v : String) (h : s.InDomain) : (setString s v).1.InDomain := by
  unfold setString
  cases s with
  | mono => exact h
  | str _ => trivial
  | enum p => exact ofUpd_enum p v h
  | irange p =>
    simp only
    split
    · exact h
    · exact ofUpd_range _ p _ h
  | frange p =>
    simp only
    split
    · exact h
    · exact ofUpd_range _ p _ h
  | iprange p =>
    simp only
    split
    · exact h
    · split
      · exact h
      · exact ofUpd_pair _ p _ _ h
  | fprange p =>
    simp only
    split
    · exact h
    · split
      · exact h
      · exact ofUpd_pair _ p _ _ h

/-- **step_preserves_domain**: whatever operation is applied — an assignment of an integer, a scalar (NaN and ±∞
    included), a pair, a string (numeric or garbage), an enumeration value, a typed read, a write+read — and
    whether it is accepted or throws, the stored value is inside the declared domain afterwards. -/
theorem step_preserves_domain (s : Storage α) (op : Op α) (h : s.InDomain) : (step s op).1.InDomain := by
  cases op with
  | setInt v =>
    cases s <;> first | exact h | exact ofUpd_range _ _ _ h
  | setFloat v =>
    cases s <;> first | exact h | exact ofUpd_range _ _ _ h
  | setPairInt v1 v2 =>
    cases s <;> first | exact h | exact ofUpd_pair _ _ _ _ h
  | setPairFloat v1 v2 =>
    cases s <;> first | exact h | exact ofUpd_pair _ _ _ _ h
  | setString v => exact setString_dom s v h
  | setEnum name =>
    cases s <;> first | exact h | exact setString_dom _ name h
  | readInt => cases s <;> exact h
  | readFloat => cases s <;> exact h
  | readPairInt => cases s <;> exact h
  | readPairFloat => cases s <;> exact h
  | readString => cases s <;> exact h
  | readEnum => cases s <;> exact h
  | writeRead => exact h

/-- **construct_in_domain**: a parameter that was constructed (the constructor did not throw) starts inside its
    domain: a default outside the domain cannot be registered. -/
theorem construct_in_domain (spec : Spec α) (s : Storage α) (h : make spec = .ok s) : s.InDomain := by
  cases spec with
  | mono => cases h; trivial
  | str v => cases h; trivial
  | enum p =>
    simp only [make, madeBy] at h
    split at h
    · cases h
    · rename_i hc
      cases h
      have hc' : (updateEnum p p.value).2 = false := by simpa using hc
      rw [(updateEnum_accept p p.value hc').1]; exact (updateEnum_accept p p.value hc').2
  | int p =>
    simp only [make, madeBy] at h
    split at h
    · cases h
    · rename_i hc
      cases h
      have hc' : (updateRange (fun (x : Int) => x) p p.value).2 = false := by simpa using hc
      rw [(updateRange_accept _ p p.value hc').1]; exact (updateRange_accept _ p p.value hc').2
  | float p =>
    simp only [make, madeBy] at h
    split at h
    · cases h
    · rename_i hc
      cases h
      have hc' : (updateRange (fun (x : α) => x) p p.value).2 = false := by simpa using hc
      rw [(updateRange_accept _ p p.value hc').1]; exact (updateRange_accept _ p p.value hc').2
  | ipair p =>
    simp only [make, madeBy] at h
    split at h
    · cases h
    · rename_i hc
      cases h
      have hc' : (updatePair (fun (x : Int) => x) p p.value1 p.value2).2 = false := by simpa using hc
      rw [(updatePair_accept _ p _ _ hc').1]; exact (updatePair_accept _ p _ _ hc').2
  | fpair p =>
    simp only [make, madeBy] at h
    split at h
    · cases h
    · rename_i hc
      cases h
      have hc' : (updatePair (fun (x : α) => x) p p.value1 p.value2).2 = false := by simpa using hc
      rw [(updatePair_accept _ p _ _ hc').1]; exact (updatePair_accept _ p _ _ hc').2

/-- **reachable_in_domain**: after *any* sequence of operations on a constructed parameter the stored value lies
    in the declared domain with its ordering constraints (induction over the history; no bound on its length). -/
theorem reachable_in_domain (spec : Spec α) (s0 : Storage α) (h : make spec = .ok s0) (ops : List (Op α)) :
    (run s0 ops).InDomain := by
  have h0 := construct_in_domain spec s0 h
  clear h
  induction ops generalizing s0 with
  | nil => exact h0
  | cons op ops ih => exact ih (step s0 op).1 (step_preserves_domain s0 op h0)

private theorem ofUpd_noop {σ : Type} (wrap : σ → Storage α) (r : σ × Bool) (p : σ)
    (hrej : r.2 = true → r.1 = p) (h : (ofUpd wrap r).2.isThrow = true) : (ofUpd wrap r).1 = wrap p := by
  unfold ofUpd at *
  cases hr : r.2
  · simp [hr, Res.isThrow] at h
  · simp only [hrej hr]

private theorem setString_noop (s : Storage α) (v : String) (h : (setString s v).2.isThrow = true) :
    (setString s v).1 = s := by
  unfold setString at *
  cases s with
  | mono => rfl
  | str _ => simp [Res.isThrow] at h
  | enum p => exact ofUpd_noop _ _ p (updateEnum_reject p v) h
  | irange p =>
    simp only at h ⊢
    split
    · rfl
    · rename_i x hx
      rw [hx] at h
      exact ofUpd_noop _ _ p (updateRange_reject _ p x) h
  | frange p =>
    simp only at h ⊢
    split
    · rfl
    · rename_i x hx
      rw [hx] at h
      exact ofUpd_noop _ _ p (updateRange_reject _ p x) h
  | iprange p =>
    simp only at h ⊢
    split
    · rfl
    · rename_i x2 hx2
      rw [hx2] at h
      simp only at h ⊢
      split
      · rfl
      · rename_i x1 hx1
        rw [hx1] at h
        exact ofUpd_noop _ _ p (updatePair_reject _ p x1 x2) h
  | fprange p =>
    simp only at h ⊢
    split
    · rfl
    · rename_i x2 hx2
      rw [hx2] at h
      simp only at h ⊢
      split
      · rfl
      · rename_i x1 hx1
        rw [hx1] at h
        exact ofUpd_noop _ _ p (updatePair_reject _ p x1 x2) h

/-- **rejected_is_noop**: an operation that throws (value outside the domain, NaN, malformed text, wrong type,
    mismatched read) leaves the previous value — the whole stored alternative — intact. -/
theorem rejected_is_noop (s : Storage α) (op : Op α) (h : (step s op).2.isThrow = true) : (step s op).1 = s := by
  cases op with
  | setInt v =>
    cases s <;> first | rfl | exact ofUpd_noop _ _ _ (updateRange_reject _ _ _) h
  | setFloat v =>
    cases s <;> first | rfl | exact ofUpd_noop _ _ _ (updateRange_reject _ _ _) h
  | setPairInt v1 v2 =>
    cases s <;> first | rfl | exact ofUpd_noop _ _ _ (updatePair_reject _ _ _ _) h
  | setPairFloat v1 v2 =>
    cases s <;> first | rfl | exact ofUpd_noop _ _ _ (updatePair_reject _ _ _ _) h
  | setString v => exact setString_noop s v h
  | setEnum name =>
    cases s <;> first | rfl | exact setString_noop _ name h
  | readInt => cases s <;> rfl
  | readFloat => cases s <;> rfl
  | readPairInt => cases s <;> rfl
  | readPairFloat => cases s <;> rfl
  | readString => cases s <;> rfl
  | readEnum => cases s <;> rfl
  | writeRead => rfl

/-- **read_is_pure**: typed reads and the write+read round trip never change what is stored. -/
theorem read_is_pure (s : Storage α) (op : Op α) (h : op.isAssign = false) : (step s op).1 = s := by
  cases op <;> first | (simp [Op.isAssign] at h; done) | (cases s <;> rfl) | rfl

private theorem ofUpd_ok {σ : Type} (wrap : σ → Storage α) (r : σ × Bool) (h : (ofUpd wrap r).2 = Res.ok) :
    r.2 = false ∧ (ofUpd wrap r).1 = wrap r.1 := by
  unfold ofUpd at *
  cases hr : r.2
  · exact ⟨rfl, rfl⟩
  · simp [hr] at h

private theorem setString_reads_back (s : Storage α) (v : String) (hok : (setString s v).2 = Res.ok) :
    ∃ r, requested s (.setString v) = some r ∧
      step (setString s v).1 ((setString s v).1.readOp) = ((setString s v).1, r) := by
  unfold setString at *
  cases s with
  | mono => simp at hok
  | str _ => exact ⟨.string v, rfl, rfl⟩
  | enum p =>
    have h1 := ofUpd_ok _ _ hok
    refine ⟨.enumv v, rfl, ?_⟩
    simp only [h1.2, (updateEnum_accept p v h1.1).1, Storage.readOp, step]
  | irange p =>
    simp only at hok ⊢
    cases hx : stoll v with
    | error e => rw [hx] at hok; simp at hok
    | ok x =>
      rw [hx] at hok
      have h1 := ofUpd_ok _ _ hok
      refine ⟨.int x, by simp [requested, hx, Except.toOption'], ?_⟩
      simp only [h1.2, (updateRange_accept _ p x h1.1).1, Storage.readOp, step]
  | frange p =>
    simp only at hok ⊢
    cases hx : (FOps.stod v : Except Err α) with
    | error e => rw [hx] at hok; simp at hok
    | ok x =>
      rw [hx] at hok
      have h1 := ofUpd_ok _ _ hok
      refine ⟨.float x, by simp [requested, hx, Except.toOption'], ?_⟩
      simp only [h1.2, (updateRange_accept _ p x h1.1).1, Storage.readOp, step]
  | iprange p =>
    simp only at hok ⊢
    cases hx2 : stoll (splitPair v).2 with
    | error e => rw [hx2] at hok; simp at hok
    | ok x2 =>
      rw [hx2] at hok
      simp only at hok ⊢
      cases hx1 : stoll (splitPair v).1 with
      | error e => rw [hx1] at hok; simp at hok
      | ok x1 =>
        rw [hx1] at hok
        have h1 := ofUpd_ok _ _ hok
        refine ⟨.pairInt x1 x2, by simp [requested, hx1, hx2, Except.toOption'], ?_⟩
        simp only [h1.2, (updatePair_accept _ p x1 x2 h1.1).1, Storage.readOp, step]
  | fprange p =>
    simp only at hok ⊢
    cases hx2 : (FOps.stod (splitPair v).2 : Except Err α) with
    | error e => rw [hx2] at hok; simp at hok
    | ok x2 =>
      rw [hx2] at hok
      simp only at hok ⊢
      cases hx1 : (FOps.stod (splitPair v).1 : Except Err α) with
      | error e => rw [hx1] at hok; simp at hok
      | ok x1 =>
        rw [hx1] at hok
        have h1 := ofUpd_ok _ _ hok
        refine ⟨.pairFloat x1 x2, by simp [requested, hx1, hx2, Except.toOption'], ?_⟩
        simp only [h1.2, (updatePair_accept _ p x1 x2 h1.1).1, Storage.readOp, step]

/-- **accepted_reads_back**: an accepted assignment is read back — by the typed read of the parameter's kind,
    which does not change the parameter — as the assigned value converted to the parameter's integer / scalar
    kind (`requested`: `static_cast` for numbers and pairs, `std::stoll` / `std::stod` of the tokens for strings,
    the name itself for enumerations and strings). -/
theorem accepted_reads_back (s : Storage α) (op : Op α) (hop : op.isAssign = true) (hok : (step s op).2 = Res.ok) :
    ∃ r, requested s op = some r ∧ step (step s op).1 ((step s op).1.readOp) = ((step s op).1, r) := by
  cases op with
  | setInt v =>
    cases s with
    | irange p =>
      have h1 := ofUpd_ok _ _ hok
      refine ⟨.int v, rfl, ?_⟩
      simp only [step, setInt, h1.2, (updateRange_accept _ p v h1.1).1, Storage.readOp]
    | frange p =>
      have h1 := ofUpd_ok _ _ hok
      refine ⟨.float (FOps.ofI64 v), rfl, ?_⟩
      simp only [step, setInt, h1.2, (updateRange_accept _ p v h1.1).1, Storage.readOp]
    | _ => simp [step, setInt] at hok
  | setFloat v =>
    cases s with
    | irange p =>
      have h1 := ofUpd_ok _ _ hok
      refine ⟨.int (FOps.toI64 v), rfl, ?_⟩
      simp only [step, setFloat, h1.2, (updateRange_accept _ p v h1.1).1, Storage.readOp]
    | frange p =>
      have h1 := ofUpd_ok _ _ hok
      refine ⟨.float v, rfl, ?_⟩
      simp only [step, setFloat, h1.2, (updateRange_accept _ p v h1.1).1, Storage.readOp]
    | _ => simp [step, setFloat] at hok
  | setPairInt v1 v2 =>
    cases s with
    | iprange p =>
      have h1 := ofUpd_ok _ _ hok
      refine ⟨.pairInt v1 v2, rfl, ?_⟩
      simp only [step, setPairInt, h1.2, (updatePair_accept _ p v1 v2 h1.1).1, Storage.readOp]
    | fprange p =>
      have h1 := ofUpd_ok _ _ hok
      refine ⟨.pairFloat (FOps.ofI64 v1) (FOps.ofI64 v2), rfl, ?_⟩
      simp only [step, setPairInt, h1.2, (updatePair_accept _ p v1 v2 h1.1).1, Storage.readOp]
    | _ => simp [step, setPairInt] at hok
  | setPairFloat v1 v2 =>
    cases s with
    | iprange p =>
      have h1 := ofUpd_ok _ _ hok
      refine ⟨.pairInt (FOps.toI64 v1) (FOps.toI64 v2), rfl, ?_⟩
      simp only [step, setPairFloat, h1.2, (updatePair_accept _ p v1 v2 h1.1).1, Storage.readOp]
    | fprange p =>
      have h1 := ofUpd_ok _ _ hok
      refine ⟨.pairFloat v1 v2, rfl, ?_⟩
      simp only [step, setPairFloat, h1.2, (updatePair_accept _ p v1 v2 h1.1).1, Storage.readOp]
    | _ => simp [step, setPairFloat] at hok
  | setString v => exact setString_reads_back s v hok
  | setEnum name =>
    cases s with
    | enum p =>
      obtain ⟨r, hr, hs⟩ := setString_reads_back (Storage.enum p) name hok
      exact ⟨r, hr, hs⟩
    | _ => simp [step, setEnum] at hok
  | _ => simp [Op.isAssign] at hop

/-- **mismatched_read_throws**: a typed read whose type does not fit the stored alternative throws
    (`logical_error`) and changes nothing. -/
theorem mismatched_read_throws (s : Storage α) (op : Op α) (hop : op.isAssign = false)
    (h : op.readable s = false) : step s op = (s, .throw .critical) := by
  cases op <;> cases s <;> first | rfl | (simp [Op.readable] at h; done) | (simp [Op.isAssign] at hop; done)

/-- **mismatched_assign_throws**: an assignment of a kind the stored alternative cannot take (a number to an
    enumeration, a pair to a range, an enumeration value to a number, anything to the empty parameter) throws
    and changes nothing. -/
theorem mismatched_assign_throws (s : Storage α) (op : Op α) (hop : op.isAssign = true)
    (h : op.assignable s = false) : step s op = (s, .throw .critical) := by
  cases op <;> cases s <;> first | rfl | (simp [Op.assignable] at h; done) | (simp [Op.isAssign] at hop; done)

/-! ### configurable objects -/

private theorem find?_none_of_not_mem (c : Config α) (name : String) (h : name ∉ c.names) : c.find? name = none := by
  unfold Config.find?
  have : c.params.find? (fun p => p.1 == name) = none := by
    rw [List.find?_eq_none]
    intro p hp hpe
    apply h
    simp only [Config.names, List.mem_map]
    exact ⟨p, hp, by simpa using hpe⟩
  rw [this]

private theorem find?_some_of_mem (c : Config α) (name : String) (h : name ∈ c.names) :
    ∃ s, c.find? name = some s := by
  unfold Config.find?
  simp only [Config.names, List.mem_map] at h
  obtain ⟨p, hp, hpe⟩ := h
  cases hf : c.params.find? (fun p => p.1 == name) with
  | none =>
    rw [List.find?_eq_none] at hf
    exact absurd (by simpa using hpe) (hf p hp)
  | some q => exact ⟨q.2, rfl⟩

/-- **unknown_name_throws**: looking up a name that was never registered throws (whatever one wanted to do with
    the parameter) and `parameter_if` answers null. -/
theorem unknown_name_throws (c : Config α) (name : String) (op : Op α) (h : name ∉ c.names) :
    c.applyAt name op = (c, .throw .critical) ∧ c.has name = false := by
  have hf := find?_none_of_not_mem c name h
  simp [Config.applyAt, Config.has, hf]

/-- **duplicate_register_throws**: registering a second parameter under a name already in use throws and leaves
    the registered parameters as they were. -/
theorem duplicate_register_throws (c : Config α) (name : String) (s : Storage α) (h : name ∈ c.names) :
    c.register name s = (c, true) := by
  obtain ⟨s', hs⟩ := find?_some_of_mem c name h
  simp [Config.register, Config.has, hs]

/-- **register_then_found**: a new name is accepted, appended, and found afterwards with the registered value. -/
theorem register_then_found (c : Config α) (name : String) (s : Storage α) (h : name ∉ c.names) :
    (c.register name s).2 = false ∧ (c.register name s).1.names = c.names ++ [name] ∧
      (c.register name s).1.find? name = some s := by
  have hf := find?_none_of_not_mem c name h
  have hn : c.params.find? (fun p => p.1 == name) = none := by
    unfold Config.find? at hf
    cases hq : c.params.find? (fun p => p.1 == name) with
    | none => rfl
    | some q => rw [hq] at hf; cases hf
  simp [Config.register, Config.has, hf, Config.names, Config.find?, List.find?_append, hn]

private theorem setFirst_mem (name : String) (s : Storage α) (ps : List (String × Storage α))
    (p : String × Storage α) (hp : p ∈ Config.setFirst name s ps) : p ∈ ps ∨ p.2 = s := by
  induction ps with
  | nil => simp [Config.setFirst] at hp
  | cons q qs ih =>
    simp only [Config.setFirst] at hp
    split at hp
    · rcases List.mem_cons.1 hp with h | h
      · right; rw [h]
      · left; exact List.mem_cons_of_mem _ h
    · rcases List.mem_cons.1 hp with h | h
      · left; rw [h]; exact List.mem_cons_self
      · rcases ih h with h' | h'
        · left; exact List.mem_cons_of_mem _ h'
        · right; exact h'

private theorem find?_mem (c : Config α) (name : String) (s : Storage α) (h : c.find? name = some s) :
    ∃ p ∈ c.params, p.2 = s := by
  unfold Config.find? at h
  cases hq : c.params.find? (fun p => p.1 == name) with
  | none => rw [hq] at h; cases h
  | some q =>
    rw [hq] at h
    cases h
    exact ⟨q, List.mem_of_find?_eq_some hq, rfl⟩

/-- **config_preserves_domain**: every registered parameter of a configurable object stays inside its domain
    under any lookup-and-operate step (`parameter(name) = value`, `config(name, value)`, typed reads), and
    under registration of a parameter that is itself inside its domain (the only kind that can be constructed). -/
theorem config_preserves_domain (c : Config α) (hc : c.InDomain) :
    (∀ name op, (c.applyAt name op).1.InDomain) ∧
    (∀ name s, s.InDomain → (c.register name s).1.InDomain) := by
  constructor
  · intro name op
    unfold Config.applyAt
    cases hf : c.find? name with
    | none => exact hc
    | some s =>
      obtain ⟨q, hq, hqs⟩ := find?_mem c name s hf
      have hs : s.InDomain := hqs ▸ hc q hq
      intro p hp
      rcases setFirst_mem name _ c.params p hp with h | h
      · exact hc p h
      · rw [h]; exact step_preserves_domain s op hs
  · intro name s hs
    unfold Config.register
    split
    · exact hc
    · intro p hp
      rcases List.mem_append.1 hp with h | h
      · exact hc p h
      · rw [List.mem_singleton.1 h]; exact hs

end

/-! ### what the factories hand out (table regenerated from the implementation on every run) -/

/-- the constructor accepts the stored default again (through the regenerated guards) -/
def constructible : Storage XF → Bool
  | .mono => true
  | .str _ => true
  | .enum p => !(updateEnum p p.value).2
  | .irange p => !(updateRange (fun (x : Int) => x) p p.value).2
  | .frange p => !(updateRange (fun (x : XF) => x) p p.value).2
  | .iprange p => !(updatePair (fun (x : Int) => x) p p.value1 p.value2).2
  | .fprange p => !(updatePair (fun (x : XF) => x) p p.value1 p.value2).2

/-- **defaults_in_domain**: every default of every parameter registered by every object obtainable from the 11
    factories (solvers, line-searches, losses, splitters, tuners, generators, weak learners, linear models, data
    sources, functions) is inside its declared domain — evaluated by the kernel on exact doubles. -/
theorem defaults_in_domain : ∀ e ∈ FactoryParams.table, ∀ p ∈ e.params, p.2.InDomain := by
  decide +kernel

/-- **defaults_constructible**: the regenerated guards of src/parameter.cpp accept every one of these defaults
    (so the table and the guards agree on every boundary that a real parameter sits on). -/
theorem defaults_constructible : ∀ e ∈ FactoryParams.table, ∀ p ∈ e.params, constructible p.2 = true := by
  decide +kernel

/-- **type_ids_match**: every object reports the id it was registered under, no id is registered twice within a
    factory, and the parameter names of an object are pairwise distinct. -/
theorem type_ids_match :
    (∀ e ∈ FactoryParams.table, e.typeId = e.id ∧ (e.params.map (·.1)).Nodup) ∧
    (∀ ch ∈ FactoryParams.chunks, (ch.map (·.id)).Nodup) := by
  decide +kernel

/-! ### non-vacuity -/

/-- an integer parameter `0 <= v < 10`: accepted, rejected at the excluded bound, rejected garbage, read back -/
example :
    let s0 : Storage XF := .irange ⟨5, 0, 10, .le, .lt⟩
    (make (.int ⟨5, 0, 10, .le, .lt⟩) = .ok s0 ∧ s0.InDomain) ∧
    ((step s0 (.setInt 0)).2.isThrow = false ∧ (step s0 (.setInt 10)).2.isThrow = true ∧
      (step s0 (.setInt 9)).2.isThrow = false) ∧
    ((step s0 (.setString "7x")).1 = Storage.irange ⟨7, 0, 10, .le, .lt⟩) ∧
    ((step s0 (.setString "x7")).2.isThrow = true) ∧
    ((step s0 .readString).2.isThrow = true) := by
  decide +kernel

/-- a scalar parameter `0 < v <= 1` on exact doubles: NaN, +∞, 0 and the double after 1 are rejected, 1 and the
    smallest subnormal are accepted; "1e-400" is a range error of `std::stod`, "0x1p-1" is 0.5 -/
example :
    let one : XF := .fin false 4503599627370496 (-52)
    let s0 : Storage XF := .frange ⟨one, .fin false 0 (-1074), one, .lt, .le⟩
    ((step s0 (.setFloat .nan)).2.isThrow = true ∧ (step s0 (.setFloat (.inf false))).2.isThrow = true ∧
      (step s0 (.setFloat (.fin true 0 (-1074)))).2.isThrow = true ∧
      (step s0 (.setFloat (.fin false 4503599627370497 (-52)))).2.isThrow = true) ∧
    ((step s0 (.setFloat one)).2.isThrow = false ∧ (step s0 (.setFloat (.fin false 1 (-1074)))).2.isThrow = false) ∧
    (stodXF "1e-400" = .error .outOfRange ∧ stodXF "0x1p-1" = .ok (.fin false 4503599627370496 (-53)) ∧
      stodXF "abc" = .error .invalidArgument ∧ stodXF "0.1" = .ok (.fin false 7205759403792794 (-56))) := by
  decide +kernel

/-- an ordered pair `0 <= v1 < v2 <= 5`: out of order and equal pairs are rejected, the string "1;x;4" is (1, 4) -/
example :
    let s0 : Storage XF := .iprange ⟨1, 2, 0, 5, .le, .lt, .le⟩
    (step s0 (.setPairInt 3 3)).2.isThrow = true ∧ (step s0 (.setPairInt 4 3)).2.isThrow = true ∧
    (step s0 (.setPairInt 0 5)).2.isThrow = false ∧
    (step s0 (.setString "1;x;4")).1 = Storage.iprange ⟨1, 4, 0, 5, .le, .lt, .le⟩ := by
  decide +kernel

/-- the table is not empty and contains constrained parameters of every numeric kind -/
example : FactoryParams.table.length > 100 ∧
    (FactoryParams.table.map (fun e => e.params.length)).sum > 200 ∧
    FactoryParams.table.any (fun e => e.params.any (fun p => match p.2 with | .fprange _ => true | _ => false)) = true ∧
    FactoryParams.table.any (fun e => e.params.any (fun p => match p.2 with | .enum _ => true | _ => false)) = true := by
  decide +kernel

/-- a configurable object: duplicate registration and unknown names -/
example :
    let c0 : Config XF := Config.empty
    let c1 := (c0.register "a" (.irange ⟨5, 0, 10, .le, .le⟩)).1
    (c1.register "a" .mono).2 = true ∧ (c1.applyAt "b" .readInt).2.isThrow = true ∧
    (c1.applyAt "a" (.setInt 7)).2.isThrow = false := by
  decide +kernel

end NanoVerif.Param
