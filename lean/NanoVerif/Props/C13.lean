import NanoVerif.Proofs.Tuner
import NanoVerif.Proofs.Tune
import Mathlib.Data.Int.Order.Basic
/-!
  C13 — tuning evaluates grid points once and reports the true best trial: the property theorems.

  Models: `Model/Tuner.lean` (`tuner_t::optimize` of both tuners, `local_search`, `evaluate`) and `Model/Tune.lean`
  (`ml::tune`, `ml::result_t`). Quantifiers: every callback `c.f`, every finiteness predicate `c.fin`, every sort
  satisfying `SortSpec` (`std::sort`), every surrogate oracle `c.oracle` (also failing ones), every linear order of
  values, every number of grids and grid sizes, every `max_evals`, every amount of fuel; for `ml::tune` every model
  callback, every number of folds/trials and every order in which the pool runs the indices.
  The helper lemmas are in `Proofs/Tuner.lean`, `Proofs/TunerGrid.lean`, `Proofs/Tune.lean`.
-/
namespace NanoVerif.C13
open NanoVerif.Tuner

/-! ### the building blocks: `local_search`, `std::sort`, `evaluate` -/

/-- `local_search` only proposes points of the box -/
theorem localSearch_inGrid (mn mx src : IGrid) (r : Int) : ∀ g ∈ localSearch mn mx src r, inGrid mn mx g = true :=
  Tuner.localSearch_inGrid mn mx src r

/-- `local_search` proposes no point twice (radius ≠ 0; the tuners use 1, 2, 4, …) -/
theorem localSearch_nodup (mn mx src : IGrid) (r : Int) (hr : r ≠ 0) : (localSearch mn mx src r).Nodup :=
  Tuner.localSearch_nodup mn mx src r hr

/-- `local_search` proposes at most `3^d` points -/
theorem localSearch_length_le (mn mx src : IGrid) (r : Int) : (localSearch mn mx src r).length ≤ 3 ^ mn.length :=
  Tuner.localSearch_length_le mn mx src r

/-- the sort that is run in the driver is a sorted permutation -/
theorem mergeSort_sortSpec {α : Type} [LinearOrder α] : SortSpec (sortSteps : List (Step α) → List (Step α)) :=
  Tuner.mergeSort_sortSpec

/-- so is the sort the driver uses to follow the implementation's order of equal values -/
theorem hintedSort_sortSpec {α : Type} [LinearOrder α] (hints : List (Nat × IGrid)) :
    SortSpec (hintedSort hints : List (Step α) → List (Step α)) :=
  Tuner.hintedSort_sortSpec hints

/-- `evaluate` never makes a grid point appear twice among the steps (its proposals being duplicate-free) -/
theorem evaluate_nodup {α : Type} [LT α] (fin : α → Bool) (f : IGrid → α) (sortFn : List (Step α) → List (Step α))
    (hs : SortSpec sortFn) (igrids : List IGrid) (hig : igrids.Nodup) (steps : List (Step α))
    (hnd : (steps.map (·.igrid)).Nodup) (steps' : List (Step α)) (batch : List IGrid)
    (h : evaluate fin f sortFn igrids steps = .ok steps' batch) :
    (steps'.map (·.igrid)).Nodup ∧ (∀ g ∈ batch, g ∉ steps.map (·.igrid)) := by
  obtain ⟨hb, _, _, hst⟩ := evaluate_ok h
  have hp := ((hs (steps ++ batch.map fun g => ⟨g, f g⟩)).1).map (·.igrid)
  rw [← hst, List.map_append, List.map_map] at hp
  have hid : ((fun (x : Step α) => x.igrid) ∘ fun g => (⟨g, f g⟩ : Step α)) = id := by
    funext g; rfl
  rw [hid, List.map_id] at hp
  have hfresh : ∀ g ∈ batch, g ∉ steps.map (·.igrid) := fun g hg => (mem_freshOf.mp (hb ▸ hg)).2
  refine ⟨?_, hfresh⟩
  rw [hp.nodup_iff, List.nodup_append]
  refine ⟨hnd, (hb ▸ hig.sublist (freshOf_sublist igrids steps)), ?_⟩
  intro a ha b hb' hab
  subst hab
  exact hfresh a hb' ha

/-- `evaluate` throws exactly when a not yet evaluated point gets a non-finite value -/
theorem nonfinite_rejected_evaluate {α : Type} (fin : α → Bool) (f : IGrid → α)
    (sortFn : List (Step α) → List (Step α)) (igrids : List IGrid) (steps : List (Step α)) :
    (∃ b, evaluate fin f sortFn igrids steps = .bad b) ↔
      ∃ g ∈ igrids, g ∉ steps.map (·.igrid) ∧ fin (f g) = false := by
  rw [evaluate_bad_iff]
  constructor
  · rintro ⟨g, hg, h⟩
    exact ⟨g, (mem_freshOf.mp hg).1, (mem_freshOf.mp hg).2, h⟩
  · rintro ⟨g, h1, h2, h⟩
    exact ⟨g, mem_freshOf.mpr ⟨h1, h2⟩, h⟩

/-! ### `tuner_t::optimize` (both tuners) -/

section optimize
variable {α : Type} [LinearOrder α] (c : Cfg α) (hs : SortSpec c.sortFn) (avg : IGrid)
  (havg : inGrid c.mn c.mx avg = true) (fuel : Nat)
include hs havg

/-- every returned step is a point of the grids -/
theorem steps_in_grid (steps : List (Step α)) (tr : List (List IGrid)) (h : optimize c avg fuel = .ok steps tr) :
    ∀ s ∈ steps, inGrid c.mn c.mx s.igrid = true :=
  ((optimize_good hs avg havg fuel).ok steps tr h).grid

/-- no grid point is returned (= was evaluated) twice -/
theorem steps_nodup (steps : List (Step α)) (tr : List (List IGrid)) (h : optimize c avg fuel = .ok steps tr) :
    (steps.map (·.igrid)).Nodup :=
  ((optimize_good hs avg havg fuel).ok steps tr h).nodup

/-- at most `max_evals + 3^d` evaluations -/
theorem steps_budget (steps : List (Step α)) (tr : List (List IGrid)) (h : optimize c avg fuel = .ok steps tr) :
    steps.length ≤ c.maxEvals + 3 ^ c.mn.length :=
  ((optimize_good hs avg havg fuel).ok steps tr h).budget

/-- every returned value is finite and is the value the callback returned for that grid point -/
theorem steps_true_values (steps : List (Step α)) (tr : List (List IGrid)) (h : optimize c avg fuel = .ok steps tr) :
    ∀ s ∈ steps, c.fin s.value = true ∧ s.value = c.f s.igrid :=
  ((optimize_good hs avg havg fuel).ok steps tr h).vals

/-- the returned steps are exactly the evaluations: their grid points are a permutation of everything the callback was
    handed -/
theorem steps_perm_trace (steps : List (Step α)) (tr : List (List IGrid)) (h : optimize c avg fuel = .ok steps tr) :
    (steps.map (·.igrid)).Perm tr.flatten :=
  ((optimize_good hs avg havg fuel).ok steps tr h).trace

/-- the returned steps are sorted by value, there is a first one, and it is the minimum over everything observed -/
theorem steps_sorted_first_min (steps : List (Step α)) (tr : List (List IGrid))
    (h : optimize c avg fuel = .ok steps tr) :
    steps.Pairwise (fun a b => a.value ≤ b.value) ∧
    ∃ first rest, steps = first :: rest ∧ first.value = c.f first.igrid ∧ first.igrid ∈ tr.flatten ∧
      ∀ g ∈ tr.flatten, first.value ≤ c.f g := by
  have hinv := (optimize_good hs avg havg fuel).ok steps tr h
  have hsorted : steps.Pairwise (fun a b => a.value ≤ b.value) := hinv.sorted.imp (fun h => not_lt.mp h)
  refine ⟨hsorted, ?_⟩
  cases steps with
  | nil =>
    exfalso
    rcases optimize_first_batch avg fuel h with ⟨_, htr⟩ | ⟨suffix, htr⟩
    · -- `evaluate [avg] []` cannot be `.unchanged`
      unfold optimize at h
      split at h
      · rename_i hev
        have := evaluate_unchanged hev avg (by simp)
        simp at this
      · cases h
      · rename_i steps0 b hev
        have := hinv.trace.length_eq
        rw [htr] at this
        have hpre := run_trace_prefix c fuel _ _ _ _ h
        obtain ⟨suffix, hsuf⟩ := hpre
        rw [htr] at hsuf
        simp at hsuf
    · have := hinv.trace.length_eq
      rw [htr] at this
      simp at this
  | cons first rest =>
    refine ⟨first, rest, rfl, (hinv.vals first (by simp)).2, hinv.trace.subset (by simp), ?_⟩
    intro g hg
    have hg' : g ∈ (first :: rest).map (·.igrid) := hinv.trace.symm.subset hg
    obtain ⟨s, hsmem, rfl⟩ := List.mem_map.mp hg'
    rw [← (hinv.vals s hsmem).2]
    rcases List.mem_cons.mp hsmem with rfl | hs'
    · exact le_refl _
    · exact (List.pairwise_cons.mp hsorted).1 s hs'

/-- whatever the outcome (steps returned, non-finite value rejected, surrogate failure): the callback was only ever
    handed points of the grids … -/
theorem trace_in_grid : ∀ g ∈ (optimize c avg fuel).trace.flatten, inGrid c.mn c.mx g = true :=
  (optimize_good hs avg havg fuel).tinv.grid

/-- … never the same point twice … -/
theorem trace_nodup : (optimize c avg fuel).trace.flatten.Nodup :=
  (optimize_good hs avg havg fuel).tinv.nodup

/-- … and at most `max_evals + 3^d` points -/
theorem trace_budget : (optimize c avg fuel).trace.flatten.length ≤ c.maxEvals + 3 ^ c.mn.length :=
  (optimize_good hs avg havg fuel).tinv.budget

/-- non-finite values are rejected with an exception, and only they are: steps are returned only if every value the
    callback returned is finite, and the "invalid value" exception is raised only if one is not -/
theorem nonfinite_rejected :
    (∀ steps tr, optimize c avg fuel = .ok steps tr → ∀ g ∈ tr.flatten, c.fin (c.f g) = true) ∧
    (∀ tr, optimize c avg fuel = .bad tr → ∃ g ∈ tr.flatten, c.fin (c.f g) = false) := by
  refine ⟨?_, (optimize_good hs avg havg fuel).bad⟩
  intro steps tr h g hg
  have hinv := (optimize_good hs avg havg fuel).ok steps tr h
  have hg' : g ∈ steps.map (·.igrid) := hinv.trace.symm.subset hg
  obtain ⟨s, hsmem, rfl⟩ := List.mem_map.mp hg'
  have := hinv.vals s hsmem
  rw [← this.2]
  exact this.1

/-- the loops terminate: with fuel ≥ (number of grid points) + 2 the model never runs out of fuel -/
theorem optimize_terminates (hfuel : gridCard c.mn c.mx + 2 ≤ fuel) : optimize c avg fuel ≠ .fuel :=
  optimize_fuel hs avg havg fuel hfuel

end optimize

/-- `tuner_t::optimize` on parameter spaces given by their lists of grid values (each with at least one value; the
    constructor of `param_space_t` insists on two): every returned step maps to hyper-parameter values that are values
    of the respective grids, and the run never ends for lack of fuel -/
theorem steps_params_on_grid {α β : Type} [LinearOrder α] (spaces : List (List β)) (hne : spaces ≠ [])
    (hsz : ∀ vals ∈ spaces, 1 ≤ vals.length) (kind : Kind) (maxEvals : Nat) (fin : α → Bool) (f : IGrid → α)
    (sortFn : List (Step α) → List (Step α)) (hs : SortSpec sortFn) (oracle : List (Step α) → Option IGrid) :
    tunerOptimize kind (spaces.map List.length) maxEvals fin f sortFn oracle ≠ .fuel ∧
    ∀ steps tr, tunerOptimize kind (spaces.map List.length) maxEvals fin f sortFn oracle = .ok steps tr →
      ∀ s ∈ steps, ∃ vs, mapToGrid spaces s.igrid = some vs ∧ List.Forall₂ (fun v vals => v ∈ vals) vs spaces := by
  have hsizes : ∀ n ∈ spaces.map List.length, 1 ≤ n := by
    intro n hn
    obtain ⟨vals, hv, rfl⟩ := List.mem_map.mp hn
    exact hsz vals hv
  have havg := avgOf_inGrid (spaces.map List.length) hsizes
  have hempty : (spaces.map List.length).isEmpty = false := by
    cases spaces with
    | nil => exact absurd rfl hne
    | cons _ _ => rfl
  unfold tunerOptimize
  simp only [hempty, Bool.false_eq_true, if_false]
  refine ⟨optimize_fuel (c := ⟨kind, _, _, maxEvals, fin, f, sortFn, oracle⟩) hs _ havg _ (le_refl _), ?_⟩
  intro steps tr h s hsmem
  have hg := ((optimize_good (c := ⟨kind, _, _, maxEvals, fin, f, sortFn, oracle⟩) hs _ havg _).ok steps tr h).grid
    s hsmem
  exact mapToGrid_of_inGrid spaces s.igrid hg

/-! ### `ml::tune` / `ml::result_t` -/

open NanoVerif.Tune in
/-- indices `< trials * folds` ↔ pairs (trial, fold) -/
theorem decode_bijective (folds k : Nat) (hf : 0 < folds) :
    (∀ i, i < k * folds →
        (decode folds i).1 < k ∧ (decode folds i).2 < folds ∧ slot folds (decode folds i).1 (decode folds i).2 = i) ∧
    (∀ t f, t < k → f < folds → slot folds t f < k * folds ∧ decode folds (slot folds t f) = (t, f)) :=
  Tune.decode_bijective folds k hf

open NanoVerif.Tune in
/-- two different (trial, fold) never share a slot -/
theorem slots_disjoint (folds t f t' f' : Nat) (hf : f < folds) (hf' : f' < folds)
    (h : slot folds t f = slot folds t' f') : t = t' ∧ f = f' :=
  Tune.slots_disjoint folds t f t' f' hf hf' h

open NanoVerif.Tune in
/-- given that the pool runs every index exactly once (C17), in whatever order, the model callback is called exactly
    once per (trial, fold) of the batch and for nothing else -/
theorem tune_calls_once (folds k : Nat) (hf : 0 < folds) (order : List Nat)
    (hperm : order.Perm (List.range (k * folds))) :
    (∀ p ∈ callsOf folds order, p.1 < k ∧ p.2 < folds) ∧
    (∀ t f, t < k → f < folds → (callsOf folds order).count (t, f) = 1) :=
  Tune.tune_calls_once folds k hf order hperm

open NanoVerif.Tune in
/-- after a batch, slot (old + t, f) holds exactly what the model callback returned for (t, f), whatever the order -/
theorem batch_slots {σ : Type} (cb : Nat → Nat → Option σ → σ) (closest : Nat → Nat) (r0 : Result σ) (hwf : r0.wf)
    (k : Nat) (order : List Nat) (hperm : order.Perm (List.range (k * r0.folds))) :
    ∀ t f, t < k → f < r0.folds →
      (runBatch cb closest r0 k order).get? (r0.trials + t) f = some (cb t f ((r0.add k).get? (closest t) f)) :=
  Tune.batch_slots cb closest r0 hwf k order hperm

open NanoVerif.Tune in
/-- the statistics of the earlier trials are untouched by a batch -/
theorem batch_keeps_old {σ : Type} (cb : Nat → Nat → Option σ → σ) (closest : Nat → Nat) (r0 : Result σ) (hwf : r0.wf)
    (k : Nat) (order : List Nat) (hperm : order.Perm (List.range (k * r0.folds))) :
    ∀ t f, t < r0.trials → (runBatch cb closest r0 k order).get? t f = r0.get? t f :=
  Tune.batch_keeps_old cb closest r0 hwf k order hperm

open NanoVerif.Tune in
/-- `optimum_trial` is the first trial with the smallest value (values not NaN: a linear order; none above `top`) -/
theorem optimum_is_argmin {α : Type} [LinearOrder α] (top : α) (values : List α) (hne : values ≠ [])
    (htop : ∀ v ∈ values, v ≤ top) :
    ∃ hb : optimumTrial top values < values.length,
      (∀ j (hj : j < values.length), values[optimumTrial top values] ≤ values[j]) ∧
      (∀ j (hj : j < optimumTrial top values), values[optimumTrial top values] < values[j]) :=
  Tune.optimum_is_argmin top values hne htop

/-! ### non-vacuity: concrete runs the kernel evaluates (insertion sort satisfies `SortSpec`) -/

/-- one grid of 7 values, landscape 9 4 2 7 1 3 8 (minimum at index 4), `max_evals = 10` -/
def exLand : IGrid → Int
  | [0] => 9 | [1] => 4 | [2] => 2 | [3] => 7 | [4] => 1 | [5] => 3 | [6] => 8
  | _ => 100

def exCfg (kind : Kind) (oracle : List (Step Int) → Option IGrid) : Cfg Int :=
  ⟨kind, minOf [7], maxOf [7], 10, fun _ => true, exLand, insertionSort, oracle⟩

def summary : Res Int → List (List Int × Int) × List (List IGrid)
  | .ok steps tr => (steps.map fun s => (s.igrid, s.value), tr)
  | .bad tr => ([([-1], 0)], tr)
  | .fail tr => ([([-2], 0)], tr)
  | _ => ([], [])

-- local search: batches {3}, {1,5}, then around 5: {4,6}, around 4: nothing new; sorted by value, first = minimum
example : summary (optimize (exCfg .localSearch fun _ => none) (avgOf [7]) (gridCard (minOf [7]) (maxOf [7]) + 2)) =
    ([([4], 1), ([5], 3), ([1], 4), ([3], 7), ([6], 8)], [[[3]], [[1], [5]], [[4], [6]]]) := by decide

-- surrogate with an oracle that always proposes grid point 0: one more batch {0}, then nothing new
example : summary (optimize (exCfg .surrogate fun _ => some [0]) (avgOf [7]) 9) =
    ([([5], 3), ([1], 4), ([3], 7), ([0], 9)], [[[3]], [[1], [5]], [[0]]]) := by decide

-- a failing surrogate: exception after the coarse phase
example : summary (optimize (exCfg .surrogate fun _ => none) (avgOf [7]) 9) =
    ([([-2], 0)], [[[3]], [[1], [5]]]) := by decide

-- a callback value that is not finite is rejected in the batch in which it appears
example : summary (optimize { exCfg .localSearch (fun _ => none) with fin := fun v => v != 3 } (avgOf [7]) 9) =
    ([([-1], 0)], [[[3]], [[1], [5]]]) := by decide

-- the hypotheses of the theorems are satisfiable: the run above is covered by them
example : ∀ steps tr, optimize (exCfg .localSearch fun _ => none) (avgOf [7]) 9 = .ok steps tr →
    (steps.map (·.igrid)).Nodup ∧ steps.length ≤ 10 + 3 ^ 1 :=
  fun steps tr h =>
    ⟨steps_nodup _ insertionSort_sortSpec _ (by decide) _ steps tr h,
     steps_budget _ insertionSort_sortSpec _ (by decide) _ steps tr h⟩

-- too little fuel is reported as such (so `optimize_terminates` is not vacuous)
example : summary (optimize (exCfg .localSearch fun _ => none) (avgOf [7]) 2) = ([], []) := by decide

example : Tune.decode 3 7 = (2, 1) ∧ Tune.slot 3 2 1 = 7 := by decide
example : Tune.optimumTrial 100 [5, 3, 7, 3] = 1 ∧ Tune.optimumTrial 100 [100, 100] = 0 := by decide
example : (Tune.runBatch (fun t f _ => 10 * t + f) (fun _ => 0) (Tune.Result.empty 2) 2 [3, 0, 2, 1]).slots =
    [some 0, some 1, some 10, some 11] := by decide

end NanoVerif.C13
