import NanoVerif.Proofs.Tuner
import NanoVerif.Proofs.Tune
import NanoVerif.Proofs.TunerSurrogateDeriv
import NanoVerif.Proofs.TunerSurrogateStep
import NanoVerif.Proofs.TunerSpaceMake
import NanoVerif.Proofs.TunerSpaceLog
import NanoVerif.Proofs.TunerClosestTrial
import NanoVerif.Proofs.TunerGenWalkLen
import Mathlib.Data.Int.Order.Basic
import Mathlib.Tactic.NormNum
/-!
  C13 — tuning evaluates grid points once and reports the true best trial: the property theorems.

  Models: `Model/Tuner.lean` (`tuner_t::optimize` of both tuners, `local_search`, `evaluate`) and `Model/Tune.lean`
  (`ml::tune`, `ml::result_t`). Quantifiers: every callback `c.f`, every finiteness predicate `c.fin`, every sort
  satisfying `SortSpec` (`std::sort`), every surrogate oracle `c.oracle` (also failing ones), every linear order of
  values, every number of grids and grid sizes, every `max_evals`, every amount of fuel; for `ml::tune` every model
  callback, every number of folds/trials and every order in which the pool runs the indices.
  The helper lemmas are in `Proofs/Tuner.lean`, `Proofs/TunerGrid.lean`, `Proofs/Tune.lean`, `Proofs/TunerSurrogate*.lean`,
  `Proofs/TunerSpace*.lean`, `Proofs/TunerClosestTrial.lean`.

  ## Coverage of the anchored code (gap-closing round)

  | code | status | Lean |
  |---|---|---|
  | tuner.cpp `tuner_t::optimize` | modelled | `Tuner.optimize`, `Tuner.tunerOptimize` (`run`, `step`, phase `coarse`) |
  | tuner.cpp `tuner_t::tuner_t` (domain of `tuner::max_evals`) | translated | `Gen/Consts.lean` |
  | tuner.cpp `tuner_t::all`, `clone`s of both tuners | outside | factory / clone semantics are C19 |
  | tuner/util.cpp `make_min_igrid` `make_max_igrid` `make_avg_igrid` | modelled | `minOf` `maxOf` `avgOf` |
  | tuner/util.cpp `map_to_grid` | modelled | `mapToGrid` |
  | tuner/util.cpp `local_search` | modelled | `localSearch` (`combos3`, `addScaled`, `inGrid`) |
  | tuner/util.cpp `evaluate` | modelled | `evaluate` (`std::sort` = any `SortSpec`) |
  | tuner/local.cpp `do_optimize` | modelled | `step` / `run`, `Kind.localSearch` |
  | tuner/surrogate.cpp `quadratic_surrogate_fit_t` ctor (feature map) | modelled | `quadTerms`, `pairIdx`, `quadLen` |
  | tuner/surrogate.cpp `quadratic_surrogate_fit_t::do_vgrad` (loss = mse, the only one the tuner uses) | modelled | `fitValue`, `fitGrad` |
  | tuner/surrogate.cpp `quadratic_surrogate_t` ctor | modelled | `quadSize?`, `quadDim` |
  | tuner/surrogate.cpp `quadratic_surrogate_t::do_vgrad` | modelled | `quadValue`, `quadGrad` (same order of operations) |
  | tuner/surrogate.cpp `surrogate_tuner_t::do_optimize` | modelled | `step` (`Kind.surrogate`) with `Cfg.oracle := surrogateCentre` (`fitData`, `toSurrogateVec`, `centreOf`) |
  | the two `solver->minimize` (L-BFGS) calls in it | oracle | `Tuner.Solver` (no contract; monitored at run time: a run reported converged ends at a point that meets the stopping criterion for the function AS DEFINED, a state reported valid is finite, fit / minimisation alternate) |
  | tuner/space.cpp `make_min` `make_max`, ctor | modelled | `minElem` `maxElem`, `Space.make?` |
  | tuner/space.cpp `to_surrogate` `from_surrogate` `closest_grid_point_from_surrogate` `closest_grid_value_from_surrogate` | modelled | `Space.toSurrogate` `Space.fromSurrogate` `Space.closestGridPoint` (`closestScan`) `Space.closestGridValue`; `std::log10` / `std::pow` = class `Log10` |
  | machine/tune.cpp `thread_callback` | modelled | `Tune.threadCallback` (`decode`, `closestTrial`, `Result.store`) |
  | machine/tune.cpp `tuner_callback` | modelled | `Tune.runBatch` (`Result.add`, then the tasks in ANY order) |
  | machine/tune.cpp splitter call / `pool_t::map` / `fit_params.log`, log files | oracle / outside | folds are C12's; "every index once" is C17's; logging is outside |
  | machine/result.cpp `result_t(spaces, folds)`, `add`, `store(trial, fold, …)`, `stats(trial, …)`, `extra(trial, fold)` | modelled | `Result.empty` `Result.add` `Result.store` `Result.get?` (`slot`); the 12 statistics of `store_stats` are an opaque payload (C20) |
  | machine/result.cpp `value`, `values`, `optimum_trial`, `closest_trial` | modelled | `Result.value`, `optimumTrial`, `closestTrial` (`argminScan`) |
  | machine/result.cpp `store(errors_losses, extra)`, `stats(value)`, `extra()`, `log_path`, `refit_log_path`, `make_random_path` | outside | refit bookkeeping and log paths: not used by `ml::tune`'s selection |
  | machine/params.h `params_t` | outside | a holder of tuner / solver / splitter / logger (clone semantics C19); `log` is logging |
  | core/combinatorial.h `combinatorial_iterator_t` | modelled for the counts `(3, …, 3)` the tuners use | `combos3`; other counts outside |
  | tuner/step.h `tuner_step_t`, `operator<` | modelled | `Step`, `SortSpec` (by value only), `step_order_strict_weak` |

  ## Translated fragments (translation round): regenerated from /repo on every check into `Gen/TunerSpace.lean` by
  tools/props/c13_translate.py; `Proofs/TunerGen.lean` proves the model text equal to the generated text (obligations `Tuner.model_…_is_generated`)

  | C++ | generated (`Gen.TunerSpace.`) | theorem (`Tuner.`) |
  |---|---|---|
  | space.h `enum class type` | `SpaceType` | (`SpaceKind.toGen`) |
  | space.cpp constructor: the four `critical`s in source order (`std::is_sorted`, `std::unique != end`, `*std::min_element` as parameters) | `ctorThrows` | `model_make_is_generated` |
  | space.cpp `to_surrogate` (range guard + `switch`) | `toSurrogate` | `model_toSurrogate_is_generated` |
  | space.cpp `from_surrogate` | `fromSurrogate` (`gclamp`) | `model_fromSurrogate_is_generated` |
  | space.cpp `closest_grid_point_from_surrogate` (initial values, loop body, returned variable) | `closestGridPointInit/Step`, `closestGridPoint` | `model_closestScan_is_generated`, `model_closestGridPoint_is_generated` |
  | space.cpp `closest_grid_value_from_surrogate` | `closestGridValue` | `model_closestGridValue_is_generated` |
  | util.cpp `make_min_igrid` / `make_max_igrid` / `make_avg_igrid` (fill value, `size - 1`, `size / 2`) | `minIgridCoord`, `maxIgridCoord`, `avgIgridCoord` | `model_minOf_is_generated`, `model_maxOf_is_generated`, `model_avgOf_is_generated` |
  | util.cpp `evaluate`: the equality test of the inner lambda, the condition of the `critical` (parsed); `find_if != end` / `remove_if + erase` / empty ⇒ `return false` / call back / `emplace_back` / `sort` / `return size != before` (recognised as whole statements in this order, else the translation is broken) | `evaluateSame`, `evaluateRejects`, `evaluateKnown`, `evaluateFresh` | `model_evaluate_is_generated` |
  | util.cpp `local_search`: trials per space, element-wise update, `continue` test | `trialsPerSpace`, `localSearchCoord`, `localSearchOutside` | `model_combos_is_generated`, `model_addScaled_is_generated`, `model_inGrid_is_generated` |
  | tuner.cpp `optimize`: `critical(spaces.empty(), …)`, then evaluate `avg_igrid` / coarse loop / `do_optimize` / `return steps` (order checked) | `optimizeRefuses` | `model_tunerOptimize_is_generated` |
  | tuner.cpp `optimize`: `for (radius = 2; !empty && size < max_evals / 2; radius *= 2)` | `coarseRadius0`, `coarseContinue`, `coarseNextRadius` | `model_optimize_is_generated`, `model_step_coarse_is_generated` |
  | local.cpp / surrogate.cpp `do_optimize`: loop condition, radius, centre argument | `localContinue`, `localRadius`, `surrogateContinue`, `surrogateRadius` | `model_step_main_is_generated`, `surrogate_header_is_local` |
  | surrogate.cpp fit ctor: `(p.cols() + 1) * (p.cols() + 2) / 2`, feature-map loop nest | `quadLen`, `featConst`, `featPairIdx`, `featTerm` | `model_quadLen_is_generated`, `model_featPairIdx_is_generated`, `model_quadTerms_is_generated` |
  | surrogate.cpp `quadratic_surrogate_t` ctor: dimension, asserts | `quadDim`, `QuadSizeOk` | `model_quadDim_is_generated`, `model_quadSize_is_generated` |
  | surrogate.cpp `quadratic_surrogate_t::do_vgrad`: both loop nests, `k` start values, per-pair updates | `gradK0`, `gradLin`, `gradPairIdx`, `gradTerm`, `valueInitIdx`, `valueK0`, `valueLin`, `valuePairIdx`, `valueTerm` | `model_gradPairIdx_is_generated`, `model_valuePairIdx_is_generated`, `model_quadGrad_is_generated`, `model_quadValue_is_generated` |
  | surrogate.cpp `do_vgrad`: the walk `m_model(k++)` itself, `k` threaded through the loops (value: both loops; gradient: the second-order nest) | `quadValueWalk`, `quadGradWalk2` | `walk_eq_zip`, `model_quadValue_is_generated_walk`, `model_quadGrad_is_generated_walk` (hypothesis: the walk stays inside the coefficient vector, `1 + n + #pairs ≤ m.size()`), `two_mul_pairIdx_length`, `model_quadValue_walk_of_assert`, `model_quadGrad_walk_of_assert` (hypothesis: the constructor's assert `m.size() = quadLen n`) |
  | machine/result.cpp `value(trial, …)`: accumulator, `sum_mean += stats.m_mean` over every fold, `/ static_cast<scalar_t>(folds())` | `trialValueInit`, `trialValueStep`, `trialValueFinish` | `model_trialValue_is_generated` |
  | machine/result.cpp `optimum_trial`, `closest_trial` (initial values, loop body, returned variable) | `optimumTrialInit/Step`, `optimumTrial`, `closestTrialInit/Step`, `closestTrial` | `model_optimumTrial_is_generated`, `model_closestTrial_is_generated` |
  | machine/tune.cpp `thread_callback`: `index % folds`, `index / folds`, `store(old_trials + trial, fold, …)`, `closest_trial(params, old_trials)`, `tpool.map(folds * new_trials, …)` | `tuneTrial`, `tuneFold`, `tuneStoreTrial`, `tuneStoreFold`, `tuneClosestMax`, `tuneTasks` | `model_threadCallback_is_generated`, `model_tune_counts_is_generated` |
  Hand-written only: `std::sort` inside `evaluate` (`SortSpec`), `map_to_grid`, `make_min` / `make_max` and the STL algorithms
  inside the constructor of `param_space_t` (`minElem`, `maxElem`, `isSortedL`, `hasAdjEq`), `fit_t::do_vgrad` (Eigen products + loss), `combinatorial_iterator_t`, the rest of machine/tune.cpp (`tuner_callback`, splitter, pool) and machine/result.cpp (`add`, `store`, `stats`, `values`: tensor bookkeeping).
-/
namespace NanoVerif.C13
open NanoVerif.Tuner

/-! ### the building blocks: `local_search`, `std::sort`, `evaluate` -/

/-- `local_search` only proposes points of the box -/
theorem localSearch_inGrid (mn mx src : IGrid) (r : Int) : ∀ g ∈ localSearch mn mx src r, inGrid mn mx g = true :=
  Tuner.localSearch_inGrid mn mx src r

/-- `local_search` proposes no point twice (radius ≠ 0; the tuners use 1, 2, 4, …) -/
theorem localSearch_nodup (mn mx src : IGrid) (r : Int) (hr : r ≠ 0) : (localSearch mn mx src r).Nodup :=
  Tuner.localSearch_nodup mn mx src r hr

/-- `local_search` proposes at most `3^d` points -/
theorem localSearch_length_le (mn mx src : IGrid) (r : Int) : (localSearch mn mx src r).length ≤ 3 ^ mn.length :=
  Tuner.localSearch_length_le mn mx src r

/-- the sort that is run in the driver is a sorted permutation -/
theorem mergeSort_sortSpec {α : Type} [LinearOrder α] : SortSpec (sortSteps : List (Step α) → List (Step α)) :=
  Tuner.mergeSort_sortSpec

/-- so is the sort the driver uses to follow the implementation's order of equal values -/
theorem hintedSort_sortSpec {α : Type} [LinearOrder α] (hints : List (Nat × IGrid)) :
    SortSpec (hintedSort hints : List (Step α) → List (Step α)) :=
  Tuner.hintedSort_sortSpec hints

/-- `evaluate` never makes a grid point appear twice among the steps (its proposals being duplicate-free) -/
theorem evaluate_nodup {α : Type} [LT α] (fin : α → Bool) (f : IGrid → α) (sortFn : List (Step α) → List (Step α))
    (hs : SortSpec sortFn) (igrids : List IGrid) (hig : igrids.Nodup) (steps : List (Step α))
    (hnd : (steps.map (·.igrid)).Nodup) (steps' : List (Step α)) (batch : List IGrid)
    (h : evaluate fin f sortFn igrids steps = .ok steps' batch) :
    (steps'.map (·.igrid)).Nodup ∧ (∀ g ∈ batch, g ∉ steps.map (·.igrid)) := by
  obtain ⟨hb, _, _, hst⟩ := evaluate_ok h
  have hp := ((hs (steps ++ batch.map fun g => ⟨g, f g⟩)).1).map (·.igrid)
  rw [← hst, List.map_append, List.map_map] at hp
  have hid : ((fun (x : Step α) => x.igrid) ∘ fun g => (⟨g, f g⟩ : Step α)) = id := by
    funext g; rfl
  rw [hid, List.map_id] at hp
  have hfresh : ∀ g ∈ batch, g ∉ steps.map (·.igrid) := fun g hg => (mem_freshOf.mp (hb ▸ hg)).2
  refine ⟨?_, hfresh⟩
  rw [hp.nodup_iff, List.nodup_append]
  refine ⟨hnd, (hb ▸ hig.sublist (freshOf_sublist igrids steps)), ?_⟩
  intro a ha b hb' hab
  subst hab
  exact hfresh a hb' ha

/-- `evaluate` throws exactly when a not yet evaluated point gets a non-finite value -/
theorem nonfinite_rejected_evaluate {α : Type} (fin : α → Bool) (f : IGrid → α)
    (sortFn : List (Step α) → List (Step α)) (igrids : List IGrid) (steps : List (Step α)) :
    (∃ b, evaluate fin f sortFn igrids steps = .bad b) ↔
      ∃ g ∈ igrids, g ∉ steps.map (·.igrid) ∧ fin (f g) = false := by
  rw [evaluate_bad_iff]
  constructor
  · rintro ⟨g, hg, h⟩
    exact ⟨g, (mem_freshOf.mp hg).1, (mem_freshOf.mp hg).2, h⟩
  · rintro ⟨g, h1, h2, h⟩
    exact ⟨g, mem_freshOf.mpr ⟨h1, h2⟩, h⟩

/-! ### `tuner_t::optimize` (both tuners) -/

section optimize
variable {α : Type} [LinearOrder α] (c : Cfg α) (hs : SortSpec c.sortFn) (avg : IGrid)
  (havg : inGrid c.mn c.mx avg = true) (fuel : Nat)
include hs havg

/-- every returned step is a point of the grids -/
theorem steps_in_grid (steps : List (Step α)) (tr : List (List IGrid)) (h : optimize c avg fuel = .ok steps tr) :
    ∀ s ∈ steps, inGrid c.mn c.mx s.igrid = true :=
  ((optimize_good hs avg havg fuel).ok steps tr h).grid

/-- no grid point is returned (= was evaluated) twice -/
theorem steps_nodup (steps : List (Step α)) (tr : List (List IGrid)) (h : optimize c avg fuel = .ok steps tr) :
    (steps.map (·.igrid)).Nodup :=
  ((optimize_good hs avg havg fuel).ok steps tr h).nodup

/-- at most `max_evals + 3^d` evaluations -/
theorem steps_budget (steps : List (Step α)) (tr : List (List IGrid)) (h : optimize c avg fuel = .ok steps tr) :
    steps.length ≤ c.maxEvals + 3 ^ c.mn.length :=
  ((optimize_good hs avg havg fuel).ok steps tr h).budget

/-- every returned value is finite and is the value the callback returned for that grid point -/
theorem steps_true_values (steps : List (Step α)) (tr : List (List IGrid)) (h : optimize c avg fuel = .ok steps tr) :
    ∀ s ∈ steps, c.fin s.value = true ∧ s.value = c.f s.igrid :=
  ((optimize_good hs avg havg fuel).ok steps tr h).vals

/-- the returned steps are exactly the evaluations: their grid points are a permutation of everything the callback was
    handed -/
theorem steps_perm_trace (steps : List (Step α)) (tr : List (List IGrid)) (h : optimize c avg fuel = .ok steps tr) :
    (steps.map (·.igrid)).Perm tr.flatten :=
  ((optimize_good hs avg havg fuel).ok steps tr h).trace

/-- the returned steps are sorted by value, there is a first one, and it is the minimum over everything observed -/
theorem steps_sorted_first_min (steps : List (Step α)) (tr : List (List IGrid))
    (h : optimize c avg fuel = .ok steps tr) :
    steps.Pairwise (fun a b => a.value ≤ b.value) ∧
    ∃ first rest, steps = first :: rest ∧ first.value = c.f first.igrid ∧ first.igrid ∈ tr.flatten ∧
      ∀ g ∈ tr.flatten, first.value ≤ c.f g := by
  have hinv := (optimize_good hs avg havg fuel).ok steps tr h
  have hsorted : steps.Pairwise (fun a b => a.value ≤ b.value) := hinv.sorted.imp (fun h => not_lt.mp h)
  refine ⟨hsorted, ?_⟩
  cases steps with
  | nil =>
    exfalso
    rcases optimize_first_batch avg fuel h with ⟨_, htr⟩ | ⟨suffix, htr⟩
    · -- `evaluate [avg] []` cannot be `.unchanged`
      unfold optimize at h
      split at h
      · rename_i hev
        have := evaluate_unchanged hev avg (by simp)
        simp at this
      · cases h
      · rename_i steps0 b hev
        have := hinv.trace.length_eq
        rw [htr] at this
        have hpre := run_trace_prefix c fuel _ _ _ _ h
        obtain ⟨suffix, hsuf⟩ := hpre
        rw [htr] at hsuf
        simp at hsuf
    · have := hinv.trace.length_eq
      rw [htr] at this
      simp at this
  | cons first rest =>
    refine ⟨first, rest, rfl, (hinv.vals first (by simp)).2, hinv.trace.subset (by simp), ?_⟩
    intro g hg
    have hg' : g ∈ (first :: rest).map (·.igrid) := hinv.trace.symm.subset hg
    obtain ⟨s, hsmem, rfl⟩ := List.mem_map.mp hg'
    rw [← (hinv.vals s hsmem).2]
    rcases List.mem_cons.mp hsmem with rfl | hs'
    · exact le_refl _
    · exact (List.pairwise_cons.mp hsorted).1 s hs'

/-- whatever the outcome (steps returned, non-finite value rejected, surrogate failure): the callback was only ever
    handed points of the grids … -/
theorem trace_in_grid : ∀ g ∈ (optimize c avg fuel).trace.flatten, inGrid c.mn c.mx g = true :=
  (optimize_good hs avg havg fuel).tinv.grid

/-- … never the same point twice … -/
theorem trace_nodup : (optimize c avg fuel).trace.flatten.Nodup :=
  (optimize_good hs avg havg fuel).tinv.nodup

/-- … and at most `max_evals + 3^d` points -/
theorem trace_budget : (optimize c avg fuel).trace.flatten.length ≤ c.maxEvals + 3 ^ c.mn.length :=
  (optimize_good hs avg havg fuel).tinv.budget

/-- non-finite values are rejected with an exception, and only they are: steps are returned only if every value the
    callback returned is finite, and the "invalid value" exception is raised only if one is not -/
theorem nonfinite_rejected :
    (∀ steps tr, optimize c avg fuel = .ok steps tr → ∀ g ∈ tr.flatten, c.fin (c.f g) = true) ∧
    (∀ tr, optimize c avg fuel = .bad tr → ∃ g ∈ tr.flatten, c.fin (c.f g) = false) := by
  refine ⟨?_, (optimize_good hs avg havg fuel).bad⟩
  intro steps tr h g hg
  have hinv := (optimize_good hs avg havg fuel).ok steps tr h
  have hg' : g ∈ steps.map (·.igrid) := hinv.trace.symm.subset hg
  obtain ⟨s, hsmem, rfl⟩ := List.mem_map.mp hg'
  have := hinv.vals s hsmem
  rw [← this.2]
  exact this.1

/-- the loops terminate: with fuel ≥ (number of grid points) + 2 the model never runs out of fuel -/
theorem optimize_terminates (hfuel : gridCard c.mn c.mx + 2 ≤ fuel) : optimize c avg fuel ≠ .fuel :=
  optimize_fuel hs avg havg fuel hfuel

end optimize

/-- `tuner_t::optimize` on parameter spaces given by their lists of grid values (each with at least one value; the
    constructor of `param_space_t` insists on two): every returned step maps to hyper-parameter values that are values
    of the respective grids, and the run never ends for lack of fuel -/
theorem steps_params_on_grid {α β : Type} [LinearOrder α] (spaces : List (List β)) (hne : spaces ≠ [])
    (hsz : ∀ vals ∈ spaces, 1 ≤ vals.length) (kind : Kind) (maxEvals : Nat) (fin : α → Bool) (f : IGrid → α)
    (sortFn : List (Step α) → List (Step α)) (hs : SortSpec sortFn) (oracle : List (Step α) → Option IGrid) :
    tunerOptimize kind (spaces.map List.length) maxEvals fin f sortFn oracle ≠ .fuel ∧
    ∀ steps tr, tunerOptimize kind (spaces.map List.length) maxEvals fin f sortFn oracle = .ok steps tr →
      ∀ s ∈ steps, ∃ vs, mapToGrid spaces s.igrid = some vs ∧ List.Forall₂ (fun v vals => v ∈ vals) vs spaces := by
  have hsizes : ∀ n ∈ spaces.map List.length, 1 ≤ n := by
    intro n hn
    obtain ⟨vals, hv, rfl⟩ := List.mem_map.mp hn
    exact hsz vals hv
  have havg := avgOf_inGrid (spaces.map List.length) hsizes
  have hempty : (spaces.map List.length).isEmpty = false := by
    cases spaces with
    | nil => exact absurd rfl hne
    | cons _ _ => rfl
  unfold tunerOptimize
  simp only [hempty, Bool.false_eq_true, if_false]
  refine ⟨optimize_fuel (c := ⟨kind, _, _, maxEvals, fin, f, sortFn, oracle⟩) hs _ havg _ (le_refl _), ?_⟩
  intro steps tr h s hsmem
  have hg := ((optimize_good (c := ⟨kind, _, _, maxEvals, fin, f, sortFn, oracle⟩) hs _ havg _).ok steps tr h).grid
    s hsmem
  exact mapToGrid_of_inGrid spaces s.igrid hg

/-! ### `ml::tune` / `ml::result_t` -/

open NanoVerif.Tune in
/-- indices `< trials * folds` ↔ pairs (trial, fold) -/
theorem decode_bijective (folds k : Nat) (hf : 0 < folds) :
    (∀ i, i < k * folds →
        (decode folds i).1 < k ∧ (decode folds i).2 < folds ∧ slot folds (decode folds i).1 (decode folds i).2 = i) ∧
    (∀ t f, t < k → f < folds → slot folds t f < k * folds ∧ decode folds (slot folds t f) = (t, f)) :=
  Tune.decode_bijective folds k hf

open NanoVerif.Tune in
/-- two different (trial, fold) never share a slot -/
theorem slots_disjoint (folds t f t' f' : Nat) (hf : f < folds) (hf' : f' < folds)
    (h : slot folds t f = slot folds t' f') : t = t' ∧ f = f' :=
  Tune.slots_disjoint folds t f t' f' hf hf' h

open NanoVerif.Tune in
/-- given that the pool runs every index exactly once (C17), in whatever order, the model callback is called exactly
    once per (trial, fold) of the batch and for nothing else -/
theorem tune_calls_once (folds k : Nat) (hf : 0 < folds) (order : List Nat)
    (hperm : order.Perm (List.range (k * folds))) :
    (∀ p ∈ callsOf folds order, p.1 < k ∧ p.2 < folds) ∧
    (∀ t f, t < k → f < folds → (callsOf folds order).count (t, f) = 1) :=
  Tune.tune_calls_once folds k hf order hperm

open NanoVerif.Tune in
/-- after a batch, slot (old + t, f) holds exactly what the model callback returned for (t, f), whatever the order -/
theorem batch_slots {σ : Type} (cb : Nat → Nat → Option σ → σ) (closest : Nat → Nat) (r0 : Result σ) (hwf : r0.wf)
    (k : Nat) (order : List Nat) (hperm : order.Perm (List.range (k * r0.folds))) :
    ∀ t f, t < k → f < r0.folds →
      (runBatch cb closest r0 k order).get? (r0.trials + t) f = some (cb t f ((r0.add k).get? (closest t) f)) :=
  Tune.batch_slots cb closest r0 hwf k order hperm

open NanoVerif.Tune in
/-- the statistics of the earlier trials are untouched by a batch -/
theorem batch_keeps_old {σ : Type} (cb : Nat → Nat → Option σ → σ) (closest : Nat → Nat) (r0 : Result σ) (hwf : r0.wf)
    (k : Nat) (order : List Nat) (hperm : order.Perm (List.range (k * r0.folds))) :
    ∀ t f, t < r0.trials → (runBatch cb closest r0 k order).get? t f = r0.get? t f :=
  Tune.batch_keeps_old cb closest r0 hwf k order hperm

open NanoVerif.Tune in
/-- `optimum_trial` is the first trial with the smallest value (values not NaN: a linear order; none above `top`) -/
theorem optimum_is_argmin {α : Type} [LinearOrder α] (top : α) (values : List α) (hne : values ≠ [])
    (htop : ∀ v ∈ values, v ≤ top) :
    ∃ hb : optimumTrial top values < values.length,
      (∀ j (hj : j < values.length), values[optimumTrial top values] ≤ values[j]) ∧
      (∀ j (hj : j < optimumTrial top values), values[optimumTrial top values] < values[j]) :=
  Tune.optimum_is_argmin top values hne htop

/-! ### non-vacuity: concrete runs the kernel evaluates (insertion sort satisfies `SortSpec`) -/

/-- one grid of 7 values, landscape 9 4 2 7 1 3 8 (minimum at index 4), `max_evals = 10` -/
def exLand : IGrid → Int
  | [0] => 9 | [1] => 4 | [2] => 2 | [3] => 7 | [4] => 1 | [5] => 3 | [6] => 8
  | _ => 100

def exCfg (kind : Kind) (oracle : List (Step Int) → Option IGrid) : Cfg Int :=
  ⟨kind, minOf [7], maxOf [7], 10, fun _ => true, exLand, insertionSort, oracle⟩

def summary : Res Int → List (List Int × Int) × List (List IGrid)
  | .ok steps tr => (steps.map fun s => (s.igrid, s.value), tr)
  | .bad tr => ([([-1], 0)], tr)
  | .fail tr => ([([-2], 0)], tr)
  | _ => ([], [])

-- local search: batches {3}, {1,5}, then around 5: {4,6}, around 4: nothing new; sorted by value, first = minimum
example : summary (optimize (exCfg .localSearch fun _ => none) (avgOf [7]) (gridCard (minOf [7]) (maxOf [7]) + 2)) =
    ([([4], 1), ([5], 3), ([1], 4), ([3], 7), ([6], 8)], [[[3]], [[1], [5]], [[4], [6]]]) := by decide

-- surrogate with an oracle that always proposes grid point 0: one more batch {0}, then nothing new
example : summary (optimize (exCfg .surrogate fun _ => some [0]) (avgOf [7]) 9) =
    ([([5], 3), ([1], 4), ([3], 7), ([0], 9)], [[[3]], [[1], [5]], [[0]]]) := by decide

-- a failing surrogate: exception after the coarse phase
example : summary (optimize (exCfg .surrogate fun _ => none) (avgOf [7]) 9) =
    ([([-2], 0)], [[[3]], [[1], [5]]]) := by decide

-- a callback value that is not finite is rejected in the batch in which it appears
example : summary (optimize { exCfg .localSearch (fun _ => none) with fin := fun v => v != 3 } (avgOf [7]) 9) =
    ([([-1], 0)], [[[3]], [[1], [5]]]) := by decide

-- the hypotheses of the theorems are satisfiable: the run above is covered by them
example : ∀ steps tr, optimize (exCfg .localSearch fun _ => none) (avgOf [7]) 9 = .ok steps tr →
    (steps.map (·.igrid)).Nodup ∧ steps.length ≤ 10 + 3 ^ 1 :=
  fun steps tr h =>
    ⟨steps_nodup _ insertionSort_sortSpec _ (by decide) _ steps tr h,
     steps_budget _ insertionSort_sortSpec _ (by decide) _ steps tr h⟩

-- too little fuel is reported as such (so `optimize_terminates` is not vacuous)
example : summary (optimize (exCfg .localSearch fun _ => none) (avgOf [7]) 2) = ([], []) := by decide

example : Tune.decode 3 7 = (2, 1) ∧ Tune.slot 3 2 1 = 7 := by decide
example : Tune.optimumTrial 100 [5, 3, 7, 3] = 1 ∧ Tune.optimumTrial 100 [100, 100] = 0 := by decide
example : (Tune.runBatch (fun t f _ => 10 * t + f) (fun _ => 0) (Tune.Result.empty 2) 2 [3, 0, 2, 1]).slots =
    [some 0, some 1, some 10, some 11] := by decide

/-! ### the quadratic surrogate: the two functions handed to L-BFGS (`Model/TunerSurrogate.lean`) -/

section surrogate
variable {α : Type} [Field α] [LinearOrder α] [IsStrictOrderedRing α]

/-- the fit objective (`quadratic_surrogate_fit_t`, mse loss) along every line `x + t d` is exactly
    value + `t`·⟨gradient as coded, d⟩ + `t²`·curvature -/
theorem fit_expand (rows : List (List α)) (ys x d : List α) (t : α) (hrows : ∀ row ∈ rows, row.length = x.length)
    (hd : d.length = x.length) :
    fitValue rows ys (vline x d t) =
      fitValue rows ys x + t * sdot (fitGrad rows ys x) d + t ^ 2 * fitCurv rows ys d :=
  Tuner.fit_expand rows ys x d t hrows hd

omit [LinearOrder α] [IsStrictOrderedRing α] in
/-- the rows the tuner builds (`quadTerms` of points with the same number of coordinates) all have the same length -/
theorem fit_rows_same_length (p q : List α) (h : p.length = q.length) : (quadTerms p).length = (quadTerms q).length := by
  simp [quadTerms, h]

/-- … lies above each of its tangent planes … -/
theorem fit_above_tangent (rows : List (List α)) (ys x d : List α) (hrows : ∀ row ∈ rows, row.length = x.length)
    (hd : d.length = x.length) :
    fitValue rows ys x + sdot (fitGrad rows ys x) d ≤ fitValue rows ys (vline x d 1) :=
  Tuner.fit_above_tangent rows ys x d hrows hd

/-- … is convex (along every line: below the chord) … -/
theorem fit_convex (rows : List (List α)) (ys x d : List α) (lam : α) (hrows : ∀ row ∈ rows, row.length = x.length)
    (hd : d.length = x.length) (h0 : 0 ≤ lam) (h1 : lam ≤ 1) :
    fitValue rows ys (vline x d lam) ≤ (1 - lam) * fitValue rows ys x + lam * fitValue rows ys (vline x d 1) :=
  Tuner.fit_convex rows ys x d lam hrows hd h0 h1

/-- … and a stationary point of it is a global minimiser: the best quadratic for the evaluated steps -/
theorem fit_stationary_is_min (rows : List (List α)) (ys x d : List α) (hrows : ∀ row ∈ rows, row.length = x.length)
    (hd : d.length = x.length) (hstat : ∀ g ∈ fitGrad rows ys x, g = 0) :
    fitValue rows ys x ≤ fitValue rows ys (vline x d 1) :=
  Tuner.fit_stationary_is_min rows ys x d hrows hd hstat

/-- the fitted quadratic (`quadratic_surrogate_t`) along every line: value + `t`·⟨gradient as coded, d⟩ + `t²`·curvature -/
theorem quad_expand (m x d : List α) (t : α) (hm : 1 + x.length ≤ m.length) (hd : d.length = x.length) :
    quadValue m (vline x d t) = quadValue m x + t * sdot (quadGrad m x) d + t ^ 2 * quadCurv m d :=
  Tuner.quad_expand m x d t hm hd

/-- a stationary point of the fitted quadratic is a minimiser when the curvature is not negative (nothing holds
    otherwise: the code rightly declares `convexity::no`, see the concave example below) -/
theorem quad_stationary_is_min (m x d : List α) (hm : 1 + x.length ≤ m.length) (hd : d.length = x.length)
    (hcurv : 0 ≤ quadCurv m d) (hstat : sdot (quadGrad m x) d = 0) :
    quadValue m x ≤ quadValue m (vline x d 1) :=
  Tuner.quad_stationary_is_min m x d hm hd hcurv hstat

/-- the value of the fitted quadratic at `p` is the fit's output for a sample at `p` -/
theorem quad_is_fit_output (m p : List α) (hm : 1 + p.length ≤ m.length) : quadValue m p = sdot (quadTerms p) m :=
  Tuner.quad_is_fit_output m p hm

end surrogate

/-- `quadratic_surrogate_fit_t`: the gradient `do_vgrad` writes is the derivative of the value it returns (along every
    line, as in C06) -/
theorem fit_grad_is_deriv (rows : List (List ℝ)) (ys x d : List ℝ) (hrows : ∀ row ∈ rows, row.length = x.length)
    (hd : d.length = x.length) :
    HasDerivAt (fun t : ℝ => fitValue rows ys (vline x d t)) (sdot (fitGrad rows ys x) d) 0 :=
  Tuner.fit_grad_is_deriv rows ys x d hrows hd

/-- `quadratic_surrogate_t`: likewise -/
theorem quad_grad_is_deriv (m x d : List ℝ) (hm : 1 + x.length ≤ m.length) (hd : d.length = x.length) :
    HasDerivAt (fun t : ℝ => quadValue m (vline x d t)) (sdot (quadGrad m x) d) 0 :=
  Tuner.quad_grad_is_deriv m x d hm hd

/-- the dimension `quadratic_surrogate_t` recovers from the number of coefficients is the right one -/
theorem quadDim_quadLen (n : Nat) : quadDim (quadLen n) = n := Tuner.quadDim_quadLen n

/-- the constructor's `assert`s imply the length hypothesis of the theorems above -/
theorem quadSize_le {α : Type} (m : List α) (n : Nat) (h : quadSize? m = some n) :
    0 < n ∧ m.length = quadLen n ∧ 1 + n ≤ m.length := Tuner.quadSize_le m n h

/-! ### parameter spaces (`param_space_t`) -/

section spaces
variable {α : Type} [Field α] [LinearOrder α] [IsStrictOrderedRing α]

/-- closest-point optimality: the grid point returned is a nearest one in surrogate coordinates, and the first such -/
theorem closest_point_optimal (top : α) (sg : List α) (v : α) (hne : sg ≠ []) (htop : ∀ g ∈ sg, |v - g| ≤ top) :
    ∃ hb : closestScan top sg v < sg.length,
      (∀ j (hj : j < sg.length), |v - sg[closestScan top sg v]| ≤ |v - sg[j]|) ∧
      (∀ j (hj : j < closestScan top sg v), |v - sg[closestScan top sg v]| < |v - sg[j]'(by omega)|) :=
  Tuner.closestScan_spec top sg v hne htop

/-- round trip on grid points -/
theorem closest_roundtrip (top : α) (sg : List α) (hinc : sg.Pairwise (· < ·)) (k : Nat) (hk : k < sg.length)
    (htop : ∀ g ∈ sg, |sg[k] - g| ≤ top) : closestScan top sg sg[k] = k :=
  Tuner.closestScan_roundtrip top sg hinc k hk htop

/-- what the constructor's four `critical`s guarantee -/
theorem space_make_spec (eps : α) (kind : SpaceKind) (grid : List α) (s : Space α)
    (h : Space.make? eps kind grid = some s) :
    s.kind = kind ∧ s.grid = grid ∧ 2 ≤ grid.length ∧ grid.Pairwise (· < ·) ∧
      grid.head? = some s.mn ∧ grid.getLast? = some s.mx ∧ s.mn < s.mx ∧ (kind = .log10 → eps ≤ s.mn) :=
  Tuner.make?_spec eps kind grid s h

variable [Log10 α]

/-- `to_surrogate` throws exactly outside `[m_min, m_max]` -/
theorem toSurrogate_none_iff (s : Space α) (v : α) : s.toSurrogate v = none ↔ v < s.mn ∨ s.mx < v :=
  Tuner.toSurrogate_none_iff s v

/-- linear space: onto `[0, 1]` -/
theorem toSurrogate_linear (s : Space α) (hk : s.kind = .linear) (hlt : s.mn < s.mx) (v : α) (h1 : s.mn ≤ v)
    (h2 : v ≤ s.mx) :
    ∃ a, s.toSurrogate v = some a ∧ 0 ≤ a ∧ a ≤ 1 ∧ a = (v - s.mn) / (s.mx - s.mn) :=
  Tuner.toSurrogate_linear s hk hlt v h1 h2

/-- linear space: strictly increasing -/
theorem toSurrogate_linear_strictMono (s : Space α) (hk : s.kind = .linear) (hlt : s.mn < s.mx) (v w a b : α)
    (hv : s.toSurrogate v = some a) (hw : s.toSurrogate w = some b) (hvw : v < w) : a < b :=
  Tuner.toSurrogate_linear_strictMono s hk hlt v w a b hv hw hvw

/-- `from_surrogate` answers within `[m_min, m_max]` -/
theorem fromSurrogate_mem (s : Space α) (v : α) (h : s.mn ≤ s.mx) :
    s.mn ≤ s.fromSurrogate v ∧ s.fromSurrogate v ≤ s.mx := Tuner.fromSurrogate_mem s v h

/-- linear space: `from_surrogate ∘ to_surrogate = id` -/
theorem fromSurrogate_toSurrogate_linear (s : Space α) (hk : s.kind = .linear) (hlt : s.mn < s.mx) (v a : α)
    (hv : s.toSurrogate v = some a) : s.fromSurrogate a = v :=
  Tuner.fromSurrogate_toSurrogate_linear s hk hlt v a hv

/-- a space built by the constructor has surrogate coordinates for all its grid points (`to_surrogate` never throws there) -/
theorem sgrid_isSome (eps : α) (kind : SpaceKind) (grid : List α) (s : Space α)
    (h : Space.make? eps kind grid = some s) : ∃ sg, s.sgrid = some sg ∧ sg.length = grid.length :=
  Tuner.sgrid_isSome eps kind grid s h

/-- linear space: `closest_grid_point_from_surrogate(to_surrogate(grid value k)) = k` -/
theorem closestGridPoint_roundtrip_linear (top : α) (s : Space α) (hk : s.kind = .linear) (hlt : s.mn < s.mx)
    (hinc : s.grid.Pairwise (· < ·)) (sg : List α) (hsg : s.sgrid = some sg) (k : Nat) (hk' : k < sg.length)
    (htop : ∀ g ∈ sg, |sg[k] - g| ≤ top) : s.closestGridPoint top sg[k] = some k :=
  Tuner.closestGridPoint_roundtrip_linear top s hk hlt hinc sg hsg k hk' htop

/-- whatever the solver returned, the centre derived from it is a point of the grid box -/
theorem centreOf_inGrid (top : α) (spaces : List (Space α)) (x : List α) (c : IGrid)
    (hne : ∀ s ∈ spaces, s.grid ≠ []) (h : centreOf top spaces x = some c) :
    inGrid (minOf (spaces.map (·.grid.length))) (maxOf (spaces.map (·.grid.length))) c = true :=
  Tuner.centreOf_inGrid top spaces x c hne h

/-- **the surrogate tuner's batch** — the oracle is reduced to the two solver runs: the batch handed to the callback in
    an iteration of `surrogate_tuner_t::do_optimize` is the radius-1 neighbourhood (minus the evaluated points) of the
    grid point closest, coordinate by coordinate, to the minimiser `x` the solver returned for the quadratic `m` it had
    fitted to the quadratic features of ALL evaluated steps and their values, started at the best step. All the
    theorems on `optimize` above hold for this (as for every) oracle. -/
theorem surrogate_step_centre (c : Cfg α) (top : α) (spaces : List (Space α)) (solver : Solver α)
    (hkind : c.kind = .surrogate) (horacle : c.oracle = surrogateCentre top spaces solver)
    (hne : ∀ s ∈ spaces, s.grid ≠ []) (st st' : St α) (hmain : st.phase = .main) (batch : List IGrid)
    (hb : batch ≠ []) (h : step c st = .next st' batch) :
    ∃ x0 ps m x centre,
      fitData spaces st.steps = some (x0 :: ps, st.steps.map (·.value)) ∧
      solver.fit ((x0 :: ps).map quadTerms) (st.steps.map (·.value)) = some m ∧ solver.opt m x0 = some x ∧
      centreOf top spaces x = some centre ∧
      inGrid (minOf (spaces.map (·.grid.length))) (maxOf (spaces.map (·.grid.length))) centre = true ∧
      batch = freshOf (localSearch c.mn c.mx centre 1) st.steps :=
  Tuner.surrogate_step_centre c top spaces solver hkind horacle hne st st' hmain batch hb h

end spaces

/-- log10 space over ℝ (values ≥ epsilon > 0): strictly increasing -/
theorem toSurrogate_log10_strictMono (s : Space ℝ) (hk : s.kind = .log10) (hpos : 0 < s.mn) (v w a b : ℝ)
    (hv : s.toSurrogate v = some a) (hw : s.toSurrogate w = some b) (hvw : v < w) : a < b :=
  Tuner.toSurrogate_log10_strictMono s hk hpos v w a b hv hw hvw

/-- log10 space: `from_surrogate ∘ to_surrogate = id` -/
theorem fromSurrogate_toSurrogate_log10 (s : Space ℝ) (hk : s.kind = .log10) (hpos : 0 < s.mn) (v a : ℝ)
    (hv : s.toSurrogate v = some a) : s.fromSurrogate a = v :=
  Tuner.fromSurrogate_toSurrogate_log10 s hk hpos v a hv

/-- log10 space: `closest_grid_point_from_surrogate(to_surrogate(grid value k)) = k` -/
theorem closestGridPoint_roundtrip_log10 (top : ℝ) (s : Space ℝ) (hk : s.kind = .log10) (hpos : 0 < s.mn)
    (hinc : s.grid.Pairwise (· < ·)) (sg : List ℝ) (hsg : s.sgrid = some sg) (k : Nat) (hk' : k < sg.length)
    (htop : ∀ g ∈ sg, |sg[k] - g| ≤ top) : s.closestGridPoint top sg[k] = some k :=
  Tuner.closestGridPoint_roundtrip_log10 top s hk hpos hinc sg hsg k hk' htop

/-! ### warm starts of `ml::tune`: `result_t::closest_trial` -/

section closest
variable {α π : Type} [Field α] [LinearOrder α] [IsStrictOrderedRing α]
open NanoVerif.Tune

/-- `closest_trial(params, max_trials)` reads the first `max_trials` rows only -/
theorem closestTrial_frame (top : α) (dist : π → π → α) (rows rows' : List π) (p : π) (k : Nat)
    (h : rows.take k = rows'.take k) : closestTrial top dist rows p k = closestTrial top dist rows' p k :=
  Tune.closestTrial_frame top dist rows rows' p k h

/-- … answers a trial before `max_trials` … -/
theorem closestTrial_lt (top : α) (dist : π → π → α) (rows : List π) (p : π) (k : Nat) (hk : 0 < k)
    (hle : k ≤ rows.length) : closestTrial top dist rows p k < k :=
  Tune.closestTrial_lt top dist rows p k hk hle

/-- … (trial 0 when there is none: the very first batch) … -/
theorem closestTrial_zero (top : α) (dist : π → π → α) (rows : List π) (p : π) :
    closestTrial top dist rows p 0 = 0 := Tune.closestTrial_zero top dist rows p

/-- … namely the first nearest one -/
theorem closestTrial_nearest (top : α) (dist : π → π → α) (rows : List π) (p : π) (k : Nat) (hk : 0 < k)
    (hle : k ≤ rows.length) (htop : ∀ row ∈ rows.take k, dist row p ≤ top) :
    ∃ hc : closestTrial top dist rows p k < rows.length,
      (∀ j (hj : j < k), dist rows[closestTrial top dist rows p k] p ≤ dist (rows[j]'(by omega)) p) ∧
      (∀ j (hj : j < closestTrial top dist rows p k), dist rows[closestTrial top dist rows p k] p <
        dist (rows[j]'(by omega)) p) :=
  Tune.closestTrial_nearest top dist rows p k hk hle htop

/-- in `ml::tune` (rows of the batch in flight already appended by `result.add`, `max_trials = old_trials > 0`) every
    task is handed the model data of a trial of an EARLIER batch, independent of the batch in flight, read from a slot
    no task of the batch writes -/
theorem tune_reads_only_earlier {σ : Type} (top : α) (dist : π → π → α) (r0 : Result σ) (hwf : r0.wf) (old new : List π)
    (hold : old.length = r0.trials) (hpos : 0 < r0.trials) (p : π) (f : Nat) :
    closestTrial top dist (old ++ new) p r0.trials < r0.trials ∧
    closestTrial top dist (old ++ new) p r0.trials = closestTrial top dist old p r0.trials ∧
    (r0.add new.length).get? (closestTrial top dist (old ++ new) p r0.trials) f =
      r0.get? (closestTrial top dist (old ++ new) p r0.trials) f :=
  Tune.tune_reads_only_earlier top dist r0 hwf old new hold hpos p f

end closest

/-! ### the order of the returned steps -/

/-- `operator<` of `tuner_step_t` (step.h:21-24, the value only) is a strict weak order on steps with values of a linear
    order (what `std::sort` requires; all stored values are finite, `steps_true_values`): irreflexive, transitive, and
    "neither is smaller" is transitive -/
theorem step_order_strict_weak {α : Type} [LinearOrder α] (a b c : Step α) :
    ¬ a.value < a.value ∧ (a.value < b.value → b.value < c.value → a.value < c.value) ∧
    ((¬ a.value < b.value ∧ ¬ b.value < a.value) → (¬ b.value < c.value ∧ ¬ c.value < b.value) →
      (¬ a.value < c.value ∧ ¬ c.value < a.value)) := by
  refine ⟨lt_irrefl _, lt_trans, ?_⟩
  rintro ⟨h1, h2⟩ ⟨h3, h4⟩
  have hab : a.value = b.value := le_antisymm (not_lt.mp h2) (not_lt.mp h1)
  have hbc : b.value = c.value := le_antisymm (not_lt.mp h4) (not_lt.mp h3)
  rw [hab, hbc]
  exact ⟨lt_irrefl _, lt_irrefl _⟩

/-! ### non-vacuity of the new theorems -/

-- the quadratic features, the fit and the fitted quadratic on concrete data (kernel-evaluated over ℤ; `1 / 2 = 0` there,
-- so only the parts without the `0.5` of the loss)
example : quadTerms [(2 : Int), 3] = [1, 2, 3, 4, 6, 9] := by decide
example : pairIdx 3 = [(0, 0), (0, 1), (0, 2), (1, 1), (1, 2), (2, 2)] := by decide
example : quadLen 1 = 3 ∧ quadLen 2 = 6 ∧ quadLen 3 = 10 ∧ quadDim 6 = 2 := ⟨by decide, by decide, by decide, quadDim_quadLen 2⟩
example : fitGrad [[1, 0, 0], [1, 1, 1]] [(5 : Int), 7] [1, 1, 1] = [-8, -4, -4] := by decide
-- f(x, y) = 1 + 2x + 3y + 4x² + 5xy + 6y² at (1, -1): value, gradient (2 + 8x + 5y, 3 + 5x + 12y)
example : quadValue [(1 : Int), 2, 3, 4, 5, 6] [1, -1] = 5 ∧ quadGrad [(1 : Int), 2, 3, 4, 5, 6] [1, -1] = [5, -4] := by
  decide
example : quadSize? [(1 : Int), 2, 3, 4, 5, 6] = some 2 := Tuner.quadSize_quadLen _ 2 (by decide) rfl
-- the surrogate is not convex in general: −x² is stationary at 0 and smaller everywhere else (the hypothesis `hcurv` of
-- `quad_stationary_is_min` is necessary; on the real code the L-BFGS run then leaves towards ±1e88 and the proposed
-- centre collapses to grid point 0 — corpus/C13/ops.txt, "concave surrogate")
example : quadGrad [(0 : Int), 0, -1] [0] = [0] ∧ quadValue [(0 : Int), 0, -1] [1] < quadValue [(0 : Int), 0, -1] [0] ∧
    quadCurv [(0 : Int), 0, -1] [1] < 0 := by decide
-- the hypotheses of the expansion theorems are satisfiable (two samples at p = 0 and p = 1, one hyper-parameter)
example : fitValue [quadTerms [0], quadTerms [1]] [(3 : ℝ), 5] (vline [1, 1, 1] [1, 0, 2] 2) =
    fitValue [quadTerms [0], quadTerms [1]] [3, 5] [1, 1, 1] +
      2 * sdot (fitGrad [quadTerms [0], quadTerms [1]] [3, 5] [1, 1, 1]) [1, 0, 2] +
      2 ^ 2 * fitCurv [quadTerms [0], quadTerms [1]] [3, 5] [1, 0, 2] :=
  fit_expand _ _ _ _ _ (by simp [quadTerms, pairIdx]) (by simp)
example : HasDerivAt (fun t : ℝ => quadValue [1, 2, 3] (vline [4] [5] t)) (sdot (quadGrad [1, 2, 3] [4]) [5]) 0 :=
  quad_grad_is_deriv _ _ _ (by simp) (by simp)
-- parameter spaces: the constructor's guards, the maps, the closest grid point (ties go to the first; a distance above
-- `top` is never selected: the hypothesis `htop` of `closest_point_optimal` is necessary)
instance : Log10 Int := ⟨fun v => v, fun v => v⟩
example : (Space.make? (1 : Int) .linear [0, 2, 4]).map (fun s => (s.mn, s.mx)) = some (0, 4) := by decide
example : (Space.make? (1 : Int) .linear [0, 2, 2]).isNone ∧ (Space.make? (1 : Int) .linear [0, 3, 2]).isNone ∧
    (Space.make? (1 : Int) .linear [7]).isNone ∧ (Space.make? (1 : Int) .log10 [0, 3]).isNone := by decide
example : closestScan (100 : Int) [0, 2, 4] 3 = 1 ∧ closestScan (100 : Int) [0, 2, 4] 4 = 2 ∧
    closestScan (100 : Int) [0, 2, 4] 50 = 2 ∧ closestScan (1 : Int) [5, 3] 0 = 0 := by decide
example : centreOf (100 : Int) [⟨.log10, [1, 2, 3], 1, 3⟩, ⟨.log10, [1, 2], 1, 2⟩] [5, 1] = some [2, 0] := by decide
example : ∃ s : Space ℝ, Space.make? (1 / 4) .log10 [1, 10] = some s :=
  ⟨⟨.log10, [1, 10], 1, 10⟩, by norm_num [Space.make?, minElem, maxElem, isSortedL, hasAdjEq]⟩
-- the generated definitions compute (kernel-evaluated over ℤ): the regenerated loop body / loop nests give the model's answers
example : Gen.TunerSpace.closestGridPoint (fun v : Int => v) 100 .log10 0 4 [0, 2, 4] 3 = some 1 ∧
    Gen.TunerSpace.toSurrogate (fun v : Int => v) .linear 0 4 5 = none ∧
    Gen.TunerSpace.valuePairIdx 3 = [(0, 0), (0, 1), (0, 2), (1, 1), (1, 2), (2, 2)] ∧
    Gen.TunerSpace.localSearchOutside 3 0 2 = true ∧ Gen.TunerSpace.localSearchOutside 2 0 2 = false := by decide
-- the hypothesis of the walk theorems is satisfiable (6 coefficients, 2 variables), and the threaded walk computes
example : 1 + [(1 : Int), -1].length + (pairIdx [(1 : Int), -1].length).length ≤ [(1 : Int), 2, 3, 4, 5, 6].length ∧
    Gen.TunerSpace.quadValueWalk [(1 : Int), 2, 3, 4, 5, 6] [1, -1] = 5 ∧
    [(1 : Int), 2, 3, 4, 5, 6].length = quadLen [(1 : Int), -1].length := by decide
-- warm starts: the row of the batch in flight (distance 0) is not looked at
example : Tune.closestTrial (100 : Int) (fun a b => (a - b) * (a - b)) [5, 1, 9, 2] 2 3 = 1 := by decide
example : (Step.mk [0] (1 : Int)).value < (Step.mk [1] (2 : Int)).value := by decide

end NanoVerif.C13
