import NanoVerif.Proofs.Stats
import NanoVerif.Proofs.StatsGen
import NanoVerif.Proofs.StatsNth
import NanoVerif.Proofs.StatsExp
import NanoVerif.Proofs.StatsExpReal
import NanoVerif.Proofs.StatsLin
import NanoVerif.Proofs.StatsStore
import Mathlib.Data.Rat.Floor
/-!
  C20 — order statistics and histograms are consistent with a sorted-array reference.

  Property theorems about the model `Model/Stats.lean` (+ `Model/StatsTyped.lean`, `Model/StatsExp.lean`), in exact
  arithmetic: `α` is any linear ordered field with a floor function (`ℚ`, `ℝ`, …); positions and bin indices are naturals.
  `std::sort` enters as a parameter `sort` with the contract `SortSpec` (sorted permutation), instantiated by
  `List.mergeSort` (`mergeSort_sortSpec`); `std::nth_element` as a parameter `nth` with the PARTIAL-ORDER contract `NthSpec`
  (instantiated by `nthBySort_spec`, monitored on the real function at run time). Helper lemmas are in `Proofs/Stats*.lean`.
  Nothing is `_partial`.

  GAP TABLE (gap-closing round) — every function of the anchored files
  ---------------------------------------------------------------------------------------------------------------------
  include/nano/core/stats.h
    detail::percentile (15-37)            translated  Gen.Stats.percentileGuard / percentileBody (position formula, floor / ceil
                                                      pair, lpos == rpos test, midpoint), tied to the model by
                                                      `model_percentile_is_generated` / `model_percentileC_is_generated` (rfl)
    percentile (42-54)                    modelled    `percentileNthC` (one or two nth_element calls on the caller's range, value
                                                      read as double); `percentile` (= sorted view); wrapper text pinned by translate()
    percentile_sorted (59-72)             modelled    `percentileSortedC`, `percentileSorted`; precondition `is_sorted` = hypothesis
                                                      `hs` of `percentile_value_between`, necessary: `sorted_precondition_necessary`
    median, median_sorted (77-90)         modelled    `medianNthC`, `medianSortedC`, `median`, `medianSorted`
    std::nth_element                      oracle      parameter `nth` with contract `NthSpec`; MONITORED on every `pct unsorted` op
                                                      (python `nth_monitor` on the range the harness reads back after the call)
    std::sort                             oracle      parameter `sort` with contract `SortSpec` (result compared through every op)
    AIC / AICc / BIC (100-147)            outside     not part of this statement; modelled by C10 (`Model/WLearner.lean`)
  include/nano/core/histogram.h
    histogram_t(begin, end, thresholds)   modelled    `mkHist` (sorts values AND thresholds: `ctor_sorts_thresholds`; the sort is
                                                      necessary: `unsorted_thresholds_break_the_rule`)
    make_from_thresholds                  modelled    `mkHist`
    make_from_ratios (list)               modelled    `thresholdsFromRatios`, `histFromRatios`
    make_from_ratios (bins)               modelled    `histFromEqRatios` (was: list read back)
    make_from_percentiles (list)          modelled    `thresholdsFromPercentiles`, `histFromPercentiles`
    make_from_percentiles (bins)          modelled    `histFromEqPercentiles` (was: list read back)
    make_from_exponents                   modelled    `getExponent`, `exponentOf`, `expScan`, `expThresholds`, `histFromExponents`
                                                      with `Libm` = log / pow / fabs (was: thresholds read back)
    update, update_bin, mean              modelled    `bins`, `splitLt`, `binStat`, `mean`
    bin(value)                            modelled    `binOf`, `upperBound` (NaN / ±inf queries compared at `Float`)
    means / counts / medians / thresholds / bins / mean(b) / median(b) / count(b)
                                          modelled    `Hist.stats`, `Hist.thresholds`; the harness checks accessor(b) = vector(b)
  src/core/histogram.cpp
    make_equidistant_ratios / percentiles modelled    `equidistantRatios`, `equidistantPercentiles` over `linSpaced`
                                                      (= Eigen 3.4 `linspaced_op_impl<double,false>`, modelled as coded)
  src/machine/stats.cpp, include/nano/machine/stats.h
    store_stats                           modelled    `storeStats` (slot layout + percentile list translated: Gen.Stats)
    load_stats, stats_t                   modelled    `loadStats`, `StatsT` (field names / order translated: `stats_fields_match`)
    tensor::mean / variance / stdev       modelled    `tmean`, `tvariance`, `tstdev` (`tvariance_two_pass`, `tstdev_is_standard_error`)
    std::sqrt                             oracle      class `HasSqrt` (bound to `Float.sqrt`; compared at rtol 1e-9)
  src/wlearner/criterion.cpp
    make_score                            outside     C10
  outside every model: binary64 rounding (the theorems are exact; the double computation of the position is compared with the
  exact one on the WHOLE grid p = 0..100, n = 1..500 — 50 500 pairs, both tiers — and on p = k/8 for every n in the thorough tier);
  `int` overflow of `get_exponent` for `base < 1 + 2^-20`; NaN values / thresholds (`std::sort` undefined); empty ranges (UB).
-/
namespace NanoVerif.Stats
set_option linter.unusedSectionVars false

variable {α : Type} [Field α] [LinearOrder α] [IsStrictOrderedRing α] [FloorRing α]

/-! ### percentiles -/

/-- **percentile_spec.** For a non-empty list of `n` values and `0 ≤ p ≤ 100` let `q = p (n-1) / 100`. There are
    positions `l = ⌊q⌋` and `r = ⌈q⌉` (pinned by the four inequalities), both inside the list, `l ≤ r ≤ l + 1`, and
    `percentile_sorted` returns the value at position `q` when `q` is integral (`l = r`) and the midpoint of the two
    neighbours `xs[l]`, `xs[r]` when it is fractional. -/
theorem percentile_spec (xs : List α) (p : α) (hne : xs ≠ []) (h0 : 0 ≤ p) (h100 : p ≤ 100) :
    ∃ (l r : ℕ) (hl : l < xs.length) (hr : r < xs.length),
      (l : α) ≤ p * ((xs.length - 1 : ℕ) : α) / 100 ∧ p * ((xs.length - 1 : ℕ) : α) / 100 < l + 1 ∧
      (r : α) - 1 < p * ((xs.length - 1 : ℕ) : α) / 100 ∧ p * ((xs.length - 1 : ℕ) : α) / 100 ≤ r ∧
      l ≤ r ∧ r ≤ l + 1 ∧
      percentileSorted xs p = some (if l = r then xs[l] else (xs[l] + xs[r]) / 2) := by
  have hn : 0 < xs.length := List.length_pos_of_ne_nil hne
  obtain ⟨l, r, hfl, hcl, hl, hr, hlr, hrl⟩ := position_indices xs.length p hn h0 h100
  refine ⟨l, r, hl, hr, ?_, ?_, ?_, ?_, hlr, hrl, percentileSorted_eq xs p hne h0 h100 l r hfl hcl hl hr⟩
  · have := (Int.floor_eq_iff.mp hfl).1
    rw [position_eq] at this
    exact_mod_cast this
  · have := (Int.floor_eq_iff.mp hfl).2
    rw [position_eq] at this
    exact_mod_cast this
  · have := (Int.ceil_eq_iff.mp hcl).1
    rw [position_eq] at this
    exact_mod_cast this
  · have := (Int.ceil_eq_iff.mp hcl).2
    rw [position_eq] at this
    exact_mod_cast this

/-- On a sorted list the returned value lies between the two neighbours of the position (so it is an order statistic
    or lies between two consecutive ones): at least `l + 1` values are `≤` it and at least `n - r` values are `≥` it. -/
theorem percentile_value_between (xs : List α) (p : α) (hne : xs ≠ []) (h0 : 0 ≤ p) (h100 : p ≤ 100)
    (hs : xs.Pairwise (· ≤ ·)) :
    ∃ (l r : ℕ) (hl : l < xs.length) (hr : r < xs.length) (v : α),
      ⌊p * ((xs.length - 1 : ℕ) : α) / 100⌋ = (l : ℤ) ∧ ⌈p * ((xs.length - 1 : ℕ) : α) / 100⌉ = (r : ℤ) ∧
      percentileSorted xs p = some v ∧ xs[l] ≤ v ∧ v ≤ xs[r] ∧
      (∀ j (hj : j < xs.length), j ≤ l → xs[j] ≤ v) ∧ (∀ j (hj : j < xs.length), r ≤ j → v ≤ xs[j]) := by
  have hn : 0 < xs.length := List.length_pos_of_ne_nil hne
  obtain ⟨l, r, hfl, hcl, hl, hr, hlr, hrl⟩ := position_indices xs.length p hn h0 h100
  have hmono : ∀ (i j : ℕ) (hi : i < xs.length) (hj : j < xs.length), i ≤ j → xs[i] ≤ xs[j] := by
    intro i j hi hj hij
    rcases Nat.eq_or_lt_of_le hij with rfl | hlt
    · exact le_refl _
    · exact List.pairwise_iff_getElem.mp hs i j hi hj hlt
  have hlrv : xs[l] ≤ xs[r] := hmono l r hl hr hlr
  refine ⟨l, r, hl, hr, _, hfl, hcl, percentileSorted_eq xs p hne h0 h100 l r hfl hcl hl hr, ?_, ?_, ?_, ?_⟩
  · split
    · exact le_refl _
    · rw [le_div_iff₀ (by norm_num : (0 : α) < 2)]; linarith
  · split
    · rename_i h; subst h; exact le_refl _
    · rw [div_le_iff₀ (by norm_num : (0 : α) < 2)]; linarith
  · intro j hj hjl
    have := hmono j l hj hl hjl
    split
    · exact this
    · rw [le_div_iff₀ (by norm_num : (0 : α) < 2)]; linarith
  · intro j hj hrj
    have := hmono r j hr hj hrj
    split
    · rename_i h; subst h; exact this
    · rw [div_le_iff₀ (by norm_num : (0 : α) < 2)]; linarith

/-- the error branches: an empty range and a percentage outside `[0, 100]` (the `assert` of stats.h:18) give no value -/
theorem percentileSorted_rejects (xs : List α) (p : α) :
    percentileSorted ([] : List α) p = none ∧ ((p < 0 ∨ 100 < p) → percentileSorted xs p = none) := by
  refine ⟨by simp [percentileSorted], ?_⟩
  intro h
  unfold percentileSorted
  have : ¬ (0 ≤ p ∧ p ≤ 100) := by
    rintro ⟨h0, h100⟩
    rcases h with h | h
    · exact absurd h0 (not_le.mpr h)
    · exact absurd h100 (not_le.mpr h)
  by_cases he : xs.isEmpty = true
  · rw [if_pos he]
  · rw [if_neg he, if_pos this]

/-- `List.mergeSort` (the sort the driver runs) satisfies the contract of `std::sort` -/
theorem mergeSort_sortSpec : SortSpec (msort : List α → List α) :=
  fun xs => ⟨msort_perm xs, msort_sorted xs⟩

/-- the contract determines the result: any two sorts agree on every input -/
theorem sortSpec_unique {s₁ s₂ : List α → List α} (h₁ : SortSpec s₁) (h₂ : SortSpec s₂) (xs : List α) :
    s₁ xs = s₂ xs :=
  sorted_perm_unique ((h₁ xs).1.trans (h₂ xs).1.symm) (h₁ xs).2 (h₂ xs).2

/-- **percentile_unsorted_eq_sorted.** Whatever sorted permutation `std::nth_element`/`std::sort` produce, the
    percentile of an unsorted list is `percentile_sorted` of its (unique) sorted rearrangement. -/
theorem percentile_unsorted_eq_sorted (sort : List α → List α) (hs : SortSpec sort) (xs : List α) (p : α) :
    percentile sort xs p = percentileSorted (msort xs) p := by
  unfold percentile
  rw [sortSpec_unique hs mergeSort_sortSpec xs]

/-- on an already sorted list the two variants coincide -/
theorem percentile_of_sorted (sort : List α → List α) (hs : SortSpec sort) (xs : List α)
    (hx : xs.Pairwise (· ≤ ·)) (p : α) : percentile sort xs p = percentileSorted xs p := by
  unfold percentile
  rw [sortSpec_sorted_id hs xs hx]

/-- **median_eq_percentile_50** -/
theorem median_eq_percentile_50 (sort : List α → List α) (xs : List α) :
    median sort xs = percentile sort xs 50 ∧ medianSorted xs = percentileSorted xs 50 := ⟨rfl, rfl⟩

/-- the textbook median: the middle element of an odd-length list, the mean of the two middle elements otherwise -/
theorem median_spec (xs : List α) (k : ℕ) :
    (xs.length = 2 * k + 1 → ∃ h : k < xs.length, medianSorted xs = some xs[k]) ∧
    (xs.length = 2 * k + 2 →
      ∃ (h₁ : k < xs.length) (h₂ : k + 1 < xs.length), medianSorted xs = some ((xs[k] + xs[k + 1]) / 2)) := by
  have h50 : (0 : α) ≤ 50 := by norm_num
  have h50' : (50 : α) ≤ 100 := by norm_num
  constructor
  · intro hlen
    have hne : xs ≠ [] := by intro h; simp [h] at hlen
    have hk : k < xs.length := by omega
    have hpos : position xs.length (50 : α) = (k : α) := by
      rw [position_eq, hlen]
      have : ((2 * k + 1 - 1 : ℕ) : α) = 2 * (k : α) := by
        rw [Nat.add_sub_cancel]; push_cast; ring
      rw [this]; ring
    have hfl : ⌊position xs.length (50 : α)⌋ = (k : ℤ) := by rw [hpos]; exact Int.floor_natCast k
    have hcl : ⌈position xs.length (50 : α)⌉ = (k : ℤ) := by rw [hpos]; exact Int.ceil_natCast k
    refine ⟨hk, ?_⟩
    have := percentileSorted_eq xs 50 hne h50 h50' k k hfl hcl hk hk
    simpa [medianSorted] using this
  · intro hlen
    have hne : xs ≠ [] := by intro h; simp [h] at hlen
    have hk : k < xs.length := by omega
    have hk1 : k + 1 < xs.length := by omega
    have hpos : position xs.length (50 : α) = (k : α) + 1 / 2 := by
      rw [position_eq, hlen]
      have : ((2 * k + 2 - 1 : ℕ) : α) = 2 * (k : α) + 1 := by
        have : 2 * k + 2 - 1 = 2 * k + 1 := by omega
        rw [this]; push_cast; ring
      rw [this]; ring
    have hfl : ⌊position xs.length (50 : α)⌋ = (k : ℤ) := by
      rw [hpos, Int.floor_eq_iff]
      constructor
      · push_cast; linarith [show (0 : α) < 1 / 2 by norm_num]
      · push_cast; linarith [show (1 / 2 : α) < 1 by norm_num]
    have hcl : ⌈position xs.length (50 : α)⌉ = ((k + 1 : ℕ) : ℤ) := by
      rw [hpos, Int.ceil_eq_iff]
      constructor
      · push_cast; linarith [show (0 : α) < 1 / 2 by norm_num]
      · push_cast; linarith [show (1 / 2 : α) < 1 by norm_num]
    refine ⟨hk, hk1, ?_⟩
    have := percentileSorted_eq xs 50 hne h50 h50' k (k + 1) hfl hcl hk hk1
    simpa [medianSorted] using this

/-! ### histogram -/

/-- **bins_concat.** The ranges produced by the `upper_bound` loop, concatenated, are the (sorted) values: the bins
    partition the values — nothing is lost, nothing is counted twice. No assumption on the inputs. -/
theorem bins_concat (ts vs : List α) : (bins ts vs).flatten = vs := bins_concat' ts vs

/-- `k` thresholds give `k + 1` bins -/
theorem bins_length (ts vs : List α) : (bins ts vs).length = ts.length + 1 := bins_length' ts vs

/-- the counts add up to the number of values -/
theorem bins_counts_sum (ts vs : List α) : ((bins ts vs).map List.length).sum = vs.length := by
  rw [← List.length_flatten, bins_concat]

/-- For sorted thresholds (duplicates allowed) and sorted values, bin `i` is exactly the sub-list of the values with
    `ts[i-1] ≤ v < ts[i]` (sentinels `∓∞`; multiplicities included). -/
theorem bin_eq_filter (ts vs : List α) (hts : ts.Pairwise (· ≤ ·)) (hvs : vs.Pairwise (· ≤ ·))
    (i : ℕ) (hi : i ≤ ts.length) : (bins ts vs)[i]? = some (vs.filter (inBin ts i)) :=
  bin_eq_filter' ts vs hts hvs i hi

/-- **bin_membership.** `v` is in bin `i` iff it is one of the values and `ts[i-1] ≤ v < ts[i]` (sentinels `∓∞`). -/
theorem bin_membership (ts vs : List α) (hts : ts.Pairwise (· ≤ ·)) (hvs : vs.Pairwise (· ≤ ·))
    (i : ℕ) (hi : i ≤ ts.length) :
    ∃ b, (bins ts vs)[i]? = some b ∧
      ∀ v, v ∈ b ↔ v ∈ vs ∧ (∀ t, 0 < i → ts[i - 1]? = some t → t ≤ v) ∧ (∀ t, ts[i]? = some t → v < t) := by
  refine ⟨_, bin_eq_filter ts vs hts hvs i hi, ?_⟩
  intro v
  rw [List.mem_filter, inBin_iff]

/-- **bin_stats_spec.** Count, mean and median stored for bin `i` are the number, the arithmetic mean and the median
    (`percentile_sorted(·, 50)`, see `median_spec`) of the values the counting rule assigns to the bin; an empty bin
    carries the NaN marker (`none`) for mean and median. -/
theorem bin_stats_spec (ts vs : List α) (hts : ts.Pairwise (· ≤ ·)) (hvs : vs.Pairwise (· ≤ ·))
    (i : ℕ) (hi : i ≤ ts.length) :
    ∃ st, ((bins ts vs).map binStat)[i]? = some st ∧
      st.count = (vs.filter (inBin ts i)).length ∧
      (vs.filter (inBin ts i) = [] → st.mean = none ∧ st.median = none) ∧
      (vs.filter (inBin ts i) ≠ [] →
        st.mean = some ((vs.filter (inBin ts i)).sum / ((vs.filter (inBin ts i)).length : α)) ∧
        st.median = medianSorted (vs.filter (inBin ts i)) ∧ ∃ m, st.median = some m) := by
  refine ⟨binStat (vs.filter (inBin ts i)), ?_, ?_, ?_, ?_⟩
  · rw [List.getElem?_map, bin_eq_filter ts vs hts hvs i hi]; rfl
  · unfold binStat
    split
    · rename_i h; simp [List.isEmpty_iff.mp h]
    · rfl
  · intro h
    simp [binStat, h]
  · intro h
    have he : (vs.filter (inBin ts i)).isEmpty = false := by
      cases hb : vs.filter (inBin ts i) with
      | nil => exact absurd hb h
      | cons _ _ => rfl
    have hm : (binStat (vs.filter (inBin ts i))).median = medianSorted (vs.filter (inBin ts i)) := by
      simp [binStat, he]
    refine ⟨by simp [binStat, he, mean_eq], hm, ?_⟩
    rw [hm]
    obtain ⟨l, r, hl, hr, -, -, -, -, -, -, hv⟩ :=
      percentile_spec (vs.filter (inBin ts i)) 50 h (by norm_num) (by norm_num)
    exact ⟨_, hv⟩

/-- **binOf_spec.** For **every** query `v` (integral or not), `bin(v)` is a valid bin index and it is a bin the
    counting rule assigns to `v`: `ts[bin-1] ≤ v < ts[bin]` (sentinels `∓∞`); for sorted thresholds (which the
    constructor establishes) it is the only one (`binOf_unique`). -/
theorem binOf_spec (ts : List α) (v : α) :
    binOf ts v ≤ ts.length ∧ inBin ts (binOf ts v) v = true ∧
      (∀ t, 0 < binOf ts v → ts[binOf ts v - 1]? = some t → t ≤ v) ∧ (∀ t, ts[binOf ts v]? = some t → v < t) := by
  have hrule : (∀ t, 0 < binOf ts v → ts[binOf ts v - 1]? = some t → t ≤ v) ∧
      (∀ t, ts[binOf ts v]? = some t → v < t) := by
    rw [binOf_eq_upperBound]
    exact ⟨fun t hpos ht => upperBound_before ts v _ (by omega) t ht, fun t ht => upperBound_at ts v t ht⟩
  refine ⟨by rw [binOf_eq_upperBound]; exact upperBound_le ts v, (inBin_iff ts _ v).mpr hrule, hrule⟩

/-- … and it is the only such bin: the counting rule assigns exactly one bin to every `v`. -/
theorem binOf_unique (ts : List α) (hts : ts.Pairwise (· ≤ ·)) (v : α) (i : ℕ) (hi : i ≤ ts.length)
    (h : inBin ts i v = true) : i = binOf ts v := by
  obtain ⟨hb, -, hlo, hhi⟩ := binOf_spec ts v
  obtain ⟨ilo, ihi⟩ := (inBin_iff ts i v).mp h
  rcases Nat.lt_trichotomy i (binOf ts v) with hlt | heq | hgt
  · -- ts[i] exists, v < ts[i] ≤ ts[bin - 1] ≤ v
    have hil : i < ts.length := by omega
    have h1 := ihi ts[i] (List.getElem?_eq_getElem hil)
    have hbl : binOf ts v - 1 < ts.length := by omega
    have h2 := hlo ts[binOf ts v - 1] (by omega) (List.getElem?_eq_getElem hbl)
    have h3 := sorted_getElem?_le hts (show i ≤ binOf ts v - 1 by omega)
      (List.getElem?_eq_getElem hil) (List.getElem?_eq_getElem hbl)
    exact absurd (lt_of_lt_of_le h1 (le_trans h3 h2)) (lt_irrefl _)
  · exact heq
  · have hbl : binOf ts v < ts.length := by omega
    have h1 := hhi ts[binOf ts v] (List.getElem?_eq_getElem hbl)
    have hil : i - 1 < ts.length := by omega
    have h2 := ilo ts[i - 1] (by omega) (List.getElem?_eq_getElem hil)
    have h3 := sorted_getElem?_le hts (show binOf ts v ≤ i - 1 by omega)
      (List.getElem?_eq_getElem hbl) (List.getElem?_eq_getElem hil)
    exact absurd (lt_of_lt_of_le h1 (le_trans h3 h2)) (lt_irrefl _)

/-- a value of the data set is found in the bin that `bin(v)` names -/
theorem binOf_mem (ts vs : List α) (hts : ts.Pairwise (· ≤ ·)) (hvs : vs.Pairwise (· ≤ ·)) (v : α) (hv : v ∈ vs) :
    ∃ b, (bins ts vs)[binOf ts v]? = some b ∧ v ∈ b := by
  obtain ⟨hb, hin, -, -⟩ := binOf_spec ts v
  exact ⟨_, bin_eq_filter ts vs hts hvs _ hb, List.mem_filter.mpr ⟨hv, hin⟩⟩

/-! ### the `histogram_t` object (constructor sorts both inputs) -/

/-- **hist_spec.** Whatever sorted permutations `std::sort` returns: the stored thresholds are the sorted thresholds,
    there are `k + 1` bins, the bins concatenate to the sorted values (a permutation of the input), and bin `i` holds
    exactly the values with `thresholds[i-1] ≤ v < thresholds[i]`. `none` only for an empty threshold list (the assert). -/
theorem hist_spec (sort : List α → List α) (hs : SortSpec sort) (vs ts : List α) :
    (ts = [] → mkHist sort vs ts = none) ∧
    (ts ≠ [] → ∃ h, mkHist sort vs ts = some h ∧
      h.thresholds = msort ts ∧ h.cells.length = ts.length + 1 ∧ h.cells.flatten = msort vs ∧
      h.cells.flatten.Perm vs ∧
      ∀ i, i ≤ ts.length → h.cells[i]? = some ((msort vs).filter (inBin (msort ts) i))) := by
  constructor
  · intro h; simp [mkHist, h]
  · intro hne
    have he : ts.isEmpty = false := by cases ts <;> simp_all
    have e1 : sort ts = msort ts := sortSpec_unique hs mergeSort_sortSpec ts
    have e2 : sort vs = msort vs := sortSpec_unique hs mergeSort_sortSpec vs
    refine ⟨⟨msort ts, bins (msort ts) (msort vs)⟩, by simp [mkHist, he, e1, e2], rfl, ?_, ?_, ?_, ?_⟩
    · rw [bins_length, (msort_perm ts).length_eq]
    · exact bins_concat _ _
    · show (bins (msort ts) (msort vs)).flatten.Perm vs
      rw [bins_concat]; exact msort_perm vs
    · intro i hi
      exact bin_eq_filter _ _ (msort_sorted ts) (msort_sorted vs) i (by rw [(msort_perm ts).length_eq]; exact hi)

/-- the count of bin `i` is the number of input values (in their original order, unsorted) that the counting rule
    assigns to it -/
theorem hist_count_spec (sort : List α → List α) (hs : SortSpec sort) (vs ts : List α) (h : Hist α)
    (hh : mkHist sort vs ts = some h) (i : ℕ) (hi : i ≤ ts.length) :
    ∃ st, h.stats[i]? = some st ∧ st.count = vs.countP (inBin h.thresholds i) := by
  have hne : ts ≠ [] := by intro e; simp [mkHist, e] at hh
  obtain ⟨h', hh', hthr, -, -, -, hcells⟩ := (hist_spec sort hs vs ts).2 hne
  rw [hh] at hh'
  cases hh'
  refine ⟨binStat ((msort vs).filter (inBin (msort ts) i)), ?_, ?_⟩
  · unfold Hist.stats
    rw [List.getElem?_map, hcells i hi]; rfl
  · rw [hthr, ← (msort_perm vs).countP_eq, List.countP_eq_length_filter]
    unfold binStat
    split
    · rename_i he; simp [List.isEmpty_iff.mp he]
    · rfl

/-- `histogram_t::bin(v)` names, for every real `v`, the one bin whose interval contains `v` — the same rule by which
    the values were counted -/
theorem hist_bin_spec (sort : List α → List α) (hs : SortSpec sort) (vs ts : List α) (h : Hist α)
    (hh : mkHist sort vs ts = some h) (v : α) :
    h.bin v ≤ ts.length ∧ inBin h.thresholds (h.bin v) v = true ∧
      (∀ i, i ≤ ts.length → inBin h.thresholds i v = true → i = h.bin v) ∧
      (v ∈ vs → ∃ b, h.cells[h.bin v]? = some b ∧ v ∈ b) := by
  have hne : ts ≠ [] := by intro e; simp [mkHist, e] at hh
  obtain ⟨h', hh', hthr, -, -, -, hcells⟩ := (hist_spec sort hs vs ts).2 hne
  rw [hh] at hh'
  cases hh'
  have hlen : (msort ts).length = ts.length := (msort_perm ts).length_eq
  obtain ⟨hb, hin, -, -⟩ := binOf_spec (msort ts) v
  unfold Hist.bin
  rw [hthr]
  refine ⟨by omega, hin, ?_, ?_⟩
  · intro i hi hi'
    exact binOf_unique (msort ts) (msort_sorted ts) v i (by omega) hi'
  · intro hv
    refine ⟨_, hcells _ (by omega), List.mem_filter.mpr ⟨(msort_perm vs).mem_iff.mpr hv, hin⟩⟩

/-! ### thresholds derived from ratios and from percentiles; `store_stats` -/

/-- `make_from_ratios`: the thresholds are `min + r (max - min)` for the sorted ratios, with `min`/`max` the least and
    greatest value; every threshold lies in `[min, max]` and they come out ascending. -/
theorem ratio_thresholds_spec (sort : List α → List α) (hs : SortSpec sort) (vs rs T : List α)
    (h : thresholdsFromRatios sort vs rs = some T) :
    ∃ mn mx, mn ∈ vs ∧ mx ∈ vs ∧ (∀ v ∈ vs, mn ≤ v ∧ v ≤ mx) ∧
      T = (msort rs).map (fun r => mn + r * (mx - mn)) ∧ (∀ r ∈ rs, 0 < r ∧ r < 1) ∧
      (∀ t ∈ T, mn ≤ t ∧ t ≤ mx) ∧ T.Pairwise (· ≤ ·) := by
  unfold thresholdsFromRatios at h
  rw [sortSpec_unique hs mergeSort_sortSpec vs, sortSpec_unique hs mergeSort_sortSpec rs] at h
  simp only at h
  split at h
  · rename_i mn mx r0 r1 hmn hmx hr0 hr1
    split at h
    · rename_i hr
      cases h
      have hsv := msort_sorted vs
      have hsr := msort_sorted rs
      have hmn_mem : mn ∈ msort vs := List.mem_of_mem_head? hmn
      have hmx_mem : mx ∈ msort vs := List.mem_of_getLast? hmx
      have hmn_le : ∀ v ∈ msort vs, mn ≤ v := by
        intro v hv
        cases hl : msort vs with
        | nil => rw [hl] at hv; cases hv
        | cons a l =>
          rw [hl] at hmn hv hsv
          simp only [List.head?_cons, Option.some.injEq] at hmn
          subst hmn
          rcases List.mem_cons.mp hv with rfl | hv'
          · exact le_refl _
          · exact (List.pairwise_cons.mp hsv).1 v hv'
      have hmx_ge : ∀ v ∈ msort vs, v ≤ mx := by
        intro v hv
        obtain ⟨k, hk, rfl⟩ := List.getElem_of_mem hv
        have hne : msort vs ≠ [] := List.ne_nil_of_length_pos (by omega)
        rw [List.getLast?_eq_some_getLast hne, Option.some.injEq] at hmx
        rw [← hmx, List.getLast_eq_getElem]
        rcases Nat.eq_or_lt_of_le (show k ≤ (msort vs).length - 1 by omega) with heq | hlt
        · simp [heq]
        · exact List.pairwise_iff_getElem.mp hsv k _ hk (by omega) hlt
      have hr0_le : ∀ r ∈ msort rs, r0 ≤ r := by
        intro r hr'
        cases hl : msort rs with
        | nil => rw [hl] at hr'; cases hr'
        | cons a l =>
          rw [hl] at hr0 hr' hsr
          simp only [List.head?_cons, Option.some.injEq] at hr0
          subst hr0
          rcases List.mem_cons.mp hr' with rfl | hv'
          · exact le_refl _
          · exact (List.pairwise_cons.mp hsr).1 r hv'
      have hr1_ge : ∀ r ∈ msort rs, r ≤ r1 := by
        intro r hr'
        obtain ⟨k, hk, rfl⟩ := List.getElem_of_mem hr'
        have hne : msort rs ≠ [] := List.ne_nil_of_length_pos (by omega)
        rw [List.getLast?_eq_some_getLast hne, Option.some.injEq] at hr1
        rw [← hr1, List.getLast_eq_getElem]
        rcases Nat.eq_or_lt_of_le (show k ≤ (msort rs).length - 1 by omega) with heq | hlt
        · simp [heq]
        · exact List.pairwise_iff_getElem.mp hsr k _ hk (by omega) hlt
      have hd : 0 ≤ mx - mn := sub_nonneg.mpr (hmn_le mx hmx_mem)
      have hrange : ∀ r ∈ msort rs, 0 < r ∧ r < 1 := fun r hr' =>
        ⟨lt_of_lt_of_le hr.1 (hr0_le r hr'), lt_of_le_of_lt (hr1_ge r hr') hr.2⟩
      refine ⟨mn, mx, (msort_perm vs).mem_iff.mp hmn_mem, (msort_perm vs).mem_iff.mp hmx_mem,
        fun v hv => ⟨hmn_le v ((msort_perm vs).mem_iff.mpr hv), hmx_ge v ((msort_perm vs).mem_iff.mpr hv)⟩,
        rfl, fun r hr' => hrange r ((msort_perm rs).mem_iff.mpr hr'), ?_, ?_⟩
      · intro t ht
        obtain ⟨r, hr', rfl⟩ := List.mem_map.mp ht
        obtain ⟨h0, h1⟩ := hrange r hr'
        constructor <;> nlinarith
      · rw [List.pairwise_map]
        exact hsr.imp (fun {a b} hab => by nlinarith)
    · cases h
  · cases h

/-- `make_from_percentiles`: threshold `i` is `percentile_sorted` of the sorted values at the `i`-th sorted percentage
    (each described by `percentile_spec`); it exists whenever the asserted domain holds. -/
theorem percentile_thresholds_spec (sort : List α → List α) (hs : SortSpec sort) (vs ps : List α) :
    (∀ T, thresholdsFromPercentiles sort vs ps = some T →
      List.Forall₂ (fun p t => percentileSorted (msort vs) p = some t) (msort ps) T) ∧
    (vs ≠ [] → ps ≠ [] → (∀ p ∈ ps, 0 < p ∧ p < 100) → ∃ T, thresholdsFromPercentiles sort vs ps = some T) := by
  constructor
  · intro T h
    unfold thresholdsFromPercentiles at h
    rw [sortSpec_unique hs mergeSort_sortSpec vs, sortSpec_unique hs mergeSort_sortSpec ps] at h
    simp only at h
    split at h
    · split at h
      · exact mapOpt_forall₂ _ _ _ h
      · cases h
    · cases h
  · intro hvs hps hrange
    unfold thresholdsFromPercentiles
    rw [sortSpec_unique hs mergeSort_sortSpec vs, sortSpec_unique hs mergeSort_sortSpec ps]
    have hvs' : msort vs ≠ [] := by
      intro e; have := (msort_perm vs).length_eq; rw [e] at this; exact hvs (List.length_eq_zero_iff.mp this.symm)
    have hps' : msort ps ≠ [] := by
      intro e; have := (msort_perm ps).length_eq; rw [e] at this; exact hps (List.length_eq_zero_iff.mp this.symm)
    have hr' : ∀ p ∈ msort ps, 0 < p ∧ p < 100 := fun p hp => hrange p ((msort_perm ps).mem_iff.mp hp)
    obtain ⟨a, la, hva⟩ := List.exists_cons_of_ne_nil hvs'
    obtain ⟨p0, lp, hpa⟩ := List.exists_cons_of_ne_nil hps'
    have ha : (msort vs).head? = some a := by rw [hva]; rfl
    have hp0 : (msort ps).head? = some p0 := by rw [hpa]; rfl
    have hp1 : (msort ps).getLast? = some ((msort ps).getLast hps') := List.getLast?_eq_some_getLast hps'
    simp only [ha, hp0, hp1]
    have c0 : 0 < p0 := (hr' p0 (List.mem_of_mem_head? hp0)).1
    have c1 : (msort ps).getLast hps' < 100 := (hr' _ (List.getLast_mem hps')).2
    simp only [c0, c1, and_self, if_true]
    apply mapOpt_isSome
    intro p hp
    obtain ⟨l, r, hl, hr, -, -, -, -, -, -, hv⟩ :=
      percentile_spec (msort vs) p hvs' (le_of_lt (hr' p hp).1) (le_of_lt (hr' p hp).2)
    exact ⟨_, hv⟩

/-- `ml::store_stats`: slot 0 is the arithmetic mean, slot 2 the number of values, and the remaining slots are the
    percentiles of the values at the percentages listed in the source (regenerated list `Gen.Stats.storeStatsPercentiles`),
    each the `percentile_sorted` of the sorted values (so `percentile_spec` applies) -/
theorem storeStats_spec [HasSqrt α] (sort : List α → List α) (hs : SortSpec sort) (vs st : List α)
    (h : storeStats sort vs = some st) :
    ∃ ps, st = [vs.sum / (vs.length : α), tstdev vs, (vs.length : α)] ++ ps ∧
      List.Forall₂ (fun (k : ℕ) t => percentileSorted (msort vs) (k : α) = some t) Gen.Stats.storeStatsPercentiles ps := by
  unfold storeStats at h
  split at h
  · rename_i ps hps
    cases h
    refine ⟨ps, ?_, ?_⟩
    · have : tmean vs = vs.sum / (vs.length : α) := by
        unfold tmean; rw [foldl_add_eq_sum]; rfl
      rw [this]; rfl
    · have := mapOpt_forall₂ _ _ _ hps
      refine this.imp ?_
      intro k t hk
      rw [← percentile_unsorted_eq_sorted sort hs vs]
      exact hk
  · cases h

/-! ### gap-closing round: nth_element contract, typed containers, constructor, exponents, equidistant lists, store/load -/

/-- **percentile_nth_spec.** `nano::percentile` AS CODED — `std::nth_element` called once (integral position) or twice
    (the second time on the range as the first call left it), each value converted to the scalar type at the read —
    returns, for EVERY `nth_element` that meets the partial-order contract `NthSpec` and every container value type:
    the order statistic at position `p (n-1) / 100` of the sorted data when that is integral, the midpoint (computed in
    the scalar type, not in the container's) of the two neighbouring order statistics otherwise. -/
theorem percentile_nth_spec {β : Type} [LinearOrder β] (cast : β → α) (nth : List β → ℕ → List β) (hn : NthSpec nth)
    (xs : List β) (p : α) (hne : xs ≠ []) (h0 : 0 ≤ p) (h100 : p ≤ 100) :
    ∃ (l r : ℕ) (hl : l < (msort xs).length) (hr : r < (msort xs).length),
      ⌊p * ((xs.length - 1 : ℕ) : α) / 100⌋ = (l : ℤ) ∧ ⌈p * ((xs.length - 1 : ℕ) : α) / 100⌉ = (r : ℤ) ∧
      (percentileNthC cast nth xs p).map Prod.fst =
        some (if l = r then cast (msort xs)[l] else (cast (msort xs)[l] + cast (msort xs)[r]) / 2) ∧
      ∀ v zs, percentileNthC cast nth xs p = some (v, zs) → zs.Perm xs := by
  obtain ⟨hval, hperm⟩ := percentileNthC_spec cast nth hn xs p
  have hlen : (msort xs).length = xs.length := (msortB_perm xs).length_eq
  have hn' : 0 < xs.length := List.length_pos_of_ne_nil hne
  obtain ⟨l, r, hfl, hcl, hl, hr, -, -⟩ := position_indices xs.length p hn' h0 h100
  have hne' : (msort xs).map cast ≠ [] := by
    intro e
    have := congrArg List.length e
    simp only [List.length_map, List.length_nil] at this
    omega
  have hl' : l < ((msort xs).map cast).length := by rw [List.length_map]; omega
  have hr' : r < ((msort xs).map cast).length := by rw [List.length_map]; omega
  have hfl' : ⌊position ((msort xs).map cast).length p⌋ = (l : ℤ) := by rw [List.length_map, hlen]; exact hfl
  have hcl' : ⌈position ((msort xs).map cast).length p⌉ = (r : ℤ) := by rw [List.length_map, hlen]; exact hcl
  refine ⟨l, r, by omega, by omega, ?_, ?_, ?_, hperm⟩
  · rw [← position_eq]; exact hfl
  · rw [← position_eq]; exact hcl
  · rw [hval, percentileSortedC_eq_map, percentileSorted_eq _ p hne' h0 h100 l r hfl' hcl' hl' hr']
    simp only [List.getElem_map]

/-- the unsorted variant on a double container and the specification-level `percentile` of `Model/Stats.lean` agree -/
theorem percentile_nth_eq_percentile (nth : List α → ℕ → List α) (hn : NthSpec nth) (sort : List α → List α)
    (hs : SortSpec sort) (xs : List α) (p : α) :
    (percentileNthC id nth xs p).map Prod.fst = percentile sort xs p := by
  rw [(percentileNthC_spec id nth hn xs p).1, percentileSortedC_eq_map, List.map_id,
    percentile_unsorted_eq_sorted sort hs]

/-- **integer containers**: `percentile_sorted` of `std::vector<int>` is computed in double — the midpoint of two
    integers is their rational midpoint (witness: 1, 2 ↦ 3/2, which no integer equals) -/
theorem percentile_int_container (xs : List ℤ) (p : α) :
    percentileSortedC (Int.cast : ℤ → α) xs p = percentileSorted (xs.map (Int.cast : ℤ → α)) p ∧
    (xs.Pairwise (· ≤ ·) → (xs.map (Int.cast : ℤ → α)).Pairwise (· ≤ ·)) :=
  ⟨percentileSortedC_eq_map _ xs p, map_cast_sorted _ (fun _ _ h => Int.cast_le.mpr h) xs⟩

/-- **the precondition of `percentile_sorted` is necessary**: on the unsorted range 3, 1, 2 the sorted variant answers
    1 (the value at position 1 as given), the unsorted variant — and the statement — say 2. Replayed on the code by the
    corpus op `pct positional`. -/
theorem sorted_precondition_necessary :
    percentileSorted ([3, 1, 2] : List ℚ) 50 = some 1 ∧ percentile msort ([3, 1, 2] : List ℚ) 50 = some 2 := by
  constructor
  · decide +kernel
  · have h : msort ([3, 1, 2] : List ℚ) = [1, 2, 3] :=
      sorted_perm_unique ((msort_perm _).trans (by decide +kernel)) (msort_sorted _) (by decide +kernel)
    unfold percentile
    rw [h]
    decide +kernel

/-- **ctor_sorts_thresholds.** The public constructor stores a SORTED permutation of the thresholds it is given
    (any order, duplicates allowed). -/
theorem ctor_sorts_thresholds (sort : List α → List α) (hs : SortSpec sort) (vs ts : List α) (h : Hist α)
    (hh : mkHist sort vs ts = some h) :
    h.thresholds.Pairwise (· ≤ ·) ∧ h.thresholds.Perm ts ∧ h.cells = bins h.thresholds (sort vs) := by
  unfold mkHist at hh
  split at hh
  · cases hh
  · cases hh
    exact ⟨(hs ts).2, (hs ts).1, rfl⟩

/-- … and that sort is necessary: with the thresholds 2, 1 left as given, the `upper_bound` loop puts 3/2 into bin 0
    although the counting rule `ts[i-1] ≤ v < ts[i]` also claims it for bin 2 — the bins would no longer be the rule's -/
theorem unsorted_thresholds_break_the_rule :
    bins ([2, 1] : List ℚ) [0, 3 / 2, 3] = [[0, 3 / 2], [], [3]] ∧
    inBin ([2, 1] : List ℚ) 2 (3 / 2) = true ∧ inBin ([2, 1] : List ℚ) 0 (3 / 2) = true ∧
    bins ([1, 2] : List ℚ) [0, 3 / 2, 3] = [[0], [3 / 2], [3]] := by decide +kernel

/-- the constructor's sort of the VALUES is necessary as well: `update` on the unsorted range 2, 0 with the threshold 1
    counts 0 / 2 where the rule says 1 / 1 -/
theorem unsorted_values_break_the_rule :
    bins ([1] : List ℚ) [2, 0] = [[], [2, 0]] ∧ bins ([1] : List ℚ) [0, 2] = [[0], [2]] := by decide +kernel

/-- **load_store_roundtrip.** `load_stats(store_stats(values))`: the 12 slots fill the 12 fields of `stats_t` in
    declaration order; `m_mean` is the arithmetic mean, `m_count` the number of values, `m_stdev` the quantity of
    `tstdev_is_standard_error`, and every field `m_perNN` holds the percentile its NAME announces. -/
theorem load_store_roundtrip [HasSqrt α] (sort : List α → List α) (hs : SortSpec sort) (vs st : List α)
    (h : storeStats sort vs = some st) :
    ∃ s : StatsT α, loadStats st = some s ∧ s.toList = st ∧
      s.mean = vs.sum / (vs.length : α) ∧ s.stdev = tstdev vs ∧ s.count = (vs.length : α) ∧
      ∀ kp ∈ s.named, percentileSorted (msort vs) ((kp.1 : ℕ) : α) = some kp.2 := by
  obtain ⟨ps, rfl, hps⟩ := storeStats_spec sort hs vs st h
  have hl : Gen.Stats.storeStatsPercentiles = [1, 5, 10, 20, 50, 80, 90, 95, 99] := rfl
  rw [hl] at hps
  obtain ⟨b1, t1, h1, hq1, rfl⟩ := List.forall₂_cons_left_iff.mp hps
  obtain ⟨b2, t2, h2, hq2, rfl⟩ := List.forall₂_cons_left_iff.mp hq1
  obtain ⟨b3, t3, h3, hq3, rfl⟩ := List.forall₂_cons_left_iff.mp hq2
  obtain ⟨b4, t4, h4, hq4, rfl⟩ := List.forall₂_cons_left_iff.mp hq3
  obtain ⟨b5, t5, h5, hq5, rfl⟩ := List.forall₂_cons_left_iff.mp hq4
  obtain ⟨b6, t6, h6, hq6, rfl⟩ := List.forall₂_cons_left_iff.mp hq5
  obtain ⟨b7, t7, h7, hq7, rfl⟩ := List.forall₂_cons_left_iff.mp hq6
  obtain ⟨b8, t8, h8, hq8, rfl⟩ := List.forall₂_cons_left_iff.mp hq7
  obtain ⟨b9, t9, h9, hq9, rfl⟩ := List.forall₂_cons_left_iff.mp hq8
  have : t9 = [] := List.forall₂_nil_left_iff.mp hq9
  subst this
  refine ⟨⟨_, _, _, b1, b2, b3, b4, b5, b6, b7, b8, b9⟩, rfl, rfl, rfl, rfl, rfl, ?_⟩
  intro kp hkp
  simp only [StatsT.named, List.mem_cons, List.not_mem_nil, or_false] at hkp
  rcases hkp with rfl | rfl | rfl | rfl | rfl | rfl | rfl | rfl | rfl <;> assumption

/-- `store_stats` on ONE value `x`: mean `x`, stdev 0 (the `size() > 1` guard), count 1, every percentile `x`;
    on an empty range the model has no value (the code reads `*(begin - 1)`: undefined, never generated) -/
theorem storeStats_one_and_none [HasSqrt α] (sort : List α → List α) (hs : SortSpec sort) (x : α) :
    storeStats sort [x] = some [x, 0, 1, x, x, x, x, x, x, x, x, x] ∧ storeStats sort ([] : List α) = none := by
  have hsort : sort [x] = [x] := sortSpec_sorted_id hs [x] (List.pairwise_singleton _ _)
  have hnil : sort ([] : List α) = [] := by
    have := (hs []).1.length_eq
    exact List.length_eq_zero_iff.mp this
  have hp : ∀ k : ℕ, k ≤ 100 → percentile sort [x] ((k : ℕ) : α) = some x := by
    intro k hk
    unfold percentile
    rw [hsort]
    have h0 : (0 : α) ≤ (k : α) := Nat.cast_nonneg k
    have h100 : (k : α) ≤ 100 := by exact_mod_cast hk
    have hpos : position [x].length (k : α) = 0 := by simp [position_eq]
    have := percentileSorted_eq [x] (k : α) (by simp) h0 h100 0 0 (by rw [hpos]; simp) (by rw [hpos]; simp)
      (by simp) (by simp)
    simpa using this
  constructor
  · unfold storeStats
    have hl : Gen.Stats.storeStatsPercentiles = [1, 5, 10, 20, 50, 80, 90, 95, 99] := rfl
    rw [hl]
    have e : ∀ k : ℕ, (FloorI.ofNat k : α) = (k : α) := fun _ => rfl
    simp only [mapOpt, e, hp 1 (by norm_num), hp 5 (by norm_num), hp 10 (by norm_num), hp 20 (by norm_num),
      hp 50 (by norm_num), hp 80 (by norm_num), hp 90 (by norm_num), hp 95 (by norm_num), hp 99 (by norm_num)]
    have hm : tmean [x] = x := by
      unfold tmean
      simp [FloorI.ofNat]
    have hsd : tstdev [x] = 0 := (tstdev_small [x] (by simp)).2
    rw [hm, hsd]
    simp
  · unfold storeStats
    have hl : Gen.Stats.storeStatsPercentiles = [1, 5, 10, 20, 50, 80, 90, 95, 99] := rfl
    rw [hl]
    have : percentile sort ([] : List α) (FloorI.ofNat 1) = none := by
      unfold percentile
      rw [hnil]
      simp [percentileSorted]
    simp [mapOpt, this]

/-! ### non-vacuity: the hypotheses are satisfiable and the definitions compute what the unit tests expect -/

section examples
open Gen.Stats

/-- `ℚ` is an instance of the scalar the theorems quantify over; `msort` meets `SortSpec` there -/
example : SortSpec (msort : List ℚ → List ℚ) := mergeSort_sortSpec

/-- the hypotheses of `percentile_spec` are satisfiable, and the model computes the expected values -/
example : ∃ v, percentileSorted ([1, 2, 3, 4] : List ℚ) 50 = some v := by
  obtain ⟨l, r, hl, hr, -, -, -, -, -, -, h⟩ :=
    percentile_spec ([1, 2, 3, 4] : List ℚ) 50 (by simp) (by norm_num) (by norm_num)
  exact ⟨_, h⟩
example : percentileSorted ([1, 2, 3, 4] : List ℚ) 50 = some (5 / 2) := by decide +kernel
example : percentileSorted ([1, 2, 3, 4, 7] : List ℚ) (25 / 2) = some (3 / 2) := by decide +kernel
example : percentileSorted ([1, 2, 3, 4, 7] : List ℚ) 100 = some 7 := by decide +kernel
example : medianSorted ([1, 2, 7] : List ℚ) = some 2 := by decide +kernel

/-- unsorted input: the sorted permutation is forced by `SortSpec`, whichever sort is used -/
example : percentile msort ([4, 1, 3, 2, 7] : List ℚ) (25 / 2) = some (3 / 2) := by
  have h : msort ([4, 1, 3, 2, 7] : List ℚ) = [1, 2, 3, 4, 7] :=
    sorted_perm_unique ((msort_perm _).trans (by decide +kernel)) (msort_sorted _) (by decide +kernel)
  unfold percentile
  rw [h]
  decide +kernel

/-- the defect example of DESIGN.md §6: thresholds {0, 5/2}, data {-1/2, 1, 2, 27/10, 3}: counts 1 2 2, and after the
    fix `bin(27/10) = 2`, `bin(-1/2) = 0` (the truncating code answered 1 and 1) -/
example : (bins ([0, 5 / 2] : List ℚ) [-1 / 2, 1, 2, 27 / 10, 3]).map List.length = [1, 2, 2] := by decide +kernel
example : binOf ([0, 5 / 2] : List ℚ) (27 / 10) = 2 ∧ binOf ([0, 5 / 2] : List ℚ) (-1 / 2) = 0 := by decide +kernel
example : inBin ([0, 5 / 2] : List ℚ) 2 (27 / 10) = true ∧ inBin ([0, 5 / 2] : List ℚ) 1 (27 / 10) = false := by
  decide +kernel

/-- duplicated thresholds give an empty bin between them, and the error branches are reachable -/
example : (bins ([1, 1] : List ℚ) [0, 1, 2]).map List.length = [1, 0, 2] := by decide +kernel
example : ((bins ([1, 1] : List ℚ) [0, 1, 2]).map binStat).map (·.mean) = [some 0, none, some (3 / 2)] := by
  decide +kernel
example : (mkHist msort ([1, 2] : List ℚ) []).isNone = true := by simp [mkHist]
example : percentileSorted ([1, 2] : List ℚ) 101 = none :=
  (percentileSorted_rejects ([1, 2] : List ℚ) 101).2 (Or.inr (by norm_num))
example : storeStatsPercentiles.length + 3 = storeStatsSlots := by decide

/-- gap-closing round: the contracts are satisfiable and the new definitions compute what the code computes -/
example : NthSpec (nthBySort : List ℚ → ℕ → List ℚ) := nthBySort_spec
example : NthSpec (nthBySort : List ℤ → ℕ → List ℤ) := nthBySort_spec
example : percentileSortedC (Int.cast : ℤ → ℚ) [1, 2] 50 = some (3 / 2) := by decide +kernel
example : ∀ z : ℤ, (z : ℚ) ≠ 3 / 2 := by
  intro z h
  have h2 : ((2 * z : ℤ) : ℚ) = ((3 : ℤ) : ℚ) := by push_cast; linarith
  have := Int.cast_injective h2
  omega
example : (mkHist msort ([1, 2] : List ℚ) [3]).isSome = true := by simp [mkHist]
/-- `PowSpec` / `FabsSpec` hold for the real instance; over `ℝ` the preconditions of the exponent theorems are satisfiable -/
example : PowSpec (α := ℝ) := powSpec_real
example : FabsSpec (α := ℝ) := fun _ => rfl
example : (thresholdsFromExponents ([1, 2] : List ℝ) 2 1).isSome = true := by
  obtain ⟨T, hT, -⟩ := (thresholdsFromExponents_spec ([1, 2] : List ℝ) 2 1).2 (by simp) (by norm_num) (by norm_num)
  rw [hT]; rfl
example : (1 : ℝ) < 2 ∧ (3 : ℝ) ≠ 0 := ⟨by norm_num, by norm_num⟩
example : intRange (-1) 2 = [-1, 0, 1, 2] := by decide
example : (loadStats ([1, 2, 3, 4, 5, 6, 7, 8, 9, 10, 11, 12] : List ℚ)).map (·.per50) = some 8 := by decide +kernel
example : (loadStats ([1, 2, 3] : List ℚ)).isNone = true := by decide +kernel
example : 1 < ([0, 2] : List ℚ).length := by decide

end examples

end NanoVerif.Stats
