import NanoVerif.Proofs.Reduce
import NanoVerif.Props.C13
import NanoVerif.Props.C16
import NanoVerif.Props.C17
import NanoVerif.Props.C09
import NanoVerif.Props.C11
import NanoVerif.Gen.MutableState
import NanoVerif.Proofs.SharingAllow
import NanoVerif.Proofs.SharingPool
import NanoVerif.Proofs.SharingTune
import NanoVerif.Proofs.SharingFit
/-!
  C18 — shared const objects are thread-safe with schedule-independent results: the part that is LOGIC.

  A data race is a fact about the C++ memory model and the compiled code; no Lean model of the library exhibits one.
  What is proved here, for every schedule / assignment / interleaving:
    * `perthread_buffers_exclusive`  tasks running at the same time have different worker ids, so buffers indexed by worker id
                                     are never written by two tasks at once (pool protocol model of C17);
    * `tune_writes_disjoint`         the (trial, fold) tasks of `ml::tune` write disjoint element ranges of `m_values`, distinct
                                     `m_extras` slots, inside the buffer, and read only slots no task of the batch writes (C13 + C16);
    * `sum_reduce_assignment_independent`, `min_reduce_assignment_independent`   the reductions do not depend on which worker
                                     processed which chunk (exact arithmetic; `min`: every worker processes its features in
                                     increasing index order, ties allowed — the tie-break of commit 62472c9;
                                     `table_min_reduce_assignment_independent`: the table learners' lexicographic caches of
                                     commit 5de0896 need no order hypothesis at all;
                                     `old_min_reduce_schedule_dependent`: the rule before it was schedule dependent);
    * `minimize_is_pure`             with per-call clones of the line-search prototypes, what a `minimize` call computes depends on
                                     (solver object, its own arguments) only — not on the calls it is interleaved with;
    * `mutable_state_allowlisted`    every `mutable` member, non-const static and pointer/reference member found in the CURRENT
                                     sources (`Gen/MutableState.lean`, regenerated on every run) is one of the reviewed entries below.
  Everything about actual races and bit-identical floating-point results is tested (tools/props/c18.py), not proved.

  Gap-closing round — corollaries on the EXTENDED models of the other properties (all schedules / assignments / pool sizes):
    * `inline_calls_share_no_buffer`   (C17 model incl. the sequential path of `map`) two activities that execute the operator at
                                     the same time — tasks run by workers with the pool's tnum, or operator calls made INLINE by
                                     callers (≤ chunk elements or a 1-thread pool: tnum 0) — belong to different calls or have
                                     different slots; so a buffer vector owned by a PER-CALL object (every iterator is a local of
                                     its fit / predict call: `[per-call]` entries of the allow-list) is never shared;
                                     `shared_object_inline_calls_collide`: kernel-checked reachable state with two inline calls on
                                     slot 0 — a buffer vector owned by the SHARED object (seeded C18-e1) collides there;
    * `served_rows_independent_of_slot` (C09 iterator model) the rows served for a range do not depend on the worker id / slot;
    * `no_task_outlives_call`        (C17 `map_exit_implies_all_ready`) after `map` is left no task of the call runs in any later
                                     state: the `[&]` captures of the call's stack frame are not used after it is gone;
    * `tune_schedule_independent`    (C13 `tune_reads_only_earlier`) the batch AS CODED (warm-start data read from the live result)
                                     = the batch as modelled, the same result for every order of the tasks;
                                     `tune_live_read_in_flight_schedule_dependent`: with a closest trial IN the batch (seeded
                                     C18-c1) two orders give different results (kernel-checked);
    * `fit_result_schedule_independent` (C11 `ml::result_t` model) the whole `ml::tune` run, every slot / statistic / optimum;
    * `dtree_fit_assignment_independent` (C10) the BFS tree fit with an own feature → worker assignment at every node;
    * `feature_selection_thread_count_independent` (C09 `loopKind_visits`) the features a fit visits do not depend on the pool
                                     size; `seeded_feature_loop_drops_features` (seeded C18-e3).

  Gap table (anchors of properties.jsonl; `modelled` = a Lean definition the C18 theorems speak about, `other` = modelled by the
  named property whose theorems C18 composes, `scan` = covered by the source scan only, `tested` = behavioural runs only):

  | code                                                            | status   | where                                                                  |
  |-----------------------------------------------------------------|----------|------------------------------------------------------------------------|
  | parallel.h `pool_t::map` ×2 (parallel + sequential path), `enqueue`, `section_t`, `worker_t::operator()` | other C17 | `Pool.step`, `step2`; here `Sharing.Owned`, `Act`, `concurrent_acts_disjoint` |
  | solver.cpp `make_lsearch` (94-106), `minimize` (109-117)          | modelled | `Reduce.World / exec / run` (`minimize_is_pure`); NOT tied by a correspondence (tested: `shared minimize`) |
  | solver.cpp ctor / copy ctor / `lsearch0(…)` / `lsearchk(…)` / `type` / `more_precise` / `all` / `make_solver` | scan + other C19 | non-const (no concurrent use) or `std::call_once` factories ([sync] entries) |
  | solver.cpp `done`; solver/lsearch.cpp `lsearch_t::get`; lsearch0/*.cpp `get` (m_prevf, m_prevdg, m_last_step_size) | other C01/C02/C07 | state lives in the per-call `lsearch_t` (allow-list [per-call]); values: `Model/SolverStep.lean` |
  | machine/tune.cpp `tune`, `tuner_callback`, `thread_callback`      | other C13 + modelled | `Tune.runBatch`; here `Sharing.runBatchLive` (live read as coded), `tune_writes_disjoint` |
  | machine/result.cpp `add`, `store` ×2, `stats` ×2, `extra`, `value`, `values`, `optimum_trial`, `closest_trial` | other C13/C11 | `Tune.Result.*`, `MLResult.*`; `log_path`, `make_random_path`: outside (file names) |
  | dataset.cpp `flatten`, `select` ×4, `targets`, `feature`, `column2feature`, `update`, `add` | other C08 | const methods write only the CALLER's buffer argument (scan: no mutable member in dataset_t) |
  | dataset.cpp `thread_pool()`, `concurrency()`                      | other C17 | the shared pool: several submitters (`cPush` by any client) |
  | dataset/iterator.cpp `features_per_thread`, ctors, `targets`, `flatten`, `cache_*`, `batch`, `scaling`, `loop` ×11 | other C09 | `Iterator.Iter.*`, `loopKind`, `loopList`, `loopOne`; buffers: [per-worker] entries + `inline_calls_share_no_buffer` |
  | linear.cpp `fit`, `do_predict`, linear/function.cpp `do_vgrad`    | other C09/C11 | `LinearFit.*`, `Objective.*`; the iterator of `do_predict` is a local: [per-call] (seeded C18-e1 = scan hit) |
  | gboost/model.cpp `fit`, `do_predict`, fold task, gboost/function.cpp | other C09/C11 | `BoostFit.*`, `Objective.*`; accumulators [per-function][per-worker] |
  | wlearner/*.cpp `fit` (affine, stump, hinge, table ×4, dtree), reduce.h `min_reduce_feature`, `sum_reduce` | other C10 + modelled | `fitAssigned`, `dtreeLoop`; here `Reduce.mapMinReduce / mapSumReduce` (tied by the `reduce` ops), `Sharing.dtreeLoopS` |
  | wlearner/*.cpp `predict`, `split`, `clone`, `read`, `write`       | other C10/C15 | const, no member written (scan) |
  | function.cpp `fcalls/gcalls` counters (`mutable`)                 | scan     | [per-function]: each thread has its own function object (statement of C18) |
  | function.cpp the rest (constraints, `make`, `all`)                | other C06/C19 | const or `std::call_once` |
  | C++ memory model, `std::mutex`, actual data races, bit-identical doubles | tested | concurrent-vs-sequential runs, TSan (thorough tier) |

  `_partial` theorems: none. Hypotheses re-examined: `SchedSorted` of `min_reduce_assignment_independent` is necessary (witness in
  the non-vacuity example, replayed by `reduce min` ops on unsorted schedules); "closest trial is an earlier one" of
  `tune_schedule_independent` is necessary (`tune_live_read_in_flight_schedule_dependent`, seeded C18-c1 on the real code); "a
  different object per call" of `inline_calls_share_no_buffer` is necessary (`shared_object_inline_calls_collide`, seeded C18-e1 on the
  real code: `shared predict` with fewer samples than the batch).
-/
namespace NanoVerif.C18
open NanoVerif.Reduce

/-! ### per-thread buffers -/

open NanoVerif.Pool in
/-- In every reachable state of the pool (any interleaving, any number of workers, tasks and submitters): two different
    tasks that are running at the same time were handed different worker ids, both below the pool size. Hence for ANY vector
    of per-worker buffers (`std::vector<cache_t> caches(concurrency())`, `m_accumulators`, `m_flatten_buffers`, …: one slot per
    worker id, i.e. `buffers` injective on `[0, size)`) the two tasks address different slots, and tagging a slot with the
    object that owns it (`owner`: each concurrent call has its own function / iterator / cache vector) keeps them apart. -/
theorem perthread_buffers_exclusive (s : St) (hr : Reachable s) (t1 t2 w1 w2 : Nat)
    (h1 : s.ts t1 = .running w1) (h2 : s.ts t2 = .running w2) (hne : t1 ≠ t2) :
    w1 < s.nw ∧ w2 < s.nw ∧ w1 ≠ w2 ∧
    (∀ {β : Type} (buffers : Nat → β), (∀ a b, a < s.nw → b < s.nw → buffers a = buffers b → a = b) →
      buffers w1 ≠ buffers w2) ∧
    (∀ {γ : Type} (owner : Nat → γ), (owner t1, w1) ≠ (owner t2, w2)) := by
  have hw1 := (tnum_lt_size s hr t1 w1 h1).1
  have hw2 := (tnum_lt_size s hr t2 w2 h2).1
  have hx := tnum_exclusive s hr t1 t2 w1 w2 h1 h2 hne
  refine ⟨hw1, hw2, hx, ?_, ?_⟩
  · intro β buffers hinj heq
    exact hx (hinj w1 w2 hw1 hw2 heq)
  · intro γ owner heq
    exact hx (congrArg Prod.snd heq)

open NanoVerif.Pool in
/-- The sequential path of `map` (pool of one worker, or one chunk): the caller itself runs the operator with `tnum = 0`,
    one call at a time — call `k` has been started at most once and only calls before the current position have run. -/
theorem seqpath_one_at_a_time (s : St) (hr : Reachable s) (c n i : Nat) (b : Bool) (err : Option Nat)
    (h : s.cpc c = .seq n i b err) : i ≤ n ∧ ∀ k, s.sexec c k = seqCount i b k :=
  let r := (seq_runs_each_once_in_order s hr c).1 n i b err h
  ⟨r.1, r.2.1⟩

/-! ### ml::tune: where the (trial, fold) tasks write -/

open NanoVerif.Tune NanoVerif.Tensor in
/-- offset of the sub-tensor `m_values.tensor(trial, fold)` in `m_values` (dims `(trials, folds, 2, 2, 12)`): 48 doubles per slot -/
theorem values_offset (trials folds trial fold : Nat) :
    index [trials, folds, 2, 2, 12] [trial, fold] = 48 * slot folds trial fold := by
  simp only [index, size, slot]
  have h : folds * (2 * (2 * (12 * 1))) = 48 * folds := by omega
  rw [h, ← Nat.mul_assoc, Nat.mul_comm trial 48, Nat.mul_assoc]
  omega

open NanoVerif.Tune NanoVerif.Tensor in
/-- `tune.cpp:25-41` + `result.cpp:108-125`. A batch adds `k` trials to `old` existing ones (`result.add` BEFORE the parallel
    section), then task `i < k * folds` handles `(trial, fold) = decode i` and stores into trial `old + trial`. For two different
    tasks `i ≠ j` of the batch:
      * they write different `m_extras` / `m_log_paths` slots;
      * the element ranges `[o, o + 48)` of `m_values` they write (the four `store_stats` targets `m_values.tensor(trial, fold, a, b)`,
        `a, b < 2`, 12 doubles each, tile exactly `m_values.tensor(trial, fold)`) are disjoint;
      * each range lies inside the buffer of `m_values` as resized by `add` (`(old + k) * folds * 48` elements), each slot inside `m_extras`;
      * what a task READS of the shared result — `m_params` (written only by `add`) and `extra(closest, fold)` with
        `closest < old` (`closest_trial(params, old_trials)`; `old ≥ 1` whenever a batch has several trials: the first batch of
        both tuners is the single average grid point) — is a slot no task of the batch writes. -/
theorem tune_writes_disjoint (folds old k i j : Nat) (hf : 0 < folds) (hi : i < k * folds) (hj : j < k * folds)
    (hne : i ≠ j) :
    let dims := [old + k, folds, 2, 2, 12]
    let ti := old + (decode folds i).1
    let tj := old + (decode folds j).1
    let fi := (decode folds i).2
    let fj := (decode folds j).2
    slot folds ti fi ≠ slot folds tj fj ∧
    (index dims [ti, fi] + 48 ≤ index dims [tj, fj] ∨ index dims [tj, fj] + 48 ≤ index dims [ti, fi]) ∧
    index dims [ti, fi] + size (dims0 dims 2) ≤ size dims ∧ size (dims0 dims 2) = 48 ∧
    slot folds ti fi < (old + k) * folds ∧
    (∀ closest f, closest < old → f < folds → slot folds closest f ≠ slot folds ti fi) := by
  intro dims ti tj fi fj
  obtain ⟨hdec, _⟩ := C13.decode_bijective folds k hf
  obtain ⟨hti, hfi, hsi⟩ := hdec i hi
  obtain ⟨htj, hfj, hsj⟩ := hdec j hj
  have hslot : slot folds ti fi ≠ slot folds tj fj := by
    intro h
    obtain ⟨h1, h2⟩ := C13.slots_disjoint folds ti fi tj fj hfi hfj h
    have h1' : (decode folds i).1 = (decode folds j).1 := by omega
    apply hne
    rw [← hsi, ← hsj, h1', show (decode folds i).2 = (decode folds j).2 from h2]
  have hvp : ValidPrefix dims [ti, fi] := by
    refine ⟨by omega, hfi, trivial⟩
  refine ⟨hslot, ?_, subview_in_bounds dims [ti, fi] hvp, by simp [dims, dims0, size], ?_, ?_⟩
  · rw [values_offset, values_offset]
    omega
  · have : slot folds ti fi < (old + k) * folds := by
      have := (C13.decode_bijective folds (old + k) hf).2 ti fi (by omega) hfi
      exact this.1
    exact this
  · intro closest f hc hf' h
    obtain ⟨h1, _⟩ := C13.slots_disjoint folds closest f ti fi hf' hfi h
    omega

/-! ### reductions -/

/-- `sum_reduce` after the parallel accumulation, in exact arithmetic (any commutative monoid: the scalar `m_vm1`, the
    buffers `m_gb1`, `m_gW1`, the whole `accumulator_t`): for EVERY schedule — any number `≥ 1` of workers, any assignment of
    the chunk contributions to workers, any processing order — the reduced value is the plain sum of the contributions,
    divided by the number of samples. -/
theorem sum_reduce_assignment_independent {M : Type} [AddCommMonoid M] (divN : M → Nat → M) (n : Nat)
    (contribs : List M) (sched : List (List M)) (hw : sched ≠ []) (hperm : sched.flatten.Perm contribs) :
    mapSumReduce (· + ·) 0 divN n sched = some (divN contribs.sum n) := by
  rw [mapSumReduce_eq divN n sched hw, hperm.sum_eq]

/-- two schedules of the same contributions give the same value -/
theorem sum_reduce_schedules_agree {M : Type} [AddCommMonoid M] (divN : M → Nat → M) (n : Nat)
    (sched sched' : List (List M)) (hw : sched ≠ []) (hw' : sched' ≠ []) (hperm : sched.flatten.Perm sched'.flatten) :
    mapSumReduce (· + ·) 0 divN n sched = mapSumReduce (· + ·) 0 divN n sched' := by
  rw [sum_reduce_assignment_independent divN n sched'.flatten sched hw hperm,
    sum_reduce_assignment_independent divN n sched'.flatten sched' hw' (List.Perm.refl _)]

/-- `min_reduce_feature` over the per-worker "first best" caches (reduce.h, commit 62472c9). `feats` = the features the fit
    loops over, in increasing index order, each with its candidates (thresholds, … in the fixed order of its sweep; every
    candidate carries its feature's index: `candsOf`). `sched` = per worker, the features it processed, in its order.
    Hypotheses: at least one worker (`caches` has `concurrency() ≥ 1` slots); every feature is processed by exactly one worker
    (`hperm`: the pool's contract, C17); every worker processed ITS features in increasing index order (`SchedSorted`, a
    decidable predicate — what `pool_t::map` produces for one loop over one feature list). NO hypothesis on the scores: exact
    ties between features, between thresholds of one feature, everywhere, are allowed. Then for EVERY such schedule — any
    number of workers, any distribution of the features over them — the fit selects
      * exactly the candidate ONE worker processing all features in index order selects (`cacheOf (stream feats)`), and
      * that candidate has the minimal score, and the smallest feature index among the candidates with the minimal score
        (the lexicographic minimum of (score, feature index); within its feature: the first candidate of the sweep with
        that score, by the first clause); no candidate at all iff no feature has a candidate. -/
theorem min_reduce_assignment_independent {α π : Type} [LinearOrder α] (feats : List (Feat α π))
    (hf : (feats.map Prod.fst).Pairwise (· < ·))
    (sched : List (List (Feat α π))) (hne : sched ≠ []) (hperm : sched.flatten.Perm feats) (hs : SchedSorted sched) :
    mapMinReduce (sched.map stream) = some (cacheOf (stream feats)) ∧
    (match cacheOf (stream feats) with
     | none => stream feats = []
     | some x => x ∈ stream feats ∧
        ∀ y ∈ stream feats, x.score ≤ y.score ∧ (y.score = x.score → x.feature ≤ y.feature)) := by
  obtain ⟨r, hr, hbest⟩ := mapMinReduce_sorted feats hf sched hne hperm hs
  obtain ⟨_, hseq⟩ := mapMinReduce_seq feats hf
  have heq : r = cacheOf (stream feats) := best_unique _ _ _ hbest hseq
  subst heq
  refine ⟨hr, ?_⟩
  cases hc : cacheOf (stream feats) with
  | none => exact (cacheOf_spec (stream feats)).1.mp hc
  | some x =>
    rw [hc] at hbest
    exact best_reps_lexmin feats x hbest

/-- two index-sorted schedules of the same features select the same candidate -/
theorem min_reduce_schedules_agree {α π : Type} [LinearOrder α] (feats : List (Feat α π))
    (hf : (feats.map Prod.fst).Pairwise (· < ·)) (sched sched' : List (List (Feat α π)))
    (hne : sched ≠ []) (hne' : sched' ≠ []) (hperm : sched.flatten.Perm feats) (hperm' : sched'.flatten.Perm feats)
    (hs : SchedSorted sched) (hs' : SchedSorted sched') :
    mapMinReduce (sched.map stream) = mapMinReduce (sched'.map stream) := by
  rw [(min_reduce_assignment_independent feats hf sched hne hperm hs).1,
    (min_reduce_assignment_independent feats hf sched' hne' hperm' hs').1]

/-- The TABLE learners (dense, k-best, k-split, discrete-step): since commit 5de0896 their per-worker caches use the same
    lexicographic test as `min_reduce_feature` (`updLex`), because a table fit runs two loops (single-label, then multi-label
    features) into the same caches and a worker may see feature indices out of order. NO hypothesis on the order inside a worker
    and none on the scores: `feats` = the features in any order with pairwise distinct indices, `sched` = ANY distribution of
    them over ≥ 1 workers, each worker processing its features in ANY order. The fit selects exactly what one worker processing
    `feats` in the given order selects, and that is the lexicographic minimum of (score, feature index) (within its feature: the
    first candidate of the sweep with that score). -/
theorem table_min_reduce_assignment_independent {α π : Type} [LinearOrder α] (feats : List (Feat α π))
    (hf : (feats.map Prod.fst).Nodup)
    (sched : List (List (Feat α π))) (hne : sched ≠ []) (hperm : sched.flatten.Perm feats) :
    mapMinReduceLex (sched.map stream) = some (cacheOfLex (stream feats)) ∧
    (match cacheOfLex (stream feats) with
     | none => stream feats = []
     | some x => x ∈ stream feats ∧
        ∀ y ∈ stream feats, x.score ≤ y.score ∧ (y.score = x.score → x.feature ≤ y.feature)) := by
  obtain ⟨r, hr, hbest⟩ := mapMinReduceLex_any feats hf sched hne hperm
  obtain ⟨r', hr', hbest'⟩ := mapMinReduceLex_any feats hf [feats] (by simp) (by simp)
  have hseq : r' = cacheOfLex (stream feats) := by
    have : mapMinReduceLex ([feats].map stream) = some (cacheOfLex (stream feats)) := rfl
    rw [this] at hr'
    exact (Option.some.inj hr').symm
  have heq : r = cacheOfLex (stream feats) := by rw [← hseq]; exact best_unique _ _ _ hbest hbest'
  subst heq
  refine ⟨hr, ?_⟩
  cases hc : cacheOfLex (stream feats) with
  | none =>
    rw [hc] at hbest
    have h0 : reps feats = [] := hbest
    -- no per-feature best: no candidate at all
    apply List.eq_nil_iff_forall_not_mem.mpr
    intro y hy
    unfold stream at hy
    obtain ⟨g, hg, hyg⟩ := List.mem_flatMap.mp hy
    cases hb : rep g with
    | none =>
      have : candsOf g = [] := (cacheOf_spec (candsOf g)).1.mp hb
      rw [this] at hyg
      simp at hyg
    | some b =>
      have : b ∈ reps feats := (mem_reps feats b).mpr ⟨g, hg, hb⟩
      rw [h0] at this
      simp at this
  | some x =>
    rw [hc] at hbest
    exact best_reps_lexmin feats x hbest

/-- non-vacuity for the table variant: the worker that holds the tying features 3 and 0 sees them in DEcreasing order (the two
    loops of table.cpp on a dataset whose multi-label features have the smaller indices); every schedule gives feature 0 — while
    the first-seen cache of before 5de0896 (`mapMinReduce`) gives 3 or 0 depending on the schedule -/
example :
    let m0 : Feat Nat String := (0, [(2, "m0")])
    let m1 : Feat Nat String := (1, [(7, "m1")])
    let s0 : Feat Nat String := (2, [(8, "s0")])
    let s1 : Feat Nat String := (3, [(2, "s1")])
    (([s0, s1, m0, m1] : List (Feat Nat String)).map Prod.fst).Nodup ∧
    (mapMinReduceLex ([[s0, s1, m0, m1]].map stream)).map (Option.map (·.feature)) = some (some 0) ∧
    (mapMinReduceLex ([[s1, m0], [s0, m1]].map stream)).map (Option.map (·.feature)) = some (some 0) ∧
    (mapMinReduceLex ([[s0, m1], [s1, m0]].map stream)).map (Option.map (·.feature)) = some (some 0) ∧
    (mapMinReduce ([[s0, s1, m0, m1]].map stream)).map (Option.map (·.feature)) = some (some 3) ∧
    (mapMinReduce ([[s1, m0], [s0, m1]].map stream)).map (Option.map (·.feature)) = some (some 3) ∧
    (mapMinReduce ([[s1, m1], [s0, m0]].map stream)).map (Option.map (·.feature)) = some (some 0) := by
  decide

/-- The rule BEFORE commit 62472c9 (`min_reduce`: `m_score` only, `mapMinReduceOld`) is schedule dependent under an exact
    tie, on index-sorted schedules: features 0 and 2 tie on the minimal score 5 and are processed by different workers —
    the cache of the lower worker id wins, whichever feature it holds. (DESIGN.md §6, KNOWN_FINDINGS
    `feature-tie:schedule-dependent-selection`, fixed.) So the theorem above is about the tie-break. -/
theorem old_min_reduce_schedule_dependent :
    ∃ (feats : List (Feat Nat String)) (sched sched' : List (List (Feat Nat String))),
      (feats.map Prod.fst).Pairwise (· < ·) ∧ sched.flatten.Perm feats ∧ sched'.flatten.Perm feats ∧
      SchedSorted sched ∧ SchedSorted sched' ∧
      mapMinReduceOld (sched.map stream) ≠ mapMinReduceOld (sched'.map stream) ∧
      mapMinReduce (sched.map stream) = mapMinReduce (sched'.map stream) := by
  refine ⟨[(0, [(5, "a")]), (1, [(7, "b")]), (2, [(5, "c")])],
    [[(0, [(5, "a")]), (1, [(7, "b")])], [(2, [(5, "c")])]],
    [[(2, [(5, "c")])], [(0, [(5, "a")]), (1, [(7, "b")])]], by decide, by decide, by decide, by decide, by decide, by decide,
    by decide⟩

/-- non-vacuity of the hypotheses, with an exact tie spread over two workers: features 0 and 2 both score 5 (feature 2 even
    twice, two thresholds); three index-sorted schedules, all select (5, feature 0) — also the one whose first worker holds
    feature 2 -/
example :
    let f0 : Feat Nat String := (0, [(9, "t0"), (5, "t1")])
    let f1 : Feat Nat String := (1, [(7, "u0")])
    let f2 : Feat Nat String := (2, [(5, "v0"), (5, "v1")])
    (([f0, f1, f2] : List (Feat Nat String)).map Prod.fst).Pairwise (· < ·) ∧
    SchedSorted [[f0, f1], [f2]] ∧ SchedSorted [[f2], [f0, f1]] ∧ SchedSorted [[f1, f2], [], [f0]] ∧
    ¬ SchedSorted [[f2, f0], [f1]] ∧
    (mapMinReduce ([[f0, f1], [f2]].map stream)).map (Option.map fun c => (c.score, c.feature, c.payload))
      = some (some (5, 0, "t1")) ∧
    (mapMinReduce ([[f2], [f0, f1]].map stream)).map (Option.map fun c => (c.score, c.feature, c.payload))
      = some (some (5, 0, "t1")) ∧
    (mapMinReduce ([[f1, f2], [], [f0]].map stream)).map (Option.map fun c => (c.score, c.feature, c.payload))
      = some (some (5, 0, "t1")) ∧
    -- a worker that does NOT process its features in index order keeps the first one it saw: the hypothesis is needed
    (mapMinReduce ([[f2, f0], [f1]].map stream)).map (Option.map fun c => (c.score, c.feature, c.payload))
      = some (some (5, 2, "v0")) := by
  decide

example : mapSumReduce (· + ·) 0 (fun (v : Int) n => v / n) 2 [[1, 2], [], [3, 4]] = some 5 ∧
    mapSumReduce (· + ·) 0 (fun (v : Int) n => v / n) 2 [[4], [3, 1, 2]] = some 5 ∧
    mapSumReduce (· + ·) 0 (fun (v : Int) n => v / n) 2 ([] : List (List Int)) = none := by
  decide

/-! ### one shared solver, many concurrent `minimize` calls -/

/-- `solver.cpp:94-106` (`make_lsearch` clones the prototype line-search objects for every call) in the model
    `Model/Reduce.lean` (`World`, `exec`): for EVERY interleaving `es` of the events of any number of calls on ONE shared
    solver object,
      * the prototype state of the solver is never written;
      * what call `i` holds afterwards is what it would hold had only ITS OWN events been executed (`es.filter (·.id = i)`),
        on any world with the same solver object — i.e. independent of the other calls, of what they did before and of how
        they were interleaved;
      * in particular a call started with `x0` and advanced `k` times holds `(stepFn i)^[k] (clone proto, x0)`: a function
        of (the solver object = parameters + prototypes, the call's function object `stepFn i`, `x0`) only.
    `stepFn i` is abstract: any algorithm step, reading and writing the call's line-search state and iterate. -/
theorem minimize_is_pure {σ X : Type} (clone : σ → σ) (stepFn : Nat → σ × X → σ × X) (w : World σ X) (es : List (Ev X))
    (i : Nat) :
    (run clone stepFn w es).proto = w.proto ∧
    (∀ w' : World σ X, w'.proto = w.proto → w'.loc i = w.loc i →
      (run clone stepFn w es).loc i = (run clone stepFn w' (es.filter (fun e => e.id = i))).loc i) ∧
    (∀ (x0 : X) (k : Nat), es.filter (fun e => e.id = i) = Ev.start i x0 :: List.replicate k (Ev.step i) →
      (run clone stepFn w es).loc i = some ((stepFn i)^[k] (clone w.proto, x0))) := by
  refine ⟨run_proto clone stepFn w es, ?_, ?_⟩
  · intro w' hp hl
    exact run_loc_own clone stepFn i es w w' hp.symm hl.symm
  · intro x0 k hown
    rw [run_loc_own clone stepFn i es w w rfl rfl, hown]
    show (run clone stepFn (exec clone stepFn w (Ev.start i x0)) (List.replicate k (Ev.step i))).loc i = _
    exact run_steps clone stepFn i k _ _ (by simp [exec])

/-- non-vacuity: if `make_lsearch` handed out the prototypes themselves (`runShared`), the same call would give different
    results depending on what another call does in between (state = a counter standing for `m_prevf`/`m_last_step_size`,
    step = "add the state to the iterate, bump the state") — while the cloning model gives the same answer for both
    interleavings. -/
example :
    let stepFn : Nat → Nat × Nat → Nat × Nat := fun _ p => (p.1 + 1, p.2 + p.1)
    let alone : List (Ev Nat) := [.start 0 10, .step 0, .step 0]
    let mixed : List (Ev Nat) := [.start 0 10, .start 1 7, .step 1, .step 0, .step 1, .step 0]
    (runShared stepFn (World.init 0) alone).loc 0 = some (2, 11) ∧
    (runShared stepFn (World.init 0) mixed).loc 0 = some (4, 14) ∧
    (run id stepFn (World.init 0) alone).loc 0 = some (2, 11) ∧
    (run id stepFn (World.init 0) mixed).loc 0 = some (2, 11) := by
  decide


/-! ## gap-closing round: corollaries on the extended models -/

/-! ### per-worker buffers belong to per-call objects (C17 model with the sequential path of `map`) -/

open NanoVerif.Pool NanoVerif.Sharing in
/-- **Inline calls share no buffer.** `Act` = an activity that executes the operator of a `map`: a task run by a pool worker
    (slot = the worker id the pool passes as `tnum`) or the operator call the CALLER makes itself on the sequential path of `map`
    (`size() == 1` or a single chunk — fewer samples than the batch, a 1-thread dataset pool: slot 0). In every reachable state
    of the pool — any number of workers, tasks, concurrent submitters and inline callers — two different activities that are
    live at the same time each belong to a client call (`live_has_call`: a pending task's call has not left `map`), and whatever
    calls they belong to, these are DIFFERENT calls or the activities use DIFFERENT slots. Hence for buffers `obj call` owned by a
    per-call object — the iterators `flatten_iterator_t` / `targets_iterator_t` / `select_iterator_t` are locals of the fit /
    predict / fold-task call that uses them, the ML function objects are built inside that call; models and datasets own none
    (allow-list: no `[per-worker]` entry outside iterators and function objects) — the addressed buffers `(obj call, slot)` differ. -/
theorem inline_calls_share_no_buffer (s : St) (hr : Reachable s) (a b : Act) (ha : a.live s) (hb : b.live s) (hne : a ≠ b) :
    (∃ ca, a.call s ca) ∧ (∃ cb, b.call s cb) ∧
    ∀ ca cb, a.call s ca → b.call s cb →
      (ca ≠ cb ∨ a.slot s ≠ b.slot s) ∧
      ∀ {γ : Type} (obj : Nat → γ), (∀ x y, obj x = obj y → x = y) → (obj ca, a.slot s) ≠ (obj cb, b.slot s) := by
  refine ⟨live_has_call s hr a ha, live_has_call s hr b hb, ?_⟩
  intro ca cb hca hcb
  have hd := concurrent_acts_disjoint s hr a b ha hb hne ca cb hca hcb
  refine ⟨hd, ?_⟩
  intro γ obj hinj heq
  rcases hd with hd | hd
  · exact hd (hinj _ _ (congrArg Prod.fst heq))
  · exact hd (congrArg Prod.snd heq)

open NanoVerif.Pool NanoVerif.Sharing in
/-- The hypothesis "a different object per call" is necessary — seeded change C18-e1 (`mutable m_buffers` in `linear_t`, indexed
    by `tnum`): on a pool of 16 workers two callers predicting few samples both take the sequential path and both run their
    operator with `tnum = 0` at the same time (kernel-checked run); buffers owned by an object the two calls share
    (`obj 0 = obj 1`) are then the SAME buffer. Replayed on the real code by `shared predict` with fewer samples than the batch. -/
theorem shared_object_inline_calls_collide :
    ∃ s, Reachable s ∧ s.nw = 16 ∧ Act.live s (.inline 0) ∧ Act.live s (.inline 1) ∧
      ∀ {γ : Type} (obj : Nat → γ), obj 0 = obj 1 →
        (obj 0, Act.slot s (.inline 0)) = (obj 1, Act.slot s (.inline 1)) := by
  refine ⟨_, ⟨16, [.sStart 0 1, .sStart 1 1, .sOpBegin 0, .sOpBegin 1], rfl⟩, rfl, ⟨1, 0, none, rfl⟩, ⟨1, 0, none, rfl⟩, ?_⟩
  intro γ obj h
  simp only [Act.slot, h]

open NanoVerif.Pool NanoVerif.Sharing in
/-- non-vacuity of `inline_calls_share_no_buffer`: a worker-run task of call 0 (worker 0 → slot 0) and an inline operator call of
    caller 1 (slot 0) are live at the same time — same slot, different calls -/
example : ∃ s, Reachable s ∧ Act.live s (.task 5) ∧ Act.live s (.inline 1) ∧ Act.slot s (.task 5) = Act.slot s (.inline 1) ∧
    Act.call s (.task 5) 0 ∧ Act.call s (.inline 1) 1 := by
  refine ⟨_, ⟨2, [.cPush 0 [5, 6] true, .cNotify 0 none, .wTake 0, .sStart 1 3, .sOpBegin 1], rfl⟩, ⟨0, rfl⟩,
    ⟨3, 0, none, rfl⟩, rfl, ⟨[5, 6], Or.inl rfl, by decide⟩, rfl⟩

open NanoVerif.Pool NanoVerif.Sharing in
/-- **No task of a call outlives the call** (C17 `map_exit_implies_all_ready` + `ready_stable`): when a client leaves `map` —
    returning, or with an exception propagating — every future of the call is ready, and in EVERY later state of every
    continuation (any events of the pool, of other callers, of a destructor) each task of the call is still ready, is not being
    run by any worker, and no worker's pc names it. The operator, which captures the caller's stack frame by reference
    (`[&]` lambdas over the iterator, the caches, the outputs), is therefore never executed after the frame is gone. -/
theorem no_task_outlives_call (s s' : St2) (hr : Reachable2 s) (c : Nat) (h : step2 false s (.exit c) = some s') :
    ∃ ts, s.base.cpc c = .waiting ts ∧
      ∀ (es : List Ev2) (s'' : St2), run2 false s' es = some s'' → ∀ t ∈ ts,
        ready? (s''.base.ts t) = true ∧ (∀ w, s''.base.ts t ≠ .running w) ∧
        (∀ w, w < s''.base.nw → s''.base.wpc w ≠ .running t) := by
  obtain ⟨ts, raise, exc, hpc, hwait, _, hall, _, _⟩ := map_exit_implies_all_ready s s' hr c h
  obtain ⟨hrb, hs⟩ := reachable2_invs s hr
  have hstep := exit_refines_cReturn s s' hr c h
  have hrb' : Reachable s'.base := reachable_step hrb hstep
  have hs' : SecInv s' := (secinv_step s s' (.exit c) (reachable_invs s.base hrb).1 hs h).1
  have hts : s'.base.ts = s.base.ts := by
    obtain ⟨_, _, _, _, rfl⟩ := step2_exit h
    rfl
  refine ⟨ts, hwait, ?_⟩
  intro es s'' hrun t ht
  obtain ⟨hr'', hall''⟩ := ready_forever ts es s' s'' hrb' hs' (fun t ht => by rw [hts]; exact hall t ht) hrun
  have hready := (hall'' t ht).1
  have hnr : ∀ w, s''.base.ts t ≠ .running w := by
    intro w hw
    rw [hw] at hready
    simp [ready?] at hready
  refine ⟨hready, hnr, ?_⟩
  intro w hw hpcw
  exact hnr w (((task_bookkeeping s''.base hr'').run_iff t w).mpr ⟨hw, hpcw⟩)

open NanoVerif.Pool in
/-- non-vacuity: a `map` of two tasks on two workers is left after both ran (a complete run of the section model) -/
example : (run2 false (init2 2) [.base (.cPush 0 [0, 1] true), .base (.cNotify 0 none), .base (.wTake 0), .base (.wTake 1),
      .base (.wRunEnd 0 false), .base (.wRunEnd 1 false), .bBegin 0 true, .bWait 0, .bWait 0, .bDone 0, .dWait 0, .dWait 0,
      .exit 0]).map (fun s => (s.spc 0, s.base.ts 0, s.base.ts 1)) = some (.out none, .done, .done) := by
  decide


open NanoVerif.Iterator NanoVerif.Scaling in
/-- **What an iterator serves does not depend on the slot** (C09 `Model/Iterator.lean`): for every iterator state, dataset and
    range, two existing worker ids are served the same rows by `flatten(tnum, range)` / `targets(tnum, range)` — the per-worker
    buffer `m_flatten_buffers[tnum]` / `m_targets_buffers[tnum]` is scratch space that is resized and completely overwritten by
    `dataset.flatten(samples, buffer)` inside the call (the model keeps only the guard `tnum < buffers.size()`). Together with
    `inline_calls_share_no_buffer` (no two live activities address the same scratch buffer): which worker — or the caller itself
    with `tnum 0` — serves a chunk changes neither the rows nor anything another activity sees. -/
theorem served_rows_independent_of_slot {α : Type} [Add α] [Sub α] [Mul α] [Div α] [Neg α] [LT α] [DecidableLT α]
    [OfNat α 0] [OfNat α 1] [NatCast α] [FinTest α] (it : Iter α) (D : Data α) (t1 t2 b e : Nat)
    (h1 : t1 < it.workers) (h2 : t2 < it.workers) :
    it.serveF D t1 b e = it.serveF D t2 b e ∧ it.serveT D t1 b e = it.serveT D t2 b e := by
  unfold Iter.serveF Iter.serveT
  simp only [h1, h2, if_true]
  exact ⟨trivial, trivial⟩

/-- non-vacuity: an iterator on a pool of 16 has the slots 0 (also the inline caller's) and 15 -/
example : (0 : Nat) < 16 ∧ (15 : Nat) < 16 := by decide

/-! ### `ml::tune`: the batch as coded, any order of its tasks -/

open NanoVerif.Tune NanoVerif.Sharing in
/-- **`ml::tune` is schedule independent** (from C13 `tune_reads_only_earlier`). `r0` = the result before the batch (`old` = its
    parameter rows, at least one trial), `new` = the rows of the batch, `params t` = the row of new trial `t`; every task is
    handed `closest_trial(params, old_trials)` computed on the rows INCLUDING the batch in flight (`result.add` comes first), and
    reads `result.extra(closest, fold)` from the LIVE result while the other tasks of the batch store into it
    (`runBatchLive`: tune.cpp:25-41 as coded). For every two orders in which the pool runs every (trial, fold) index once:
    the stored result is the same, and it is `runBatch` — every slot (old + t, f) holds the callback's answer for (t, f) given the
    data of a trial of an EARLIER batch (`batch_slots`), a function of the callback and of `r0` only. -/
theorem tune_schedule_independent {σ α π : Type} [Field α] [LinearOrder α] [IsStrictOrderedRing α] (top : α) (dist : π → π → α)
    (cb : Nat → Nat → Option σ → σ) (r0 : Result σ) (hwf : r0.wf) (old new : List π) (hold : old.length = r0.trials)
    (hpos : 0 < r0.trials) (params : Nat → π) (order order' : List Nat)
    (hp : order.Perm (List.range (new.length * r0.folds))) (hp' : order'.Perm (List.range (new.length * r0.folds))) :
    let closest := fun t => closestTrial top dist (old ++ new) (params t) r0.trials
    runBatchLive cb closest r0 new.length order = runBatchLive cb closest r0 new.length order' ∧
    runBatchLive cb closest r0 new.length order = runBatch cb closest r0 new.length order ∧
    ∀ t f, t < new.length → f < r0.folds →
      (runBatchLive cb closest r0 new.length order).get? (r0.trials + t) f =
        some (cb t f (r0.get? (closestTrial top dist old (params t) r0.trials) f)) := by
  intro closest
  have hcl : ∀ (o : List Nat), ∀ i ∈ o, closest (decode r0.folds i).1 < r0.trials := by
    intro o i _
    exact (C13.tune_reads_only_earlier top dist r0 hwf old new hold hpos (params (decode r0.folds i).1) 0).1
  have e1 := runBatchLive_eq cb closest r0 new.length order (hcl order)
  have e2 := runBatchLive_eq cb closest r0 new.length order' (hcl order')
  refine ⟨?_, e1, ?_⟩
  · rw [e1, e2]
    exact runBatch_schedule_independent cb closest r0 new.length order order' hp hp'
  · intro t f ht hf
    rw [e1, C13.batch_slots cb closest r0 hwf new.length order hp t f ht hf]
    obtain ⟨_, h2, h3⟩ := C13.tune_reads_only_earlier top dist r0 hwf old new hold hpos (params t) f
    show some (cb t f ((r0.add new.length).get? (closestTrial top dist (old ++ new) (params t) r0.trials) f)) = _
    rw [h3, h2]

open NanoVerif.Tune NanoVerif.Sharing in
/-- The hypothesis "the closest trial is an EARLIER one" is necessary — seeded change C18-c1 (warm start from the trials of the
    batch in flight): one earlier trial, a batch of two, both tasks handed trial 1 (the first of the batch) as closest. The two
    orders of the two tasks store different results (the second task does or does not see the first one's data); with the
    closest trial 0 (earlier) both orders agree. Kernel-checked; on the real code: `fit` ops under pools 1 vs 16. -/
theorem tune_live_read_in_flight_schedule_dependent :
    let cb : Nat → Nat → Option Nat → Nat := fun t _ prev => prev.getD 0 + 10 * (t + 1)
    let r0 : Result Nat := ⟨1, 1, [some 7]⟩
    (runBatchLive cb (fun _ => 1) r0 2 [0, 1]).slots = [some 7, some 10, some 30] ∧
    (runBatchLive cb (fun _ => 1) r0 2 [1, 0]).slots = [some 7, some 10, some 20] ∧
    (runBatchLive cb (fun _ => 0) r0 2 [0, 1]).slots = [some 7, some 17, some 27] ∧
    (runBatchLive cb (fun _ => 0) r0 2 [1, 0]).slots = [some 7, some 17, some 27] := by
  decide

open NanoVerif.Tune in
/-- non-vacuity of `tune_schedule_independent`: one earlier trial with parameter 3, a batch of two trials (parameters 4 and 9),
    2 folds; the two orders are permutations of the four indices -/
example : ([0, 1, 2, 3] : List Nat).Perm (List.range (2 * 2)) ∧ ([3, 1, 0, 2] : List Nat).Perm (List.range (2 * 2)) ∧
    (⟨2, 1, [some 5, some 6]⟩ : Result Nat).wf ∧
    closestTrial (1000 : Int) (fun a b => (a - b) * (a - b)) ([3] ++ [4, 9]) 9 1 = 0 := by
  refine ⟨by decide, by decide, rfl, by decide⟩

open NanoVerif.Tune NanoVerif.MLResult NanoVerif.Sharing in
/-- **The fitted `ml::result_t` is schedule independent** (C11's model of what `ml::tune` fills: four `store_stats` blocks and
    the model-specific data per (trial, fold)). Two histories of batches with the same trials, closest-trial maps and model
    callbacks that differ ONLY in the order in which the pool ran the (trial, fold) tasks of each batch (`SameBatches`) fill
    the same result: every slot, hence every reported statistic `stats(trial, fold, split, kind)` (which C11
    `reported_stats_are_stats_of_recomputed` identifies, for any order, with `store_stats` of the fold model's values), every
    `extra(trial, fold)` — the fold fits write disjoint slots (`tune_writes_disjoint`) and read only earlier ones. -/
theorem fit_result_schedule_independent {E α : Type} [Add α] [Sub α] [Mul α] [Div α] [LT α] [LE α] [DecidableLT α]
    [DecidableLE α] [OfNat α 0] [OfNat α 1] [OfNat α 2] [OfNat α 50] [OfNat α 100] [NanoVerif.Stats.FloorI α]
    [NanoVerif.Stats.HasSqrt α] (sort : List α → List α) (folds : Nat) (bs bs' : List (Batch E α))
    (h : List.Forall₂ (SameBatches folds) bs bs') :
    runTune sort folds bs = runTune sort folds bs' ∧
    (∀ t f split kind, stats (runTune sort folds bs) t f split kind = stats (runTune sort folds bs') t f split kind) ∧
    (∀ t f, extraOf (runTune sort folds bs) t f = extraOf (runTune sort folds bs') t f) := by
  have e := runTune_schedule_independent sort folds bs bs' h
  exact ⟨e, fun t f split kind => by rw [e], fun t f => by rw [e]⟩

/-! ### weak-learner fits -/

open NanoVerif.WLearner NanoVerif.Sharing in
/-- **The decision-tree fit is assignment independent** (C10: `fit_assignment_independent` for the stump fitted at a node, the
    BFS loop of `dtree.cpp`). The stump fit of EVERY processed node is its own `pool_t::map` over the scalar features, with its
    own assignment `sched fuel samples` of the features to workers — any family of assignments in which every feature goes to
    exactly one worker and every worker sees its features in increasing index order (what the pool produces), any number of
    workers, different at every node. The loop then builds exactly the tree one thread builds: same nodes, thresholds, tables,
    score (`dtreeFit` of C10). Exact score ties between features are allowed (smallest index wins on every schedule). -/
theorem dtree_fit_assignment_independent {α : Type} [Field α] [LinearOrder α] [IsStrictOrderedRing α] [Log α] [FinTest α]
    (sort : List (Item α) → List (Item α)) (T : Nat) (K big : α) (crit : Crit)
    (feats : List Nat) (hinc : feats.Pairwise (· < ·)) (val : Nat → Nat → FVal α) (resid : Nat → Vec α)
    (N maxDepth minSplit : Nat) (sched : Nat → List Nat → List (List Nat))
    (hs : ∀ n sel, (sched n sel).flatten.Perm feats ∧ ∀ w ∈ sched n sel, w.Pairwise (· < ·)) (samples : List Nat) :
    dtreeLoopS (stumpTreeCfg sort T K big crit feats val resid N maxDepth minSplit)
        (fun n sel => stumpFitAssigned sort T K big crit (sched n sel) val resid sel)
        (2 ^ maxDepth) [⟨samples, 0, 0⟩] TState.init =
      dtreeFit (stumpTreeCfg sort T K big crit feats val resid N maxDepth minSplit) samples :=
  dtree_fit_schedule_independent sort T K big crit feats hinc val resid N maxDepth minSplit sched hs samples

/-- non-vacuity: three features; at even steps the pool has two workers holding [2] and [0, 1], at odd steps one worker -/
example :
    let sched : Nat → List Nat → List (List Nat) := fun n _ => if n % 2 = 0 then [[2], [0, 1]] else [[0, 1, 2]]
    ([0, 1, 2] : List Nat).Pairwise (· < ·) ∧
    ∀ n (sel : List Nat), (sched n sel).flatten.Perm [0, 1, 2] ∧ ∀ w ∈ sched n sel, w.Pairwise (· < ·) := by
  refine ⟨by decide, ?_⟩
  intro n sel
  by_cases h : n % 2 = 0
  · simp only [h, if_true]
    exact ⟨by decide, by decide⟩
  · simp only [h, if_false]
    exact ⟨by decide, by decide⟩

open NanoVerif.Iterator NanoVerif.Objective NanoVerif.Sharing in
/-- **Feature selection looks at the same features for every thread count** (C09 `loopKind_visits` / `loopList_visits`): for
    every dataset (the kinds of its features), every kind of callback, ANY two pool sizes and ANY two schedules naming one
    existing worker per chunk, `select_iterator_t::loop(samples, callback)` calls the callback for the same list of features —
    exactly the dataset's features of that kind, each once, in increasing index order — always with an existing buffer index.
    (With `min_reduce_assignment_independent` / `table_min_reduce_assignment_independent`: the selected feature is the same.) -/
theorem feature_selection_thread_count_independent (kinds : List FKind) (k : FKind) (w1 w2 : Nat) (asg1 asg2 : List Nat)
    (h1 : ValidAsg w1 (makeFeatures kinds k).length (featuresPerThread (makeFeatures kinds k).length w1) asg1)
    (h2 : ValidAsg w2 (makeFeatures kinds k).length (featuresPerThread (makeFeatures kinds k).length w2) asg2) :
    ∃ c1 c2, loopKind kinds k w1 asg1 = some c1 ∧ loopKind kinds k w2 asg2 = some c2 ∧
      c1.map Call.ifeature = c2.map Call.ifeature ∧ c1.map Call.ifeature = makeFeatures kinds k ∧
      (∀ c ∈ c1, c.tnum < w1) ∧ (∀ c ∈ c2, c.tnum < w2) :=
  select_loop_thread_count_independent kinds k w1 w2 asg1 asg2 h1 h2

open NanoVerif.Iterator NanoVerif.Sharing in
/-- The seeded change C18-e3 ("one contiguous range of `features_per_thread` positions per worker, `min(concurrency, n)`
    workers") visits only the first 8 of 9 features on 8 threads and the first 16 of 17 on 16 threads, while it is complete on
    (9, 2) and (8, 8): it contradicts the theorem above exactly for the (features, threads) pairs with
    `min(threads, n) · round(n / threads) < n`. The loop as coded visits all 9 positions on 8 threads. Kernel-checked; on the
    real code: `wfit` ops over pools 1, 2, 3, 4, 5, 7, 16 with feature counts in every residue class. -/
theorem seeded_feature_loop_drops_features :
    seededVisits 9 8 = [0, 1, 2, 3, 4, 5, 6, 7] ∧ seededVisits 17 16 = List.range 16 ∧ seededVisits 9 2 = List.range 9 ∧
    seededVisits 8 8 = List.range 8 ∧
    (loopList (List.range 9) 8 [0, 1, 2, 3, 4, 5, 6, 7, 0]).map (·.map Call.ifeature) = some (List.range 9) :=
  seeded_loop_drops_features

open NanoVerif.Iterator NanoVerif.Objective in
/-- non-vacuity: 5 scalar features among 7; pool of 2 (chunks of 3: two chunks) vs pool of 16 (chunks of 1: five chunks) -/
example :
    let kinds : List FKind := [.scalar, .sclass, .scalar, .scalar, .struct, .scalar, .scalar]
    makeFeatures kinds .scalar = [0, 2, 3, 5, 6] ∧
    ValidAsg 2 5 (featuresPerThread 5 2) [1, 0] ∧ ValidAsg 16 5 (featuresPerThread 5 16) [3, 15, 0, 3, 7] := by
  decide

/-! ### the reviewed list of state a `const` method can modify or that all objects share -/

/- The reviewed list `allow` (entry + reason) lives in `Proofs/SharingAllow.lean`, written from `ALLOW` of tools/props/c18.py
   (one place to edit; the check compares the two). Tags: [per-function] owned by one function object, which one thread uses;
   [per-call] created inside the call; [per-worker] a vector with one slot per worker id (`perthread_buffers_exclusive`) owned by a
   per-call object (`inline_calls_share_no_buffer`); [sync] protected by a mutex / `std::call_once` / atomic; [owner] const access
   only calls const members of the pointee; [load] written while loading only. -/

open NanoVerif.Gen.MutableState in
/-- Every `mutable` member, non-const `static` / `thread_local` / namespace-scope variable and pointer/reference member that
    the scan finds in the CURRENT sources is one of the reviewed entries (same file, class, name and declared type).
    A new `mutable` cache on a shared object, a prototype turned into a `shared_ptr`, a new function-local `static` … makes
    this theorem fail until the new entry has been reviewed. -/
theorem mutable_state_allowlisted : ∀ e ∈ table, e ∈ allow.map (·.1) := by
  have h : (table.all fun e => (allow.map (·.1)).contains e) = true := by decide +kernel
  intro e he
  exact List.contains_iff_mem.mp (List.all_eq_true.mp h e he)

open NanoVerif.Gen.MutableState in
/-- the table is not empty (the scan found the entries the property's anchors name) -/
example : (⟨.mutable_, "include/nano/solver/lsearch.h", "lsearch_t", "m_last_step_size", "scalar_t"⟩ : Entry) ∈ table ∧
    (⟨.mutable_, "include/nano/function.h", "function_t", "m_fcalls", "tensor_size_t"⟩ : Entry) ∈ table ∧
    (⟨.indirect, "include/nano/solver.h", "solver_t", "m_lsearch0", "rlsearch0_t"⟩ : Entry) ∈ table := by
  decide

/-! ### non-vacuity of the index statements -/

open NanoVerif.Tune NanoVerif.Tensor in
example : decode 3 7 = (2, 1) ∧ slot 3 (4 + 2) 1 = 19 ∧ index [4 + 3, 3, 2, 2, 12] [4 + 2, 1] = 48 * 19 ∧
    size [4 + 3, 3, 2, 2, 12] = 7 * 3 * 48 := by
  decide

end NanoVerif.C18
