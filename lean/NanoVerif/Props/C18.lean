import NanoVerif.Proofs.Reduce
import NanoVerif.Props.C13
import NanoVerif.Props.C16
import NanoVerif.Props.C17
import NanoVerif.Gen.MutableState
/-!
  C18 — shared const objects are thread-safe with schedule-independent results: the part that is LOGIC.

  A data race is a fact about the C++ memory model and the compiled code; no Lean model of the library exhibits one.
  What is proved here, for every schedule / assignment / interleaving:
    * `perthread_buffers_exclusive`  tasks running at the same time have different worker ids, so buffers indexed by worker id
                                     are never written by two tasks at once (pool protocol model of C17);
    * `tune_writes_disjoint`         the (trial, fold) tasks of `ml::tune` write disjoint element ranges of `m_values`, distinct
                                     `m_extras` slots, inside the buffer, and read only slots no task of the batch writes (C13 + C16);
    * `sum_reduce_assignment_independent`, `min_reduce_assignment_independent`   the reductions do not depend on which worker
                                     processed which chunk (exact arithmetic; `min`: every worker processes its features in
                                     increasing index order, ties allowed — the tie-break of commit 62472c9;
                                     `table_min_reduce_assignment_independent`: the table learners' lexicographic caches of
                                     commit 5de0896 need no order hypothesis at all;
                                     `old_min_reduce_schedule_dependent`: the rule before it was schedule dependent);
    * `minimize_is_pure`             with per-call clones of the line-search prototypes, what a `minimize` call computes depends on
                                     (solver object, its own arguments) only — not on the calls it is interleaved with;
    * `mutable_state_allowlisted`    every `mutable` member, non-const static and pointer/reference member found in the CURRENT
                                     sources (`Gen/MutableState.lean`, regenerated on every run) is one of the reviewed entries below.
  Everything about actual races and bit-identical floating-point results is tested (tools/props/c18.py), not proved.
-/
namespace NanoVerif.C18
open NanoVerif.Reduce

/-! ### per-thread buffers -/

open NanoVerif.Pool in
/-- In every reachable state of the pool (any interleaving, any number of workers, tasks and submitters): two different
    tasks that are running at the same time were handed different worker ids, both below the pool size. Hence for ANY vector
    of per-worker buffers (`std::vector<cache_t> caches(concurrency())`, `m_accumulators`, `m_flatten_buffers`, …: one slot per
    worker id, i.e. `buffers` injective on `[0, size)`) the two tasks address different slots, and tagging a slot with the
    object that owns it (`owner`: each concurrent call has its own function / iterator / cache vector) keeps them apart. -/
theorem perthread_buffers_exclusive (s : St) (hr : Reachable s) (t1 t2 w1 w2 : Nat)
    (h1 : s.ts t1 = .running w1) (h2 : s.ts t2 = .running w2) (hne : t1 ≠ t2) :
    w1 < s.nw ∧ w2 < s.nw ∧ w1 ≠ w2 ∧
    (∀ {β : Type} (buffers : Nat → β), (∀ a b, a < s.nw → b < s.nw → buffers a = buffers b → a = b) →
      buffers w1 ≠ buffers w2) ∧
    (∀ {γ : Type} (owner : Nat → γ), (owner t1, w1) ≠ (owner t2, w2)) := by
  have hw1 := (tnum_lt_size s hr t1 w1 h1).1
  have hw2 := (tnum_lt_size s hr t2 w2 h2).1
  have hx := tnum_exclusive s hr t1 t2 w1 w2 h1 h2 hne
  refine ⟨hw1, hw2, hx, ?_, ?_⟩
  · intro β buffers hinj heq
    exact hx (hinj w1 w2 hw1 hw2 heq)
  · intro γ owner heq
    exact hx (congrArg Prod.snd heq)

open NanoVerif.Pool in
/-- The sequential path of `map` (pool of one worker, or one chunk): the caller itself runs the operator with `tnum = 0`,
    one call at a time — call `k` has been started at most once and only calls before the current position have run. -/
theorem seqpath_one_at_a_time (s : St) (hr : Reachable s) (c n i : Nat) (b : Bool) (err : Option Nat)
    (h : s.cpc c = .seq n i b err) : i ≤ n ∧ ∀ k, s.sexec c k = seqCount i b k :=
  let r := (seq_runs_each_once_in_order s hr c).1 n i b err h
  ⟨r.1, r.2.1⟩

/-! ### ml::tune: where the (trial, fold) tasks write -/

open NanoVerif.Tune NanoVerif.Tensor in
/-- offset of the sub-tensor `m_values.tensor(trial, fold)` in `m_values` (dims `(trials, folds, 2, 2, 12)`): 48 doubles per slot -/
theorem values_offset (trials folds trial fold : Nat) :
    index [trials, folds, 2, 2, 12] [trial, fold] = 48 * slot folds trial fold := by
  simp only [index, size, slot]
  have h : folds * (2 * (2 * (12 * 1))) = 48 * folds := by omega
  rw [h, ← Nat.mul_assoc, Nat.mul_comm trial 48, Nat.mul_assoc]
  omega

open NanoVerif.Tune NanoVerif.Tensor in
/-- `tune.cpp:25-41` + `result.cpp:108-125`. A batch adds `k` trials to `old` existing ones (`result.add` BEFORE the parallel
    section), then task `i < k * folds` handles `(trial, fold) = decode i` and stores into trial `old + trial`. For two different
    tasks `i ≠ j` of the batch:
      * they write different `m_extras` / `m_log_paths` slots;
      * the element ranges `[o, o + 48)` of `m_values` they write (the four `store_stats` targets `m_values.tensor(trial, fold, a, b)`,
        `a, b < 2`, 12 doubles each, tile exactly `m_values.tensor(trial, fold)`) are disjoint;
      * each range lies inside the buffer of `m_values` as resized by `add` (`(old + k) * folds * 48` elements), each slot inside `m_extras`;
      * what a task READS of the shared result — `m_params` (written only by `add`) and `extra(closest, fold)` with
        `closest < old` (`closest_trial(params, old_trials)`; `old ≥ 1` whenever a batch has several trials: the first batch of
        both tuners is the single average grid point) — is a slot no task of the batch writes. -/
theorem tune_writes_disjoint (folds old k i j : Nat) (hf : 0 < folds) (hi : i < k * folds) (hj : j < k * folds)
    (hne : i ≠ j) :
    let dims := [old + k, folds, 2, 2, 12]
    let ti := old + (decode folds i).1
    let tj := old + (decode folds j).1
    let fi := (decode folds i).2
    let fj := (decode folds j).2
    slot folds ti fi ≠ slot folds tj fj ∧
    (index dims [ti, fi] + 48 ≤ index dims [tj, fj] ∨ index dims [tj, fj] + 48 ≤ index dims [ti, fi]) ∧
    index dims [ti, fi] + size (dims0 dims 2) ≤ size dims ∧ size (dims0 dims 2) = 48 ∧
    slot folds ti fi < (old + k) * folds ∧
    (∀ closest f, closest < old → f < folds → slot folds closest f ≠ slot folds ti fi) := by
  intro dims ti tj fi fj
  obtain ⟨hdec, _⟩ := C13.decode_bijective folds k hf
  obtain ⟨hti, hfi, hsi⟩ := hdec i hi
  obtain ⟨htj, hfj, hsj⟩ := hdec j hj
  have hslot : slot folds ti fi ≠ slot folds tj fj := by
    intro h
    obtain ⟨h1, h2⟩ := C13.slots_disjoint folds ti fi tj fj hfi hfj h
    have h1' : (decode folds i).1 = (decode folds j).1 := by omega
    apply hne
    rw [← hsi, ← hsj, h1', show (decode folds i).2 = (decode folds j).2 from h2]
  have hvp : ValidPrefix dims [ti, fi] := by
    refine ⟨by omega, hfi, trivial⟩
  refine ⟨hslot, ?_, subview_in_bounds dims [ti, fi] hvp, by simp [dims, dims0, size], ?_, ?_⟩
  · rw [values_offset, values_offset]
    omega
  · have : slot folds ti fi < (old + k) * folds := by
      have := (C13.decode_bijective folds (old + k) hf).2 ti fi (by omega) hfi
      exact this.1
    exact this
  · intro closest f hc hf' h
    obtain ⟨h1, _⟩ := C13.slots_disjoint folds closest f ti fi hf' hfi h
    omega

/-! ### reductions -/

/-- `sum_reduce` after the parallel accumulation, in exact arithmetic (any commutative monoid: the scalar `m_vm1`, the
    buffers `m_gb1`, `m_gW1`, the whole `accumulator_t`): for EVERY schedule — any number `≥ 1` of workers, any assignment of
    the chunk contributions to workers, any processing order — the reduced value is the plain sum of the contributions,
    divided by the number of samples. -/
theorem sum_reduce_assignment_independent {M : Type} [AddCommMonoid M] (divN : M → Nat → M) (n : Nat)
    (contribs : List M) (sched : List (List M)) (hw : sched ≠ []) (hperm : sched.flatten.Perm contribs) :
    mapSumReduce (· + ·) 0 divN n sched = some (divN contribs.sum n) := by
  rw [mapSumReduce_eq divN n sched hw, hperm.sum_eq]

/-- two schedules of the same contributions give the same value -/
theorem sum_reduce_schedules_agree {M : Type} [AddCommMonoid M] (divN : M → Nat → M) (n : Nat)
    (sched sched' : List (List M)) (hw : sched ≠ []) (hw' : sched' ≠ []) (hperm : sched.flatten.Perm sched'.flatten) :
    mapSumReduce (· + ·) 0 divN n sched = mapSumReduce (· + ·) 0 divN n sched' := by
  rw [sum_reduce_assignment_independent divN n sched'.flatten sched hw hperm,
    sum_reduce_assignment_independent divN n sched'.flatten sched' hw' (List.Perm.refl _)]

/-- `min_reduce_feature` over the per-worker "first best" caches (reduce.h, commit 62472c9). `feats` = the features the fit
    loops over, in increasing index order, each with its candidates (thresholds, … in the fixed order of its sweep; every
    candidate carries its feature's index: `candsOf`). `sched` = per worker, the features it processed, in its order.
    Hypotheses: at least one worker (`caches` has `concurrency() ≥ 1` slots); every feature is processed by exactly one worker
    (`hperm`: the pool's contract, C17); every worker processed ITS features in increasing index order (`SchedSorted`, a
    decidable predicate — what `pool_t::map` produces for one loop over one feature list). NO hypothesis on the scores: exact
    ties between features, between thresholds of one feature, everywhere, are allowed. Then for EVERY such schedule — any
    number of workers, any distribution of the features over them — the fit selects
      * exactly the candidate ONE worker processing all features in index order selects (`cacheOf (stream feats)`), and
      * that candidate has the minimal score, and the smallest feature index among the candidates with the minimal score
        (the lexicographic minimum of (score, feature index); within its feature: the first candidate of the sweep with
        that score, by the first clause); no candidate at all iff no feature has a candidate. -/
theorem min_reduce_assignment_independent {α π : Type} [LinearOrder α] (feats : List (Feat α π))
    (hf : (feats.map Prod.fst).Pairwise (· < ·))
    (sched : List (List (Feat α π))) (hne : sched ≠ []) (hperm : sched.flatten.Perm feats) (hs : SchedSorted sched) :
    mapMinReduce (sched.map stream) = some (cacheOf (stream feats)) ∧
    (match cacheOf (stream feats) with
     | none => stream feats = []
     | some x => x ∈ stream feats ∧
        ∀ y ∈ stream feats, x.score ≤ y.score ∧ (y.score = x.score → x.feature ≤ y.feature)) := by
  obtain ⟨r, hr, hbest⟩ := mapMinReduce_sorted feats hf sched hne hperm hs
  obtain ⟨_, hseq⟩ := mapMinReduce_seq feats hf
  have heq : r = cacheOf (stream feats) := best_unique _ _ _ hbest hseq
  subst heq
  refine ⟨hr, ?_⟩
  cases hc : cacheOf (stream feats) with
  | none => exact (cacheOf_spec (stream feats)).1.mp hc
  | some x =>
    rw [hc] at hbest
    exact best_reps_lexmin feats x hbest

/-- two index-sorted schedules of the same features select the same candidate -/
theorem min_reduce_schedules_agree {α π : Type} [LinearOrder α] (feats : List (Feat α π))
    (hf : (feats.map Prod.fst).Pairwise (· < ·)) (sched sched' : List (List (Feat α π)))
    (hne : sched ≠ []) (hne' : sched' ≠ []) (hperm : sched.flatten.Perm feats) (hperm' : sched'.flatten.Perm feats)
    (hs : SchedSorted sched) (hs' : SchedSorted sched') :
    mapMinReduce (sched.map stream) = mapMinReduce (sched'.map stream) := by
  rw [(min_reduce_assignment_independent feats hf sched hne hperm hs).1,
    (min_reduce_assignment_independent feats hf sched' hne' hperm' hs').1]

/-- The TABLE learners (dense, k-best, k-split, discrete-step): since commit 5de0896 their per-worker caches use the same
    lexicographic test as `min_reduce_feature` (`updLex`), because a table fit runs two loops (single-label, then multi-label
    features) into the same caches and a worker may see feature indices out of order. NO hypothesis on the order inside a worker
    and none on the scores: `feats` = the features in any order with pairwise distinct indices, `sched` = ANY distribution of
    them over ≥ 1 workers, each worker processing its features in ANY order. The fit selects exactly what one worker processing
    `feats` in the given order selects, and that is the lexicographic minimum of (score, feature index) (within its feature: the
    first candidate of the sweep with that score). -/
theorem table_min_reduce_assignment_independent {α π : Type} [LinearOrder α] (feats : List (Feat α π))
    (hf : (feats.map Prod.fst).Nodup)
    (sched : List (List (Feat α π))) (hne : sched ≠ []) (hperm : sched.flatten.Perm feats) :
    mapMinReduceLex (sched.map stream) = some (cacheOfLex (stream feats)) ∧
    (match cacheOfLex (stream feats) with
     | none => stream feats = []
     | some x => x ∈ stream feats ∧
        ∀ y ∈ stream feats, x.score ≤ y.score ∧ (y.score = x.score → x.feature ≤ y.feature)) := by
  obtain ⟨r, hr, hbest⟩ := mapMinReduceLex_any feats hf sched hne hperm
  obtain ⟨r', hr', hbest'⟩ := mapMinReduceLex_any feats hf [feats] (by simp) (by simp)
  have hseq : r' = cacheOfLex (stream feats) := by
    have : mapMinReduceLex ([feats].map stream) = some (cacheOfLex (stream feats)) := rfl
    rw [this] at hr'
    exact (Option.some.inj hr').symm
  have heq : r = cacheOfLex (stream feats) := by rw [← hseq]; exact best_unique _ _ _ hbest hbest'
  subst heq
  refine ⟨hr, ?_⟩
  cases hc : cacheOfLex (stream feats) with
  | none =>
    rw [hc] at hbest
    have h0 : reps feats = [] := hbest
    -- no per-feature best: no candidate at all
    apply List.eq_nil_iff_forall_not_mem.mpr
    intro y hy
    unfold stream at hy
    obtain ⟨g, hg, hyg⟩ := List.mem_flatMap.mp hy
    cases hb : rep g with
    | none =>
      have : candsOf g = [] := (cacheOf_spec (candsOf g)).1.mp hb
      rw [this] at hyg
      simp at hyg
    | some b =>
      have : b ∈ reps feats := (mem_reps feats b).mpr ⟨g, hg, hb⟩
      rw [h0] at this
      simp at this
  | some x =>
    rw [hc] at hbest
    exact best_reps_lexmin feats x hbest

/-- non-vacuity for the table variant: the worker that holds the tying features 3 and 0 sees them in DEcreasing order (the two
    loops of table.cpp on a dataset whose multi-label features have the smaller indices); every schedule gives feature 0 — while
    the first-seen cache of before 5de0896 (`mapMinReduce`) gives 3 or 0 depending on the schedule -/
example :
    let m0 : Feat Nat String := (0, [(2, "m0")])
    let m1 : Feat Nat String := (1, [(7, "m1")])
    let s0 : Feat Nat String := (2, [(8, "s0")])
    let s1 : Feat Nat String := (3, [(2, "s1")])
    (([s0, s1, m0, m1] : List (Feat Nat String)).map Prod.fst).Nodup ∧
    (mapMinReduceLex ([[s0, s1, m0, m1]].map stream)).map (Option.map (·.feature)) = some (some 0) ∧
    (mapMinReduceLex ([[s1, m0], [s0, m1]].map stream)).map (Option.map (·.feature)) = some (some 0) ∧
    (mapMinReduceLex ([[s0, m1], [s1, m0]].map stream)).map (Option.map (·.feature)) = some (some 0) ∧
    (mapMinReduce ([[s0, s1, m0, m1]].map stream)).map (Option.map (·.feature)) = some (some 3) ∧
    (mapMinReduce ([[s1, m0], [s0, m1]].map stream)).map (Option.map (·.feature)) = some (some 3) ∧
    (mapMinReduce ([[s1, m1], [s0, m0]].map stream)).map (Option.map (·.feature)) = some (some 0) := by
  decide

/-- The rule BEFORE commit 62472c9 (`min_reduce`: `m_score` only, `mapMinReduceOld`) is schedule dependent under an exact
    tie, on index-sorted schedules: features 0 and 2 tie on the minimal score 5 and are processed by different workers —
    the cache of the lower worker id wins, whichever feature it holds. (DESIGN.md §6, KNOWN_FINDINGS
    `feature-tie:schedule-dependent-selection`, fixed.) So the theorem above is about the tie-break. -/
theorem old_min_reduce_schedule_dependent :
    ∃ (feats : List (Feat Nat String)) (sched sched' : List (List (Feat Nat String))),
      (feats.map Prod.fst).Pairwise (· < ·) ∧ sched.flatten.Perm feats ∧ sched'.flatten.Perm feats ∧
      SchedSorted sched ∧ SchedSorted sched' ∧
      mapMinReduceOld (sched.map stream) ≠ mapMinReduceOld (sched'.map stream) ∧
      mapMinReduce (sched.map stream) = mapMinReduce (sched'.map stream) := by
  refine ⟨[(0, [(5, "a")]), (1, [(7, "b")]), (2, [(5, "c")])],
    [[(0, [(5, "a")]), (1, [(7, "b")])], [(2, [(5, "c")])]],
    [[(2, [(5, "c")])], [(0, [(5, "a")]), (1, [(7, "b")])]], by decide, by decide, by decide, by decide, by decide, by decide,
    by decide⟩

/-- non-vacuity of the hypotheses, with an exact tie spread over two workers: features 0 and 2 both score 5 (feature 2 even
    twice, two thresholds); three index-sorted schedules, all select (5, feature 0) — also the one whose first worker holds
    feature 2 -/
example :
    let f0 : Feat Nat String := (0, [(9, "t0"), (5, "t1")])
    let f1 : Feat Nat String := (1, [(7, "u0")])
    let f2 : Feat Nat String := (2, [(5, "v0"), (5, "v1")])
    (([f0, f1, f2] : List (Feat Nat String)).map Prod.fst).Pairwise (· < ·) ∧
    SchedSorted [[f0, f1], [f2]] ∧ SchedSorted [[f2], [f0, f1]] ∧ SchedSorted [[f1, f2], [], [f0]] ∧
    ¬ SchedSorted [[f2, f0], [f1]] ∧
    (mapMinReduce ([[f0, f1], [f2]].map stream)).map (Option.map fun c => (c.score, c.feature, c.payload))
      = some (some (5, 0, "t1")) ∧
    (mapMinReduce ([[f2], [f0, f1]].map stream)).map (Option.map fun c => (c.score, c.feature, c.payload))
      = some (some (5, 0, "t1")) ∧
    (mapMinReduce ([[f1, f2], [], [f0]].map stream)).map (Option.map fun c => (c.score, c.feature, c.payload))
      = some (some (5, 0, "t1")) ∧
    -- a worker that does NOT process its features in index order keeps the first one it saw: the hypothesis is needed
    (mapMinReduce ([[f2, f0], [f1]].map stream)).map (Option.map fun c => (c.score, c.feature, c.payload))
      = some (some (5, 2, "v0")) := by
  decide

example : mapSumReduce (· + ·) 0 (fun (v : Int) n => v / n) 2 [[1, 2], [], [3, 4]] = some 5 ∧
    mapSumReduce (· + ·) 0 (fun (v : Int) n => v / n) 2 [[4], [3, 1, 2]] = some 5 ∧
    mapSumReduce (· + ·) 0 (fun (v : Int) n => v / n) 2 ([] : List (List Int)) = none := by
  decide

/-! ### one shared solver, many concurrent `minimize` calls -/

/-- `solver.cpp:94-106` (`make_lsearch` clones the prototype line-search objects for every call) in the model
    `Model/Reduce.lean` (`World`, `exec`): for EVERY interleaving `es` of the events of any number of calls on ONE shared
    solver object,
      * the prototype state of the solver is never written;
      * what call `i` holds afterwards is what it would hold had only ITS OWN events been executed (`es.filter (·.id = i)`),
        on any world with the same solver object — i.e. independent of the other calls, of what they did before and of how
        they were interleaved;
      * in particular a call started with `x0` and advanced `k` times holds `(stepFn i)^[k] (clone proto, x0)`: a function
        of (the solver object = parameters + prototypes, the call's function object `stepFn i`, `x0`) only.
    `stepFn i` is abstract: any algorithm step, reading and writing the call's line-search state and iterate. -/
theorem minimize_is_pure {σ X : Type} (clone : σ → σ) (stepFn : Nat → σ × X → σ × X) (w : World σ X) (es : List (Ev X))
    (i : Nat) :
    (run clone stepFn w es).proto = w.proto ∧
    (∀ w' : World σ X, w'.proto = w.proto → w'.loc i = w.loc i →
      (run clone stepFn w es).loc i = (run clone stepFn w' (es.filter (fun e => e.id = i))).loc i) ∧
    (∀ (x0 : X) (k : Nat), es.filter (fun e => e.id = i) = Ev.start i x0 :: List.replicate k (Ev.step i) →
      (run clone stepFn w es).loc i = some ((stepFn i)^[k] (clone w.proto, x0))) := by
  refine ⟨run_proto clone stepFn w es, ?_, ?_⟩
  · intro w' hp hl
    exact run_loc_own clone stepFn i es w w' hp.symm hl.symm
  · intro x0 k hown
    rw [run_loc_own clone stepFn i es w w rfl rfl, hown]
    show (run clone stepFn (exec clone stepFn w (Ev.start i x0)) (List.replicate k (Ev.step i))).loc i = _
    exact run_steps clone stepFn i k _ _ (by simp [exec])

/-- non-vacuity: if `make_lsearch` handed out the prototypes themselves (`runShared`), the same call would give different
    results depending on what another call does in between (state = a counter standing for `m_prevf`/`m_last_step_size`,
    step = "add the state to the iterate, bump the state") — while the cloning model gives the same answer for both
    interleavings. -/
example :
    let stepFn : Nat → Nat × Nat → Nat × Nat := fun _ p => (p.1 + 1, p.2 + p.1)
    let alone : List (Ev Nat) := [.start 0 10, .step 0, .step 0]
    let mixed : List (Ev Nat) := [.start 0 10, .start 1 7, .step 1, .step 0, .step 1, .step 0]
    (runShared stepFn (World.init 0) alone).loc 0 = some (2, 11) ∧
    (runShared stepFn (World.init 0) mixed).loc 0 = some (4, 14) ∧
    (run id stepFn (World.init 0) alone).loc 0 = some (2, 11) ∧
    (run id stepFn (World.init 0) mixed).loc 0 = some (2, 11) := by
  decide

/-! ### the reviewed list of state a `const` method can modify or that all objects share -/

open NanoVerif.Gen.MutableState in
/-- Every entry was reviewed against the sources; the reason says why concurrent use through the const interface — each
    thread with its own function object, as the property states — does not share it, or what synchronises it.
    Tags: [per-function] owned by one function object, which one thread uses; [per-call] created inside the call;
    [per-worker] a vector with one slot per worker id (`perthread_buffers_exclusive`); [sync] protected by a mutex /
    `std::call_once` / atomic; [owner] const access only calls const members of the pointee; [load] written while loading only. -/
def allow : List (Entry × String) := [
  (⟨.indirect, "include/nano/core/parallel.h", "worker_t", "m_queue", "queue_t&"⟩,
    "[sync] the pool's queue: every access to m_tasks/m_stop is under m_mutex (lock discipline checked on traces by C17)"),
  (⟨.indirect, "include/nano/dataset.h", "dataset_t", "m_generators", "rgenerators_t"⟩,
    "[owner] const dataset methods call only const generator members (select/flatten/feature); generators hold no mutable state"),
  (⟨.indirect, "include/nano/dataset.h", "dataset_t", "m_pool", "rtpool_t"⟩,
    "[sync] thread_pool() const hands out the shared pool: pool_t::map is safe for several submitters (C17: queue under its mutex)"),
  (⟨.indirect, "include/nano/factory.h", "factory_t::proto_t", "m_prototype", "trobject"⟩,
    "[owner] get() only clones the prototype (const); add() runs once under std::call_once"),
  (⟨.indirect, "include/nano/function/constraint.h", "functional_t", "m_function", "rfunction_t"⟩,
    "[per-function] the wrapped function belongs to one constraint of one function object (own fcalls counters)"),
  (⟨.indirect, "include/nano/gboost/model.h", "gboost_model_t", "m_prototypes", "rwlearners_t"⟩,
    "[owner] fit() clones each prototype per round (`prototype->clone()`), never fits the prototype itself"),
  (⟨.indirect, "include/nano/gboost/model.h", "gboost_model_t", "m_wlearners", "rwlearners_t"⟩,
    "[owner] do_predict (const) calls wlearner_t::predict (const) only; written by fit() (non-const) after the parallel section"),
  (⟨.indirect, "include/nano/gboost/result.h", "result_t", "m_wlearners", "rwlearners_t"⟩,
    "[per-call] the per-(trial, fold) booster, built inside one task and moved into its own m_extras slot (`tune_writes_disjoint`)"),
  (⟨.indirect, "include/nano/logger.h", "logger_t", "m_pimpl", "std::unique_ptr<impl_t>"⟩,
    "[per-call] ml::tune makes one file logger per (trial, fold) task; a logger object shared by concurrent calls writes to one unsynchronised std::ostream — outside the statement, the harness gives every thread its own logger"),
  (⟨.indirect, "include/nano/machine/params.h", "params_t", "m_solver", "rsolver_t"⟩,
    "[owner] solver() const returns const solver_t&: the ONE solver shared by all fold/trial tasks — see solver_t::m_lsearch0/k"),
  (⟨.indirect, "include/nano/machine/params.h", "params_t", "m_splitter", "rsplitter_t"⟩,
    "[owner] split() is const and seeds its own rng per call; called before the parallel section"),
  (⟨.indirect, "include/nano/machine/params.h", "params_t", "m_tuner", "rtuner_t"⟩,
    "[owner] optimize() is const, called by the one thread that runs ml::tune"),
  (⟨.indirect, "include/nano/solver.h", "solver_t", "m_lsearch0", "rlsearch0_t"⟩,
    "[owner] PROTOTYPE: const methods only clone() it (make_lsearch) — the non-const lsearch0_t::get (m_prevf, m_prevdg) is called on the per-call clone (`minimize_is_pure`)"),
  (⟨.indirect, "include/nano/solver.h", "solver_t", "m_lsearchk", "rlsearchk_t"⟩,
    "[owner] PROTOTYPE: const methods only clone() it (make_lsearch); lsearchk_t::get is const and keeps its state in locals"),
  (⟨.indirect, "include/nano/solver/lsearch.h", "lsearch_t", "m_lsearch0", "rlsearch0_t"⟩,
    "[per-call] the clone made by make_lsearch for this minimize call; its history (m_prevf, m_prevdg) starts fresh"),
  (⟨.indirect, "include/nano/solver/lsearch.h", "lsearch_t", "m_lsearchk", "rlsearchk_t"⟩,
    "[per-call] the clone made by make_lsearch for this minimize call"),
  (⟨.indirect, "include/nano/tensor/storage.h", "tensor_marray_storage_t", "m_data", "tscalar*"⟩,
    "[owner] a mutable map is a view: who may write through it is decided by who holds the mapped buffer (per-worker / per-call buffers, disjoint slices by C16/C17 chunks_tile)"),
  (⟨.indirect, "src/lsearchk/cgdescent.cpp", "lsearchk_cgdescent_t::interval_t", "c", "solver_state_t&"⟩,
    "[per-call] local object of one lsearchk get() call, refers to the caller's own state"),
  (⟨.mutable_, "include/nano/core/parallel.h", "queue_t", "m_condition", "std::condition_variable"⟩,
    "[sync] synchronisation primitive"),
  (⟨.mutable_, "include/nano/core/parallel.h", "queue_t", "m_mutex", "std::mutex"⟩,
    "[sync] synchronisation primitive"),
  (⟨.mutable_, "include/nano/dataset/iterator.h", "flatten_iterator_t", "m_flatten_buffers", "buffers_t"⟩,
    "[per-worker] concurrency() slots indexed by tnum; the iterator belongs to one function object / one fit call"),
  (⟨.mutable_, "include/nano/dataset/iterator.h", "select_iterator_t", "m_buffers", "buffers_t"⟩,
    "[per-worker] concurrency() slots indexed by tnum (tnum 0 on the caller's single-feature path); one iterator per weak-learner fit"),
  (⟨.mutable_, "include/nano/dataset/iterator.h", "targets_iterator_t", "m_targets_buffers", "buffers_t"⟩,
    "[per-worker] concurrency() slots indexed by tnum; the iterator belongs to one fit call"),
  (⟨.mutable_, "include/nano/feature.h", "feature_t", "m_labels", "strings_t"⟩,
    "[load] written by feature_t::set_label (const!) which datasource_t::set calls while loading, single-threaded. NOT synchronised: two threads calling set_label on a shared feature with free label slots would race — no const method of dataset/generator/model calls it; outside the operations C18 quantifies over (reported as an observation)"),
  (⟨.mutable_, "include/nano/function.h", "function_t", "m_fcalls", "tensor_size_t"⟩,
    "[per-function] call counter of one function object; each thread uses its own function object (statement of C18)"),
  (⟨.mutable_, "include/nano/function.h", "function_t", "m_gcalls", "tensor_size_t"⟩,
    "[per-function] call counter of one function object; each thread uses its own function object (statement of C18)"),
  (⟨.mutable_, "include/nano/gboost/function.h", "bias_function_t", "m_accumulators", "accumulators_t"⟩,
    "[per-function][per-worker] one slot per worker id, function object built inside one fold task"),
  (⟨.mutable_, "include/nano/gboost/function.h", "bias_function_t", "m_outputs", "tensor4d_t"⟩,
    "[per-function] written in disjoint sample ranges (chunks_tile), function object built inside one fold task"),
  (⟨.mutable_, "include/nano/gboost/function.h", "bias_function_t", "m_values", "tensor1d_t"⟩,
    "[per-function] written in disjoint sample ranges (chunks_tile), function object built inside one fold task"),
  (⟨.mutable_, "include/nano/gboost/function.h", "bias_function_t", "m_vgrads", "tensor4d_t"⟩,
    "[per-function] written in disjoint sample ranges (chunks_tile), function object built inside one fold task"),
  (⟨.mutable_, "include/nano/gboost/function.h", "grads_function_t", "m_values", "tensor1d_t"⟩,
    "[per-function] written in disjoint sample ranges (chunks_tile), function object built inside one fold task"),
  (⟨.mutable_, "include/nano/gboost/function.h", "grads_function_t", "m_vgrads", "tensor4d_t"⟩,
    "[per-function] written in disjoint sample ranges (chunks_tile), function object built inside one fold task"),
  (⟨.mutable_, "include/nano/gboost/function.h", "scale_function_t", "m_accumulators", "accumulators_t"⟩,
    "[per-function][per-worker] one slot per worker id, function object built inside one fold task"),
  (⟨.mutable_, "include/nano/gboost/function.h", "scale_function_t", "m_outputs", "tensor4d_t"⟩,
    "[per-function] written in disjoint sample ranges (chunks_tile), function object built inside one fold task"),
  (⟨.mutable_, "include/nano/gboost/function.h", "scale_function_t", "m_values", "tensor1d_t"⟩,
    "[per-function] written in disjoint sample ranges (chunks_tile), function object built inside one fold task"),
  (⟨.mutable_, "include/nano/gboost/function.h", "scale_function_t", "m_vgrads", "tensor4d_t"⟩,
    "[per-function] written in disjoint sample ranges (chunks_tile), function object built inside one fold task"),
  (⟨.mutable_, "include/nano/linear/function.h", "function_t", "m_accumulators", "accumulators_t"⟩,
    "[per-function][per-worker] one slot per worker id (linear/function.cpp:53), function object built inside one fit call"),
  (⟨.mutable_, "include/nano/solver/lsearch.h", "lsearch_t", "m_last_step_size", "scalar_t"⟩,
    "[per-call] member of the lsearch_t object that make_lsearch returns by value for this minimize call"),
  (⟨.mutable_, "include/nano/tuner/surrogate.h", "quadratic_surrogate_fit_t", "m_loss_outputs", "tensor4d_t"⟩,
    "[per-function] local function object of one surrogate tuner step, used by the tuning thread only"),
  (⟨.mutable_, "include/nano/tuner/surrogate.h", "quadratic_surrogate_fit_t", "m_loss_values", "tensor1d_t"⟩,
    "[per-function] local function object of one surrogate tuner step, used by the tuning thread only"),
  (⟨.mutable_, "include/nano/tuner/surrogate.h", "quadratic_surrogate_fit_t", "m_loss_vgrads", "tensor4d_t"⟩,
    "[per-function] local function object of one surrogate tuner step, used by the tuning thread only"),
  (⟨.mutable_, "src/lsearchk/cgdescent.cpp", "lsearchk_cgdescent_t::params_t", "m_max_iterations", "int"⟩,
    "[per-call] params_t is a local of one lsearchk get() call (make_params returns it by value)"),
  (⟨.mutable_, "src/program/solver.cpp", "solver_t::program_t", "m_ldlt", "lin_solver_t"⟩,
    "[per-call] program_t is a temporary of one solve() call"),
  (⟨.mutable_, "src/program/solver.cpp", "solver_t::program_t", "m_lmat", "matrix_t"⟩,
    "[per-call] program_t is a temporary of one solve() call"),
  (⟨.mutable_, "src/program/solver.cpp", "solver_t::program_t", "m_lsol", "vector_t"⟩,
    "[per-call] program_t is a temporary of one solve() call"),
  (⟨.mutable_, "src/program/solver.cpp", "solver_t::program_t", "m_lvec", "vector_t"⟩,
    "[per-call] program_t is a temporary of one solve() call"),
  (⟨.static_, "src/core/parallel.cpp", "nano::verif::pool_hook", "hook", "static std::atomic<pool_hook_t>"⟩,
    "[sync] verification hook H1 (NANO_VERIF builds only): an atomic function pointer"),
  (⟨.static_, "src/core/parallel.cpp", "nano::verif::trace_sink", "sink", "thread_local trace_sink_t"⟩,
    "[per-call] verification hook H2 (NANO_VERIF builds only): thread_local"),
  (⟨.static_, "src/datasource.cpp", "datasource_t::all", "flag", "static std::once_flag"⟩, "[sync] guards the registration below"),
  (⟨.static_, "src/datasource.cpp", "datasource_t::all", "manager", "static auto"⟩,
    "[sync] factory filled once under std::call_once, read-only afterwards (get() clones)"),
  (⟨.static_, "src/function.cpp", "function_t::all", "flag", "static std::once_flag"⟩, "[sync] guards the registration below"),
  (⟨.static_, "src/function.cpp", "function_t::all", "manager", "static auto"⟩,
    "[sync] factory filled once under std::call_once, read-only afterwards (get() clones)"),
  (⟨.static_, "src/generator.cpp", "generator_t::all", "flag", "static std::once_flag"⟩, "[sync] guards the registration below"),
  (⟨.static_, "src/generator.cpp", "generator_t::all", "manager", "static auto"⟩,
    "[sync] factory filled once under std::call_once, read-only afterwards (get() clones)"),
  (⟨.static_, "src/linear.cpp", "linear_t::all", "flag", "static std::once_flag"⟩, "[sync] guards the registration below"),
  (⟨.static_, "src/linear.cpp", "linear_t::all", "manager", "static auto"⟩,
    "[sync] factory filled once under std::call_once, read-only afterwards (get() clones)"),
  (⟨.static_, "src/loss.cpp", "loss_t::all", "flag", "static std::once_flag"⟩, "[sync] guards the registration below"),
  (⟨.static_, "src/loss.cpp", "loss_t::all", "manager", "static auto"⟩,
    "[sync] factory filled once under std::call_once, read-only afterwards (get() clones)"),
  (⟨.static_, "src/lsearch0.cpp", "lsearch0_t::all", "flag", "static std::once_flag"⟩, "[sync] guards the registration below"),
  (⟨.static_, "src/lsearch0.cpp", "lsearch0_t::all", "manager", "static auto"⟩,
    "[sync] factory filled once under std::call_once, read-only afterwards (get() clones)"),
  (⟨.static_, "src/lsearchk.cpp", "lsearchk_t::all", "flag", "static std::once_flag"⟩, "[sync] guards the registration below"),
  (⟨.static_, "src/lsearchk.cpp", "lsearchk_t::all", "manager", "static auto"⟩,
    "[sync] factory filled once under std::call_once, read-only afterwards (get() clones)"),
  (⟨.static_, "src/solver.cpp", "solver_t::all", "flag", "static std::once_flag"⟩, "[sync] guards the registration below"),
  (⟨.static_, "src/solver.cpp", "solver_t::all", "manager", "static auto"⟩,
    "[sync] factory filled once under std::call_once, read-only afterwards (get() clones)"),
  (⟨.static_, "src/splitter.cpp", "splitter_t::all", "flag", "static std::once_flag"⟩, "[sync] guards the registration below"),
  (⟨.static_, "src/splitter.cpp", "splitter_t::all", "manager", "static auto"⟩,
    "[sync] factory filled once under std::call_once, read-only afterwards (get() clones)"),
  (⟨.static_, "src/tuner.cpp", "tuner_t::all", "flag", "static std::once_flag"⟩, "[sync] guards the registration below"),
  (⟨.static_, "src/tuner.cpp", "tuner_t::all", "manager", "static auto"⟩,
    "[sync] factory filled once under std::call_once, read-only afterwards (get() clones)"),
  (⟨.static_, "src/wlearner.cpp", "wlearner_t::all", "flag", "static std::once_flag"⟩, "[sync] guards the registration below"),
  (⟨.static_, "src/wlearner.cpp", "wlearner_t::all", "manager", "static auto"⟩,
    "[sync] factory filled once under std::call_once, read-only afterwards (get() clones)")
]

open NanoVerif.Gen.MutableState in
/-- Every `mutable` member, non-const `static` / `thread_local` / namespace-scope variable and pointer/reference member that
    the scan finds in the CURRENT sources is one of the reviewed entries (same file, class, name and declared type).
    A new `mutable` cache on a shared object, a prototype turned into a `shared_ptr`, a new function-local `static` … makes
    this theorem fail until the new entry has been reviewed. -/
theorem mutable_state_allowlisted : ∀ e ∈ table, e ∈ allow.map (·.1) := by
  decide

open NanoVerif.Gen.MutableState in
/-- the table is not empty (the scan found the entries the property's anchors name) -/
example : (⟨.mutable_, "include/nano/solver/lsearch.h", "lsearch_t", "m_last_step_size", "scalar_t"⟩ : Entry) ∈ table ∧
    (⟨.mutable_, "include/nano/function.h", "function_t", "m_fcalls", "tensor_size_t"⟩ : Entry) ∈ table ∧
    (⟨.indirect, "include/nano/solver.h", "solver_t", "m_lsearch0", "rlsearch0_t"⟩ : Entry) ∈ table := by
  decide

/-! ### non-vacuity of the index statements -/

open NanoVerif.Tune NanoVerif.Tensor in
example : decode 3 7 = (2, 1) ∧ slot 3 (4 + 2) 1 = 19 ∧ index [4 + 3, 3, 2, 2, 12] [4 + 2, 1] = 48 * 19 ∧
    size [4 + 3, 3, 2, 2, 12] = 7 * 3 * 48 := by
  decide

end NanoVerif.C18
