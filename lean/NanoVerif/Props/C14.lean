import NanoVerif.Proofs.ScalingLemmas
import NanoVerif.Proofs.ScalingGen
import NanoVerif.Proofs.ScalingTop
import NanoVerif.Proofs.ScalingClass
import Mathlib.Tactic.Positivity
import Mathlib.Algebra.Order.Field.Rat
import Mathlib.Tactic.NormNum
/-!
  C14 — feature scaling is invertible; the un-scaled linear model is the same predictor.

  Property theorems about `Model/Scaling.lean` (the model of `src/dataset/stats.cpp`), for every linear ordered field `α`
  (exact arithmetic), every data column (`List (Option α)`, `none` = missing), every accumulator, every scaling mode.
  Conventions of the statements:
  * `hfin : ∀ y, FinTest.isFin y = true` — in exact arithmetic no computed value overflows (`nan2zero` only acts on
    missing inputs, which are `none`);
  * `0 < eps` — `epsilon2<scalar_t>()` is positive;
  * the standard deviation is `Sqrt.sqrt v`; where its value matters (`standard_unit`) the only hypotheses are
    `sqrt v * sqrt v = v` at the variance `v` of that column and `eps ≤ sqrt v`; everything else holds whatever `sqrt` returns;
  * `lo ≤ v ≤ hi` for the present values: a finite double lies within `numeric_limits::lowest()/max()`, the starting
    values of the running maximum / minimum.

  ## Gap table (gap-closing round): every function of the anchored files
  `modelled` = hand-written Lean definition run against the code; `translated` = regenerated from the source text into
  `Gen/ScalingGuards.lean` on every check and proved equal to the modelled text (`Proofs/ScalingGen.lean`, `model_*_is_generated`,
  any scalar type); `oracle` = parameter with a contract; `outside` = not in the model.

  src/dataset/stats.cpp
  | function (lines)                                   | status                | Lean                                                        |
  |----------------------------------------------------|-----------------------|-------------------------------------------------------------|
  | `::nan2zero` (10-23)                               | modelled + translated | `nan2zero` = `Gen.nan2zero` (`model_nan2zero_is_generated`)  |
  | `::make_features` (25-47), `make_sclass/mclass/scalar/struct_features` (233-251) | outside | index lists of features by kind; not used by any scaling path (C08 covers feature bookkeeping) |
  | `::make_scaling` (49-79)                           | modelled + translated | `makeScaling` = `Gen.makeScaling`; the `m_min.size() > 0` guard: see `upscaleAffine` (sizes must match, else `none`) |
  | `::update(scalar_stats_t&, values)` (81-100)       | modelled + translated | `Acc.push`, `accumulate` = fold of `Gen.updateColumn` (`model_push_is_generated`) |
  | `::done(scalar_stats_t&, enable_scaling)` (102-146)| modelled + translated | `finalize` = `Gen.doneColumn` (`model_finalize_is_generated`); ε = `Gen.epsilon2` (from numeric.h: `epsilon2`, `roundpow10`, `epsilon`), `epsilon2_pos` |
  | `::alloc_xclass_stats`, `::update(xclass_stats_t&)`, `::done(xclass_stats_t&)`, `::make_xclass_stats` ×2 (148-208), `xclass_stats_t::make_targets_stats / make_feature_stats` (452-491) | modelled | `Model/ScalingClass.lean`: `classCounts` / `incAt`, `sampleClasses`, `classWeights`, `xclassStats`, `xclassFor` (`none` = `critical0`); with `nano::make_hashes` (src/dataset/hash.cpp) = `setInsert` / `makeHashes` and `nano::find` (include/nano/dataset/hash.h) = `lowerBound` / `find`; `nano::hash` of an indicator row is an oracle (reported per sample by the harness; sclass: the label). Theorems: `makeHashes_sorted`, `mem_makeHashes`, `find_spec`, `sample_classified`, `class_weights_pos`, `class_counts_closed_form`, `xclass_counts_pos`, `xclass_weights_pos`, `class_weights_balanced`, `xclass_weights_balanced`. (No caller in the library besides test_dataset_stats.cpp; the property statement does not mention class weights.) Proved since round 5: counts = number of samples per class (`class_counts_closed_form`), every class non-empty (`xclass_counts_pos`: the hypothesis of `class_weights_pos` holds for what `make_xclass_stats` computes, `xclass_weights_pos`). and total weight per class = norm (`class_weights_balanced`, `xclass_weights_balanced`); the python oracle still checks both on every case (keys xclass-counts / xclass-balance) |
  | `nano::upscale(flatten_stats, …, weights, bias)` (211-231) | modelled      | `upscaleAffine` / `upscaleAffineRow` (the two matrix statements are Eigen expressions: compared with 1e-12·Σ|terms|) |
  | `scalar_stats_t::scalar_stats_t(dims)` (253-264)   | modelled + translated | `Acc.init` = `Gen.initColumn` (`model_init_is_generated`)     |
  | `scalar_stats_t::make_flatten_stats` (266-290)     | modelled              | `flattenStats`, `enableMask` (`enableMask_spec` against `column2feature`); batching loop: C09 `Iterator.makeStats` (`stats_batch_independent`); `dataset.flatten`: C08 |
  | `scalar_stats_t::make_targets_stats` (292-320)     | modelled              | `targetsStats` (`none` = `critical0`; mask by target kind; one entry per component of `target_dims`) |
  | `scalar_stats_t::make_feature_stats` (322-355)     | modelled              | `featureStats` (`none` = `critical0` for categorical; scalar and struct branch differ only in the buffer rank) |
  | `scalar_stats_t::scale(…, tensor2d_map_t)` (357-400)| modelled + translated| `scaleCell`, `scaleRow` = `Gen.scaleCell` (`model_scale_is_generated`); `default: throw` unreachable for the 4 enumerators (`Mode.ofNat?` = `none` ⇒ harness refuses) |
  | `scalar_stats_t::scale(…, tensor4d_map_t)` (402-407)| modelled             | `scale4` + `Dims3.off` / `get4` (row-major addressing of the reshaped tensor) |
  | `scalar_stats_t::upscale(…, tensor2d_map_t)` (409-443)| modelled + translated | `upscaleCell`, `upscaleRow` = `Gen.upscaleCell` (`model_upscale_is_generated`) |
  | `scalar_stats_t::upscale(…, tensor4d_map_t)` (445-450)| modelled           | `upscale4`                                                   |
  include/nano/dataset/stats.h: declarations of the above; the attribute list of `scalar_stats_t` is translated (`Gen.Col`, in declaration order).
  include/nano/dataset/scaling.h: `enum class scaling_type` translated (`Gen.ScalingType`, `Mode.toGen`); `enum_string` outside (C19: enum maps).
  src/linear.cpp, src/dataset/iterator.cpp (anchors): `flatten_iterator_t` statistics / scaling are run by the harness against the direct calls
  (flag in the answer) and modelled in C09 (`Model/Iterator.lean` on top of this model); `linear_t::fit / do_predict` call
  `nano::upscale` + `linear::predict`: both executed by the harness, the solver run itself is outside (C01/C11).

  `oracle` items: `Sqrt.sqrt` (`std::sqrt`: enters `standard_unit` only, as `sqrt v · sqrt v = v` at the one variance of the column — Float.sqrt in the
  driver; everything else holds whatever `sqrt` returns); `FinTest.isFin` (`std::isfinite`: always true in exact arithmetic, `Float.isFinite` in
  the driver). No other contract is left: `0 < eps` is `epsilon2_pos` for the regenerated constant; `Stats.WF` is `div_mul_one` for everything
  `done` produces. Hypotheses re-examined: `hb` (values within `[lo, hi]`) of `minmax_range` / `mean_centered` is necessary only through the
  running min/max starting values and holds for every finite double; `eps ≤ range` / `eps ≤ sd` in the second halves are necessary: below ε the
  advertised range / deviation is `range/ε` / `sd/ε`, not 1 — the regime witnesses among the examples (range `1/100000001 < ε`) and the boundary
  cases of the generator (range / deviation exactly ε, one ulp below, one ulp above) replay it on the real code.
-/
set_option linter.unusedSectionVars false

namespace NanoVerif.Scaling
open NanoVerif.Gen
variable {α : Type} [Field α] [LinearOrder α] [IsStrictOrderedRing α]

/-! ### invertibility -/

/-- `m_div_range * m_mul_range = 1` and `m_div_stdev * m_mul_stdev = 1` for every accumulator (any N, including 0 and 1,
    zero range, zero variance), enabled or not, whatever `sqrt` returns: the ε guard makes both denominators positive. -/
theorem div_mul_one [Sqrt α] (eps : α) (heps : 0 < eps) (enabled : Bool) (a : Acc α) :
    (finalize eps enabled a).divRange * (finalize eps enabled a).mulRange = 1 ∧
    (finalize eps enabled a).divSd * (finalize eps enabled a).mulSd = 1 :=
  finalize_wf eps heps enabled a

/-- `upscale(scale(x)) = x` for every finite `x` (not only the values the statistics were computed from), every mode,
    every column: constant, single-sample (`N = 1`), all-missing (`N = 0`) and disabled (categorical) columns included. -/
theorem upscale_scale_id [Sqrt α] [FinTest α] (hfin : ∀ y : α, FinTest.isFin y = true)
    (hi lo eps : α) (heps : 0 < eps) (enabled : Bool) (xs : List (Option α)) (m : Mode) (x : α) :
    upscaleCell m (columnStats hi lo eps enabled xs) (scaleCell m (columnStats hi lo eps enabled xs) (some x)) = x := by
  have hwf := finalize_wf eps heps enabled (accumulate hi lo xs)
  have h1 := scaleCell_affine hfin m (columnStats hi lo eps enabled xs) x
  obtain ⟨h2, h3⟩ := upscaleCell_affine m (columnStats hi lo eps enabled xs) hwf
    (scaleCell m (columnStats hi lo eps enabled xs) (some x))
  rw [h3, h1]
  field_simp
  ring

/-- the same for a whole sample (`scalar_stats_t::scale` then `::upscale` on one row), for any statistics whose
    `div`/`mul` pairs are inverse (`div_mul_one`: all statistics produced by `done`) -/
theorem upscale_scale_id_row [FinTest α] (hfin : ∀ y : α, FinTest.isFin y = true) (m : Mode) :
    ∀ (ss : List (Stats α)) (xs : List α), (∀ s ∈ ss, s.WF) → ss.length = xs.length →
      (scaleRow m ss (xs.map some)).bind (upscaleRow m ss) = some xs
  | [], [], _, _ => by simp [scaleRow, upscaleRow]
  | [], _ :: _, _, h => by simp at h
  | _ :: _, [], _, h => by simp at h
  | s :: ss, x :: xs, hwf, hlen => by
    have ih := upscale_scale_id_row hfin m ss xs (fun t ht => hwf t (by simp [ht])) (by simpa using hlen)
    have hl : ss.length = xs.length := by simpa using hlen
    have hcell : upscaleCell m s (scaleCell m s (some x)) = x := by
      obtain ⟨h2, h3⟩ := upscaleCell_affine m s (hwf s (by simp)) (scaleCell m s (some x))
      rw [h3, scaleCell_affine hfin m s x]
      field_simp
      ring
    simp only [scaleRow, upscaleRow, List.length_map, hl, if_true, Option.bind_some, List.length_zipWith,
      List.length_cons, min_self, Option.some.injEq] at ih ⊢
    simp only [List.map_cons, List.zipWith_cons_cons, hcell, ih]

/-! ### advertised range / mean / deviation of the scaled column -/

/-- min-max scaling maps the values the statistics were computed from into `[0, 1]`; `0` is attained, and `1` is
    attained whenever the range reaches `ε` (below that the column is treated as constant and its values stay in
    `[0, range/ε] ⊆ [0, 1)`). -/
theorem minmax_range [Sqrt α] [FinTest α] (hfin : ∀ y : α, FinTest.isFin y = true)
    (hi lo eps : α) (heps : 0 < eps) (xs : List (Option α))
    (hb : ∀ v ∈ present xs, lo ≤ v ∧ v ≤ hi) (hne : present xs ≠ []) :
    (∀ v ∈ present xs, 0 ≤ scaleCell .minmax (columnStats hi lo eps true xs) (some v) ∧
        scaleCell .minmax (columnStats hi lo eps true xs) (some v) ≤ 1) ∧
    (∃ v ∈ present xs, scaleCell .minmax (columnStats hi lo eps true xs) (some v) = 0) ∧
    (eps ≤ (columnStats hi lo eps true xs).mx - (columnStats hi lo eps true xs).mn →
      ∃ v ∈ present xs, scaleCell .minmax (columnStats hi lo eps true xs) (some v) = 1) := by
  obtain ⟨hn, -, -, hmn, hmx⟩ := accumulate_spec hi lo xs
  obtain ⟨hmin_mem, hmin_le⟩ := foldl_min_attained (present xs) hi hne (fun v hv => (hb v hv).2)
  obtain ⟨hmax_mem, hmax_ge⟩ := foldl_max_attained (present xs) lo hne (fun v hv => (hb v hv).1)
  rw [← hmn] at hmin_mem hmin_le
  rw [← hmx] at hmax_mem hmax_ge
  have hpos : 0 < (present xs).length := List.length_pos_iff.mpr hne
  by_cases h1 : (accumulate hi lo xs).n > 1
  · -- N ≥ 2
    have hs : columnStats hi lo eps true xs =
        ⟨(accumulate hi lo xs).n, (accumulate hi lo xs).mn, (accumulate hi lo xs).mx,
          (accumulate hi lo xs).sum / ((accumulate hi lo xs).n : α),
          Sqrt.sqrt (cmax (rawVar (accumulate hi lo xs)) 0),
          1 / cmax ((accumulate hi lo xs).mx - (accumulate hi lo xs).mn) eps,
          cmax ((accumulate hi lo xs).mx - (accumulate hi lo xs).mn) eps,
          1 / cmax (Sqrt.sqrt (cmax (rawVar (accumulate hi lo xs)) 0)) eps,
          cmax (Sqrt.sqrt (cmax (rawVar (accumulate hi lo xs)) 0)) eps⟩ := by
      simp [columnStats, finalize, h1]
    rw [hs]
    simp only [scaleCell, nan2zero, hfin, if_true]
    have hr : 0 < cmax ((accumulate hi lo xs).mx - (accumulate hi lo xs).mn) eps :=
      lt_of_lt_of_le heps (le_cmax_right _ _)
    refine ⟨fun v hv => ⟨?_, ?_⟩, ⟨_, hmin_mem, by simp⟩, fun he => ⟨_, hmax_mem, ?_⟩⟩
    · exact mul_nonneg (sub_nonneg.mpr (hmin_le v hv)) (le_of_lt (one_div_pos.mpr hr))
    · rw [mul_one_div, div_le_one hr]
      exact le_trans (sub_le_sub_right (hmax_ge v hv) _) (le_cmax_left _ _)
    · have : cmax ((accumulate hi lo xs).mx - (accumulate hi lo xs).mn) eps =
          (accumulate hi lo xs).mx - (accumulate hi lo xs).mn := by
        rw [cmax_eq_max]; exact max_eq_left he
      rw [this, mul_one_div, div_self]
      exact (lt_of_lt_of_le heps he).ne'
  · -- N = 1: the single value is the minimum and the maximum, the divisor is 1
    have hn1 : (accumulate hi lo xs).n = 1 := by omega
    have hs : columnStats hi lo eps true xs =
        ⟨(accumulate hi lo xs).n, (accumulate hi lo xs).mn, (accumulate hi lo xs).mx,
          (accumulate hi lo xs).sum, 0, 1, 1, 1, 1⟩ := by
      simp [columnStats, finalize, hn1]
    rw [hs]
    simp only [scaleCell, nan2zero, hfin, if_true, mul_one]
    have hall : ∀ v ∈ present xs, v = (accumulate hi lo xs).mn := by
      have hlen : (present xs).length = 1 := by omega
      match hp : present xs, hlen with
      | [w], _ =>
        intro v hv
        rw [hp] at hmin_mem
        simp only [List.mem_singleton] at hv hmin_mem
        rw [hv, hmin_mem]
    refine ⟨fun v hv => ?_, ⟨_, hmin_mem, by simp⟩, fun he => ?_⟩
    · rw [hall v hv]; simp
    · exfalso
      have h1' : (accumulate hi lo xs).mx = (accumulate hi lo xs).mn := hall _ hmax_mem
      rw [h1', sub_self] at he
      exact absurd he (not_le.mpr heps)

/-- mean scaling centres the values the statistics were computed from (their scaled values sum to 0) and, when the
    range reaches `ε`, gives them range exactly 1 (`scale(max) − scale(min) = 1`). -/
theorem mean_centered [Sqrt α] [FinTest α] (hfin : ∀ y : α, FinTest.isFin y = true)
    (hi lo eps : α) (heps : 0 < eps) (xs : List (Option α))
    (hb : ∀ v ∈ present xs, lo ≤ v ∧ v ≤ hi) (hne : present xs ≠ []) :
    ((present xs).map (fun v => scaleCell .mean (columnStats hi lo eps true xs) (some v))).sum = 0 ∧
    (eps ≤ (columnStats hi lo eps true xs).mx - (columnStats hi lo eps true xs).mn →
      scaleCell .mean (columnStats hi lo eps true xs) (some (columnStats hi lo eps true xs).mx) -
        scaleCell .mean (columnStats hi lo eps true xs) (some (columnStats hi lo eps true xs).mn) = 1) := by
  obtain ⟨hn, hsum, -, -, -⟩ := accumulate_spec hi lo xs
  have hpos : 0 < (present xs).length := List.length_pos_iff.mpr hne
  have hnz : ((present xs).length : α) ≠ 0 := by exact_mod_cast hpos.ne'
  by_cases h1 : (accumulate hi lo xs).n > 1
  · have hs : columnStats hi lo eps true xs =
        ⟨(accumulate hi lo xs).n, (accumulate hi lo xs).mn, (accumulate hi lo xs).mx,
          (accumulate hi lo xs).sum / ((accumulate hi lo xs).n : α),
          Sqrt.sqrt (cmax (rawVar (accumulate hi lo xs)) 0),
          1 / cmax ((accumulate hi lo xs).mx - (accumulate hi lo xs).mn) eps,
          cmax ((accumulate hi lo xs).mx - (accumulate hi lo xs).mn) eps,
          1 / cmax (Sqrt.sqrt (cmax (rawVar (accumulate hi lo xs)) 0)) eps,
          cmax (Sqrt.sqrt (cmax (rawVar (accumulate hi lo xs)) 0)) eps⟩ := by
      simp [columnStats, finalize, h1]
    rw [hs]
    simp only [scaleCell, nan2zero, hfin, if_true]
    refine ⟨?_, fun he => ?_⟩
    · rw [sum_map_sub_mul, hn, hsum]
      have : (present xs).sum - ((present xs).length : α) * ((present xs).sum / ((present xs).length : α)) = 0 := by
        field_simp; ring
      rw [this, zero_mul]
    · have : cmax ((accumulate hi lo xs).mx - (accumulate hi lo xs).mn) eps =
          (accumulate hi lo xs).mx - (accumulate hi lo xs).mn := by
        rw [cmax_eq_max]; exact max_eq_left he
      have hne' : (accumulate hi lo xs).mx - (accumulate hi lo xs).mn ≠ 0 := (lt_of_lt_of_le heps he).ne'
      rw [this]
      field_simp
      ring
  · have hn1 : (accumulate hi lo xs).n = 1 := by omega
    have hs : columnStats hi lo eps true xs =
        ⟨(accumulate hi lo xs).n, (accumulate hi lo xs).mn, (accumulate hi lo xs).mx,
          (accumulate hi lo xs).sum, 0, 1, 1, 1, 1⟩ := by
      simp [columnStats, finalize, hn1]
    rw [hs]
    simp only [scaleCell, nan2zero, hfin, if_true]
    have hlen : (present xs).length = 1 := by omega
    refine ⟨?_, fun he => ?_⟩
    · rw [sum_map_sub_mul, hsum, hlen]; simp
    · -- a single sample has range 0 < ε
      exfalso
      obtain ⟨-, -, -, hmn, hmx⟩ := accumulate_spec hi lo xs
      obtain ⟨hmin_mem, -⟩ := foldl_min_attained (present xs) hi hne (fun v hv => (hb v hv).2)
      obtain ⟨hmax_mem, -⟩ := foldl_max_attained (present xs) lo hne (fun v hv => (hb v hv).1)
      rw [← hmn] at hmin_mem
      rw [← hmx] at hmax_mem
      match hp : present xs, hlen with
      | [w], _ =>
        rw [hp] at hmin_mem hmax_mem
        simp only [List.mem_singleton] at hmin_mem hmax_mem
        simp only [hmin_mem, hmax_mem, sub_self] at he
        exact absurd he (not_le.mpr heps)

/-- the accumulated `Σx² − (Σx)²/N` is never negative in exact arithmetic (Cauchy–Schwarz), for any data with at least
    one present value -/
theorem var_nonneg (hi lo : α) (xs : List (Option α)) (hne : present xs ≠ []) :
    0 ≤ (accumulate hi lo xs).sum2 -
      (accumulate hi lo xs).sum * (accumulate hi lo xs).sum / ((accumulate hi lo xs).n : α) := by
  obtain ⟨hn, hsum, hsum2, -, -⟩ := accumulate_spec hi lo xs
  rw [hn, hsum, hsum2]
  exact sumSq_sub_nonneg (present xs) hne

/-- hence the clamp `std::max(variance, 0.0)` before the square root changes nothing in exact arithmetic: it only
    absorbs rounding (the repaired defect: a tiny negative rounded variance of a constant column gave `sqrt` = NaN) -/
theorem clamp_is_identity (hi lo : α) (xs : List (Option α)) (h2 : 2 ≤ (present xs).length) :
    0 ≤ rawVar (accumulate hi lo xs) ∧ cmax (rawVar (accumulate hi lo xs)) 0 = rawVar (accumulate hi lo xs) := by
  have hne : present xs ≠ [] := by intro h; rw [h] at h2; simp at h2
  have hv := var_nonneg hi lo xs hne
  obtain ⟨hn, -, -, -, -⟩ := accumulate_spec hi lo xs
  have hpos : (0 : α) < ((accumulate hi lo xs).n : α) - 1 := by
    rw [hn]
    have : (2 : α) ≤ ((present xs).length : α) := by exact_mod_cast h2
    linarith
  have h0 : 0 ≤ rawVar (accumulate hi lo xs) := div_nonneg hv (le_of_lt hpos)
  exact ⟨h0, by rw [cmax_eq_max]; exact max_eq_left h0⟩

/-- standardisation: when the standard deviation `sd` of the column (`sd·sd` = its unbiased variance) reaches `ε`,
    the scaled values of the samples the statistics were computed from have mean 0 and unbiased variance 1
    (`Σ z = 0`, `Σ z² = N − 1`). -/
theorem standard_unit [Sqrt α] [FinTest α] (hfin : ∀ y : α, FinTest.isFin y = true)
    (hi lo eps : α) (heps : 0 < eps) (xs : List (Option α)) (h2 : 2 ≤ (present xs).length)
    (hsq : Sqrt.sqrt (rawVar (accumulate hi lo xs)) * Sqrt.sqrt (rawVar (accumulate hi lo xs)) =
      rawVar (accumulate hi lo xs))
    (hge : eps ≤ Sqrt.sqrt (rawVar (accumulate hi lo xs))) :
    ((present xs).map (fun v => scaleCell .standard (columnStats hi lo eps true xs) (some v))).sum = 0 ∧
    ((present xs).map (fun v => scaleCell .standard (columnStats hi lo eps true xs) (some v) *
        scaleCell .standard (columnStats hi lo eps true xs) (some v))).sum = ((present xs).length : α) - 1 := by
  obtain ⟨hn, hsum, hsum2, -, -⟩ := accumulate_spec hi lo xs
  obtain ⟨-, hclamp⟩ := clamp_is_identity hi lo xs h2
  have hne : present xs ≠ [] := by intro h; rw [h] at h2; simp at h2
  have h1 : (accumulate hi lo xs).n > 1 := by omega
  have hsd : cmax (Sqrt.sqrt (rawVar (accumulate hi lo xs))) eps = Sqrt.sqrt (rawVar (accumulate hi lo xs)) := by
    rw [cmax_eq_max]; exact max_eq_left hge
  have hs : columnStats hi lo eps true xs =
      ⟨(accumulate hi lo xs).n, (accumulate hi lo xs).mn, (accumulate hi lo xs).mx,
        (accumulate hi lo xs).sum / ((accumulate hi lo xs).n : α),
        Sqrt.sqrt (rawVar (accumulate hi lo xs)),
        1 / cmax ((accumulate hi lo xs).mx - (accumulate hi lo xs).mn) eps,
        cmax ((accumulate hi lo xs).mx - (accumulate hi lo xs).mn) eps,
        1 / Sqrt.sqrt (rawVar (accumulate hi lo xs)),
        Sqrt.sqrt (rawVar (accumulate hi lo xs))⟩ := by
    simp [columnStats, finalize, h1, hclamp, hsd]
  rw [hs]
  simp only [scaleCell, nan2zero, hfin, if_true]
  have hn2 : (2 : α) ≤ ((present xs).length : α) := by exact_mod_cast h2
  have hnz : ((present xs).length : α) ≠ 0 := by linarith
  have hn1 : ((present xs).length : α) - 1 ≠ 0 := by linarith
  have hsdpos : 0 < Sqrt.sqrt (rawVar (accumulate hi lo xs)) := lt_of_lt_of_le heps hge
  constructor
  · rw [sum_map_sub_mul, hn, hsum]
    have : (present xs).sum - ((present xs).length : α) * ((present xs).sum / ((present xs).length : α)) = 0 := by
      field_simp; ring
    rw [this, zero_mul]
  · -- Σ ((v − m)/sd)² = (Σ (v − m)²)/sd² = (Σx² − (Σx)²/N)/var = N − 1
    have hre : ∀ v : α, (v - (accumulate hi lo xs).sum / ((accumulate hi lo xs).n : α)) *
          (1 / Sqrt.sqrt (rawVar (accumulate hi lo xs))) *
        ((v - (accumulate hi lo xs).sum / ((accumulate hi lo xs).n : α)) *
          (1 / Sqrt.sqrt (rawVar (accumulate hi lo xs)))) =
        (v - (accumulate hi lo xs).sum / ((accumulate hi lo xs).n : α)) *
          (v - (accumulate hi lo xs).sum / ((accumulate hi lo xs).n : α)) *
          (1 / rawVar (accumulate hi lo xs)) :=
      fun v => sq_div_aux _ _ _ hsq hsdpos.ne'
    simp only [hre]
    rw [sum_map_mul_right (present xs)
      (fun v => (v - (accumulate hi lo xs).sum / ((accumulate hi lo xs).n : α)) *
        (v - (accumulate hi lo xs).sum / ((accumulate hi lo xs).n : α)))]
    rw [hn, hsum, ← sumSq_sub_eq (present xs) hne]
    have hvar : rawVar (accumulate hi lo xs) =
        (sumSq (present xs) - (present xs).sum * (present xs).sum / ((present xs).length : α)) /
          (((present xs).length : α) - 1) := by
      simp only [rawVar, hn, hsum, hsum2]
    have hvpos : 0 < rawVar (accumulate hi lo xs) := by rw [← hsq]; exact mul_pos hsdpos hsdpos
    rw [hvar] at hvpos ⊢
    have hnum : sumSq (present xs) - (present xs).sum * (present xs).sum / ((present xs).length : α) ≠ 0 := by
      intro h0
      rw [h0, zero_div] at hvpos
      exact lt_irrefl _ hvpos
    exact mul_inv_div_aux _ _ hnum hn1

/-! ### categorical columns and missing values -/

/-- a column whose scaling is disabled (flatten column of a single-label or multi-label feature, or any target column of a
    classification task) is never rescaled: `scale` and `upscale` are the identity on it in every mode, for any data -/
theorem categorical_identity [Sqrt α] [FinTest α] (hfin : ∀ y : α, FinTest.isFin y = true)
    (hi lo eps : α) (xs : List (Option α)) (m : Mode) (x : α) :
    scaleCell m (columnStats hi lo eps false xs) (some x) = x ∧
    upscaleCell m (columnStats hi lo eps false xs) x = x := by
  cases m <;> simp [columnStats, finalize, scaleCell, upscaleCell, nan2zero, hfin]

/-- a missing value is scaled to 0 in every mode, and the statistics are those of the present values alone -/
theorem missing_to_zero_and_ignored [Sqrt α] [FinTest α] (hi lo eps : α) (enabled : Bool) (xs : List (Option α))
    (m : Mode) (s : Stats α) :
    scaleCell m s none = 0 ∧
    columnStats hi lo eps enabled xs = columnStats hi lo eps enabled ((present xs).map some) ∧
    (accumulate hi lo xs).n = (present xs).length := by
  refine ⟨rfl, ?_, (accumulate_spec hi lo xs).1⟩
  unfold columnStats
  rw [accumulate_present]

/-! ### the converted linear model is the same predictor -/

/-- one output of `nano::upscale(...)`: for every weight row `w`, bias `b`, input statistics `fs` (any), target
    statistics `t` with inverse `div`/`mul` pairs, every pair of modes and every finite raw input `x`:
    `w'·x + b' = upscale_t(w·scale_x(x) + b)`. -/
theorem affine_upscale_same_predictor_row [FinTest α] (hfin : ∀ y : α, FinTest.isFin y = true)
    (fm tm : Mode) (fs : List (Stats α)) (t : Stats α) (ht : t.WF) (w x : List α) (b : α)
    (hw : w.length = fs.length) (hx : x.length = fs.length) :
    dot (upscaleAffineRow ((fs.map (makeScaling fm)).map Prod.fst) ((fs.map (makeScaling fm)).map Prod.snd)
          (makeScaling tm t).1 (makeScaling tm t).2 w b).1 x +
      (upscaleAffineRow ((fs.map (makeScaling fm)).map Prod.fst) ((fs.map (makeScaling fm)).map Prod.snd)
          (makeScaling tm t).1 (makeScaling tm t).2 w b).2 =
    upscaleCell tm t (dot w (List.zipWith (scaleCell fm) fs (x.map some)) + b) :=
  affine_row hfin fm tm fs t ht w x b hw hx

/-- `nano::upscale(flatten_stats, flatten_scaling, targets_stats, targets_scaling, W, b)`, n-dimensional: whenever the
    call is legal (its three size asserts) it yields `(W', b')` such that for **every** finite raw input `x`
    `W' x + b' = upscale_targets(W · scale_inputs(x) + b)`, for each of the 4×4 mode pairs, any input statistics and any
    target statistics with inverse `div`/`mul` pairs (`div_mul_one`: everything `done` produces). -/
theorem affine_upscale_same_predictor [FinTest α] (hfin : ∀ y : α, FinTest.isFin y = true)
    (fm tm : Mode) (fs ts : List (Stats α)) (hts : ∀ t ∈ ts, t.WF)
    (W : List (List α)) (b : List α) (W' : List (List α)) (b' : List α)
    (h : upscaleAffine fm fs tm ts W b = some (W', b')) (x : List α) (hx : x.length = fs.length) :
    (scaleRow fm fs (x.map some)).bind (fun sx => upscaleRow tm ts (predict W b sx)) = some (predict W' b' x) := by
  unfold upscaleAffine at h
  split at h
  · rename_i hg
    obtain ⟨hb, hW, hr⟩ := hg
    simp only [Option.some.injEq, Prod.mk.injEq] at h
    obtain ⟨hW', hb'⟩ := h
    have hr' : ∀ r ∈ W, r.length = fs.length := by
      intro r hr0
      have := List.all_eq_true.mp hr r hr0
      simpa using this
    have hrows := predict_rows hfin fm tm fs x hx ts W b hts hb hW hr'
    rw [← hW', ← hb', hrows]
    have hlen : ts.length = (predict W b (List.zipWith (scaleCell fm) fs (x.map some))).length := by
      simp [predict, hb, hW]
    simp [scaleRow, upscaleRow, hx, hlen]
  · cases h

/-- the same with both lists of statistics computed by `make_*_stats` from arbitrary data (any columns, any enable
    masks, any missing-value patterns, constant / single-sample / empty columns included): no hypothesis on the
    statistics is left -/
theorem affine_upscale_same_predictor_of_data [Sqrt α] [FinTest α] (hfin : ∀ y : α, FinTest.isFin y = true)
    (hi lo eps : α) (heps : 0 < eps) (fm tm : Mode) (fdata tdata : List (Bool × List (Option α)))
    (W : List (List α)) (b : List α) (W' : List (List α)) (b' : List α)
    (h : upscaleAffine fm (fdata.map (fun d => columnStats hi lo eps d.1 d.2)) tm
      (tdata.map (fun d => columnStats hi lo eps d.1 d.2)) W b = some (W', b'))
    (x : List α) (hx : x.length = fdata.length) :
    (scaleRow fm (fdata.map (fun d => columnStats hi lo eps d.1 d.2)) (x.map some)).bind
      (fun sx => upscaleRow tm (tdata.map (fun d => columnStats hi lo eps d.1 d.2)) (predict W b sx)) =
    some (predict W' b' x) := by
  refine affine_upscale_same_predictor hfin fm tm _ _ ?_ W b W' b' h x (by simpa using hx)
  intro t ht
  obtain ⟨d, -, rfl⟩ := List.mem_map.mp ht
  exact finalize_wf eps heps d.1 (accumulate hi lo d.2)

/-- the converse guard: with mismatching sizes (where the C++ `assert`s fire) the model refuses -/
theorem affine_upscale_guard (fm tm : Mode) (fs ts : List (Stats α)) (W : List (List α)) (b : List α)
    (h : b.length ≠ ts.length) : upscaleAffine fm fs tm ts W b = none := by
  unfold upscaleAffine
  simp [h]


/-! ### gap-closing round: the ε guards regime by regime, the source text, one-pass variance, entry points, 4-D targets -/

/-- `div_mul_one` over **the case split `::done` makes** (stats.cpp:106-145), with the exact value of every (de)normaliser:
    masked component; `N = 0`; `N = 1`; `N ≥ 2` with the range below / at-or-above `ε` and the deviation below / at-or-above `ε`
    (a range or deviation of exactly `ε` is in the "at-or-above" regime and gives `ε` either way). In every regime the products are
    exactly 1 and the multipliers positive. (Seeded changes this pins: finalisation for `N > 2` only; multipliers guarded by the
    deviation while the divisors keep the range clamp; categorical components with one sample; dropped variance clamp.) -/
theorem div_mul_one_regimes [Sqrt α] (eps : α) (heps : 0 < eps) (enabled : Bool) (a : Acc α) :
    (enabled = false → finalize eps enabled a = ⟨a.n, 0, 0, 0, 0, 1, 1, 1, 1⟩) ∧
    (enabled = true → a.n = 0 → finalize eps enabled a = ⟨a.n, 0, 0, 0, 0, 1, 1, 1, 1⟩) ∧
    (enabled = true → a.n = 1 → finalize eps enabled a = ⟨a.n, a.mn, a.mx, a.sum, 0, 1, 1, 1, 1⟩) ∧
    (enabled = true → 2 ≤ a.n →
      (finalize eps enabled a).n = a.n ∧ (finalize eps enabled a).mn = a.mn ∧ (finalize eps enabled a).mx = a.mx ∧
      (finalize eps enabled a).mean = a.sum / (a.n : α) ∧
      (finalize eps enabled a).sd = Sqrt.sqrt (cmax (rawVar a) 0) ∧
      (a.mx - a.mn < eps → (finalize eps enabled a).mulRange = eps ∧ (finalize eps enabled a).divRange = 1 / eps) ∧
      (eps ≤ a.mx - a.mn → (finalize eps enabled a).mulRange = a.mx - a.mn ∧
        (finalize eps enabled a).divRange = 1 / (a.mx - a.mn)) ∧
      ((finalize eps enabled a).sd < eps → (finalize eps enabled a).mulSd = eps ∧ (finalize eps enabled a).divSd = 1 / eps) ∧
      (eps ≤ (finalize eps enabled a).sd → (finalize eps enabled a).mulSd = (finalize eps enabled a).sd ∧
        (finalize eps enabled a).divSd = 1 / (finalize eps enabled a).sd)) ∧
    ((finalize eps enabled a).divRange * (finalize eps enabled a).mulRange = 1 ∧
      (finalize eps enabled a).divSd * (finalize eps enabled a).mulSd = 1 ∧
      0 < (finalize eps enabled a).mulRange ∧ 0 < (finalize eps enabled a).mulSd) := by
  refine ⟨?_, ?_, ?_, ?_, ?_⟩
  · rintro rfl; simp [finalize]
  · rintro rfl h0; simp [finalize, h0]
  · rintro rfl h1; simp [finalize, h1]
  · rintro rfl h2
    have h1 : a.n > 1 := by omega
    simp only [finalize, h1, if_true, true_and]
    refine ⟨fun h => ?_, fun h => ?_, fun h => ?_, fun h => ?_⟩
    · rw [cmax_of_lt h]; exact ⟨rfl, rfl⟩
    · rw [cmax_of_le h]; exact ⟨rfl, rfl⟩
    · rw [cmax_of_lt h]; exact ⟨rfl, rfl⟩
    · rw [cmax_of_le h]; exact ⟨rfl, rfl⟩
  · obtain ⟨h1, h2⟩ := finalize_wf eps heps enabled a
    refine ⟨h1, h2, ?_, ?_⟩
    · unfold finalize
      cases enabled
      · simp
      · simp only [if_true]
        split
        · exact lt_of_lt_of_le heps (le_cmax_right _ _)
        · split <;> simp
    · unfold finalize
      cases enabled
      · simp
      · simp only [if_true]
        split
        · exact lt_of_lt_of_le heps (le_cmax_right _ _)
        · split <;> simp

/-- `epsilon2<scalar_t>()` as regenerated from `numeric.h` (10⁻⁸) is positive: the hypothesis `0 < eps` of every theorem above
    holds for the constant the code uses -/
theorem epsilon2_pos : (0 : α) < ScalingGuards.epsilon2 := by
  unfold ScalingGuards.epsilon2
  positivity

/-- `div_mul_one` **about the source text**: the body of the loop of `::done` as regenerated from `stats.cpp`
    (`Gen.ScalingGuards.doneColumn`), with the regenerated `epsilon2`, on any accumulated component, masked or not. -/
theorem div_mul_one_generated [Sqrt α] (masked : Bool) (a : Acc α) :
    (ScalingGuards.doneColumn Sqrt.sqrt ScalingGuards.epsilon2 masked a.toCol).div_range *
      (ScalingGuards.doneColumn Sqrt.sqrt ScalingGuards.epsilon2 masked a.toCol).mul_range = 1 ∧
    (ScalingGuards.doneColumn Sqrt.sqrt ScalingGuards.epsilon2 masked a.toCol).div_stdev *
      (ScalingGuards.doneColumn Sqrt.sqrt ScalingGuards.epsilon2 masked a.toCol).mul_stdev = 1 := by
  have h := model_finalize_is_generated (ScalingGuards.epsilon2 : α) (!masked) a
  rw [Bool.not_not] at h
  have hwf := finalize_wf (ScalingGuards.epsilon2 : α) epsilon2_pos (!masked) a
  rw [h] at hwf
  exact hwf

/-- invertibility **about the source text**: the regenerated `switch` of `scalar_stats_t::upscale` undoes the regenerated
    `switch` of `scalar_stats_t::scale` on every finite value, for statistics produced by the regenerated `::update` fold /
    `::done` body with the regenerated `epsilon2` — every mode, every data column, masked or not. -/
theorem upscale_scale_id_generated [Sqrt α] [FinTest α] (hfin : ∀ y : α, FinTest.isFin y = true)
    (hi lo : α) (masked : Bool) (xs : List (Option α)) (m : Mode) (x : α) :
    ScalingGuards.upscaleCell m.toGen
        (ScalingGuards.doneColumn Sqrt.sqrt ScalingGuards.epsilon2 masked (accumulate hi lo xs).toCol)
      (ScalingGuards.scaleCell FinTest.isFin m.toGen
        (ScalingGuards.doneColumn Sqrt.sqrt ScalingGuards.epsilon2 masked (accumulate hi lo xs).toCol) x) = x := by
  have h := model_finalize_is_generated (ScalingGuards.epsilon2 : α) (!masked) (accumulate hi lo xs)
  rw [Bool.not_not] at h
  have hid := upscale_scale_id hfin hi lo (ScalingGuards.epsilon2 : α) epsilon2_pos (!masked) xs m x
  rw [model_upscale_is_generated, model_scale_is_generated] at hid
  have hc : (columnStats hi lo (ScalingGuards.epsilon2 : α) (!masked) xs).toCol =
      ScalingGuards.doneColumn Sqrt.sqrt ScalingGuards.epsilon2 masked (accumulate hi lo xs).toCol := by
    unfold columnStats
    rw [h]
    rfl
  rw [hc] at hid
  exact hid

/-- the one-pass formula the code accumulates, `(Σx² − (Σx)²/N)/(N − 1)`, IS the two-pass definition of the unbiased variance,
    `Σ(x − x̄)²/(N − 1)` with `x̄ = Σx/N`, exactly (any ordered field). At `Float` the one-pass form cancels: the oracle allows
    `1e-15·(N + 10)·Σx²` on `(N − 1)·variance` against the exactly (rationally) evaluated two-pass value. -/
theorem onepass_eq_twopass (hi lo : α) (xs : List (Option α)) (hne : present xs ≠ []) :
    rawVar (accumulate hi lo xs) =
      ((present xs).map (fun x => (x - (present xs).sum / ((present xs).length : α)) *
        (x - (present xs).sum / ((present xs).length : α)))).sum / (((present xs).length : α) - 1) := by
  obtain ⟨hn, hsum, hsum2, -, -⟩ := accumulate_spec hi lo xs
  simp only [rawVar, hn, hsum, hsum2]
  rw [sumSq_sub_eq (present xs) hne]

/-! ### the entry points: which components are rescaled -/

/-- `make_flatten_stats`: a flatten column owned (through `column2feature`) by a single-label or multi-label feature gets the
    identity statistics whatever data it holds (one valid sample, constant, anything), and `scale` / `upscale` leave every finite
    value of it unchanged in every mode; a column owned by a continuous feature gets `columnStats` of that column alone. -/
theorem flatten_categorical_never_rescaled [Sqrt α] [FinTest α] (hfin : ∀ y : α, FinTest.isFin y = true)
    (hi lo eps : α) (fs : List Feat) (rows : List (List (Option α))) (c i : Nat) (f : Feat)
    (hc : column2feature fs c = some i) (hf : fs[i]? = some f) :
    (f.isClass = true → ∃ s, (flattenStats hi lo eps fs rows)[c]? = some s ∧
        s = ⟨(accumulate hi lo (colOf rows c)).n, 0, 0, 0, 0, 1, 1, 1, 1⟩ ∧
        ∀ (m : Mode) (x : α), scaleCell m s (some x) = x ∧ upscaleCell m s x = x) ∧
    (f.isClass = false → (flattenStats hi lo eps fs rows)[c]? = some (columnStats hi lo eps true (colOf rows c))) := by
  obtain ⟨g, hg, hm⟩ := enableMask_spec fs c i hc
  rw [hf] at hg
  cases hg
  have hs := statsOfMask_getElem? hi lo eps (enableMask fs) rows c
  rw [hm] at hs
  simp only [Option.map_some] at hs
  constructor
  · intro hcl
    rw [hcl] at hs
    refine ⟨_, hs, by simp [columnStats, finalize], fun m x => ?_⟩
    exact categorical_identity hfin hi lo eps (colOf rows c) m x
  · intro hcl
    rw [hcl] at hs
    exact hs

/-- `make_targets_stats` refuses an unsupervised dataset, rescales no component of a classification target and every component
    of a regression target; `make_feature_stats` refuses a categorical feature (the two `critical0`). -/
theorem targets_and_feature_stats_guards [Sqrt α] (hi lo eps : α) (t : Feat) (rows : List (List (Option α))) :
    targetsStats hi lo eps none rows = none ∧
    (∀ c, c < t.cols → ((targetsStats hi lo eps (some t) rows).bind (fun ss => ss[c]?)) =
      some (columnStats hi lo eps (!t.isClass) (colOf rows c))) ∧
    (t.isClass = true → featureStats hi lo eps t rows = none) ∧
    (t.isClass = false → ∀ c, c < t.cols → ((featureStats hi lo eps t rows).bind (fun ss => ss[c]?)) =
      some (columnStats hi lo eps true (colOf rows c))) := by
  refine ⟨rfl, fun c hc => ?_, fun h => by simp [featureStats, h], fun h c hc => ?_⟩
  · simp only [targetsStats, Option.bind_some, statsOfMask_getElem?]
    simp [hc]
  · simp only [featureStats, h, Bool.false_eq_true, if_false, Option.bind_some, statsOfMask_getElem?]
    simp [hc]

/-! ### structured (4-D) targets and features -/

/-- scaling of structured targets / features with dims `(d1, d2, d3)` is **component-wise**: the statistics of component
    `(i, j, k)` are `columnStats` of the values at `(i, j, k)` of the samples alone (column `off i j k` of the reshaped matrix;
    distinct components own distinct columns below `size`), and `scale(scaling, tensor4d)` maps the element `(s, i, j, k)` through
    `scaleCell` with exactly those statistics, for every sample `s` — whenever the call is legal (every sample has `size` values). -/
theorem targets_scaling_componentwise [Sqrt α] [FinTest α] (hi lo eps : α) (en : Bool) (d : Dims3) (m : Mode)
    (rows t : List (List (Option α))) (t' : List (List α))
    (h : scale4 m (statsOfMask hi lo eps (List.replicate d.size en) rows) t = some t')
    (s i j k : Nat) (hi' : i < d.d1) (hj : j < d.d2) (hk : k < d.d3) :
    d.off i j k < d.size ∧
    (∀ i' j' k', j' < d.d2 → k' < d.d3 → d.off i j k = d.off i' j' k' → i = i' ∧ j = j' ∧ k = k') ∧
    (statsOfMask hi lo eps (List.replicate d.size en) rows)[d.off i j k]? =
      some (columnStats hi lo eps en (rows.map (fun r => (r[d.off i j k]?).join))) ∧
    get4 d t' s i j k = ((t[s]?).map (fun r => (r[d.off i j k]?).join)).map
      (scaleCell m (columnStats hi lo eps en (rows.map (fun r => (r[d.off i j k]?).join)))) := by
  have hlt := d.off_lt i j k hi' hj hk
  have hst : (statsOfMask hi lo eps (List.replicate d.size en) rows)[d.off i j k]? =
      some (columnStats hi lo eps en (rows.map (fun r => (r[d.off i j k]?).join))) := by
    rw [statsOfMask_getElem?]
    simp [hlt, colOf]
  refine ⟨hlt, fun i' j' k' hj' hk' he => d.off_inj i j k i' j' k' hj hk hj' hk' he, hst, ?_⟩
  obtain ⟨-, hget⟩ := mapM_some_getElem? _ t t' h
  unfold get4
  rw [hget s]
  cases hts : t[s]? with
  | none => simp
  | some r =>
    simp only [Option.bind_some, Option.map_some]
    unfold scaleRow
    split
    · rename_i hlen
      simp only [Option.bind_some, List.getElem?_zipWith]
      have hlen' : d.size = r.length := by simpa [statsOfMask_length] using hlen
      have hr : d.off i j k < r.length := by omega
      rw [hst]
      simp [List.getElem?_eq_getElem hr]
    · -- an ill-sized sample makes the whole call illegal: contradiction with `h`
      exfalso
      have := hget s
      rw [hts] at this
      simp only [Option.bind_some] at this
      unfold scaleRow at this
      rename_i hlen
      simp only [hlen, if_false] at this
      have hl := (mapM_some_getElem? _ t t' h).1
      have hs : s < t.length := by
        by_contra hn
        rw [List.getElem?_eq_none (by omega)] at hts
        cases hts
      rw [List.getElem?_eq_getElem (by omega)] at this
      cases this

/-- `upscale(scaling, tensor4d)` undoes `scale(scaling, tensor4d)` on finite 4-D values, for the statistics of any data -/
theorem targets_roundtrip4 [Sqrt α] [FinTest α] (hfin : ∀ y : α, FinTest.isFin y = true) (hi lo eps : α) (heps : 0 < eps)
    (mask : List Bool) (m : Mode) (rows : List (List (Option α))) :
    ∀ (t : List (List α)), (∀ r ∈ t, r.length = mask.length) →
      (scale4 m (statsOfMask hi lo eps mask rows) (t.map (fun r => r.map some))).bind
        (upscale4 m (statsOfMask hi lo eps mask rows)) = some t
  | [], _ => by simp [scale4, upscale4]
  | r :: t, hl => by
    have ih := targets_roundtrip4 hfin hi lo eps heps mask m rows t (fun r' h' => hl r' (by simp [h']))
    have hrow := upscale_scale_id_row hfin m (statsOfMask hi lo eps mask rows) r
      (statsOfMask_wf hi lo eps heps mask rows) (by rw [statsOfMask_length]; exact (hl r (by simp)).symm)
    simp only [scale4, upscale4] at ih ⊢
    simp only [List.map_cons, List.mapM_cons]
    cases hs : scaleRow m (statsOfMask hi lo eps mask rows) (r.map some) with
    | none => simp [hs] at hrow
    | some sr =>
      simp only [hs, Option.bind_some] at hrow
      cases hst : (t.map (fun r => r.map some)).mapM (scaleRow m (statsOfMask hi lo eps mask rows)) with
      | none => simp [hst] at ih
      | some st =>
        simp only [hst, Option.bind_some] at ih
        have ih' : List.mapM (upscaleRow m (statsOfMask hi lo eps mask rows)) st = some t := ih
        show List.mapM (upscaleRow m (statsOfMask hi lo eps mask rows)) (sr :: st) = some (r :: t)
        rw [List.mapM_cons, hrow, ih']
        rfl


/-! ### class statistics (`xclass_stats_t`) -/

/-- the class-balancing weights are positive: with every class count `≥ 1` (each class hash comes from a present sample, which
    `find` maps to that class: `sample_classified`), `norm = 1/Σ_c 1/count_c > 0` and every classified sample gets
    `norm / count_c > 0`; a sample without class gets exactly 0. -/
theorem class_weights_pos (counts : List Nat) (hpos : ∀ n ∈ counts, 1 ≤ n) (hne : counts ≠ []) (classes : List Int) :
    ∀ p ∈ List.zip classes (classWeights (α := α) counts classes),
      (p.1 < 0 → p.2 = 0) ∧ (0 ≤ p.1 → p.1.toNat < counts.length → 0 < p.2) := by
  have hsum : ∀ (l : List Nat) (acc : α), (∀ n ∈ l, 1 ≤ n) → 0 ≤ acc → (l ≠ [] ∨ 0 < acc) →
      0 < (l.map (fun (n : Nat) => (1 : α) / ((n : Nat) : α))).foldl (· + ·) acc := by
    intro l
    induction l with
    | nil => intro acc _ _ h; rcases h with h | h; exact absurd rfl h; simpa using h
    | cons n l ih =>
      intro acc hl hacc _
      have hn : (0 : α) < (n : α) := by
        have : 1 ≤ n := hl n (by simp)
        exact_mod_cast this
      have h1 : (0 : α) < 1 / (n : α) := one_div_pos.mpr hn
      simp only [List.map_cons, List.foldl_cons]
      exact ih _ (fun m hm => hl m (by simp [hm])) (by linarith) (Or.inr (by linarith))
  have hnorm : (0 : α) < 1 / (counts.map (fun (n : Nat) => (1 : α) / ((n : Nat) : α))).foldl (· + ·) 0 :=
    one_div_pos.mpr (hsum counts 0 hpos le_rfl (Or.inl hne))
  intro p hp
  unfold classWeights at hp
  rw [List.zip_map_right] at hp
  simp only [List.mem_map] at hp
  obtain ⟨q, hq, rfl⟩ := hp
  have hq' : q.1 = q.2 := by
    have := List.mem_iff_getElem.mp hq
    obtain ⟨i, hi, he⟩ := this
    simp only [List.getElem_zip] at he
    rw [← he]
  simp only [Prod.map_fst, id_eq, Prod.map_snd]
  rw [← hq']
  constructor
  · intro hneg
    simp [not_le.mpr hneg]
  · intro h0 hlt
    simp only [h0, if_true]
    apply div_pos hnorm
    have hmem : counts.getD q.1.toNat 0 ∈ counts := by
      have : counts.getD q.1.toNat 0 = counts[q.1.toNat] := by simp [List.getD_eq_getElem?_getD, hlt]
      rw [this]
      exact List.getElem_mem hlt
    have : 1 ≤ counts.getD q.1.toNat 0 := hpos _ hmem
    exact_mod_cast this

/-! ### non-vacuity (ℚ; `sqrt` on the one value that occurs) -/

section examples

local instance : Sqrt ℚ := ⟨fun v => if v = 1 then 1 else 0⟩
local instance : FinTest ℚ := ⟨fun _ => true⟩

/-- the data `1, missing, 3, 2`: N = 3, mean 2, variance 1, range 2 — every hypothesis of the theorems above holds -/
def exData : List (Option ℚ) := [some 1, none, some 3, some 2]

example : present exData = [1, 3, 2] := rfl
example : ∀ v ∈ present exData, (-100 : ℚ) ≤ v ∧ v ≤ 100 := by
  intro v hv; simp [exData, present] at hv; rcases hv with rfl | rfl | rfl <;> norm_num
example : rawVar (accumulate (100 : ℚ) (-100) exData) = 1 := by
  norm_num [exData, accumulate, Acc.init, Acc.push, rawVar, cmin, cmax]
example : Sqrt.sqrt (rawVar (accumulate (100 : ℚ) (-100) exData)) *
    Sqrt.sqrt (rawVar (accumulate (100 : ℚ) (-100) exData)) = rawVar (accumulate (100 : ℚ) (-100) exData) ∧
    (1 / 100000000 : ℚ) ≤ Sqrt.sqrt (rawVar (accumulate (100 : ℚ) (-100) exData)) := by
  norm_num [exData, accumulate, Acc.init, Acc.push, rawVar, cmin, cmax, Sqrt.sqrt]
/-- the statistics `done` computes for it: min 1, max 3, mean 2, stdev 1, 1/range, range, 1/stdev, stdev -/
example : columnStats (100 : ℚ) (-100) (1 / 100000000) true exData = ⟨3, 1, 3, 2, 1, 1 / 2, 2, 1, 1⟩ := by
  norm_num [exData, columnStats, finalize, accumulate, Acc.init, Acc.push, rawVar, cmin, cmax, Sqrt.sqrt]
/-- a constant column (the shape of the repaired defect): variance 0, stdev 0, divisors 1/ε, multipliers ε, and the
    round trip still returns the value -/
example : columnStats (100 : ℚ) (-100) (1 / 100000000) true [some (1 / 10), some (1 / 10), some (1 / 10)] =
    ⟨3, 1 / 10, 1 / 10, 1 / 10, 0, 100000000, 1 / 100000000, 100000000, 1 / 100000000⟩ := by
  norm_num [columnStats, finalize, accumulate, Acc.init, Acc.push, rawVar, cmin, cmax, Sqrt.sqrt]
example : upscaleCell .standard (columnStats (100 : ℚ) (-100) (1 / 100000000) true [some (1 / 10), some (1 / 10), some (1 / 10)])
    (scaleCell .standard (columnStats (100 : ℚ) (-100) (1 / 100000000) true [some (1 / 10), some (1 / 10), some (1 / 10)])
      (some (7 / 3))) = 7 / 3 :=
  upscale_scale_id (fun _ => rfl) 100 (-100) (1 / 100000000) (by norm_num) true _ .standard (7 / 3)
/-! the regimes of `div_mul_one_regimes`, one witness each (ε = 10⁻⁸; the local `sqrt` returns 0 except at 1) -/
/-- range exactly ε (N = 2): the "at-or-above" regime, multiplier = range = ε -/
example : (columnStats (100 : ℚ) (-100) (1 / 100000000) true [some 0, some (1 / 100000000)]).mulRange = 1 / 100000000 ∧
    (columnStats (100 : ℚ) (-100) (1 / 100000000) true [some 0, some (1 / 100000000)]).divRange = 100000000 := by
  norm_num [columnStats, finalize, accumulate, Acc.init, Acc.push, rawVar, cmin, cmax, Sqrt.sqrt]
/-- range just below ε: clamped to ε -/
example : (columnStats (100 : ℚ) (-100) (1 / 100000000) true [some 0, some (1 / 100000001)]).mulRange = 1 / 100000000 := by
  norm_num [columnStats, finalize, accumulate, Acc.init, Acc.push, rawVar, cmin, cmax, Sqrt.sqrt]
/-- range just above ε: the range itself -/
example : (columnStats (100 : ℚ) (-100) (1 / 100000000) true [some 0, some (1 / 99999999)]).mulRange = 1 / 99999999 := by
  norm_num [columnStats, finalize, accumulate, Acc.init, Acc.push, rawVar, cmin, cmax, Sqrt.sqrt]
/-- N = 1 and N = 0 and a masked component -/
example : columnStats (100 : ℚ) (-100) (1 / 100000000) true [none, some 7] = ⟨1, 7, 7, 7, 0, 1, 1, 1, 1⟩ := by
  norm_num [columnStats, finalize, accumulate, Acc.init, Acc.push, cmin, cmax]
example : columnStats (100 : ℚ) (-100) (1 / 100000000) true [none, none] = ⟨0, 0, 0, 0, 0, 1, 1, 1, 1⟩ := by
  norm_num [columnStats, finalize, accumulate, Acc.init, Acc.push]
example : columnStats (100 : ℚ) (-100) (1 / 100000000) false [some 1, some (-1)] = ⟨2, 0, 0, 0, 0, 1, 1, 1, 1⟩ := by
  norm_num [columnStats, finalize, accumulate, Acc.init, Acc.push, cmin, cmax]
/-- deviation ≥ ε regime (variance 1) is `exData` above; the regenerated ε is the one used there -/
example : (ScalingGuards.epsilon2 : ℚ) = 1 / 100000000 := rfl
example : ScalingGuards.epsilon2Exp10 = -8 := rfl
/-- `onepass_eq_twopass` / `upscale_scale_id_generated` have satisfiable hypotheses -/
example : present exData ≠ [] := by simp [exData, present]
example : ∀ y : ℚ, FinTest.isFin y = true := fun _ => rfl
/-- `flatten_categorical_never_rescaled`: a single-label feature with 2 flatten columns followed by a scalar one -/
example : column2feature [⟨.sclass, 2⟩, ⟨.scalar, 1⟩] 1 = some 0 ∧ column2feature [⟨.sclass, 2⟩, ⟨.scalar, 1⟩] 2 = some 1 ∧
    column2feature [⟨.sclass, 2⟩, ⟨.scalar, 1⟩] 3 = none ∧ enableMask [⟨.sclass, 2⟩, ⟨.scalar, 1⟩] = [false, false, true] := by
  decide
/-- `targets_scaling_componentwise`: a legal call on a `(1, 2, 1)` target with two samples -/
example : (scale4 .minmax (statsOfMask (100 : ℚ) (-100) (1 / 100000000) (List.replicate (Dims3.size ⟨1, 2, 1⟩) true)
      [[some 1, some 2], [some 3, some 5]]) [[some 1, some 2], [some 3, none]]).isSome = true := by
  simp [scale4, scaleRow, statsOfMask, Dims3.size]
example : (Dims3.off ⟨2, 3, 2⟩ 1 2 1) = 11 ∧ Dims3.size ⟨2, 3, 2⟩ = 12 := by decide
/-- `targets_roundtrip4`: samples of the right length exist -/
example : ∀ r ∈ [[(1 : ℚ), 2], [3, 5]], r.length = [true, true].length := by simp

/-- class statistics: labels 2, 0, missing, 2 → hashes [0, 2], counts [1, 2], classes [1, 0, −1, 1], weights 1/3, 2/3, 0, 1/3 -/
example : (xclassStats (α := ℚ) [(true, 2), (true, 0), (false, 18446744073709551615), (true, 2)]) =
    ⟨[0, 2], [1, 2], [1, 0, -1, 1], [1 / 3, 2 / 3, 0, 1 / 3]⟩ := by
  norm_num [xclassStats, makeHashes, setInsert, sampleClasses, find, lowerBound, classCounts, incAt, classWeights,
    List.replicate_succ]
/-- a legal call of the affine conversion (2 inputs, 1 output), so the hypothesis of `affine_upscale_same_predictor`
    is satisfiable; and an illegal one is refused -/
example : (upscaleAffine .standard
      [columnStats (100 : ℚ) (-100) (1 / 100000000) true exData, columnStats (100 : ℚ) (-100) (1 / 100000000) false exData]
      .minmax [columnStats (100 : ℚ) (-100) (1 / 100000000) true exData] [[2, 5]] [7]).isSome = true := by
  simp [upscaleAffine]
example : upscaleAffine Mode.mean ([] : List (Stats ℚ)) Mode.mean [] [[1]] [] = none := by
  simp [upscaleAffine]

end examples

/-- `m_class_samples` has one entry per class, and entry `k` is exactly the number of samples whose class index is `k`
    (closed form of the `::update(xclass_stats_t&)` loop, any sample list, any number of classes; indices outside `[0, n)`
    — in particular −1 — are counted nowhere). -/
theorem class_counts_closed_form (n : Nat) (classes : List Int) :
    (classCounts n classes).length = n ∧
    ∀ k, k < n → (classCounts n classes).getD k 0 = classes.countP (fun c => c = (k : Int)) :=
  classCounts_spec n classes

/-- what `make_xclass_stats` computes meets the hypotheses of `class_weights_pos`: every class has at least one sample, so
    every classified sample of every data set gets a strictly positive weight and every other sample exactly 0. -/
theorem xclass_weights_pos (ss : List (Bool × Nat)) (hne : makeHashes ss ≠ []) :
    ∀ p ∈ List.zip (xclassStats (α := α) ss).sampleClasses (xclassStats (α := α) ss).sampleWeights,
      (p.1 < 0 → p.2 = 0) ∧ (0 ≤ p.1 → p.1.toNat < (xclassStats (α := α) ss).classSamples.length → 0 < p.2) := by
  have hlen := (classCounts_spec (makeHashes ss).length (sampleClasses (makeHashes ss) ss)).1
  refine class_weights_pos _ ?_ ?_ _
  · intro n hn
    obtain ⟨k, hk, rfl⟩ := List.mem_iff_getElem.mp hn
    have := xclass_counts_pos ss k (hlen ▸ hk)
    simpa [List.getD_eq_getElem?_getD, List.getElem?_eq_getElem hk] using this
  · intro h
    have : (makeHashes ss).length = 0 := by rw [← hlen, h]; rfl
    exact hne (List.length_eq_zero_iff.mp this)

example : classCounts 3 [0, 2, -1, 2, 5] = [1, 0, 2] := by decide

/-! #### class balance: the weights of every class add up to the same `norm` -/


/-- `norm` of `::done(xclass_stats_t&)` -/
def classNorm (counts : List Nat) : α :=
  1 / (counts.map (fun (n : Nat) => (1 : α) / ((n : Nat) : α))).foldl (· + ·) 0

theorem sum_filter_class (f : Int → α) (k : Int) (classes : List Int) :
    (((classes.map (fun c => (c, f c))).filter (fun p => p.1 = k)).map (·.2)).sum =
      (classes.countP (fun c => c = k) : α) * f k := by
  induction classes with
  | nil => simp
  | cons c cs ih =>
    by_cases h : c = k
    · subst h
      simp only [List.map_cons, decide_true, List.filter_cons_of_pos, List.sum_cons, ih, List.countP_cons_of_pos]
      push_cast; ring
    · have h' : decide (c = k) = false := by simpa using h
      simp only [List.map_cons]
      rw [List.filter_cons_of_neg (by simpa using h), ih, List.countP_cons_of_neg (by simpa using h)]

/-- the weights balance the classes: the weights of the samples of any non-empty class `k` add up to `norm`, the same
    value for every class (`count_k · norm / count_k`) -/
theorem class_weights_balanced (counts : List Nat) (classes : List Int) (k : Nat)
    (hk : counts.getD k 0 = classes.countP (fun c => c = (k : Int))) (hpos : 1 ≤ counts.getD k 0) :
    (((List.zip classes (classWeights (α := α) counts classes)).filter (fun p => p.1 = (k : Int))).map (·.2)).sum =
      classNorm counts := by
  have hz : ∀ (f : Int → α) (l : List Int), List.zip l (l.map f) = l.map (fun c => (c, f c)) := by
    intro f l; induction l with
    | nil => rfl
    | cons a l ih => simp [ih]
  unfold classWeights
  simp only [hz]
  rw [sum_filter_class]
  unfold classNorm
  have hne : ((counts.getD k 0 : Nat) : α) ≠ 0 := by
    have : 0 < counts.getD k 0 := hpos
    exact_mod_cast this.ne'
  simp only [Int.natCast_nonneg, ge_iff_le, if_true, Int.toNat_natCast]
  rw [← hk]
  field_simp

/-- for what `make_xclass_stats` computes, with no hypothesis left: the sample weights of EVERY class add up to the same
    value `norm` — the classes are balanced whatever their sizes -/
theorem xclass_weights_balanced (ss : List (Bool × Nat)) (k : Nat) (hk : k < (makeHashes ss).length) :
    (((List.zip (xclassStats (α := α) ss).sampleClasses (xclassStats (α := α) ss).sampleWeights).filter
        (fun p => p.1 = (k : Int))).map (·.2)).sum = classNorm (xclassStats (α := α) ss).classSamples :=
  class_weights_balanced _ _ k ((classCounts_spec _ _).2 k hk) (xclass_counts_pos ss k hk)

example : (((List.zip [0, 1, 0, -1, 1, 1] (classWeights (α := ℚ) [2, 3] [0, 1, 0, -1, 1, 1])).filter
    (fun p => p.1 = ((1 : Nat) : Int))).map (·.2)).sum = classNorm [2, 3] ∧ classNorm (α := ℚ) [2, 3] = 6 / 5 := by
  constructor
  · exact class_weights_balanced _ _ 1 (by decide) (by decide)
  · norm_num [classNorm]

end NanoVerif.Scaling
