import NanoVerif.Proofs.ScalingLemmas
import Mathlib.Algebra.Order.Field.Rat
import Mathlib.Tactic.NormNum
/-!
  C14 — feature scaling is invertible; the un-scaled linear model is the same predictor.

  Property theorems about `Model/Scaling.lean` (the model of `src/dataset/stats.cpp`), for every linear ordered field `α`
  (exact arithmetic), every data column (`List (Option α)`, `none` = missing), every accumulator, every scaling mode.
  Conventions of the statements:
  * `hfin : ∀ y, FinTest.isFin y = true` — in exact arithmetic no computed value overflows (`nan2zero` only acts on
    missing inputs, which are `none`);
  * `0 < eps` — `epsilon2<scalar_t>()` is positive;
  * the standard deviation is `Sqrt.sqrt v`; where its value matters (`standard_unit`) the only hypotheses are
    `sqrt v * sqrt v = v` at the variance `v` of that column and `eps ≤ sqrt v`; everything else holds whatever `sqrt` returns;
  * `lo ≤ v ≤ hi` for the present values: a finite double lies within `numeric_limits::lowest()/max()`, the starting
    values of the running maximum / minimum.
-/
set_option linter.unusedSectionVars false

namespace NanoVerif.Scaling
variable {α : Type} [Field α] [LinearOrder α] [IsStrictOrderedRing α]

/-! ### invertibility -/

/-- `m_div_range * m_mul_range = 1` and `m_div_stdev * m_mul_stdev = 1` for every accumulator (any N, including 0 and 1,
    zero range, zero variance), enabled or not, whatever `sqrt` returns: the ε guard makes both denominators positive. -/
theorem div_mul_one [Sqrt α] (eps : α) (heps : 0 < eps) (enabled : Bool) (a : Acc α) :
    (finalize eps enabled a).divRange * (finalize eps enabled a).mulRange = 1 ∧
    (finalize eps enabled a).divSd * (finalize eps enabled a).mulSd = 1 :=
  finalize_wf eps heps enabled a

/-- `upscale(scale(x)) = x` for every finite `x` (not only the values the statistics were computed from), every mode,
    every column: constant, single-sample (`N = 1`), all-missing (`N = 0`) and disabled (categorical) columns included. -/
theorem upscale_scale_id [Sqrt α] [FinTest α] (hfin : ∀ y : α, FinTest.isFin y = true)
    (hi lo eps : α) (heps : 0 < eps) (enabled : Bool) (xs : List (Option α)) (m : Mode) (x : α) :
    upscaleCell m (columnStats hi lo eps enabled xs) (scaleCell m (columnStats hi lo eps enabled xs) (some x)) = x := by
  have hwf := finalize_wf eps heps enabled (accumulate hi lo xs)
  have h1 := scaleCell_affine hfin m (columnStats hi lo eps enabled xs) x
  obtain ⟨h2, h3⟩ := upscaleCell_affine m (columnStats hi lo eps enabled xs) hwf
    (scaleCell m (columnStats hi lo eps enabled xs) (some x))
  rw [h3, h1]
  field_simp
  ring

/-- the same for a whole sample (`scalar_stats_t::scale` then `::upscale` on one row), for any statistics whose
    `div`/`mul` pairs are inverse (`div_mul_one`: all statistics produced by `done`) -/
theorem upscale_scale_id_row [FinTest α] (hfin : ∀ y : α, FinTest.isFin y = true) (m : Mode) :
    ∀ (ss : List (Stats α)) (xs : List α), (∀ s ∈ ss, s.WF) → ss.length = xs.length →
      (scaleRow m ss (xs.map some)).bind (upscaleRow m ss) = some xs
  | [], [], _, _ => by simp [scaleRow, upscaleRow]
  | [], _ :: _, _, h => by simp at h
  | _ :: _, [], _, h => by simp at h
  | s :: ss, x :: xs, hwf, hlen => by
    have ih := upscale_scale_id_row hfin m ss xs (fun t ht => hwf t (by simp [ht])) (by simpa using hlen)
    have hl : ss.length = xs.length := by simpa using hlen
    have hcell : upscaleCell m s (scaleCell m s (some x)) = x := by
      obtain ⟨h2, h3⟩ := upscaleCell_affine m s (hwf s (by simp)) (scaleCell m s (some x))
      rw [h3, scaleCell_affine hfin m s x]
      field_simp
      ring
    simp only [scaleRow, upscaleRow, List.length_map, hl, if_true, Option.bind_some, List.length_zipWith,
      List.length_cons, min_self, Option.some.injEq] at ih ⊢
    simp only [List.map_cons, List.zipWith_cons_cons, hcell, ih]

/-! ### advertised range / mean / deviation of the scaled column -/

/-- min-max scaling maps the values the statistics were computed from into `[0, 1]`; `0` is attained, and `1` is
    attained whenever the range reaches `ε` (below that the column is treated as constant and its values stay in
    `[0, range/ε] ⊆ [0, 1)`). -/
theorem minmax_range [Sqrt α] [FinTest α] (hfin : ∀ y : α, FinTest.isFin y = true)
    (hi lo eps : α) (heps : 0 < eps) (xs : List (Option α))
    (hb : ∀ v ∈ present xs, lo ≤ v ∧ v ≤ hi) (hne : present xs ≠ []) :
    (∀ v ∈ present xs, 0 ≤ scaleCell .minmax (columnStats hi lo eps true xs) (some v) ∧
        scaleCell .minmax (columnStats hi lo eps true xs) (some v) ≤ 1) ∧
    (∃ v ∈ present xs, scaleCell .minmax (columnStats hi lo eps true xs) (some v) = 0) ∧
    (eps ≤ (columnStats hi lo eps true xs).mx - (columnStats hi lo eps true xs).mn →
      ∃ v ∈ present xs, scaleCell .minmax (columnStats hi lo eps true xs) (some v) = 1) := by
  obtain ⟨hn, -, -, hmn, hmx⟩ := accumulate_spec hi lo xs
  obtain ⟨hmin_mem, hmin_le⟩ := foldl_min_attained (present xs) hi hne (fun v hv => (hb v hv).2)
  obtain ⟨hmax_mem, hmax_ge⟩ := foldl_max_attained (present xs) lo hne (fun v hv => (hb v hv).1)
  rw [← hmn] at hmin_mem hmin_le
  rw [← hmx] at hmax_mem hmax_ge
  have hpos : 0 < (present xs).length := List.length_pos_iff.mpr hne
  by_cases h1 : (accumulate hi lo xs).n > 1
  · -- N ≥ 2
    have hs : columnStats hi lo eps true xs =
        ⟨(accumulate hi lo xs).n, (accumulate hi lo xs).mn, (accumulate hi lo xs).mx,
          (accumulate hi lo xs).sum / ((accumulate hi lo xs).n : α),
          Sqrt.sqrt (cmax (rawVar (accumulate hi lo xs)) 0),
          1 / cmax ((accumulate hi lo xs).mx - (accumulate hi lo xs).mn) eps,
          cmax ((accumulate hi lo xs).mx - (accumulate hi lo xs).mn) eps,
          1 / cmax (Sqrt.sqrt (cmax (rawVar (accumulate hi lo xs)) 0)) eps,
          cmax (Sqrt.sqrt (cmax (rawVar (accumulate hi lo xs)) 0)) eps⟩ := by
      simp [columnStats, finalize, h1]
    rw [hs]
    simp only [scaleCell, nan2zero, hfin, if_true]
    have hr : 0 < cmax ((accumulate hi lo xs).mx - (accumulate hi lo xs).mn) eps :=
      lt_of_lt_of_le heps (le_cmax_right _ _)
    refine ⟨fun v hv => ⟨?_, ?_⟩, ⟨_, hmin_mem, by simp⟩, fun he => ⟨_, hmax_mem, ?_⟩⟩
    · exact mul_nonneg (sub_nonneg.mpr (hmin_le v hv)) (le_of_lt (one_div_pos.mpr hr))
    · rw [mul_one_div, div_le_one hr]
      exact le_trans (sub_le_sub_right (hmax_ge v hv) _) (le_cmax_left _ _)
    · have : cmax ((accumulate hi lo xs).mx - (accumulate hi lo xs).mn) eps =
          (accumulate hi lo xs).mx - (accumulate hi lo xs).mn := by
        rw [cmax_eq_max]; exact max_eq_left he
      rw [this, mul_one_div, div_self]
      exact (lt_of_lt_of_le heps he).ne'
  · -- N = 1: the single value is the minimum and the maximum, the divisor is 1
    have hn1 : (accumulate hi lo xs).n = 1 := by omega
    have hs : columnStats hi lo eps true xs =
        ⟨(accumulate hi lo xs).n, (accumulate hi lo xs).mn, (accumulate hi lo xs).mx,
          (accumulate hi lo xs).sum, 0, 1, 1, 1, 1⟩ := by
      simp [columnStats, finalize, hn1]
    rw [hs]
    simp only [scaleCell, nan2zero, hfin, if_true, mul_one]
    have hall : ∀ v ∈ present xs, v = (accumulate hi lo xs).mn := by
      have hlen : (present xs).length = 1 := by omega
      match hp : present xs, hlen with
      | [w], _ =>
        intro v hv
        rw [hp] at hmin_mem
        simp only [List.mem_singleton] at hv hmin_mem
        rw [hv, hmin_mem]
    refine ⟨fun v hv => ?_, ⟨_, hmin_mem, by simp⟩, fun he => ?_⟩
    · rw [hall v hv]; simp
    · exfalso
      have h1' : (accumulate hi lo xs).mx = (accumulate hi lo xs).mn := hall _ hmax_mem
      rw [h1', sub_self] at he
      exact absurd he (not_le.mpr heps)

/-- mean scaling centres the values the statistics were computed from (their scaled values sum to 0) and, when the
    range reaches `ε`, gives them range exactly 1 (`scale(max) − scale(min) = 1`). -/
theorem mean_centered [Sqrt α] [FinTest α] (hfin : ∀ y : α, FinTest.isFin y = true)
    (hi lo eps : α) (heps : 0 < eps) (xs : List (Option α))
    (hb : ∀ v ∈ present xs, lo ≤ v ∧ v ≤ hi) (hne : present xs ≠ []) :
    ((present xs).map (fun v => scaleCell .mean (columnStats hi lo eps true xs) (some v))).sum = 0 ∧
    (eps ≤ (columnStats hi lo eps true xs).mx - (columnStats hi lo eps true xs).mn →
      scaleCell .mean (columnStats hi lo eps true xs) (some (columnStats hi lo eps true xs).mx) -
        scaleCell .mean (columnStats hi lo eps true xs) (some (columnStats hi lo eps true xs).mn) = 1) := by
  obtain ⟨hn, hsum, -, -, -⟩ := accumulate_spec hi lo xs
  have hpos : 0 < (present xs).length := List.length_pos_iff.mpr hne
  have hnz : ((present xs).length : α) ≠ 0 := by exact_mod_cast hpos.ne'
  by_cases h1 : (accumulate hi lo xs).n > 1
  · have hs : columnStats hi lo eps true xs =
        ⟨(accumulate hi lo xs).n, (accumulate hi lo xs).mn, (accumulate hi lo xs).mx,
          (accumulate hi lo xs).sum / ((accumulate hi lo xs).n : α),
          Sqrt.sqrt (cmax (rawVar (accumulate hi lo xs)) 0),
          1 / cmax ((accumulate hi lo xs).mx - (accumulate hi lo xs).mn) eps,
          cmax ((accumulate hi lo xs).mx - (accumulate hi lo xs).mn) eps,
          1 / cmax (Sqrt.sqrt (cmax (rawVar (accumulate hi lo xs)) 0)) eps,
          cmax (Sqrt.sqrt (cmax (rawVar (accumulate hi lo xs)) 0)) eps⟩ := by
      simp [columnStats, finalize, h1]
    rw [hs]
    simp only [scaleCell, nan2zero, hfin, if_true]
    refine ⟨?_, fun he => ?_⟩
    · rw [sum_map_sub_mul, hn, hsum]
      have : (present xs).sum - ((present xs).length : α) * ((present xs).sum / ((present xs).length : α)) = 0 := by
        field_simp; ring
      rw [this, zero_mul]
    · have : cmax ((accumulate hi lo xs).mx - (accumulate hi lo xs).mn) eps =
          (accumulate hi lo xs).mx - (accumulate hi lo xs).mn := by
        rw [cmax_eq_max]; exact max_eq_left he
      have hne' : (accumulate hi lo xs).mx - (accumulate hi lo xs).mn ≠ 0 := (lt_of_lt_of_le heps he).ne'
      rw [this]
      field_simp
      ring
  · have hn1 : (accumulate hi lo xs).n = 1 := by omega
    have hs : columnStats hi lo eps true xs =
        ⟨(accumulate hi lo xs).n, (accumulate hi lo xs).mn, (accumulate hi lo xs).mx,
          (accumulate hi lo xs).sum, 0, 1, 1, 1, 1⟩ := by
      simp [columnStats, finalize, hn1]
    rw [hs]
    simp only [scaleCell, nan2zero, hfin, if_true]
    have hlen : (present xs).length = 1 := by omega
    refine ⟨?_, fun he => ?_⟩
    · rw [sum_map_sub_mul, hsum, hlen]; simp
    · -- a single sample has range 0 < ε
      exfalso
      obtain ⟨-, -, -, hmn, hmx⟩ := accumulate_spec hi lo xs
      obtain ⟨hmin_mem, -⟩ := foldl_min_attained (present xs) hi hne (fun v hv => (hb v hv).2)
      obtain ⟨hmax_mem, -⟩ := foldl_max_attained (present xs) lo hne (fun v hv => (hb v hv).1)
      rw [← hmn] at hmin_mem
      rw [← hmx] at hmax_mem
      match hp : present xs, hlen with
      | [w], _ =>
        rw [hp] at hmin_mem hmax_mem
        simp only [List.mem_singleton] at hmin_mem hmax_mem
        simp only [hmin_mem, hmax_mem, sub_self] at he
        exact absurd he (not_le.mpr heps)

/-- the accumulated `Σx² − (Σx)²/N` is never negative in exact arithmetic (Cauchy–Schwarz), for any data with at least
    one present value -/
theorem var_nonneg (hi lo : α) (xs : List (Option α)) (hne : present xs ≠ []) :
    0 ≤ (accumulate hi lo xs).sum2 -
      (accumulate hi lo xs).sum * (accumulate hi lo xs).sum / ((accumulate hi lo xs).n : α) := by
  obtain ⟨hn, hsum, hsum2, -, -⟩ := accumulate_spec hi lo xs
  rw [hn, hsum, hsum2]
  exact sumSq_sub_nonneg (present xs) hne

/-- hence the clamp `std::max(variance, 0.0)` before the square root changes nothing in exact arithmetic: it only
    absorbs rounding (the repaired defect: a tiny negative rounded variance of a constant column gave `sqrt` = NaN) -/
theorem clamp_is_identity (hi lo : α) (xs : List (Option α)) (h2 : 2 ≤ (present xs).length) :
    0 ≤ rawVar (accumulate hi lo xs) ∧ cmax (rawVar (accumulate hi lo xs)) 0 = rawVar (accumulate hi lo xs) := by
  have hne : present xs ≠ [] := by intro h; rw [h] at h2; simp at h2
  have hv := var_nonneg hi lo xs hne
  obtain ⟨hn, -, -, -, -⟩ := accumulate_spec hi lo xs
  have hpos : (0 : α) < ((accumulate hi lo xs).n : α) - 1 := by
    rw [hn]
    have : (2 : α) ≤ ((present xs).length : α) := by exact_mod_cast h2
    linarith
  have h0 : 0 ≤ rawVar (accumulate hi lo xs) := div_nonneg hv (le_of_lt hpos)
  exact ⟨h0, by rw [cmax_eq_max]; exact max_eq_left h0⟩

/-- standardisation: when the standard deviation `sd` of the column (`sd·sd` = its unbiased variance) reaches `ε`,
    the scaled values of the samples the statistics were computed from have mean 0 and unbiased variance 1
    (`Σ z = 0`, `Σ z² = N − 1`). -/
theorem standard_unit [Sqrt α] [FinTest α] (hfin : ∀ y : α, FinTest.isFin y = true)
    (hi lo eps : α) (heps : 0 < eps) (xs : List (Option α)) (h2 : 2 ≤ (present xs).length)
    (hsq : Sqrt.sqrt (rawVar (accumulate hi lo xs)) * Sqrt.sqrt (rawVar (accumulate hi lo xs)) =
      rawVar (accumulate hi lo xs))
    (hge : eps ≤ Sqrt.sqrt (rawVar (accumulate hi lo xs))) :
    ((present xs).map (fun v => scaleCell .standard (columnStats hi lo eps true xs) (some v))).sum = 0 ∧
    ((present xs).map (fun v => scaleCell .standard (columnStats hi lo eps true xs) (some v) *
        scaleCell .standard (columnStats hi lo eps true xs) (some v))).sum = ((present xs).length : α) - 1 := by
  obtain ⟨hn, hsum, hsum2, -, -⟩ := accumulate_spec hi lo xs
  obtain ⟨-, hclamp⟩ := clamp_is_identity hi lo xs h2
  have hne : present xs ≠ [] := by intro h; rw [h] at h2; simp at h2
  have h1 : (accumulate hi lo xs).n > 1 := by omega
  have hsd : cmax (Sqrt.sqrt (rawVar (accumulate hi lo xs))) eps = Sqrt.sqrt (rawVar (accumulate hi lo xs)) := by
    rw [cmax_eq_max]; exact max_eq_left hge
  have hs : columnStats hi lo eps true xs =
      ⟨(accumulate hi lo xs).n, (accumulate hi lo xs).mn, (accumulate hi lo xs).mx,
        (accumulate hi lo xs).sum / ((accumulate hi lo xs).n : α),
        Sqrt.sqrt (rawVar (accumulate hi lo xs)),
        1 / cmax ((accumulate hi lo xs).mx - (accumulate hi lo xs).mn) eps,
        cmax ((accumulate hi lo xs).mx - (accumulate hi lo xs).mn) eps,
        1 / Sqrt.sqrt (rawVar (accumulate hi lo xs)),
        Sqrt.sqrt (rawVar (accumulate hi lo xs))⟩ := by
    simp [columnStats, finalize, h1, hclamp, hsd]
  rw [hs]
  simp only [scaleCell, nan2zero, hfin, if_true]
  have hn2 : (2 : α) ≤ ((present xs).length : α) := by exact_mod_cast h2
  have hnz : ((present xs).length : α) ≠ 0 := by linarith
  have hn1 : ((present xs).length : α) - 1 ≠ 0 := by linarith
  have hsdpos : 0 < Sqrt.sqrt (rawVar (accumulate hi lo xs)) := lt_of_lt_of_le heps hge
  constructor
  · rw [sum_map_sub_mul, hn, hsum]
    have : (present xs).sum - ((present xs).length : α) * ((present xs).sum / ((present xs).length : α)) = 0 := by
      field_simp; ring
    rw [this, zero_mul]
  · -- Σ ((v − m)/sd)² = (Σ (v − m)²)/sd² = (Σx² − (Σx)²/N)/var = N − 1
    have hre : ∀ v : α, (v - (accumulate hi lo xs).sum / ((accumulate hi lo xs).n : α)) *
          (1 / Sqrt.sqrt (rawVar (accumulate hi lo xs))) *
        ((v - (accumulate hi lo xs).sum / ((accumulate hi lo xs).n : α)) *
          (1 / Sqrt.sqrt (rawVar (accumulate hi lo xs)))) =
        (v - (accumulate hi lo xs).sum / ((accumulate hi lo xs).n : α)) *
          (v - (accumulate hi lo xs).sum / ((accumulate hi lo xs).n : α)) *
          (1 / rawVar (accumulate hi lo xs)) :=
      fun v => sq_div_aux _ _ _ hsq hsdpos.ne'
    simp only [hre]
    rw [sum_map_mul_right (present xs)
      (fun v => (v - (accumulate hi lo xs).sum / ((accumulate hi lo xs).n : α)) *
        (v - (accumulate hi lo xs).sum / ((accumulate hi lo xs).n : α)))]
    rw [hn, hsum, ← sumSq_sub_eq (present xs) hne]
    have hvar : rawVar (accumulate hi lo xs) =
        (sumSq (present xs) - (present xs).sum * (present xs).sum / ((present xs).length : α)) /
          (((present xs).length : α) - 1) := by
      simp only [rawVar, hn, hsum, hsum2]
    have hvpos : 0 < rawVar (accumulate hi lo xs) := by rw [← hsq]; exact mul_pos hsdpos hsdpos
    rw [hvar] at hvpos ⊢
    have hnum : sumSq (present xs) - (present xs).sum * (present xs).sum / ((present xs).length : α) ≠ 0 := by
      intro h0
      rw [h0, zero_div] at hvpos
      exact lt_irrefl _ hvpos
    exact mul_inv_div_aux _ _ hnum hn1

/-! ### categorical columns and missing values -/

/-- a column whose scaling is disabled (flatten column of a single-label or multi-label feature, or any target column of a
    classification task) is never rescaled: `scale` and `upscale` are the identity on it in every mode, for any data -/
theorem categorical_identity [Sqrt α] [FinTest α] (hfin : ∀ y : α, FinTest.isFin y = true)
    (hi lo eps : α) (xs : List (Option α)) (m : Mode) (x : α) :
    scaleCell m (columnStats hi lo eps false xs) (some x) = x ∧
    upscaleCell m (columnStats hi lo eps false xs) x = x := by
  cases m <;> simp [columnStats, finalize, scaleCell, upscaleCell, nan2zero, hfin]

/-- a missing value is scaled to 0 in every mode, and the statistics are those of the present values alone -/
theorem missing_to_zero_and_ignored [Sqrt α] [FinTest α] (hi lo eps : α) (enabled : Bool) (xs : List (Option α))
    (m : Mode) (s : Stats α) :
    scaleCell m s none = 0 ∧
    columnStats hi lo eps enabled xs = columnStats hi lo eps enabled ((present xs).map some) ∧
    (accumulate hi lo xs).n = (present xs).length := by
  refine ⟨rfl, ?_, (accumulate_spec hi lo xs).1⟩
  unfold columnStats
  rw [accumulate_present]

/-! ### the converted linear model is the same predictor -/

/-- one output of `nano::upscale(...)`: for every weight row `w`, bias `b`, input statistics `fs` (any), target
    statistics `t` with inverse `div`/`mul` pairs, every pair of modes and every finite raw input `x`:
    `w'·x + b' = upscale_t(w·scale_x(x) + b)`. -/
theorem affine_upscale_same_predictor_row [FinTest α] (hfin : ∀ y : α, FinTest.isFin y = true)
    (fm tm : Mode) (fs : List (Stats α)) (t : Stats α) (ht : t.WF) (w x : List α) (b : α)
    (hw : w.length = fs.length) (hx : x.length = fs.length) :
    dot (upscaleAffineRow ((fs.map (makeScaling fm)).map Prod.fst) ((fs.map (makeScaling fm)).map Prod.snd)
          (makeScaling tm t).1 (makeScaling tm t).2 w b).1 x +
      (upscaleAffineRow ((fs.map (makeScaling fm)).map Prod.fst) ((fs.map (makeScaling fm)).map Prod.snd)
          (makeScaling tm t).1 (makeScaling tm t).2 w b).2 =
    upscaleCell tm t (dot w (List.zipWith (scaleCell fm) fs (x.map some)) + b) :=
  affine_row hfin fm tm fs t ht w x b hw hx

/-- `nano::upscale(flatten_stats, flatten_scaling, targets_stats, targets_scaling, W, b)`, n-dimensional: whenever the
    call is legal (its three size asserts) it yields `(W', b')` such that for **every** finite raw input `x`
    `W' x + b' = upscale_targets(W · scale_inputs(x) + b)`, for each of the 4×4 mode pairs, any input statistics and any
    target statistics with inverse `div`/`mul` pairs (`div_mul_one`: everything `done` produces). -/
theorem affine_upscale_same_predictor [FinTest α] (hfin : ∀ y : α, FinTest.isFin y = true)
    (fm tm : Mode) (fs ts : List (Stats α)) (hts : ∀ t ∈ ts, t.WF)
    (W : List (List α)) (b : List α) (W' : List (List α)) (b' : List α)
    (h : upscaleAffine fm fs tm ts W b = some (W', b')) (x : List α) (hx : x.length = fs.length) :
    (scaleRow fm fs (x.map some)).bind (fun sx => upscaleRow tm ts (predict W b sx)) = some (predict W' b' x) := by
  unfold upscaleAffine at h
  split at h
  · rename_i hg
    obtain ⟨hb, hW, hr⟩ := hg
    simp only [Option.some.injEq, Prod.mk.injEq] at h
    obtain ⟨hW', hb'⟩ := h
    have hr' : ∀ r ∈ W, r.length = fs.length := by
      intro r hr0
      have := List.all_eq_true.mp hr r hr0
      simpa using this
    have hrows := predict_rows hfin fm tm fs x hx ts W b hts hb hW hr'
    rw [← hW', ← hb', hrows]
    have hlen : ts.length = (predict W b (List.zipWith (scaleCell fm) fs (x.map some))).length := by
      simp [predict, hb, hW]
    simp [scaleRow, upscaleRow, hx, hlen]
  · cases h

/-- the same with both lists of statistics computed by `make_*_stats` from arbitrary data (any columns, any enable
    masks, any missing-value patterns, constant / single-sample / empty columns included): no hypothesis on the
    statistics is left -/
theorem affine_upscale_same_predictor_of_data [Sqrt α] [FinTest α] (hfin : ∀ y : α, FinTest.isFin y = true)
    (hi lo eps : α) (heps : 0 < eps) (fm tm : Mode) (fdata tdata : List (Bool × List (Option α)))
    (W : List (List α)) (b : List α) (W' : List (List α)) (b' : List α)
    (h : upscaleAffine fm (fdata.map (fun d => columnStats hi lo eps d.1 d.2)) tm
      (tdata.map (fun d => columnStats hi lo eps d.1 d.2)) W b = some (W', b'))
    (x : List α) (hx : x.length = fdata.length) :
    (scaleRow fm (fdata.map (fun d => columnStats hi lo eps d.1 d.2)) (x.map some)).bind
      (fun sx => upscaleRow tm (tdata.map (fun d => columnStats hi lo eps d.1 d.2)) (predict W b sx)) =
    some (predict W' b' x) := by
  refine affine_upscale_same_predictor hfin fm tm _ _ ?_ W b W' b' h x (by simpa using hx)
  intro t ht
  obtain ⟨d, -, rfl⟩ := List.mem_map.mp ht
  exact finalize_wf eps heps d.1 (accumulate hi lo d.2)

/-- the converse guard: with mismatching sizes (where the C++ `assert`s fire) the model refuses -/
theorem affine_upscale_guard (fm tm : Mode) (fs ts : List (Stats α)) (W : List (List α)) (b : List α)
    (h : b.length ≠ ts.length) : upscaleAffine fm fs tm ts W b = none := by
  unfold upscaleAffine
  simp [h]

/-! ### non-vacuity (ℚ; `sqrt` on the one value that occurs) -/

section examples

local instance : Sqrt ℚ := ⟨fun v => if v = 1 then 1 else 0⟩
local instance : FinTest ℚ := ⟨fun _ => true⟩

/-- the data `1, missing, 3, 2`: N = 3, mean 2, variance 1, range 2 — every hypothesis of the theorems above holds -/
def exData : List (Option ℚ) := [some 1, none, some 3, some 2]

example : present exData = [1, 3, 2] := rfl
example : ∀ v ∈ present exData, (-100 : ℚ) ≤ v ∧ v ≤ 100 := by
  intro v hv; simp [exData, present] at hv; rcases hv with rfl | rfl | rfl <;> norm_num
example : rawVar (accumulate (100 : ℚ) (-100) exData) = 1 := by
  norm_num [exData, accumulate, Acc.init, Acc.push, rawVar, cmin, cmax]
example : Sqrt.sqrt (rawVar (accumulate (100 : ℚ) (-100) exData)) *
    Sqrt.sqrt (rawVar (accumulate (100 : ℚ) (-100) exData)) = rawVar (accumulate (100 : ℚ) (-100) exData) ∧
    (1 / 100000000 : ℚ) ≤ Sqrt.sqrt (rawVar (accumulate (100 : ℚ) (-100) exData)) := by
  norm_num [exData, accumulate, Acc.init, Acc.push, rawVar, cmin, cmax, Sqrt.sqrt]
/-- the statistics `done` computes for it: min 1, max 3, mean 2, stdev 1, 1/range, range, 1/stdev, stdev -/
example : columnStats (100 : ℚ) (-100) (1 / 100000000) true exData = ⟨3, 1, 3, 2, 1, 1 / 2, 2, 1, 1⟩ := by
  norm_num [exData, columnStats, finalize, accumulate, Acc.init, Acc.push, rawVar, cmin, cmax, Sqrt.sqrt]
/-- a constant column (the shape of the repaired defect): variance 0, stdev 0, divisors 1/ε, multipliers ε, and the
    round trip still returns the value -/
example : columnStats (100 : ℚ) (-100) (1 / 100000000) true [some (1 / 10), some (1 / 10), some (1 / 10)] =
    ⟨3, 1 / 10, 1 / 10, 1 / 10, 0, 100000000, 1 / 100000000, 100000000, 1 / 100000000⟩ := by
  norm_num [columnStats, finalize, accumulate, Acc.init, Acc.push, rawVar, cmin, cmax, Sqrt.sqrt]
example : upscaleCell .standard (columnStats (100 : ℚ) (-100) (1 / 100000000) true [some (1 / 10), some (1 / 10), some (1 / 10)])
    (scaleCell .standard (columnStats (100 : ℚ) (-100) (1 / 100000000) true [some (1 / 10), some (1 / 10), some (1 / 10)])
      (some (7 / 3))) = 7 / 3 :=
  upscale_scale_id (fun _ => rfl) 100 (-100) (1 / 100000000) (by norm_num) true _ .standard (7 / 3)
/-- a legal call of the affine conversion (2 inputs, 1 output), so the hypothesis of `affine_upscale_same_predictor`
    is satisfiable; and an illegal one is refused -/
example : (upscaleAffine .standard
      [columnStats (100 : ℚ) (-100) (1 / 100000000) true exData, columnStats (100 : ℚ) (-100) (1 / 100000000) false exData]
      .minmax [columnStats (100 : ℚ) (-100) (1 / 100000000) true exData] [[2, 5]] [7]).isSome = true := by
  simp [upscaleAffine]
example : upscaleAffine Mode.mean ([] : List (Stats ℚ)) Mode.mean [] [[1]] [] = none := by
  simp [upscaleAffine]

end examples

end NanoVerif.Scaling
