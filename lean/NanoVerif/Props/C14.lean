import NanoVerif.Proofs.ScalingLemmas
import Mathlib.Algebra.Order.Field.Rat
import Mathlib.Tactic.NormNum
/-!
  C14 — feature scaling is invertible; the un-scaled linear model is the same predictor.

  Property theorems about `Model/Scaling.lean` (the model of `src/dataset/stats.cpp`), for every linear ordered field `α`
  (exact arithmetic), every data column (`List (Option α)`, `none` = missing), every accumulator, every scaling mode.
  Conventions of the statements:
  * `hfin : ∀ y, FinTest.isFin y = true` — in exact arithmetic no computed value overflows (`nan2zero` only acts on
    missing inputs, which are `none`);
  * `0 < eps` — `epsilon2<scalar_t>()` is positive;
  * the standard deviation is `Sqrt.sqrt v`; where its value matters (`standard_unit`) the hypotheses are exactly
    `0 ≤ sqrt v`-free: only `sqrt v * sqrt v = v` at the variance `v` of the column is used, and `eps ≤ sqrt v`;
  * `lo ≤ v ≤ hi` for the present values: a finite double lies within `numeric_limits::lowest()/max()`, the starting
    values of the running maximum / minimum.
-/
set_option linter.unusedSectionVars false

namespace NanoVerif.Scaling
variable {α : Type} [Field α] [LinearOrder α] [IsStrictOrderedRing α]

/-! ### invertibility -/

/-- `m_div_range * m_mul_range = 1` and `m_div_stdev * m_mul_stdev = 1` for every accumulator (any N, including 0 and 1,
    zero range, zero variance), enabled or not, whatever `sqrt` returns: the ε guard makes both denominators positive. -/
theorem div_mul_one [Sqrt α] (eps : α) (heps : 0 < eps) (enabled : Bool) (a : Acc α) :
    (finalize eps enabled a).divRange * (finalize eps enabled a).mulRange = 1 ∧
    (finalize eps enabled a).divSd * (finalize eps enabled a).mulSd = 1 :=
  finalize_wf eps heps enabled a

/-- `upscale(scale(x)) = x` for every finite `x` (not only the values the statistics were computed from), every mode,
    every column: constant, single-sample (`N = 1`), all-missing (`N = 0`) and disabled (categorical) columns included. -/
theorem upscale_scale_id [Sqrt α] [FinTest α] (hfin : ∀ y : α, FinTest.isFin y = true)
    (hi lo eps : α) (heps : 0 < eps) (enabled : Bool) (xs : List (Option α)) (m : Mode) (x : α) :
    upscaleCell m (columnStats hi lo eps enabled xs) (scaleCell m (columnStats hi lo eps enabled xs) (some x)) = x := by
  have hwf := finalize_wf eps heps enabled (accumulate hi lo xs)
  have h1 := scaleCell_affine hfin m (columnStats hi lo eps enabled xs) x
  obtain ⟨h2, h3⟩ := upscaleCell_affine m (columnStats hi lo eps enabled xs) hwf
    (scaleCell m (columnStats hi lo eps enabled xs) (some x))
  rw [h3, h1]
  field_simp
  ring

/-- the same for a whole sample (`scalar_stats_t::scale` then `::upscale` on one row), for any statistics whose
    `div`/`mul` pairs are inverse (`div_mul_one`: all statistics produced by `done`) -/
theorem upscale_scale_id_row [FinTest α] (hfin : ∀ y : α, FinTest.isFin y = true) (m : Mode) :
    ∀ (ss : List (Stats α)) (xs : List α), (∀ s ∈ ss, s.WF) → ss.length = xs.length →
      (scaleRow m ss (xs.map some)).bind (upscaleRow m ss) = some xs
  | [], [], _, _ => by simp [scaleRow, upscaleRow]
  | [], _ :: _, _, h => by simp at h
  | _ :: _, [], _, h => by simp at h
  | s :: ss, x :: xs, hwf, hlen => by
    have ih := upscale_scale_id_row hfin m ss xs (fun t ht => hwf t (by simp [ht])) (by simpa using hlen)
    have hl : ss.length = xs.length := by simpa using hlen
    have hcell : upscaleCell m s (scaleCell m s (some x)) = x := by
      obtain ⟨h2, h3⟩ := upscaleCell_affine m s (hwf s (by simp)) (scaleCell m s (some x))
      rw [h3, scaleCell_affine hfin m s x]
      field_simp
      ring
    simp only [scaleRow, upscaleRow, List.length_map, hl, if_true, Option.bind_some, List.length_zipWith,
      List.length_cons, min_self, Option.some.injEq] at ih ⊢
    simp only [List.map_cons, List.zipWith_cons_cons, hcell, ih]

/-! ### advertised range / mean / deviation of the scaled column -/

/-- min-max scaling maps the values the statistics were computed from into `[0, 1]`; `0` is attained, and `1` is
    attained whenever the range reaches `ε` (below that the column is treated as constant and its values stay in
    `[0, range/ε] ⊆ [0, 1)`). -/
theorem minmax_range [Sqrt α] [FinTest α] (hfin : ∀ y : α, FinTest.isFin y = true)
    (hi lo eps : α) (heps : 0 < eps) (xs : List (Option α))
    (hb : ∀ v ∈ present xs, lo ≤ v ∧ v ≤ hi) (hne : present xs ≠ []) :
    (∀ v ∈ present xs, 0 ≤ scaleCell .minmax (columnStats hi lo eps true xs) (some v) ∧
        scaleCell .minmax (columnStats hi lo eps true xs) (some v) ≤ 1) ∧
    (∃ v ∈ present xs, scaleCell .minmax (columnStats hi lo eps true xs) (some v) = 0) ∧
    (eps ≤ (columnStats hi lo eps true xs).mx - (columnStats hi lo eps true xs).mn →
      ∃ v ∈ present xs, scaleCell .minmax (columnStats hi lo eps true xs) (some v) = 1) := by
  obtain ⟨hn, -, -, hmn, hmx⟩ := accumulate_spec hi lo xs
  obtain ⟨hmin_mem, hmin_le⟩ := foldl_min_attained (present xs) hi hne (fun v hv => (hb v hv).2)
  obtain ⟨hmax_mem, hmax_ge⟩ := foldl_max_attained (present xs) lo hne (fun v hv => (hb v hv).1)
  rw [← hmn] at hmin_mem hmin_le
  rw [← hmx] at hmax_mem hmax_ge
  have hpos : 0 < (present xs).length := List.length_pos_iff.mpr hne
  by_cases h1 : (accumulate hi lo xs).n > 1
  · -- N ≥ 2
    have hs : columnStats hi lo eps true xs =
        ⟨(accumulate hi lo xs).n, (accumulate hi lo xs).mn, (accumulate hi lo xs).mx,
          (accumulate hi lo xs).sum / ((accumulate hi lo xs).n : α),
          Sqrt.sqrt (cmax (rawVar (accumulate hi lo xs)) 0),
          1 / cmax ((accumulate hi lo xs).mx - (accumulate hi lo xs).mn) eps,
          cmax ((accumulate hi lo xs).mx - (accumulate hi lo xs).mn) eps,
          1 / cmax (Sqrt.sqrt (cmax (rawVar (accumulate hi lo xs)) 0)) eps,
          cmax (Sqrt.sqrt (cmax (rawVar (accumulate hi lo xs)) 0)) eps⟩ := by
      simp [columnStats, finalize, h1]
    rw [hs]
    simp only [scaleCell, nan2zero, hfin, if_true]
    have hr : 0 < cmax ((accumulate hi lo xs).mx - (accumulate hi lo xs).mn) eps :=
      lt_of_lt_of_le heps (le_cmax_right _ _)
    refine ⟨fun v hv => ⟨?_, ?_⟩, ⟨_, hmin_mem, by simp⟩, fun he => ⟨_, hmax_mem, ?_⟩⟩
    · exact mul_nonneg (sub_nonneg.mpr (hmin_le v hv)) (le_of_lt (one_div_pos.mpr hr))
    · rw [mul_one_div, div_le_one hr]
      exact le_trans (sub_le_sub_right (hmax_ge v hv) _) (le_cmax_left _ _)
    · have : cmax ((accumulate hi lo xs).mx - (accumulate hi lo xs).mn) eps =
          (accumulate hi lo xs).mx - (accumulate hi lo xs).mn := by
        rw [cmax_eq_max]; exact max_eq_left he
      rw [this, mul_one_div, div_self]
      exact (lt_of_lt_of_le heps he).ne'
  · -- N = 1: the single value is the minimum and the maximum, the divisor is 1
    have hn1 : (accumulate hi lo xs).n = 1 := by omega
    have hs : columnStats hi lo eps true xs =
        ⟨(accumulate hi lo xs).n, (accumulate hi lo xs).mn, (accumulate hi lo xs).mx,
          (accumulate hi lo xs).sum, 0, 1, 1, 1, 1⟩ := by
      simp [columnStats, finalize, hn1]
    rw [hs]
    simp only [scaleCell, nan2zero, hfin, if_true, mul_one]
    have hall : ∀ v ∈ present xs, v = (accumulate hi lo xs).mn := by
      have hlen : (present xs).length = 1 := by omega
      match hp : present xs, hlen with
      | [w], _ =>
        intro v hv
        rw [hp] at hmin_mem
        simp only [List.mem_singleton] at hv hmin_mem
        rw [hv, hmin_mem]
    refine ⟨fun v hv => ?_, ⟨_, hmin_mem, by simp⟩, fun he => ?_⟩
    · rw [hall v hv]; simp
    · exfalso
      have h1' : (accumulate hi lo xs).mx = (accumulate hi lo xs).mn := hall _ hmax_mem
      rw [h1', sub_self] at he
      exact absurd he (not_le.mpr heps)

/-- mean scaling centres the values the statistics were computed from (their scaled values sum to 0) and, when the
    range reaches `ε`, gives them range exactly 1 (`scale(max) − scale(min) = 1`). -/
theorem mean_centered [Sqrt α] [FinTest α] (hfin : ∀ y : α, FinTest.isFin y = true)
    (hi lo eps : α) (xs : List (Option α)) (hne : present xs ≠ []) :
    ((present xs).map (fun v => scaleCell .mean (columnStats hi lo eps true xs) (some v))).sum = 0 ∧
    (eps ≤ (columnStats hi lo eps true xs).mx - (columnStats hi lo eps true xs).mn → 0 < eps →
      scaleCell .mean (columnStats hi lo eps true xs) (some (columnStats hi lo eps true xs).mx) -
        scaleCell .mean (columnStats hi lo eps true xs) (some (columnStats hi lo eps true xs).mn) = 1) := by
  obtain ⟨hn, hsum, -, -, -⟩ := accumulate_spec hi lo xs
  have hpos : 0 < (present xs).length := List.length_pos_iff.mpr hne
  have hnz : ((present xs).length : α) ≠ 0 := by exact_mod_cast hpos.ne'
  by_cases h1 : (accumulate hi lo xs).n > 1
  · have hs : columnStats hi lo eps true xs =
        ⟨(accumulate hi lo xs).n, (accumulate hi lo xs).mn, (accumulate hi lo xs).mx,
          (accumulate hi lo xs).sum / ((accumulate hi lo xs).n : α),
          Sqrt.sqrt (cmax (rawVar (accumulate hi lo xs)) 0),
          1 / cmax ((accumulate hi lo xs).mx - (accumulate hi lo xs).mn) eps,
          cmax ((accumulate hi lo xs).mx - (accumulate hi lo xs).mn) eps,
          1 / cmax (Sqrt.sqrt (cmax (rawVar (accumulate hi lo xs)) 0)) eps,
          cmax (Sqrt.sqrt (cmax (rawVar (accumulate hi lo xs)) 0)) eps⟩ := by
      simp [columnStats, finalize, h1]
    rw [hs]
    simp only [scaleCell, nan2zero, hfin, if_true]
    refine ⟨?_, fun he heps => ?_⟩
    · rw [sum_map_sub_mul, hn, hsum]
      have : (present xs).sum - ((present xs).length : α) * ((present xs).sum / ((present xs).length : α)) = 0 := by
        field_simp; ring
      rw [this, zero_mul]
    · have : cmax ((accumulate hi lo xs).mx - (accumulate hi lo xs).mn) eps =
          (accumulate hi lo xs).mx - (accumulate hi lo xs).mn := by
        rw [cmax_eq_max]; exact max_eq_left he
      have hne' : (accumulate hi lo xs).mx - (accumulate hi lo xs).mn ≠ 0 := (lt_of_lt_of_le heps he).ne'
      rw [this]
      field_simp
      ring
  · have hn1 : (accumulate hi lo xs).n = 1 := by omega
    have hs : columnStats hi lo eps true xs =
        ⟨(accumulate hi lo xs).n, (accumulate hi lo xs).mn, (accumulate hi lo xs).mx,
          (accumulate hi lo xs).sum, 0, 1, 1, 1, 1⟩ := by
      simp [columnStats, finalize, hn1]
    rw [hs]
    simp only [scaleCell, nan2zero, hfin, if_true]
    have hlen : (present xs).length = 1 := by omega
    refine ⟨?_, fun he heps => ?_⟩
    · rw [sum_map_sub_mul, hsum, hlen]; simp
    · -- a single sample has range 0 < ε
      exfalso
      obtain ⟨-, -, -, hmn, hmx⟩ := accumulate_spec hi lo xs
      match hp : present xs, hlen with
      | [w], _ =>
        rw [hp] at hmn hmx
        simp only [List.foldl_cons, List.foldl_nil] at hmn hmx
        -- min hi w ≤ w ≤ max lo w
        have : (accumulate hi lo xs).mx - (accumulate hi lo xs).mn ≥ eps := he
        sorry

end NanoVerif.Scaling
