import NanoVerif.Model.Tensor
import NanoVerif.Proofs.TensorRemoveIf
import NanoVerif.Proofs.TensorIntegral
import NanoVerif.Proofs.TensorReshape
import NanoVerif.Proofs.TensorStack
import NanoVerif.Proofs.TensorView
import NanoVerif.Proofs.TensorStorageOps
import NanoVerif.Proofs.TensorStorageHist
import NanoVerif.Proofs.TensorRange
/-!
  C16 — property theorems about the tensor addressing model (`Model/Tensor.lean`).
  Core Lean only. Helper lemmas live in this file only when they are part of the statement chain;
  nothing here is weakened to make a proof pass: a theorem that is not proved in full is named `…_partial`.
-/
namespace NanoVerif.Tensor

/-! ### row-major bijection onto `[0, size)` -/

/-- No valid access touches memory outside the buffer. -/
theorem index_lt_size : ∀ (dims idx : List Nat), Valid dims idx → index dims idx < size dims
  | [], [], _ => by simp [index, size]
  | [], _ :: _, h => by simp [Valid] at h
  | _ :: _, [], h => by simp [Valid] at h
  | d :: ds, i :: is, h => by
    obtain ⟨hi, hv⟩ := h
    have ih := index_lt_size ds is hv
    simp only [index, size]
    calc i * size ds + index ds is < i * size ds + size ds := by omega
      _ = (i + 1) * size ds := by rw [Nat.add_mul, Nat.one_mul]
      _ ≤ d * size ds := Nat.mul_le_mul_right _ hi

theorem unindex_index : ∀ (dims idx : List Nat), Valid dims idx → unindex dims (index dims idx) = idx
  | [], [], _ => by simp [unindex]
  | [], _ :: _, h => by simp [Valid] at h
  | _ :: _, [], h => by simp [Valid] at h
  | d :: ds, i :: is, h => by
    obtain ⟨hi, hv⟩ := h
    have hlt := index_lt_size ds is hv
    have ih := unindex_index ds is hv
    have hpos : 0 < size ds := by omega
    simp only [index, unindex]
    have h1 : (i * size ds + index ds is) / size ds = i := by
      rw [Nat.mul_comm, Nat.mul_add_div hpos, Nat.div_eq_of_lt hlt, Nat.add_zero]
    have h2 : (i * size ds + index ds is) % size ds = index ds is := by
      rw [Nat.mul_comm, Nat.mul_add_mod, Nat.mod_eq_of_lt hlt]
    rw [h1, h2, ih]

/-- distinct valid tuples address distinct elements -/
theorem index_injective (dims a b : List Nat) (ha : Valid dims a) (hb : Valid dims b)
    (h : index dims a = index dims b) : a = b := by
  rw [← unindex_index dims a ha, ← unindex_index dims b hb, h]

theorem size_pos_of_lt {ds : List Nat} {d o : Nat} (h : o < d * size ds) : 0 < size ds := by
  rcases Nat.eq_zero_or_pos (size ds) with h0 | h0
  · simp [h0] at h
  · exact h0

theorem valid_unindex : ∀ (dims : List Nat) (o : Nat), o < size dims → Valid dims (unindex dims o)
  | [], _, _ => by simp [unindex, Valid]
  | d :: ds, o, h => by
    simp only [size] at h
    have hpos := size_pos_of_lt h
    refine ⟨?_, valid_unindex ds _ (Nat.mod_lt _ hpos)⟩
    exact (Nat.div_lt_iff_lt_mul hpos).2 h

/-- every offset below `size` is the offset of a valid tuple (surjectivity) -/
theorem index_unindex : ∀ (dims : List Nat) (o : Nat), o < size dims → index dims (unindex dims o) = o
  | [], o, h => by simp [size] at h; simp [index, h]
  | d :: ds, o, h => by
    simp only [size] at h
    have hpos := size_pos_of_lt h
    simp only [unindex, index]
    rw [index_unindex ds _ (Nat.mod_lt _ hpos)]
    exact Nat.div_add_mod' o (size ds)

/-- the row-major offset is strictly monotone for the lexicographic order of valid tuples, and conversely:
    iterating the buffer visits the index tuples in lexicographic order -/
theorem index_lex_mono : ∀ (dims a b : List Nat), Valid dims a → Valid dims b →
    (LexLt a b ↔ index dims a < index dims b)
  | [], [], [], _, _ => by simp [LexLt, index]
  | [], _ :: _, _, h, _ => by simp [Valid] at h
  | [], [], _ :: _, _, h => by simp [Valid] at h
  | _ :: _, [], _, h, _ => by simp [Valid] at h
  | _ :: _, _ :: _, [], _, h => by simp [Valid] at h
  | d :: ds, i :: as, j :: bs, ha, hb => by
    have ih := index_lex_mono ds as bs ha.2 hb.2
    have hia := index_lt_size ds as ha.2
    have hib := index_lt_size ds bs hb.2
    simp only [LexLt, index]
    constructor
    · rintro (h | ⟨h, hl⟩)
      · have : (i + 1) * size ds ≤ j * size ds := Nat.mul_le_mul_right _ h
        rw [Nat.add_mul, Nat.one_mul] at this
        omega
      · subst h
        have := ih.1 hl
        omega
    · intro h
      rcases Nat.lt_trichotomy i j with hij | hij | hij
      · exact Or.inl hij
      · subst hij
        exact Or.inr ⟨rfl, ih.2 (by omega)⟩
      · have : (j + 1) * size ds ≤ i * size ds := Nat.mul_le_mul_right _ hij
        rw [Nat.add_mul, Nat.one_mul] at this
        omega

/-- `LexLt` is the library's lexicographic `<` on lists (for tuples of equal length) -/
theorem lexLt_iff_lt : ∀ (a b : List Nat), a.length = b.length → (LexLt a b ↔ a < b)
  | [], [], _ => by simp [LexLt]
  | [], _ :: _, h => by simp at h
  | _ :: _, [], h => by simp at h
  | x :: as, y :: bs, h => by
    have ih := lexLt_iff_lt as bs (by simpa using h)
    simp only [LexLt, List.cons_lt_cons_iff, ih]

/-! ### partial-index views -/

theorem validPrefix_nil (dims : List Nat) : ValidPrefix dims [] := by
  cases dims <;> trivial

/-- `offset(p ++ q) = offset0(p) + offset within dims0(p)`: a partial view followed by indexing inside it
    addresses the element obtained by full indexing. -/
theorem index_append : ∀ (dims p q : List Nat), ValidPrefix dims p →
    index dims (p ++ q) = index dims p + index (dims0 dims p.length) q
  | dims, [], q, _ => by cases dims <;> simp [dims0, index]
  | [], _ :: _, _, h => by simp [ValidPrefix] at h
  | d :: ds, i :: is, q, h => by
    have ih := index_append ds is q h.2
    simp only [List.cons_append, index, List.length_cons, dims0, List.drop_succ_cons] at *
    omega

theorem size_drop_le : ∀ (dims p : List Nat), ValidPrefix dims p →
    index dims p + size (dims0 dims p.length) ≤ size dims
  | dims, [], _ => by cases dims <;> simp [dims0, index]
  | [], _ :: _, h => by simp [ValidPrefix] at h
  | d :: ds, i :: is, h => by
    have ih := size_drop_le ds is h.2
    have hi := h.1
    simp only [index, List.length_cons, dims0, List.drop_succ_cons, size] at *
    calc i * size ds + index ds is + size (List.drop is.length ds)
        ≤ i * size ds + size ds := by omega
      _ = (i + 1) * size ds := by rw [Nat.add_mul, Nat.one_mul]
      _ ≤ d * size ds := Nat.mul_le_mul_right _ hi

/-- the buffer range `[offset0(p), offset0(p) + size(dims0(p)))` aliased by `vector(p…)`, `matrix(p…)`,
    `tensor(p…)` lies inside the tensor's buffer -/
theorem subview_in_bounds (dims p : List Nat) (h : ValidPrefix dims p) :
    index dims p + size (dims0 dims p.length) ≤ size dims := size_drop_le dims p h

theorem valid_split : ∀ (dims p q : List Nat), ValidPrefix dims p → Valid (dims0 dims p.length) q →
    Valid dims (p ++ q)
  | dims, [], q, _, hq => by simpa [dims0] using hq
  | [], _ :: _, _, h, _ => by simp [ValidPrefix] at h
  | d :: ds, i :: is, q, h, hq => by
    refine ⟨h.1, valid_split ds is q h.2 ?_⟩
    simpa [dims0] using hq

/-- Reading element `q` of the view obtained by fixing the leading indices `p` returns the element at the
    full index `p ++ q` of the tensor. -/
theorem sub_get {α} (t : T α) (p q : List Nat) (s : T α) (hs : t.sub p = some s)
    (hq : Valid s.dims q) : s.get? q = t.get? (p ++ q) := by
  unfold T.sub at hs
  split at hs
  · rename_i hp
    cases hs
    simp only at hq
    have hv : Valid t.dims (p ++ q) := valid_split t.dims p q hp hq
    have hlt := index_lt_size _ _ hq
    simp only [T.get?, hq, hv, if_true]
    rw [index_append t.dims p q hp]
    rw [List.getElem?_take, if_pos hlt, List.getElem?_drop]
  · cases hs

/-- the view is itself a well-formed tensor -/
theorem sub_wf {α} (t : T α) (p : List Nat) (s : T α) (hwf : t.wf) (hs : t.sub p = some s) : s.wf := by
  unfold T.sub at hs
  split at hs
  · rename_i hp
    cases hs
    have hb := subview_in_bounds t.dims p hp
    unfold T.wf at *
    simp only [List.length_take, List.length_drop]
    omega
  · cases hs

/-! ### first-axis slices -/

theorem slice_wf {α} (t : T α) (b e : Nat) (s : T α) (hwf : t.wf) (hs : t.slice b e = some s) : s.wf := by
  unfold T.slice at hs
  split at hs
  · cases hs
  · rename_i d ds hd
    split at hs
    · rename_i hbe
      cases hs
      unfold T.wf at *
      rw [hd] at hwf
      simp only [List.length_take, List.length_drop, index, size, Nat.add_zero] at *
      have : b * size ds + (e - b) * size ds ≤ d * size ds := by
        rw [← Nat.add_mul]; apply Nat.mul_le_mul_right; omega
      omega
    · cases hs

/-- the buffer range `[offset0(b), offset0(b) + (e - b) * size(rest))` aliased by `slice(b, e)` lies inside the
    tensor's buffer (under the C++ assert `0 ≤ b ≤ e ≤ size<0>()`) -/
theorem slice_in_bounds (d : Nat) (ds : List Nat) (b e : Nat) (hbe : b ≤ e ∧ e ≤ d) :
    index (d :: ds) [b] + size ((e - b) :: ds) ≤ size (d :: ds) := by
  simp only [index, size, Nat.add_zero]
  have : b * size ds + (e - b) * size ds ≤ d * size ds := by
    rw [← Nat.add_mul]; apply Nat.mul_le_mul_right; omega
  omega

/-- element `(i, q…)` of `slice(b, e)` is element `(b + i, q…)` of the tensor -/
theorem slice_get {α} (t : T α) (b e i : Nat) (q : List Nat) (s : T α)
    (hs : t.slice b e = some s) (hq : Valid s.dims (i :: q)) :
    s.get? (i :: q) = t.get? ((b + i) :: q) := by
  unfold T.slice at hs
  split at hs
  · cases hs
  · rename_i d ds hd
    split at hs
    · rename_i hbe
      cases hs
      simp only at hq
      have hi : i < e - b := hq.1
      have hq2 : Valid ds q := hq.2
      have hv : Valid t.dims ((b + i) :: q) := by
        rw [hd]; exact ⟨by omega, hq2⟩
      have hlt := index_lt_size _ _ hq
      simp only [T.get?, hq, hv, if_true]
      rw [hd]
      simp only [size] at hlt
      rw [List.getElem?_take, if_pos hlt, List.getElem?_drop]
      simp only [index, Nat.add_zero]
      congr 1
      rw [Nat.add_mul]; omega
    · cases hs

/-! ### reshape -/

/-- whenever `reshape` is accepted, the new shape has exactly the tensor's number of elements, so the
    reshaped view (same buffer, `T.reshape` keeps `data`) aliases the same offsets -/
theorem iprod_map_toNat : ∀ (ds : List Int), ds.all (· ≥ 0) = true →
    iprod ds = Int.ofNat (size (ds.map Int.toNat))
  | [], _ => by simp [iprod, size]
  | d :: ds, h => by
    simp only [List.all_cons, Bool.and_eq_true, decide_eq_true_eq] at h
    have ih := iprod_map_toNat ds h.2
    simp only [iprod, List.map_cons, size, ih]
    have : d = Int.ofNat d.toNat := by simp [Int.toNat_of_nonneg h.1]
    rw [this]; simp

theorem reshape_size (total : Nat) (sizes : List Int) (ds : List Nat)
    (h : reshapeDims total sizes = some ds) : size ds = total := by
  unfold reshapeDims at h
  split at h
  · cases h
  · rename_i ds' _
    split at h
    · rename_i hc
      cases h
      have := iprod_map_toNat ds' hc.1
      rw [hc.2] at this
      exact (Int.ofNat.inj this).symm
    · cases h

theorem reshape_wf {α} (t : T α) (sizes : List Int) (s : T α) (hwf : t.wf)
    (hs : t.reshape sizes = some s) : s.wf ∧ s.data = t.data := by
  unfold T.reshape at hs
  cases hr : reshapeDims (size t.dims) sizes with
  | none => simp [hr] at hs
  | some ds =>
    simp [hr] at hs
    cases hs
    exact ⟨by unfold T.wf at *; simp [reshape_size _ _ _ hr, hwf], rfl⟩

/-- what is refused: an entry below `-1` -/
theorem reshape_rejects_negative (total : Nat) (pre rest : List Int) (d : Int) (hd : d < -1) :
    reshapeInfer (Int.ofNat total) pre (d :: rest) = none := by
  unfold reshapeInfer
  have h1 : ¬ d = -1 := by omega
  have h2 : ¬ d ≥ 0 := by omega
  simp [h1, h2]

/-- an entry below `-1` anywhere in the argument list is refused -/
theorem reshapeInfer_rejects_negative (total : Int) (d : Int) (hd : d < -1) (rest : List Int) :
    ∀ (l acc : List Int), reshapeInfer total acc (l ++ d :: rest) = none
  | [], acc => by
    have h1 : ¬ d = -1 := by omega
    have h2 : ¬ d ≥ 0 := by omega
    simp [reshapeInfer, h1, h2]
  | x :: l, acc => by
    simp only [List.cons_append, reshapeInfer]
    split
    · split
      · rfl
      · exact reshapeInfer_rejects_negative total d hd rest l _
    · split
      · exact reshapeInfer_rejects_negative total d hd rest l _
      · rfl

/-- **the inferred dimension.** If the argument list has exactly one `-1` (at position `pre.length`), all
    other entries are positive with product `P = size pre * size post` and `P ∣ total`, the reshape is
    accepted and the `-1` is replaced by `total / P` (the C++ code computes `-size() / size(dimensions)` with
    truncating division on a negative product). -/
theorem reshape_infer_one (total : Nat) (pre post : List Nat) (hpre : ∀ d ∈ pre, 0 < d)
    (hpost : ∀ d ∈ post, 0 < d) (hdvd : size pre * size post ∣ total) :
    reshapeDims total (pre.map Int.ofNat ++ -1 :: post.map Int.ofNat)
      = some (pre ++ total / (size pre * size post) :: post) := by
  rw [reshapeDims_one total pre post hpre hpost, if_pos (Nat.mul_div_cancel' hdvd)]

/-- explicit dimensions (no `-1`) are accepted exactly when their product is the number of elements -/
theorem reshape_explicit (total : Nat) (ds : List Nat) :
    reshapeDims total (ds.map Int.ofNat) = if size ds = total then some ds else none := by
  unfold reshapeDims
  have h := reshapeInfer_explicit (Int.ofNat total) ds [] []
  simp only [List.append_nil, List.nil_append] at h
  rw [h, reshapeInfer_nil]
  simp only [all_nonneg_ofNat, iprod_ofNat, map_toNat_ofNat, true_and]
  by_cases hc : size ds = total
  · simp [hc]
  · have : ¬ (Int.ofNat (size ds) = Int.ofNat total) := fun e => hc (Int.ofNat.inj e)
    rw [if_neg this, if_neg hc]

/-- **what is refused** (`none` = an `assert` of `treshape` fires, or the C++ code would divide by zero):
    (1) explicit dimensions whose product is not the number of elements;
    (2) one `-1` among positive entries whose product does not divide the number of elements;
    (3) one `-1` together with a `0` entry (division by zero);
    (4) any entry below `-1`. -/
theorem reshape_rejects (total : Nat) :
    (∀ ds : List Nat, size ds ≠ total → reshapeDims total (ds.map Int.ofNat) = none) ∧
    (∀ pre post : List Nat, (∀ d ∈ pre, 0 < d) → (∀ d ∈ post, 0 < d) → ¬ (size pre * size post ∣ total) →
      reshapeDims total (pre.map Int.ofNat ++ -1 :: post.map Int.ofNat) = none) ∧
    (∀ pre post : List Nat, size pre * size post = 0 →
      reshapeDims total (pre.map Int.ofNat ++ -1 :: post.map Int.ofNat) = none) ∧
    (∀ (l rest : List Int) (d : Int), d < -1 → reshapeDims total (l ++ d :: rest) = none) := by
  refine ⟨?_, ?_, ?_, ?_⟩
  · intro ds h
    rw [reshape_explicit, if_neg h]
  · intro pre post hpre hpost h
    rw [reshapeDims_one total pre post hpre hpost, if_neg]
    intro e
    exact h ⟨_, e.symm⟩
  · intro pre post h0
    unfold reshapeDims
    have h := reshapeInfer_explicit (Int.ofNat total) pre [] (-1 :: post.map Int.ofNat)
    rw [h, reshapeInfer]
    simp [iprod_one_neg, h0]
  · intro l rest d hd
    unfold reshapeDims
    rw [reshapeInfer_rejects_negative _ d hd rest l []]

/-- full indexing in the reshaped view reads the same buffer: element `idx` of `reshape(sizes…)` is
    `data[index newdims idx]` of the original buffer, at an offset below the tensor's size -/
theorem reshape_get {α} (t : T α) (sizes : List Int) (s : T α) (hs : t.reshape sizes = some s)
    (idx : List Nat) (hv : Valid s.dims idx) :
    s.get? idx = t.data[index s.dims idx]? ∧ index s.dims idx < size t.dims := by
  unfold T.reshape at hs
  cases hr : reshapeDims (size t.dims) sizes with
  | none => simp [hr] at hs
  | some ds =>
    simp [hr] at hs
    cases hs
    simp only at hv
    have hsz := reshape_size _ _ _ hr
    have hlt := index_lt_size ds idx hv
    exact ⟨by simp [T.get?, hv], by simp only; omega⟩

/-! ### gather (`indexed`) -/

theorem gather_dims {α} (t : T α) (I : List Nat) (s : T α) (hs : t.gather I = some s) :
    s.dims = I.length :: t.dims.drop 1 := by
  unfold T.gather at hs
  split at hs
  · cases hs
  · rename_i d ds hd
    split at hs
    · cases hs; simp [hd]
    · cases hs

theorem getElem?_flatMap_blocks {α β} (f : β → List α) (n : Nat) :
    ∀ (I : List β) (j k : Nat) (hj : j < I.length), (∀ i ∈ I, (f i).length = n) → k < n →
      (I.flatMap f)[j * n + k]? = (f I[j])[k]?
  | [], j, k, hj, _, _ => by simp at hj
  | i :: I, 0, k, _, hlen, hk => by
    have h0 : (f i).length = n := hlen i (by simp)
    simp only [List.flatMap_cons, Nat.zero_mul, Nat.zero_add, List.getElem_cons_zero]
    rw [List.getElem?_append_left (by omega)]
  | i :: I, j + 1, k, hj, hlen, hk => by
    have h0 : (f i).length = n := hlen i (by simp)
    have ih := getElem?_flatMap_blocks f n I j k (by simpa using hj) (fun x hx => hlen x (by simp [hx])) hk
    simp only [List.flatMap_cons, List.getElem_cons_succ]
    rw [List.getElem?_append_right (by rw [h0, Nat.add_mul]; omega)]
    rw [h0, ← ih]
    congr 1
    rw [Nat.add_mul]; omega

theorem length_flatMap_blocks {α β} (f : β → List α) (n : Nat) : ∀ (I : List β),
    (∀ i ∈ I, (f i).length = n) → (I.flatMap f).length = I.length * n
  | [], _ => by simp
  | i :: I, h => by
    have ih := length_flatMap_blocks f n I (fun x hx => h x (by simp [hx]))
    have h0 := h i (by simp)
    simp only [List.flatMap_cons, List.length_append, List.length_cons, ih, h0, Nat.add_mul, Nat.one_mul]
    omega

/-- the gathered tensor is well-formed: `indices.size()` sub-tensors of the input's inner size -/
theorem gather_wf {α} (t : T α) (I : List Nat) (s : T α) (hwf : t.wf) (hs : t.gather I = some s) : s.wf := by
  unfold T.gather at hs
  split at hs
  · cases hs
  · rename_i d ds hd
    split at hs
    · rename_i hall
      cases hs
      unfold T.wf at *
      rw [hd] at hwf
      simp only [size] at *
      apply length_flatMap_blocks
      intro i hi
      have hid : i < d := by
        have := List.all_eq_true.mp hall i hi
        simpa using this
      simp only [List.length_take, List.length_drop]
      have : i * size ds + size ds ≤ d * size ds := by
        calc i * size ds + size ds = (i + 1) * size ds := by rw [Nat.add_mul, Nat.one_mul]
          _ ≤ d * size ds := Nat.mul_le_mul_right _ hid
      omega
    · cases hs

/-- element `(j, q…)` of `indexed(I)` is element `(I[j], q…)` of the tensor -/
theorem gather_get {α} (t : T α) (I : List Nat) (s : T α) (j : Nat) (q : List Nat) (hwf : t.wf)
    (hs : t.gather I = some s) (hq : Valid s.dims (j :: q)) :
    ∃ hj : j < I.length, s.get? (j :: q) = t.get? (I[j] :: q) := by
  unfold T.gather at hs
  split at hs
  · cases hs
  · rename_i d ds hd
    split at hs
    · rename_i hall
      cases hs
      simp only at hq
      obtain ⟨hj, hq2⟩ := hq
      refine ⟨hj, ?_⟩
      have hIj : I[j] < d := by
        have := List.all_eq_true.mp hall I[j] (List.getElem_mem hj)
        simpa using this
      have hv : Valid t.dims (I[j] :: q) := by rw [hd]; exact ⟨hIj, hq2⟩
      have hv' : Valid (I.length :: ds) (j :: q) := ⟨hj, hq2⟩
      have hk := index_lt_size ds q hq2
      have hv2 : Valid (d :: ds) (I[j] :: q) := ⟨hIj, hq2⟩
      simp only [T.get?, hv', hv2, if_true, hd, index]
      unfold T.wf at hwf
      rw [hd] at hwf
      simp only [size] at hwf
      rw [getElem?_flatMap_blocks _ (size ds) I j (index ds q) hj ?_ hk]
      · rw [List.getElem?_take, if_pos hk, List.getElem?_drop]
      · intro i hi
        have hid : i < d := by
          have := List.all_eq_true.mp hall i hi
          simpa using this
        simp only [List.length_take, List.length_drop]
        have : i * size ds + size ds ≤ d * size ds := by
          calc i * size ds + size ds = (i + 1) * size ds := by rw [Nat.add_mul, Nat.one_mul]
            _ ≤ d * size ds := Nat.mul_le_mul_right _ hid
        omega
    · cases hs

/-! ### `remove_if`: the two-pointer loop computes the filter -/

/-- the specification, restated with the library filter: the rows whose flag is `false`, in order -/
theorem keptRows_eq_filter {α} : ∀ (mask : List Bool) (rs : List (List α)), mask.length = rs.length →
    keptRows mask rs = ((rs.zip mask).filter (fun p => !p.2)).map Prod.fst
  | [], [], _ => by simp [keptRows]
  | [], _ :: _, h => by simp at h
  | _ :: _, [], h => by simp at h
  | m :: ms, r :: rs, h => by
    have ih := keptRows_eq_filter ms rs (by simpa using h)
    cases m <;> simp [keptRows, ih]

/-- `remove_if` (the C++ two-pointer loop `removeIfRows`): the returned count is the number of kept rows and
    the first `count` rows of the tensor are exactly the kept rows, in their original order; the tensor keeps
    its number of rows (no allocation). Rows beyond `count` are not specified by the contract. -/
theorem removeIf_eq_filter {α} (mask : List Bool) (rs : List (List α)) (h : mask.length = rs.length) :
    (removeIfRows mask rs).1 = (keptRows mask rs).length ∧
    (removeIfRows mask rs).2.take (removeIfRows mask rs).1 = keptRows mask rs ∧
    (removeIfRows mask rs).2.length = rs.length := by
  obtain ⟨s1, s2, s3⟩ := removeIfSkip_spec mask 0 rs
  simp only [Nat.sub_zero] at s2 s3
  have hl := removeIfLoop_spec (removeIfSkip mask 0).2 (removeIfSkip mask 0).1 (removeIfSkip mask 0).1 rs
    (Nat.le_refl _) (by omega)
  obtain ⟨l1, l2, l3⟩ := hl
  have hk : (keptRows mask rs).length = (removeIfSkip mask 0).1 +
      (keptRows (removeIfSkip mask 0).2 (rs.drop (removeIfSkip mask 0).1)).length := by
    rw [s3, List.length_append, List.length_take]; omega
  unfold removeIfRows
  exact ⟨by rw [hk]; exact l1, by rw [s3]; exact l2, l3⟩

/-- tensor form: `remove_if` returns the number of unflagged first-axis indices, keeps the shape and the
    buffer size, and the first `count` sub-tensors are those `indexed(kept indices)` would copy — so by
    `gather_get` element `(j, q…)` of the result is element `(keptIdx[j], q…)` of the input. -/
theorem removeIf_eq_gather {α} (t : T α) (mask : List Bool) (k : Nat) (s : T α) (hwf : t.wf)
    (hs : t.removeIf mask = some (k, s)) :
    k = (keptIdx mask 0).length ∧ s.dims = t.dims ∧ s.wf ∧
    ∃ g, t.gather (keptIdx mask 0) = some g ∧ s.data.take (k * size (t.dims.drop 1)) = g.data := by
  unfold T.removeIf at hs
  split at hs
  · cases hs
  · rename_i d ds hd
    split at hs
    · rename_i hm
      unfold T.wf at hwf
      rw [hd] at hwf
      simp only [size] at hwf
      have hrl : (rows (size ds) d t.data).length = d := rows_length _ _ _
      have hrow := rows_row_length (size ds) d t.data hwf
      obtain ⟨f1, f2, f3⟩ := removeIf_eq_filter mask (rows (size ds) d t.data) (by rw [hrl]; exact hm)
      have hmem : ∀ r ∈ (removeIfRows mask (rows (size ds) d t.data)).2, r.length = size ds := by
        intro r hr
        unfold removeIfRows at hr
        exact hrow r (removeIfLoop_mem _ _ _ _ r hr)
      have hkl := keptRows_length mask 0 (rows (size ds) d t.data) (by rw [hrl]; exact hm)
      simp only [Option.some.injEq, Prod.mk.injEq] at hs
      obtain ⟨hk, hss⟩ := hs
      subst hss
      subst hk
      have hall : (keptIdx mask 0).all (· < d) = true := by
        rw [List.all_eq_true]
        intro i hi
        have := keptIdx_lt mask 0 i hi
        simp only [decide_eq_true_eq]; omega
      refine ⟨by rw [f1, hkl], by simp [hd], ?_, ?_⟩
      · unfold T.wf
        simp only [size]
        rw [flatten_length_of_rows (size ds) _ hmem, f3, hrl]
      · refine ⟨_, by rw [T.gather, hd]; simp only [hall, if_true]; rfl, ?_⟩
        simp only [hd, List.drop_succ_cons, List.drop_zero]
        rw [take_flatten_of_rows (size ds) _ _ hmem, f2]
        have := keptRows_rows_flatten (size ds) t.data mask 0
        simp only [Nat.zero_mul, List.drop_zero, hm] at this
        exact this
    · cases hs

/-! ### `integral`: the summed-area table equals the naive prefix sums (every rank) -/

/-- buffer level, every rank, by induction on the dimensions: if `f q` is the input element at the valid
    tuple `q`, the output buffer has the input's size and holds at `index dims idx` the sum of `f` over all
    tuples `q ≤ idx` componentwise. -/
theorem integralData_spec : ∀ (dims : List Nat) (xs : List Int) (f : List Nat → Int),
    xs.length = size dims → (∀ q, Valid dims q → xs[index dims q]? = some (f q)) →
    (integralData dims xs).length = size dims ∧
    ∀ idx, Valid dims idx → (integralData dims xs)[index dims idx]? = some (boxSum idx f)
  | [], xs, f, hl, hf => by
    refine ⟨by simpa [integralData] using hl, ?_⟩
    intro idx hv
    cases idx with
    | nil => simpa [integralData, boxSum] using hf [] hv
    | cons _ _ => simp [Valid] at hv
  | [d], xs, f, hl, hf => by
    have hd : xs.length = d := by simpa [size] using hl
    have hg : ∀ j, j < xs.length → xs[j]? = some (f [j]) := by
      intro j hj
      have := hf [j] ⟨by omega, trivial⟩
      simpa [index, size] using this
    refine ⟨by simp [integralData, prefixSums1_length, hl], ?_⟩
    intro idx hv
    match idx, hv with
    | [i], hv =>
      have hi : i < d := hv.1
      have := prefixSums1_get xs (fun j => f [j]) hg i (by omega)
      simpa [integralData, index, size, boxSum] using this
    | _ :: _ :: _, hv => exact absurd hv.2 (by simp [Valid])
  | d :: d2 :: ds, xs, f, hl, hf => by
    have hl' : xs.length = d * size (d2 :: ds) := hl
    have hrowlen : ∀ j, j < d → ((xs.drop (j * size (d2 :: ds))).take (size (d2 :: ds))).length
        = size (d2 :: ds) := by
      intro j hj
      rw [List.length_take, List.length_drop, hl']
      have : j * size (d2 :: ds) + size (d2 :: ds) ≤ d * size (d2 :: ds) := by
        calc j * size (d2 :: ds) + size (d2 :: ds) = (j + 1) * size (d2 :: ds) := by
              rw [Nat.add_mul, Nat.one_mul]
          _ ≤ d * size (d2 :: ds) := Nat.mul_le_mul_right _ hj
      omega
    have hinner : ∀ j r, ((rows (size (d2 :: ds)) d xs).map (integralData (d2 :: ds)))[j]? = some r →
        IsRow (size (d2 :: ds)) (fun k => boxSum (unindex (d2 :: ds) k) (fun q => f (j :: q))) r := by
      intro j r hj
      rw [List.getElem?_map] at hj
      rcases Nat.lt_or_ge j d with hjd | hjd
      · rw [rows_get _ d xs j hjd] at hj
        simp only [Option.map_some, Option.some.injEq] at hj
        subst hj
        obtain ⟨il, ig⟩ := integralData_spec (d2 :: ds) _ (fun q => f (j :: q)) (hrowlen j hjd) (by
          intro q hq
          have hk := index_lt_size (d2 :: ds) q hq
          rw [List.getElem?_take, if_pos hk, List.getElem?_drop]
          have := hf (j :: q) ⟨hjd, hq⟩
          simpa [index] using this)
        refine ⟨il, fun k hk => ?_⟩
        have := ig (unindex (d2 :: ds) k) (valid_unindex (d2 :: ds) k hk)
        rw [index_unindex (d2 :: ds) k hk] at this
        exact this
      · rw [List.getElem?_eq_none (by rw [rows_length]; exact hjd)] at hj
        simp at hj
    have hacc := accRows1_spec (size (d2 :: ds)) _ _ hinner
    have hlen_acc : (accRows1 ((rows (size (d2 :: ds)) d xs).map (integralData (d2 :: ds)))).length = d := by
      rw [accRows1_length, List.length_map, rows_length]
    have hmem : ∀ r ∈ accRows1 ((rows (size (d2 :: ds)) d xs).map (integralData (d2 :: ds))),
        r.length = size (d2 :: ds) := by
      intro r hr
      obtain ⟨i, hi⟩ := List.mem_iff_getElem?.1 hr
      exact (hacc i r hi).1
    refine ⟨?_, ?_⟩
    · simp only [integralData]
      rw [flatten_length_of_rows _ _ hmem, hlen_acc]
      rfl
    · intro idx hv
      match idx, hv with
      | i :: is, ⟨hi, his⟩ =>
        have hk := index_lt_size (d2 :: ds) is his
        obtain ⟨row, hrow⟩ : ∃ row, (accRows1 ((rows (size (d2 :: ds)) d xs).map
            (integralData (d2 :: ds))))[i]? = some row :=
          ⟨_, List.getElem?_eq_getElem (by rw [hlen_acc]; exact hi)⟩
        have hr := hacc i row hrow
        simp only [integralData, index]
        rw [flatten_get _ _ i _ row hmem hrow hk, hr.2 _ hk]
        simp only [boxSum, unindex_index (d2 :: ds) is his]

/-- **summed-area table = naive prefix sums, every rank.** For a well-formed tensor whose element at the
    valid tuple `q` is `f q`, `nano::integral` yields a well-formed tensor of the same shape whose element
    at `idx` is the sum of the input over all `q ≤ idx` componentwise. -/
theorem integral_eq_prefix_sums (t : T Int) (f : List Nat → Int) (hwf : t.wf)
    (hf : ∀ q, Valid t.dims q → t.get? q = some (f q)) :
    t.integral.dims = t.dims ∧ t.integral.wf ∧
    ∀ idx, Valid t.dims idx → t.integral.get? idx = some (boxSum idx f) := by
  have hf' : ∀ q, Valid t.dims q → t.data[index t.dims q]? = some (f q) := by
    intro q hq
    have := hf q hq
    simpa [T.get?, hq] using this
  obtain ⟨hl, hg⟩ := integralData_spec t.dims t.data f hwf hf'
  unfold T.integral
  split
  · rename_i h0
    refine ⟨rfl, hwf, ?_⟩
    intro idx hv
    have := index_lt_size _ _ hv
    omega
  · refine ⟨rfl, hl, ?_⟩
    intro idx hv
    simp only [T.get?, hv, if_true]
    exact hg idx hv

/-- rank 1: `out[i] = Σ_{j ≤ i} xs[j]` -/
theorem integral_rank1 (xs : List Int) (i : Nat) (hi : i < xs.length) :
    (integralData [xs.length] xs)[i]? = some (sumTo i (fun j => xs.getD j 0)) := by
  have := (integralData_spec [xs.length] xs (fun q => xs.getD (index [xs.length] q) 0)
    (by simp [size]) (by
      intro q hq
      have := index_lt_size _ _ hq
      simp only [size, Nat.mul_one] at this
      simp [List.getD, List.getElem?_eq_getElem this])).2 [i] ⟨hi, trivial⟩
  simpa [index, size, boxSum] using this

/-- rank 2: `out[i, k] = Σ_{j ≤ i} Σ_{l ≤ k} xs[j * c + l]` for an `r × c` row-major buffer -/
theorem integral_rank2 (r c : Nat) (xs : List Int) (hl : xs.length = r * c) (i k : Nat) (hi : i < r) (hk : k < c) :
    (integralData [r, c] xs)[i * c + k]?
      = some (sumTo i (fun j => sumTo k (fun l => xs.getD (j * c + l) 0))) := by
  have := (integralData_spec [r, c] xs (fun q => xs.getD (index [r, c] q) 0)
    (by simp [size, hl]) (by
      intro q hq
      have := index_lt_size _ _ hq
      simp only [size, Nat.mul_one] at this
      simp [List.getD, List.getElem?_eq_getElem (hl ▸ this)])).2 [i, k] ⟨hi, hk, trivial⟩
  simpa [index, size, boxSum] using this

/-! ### matrix form of `stack` -/

/-- **every block lands where the layout says.** If `stack(rows, cols, blocks…)` is accepted (no assert
    fires) and the blocks are compatible in size (`StackAligned`: a block continuing a block-row has the height
    of its left neighbour), the result is a `rows × cols` buffer in which element `(r, c)` of block `k` sits
    at `(row0 + r, col0 + c)`, `(row0, col0) = stackPos[k]` being the position the wrap rule assigns to the
    block — inside the matrix, and not overwritten by any later block. -/
theorem stack_block_get {α} (fill : α) (rows cols : Nat) (blocks : List (Block α)) (M : List α)
    (hal : StackAligned cols blocks 0) (h : stackMat fill rows cols blocks = some M) :
    M.length = rows * cols ∧
    ∀ (k : Nat) (bk : Block α) (row0 col0 : Nat), blocks[k]? = some bk →
      (stackPos cols blocks 0 0)[k]? = some (row0, col0) →
      ∀ r c, r < bk.rows → c < bk.cols →
        M[(row0 + r) * cols + (col0 + c)]? = bk.data[r * bk.cols + c]? ∧ row0 + r < rows ∧ col0 + c < cols := by
  cases blocks with
  | nil => simp [stackMat] at h
  | cons b bs =>
    simp only [stackMat] at h
    obtain ⟨h1, _, h3⟩ := stackMatGo_spec rows cols bs b 0 0 _ M hal h (by simp)
    exact ⟨h1, h3⟩

/-- vector form of `stack`: the result has the requested size and segment `k` starts where the previous
    segments end (`vector.segment(row, block.size()) = block`, `row` = sum of the earlier sizes) -/
theorem stackVec_get {α} (n : Nat) (blocks : List (List α)) (v : List α) (h : stackVec n blocks = some v) :
    v.length = n ∧ ∀ (k : Nat) (blk : List α) (i : Nat), blocks[k]? = some blk → i < blk.length →
      v[(blocks.take k).flatten.length + i]? = blk[i]? := by
  unfold stackVec at h
  simp only at h
  split at h
  · rename_i hl
    cases h
    refine ⟨hl, ?_⟩
    intro k blk i hk hi
    have hk' : k < blocks.length := (List.getElem?_eq_some_iff.1 hk).1
    have hsplit : blocks = blocks.take k ++ blk :: blocks.drop (k + 1) := by
      have hg : blocks[k] = blk := (List.getElem?_eq_some_iff.1 hk).2
      rw [← hg, ← List.drop_eq_getElem_cons hk', List.take_append_drop]
    have hf : blocks.flatten = (blocks.take k).flatten ++ (blk ++ (blocks.drop (k + 1)).flatten) := by
      conv => lhs; rw [hsplit]
      simp
    rw [hf, List.getElem?_append_right (by omega), Nat.add_sub_cancel_left, List.getElem?_append_left hi]
  · cases h

/-- the first block-row of the header's example: two blocks side by side, then a full-width block below -/
example : stackMat (0 : Int) 3 3 [⟨2, 2, [1, 2, 3, 4]⟩, ⟨2, 1, [5, 6]⟩, ⟨1, 3, [7, 8, 9]⟩]
    = some [1, 2, 5, 3, 4, 6, 7, 8, 9] := by decide
example : stackPos 3 [(⟨2, 2, [1, 2, 3, 4]⟩ : Block Int), ⟨2, 1, [5, 6]⟩, ⟨1, 3, [7, 8, 9]⟩] 0 0
    = [(0, 0), (0, 2), (2, 0)] := by decide
example : StackAligned 3 [(⟨2, 2, [1, 2, 3, 4]⟩ : Block Int), ⟨2, 1, [5, 6]⟩, ⟨1, 3, [7, 8, 9]⟩] 0 :=
  ⟨fun _ => rfl, fun h => absurd h (by decide), trivial⟩
example : stackVec 5 [[1, 2], [], [3, 4, 5]] = some [1, 2, 3, 4, 5] ∧ stackVec 4 [[1, 2], [3, 4, 5]] = none := by
  decide
-- refused: the last block does not end at the bottom-right corner
example : stackMat (0 : Int) 3 3 [⟨2, 2, [1, 2, 3, 4]⟩, ⟨2, 1, [5, 6]⟩] = none := by decide

/-! ### non-owning tensors: what a view aliases, assignments of views, writes through views -/

/-- **a view aliases exactly the elements obtained by full indexing**: element `idx` of a non-owning tensor is the
    buffer element at `off + index dims idx` — below `off + size dims`, i.e. inside the viewed range -/
theorem view_get {α} (buf : List α) (v : View) (idx : List Nat) (hv : Valid v.dims idx) :
    (assignView buf v).get? idx = buf[v.off + index v.dims idx]? ∧ v.off + index v.dims idx < v.off + size v.dims := by
  have hlt := index_lt_size _ _ hv
  refine ⟨?_, by omega⟩
  simp only [assignView, View.read, T.get?, hv, if_true]
  rw [List.getElem?_take, if_pos hlt, List.getElem?_drop]

/-- for the owning tensor itself (`data()`, `tensor()`, the conversions to a map / constant map): the view of the whole
    buffer reads what full indexing reads — converting between the three storages changes no element -/
theorem owner_view_get {α} (t : T α) (idx : List Nat) (hv : Valid t.dims idx) :
    (assignView t.data t.view).get? idx = t.get? idx := by
  rw [(view_get t.data t.view idx hv).1]
  simp [T.view, T.get?, hv]

/-- owning → map → owning is the identity on well-formed tensors -/
theorem assign_full_view {α} (t : T α) (hwf : t.wf) : assignView t.data t.view = t := by
  unfold T.wf at hwf
  cases t with
  | mk dims data =>
    simp only [assignView, View.read, T.view, List.drop_zero] at *
    rw [List.take_of_length_le (Nat.le_of_eq hwf)]

/-- a view inside the buffer is copied to a well-formed tensor with the view's dims -/
theorem assign_wf {α} (buf : List α) (v : View) (hb : v.InBounds buf.length) :
    (assignView buf v).wf ∧ (assignView buf v).dims = v.dims := by
  unfold View.InBounds at hb
  refine ⟨?_, rfl⟩
  simp only [T.wf, assignView, View.read, List.length_take, List.length_drop]
  omega

/-- partial-index views of ANY storage stay inside the tensor they are taken from (hence inside the buffer) -/
theorem view_sub_in_bounds (v w : View) (p : List Nat) (hs : v.sub p = some w) :
    v.off ≤ w.off ∧ w.off + size w.dims ≤ v.off + size v.dims := by
  unfold View.sub at hs
  split at hs
  · rename_i hp
    cases hs
    have := subview_in_bounds v.dims p hp
    simp only
    omega
  · cases hs

theorem view_slice_in_bounds (v w : View) (b e : Nat) (hs : v.slice b e = some w) :
    v.off ≤ w.off ∧ w.off + size w.dims ≤ v.off + size v.dims := by
  unfold View.slice at hs
  split at hs
  · cases hs
  · rename_i d ds hd
    split at hs
    · rename_i hbe
      cases hs
      have := slice_in_bounds d ds b e hbe
      rw [hd]
      simp only
      omega
    · cases hs

theorem view_reshape_in_bounds (v w : View) (sizes : List Int) (hs : v.reshape sizes = some w) :
    w.off = v.off ∧ size w.dims = size v.dims := by
  unfold View.reshape at hs
  cases hr : reshapeDims (size v.dims) sizes with
  | none => simp [hr] at hs
  | some ds =>
    simp [hr] at hs
    cases hs
    exact ⟨rfl, reshape_size _ _ _ hr⟩

/-- element `q` of `x.tensor(p…)` (also `vector` / `array` / `matrix`: same pointer, same elements) is element `p ++ q`
    of `x`, for `x` of any storage — in particular for a view of a view -/
theorem view_sub_elem {α} (buf : List α) (v w : View) (p q : List Nat) (hs : v.sub p = some w)
    (hq : Valid w.dims q) : (assignView buf w).get? q = (assignView buf v).get? (p ++ q) := by
  unfold View.sub at hs
  split at hs
  · rename_i hp
    cases hs
    simp only at hq
    have hv := valid_split v.dims p q hp hq
    rw [(view_get buf _ q hq).1, (view_get buf v (p ++ q) hv).1, index_append v.dims p q hp]
    simp only [Nat.add_assoc]
  · cases hs

/-- element `(i, q…)` of `x.slice(b, e)` is element `(b + i, q…)` of `x`, for `x` of any storage -/
theorem view_slice_elem {α} (buf : List α) (v w : View) (b e i : Nat) (q : List Nat) (hs : v.slice b e = some w)
    (hq : Valid w.dims (i :: q)) : (assignView buf w).get? (i :: q) = (assignView buf v).get? ((b + i) :: q) := by
  unfold View.slice at hs
  split at hs
  · cases hs
  · rename_i d ds hd
    split at hs
    · rename_i hbe
      cases hs
      simp only at hq
      have hi : i < e - b := hq.1
      have hv : Valid v.dims ((b + i) :: q) := by rw [hd]; exact ⟨by omega, hq.2⟩
      rw [(view_get buf _ _ hq).1, (view_get buf v _ hv).1, hd]
      simp only [index, Nat.add_zero]
      congr 1
      rw [Nat.add_mul]; omega
    · cases hs

/-- element `idx` of `x.reshape(sizes…)` is the `index newdims idx`-th element of `x` in row-major order, below `size` -/
theorem view_reshape_elem {α} (buf : List α) (v w : View) (sizes : List Int) (hs : v.reshape sizes = some w)
    (idx : List Nat) (hv : Valid w.dims idx) :
    (assignView buf w).get? idx = buf[v.off + index w.dims idx]? ∧ index w.dims idx < size v.dims := by
  obtain ⟨ho, hsz⟩ := view_reshape_in_bounds v w sizes hs
  have hlt := index_lt_size _ _ hv
  rw [(view_get buf w idx hv).1, ho]
  exact ⟨rfl, by omega⟩

/-- **`t = t.slice(b, e)`** (and `other = t.slice(b, e)`, from the owning tensor, its const form, a map or a constant map
    of it): element `(i, q…)` of the assigned tensor is element `(b + i, q…)` of `t` AS IT WAS BEFORE the assignment;
    the assigned tensor has the slice's dims and is well-formed -/
theorem assign_slice_elem {α} (t : T α) (hwf : t.wf) (b e : Nat) (w : View) (hs : t.view.slice b e = some w) :
    (assignView t.data w).dims = (e - b) :: t.dims.drop 1 ∧ (assignView t.data w).wf ∧
    ∀ i q, Valid w.dims (i :: q) → (assignView t.data w).get? (i :: q) = t.get? ((b + i) :: q) := by
  have hb := view_slice_in_bounds _ _ _ _ hs
  refine ⟨?_, (assign_wf t.data w (by unfold View.InBounds T.wf at *; simp only [T.view] at hb; omega)).1, ?_⟩
  · unfold View.slice at hs
    split at hs
    · cases hs
    · rename_i d ds hd
      split at hs
      · cases hs
        simp only [T.view] at hd
        simp [assignView, hd]
      · cases hs
  · intro i q hq
    have hi : b + i < (t.dims.headD 0) ∧ Valid (t.dims.drop 1) q := by
      unfold View.slice at hs
      split at hs
      · cases hs
      · rename_i d ds hd
        split at hs
        · rename_i hbe
          cases hs
          simp only [T.view] at hd
          have h1 : i < e - b := hq.1
          rw [hd]
          exact ⟨by simp; omega, by simpa using hq.2⟩
        · cases hs
    have hv : Valid t.dims ((b + i) :: q) := by
      cases hd : t.dims with
      | nil => simp [hd] at hi
      | cons d ds => simp only [hd, List.headD_cons, List.drop_succ_cons, List.drop_zero] at hi; exact hi
    rw [view_slice_elem t.data t.view w b e i q hs hq, owner_view_get t _ hv]

/-- **`x = t.tensor(p…)`**: element `q` of the assigned tensor is element `p ++ q` of `t` as it was before -/
theorem assign_sub_elem {α} (t : T α) (hwf : t.wf) (p : List Nat) (w : View) (hs : t.view.sub p = some w) :
    (assignView t.data w).dims = t.dims.drop p.length ∧ (assignView t.data w).wf ∧
    ∀ q, Valid w.dims q → (assignView t.data w).get? q = t.get? (p ++ q) := by
  have hb := view_sub_in_bounds _ _ _ hs
  refine ⟨?_, (assign_wf t.data w (by unfold View.InBounds T.wf at *; simp only [T.view] at hb; omega)).1, ?_⟩
  · unfold View.sub at hs
    split at hs
    · cases hs; rfl
    · cases hs
  · intro q hq
    have hv : Valid t.dims (p ++ q) := by
      unfold View.sub at hs
      split at hs
      · rename_i hp
        cases hs
        exact valid_split t.dims p q hp hq
      · cases hs
    rw [view_sub_elem t.data t.view w p q hs hq, owner_view_get t _ hv]

/-- **`t = t.reshape(sizes…)`**: the assigned tensor has the reshaped dims, as many elements as `t`, and its
    elements are those of `t` (as it was before) in row-major order -/
theorem assign_reshape_elem {α} (t : T α) (hwf : t.wf) (sizes : List Int) (w : View)
    (hs : t.view.reshape sizes = some w) :
    size (assignView t.data w).dims = size t.dims ∧ (assignView t.data w).data = t.data := by
  obtain ⟨ho, hsz⟩ := view_reshape_in_bounds _ _ _ hs
  unfold T.wf at hwf
  simp only [T.view] at ho hsz
  refine ⟨hsz, ?_⟩
  simp only [assignView, View.read, ho, List.drop_zero, hsz]
  rw [List.take_of_length_le (Nat.le_of_eq hwf)]

/-- **writes through a view change exactly the aliased offsets** (buffer level, any view): the buffer keeps its
    size, the `j`-th element of the view receives `vals[j]`, every offset outside `[off, off + size)` keeps its value -/
theorem write_through_view_frame {α} (v : View) (buf vals buf' : List α) (h : v.write buf vals = some buf') :
    buf'.length = buf.length ∧
    (∀ j, j < size v.dims → buf'[v.off + j]? = vals[j]?) ∧
    (∀ o, (o < v.off ∨ v.off + size v.dims ≤ o) → buf'[o]? = buf[o]?) := by
  unfold View.write at h
  split at h
  · rename_i hg
    obtain ⟨hl, hb⟩ := hg
    cases h
    refine ⟨splice_length _ _ _ (by omega), ?_, ?_⟩
    · intro j hj
      exact splice_get_inside _ _ _ (by omega) j (by omega)
    · rintro o (ho | ho)
      · exact splice_get_before _ _ _ (by omega) o ho
      · exact splice_get_after _ _ _ (by omega) o (by omega)
  · cases h

theorem valid_drop : ∀ (dims idx : List Nat) (k : Nat), Valid dims idx → Valid (dims.drop k) (idx.drop k)
  | dims, idx, 0, h => by simpa using h
  | [], [], _ + 1, _ => by simp [Valid]
  | [], _ :: _, _, h => by simp [Valid] at h
  | _ :: _, [], _, h => by simp [Valid] at h
  | _ :: ds, _ :: is, k + 1, h => by
    simp only [List.drop_succ_cons]
    exact valid_drop ds is k h.2

/-- a valid index tuple that does not start with the prefix `p` addresses an element outside the range
    `[offset0(p), offset0(p) + size(dims0(p)))` -/
theorem index_outside_subview : ∀ (dims p idx : List Nat), ValidPrefix dims p → Valid dims idx →
    idx.take p.length ≠ p →
    index dims idx < index dims p ∨ index dims p + size (dims0 dims p.length) ≤ index dims idx
  | _, [], _, _, _, h => by simp at h
  | [], _ :: _, _, hp, _, _ => by simp [ValidPrefix] at hp
  | _ :: _, _ :: _, [], _, hv, _ => by simp [Valid] at hv
  | d :: ds, i :: is, j :: js, hp, hv, h => by
    have hjs := index_lt_size ds js hv.2
    have hsub := size_drop_le ds is hp.2
    simp only [index, dims0, List.length_cons, List.drop_succ_cons] at *
    rcases Nat.lt_trichotomy j i with hji | hji | hji
    · left
      have : (j + 1) * size ds ≤ i * size ds := Nat.mul_le_mul_right _ hji
      rw [Nat.add_mul, Nat.one_mul] at this
      omega
    · subst hji
      have h' : js.take is.length ≠ is := by
        intro e
        apply h
        simp [List.take_succ_cons, e]
      rcases index_outside_subview ds is js hp.2 hv.2 h' with r | r
      · left; omega
      · right; simp only [dims0] at r; omega
    · right
      have : (i + 1) * size ds ≤ j * size ds := Nat.mul_le_mul_right _ hji
      rw [Nat.add_mul, Nat.one_mul] at this
      omega

/-- **index level, partial-index view**: after writing `vals` through `t.tensor(p…)` (`vector` / `array` / `matrix`
    alike), the element at a valid tuple `idx` is `vals[index within the view]` when `idx` starts with `p` and is
    unchanged otherwise; the dims are unchanged -/
theorem write_sub_get {α} (t : T α) (p : List Nat) (w : View) (vals buf' : List α)
    (hs : t.view.sub p = some w) (hw : w.write t.data vals = some buf') (idx : List Nat) (hv : Valid t.dims idx) :
    (⟨t.dims, buf'⟩ : T α).get? idx =
      if idx.take p.length = p then vals[index w.dims (idx.drop p.length)]? else t.get? idx := by
  obtain ⟨_, hin, hout⟩ := write_through_view_frame w t.data vals buf' hw
  unfold View.sub at hs
  split at hs
  · rename_i hp
    cases hs
    simp only [T.view, Nat.zero_add] at *
    simp only [T.get?, hv, if_true]
    split
    · rename_i htake
      have e : p ++ idx.drop p.length = idx := by
        calc p ++ idx.drop p.length = idx.take p.length ++ idx.drop p.length := by rw [htake]
          _ = idx := List.take_append_drop _ _
      have hvd : Valid (dims0 t.dims p.length) (idx.drop p.length) := valid_drop t.dims idx p.length hv
      have hi := index_append t.dims p (idx.drop p.length) hp
      rw [e] at hi
      rw [hi]
      exact hin _ (index_lt_size _ _ hvd)
    · rename_i htake
      exact hout _ (index_outside_subview t.dims p idx hp hv htake)
  · cases hs

/-- **index level, first-axis slice**: after writing `vals` through `t.slice(b, e)`, element `(i, q…)` is
    `vals[index within the slice of (i - b, q…)]` when `b ≤ i < e` and is unchanged otherwise -/
theorem write_slice_get {α} (t : T α) (b e : Nat) (w : View) (vals buf' : List α)
    (hs : t.view.slice b e = some w) (hw : w.write t.data vals = some buf') (i : Nat) (q : List Nat)
    (hv : Valid t.dims (i :: q)) :
    (⟨t.dims, buf'⟩ : T α).get? (i :: q) =
      if b ≤ i ∧ i < e then vals[index w.dims ((i - b) :: q)]? else t.get? (i :: q) := by
  obtain ⟨_, hin, hout⟩ := write_through_view_frame w t.data vals buf' hw
  unfold View.slice at hs
  split at hs
  · cases hs
  · rename_i d ds hd
    split at hs
    · rename_i hbe
      cases hs
      simp only [T.view] at hd
      simp only [T.view, Nat.zero_add, index, Nat.add_zero, size] at hin hout
      rw [hd] at hv
      have hq := index_lt_size ds q hv.2
      simp only [T.get?, hd, hv, if_true, index]
      split
      · rename_i hie
        have h1 : b * size ds + (i - b) * size ds = i * size ds := by
          rw [← Nat.add_mul]; congr 1; omega
        have h2 : (i - b) * size ds + size ds ≤ (e - b) * size ds := by
          calc (i - b) * size ds + size ds = (i - b + 1) * size ds := by rw [Nat.add_mul, Nat.one_mul]
            _ ≤ (e - b) * size ds := Nat.mul_le_mul_right _ (by omega)
        have := hin ((i - b) * size ds + index ds q) (by omega)
        rw [← this]
        congr 1
        omega
      · rename_i hie
        apply hout
        rcases Nat.lt_or_ge i b with hib | hib
        · left
          have : (i + 1) * size ds ≤ b * size ds := Nat.mul_le_mul_right _ hib
          rw [Nat.add_mul, Nat.one_mul] at this
          omega
        · right
          have hei : e ≤ i := by omega
          have h1 : b * size ds + (e - b) * size ds = e * size ds := by
            rw [← Nat.add_mul]; congr 1; omega
          have : e * size ds ≤ i * size ds := Nat.mul_le_mul_right _ hei
          omega
    · cases hs

/-! ### gathers into a provided output -/

/-- the overload writing into mapped memory of the right shape copies what `indexed(indices)` returns, whatever the
    memory held -/
theorem gather_into_map_eq_gather {α} (t out : T α) (I : List Nat) (hwf : t.wf) (hout : out.wf) :
    t.gatherIntoMap I out = if out.dims = I.length :: t.dims.drop 1 then t.gather I else none := by
  unfold T.gatherIntoMap T.gather
  cases hd : t.dims with
  | nil => simp
  | cons d ds =>
    simp only [List.drop_succ_cons, List.drop_zero]
    by_cases hall : I.all (· < d) = true
    · by_cases ho : out.dims = I.length :: ds
      · simp only [hall, ho, and_self, if_true]
        unfold T.wf at hwf hout
        rw [hd] at hwf
        rw [ho] at hout
        simp only [size] at hwf hout
        have hrow : ∀ i ∈ I, ((t.data.drop (i * size ds)).take (size ds)).length = size ds := by
          intro i hi
          have hid : i < d := by
            have := List.all_eq_true.mp hall i hi
            simpa using this
          exact row_length t.data d (size ds) i hwf hid
        rw [gatherRows_spec (size ds) t.data I 0 out.data (by rw [hout, Nat.zero_add]) hrow]
        simp
      · simp [ho]
    · simp [hall]

/-- **gather into a provided owning output re-dimensions it**: whatever dims and contents the output had (more, fewer
    or as many elements), the result is the tensor `indexed(indices)` returns -/
theorem gather_into_eq_gather {α} (junk : α) (t out : T α) (I : List Nat) (hwf : t.wf) :
    t.gatherInto junk I out = t.gather I := by
  unfold T.gatherInto
  cases hd : t.dims with
  | nil => simp [T.gather, hd]
  | cons d ds =>
    simp only
    rw [gather_into_map_eq_gather t _ I hwf (by unfold T.wf; simp only; exact resizeBuf_length _ _ _)]
    simp [hd]

theorem gather_into_dims {α} (junk : α) (t out s : T α) (I : List Nat) (hwf : t.wf)
    (h : t.gatherInto junk I out = some s) : s.dims = I.length :: t.dims.drop 1 ∧ s.wf := by
  rw [gather_into_eq_gather junk t out I hwf] at h
  exact ⟨gather_dims t I s h, gather_wf t I s hwf h⟩

/-- element `(j, q…)` of the re-used output is element `(I[j], q…)` of the tensor -/
theorem gather_into_get {α} (junk : α) (t out s : T α) (I : List Nat) (j : Nat) (q : List Nat) (hwf : t.wf)
    (h : t.gatherInto junk I out = some s) (hq : Valid s.dims (j :: q)) :
    ∃ hj : j < I.length, s.get? (j :: q) = t.get? (I[j] :: q) := by
  rw [gather_into_eq_gather junk t out I hwf] at h
  exact gather_get t I s j q hwf h hq

/-! ### integral with distinct input / output scalar types -/

/-- **mixed-type summed-area table = prefix sums of the converted input**: with `conv` the conversion of an input
    element to the output type (exact for every pair the property names, the output being at least as wide), the
    table holds at `idx` the sum of the converted input over all `q ≤ idx` componentwise -/
theorem integralX_eq_prefix_sums {β} (conv : β → Int) (t : T β) (f : List Nat → β) (hwf : t.wf)
    (hf : ∀ q, Valid t.dims q → t.get? q = some (f q)) :
    (t.integralX conv).dims = t.dims ∧ (t.integralX conv).wf ∧
    ∀ idx, Valid t.dims idx → (t.integralX conv).get? idx = some (boxSum idx (fun q => conv (f q))) := by
  unfold T.integralX
  apply integral_eq_prefix_sums ⟨t.dims, t.data.map conv⟩ (fun q => conv (f q))
  · unfold T.wf at *
    simpa using hwf
  · intro q hq
    have := hf q hq
    simp only [T.get?, hq, if_true] at this ⊢
    rw [List.getElem?_map, this]
    rfl

/-- an integer inside the `w`-bit two's-complement range is not changed by wrapping -/
theorem wrap_exact (w : Nat) (hw : 0 < w) (x : Int) (hlo : -(2 ^ (w - 1) : Int) ≤ x) (hhi : x < 2 ^ (w - 1)) :
    (BitVec.ofInt w x).toInt = x := by
  rw [BitVec.toInt_ofInt]
  have hp : (2 : Int) ^ w = 2 * 2 ^ (w - 1) := by
    have : w = (w - 1) + 1 := by omega
    conv => lhs; rw [this, Int.pow_succ]
    omega
  apply Int.bmod_eq_of_le
  · have : ((2 ^ w : Nat) : Int) = 2 * 2 ^ (w - 1) := by rw [← hp]; simp
    rw [this]; omega
  · have : ((2 ^ w : Nat) : Int) = 2 * 2 ^ (w - 1) := by rw [← hp]; simp
    rw [this]; omega

/-- **the table computed in `w`-bit two's-complement arithmetic** (an `int32_t` / `int64_t` output, sums that leave the
    type wrap around) holds at `idx` the wrapped exact prefix sum — hence the exact prefix sum whenever that fits the
    output type, even if sums formed on the way did not -/
theorem integralWrapped_spec (w : Nat) (hw : 0 < w) (dims : List Nat) (xs : List Int) (f : List Nat → Int)
    (hl : xs.length = size dims) (hf : ∀ q, Valid dims q → xs[index dims q]? = some (f q)) :
    (integralWrapped w dims xs).length = size dims ∧
    ∀ idx, Valid dims idx →
      (integralWrapped w dims xs)[index dims idx]? = some (BitVec.ofInt w (boxSum idx f)).toInt ∧
      (-(2 ^ (w - 1) : Int) ≤ boxSum idx f → boxSum idx f < 2 ^ (w - 1) →
        (integralWrapped w dims xs)[index dims idx]? = some (boxSum idx f)) := by
  obtain ⟨il, ig⟩ := integralData_spec dims xs f hl hf
  have hh : integralWrapped w dims xs = ((integralData dims xs).map (BitVec.ofInt w)).map BitVec.toInt := by
    unfold integralWrapped
    rw [integralData_hom (BitVec.ofInt w) (fun a b => BitVec.ofInt_add a b)]
  refine ⟨by rw [hh]; simp [il], ?_⟩
  intro idx hv
  have h1 : (integralWrapped w dims xs)[index dims idx]? = some (BitVec.ofInt w (boxSum idx f)).toInt := by
    rw [hh, List.getElem?_map, List.getElem?_map, ig idx hv]
    rfl
  refine ⟨h1, ?_⟩
  intro hlo hhi
  rw [h1, wrap_exact w hw _ hlo hhi]

/-! ### non-vacuity: the shape of the unit test, and a shape with a 0 and a 1 dimension -/

example : Valid [3, 7, 5, 4] [2, 6, 4, 3] ∧ index [3, 7, 5, 4] [2, 6, 4, 3] = 419 ∧ size [3, 7, 5, 4] = 420 := by
  decide
example : ValidPrefix [3, 7, 5, 4] [2, 6] ∧ index [3, 7, 5, 4] [2, 6] + size (dims0 [3, 7, 5, 4] 2) = 420 := by
  decide
example : LexLt [1, 6, 4, 3] [2, 0, 0, 0] ∧ index [3, 7, 5, 4] [1, 6, 4, 3] + 1 = index [3, 7, 5, 4] [2, 0, 0, 0] :=
  ⟨Or.inl (by decide), by decide⟩
example : ((T.slice ⟨[4, 2], [0, 1, 2, 3, 4, 5, 6, 7]⟩ 1 3).map fun s => (s.dims, s.data)) = some ([2, 2], [2, 3, 4, 5])
    ∧ ((T.gather ⟨[4, 2], [0, 1, 2, 3, 4, 5, 6, 7]⟩ [3, 0, 3]).map fun s => (s.dims, s.data))
        = some ([3, 2], [6, 7, 0, 1, 6, 7])
    ∧ ((T.reshape ⟨[4, 2], [0, 1, 2, 3, 4, 5, 6, 7]⟩ [2, -1, 2]).map fun s => (s.dims, s.data))
        = some ([2, 2, 2], [0, 1, 2, 3, 4, 5, 6, 7]) := by
  decide
example : size [2, 0, 1] = 0 ∧ ¬ Valid [2, 0, 1] [0, 0, 0] := by decide
example : reshapeDims 24 [2, -1, 3] = some [2, 4, 3] := by decide
example : reshapeDims 24 [5, -1] = none := by decide
example : reshapeDims 24 [4, 5] = none ∧ reshapeDims 24 [0, -1] = none ∧ reshapeDims 24 [-2, 12] = none
    ∧ reshapeDims 0 [3, -1, 2] = some [3, 0, 2] ∧ reshapeDims 24 [-1] = some [24] := by decide
-- integral: 2x3 table, a rank-3 table, and the specification side evaluated on a 2x3 box
example : integralData [2, 3] [1, 2, 3, 4, 5, 6] = [1, 3, 6, 5, 12, 21] := by decide
example : (T.integral ⟨[2, 2, 2], [1, 1, 1, 1, 1, 1, 1, -7]⟩).data = [1, 2, 2, 4, 2, 4, 4, 0] := by decide
example : boxSum [1, 2] (fun q => match q with | [a, b] => (10 * a + b : Int) | _ => 1000)
    = 0 + 1 + 2 + 10 + 11 + 12 := by decide
example : (T.integral ⟨[2, 0], ([] : List Int)⟩).data = [] ∧ ¬ Valid [2, 0] [0, 0] := by decide
-- remove_if: rows 1 and 3 flagged; 3 rows kept and compacted, the tail keeps what the loop left there
example : removeIfRows [false, true, false, true, false] [[0], [1], [2], [3], [4]]
    = (3, [[0], [2], [4], [3], [4]]) := by decide
example : keptRows [false, true, false, true, false] [[0], [1], [2], [3], [4]] = [[0], [2], [4]]
    ∧ keptIdx [false, true, false, true, false] 0 = [0, 2, 4] := by decide
example : (T.removeIf ⟨[3, 2], [0, 1, 2, 3, 4, 5]⟩ [true, false, false]).map (fun p => (p.1, p.2.data))
    = some (2, [2, 3, 4, 5, 4, 5]) := by decide
-- views: `t.slice(1, 3)` of a 4x2 tensor copied out (`t = t.slice(1, 3)`), a view of a view, a write through
-- `t.tensor(1)`, a refused write (size mismatch), a gather into a re-used output of another size
example : ((View.slice ⟨0, [4, 2]⟩ 1 3).map fun w => (w, (assignView [0, 1, 2, 3, 4, 5, 6, 7] w).dims,
    (assignView [0, 1, 2, 3, 4, 5, 6, 7] w).data)) = some (⟨2, [2, 2]⟩, [2, 2], [2, 3, 4, 5]) := by decide
example : ((View.reshape ⟨0, [8, 1]⟩ [2, -1, 2]).bind fun v => v.sub [1, 0]) = some ⟨4, [2]⟩ := by decide
example : ((View.sub ⟨0, [2, 3]⟩ [1]).bind fun w => w.write [1, 2, 3, 4, 5, 6] [-1, -2, -3])
    = some [1, 2, 3, -1, -2, -3] := by decide
example : (View.mk 0 [2, 3]).write [1, 2, 3, 4, 5, 6] [-1] = none ∧ (View.mk 4 [3]).write [1, 2, 3, 4, 5, 6] [7, 8, 9] = none := by
  decide
example : ((T.gatherInto (-99) ⟨[4, 2], [0, 1, 2, 3, 4, 5, 6, 7]⟩ [3, 0, 3] ⟨[1, 1], [-7]⟩).map fun s => (s.dims, s.data))
    = some ([3, 2], [6, 7, 0, 1, 6, 7]) := by decide
-- mixed-type integral: an 8-bit unsigned image into integers; 8-bit two's-complement arithmetic wraps on the way
-- (100 + 100) and is exact again where the prefix sum fits
example : (T.integralX (fun x : Nat => Int.ofNat x) ⟨[2, 2], [200, 201, 202, 203]⟩).data = [200, 401, 402, 806] := by decide
example : integralWrapped 8 [4] [100, 100, -100, -50] = [100, -56, 100, 50] := by decide

end NanoVerif.Tensor

/-!
  ### the three storages on the heap model (`Model/TensorStorage.lean`)

  The conversion / assignment / resize / move theorems live in `Proofs/TensorStorage*.lean` (their statements are the
  obligations); here: the views of any storage tied to the addressing theorems above, the headline statements, and the
  non-vacuity examples.
-/
namespace NanoVerif.Tensor.Store
open NanoVerif.Tensor

variable {α : Type}

/-- a view `w` (computed by the addressing model on the dims alone) of a readable object `o` of ANY storage: it reads exactly
    the elements `w.read` selects from what `o` reads — nothing outside `o`'s own elements, hence nothing outside the
    allocation -/
theorem obj_view_elems {h : Heap α} {o : Obj} {xs : List α} (k : Kind) (w : View) (ho : o.elems h = some xs)
    (hw : w.off + size w.dims ≤ size o.dims) :
    (⟨k, o.ptr.add w.off, w.dims⟩ : Obj).elems h = some (w.read xs) :=
  read_add ho w.off (size w.dims) hw

/-- `slice(b, e)` of any storage: in bounds of the object it is taken from, reading the elements the addressing model's
    slice selects (whose elements `view_slice_elem` identifies with full indexing) -/
theorem obj_slice_elems {h : Heap α} {o v : Obj} {xs : List α} (c : Bool) (b e : Nat) (ho : o.elems h = some xs)
    (hs : o.slice c b e = some v) :
    ∃ w, View.slice ⟨0, o.dims⟩ b e = some w ∧ v.dims = w.dims ∧ w.off + size w.dims ≤ size o.dims ∧
      v.elems h = some (w.read xs) := by
  unfold Obj.slice at hs
  cases hw : View.slice ⟨0, o.dims⟩ b e with
  | none => simp [hw] at hs
  | some w =>
    simp only [hw, Option.map_some, Option.some.injEq] at hs
    subst hs
    have hb := (view_slice_in_bounds ⟨0, o.dims⟩ w b e hw).2
    simp only [Nat.zero_add] at hb
    exact ⟨w, rfl, rfl, hb, obj_view_elems _ w ho hb⟩

/-- `tensor(i…)` of any storage -/
theorem obj_sub_elems {h : Heap α} {o v : Obj} {xs : List α} (c : Bool) (pre : List Nat) (ho : o.elems h = some xs)
    (hs : o.sub c pre = some v) :
    ∃ w, View.sub ⟨0, o.dims⟩ pre = some w ∧ v.dims = w.dims ∧ w.off + size w.dims ≤ size o.dims ∧
      v.elems h = some (w.read xs) := by
  unfold Obj.sub at hs
  cases hw : View.sub ⟨0, o.dims⟩ pre with
  | none => simp [hw] at hs
  | some w =>
    simp only [hw, Option.map_some, Option.some.injEq] at hs
    subst hs
    have hb := (view_sub_in_bounds ⟨0, o.dims⟩ w pre hw).2
    simp only [Nat.zero_add] at hb
    exact ⟨w, rfl, rfl, hb, obj_view_elems _ w ho hb⟩

/-- `reshape(sizes…)` of any storage: the same elements in the same flat order under the new dims -/
theorem obj_reshape_elems {h : Heap α} {o v : Obj} {xs : List α} (c : Bool) (sizes : List Int) (ho : o.elems h = some xs)
    (hs : o.reshape c sizes = some v) :
    size v.dims = size o.dims ∧ v.ptr = o.ptr ∧ v.elems h = some xs := by
  unfold Obj.reshape at hs
  cases hw : View.reshape ⟨0, o.dims⟩ sizes with
  | none => simp [hw] at hs
  | some w =>
    simp only [hw, Option.map_some, Option.some.injEq] at hs
    subst hs
    obtain ⟨hoff, hsz⟩ := view_reshape_in_bounds ⟨0, o.dims⟩ w sizes hw
    simp only at hoff hsz
    have hp : o.ptr.add w.off = o.ptr := by
      rw [hoff]
      cases o.ptr with
      | none => rfl
      | some q => simp [Ptr.add]
    refine ⟨hsz, hp, ?_⟩
    show h.read (o.ptr.add w.off) (size w.dims) = some xs
    rw [hp, hsz]
    exact ho

/-- the non-owning conversions (`map(tensor)`, `cmap(tensor)`, `cmap(map)`, copies and moves of maps, move-assignment of a
    constant map): same pointer, same dims — they read what the source reads, in every heap, and neither read nor write
    anything themselves -/
theorem viewOf_elems (h : Heap α) (k : Kind) (src : Obj) :
    (viewOf k src).elems h = src.elems h ∧ (viewOf k src).dims = src.dims ∧ (viewOf k src).ptr = src.ptr := ⟨rfl, rfl, rfl⟩

/-- HEADLINE — `owning/mapping/constant-mapping storages convert without changing contents`: every conversion of a
    readable source, into an owning tensor (by construction or by assignment, the source possibly viewing the destination
    itself) or into a map, yields the source's dims and the source's element sequence as it was before the operation -/
theorem assign_preserves_elements {h : Heap α} {dst src : Obj} (hc : src.count h = size src.dims) (hd : dst.OkMem h) :
    (∀ h' o, memCopy h src = some (h', o) → o.dims = src.dims ∧ o.elems h' = src.elems h) ∧
    (∀ h' o, memAssignView h dst src = some (h', o) → o.dims = src.dims ∧ o.elems h' = src.elems h) ∧
    (∀ k, (viewOf k src).dims = src.dims ∧ (viewOf k src).elems h = src.elems h) :=
  ⟨fun _ _ hm => ⟨(memCopy_elems hc hm).1, (memCopy_elems hc hm).2.1⟩,
   fun _ _ hm => ⟨(memAssignView_elems hd hm).1, (memAssignView_elems hd hm).2.1⟩,
   fun _ => ⟨rfl, rfl⟩⟩

/-- writes through an object land exactly on its own cells: any other object `q` (a view of the same allocation at any
    offset and of any shape, or something else) reads afterwards what it read before, except at the positions whose cell
    the writer addresses — where it reads the written value -/
theorem write_alias_exact {h h' : Heap α} {w q : Obj} {b wo c qo : Nat} {vals ys : List α} (hwp : w.ptr = some (b, wo))
    (hqp : q.ptr = some (c, qo)) (hw : w.write h vals = some h') (hq : q.elems h = some ys) :
    ∃ ys', q.elems h' = some ys' ∧ ∀ j, j < size q.dims →
      ys'[j]? = if c = b ∧ wo ≤ qo + j ∧ qo + j < wo + size w.dims then vals[qo + j - wo]? else ys[j]? := by
  unfold Obj.write at hw
  by_cases hg : w.kind ≠ .cmap ∧ vals.length = size w.dims
  · rw [if_pos hg, hwp] at hw
    unfold Obj.elems at hq ⊢
    rw [hqp] at hq ⊢
    have := read_after_write hw hq
    rw [hg.2] at this
    exact this
  · rw [if_neg hg] at hw; cases hw

/-! non-vacuity: the hypotheses of the storage theorems are satisfiable, and the operations compute what they say -/

-- `t = t.slice(1, 3)` of a 3x2 owner through a map of its own buffer: fresh allocation, previous one released
example : memAssignView [some [(1 : Int), 2, 3, 4, 5, 6]] ⟨.mem, some (0, 0), [3, 2]⟩ ⟨.map, some (0, 2), [2, 2]⟩
    = some ([none, some [3, 4, 5, 6]], ⟨.mem, some (1, 0), [2, 2]⟩) := by decide
example : (⟨.mem, some (0, 0), [3, 2]⟩ : Obj).OkMem [some [(1 : Int), 2, 3, 4, 5, 6]] :=
  ⟨rfl, Or.inr ⟨0, _, rfl, rfl, by decide, by decide⟩⟩
-- the slice as the addressing model computes it, as an object
example : (⟨.mem, some (0, 0), [3, 2]⟩ : Obj).slice false 1 3 = some ⟨.map, some (0, 2), [2, 2]⟩ := by decide
-- copy construction from a constant map not starting at the owner's first element; an empty source gives nullptr
example : memCopy [some [(1 : Int), 2, 3, 4]] ⟨.cmap, some (0, 1), [2]⟩ = some ([some [1, 2, 3, 4], some [2, 3]], ⟨.mem, some (1, 0), [2]⟩) := by
  decide
example : memCopy [some [(1 : Int), 2, 3, 4]] ⟨.cmap, some (0, 1), [0, 5]⟩ = some ([some [1, 2, 3, 4]], ⟨.mem, none, [0, 5]⟩) := by
  decide
-- resize: same count keeps the buffer, another count releases it
example : memResize (-99 : Int) [some [1, 2, 3, 4, 5, 6]] ⟨.mem, some (0, 0), [3, 2]⟩ [2, 3]
    = ([some [1, 2, 3, 4, 5, 6]], ⟨.mem, some (0, 0), [2, 3]⟩) := by decide
example : memResize (-99 : Int) [some [1, 2, 3, 4, 5, 6]] ⟨.mem, some (0, 0), [3, 2]⟩ [2]
    = ([none, some [-99, -99]], ⟨.mem, some (1, 0), [2]⟩) := by decide
-- owning = owning: same count re-uses the allocation, another count does not
example : memAssignMem [some [(1 : Int), 2], some [7, 8]] ⟨.mem, some (0, 0), [2]⟩ ⟨.mem, some (1, 0), [1, 2]⟩
    = some ([some [7, 8], some [7, 8]], ⟨.mem, some (0, 0), [1, 2]⟩) := by decide
example : memAssignMem [some [(1 : Int), 2], some [7, 8, 9]] ⟨.mem, some (0, 0), [2]⟩ ⟨.mem, some (1, 0), [3]⟩
    = some ([none, some [7, 8, 9], some [7, 8, 9]], ⟨.mem, some (2, 0), [3]⟩) := by decide
-- map = tensor of equal size, the map starting at element 2 of its owner; overlapping map = map in the supported direction
example : mapAssign [some [(1 : Int), 2, 3, 4, 5], some [8, 9]] ⟨.map, some (0, 2), [2]⟩ ⟨.mem, some (1, 0), [2]⟩
    = some [some [1, 2, 8, 9, 5], some [8, 9]] := by decide
example : mapAssign [some [(1 : Int), 2, 3, 4, 5]] ⟨.map, some (0, 0), [3]⟩ ⟨.map, some (0, 1), [3]⟩ = some [some [2, 3, 4, 4, 5]] := by
  decide
-- a stale view: after `t = t.slice(…)` the map of the previous allocation reads nothing
example : (⟨.map, some (0, 2), [2, 2]⟩ : Obj).elems [none, some [(3 : Int), 4, 5, 6]] = none := by decide
-- a whole history: owner 0 (3 elements), map 2 of it, owner 1 copy-constructed from the map, write through the map
example : (run (-99 : Int) ⟨[], [Obj.default .mem 1, Obj.default .mem 1, Obj.default .map 1]⟩
    [.new 0 [3], .fill 0 [1, 2, 3], .slice 2 0 false 1 3, .ctor 1 2, .fill 2 [8, 9]]).map (fun st => (st.heap, st.objs))
    = some ([some [1, 8, 9], some [2, 3]],
            [⟨.mem, some (0, 0), [3]⟩, ⟨.mem, some (1, 0), [2]⟩, ⟨.map, some (0, 1), [2]⟩]) := by decide
-- the ownership invariant: the initial state of a program satisfies it, hence so does every state a history reaches
example : Inv (⟨[], [Obj.default .mem 1, Obj.default .mem 1, Obj.default .map 1]⟩ : St Int) :=
  inv_init _ (by
    intro i x hx
    have hm : x ∈ [Obj.default .mem 1, Obj.default .mem 1, Obj.default .map 1] := List.mem_of_getElem? hx
    simp only [List.mem_cons, List.not_mem_nil, or_false] at hm
    rcases hm with rfl | rfl | rfl <;> rfl)
-- a moved-from owner as coded: dims kept, pointer gone (move construction) / the destination's old allocation (move assignment)
example : memMoveCtor ⟨.mem, some (0, 0), [2, 3]⟩ = (⟨.mem, some (0, 0), [2, 3]⟩, ⟨.mem, none, [2, 3]⟩) := by decide
example : memMoveAssign ⟨.mem, some (1, 0), [4]⟩ ⟨.mem, some (0, 0), [2, 3]⟩
    = (⟨.mem, some (0, 0), [2, 3]⟩, ⟨.mem, some (1, 0), [2, 3]⟩) := by decide
-- ranges, arange, make_matrix, stack of vectors as coded
example : (makeRange 1 3).valid 3 = true ∧ (makeRange 2 2).valid 3 = false ∧ sliceAssert 2 2 3 = true := by decide
example : arange (-2) 3 = some [-2, -1, 0, 1, 2] ∧ arange 4 4 = some [] ∧ arange 5 4 = none := by decide
example : (makeMatrix 2 [1, 2, 3, 4, 5, 6]).map (·.dims) = some [2, 3] ∧ (makeMatrix 4 [1, 2, 3, 4, 5, 6]).isNone := by decide
example : stackVecCoded (0 : Int) 5 [[1, 2], [], [3, 4, 5]] = some [1, 2, 3, 4, 5] ∧ stackVecCoded (0 : Int) 4 [[1, 2], [3, 4, 5]] = none := by
  decide
example : removeIfRowsN [false, true, false] [[[0], [1], [2]], [[10, 11], [20, 21], [30, 31]]]
    = (2, [[[0], [2], [2]], [[10, 11], [30, 31], [30, 31]]]) := by decide

end NanoVerif.Tensor.Store
