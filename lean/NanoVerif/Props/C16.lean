import NanoVerif.Model.Tensor
/-!
  C16 — property theorems about the tensor addressing model (`Model/Tensor.lean`).
  Core Lean only. Helper lemmas live in this file only when they are part of the statement chain;
  nothing here is weakened to make a proof pass: a theorem that is not proved in full is named `…_partial`.
-/
namespace NanoVerif.Tensor

/-! ### row-major bijection onto `[0, size)` -/

/-- No valid access touches memory outside the buffer. -/
theorem index_lt_size : ∀ (dims idx : List Nat), Valid dims idx → index dims idx < size dims
  | [], [], _ => by simp [index, size]
  | [], _ :: _, h => by simp [Valid] at h
  | _ :: _, [], h => by simp [Valid] at h
  | d :: ds, i :: is, h => by
    obtain ⟨hi, hv⟩ := h
    have ih := index_lt_size ds is hv
    simp only [index, size]
    calc i * size ds + index ds is < i * size ds + size ds := by omega
      _ = (i + 1) * size ds := by rw [Nat.add_mul, Nat.one_mul]
      _ ≤ d * size ds := Nat.mul_le_mul_right _ hi

theorem unindex_index : ∀ (dims idx : List Nat), Valid dims idx → unindex dims (index dims idx) = idx
  | [], [], _ => by simp [unindex]
  | [], _ :: _, h => by simp [Valid] at h
  | _ :: _, [], h => by simp [Valid] at h
  | d :: ds, i :: is, h => by
    obtain ⟨hi, hv⟩ := h
    have hlt := index_lt_size ds is hv
    have ih := unindex_index ds is hv
    have hpos : 0 < size ds := by omega
    simp only [index, unindex]
    have h1 : (i * size ds + index ds is) / size ds = i := by
      rw [Nat.mul_comm, Nat.mul_add_div hpos, Nat.div_eq_of_lt hlt, Nat.add_zero]
    have h2 : (i * size ds + index ds is) % size ds = index ds is := by
      rw [Nat.mul_comm, Nat.mul_add_mod, Nat.mod_eq_of_lt hlt]
    rw [h1, h2, ih]

/-- distinct valid tuples address distinct elements -/
theorem index_injective (dims a b : List Nat) (ha : Valid dims a) (hb : Valid dims b)
    (h : index dims a = index dims b) : a = b := by
  rw [← unindex_index dims a ha, ← unindex_index dims b hb, h]

theorem size_pos_of_lt {ds : List Nat} {d o : Nat} (h : o < d * size ds) : 0 < size ds := by
  rcases Nat.eq_zero_or_pos (size ds) with h0 | h0
  · simp [h0] at h
  · exact h0

theorem valid_unindex : ∀ (dims : List Nat) (o : Nat), o < size dims → Valid dims (unindex dims o)
  | [], _, _ => by simp [unindex, Valid]
  | d :: ds, o, h => by
    simp only [size] at h
    have hpos := size_pos_of_lt h
    refine ⟨?_, valid_unindex ds _ (Nat.mod_lt _ hpos)⟩
    exact (Nat.div_lt_iff_lt_mul hpos).2 h

/-- every offset below `size` is the offset of a valid tuple (surjectivity) -/
theorem index_unindex : ∀ (dims : List Nat) (o : Nat), o < size dims → index dims (unindex dims o) = o
  | [], o, h => by simp [size] at h; simp [index, h]
  | d :: ds, o, h => by
    simp only [size] at h
    have hpos := size_pos_of_lt h
    simp only [unindex, index]
    rw [index_unindex ds _ (Nat.mod_lt _ hpos)]
    exact Nat.div_add_mod' o (size ds)

/-! ### partial-index views -/

theorem validPrefix_nil (dims : List Nat) : ValidPrefix dims [] := by
  cases dims <;> trivial

/-- `offset(p ++ q) = offset0(p) + offset within dims0(p)`: a partial view followed by indexing inside it
    addresses the element obtained by full indexing. -/
theorem index_append : ∀ (dims p q : List Nat), ValidPrefix dims p →
    index dims (p ++ q) = index dims p + index (dims0 dims p.length) q
  | dims, [], q, _ => by cases dims <;> simp [dims0, index]
  | [], _ :: _, _, h => by simp [ValidPrefix] at h
  | d :: ds, i :: is, q, h => by
    have ih := index_append ds is q h.2
    simp only [List.cons_append, index, List.length_cons, dims0, List.drop_succ_cons] at *
    omega

theorem size_drop_le : ∀ (dims p : List Nat), ValidPrefix dims p →
    index dims p + size (dims0 dims p.length) ≤ size dims
  | dims, [], _ => by cases dims <;> simp [dims0, index]
  | [], _ :: _, h => by simp [ValidPrefix] at h
  | d :: ds, i :: is, h => by
    have ih := size_drop_le ds is h.2
    have hi := h.1
    simp only [index, List.length_cons, dims0, List.drop_succ_cons, size] at *
    calc i * size ds + index ds is + size (List.drop is.length ds)
        ≤ i * size ds + size ds := by omega
      _ = (i + 1) * size ds := by rw [Nat.add_mul, Nat.one_mul]
      _ ≤ d * size ds := Nat.mul_le_mul_right _ hi

/-- the buffer range `[offset0(p), offset0(p) + size(dims0(p)))` aliased by `vector(p…)`, `matrix(p…)`,
    `tensor(p…)` lies inside the tensor's buffer -/
theorem subview_in_bounds (dims p : List Nat) (h : ValidPrefix dims p) :
    index dims p + size (dims0 dims p.length) ≤ size dims := size_drop_le dims p h

theorem valid_split : ∀ (dims p q : List Nat), ValidPrefix dims p → Valid (dims0 dims p.length) q →
    Valid dims (p ++ q)
  | dims, [], q, _, hq => by simpa [dims0] using hq
  | [], _ :: _, _, h, _ => by simp [ValidPrefix] at h
  | d :: ds, i :: is, q, h, hq => by
    refine ⟨h.1, valid_split ds is q h.2 ?_⟩
    simpa [dims0] using hq

/-- Reading element `q` of the view obtained by fixing the leading indices `p` returns the element at the
    full index `p ++ q` of the tensor. -/
theorem sub_get {α} (t : T α) (p q : List Nat) (s : T α) (hs : t.sub p = some s)
    (hq : Valid s.dims q) : s.get? q = t.get? (p ++ q) := by
  unfold T.sub at hs
  split at hs
  · rename_i hp
    cases hs
    simp only at hq
    have hv : Valid t.dims (p ++ q) := valid_split t.dims p q hp hq
    have hlt := index_lt_size _ _ hq
    simp only [T.get?, hq, hv, if_true]
    rw [index_append t.dims p q hp]
    rw [List.getElem?_take, if_pos hlt, List.getElem?_drop]
  · cases hs

/-- the view is itself a well-formed tensor -/
theorem sub_wf {α} (t : T α) (p : List Nat) (s : T α) (hwf : t.wf) (hs : t.sub p = some s) : s.wf := by
  unfold T.sub at hs
  split at hs
  · rename_i hp
    cases hs
    have hb := subview_in_bounds t.dims p hp
    unfold T.wf at *
    simp only [List.length_take, List.length_drop]
    omega
  · cases hs

/-! ### first-axis slices -/

theorem slice_wf {α} (t : T α) (b e : Nat) (s : T α) (hwf : t.wf) (hs : t.slice b e = some s) : s.wf := by
  unfold T.slice at hs
  split at hs
  · cases hs
  · rename_i d ds hd
    split at hs
    · rename_i hbe
      cases hs
      unfold T.wf at *
      rw [hd] at hwf
      simp only [List.length_take, List.length_drop, index, size, Nat.add_zero] at *
      have : b * size ds + (e - b) * size ds ≤ d * size ds := by
        rw [← Nat.add_mul]; apply Nat.mul_le_mul_right; omega
      omega
    · cases hs

/-- element `(i, q…)` of `slice(b, e)` is element `(b + i, q…)` of the tensor -/
theorem slice_get {α} (t : T α) (b e i : Nat) (q : List Nat) (s : T α)
    (hs : t.slice b e = some s) (hq : Valid s.dims (i :: q)) :
    s.get? (i :: q) = t.get? ((b + i) :: q) := by
  unfold T.slice at hs
  split at hs
  · cases hs
  · rename_i d ds hd
    split at hs
    · rename_i hbe
      cases hs
      simp only at hq
      have hi : i < e - b := hq.1
      have hq2 : Valid ds q := hq.2
      have hv : Valid t.dims ((b + i) :: q) := by
        rw [hd]; exact ⟨by omega, hq2⟩
      have hlt := index_lt_size _ _ hq
      simp only [T.get?, hq, hv, if_true]
      rw [hd]
      simp only [size] at hlt
      rw [List.getElem?_take, if_pos hlt, List.getElem?_drop]
      simp only [index, Nat.add_zero]
      congr 1
      rw [Nat.add_mul]; omega
    · cases hs

/-! ### reshape -/

/-- whenever `reshape` is accepted, the new shape has exactly the tensor's number of elements, so the
    reshaped view (same buffer, `T.reshape` keeps `data`) aliases the same offsets -/
theorem iprod_map_toNat : ∀ (ds : List Int), ds.all (· ≥ 0) = true →
    iprod ds = Int.ofNat (size (ds.map Int.toNat))
  | [], _ => by simp [iprod, size]
  | d :: ds, h => by
    simp only [List.all_cons, Bool.and_eq_true, decide_eq_true_eq] at h
    have ih := iprod_map_toNat ds h.2
    simp only [iprod, List.map_cons, size, ih]
    have : d = Int.ofNat d.toNat := by simp [Int.toNat_of_nonneg h.1]
    rw [this]; simp

theorem reshape_size (total : Nat) (sizes : List Int) (ds : List Nat)
    (h : reshapeDims total sizes = some ds) : size ds = total := by
  unfold reshapeDims at h
  split at h
  · cases h
  · rename_i ds' _
    split at h
    · rename_i hc
      cases h
      have := iprod_map_toNat ds' hc.1
      rw [hc.2] at this
      exact (Int.ofNat.inj this).symm
    · cases h

theorem reshape_wf {α} (t : T α) (sizes : List Int) (s : T α) (hwf : t.wf)
    (hs : t.reshape sizes = some s) : s.wf ∧ s.data = t.data := by
  unfold T.reshape at hs
  cases hr : reshapeDims (size t.dims) sizes with
  | none => simp [hr] at hs
  | some ds =>
    simp [hr] at hs
    cases hs
    exact ⟨by unfold T.wf at *; simp [reshape_size _ _ _ hr, hwf], rfl⟩

/-- what is refused: an entry below `-1` -/
theorem reshape_rejects_negative (total : Nat) (pre rest : List Int) (d : Int) (hd : d < -1) :
    reshapeInfer (Int.ofNat total) pre (d :: rest) = none := by
  unfold reshapeInfer
  have h1 : ¬ d = -1 := by omega
  have h2 : ¬ d ≥ 0 := by omega
  simp [h1, h2]

/-! ### gather (`indexed`) -/

theorem gather_dims {α} (t : T α) (I : List Nat) (s : T α) (hs : t.gather I = some s) :
    s.dims = I.length :: t.dims.drop 1 := by
  unfold T.gather at hs
  split at hs
  · cases hs
  · rename_i d ds hd
    split at hs
    · cases hs; simp [hd]
    · cases hs

theorem getElem?_flatMap_blocks {α β} (f : β → List α) (n : Nat) :
    ∀ (I : List β) (j k : Nat) (hj : j < I.length), (∀ i ∈ I, (f i).length = n) → k < n →
      (I.flatMap f)[j * n + k]? = (f I[j])[k]?
  | [], j, k, hj, _, _ => by simp at hj
  | i :: I, 0, k, _, hlen, hk => by
    have h0 : (f i).length = n := hlen i (by simp)
    simp only [List.flatMap_cons, Nat.zero_mul, Nat.zero_add, List.getElem_cons_zero]
    rw [List.getElem?_append_left (by omega)]
  | i :: I, j + 1, k, hj, hlen, hk => by
    have h0 : (f i).length = n := hlen i (by simp)
    have ih := getElem?_flatMap_blocks f n I j k (by simpa using hj) (fun x hx => hlen x (by simp [hx])) hk
    simp only [List.flatMap_cons, List.getElem_cons_succ]
    rw [List.getElem?_append_right (by rw [h0, Nat.add_mul]; omega)]
    rw [h0, ← ih]
    congr 1
    rw [Nat.add_mul]; omega

/-- element `(j, q…)` of `indexed(I)` is element `(I[j], q…)` of the tensor -/
theorem gather_get {α} (t : T α) (I : List Nat) (s : T α) (j : Nat) (q : List Nat) (hwf : t.wf)
    (hs : t.gather I = some s) (hq : Valid s.dims (j :: q)) :
    ∃ hj : j < I.length, s.get? (j :: q) = t.get? (I[j] :: q) := by
  unfold T.gather at hs
  split at hs
  · cases hs
  · rename_i d ds hd
    split at hs
    · rename_i hall
      cases hs
      simp only at hq
      obtain ⟨hj, hq2⟩ := hq
      refine ⟨hj, ?_⟩
      have hIj : I[j] < d := by
        have := List.all_eq_true.mp hall I[j] (List.getElem_mem hj)
        simpa using this
      have hv : Valid t.dims (I[j] :: q) := by rw [hd]; exact ⟨hIj, hq2⟩
      have hv' : Valid (I.length :: ds) (j :: q) := ⟨hj, hq2⟩
      have hk := index_lt_size ds q hq2
      have hv2 : Valid (d :: ds) (I[j] :: q) := ⟨hIj, hq2⟩
      simp only [T.get?, hv', hv2, if_true, hd, index]
      unfold T.wf at hwf
      rw [hd] at hwf
      simp only [size] at hwf
      rw [getElem?_flatMap_blocks _ (size ds) I j (index ds q) hj ?_ hk]
      · rw [List.getElem?_take, if_pos hk, List.getElem?_drop]
      · intro i hi
        have hid : i < d := by
          have := List.all_eq_true.mp hall i hi
          simpa using this
        simp only [List.length_take, List.length_drop]
        have : i * size ds + size ds ≤ d * size ds := by
          calc i * size ds + size ds = (i + 1) * size ds := by rw [Nat.add_mul, Nat.one_mul]
            _ ≤ d * size ds := Nat.mul_le_mul_right _ hid
        omega
    · cases hs

/-! ### non-vacuity: the shape of the unit test, and a shape with a 0 and a 1 dimension -/

example : Valid [3, 7, 5, 4] [2, 6, 4, 3] ∧ index [3, 7, 5, 4] [2, 6, 4, 3] = 419 ∧ size [3, 7, 5, 4] = 420 := by
  decide
example : ValidPrefix [3, 7, 5, 4] [2, 6] ∧ index [3, 7, 5, 4] [2, 6] + size (dims0 [3, 7, 5, 4] 2) = 420 := by
  decide
example : size [2, 0, 1] = 0 ∧ ¬ Valid [2, 0, 1] [0, 0, 0] := by decide
example : reshapeDims 24 [2, -1, 3] = some [2, 4, 3] := by decide
example : reshapeDims 24 [5, -1] = none := by decide

end NanoVerif.Tensor
