import NanoVerif.Proofs.Codec
import NanoVerif.Proofs.Wire
import NanoVerif.Proofs.TensorHash
/-!
  C15 — serialization round-trips models; truncated / corrupted streams are rejected.

  Model: `Model/Codec.lean` (combinators = the overloads of `include/nano/core/stream.h`) and `Model/Wire.lean`
  (the wire formats of tensors, parameters, configurables, features, learners, linear models, the weak learners and the
  gradient boosting model); `hashCombine` is regenerated from `include/nano/core/hash.h` on every run.
  `c.dec bs = none` is the model's "exception or failed stream state".

  For every format `X` with well-formedness predicate `X.WF` (explicit, decidable: lengths fit their length fields,
  integers fit their wire width, tensor payload length = size · sizeof, the object carries the library version, a weak
  learner's id names the class of its body):
    `X_roundtrip`       : X.WF x → dec (enc x ++ rest) = some (x, rest)
    `X_prefix_rejected` : X.WF x → p <+: enc x → p ≠ enc x → dec p = none      (every strict prefix of every valid stream)
  The payload-corruption clause of the property is proved in part, see `tensor_payload_corruption_partial`.
-/
namespace NanoVerif.Codec
open NanoVerif.Gen.CodecConsts

/-! ### generic combinator theorems -/

theorem seq_roundtrip {α β : Type} {a : Codec α} {b : Codec β} {wa : α → Prop} {wb : β → Prop}
    (ha : a.RoundTrip wa) (hb : b.RoundTrip wb) : (seq a b).RoundTrip (fun p => wa p.1 ∧ wb p.2) := by
  intro ⟨x, y⟩ rest ⟨hx, hy⟩
  simp only [seq, dseq, List.append_assoc]
  rw [ha x _ hx]; simp only []
  rw [hb y _ hy]

/-- prefix safety of a sequence needs: the first part round-trips and is prefix safe, the second is prefix safe -/
theorem seq_prefix_safe {α β : Type} {a : Codec α} {b : Codec β} {wa : α → Prop} {wb : β → Prop}
    (ha : Good a wa) (hb : Good b wb) : (seq a b).PrefixSafe (fun p => wa p.1 ∧ wb p.2) :=
  (seq_good ha hb).ps

/-- the second reader may depend on the value the first one produced (length-prefixed data, tagged unions) -/
theorem dseq_roundtrip {α β : Type} {a : Codec α} {b : α → Codec β} {wa : α → Prop} {wb : α → β → Prop}
    (ha : Good a wa) (hb : ∀ x, Good (b x) (wb x)) : (dseq a b).RoundTrip (fun p => wa p.1 ∧ wb p.1 p.2) :=
  (dseq_good ha hb).rt

theorem dseq_prefix_safe {α β : Type} {a : Codec α} {b : α → Codec β} {wa : α → Prop} {wb : α → β → Prop}
    (ha : Good a wa) (hb : ∀ x, Good (b x) (wb x)) : (dseq a b).PrefixSafe (fun p => wa p.1 ∧ wb p.1 p.2) :=
  (dseq_good ha hb).ps

theorem pmap_roundtrip {α β : Type} {c : Codec α} {w : α → Prop} (h : Good c w) (f : α → Option β) (g : β → α) :
    (pmap c f g).RoundTrip (fun y => w (g y) ∧ f (g y) = some y) := (pmap_good h f g).rt

theorem pmap_prefix_safe {α β : Type} {c : Codec α} {w : α → Prop} (h : Good c w) (f : α → Option β) (g : β → α) :
    (pmap c f g).PrefixSafe (fun y => w (g y) ∧ f (g y) = some y) := (pmap_good h f g).ps

theorem raw_roundtrip (n : Nat) : (raw n).RoundTrip (fun x => x.length = n) := (raw_good n).rt
theorem raw_prefix_safe (n : Nat) : (raw n).PrefixSafe (fun x => x.length = n) := (raw_good n).ps

theorem u32_roundtrip : u32.RoundTrip U32 := u32_good.rt
theorem u32_prefix_safe : u32.PrefixSafe U32 := u32_good.ps
theorem u64_roundtrip : u64.RoundTrip U64 := u64_good.rt
theorem u64_prefix_safe : u64.PrefixSafe U64 := u64_good.ps
theorem i32_roundtrip : i32.RoundTrip I32 := i32_good.rt
theorem i32_prefix_safe : i32.PrefixSafe I32 := i32_good.ps
theorem i64_roundtrip : i64.RoundTrip I64 := i64_good.rt
theorem i64_prefix_safe : i64.PrefixSafe I64 := i64_good.ps

theorem str_roundtrip : str.RoundTrip StrOk := str_good.rt
theorem str_prefix_safe : str.PrefixSafe StrOk := str_good.ps

theorem rep_roundtrip {α : Type} {c : Codec α} {w : α → Prop} (h : Good c w) (n : Nat) :
    (rep c n).RoundTrip (fun xs => xs.length = n ∧ ∀ x ∈ xs, w x) := (rep_good h n).rt

theorem rep_prefix_safe {α : Type} {c : Codec α} {w : α → Prop} (h : Good c w) (n : Nat) :
    (rep c n).PrefixSafe (fun xs => xs.length = n ∧ ∀ x ∈ xs, w x) := (rep_good h n).ps

theorem vec_roundtrip {α : Type} {c : Codec α} {w : α → Prop} (h : Good c w) :
    (vec c).RoundTrip (fun xs => xs.length < 18446744073709551616 ∧ ∀ x ∈ xs, w x) := (vec_good h).rt

theorem vec_prefix_safe {α : Type} {c : Codec α} {w : α → Prop} (h : Good c w) :
    (vec c).PrefixSafe (fun xs => xs.length < 18446744073709551616 ∧ ∀ x ∈ xs, w x) := (vec_good h).ps

/-- factory objects: known id + a body that is fine -/
theorem factory_roundtrip {β : Type} {body : Codec β} {w : β → Prop} (ids : List Bytes) (h : Good body w) :
    (factory ids body).RoundTrip (fun p => StrOk p.1 ∧ p.1 ∈ ids ∧ w p.2) := (factory_good ids h).rt

theorem factory_prefix_safe {β : Type} {body : Codec β} {w : β → Prop} (ids : List Bytes) (h : Good body w) :
    (factory ids body).PrefixSafe (fun p => StrOk p.1 ∧ p.1 ∈ ids ∧ w p.2) := (factory_good ids h).ps

/-- an id the factory does not know fails the stream, whatever follows -/
theorem factory_unknown_id_rejected {β : Type} (ids : List Bytes) (body : Codec β) (id rest : Bytes)
    (hid : StrOk id) (hne : id ∉ ids) : (factory ids body).dec (str.enc id ++ rest) = none := by
  simp only [factory, dseq]
  rw [str_good.rt id rest hid]
  simp [hne, fail]

/-! ### tensors -/

theorem tensor_roundtrip (k : Scalar) (rank : Nat) (hr : rank < 4294967296) (t : Tensor) (rest : Bytes)
    (h : Tensor.WF k rank t) : (tensor k rank).dec ((tensor k rank).enc t ++ rest) = some (t, rest) :=
  (tensor_good k rank hr).rt t rest h

theorem tensor_prefix_rejected (k : Scalar) (rank : Nat) (hr : rank < 4294967296) (t : Tensor) (p : Bytes)
    (h : Tensor.WF k rank t) (hp : p <+: (tensor k rank).enc t) (hne : p ≠ (tensor k rank).enc t) :
    (tensor k rank).dec p = none :=
  (tensor_good k rank hr).ps t p h hp hne

/-- version / rank / sizeof(scalar) mismatch (stream.h:44-46) -/
theorem tensor_header_rejected (k : Scalar) (rank : Nat) (v r s : Nat) (ds : List Int) (tail : Bytes)
    (hv : U32 v) (hr : U32 r) (hs : U32 s) (hl : ds.length = rank) (hd : ∀ d ∈ ds, I32 d)
    (hne : v ≠ hashVersion ∨ r ≠ rank ∨ s ≠ k.size) :
    (tensor k rank).dec (u32.enc v ++ (u32.enc r ++ ((rep i32 rank).enc ds ++ (u32.enc s ++ tail)))) = none :=
  tensor_header_mismatch k rank v r s ds tail hv hr hs hl hd hne

/-- `hash_combine(seed, ·)` is injective (over the definition regenerated from hash.h) -/
theorem hashCombine_injective_right (s h1 h2 : UInt64) (h : hashCombine s h1 = hashCombine s h2) : h1 = h2 :=
  hashCombine_inj_right s h1 h2 h

/-- elements that differ in any byte are hashed as different 64-bit values (all ten scalar types) -/
theorem elemHash_injective (k : Scalar) (c1 c2 : Bytes) (h1 : c1.length = k.size) (h2 : c2.length = k.size)
    (h : elemHash k c1 = elemHash k c2) : c1 = c2 := elemHash_inj k c1 c2 h1 h2 h

/-- `tensorStreamWith k rank ds pl pl` is exactly what `nano::write` emits -/
theorem tensor_stream_is_written (k : Scalar) (rank : Nat) (ds : List Int) (pl : Bytes) (h0 : 0 ≤ dimsSize ds) :
    (tensor k rank).enc ⟨ds, pl⟩ = tensorStreamWith k rank ds pl pl := tensor_enc_eq k rank ds pl h0

/-- altering (only) bytes of the last element of the payload is always detected -/
theorem tensor_last_element_corruption_detected (k : Scalar) (rank : Nat) (hr : rank < 4294967296) (ds : List Int)
    (n : Nat) (pre a b rest : Bytes) (hl : ds.length = rank) (hd : ∀ d ∈ ds, I32 d)
    (hn : dimsSize ds = ((n + 1 : Nat) : Int)) (hpre : pre.length = n * k.size) (ha : a.length = k.size)
    (hb : b.length = k.size) (hab : a ≠ b) :
    (tensor k rank).dec (tensorStreamWith k rank ds (pre ++ a) (pre ++ b) ++ rest) = none := by
  have h0 : 0 ≤ dimsSize ds := by omega
  have hN : (dimsSize ds).toNat = n + 1 := by omega
  have hp : (pre ++ b).length = (dimsSize ds).toNat * k.size := by
    rw [hN, List.length_append, hpre, hb, Nat.succ_mul]
  rw [tensor_dec_with k rank hr ds _ _ rest hl hd h0 hp, hN]
  rw [if_neg]
  unfold hashPayload
  rw [chunkN_append_last k.size n pre a hpre ha, chunkN_append_last k.size n pre b hpre hb]
  simp only [List.map_append, List.map_cons, List.map_nil]
  exact hashList_last _ _ _ (fun h => hab (elemHash_inj k a b ha hb h))

/-- a replaced payload is refused exactly when the 64-bit fold over its elements differs from the stored one -/
theorem tensor_payload_corruption_detected_iff_hash (k : Scalar) (rank : Nat) (hr : rank < 4294967296)
    (ds : List Int) (pl pl' rest : Bytes) (hl : ds.length = rank) (hd : ∀ d ∈ ds, I32 d) (h0 : 0 ≤ dimsSize ds)
    (hp : pl'.length = (dimsSize ds).toNat * k.size) :
    (tensor k rank).dec (tensorStreamWith k rank ds pl pl' ++ rest) = none ↔
      hashPayload k (dimsSize ds).toNat pl' ≠ hashPayload k (dimsSize ds).toNat pl := by
  rw [tensor_dec_with k rank hr ds pl pl' rest hl hd h0 hp]
  by_cases he : hashPayload k (dimsSize ds).toNat pl = hashPayload k (dimsSize ds).toNat pl'
  · simp [he]
  · simp only [he, if_false, true_iff]
    exact fun h => he h.symm

/-- PARTIAL. Full claim of the property: `pl' ≠ pl → (tensor k rank).dec (tensorStreamWith k rank ds pl pl' ++ rest) = none`
    (every altered payload is refused). Proved: it is refused *unless the 64-bit fold collides*
    (`hashPayload … pl' = hashPayload … pl`). Missing case: collision freedom of the fold for changes that are not confined
    to the last element — not provable (for payloads longer than 8 bytes collisions exist by counting), `hash_combine` is
    not injective in its first argument. The last-element case is `tensor_last_element_corruption_detected`. -/
theorem tensor_payload_corruption_partial (k : Scalar) (rank : Nat) (hr : rank < 4294967296)
    (ds : List Int) (pl pl' rest : Bytes) (hl : ds.length = rank) (hd : ∀ d ∈ ds, I32 d) (h0 : 0 ≤ dimsSize ds)
    (hp : pl'.length = (dimsSize ds).toNat * k.size) (_hne : pl' ≠ pl) :
    (tensor k rank).dec (tensorStreamWith k rank ds pl pl' ++ rest) = none ∨
      hashPayload k (dimsSize ds).toNat pl' = hashPayload k (dimsSize ds).toNat pl := by
  by_cases he : hashPayload k (dimsSize ds).toNat pl' = hashPayload k (dimsSize ds).toNat pl
  · exact Or.inr he
  · exact Or.inl ((tensor_payload_corruption_detected_iff_hash k rank hr ds pl pl' rest hl hd h0 hp).mpr he)

/-! ### parameters, configurables, features -/

theorem parameter_roundtrip (p : Parameter) (rest : Bytes) (h : p.WF) :
    parameter.dec (parameter.enc p ++ rest) = some (p, rest) := parameter_good.rt p rest h

theorem parameter_prefix_rejected (x : Parameter) (p : Bytes) (h : x.WF) (hp : p <+: parameter.enc x)
    (hne : p ≠ parameter.enc x) : parameter.dec p = none := parameter_good.ps x p h hp hne

/-- a type tag outside -1..5 is refused (`default: critical0(...)`, parameter.cpp:376) -/
theorem parameter_unknown_tag_rejected (tag : Int) (name rest : Bytes) (ht : I32 tag) (hn : StrOk name)
    (hbad : tag < -1 ∨ 5 < tag) : parameter.dec (i32.enc tag ++ (str.enc name ++ rest)) = none := by
  simp only [parameter, pmap, dseq, seq]
  rw [i32_good.rt tag _ ht]
  simp only []
  rw [str_good.rt name rest hn]
  have e : storage tag = fail := by
    unfold storage
    repeat (rw [if_neg (by omega)])
  simp [e, fail]

theorem configurable_roundtrip (c : Configurable) (rest : Bytes) (h : c.WF) :
    configurable.dec (configurable.enc c ++ rest) = some (c, rest) := configurable_good.rt c rest h

theorem configurable_prefix_rejected (x : Configurable) (p : Bytes) (h : x.WF) (hp : p <+: configurable.enc x)
    (hne : p ≠ configurable.enc x) : configurable.dec p = none := configurable_good.ps x p h hp hne

/-- a stream written by a newer library is refused (configurable.cpp:64-68), whatever follows the version -/
theorem configurable_newer_version_rejected (v : Version) (rest : Bytes)
    (h1 : I32 v.1) (h2 : I32 v.2.1) (h3 : I32 v.2.2) (hnew : versionOk v = false) :
    configurable.dec ((seq i32 (seq i32 i32)).enc v ++ rest) = none := by
  simp only [configurable, pmap, seq, dseq, version]
  have := (seq_good i32_good (seq_good i32_good i32_good)).rt v rest ⟨h1, h2, h3⟩
  simp only [seq, dseq] at this
  rw [this]
  simp [hnew]

/-- an older (or equal) version is read, and the object remembers the version it was written with -/
theorem configurable_older_version_accepted (v : Version) (ps : List Parameter) (rest : Bytes)
    (h1 : I32 v.1) (h2 : I32 v.2.1) (h3 : I32 v.2.2) (hold : versionOk v = true)
    (hps : ps.length < 18446744073709551616 ∧ ∀ p ∈ ps, p.WF) :
    configurable.dec ((seq i32 (seq i32 i32)).enc v ++ ((vec parameter).enc ps ++ rest)) = some (⟨v, ps⟩, rest) := by
  simp only [configurable, pmap, seq, dseq, version]
  have := (seq_good i32_good (seq_good i32_good i32_good)).rt v ((vec parameter).enc ps ++ rest) ⟨h1, h2, h3⟩
  simp only [seq, dseq] at this
  rw [this]
  simp only [hold, if_true]
  rw [(vec_good parameter_good).rt ps rest hps]

theorem feature_roundtrip (f : Feature) (rest : Bytes) (h : f.WF) :
    feature.dec (feature.enc f ++ rest) = some (f, rest) := feature_good.rt f rest h

theorem feature_prefix_rejected (x : Feature) (p : Bytes) (h : x.WF) (hp : p <+: feature.enc x)
    (hne : p ≠ feature.enc x) : feature.dec p = none := feature_good.ps x p h hp hne

/-- configured solvers, losses, splitters, tuners, line-search strategies: type id + configurable -/
theorem factory_configurable_roundtrip (ids : List Bytes) (id : Bytes) (c : Configurable) (rest : Bytes)
    (hid : StrOk id) (hmem : id ∈ ids) (h : c.WF) :
    (factory ids configurable).dec ((factory ids configurable).enc (id, c) ++ rest) = some ((id, c), rest) :=
  (factory_good ids configurable_good).rt (id, c) rest ⟨hid, hmem, h⟩

theorem factory_configurable_prefix_rejected (ids : List Bytes) (id : Bytes) (c : Configurable) (p : Bytes)
    (hid : StrOk id) (hmem : id ∈ ids) (h : c.WF) (hp : p <+: (factory ids configurable).enc (id, c))
    (hne : p ≠ (factory ids configurable).enc (id, c)) : (factory ids configurable).dec p = none :=
  (factory_good ids configurable_good).ps (id, c) p ⟨hid, hmem, h⟩ hp hne

/-! ### models -/

theorem learner_roundtrip (l : Learner) (rest : Bytes) (h : l.WF) :
    learner.dec (learner.enc l ++ rest) = some (l, rest) := learner_good.rt l rest h

theorem learner_prefix_rejected (x : Learner) (p : Bytes) (h : x.WF) (hp : p <+: learner.enc x)
    (hne : p ≠ learner.enc x) : learner.dec p = none := learner_good.ps x p h hp hne

theorem linear_roundtrip (l : Linear) (rest : Bytes) (h : l.WF) :
    linear.dec (linear.enc l ++ rest) = some (l, rest) := linear_good.rt l rest h

theorem linear_prefix_rejected (x : Linear) (p : Bytes) (h : x.WF) (hp : p <+: linear.enc x)
    (hne : p ≠ linear.enc x) : linear.dec p = none := linear_good.ps x p h hp hne

theorem factory_linear_roundtrip (ids : List Bytes) (id : Bytes) (l : Linear) (rest : Bytes)
    (hid : StrOk id) (hmem : id ∈ ids) (h : l.WF) :
    (factory ids linear).dec ((factory ids linear).enc (id, l) ++ rest) = some ((id, l), rest) :=
  (factory_good ids linear_good).rt (id, l) rest ⟨hid, hmem, h⟩

theorem factory_linear_prefix_rejected (ids : List Bytes) (id : Bytes) (l : Linear) (p : Bytes)
    (hid : StrOk id) (hmem : id ∈ ids) (h : l.WF) (hp : p <+: (factory ids linear).enc (id, l))
    (hne : p ≠ (factory ids linear).enc (id, l)) : (factory ids linear).dec p = none :=
  (factory_good ids linear_good).ps (id, l) p ⟨hid, hmem, h⟩ hp hne

/-- all eight weak learners (affine, stump, hinge, the four look-up tables, decision tree), through the factory -/
theorem wlearner_roundtrip (w : WLearner) (rest : Bytes) (h : w.WF) :
    wlearner.dec (wlearner.enc w ++ rest) = some (w, rest) := wlearner_good.rt w rest h

theorem wlearner_prefix_rejected (x : WLearner) (p : Bytes) (h : x.WF) (hp : p <+: wlearner.enc x)
    (hne : p ≠ wlearner.enc x) : wlearner.dec p = none := wlearner_good.ps x p h hp hne

theorem gboost_roundtrip (g : GBoost) (rest : Bytes) (h : g.WF) :
    gboost.dec (gboost.enc g ++ rest) = some (g, rest) := gboost_good.rt g rest h

theorem gboost_prefix_rejected (x : GBoost) (p : Bytes) (h : x.WF) (hp : p <+: gboost.enc x)
    (hne : p ≠ gboost.enc x) : gboost.dec p = none := gboost_good.ps x p h hp hne

/-! ### non-vacuity: the hypotheses are satisfiable, the statements bite on concrete streams -/

/-- a 2x1 `int16` tensor -/
def exTensor : Tensor := ⟨[2, 1], [0x01, 0x00, 0xff, 0xff]⟩
example : Tensor.WF .i16 2 exTensor := by decide
example : ((tensor .i16 2).enc exTensor).length = 32 := by decide
example : (tensor .i16 2).dec ((tensor .i16 2).enc exTensor ++ [7]) = some (exTensor, [7]) := by decide
example : (tensor .i16 2).dec (((tensor .i16 2).enc exTensor).take 31) = none := by decide
-- the same bytes are not a `uint16` rank-1 tensor, and flipping a payload bit is refused
example : (tensor .u16 1).dec ((tensor .i16 2).enc exTensor) = none := by decide
example : (tensor .i16 2).dec (((tensor .i16 2).enc exTensor).set 28 0x03) = none := by decide
-- a header corruption that keeps the element count 0 is accepted (outside the property's statement)
example : ((tensor .i16 2).dec (((tensor .i16 2).enc ⟨[0, 3], []⟩).set 12 0x07)).isSome = true := by decide
-- sign extension matters: the element 0xffff hashes as 2^64-1 for int16 and as 65535 for uint16
example : elemHash .i16 [0xff, 0xff] ≠ elemHash .u16 [0xff, 0xff] := by decide

def exParam : Parameter := ⟨[0x65, 0x70, 0x73], .frange 0x3eb0c6f7a0b5ed8d 0 0x3ff0000000000000 false true⟩
example : exParam.WF := by decide
example : parameter.dec (parameter.enc exParam) = some (exParam, []) := by decide
example : parameter.dec ((parameter.enc exParam).take 30) = none := by decide

def exConfig : Configurable := ⟨libVersion, [exParam, ⟨[], .none⟩, ⟨[0x6b], .enum [0x61] [[0x61], [0x62]]⟩]⟩
example : exConfig.WF := by decide
example : versionOk (0, 0, 2) = false ∧ versionOk (0, 0, 0) = true ∧ versionOk libVersion = true := by decide

def exFeature : Feature := ⟨10, (1, 1, 1), [0x66], [[0x61], [0x62, 0x63]]⟩
example : exFeature.WF := by decide
def exLearner : Learner := ⟨exConfig, [exFeature], ⟨9, (1, 1, 1), [0x74], []⟩⟩
example : exLearner.WF := by decide
def exStump : WLearner := ⟨idStump, .stump ⟨exLearner, 0, ⟨[2, 1, 1, 1], List.replicate 16 0⟩⟩ 0x3ff8000000000000⟩
example : exStump.WF := by decide
def exGBoost : GBoost := ⟨exLearner, ⟨[1], List.replicate 8 0⟩, [exStump], [exStump]⟩
example : exGBoost.WF := by decide
example : (wlearner.dec (str.enc [0x78] ++ [])) = none := by decide

end NanoVerif.Codec
