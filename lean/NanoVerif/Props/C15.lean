import NanoVerif.Proofs.Codec
import NanoVerif.Proofs.Wire
import NanoVerif.Proofs.TensorHash
import NanoVerif.Proofs.CodecHashFold
import NanoVerif.Proofs.CodecStream
import NanoVerif.Proofs.CodecLayoutGen
/-!
  C15 — serialization round-trips models; truncated / corrupted streams are rejected.

  Model: `Model/Codec.lean` (combinators = the overloads of `include/nano/core/stream.h`) and `Model/Wire.lean`
  (the wire formats of tensors, parameters, configurables, features, learners, linear models, the weak learners and the
  gradient boosting model); `Model/WireStream.lean` (the readers of stream.h / tensor/stream.h / configurable.cpp as
  coded: sticky failure state, loops, early returns); `hashCombine` is regenerated from `include/nano/core/hash.h` on
  every run. `c.dec bs = none` is the model's "exception or failed stream state".

  For every format `X` with well-formedness predicate `X.WF` (explicit, decidable: lengths fit their length fields,
  integers fit their wire width, tensor payload length = size · sizeof, the object carries the library version, a weak
  learner's id names the class of its body):
    `X_roundtrip`       : X.WF x → dec (enc x ++ rest) = some (x, rest)
    `X_prefix_rejected` : X.WF x → p <+: enc x → p ≠ enc x → dec p = none      (every strict prefix of every valid stream)
  The payload-corruption clause of the property is FALSE for the code as it is (kernel-checked witness
  `tensor_single_bit_flip_accepted`, replayed on the implementation by corpus/C15); what holds is
  `tensor_element_corruption_detected` and `tensor_payload_corruption_partial`.

  COVERAGE — every `read` / `write` of the anchored files (grep `read(std::istream` / `write(std::ostream` in include/ src/):

  | C++ (file:lines)                                              | status     | Lean                                                    |
  |---------------------------------------------------------------|------------|---------------------------------------------------------|
  | core/stream.h:13-20   write(scalar)                           | modelled   | `(uintLE k).enc`, `(intLE k).enc`, `raw k`              |
  | core/stream.h:22-30   write(data, count)                      | modelled   | `(raw n).enc`                                           |
  | core/stream.h:32-41   write_cast<T>(data, count)              | modelled   | `(rep i32 rank).enc` (tensor dims), `i64.enc`, `u32.enc`|
  | core/stream.h:43-47   write(string_view)                      | modelled   | `str.enc`                                               |
  | core/stream.h:52-56   write(object with .write)               | modelled   | the object's codec                                      |
  | core/stream.h:61-69   write(unique_ptr<T>)                    | modelled   | `(factory ids body).enc`, `wlearner.enc`                |
  | core/stream.h:74-88   write(vector<T>)                        | modelled   | `(vec c).enc`                                           |
  | core/stream.h:90-97   read(scalar)                            | modelled   | `(uintLE k).dec` / `Stream.rdUInt`, `Stream.rdInt`      |
  | core/stream.h:99-107  read(data, count)                       | modelled   | `(raw n).dec` / `Stream.rdRaw` (negative count: fails)  |
  | core/stream.h:109-128 read_cast<T>(scalar | data, count)      | modelled   | `intLE`, `rep i32 rank` / `Stream.rdDims` (loop, no exit)|
  | core/stream.h:130-144 read(string): resize + char loop        | modelled   | `str.dec` / `Stream.rdString`, `Stream.rdChars`         |
  | core/stream.h:149-153 read(object with .read)                 | modelled   | the object's codec                                      |
  | core/stream.h:158-175 read(unique_ptr<T>): look-up after fail | modelled   | `(factory ids body).dec` / `Stream.rdFactory`           |
  | core/stream.h:180-198 read(vector<T>): loop with early return | modelled   | `(vec c).dec` / `Stream.rdVec`, `Stream.rdElems`        |
  | tensor/stream.h:12-25 write(tensor)                           | modelled   | `(tensor k rank).enc` (10 scalar types, any rank)       |
  | tensor/stream.h:30-58 read(tensor)                            | modelled   | `(tensor k rank).dec` / `Stream.rdTensor`               |
  | core/hash.h:8-11      hash_version                            | translated | `Gen.CodecConsts.hashVersion`                           |
  | core/hash.h:13-16     hash_combine                            | translated | `Gen.CodecConsts.hashCombine`                           |
  | core/hash.h:18-50     hash<tscalar>(data, size)               | modelled   | `hashPayload`, `elemHash` (sign extension per type)     |
  | parameter.cpp:93-101  make_comp / make_flag                   | modelled   | `flag`                                                  |
  | parameter.cpp:103-146 read(range_t), read(pair_range_t)       | modelled   | `rangeOf`, `prangeOf`                                   |
  | parameter.cpp:148-175 write(range_t), write(pair_range_t)     | modelled   | `rangeOf`, `prangeOf`                                   |
  | parameter.cpp:339-410 parameter_t::read / write               | modelled   | `parameter`, `storage` (7 alternatives, unknown tag)    |
  | parameter.cpp (rest: constructors, setters, domain checks)    | outside    | not serialization (the reader does not re-check domains)|
  | configurable.cpp:58-84 configurable_t::read / write           | modelled   | `configurable`, `version`, `versionOk` / `Stream.rdConfigurable` |
  | cmake/version.h.in    major/minor/patch_version               | translated | `Gen.CodecConsts.{major,minor,patch}Version`            |
  | feature.cpp:114-133   feature_t::read / write                 | modelled   | `feature`, `featureTypeOf` (= `from_string<feature_type>`)|
  | learner.cpp:30-48     learner_t::read / write                 | modelled   | `learner` / `Stream.rdLearner`                          |
  | linear.cpp:58-76      linear_t::read / write (+ size check)   | modelled   | `linear`, `linearOk` / `Stream.rdLinear`; tagged: `factory ids linear` |
  | wlearner/single.cpp:19-37                                     | modelled   | `single`                                                |
  | wlearner/stump.cpp:102-118, hinge.cpp:158-176                 | modelled   | `wbodyOf 1`, `wbodyOf 2`                                |
  | wlearner/table.cpp:238-256 (dense/kbest/ksplit/dstep)         | modelled   | `wbodyOf 3` (hashes `tensor .u64 1`, indices `tensor .i64 1`)|
  | wlearner/dtree.cpp:68-87 read/write(dtree_node_t)             | modelled   | `dnode`                                                 |
  | wlearner/dtree.cpp:112-130                                    | modelled   | `wbodyOf 4`                                             |
  | wlearner/affine.cpp   (no own read/write)                     | modelled   | `wbodyOf 0` = `single`                                  |
  | gboost/model.cpp:265-285 gboost_model_t::read / write         | modelled   | `gboost` / `Stream.rdGBoost`                            |
  | solver_t (35 ids), lsearch0_t, lsearchk_t, loss_t, splitter_t,| modelled   | `factory ids configurable` (no override of              |
  |   tuner_t, datasource_t, program::solver_t                    |            |   configurable_t::read/write); ids from the run         |
  | factory look-up `T::all().get(id)` (factory.h)                | oracle     | the id list on the op line (what `all().ids()` returns);|
  |                                                               |            |   contract: `get(id) != null ⇔ id ∈ ids` — monitored    |
  |                                                               |            |   per run by the `factory … expect=` ops (C14 owns it)  |
  | generator_t, function_t, dataset_t, cluster_t, ml::params_t / | outside    | have no read/write (nothing to serialise)               |
  |   result_t, early-stopping state, mhash                       |            |                                                         |
  | fit / predict of the models                                   | outside    | observed: predictions of the re-read model bit-identical|

  FIELD LAYOUTS (round 5) — beside `modelled`, the layout of every read / write MEMBER FUNCTION of the table above (configurable,
  feature, learner, linear, gboost, single, stump, hinge, table, dtree, dtree_node_t) is `translated`: `tools/props/c15_translate.py`
  re-reads, on every run, the base-class call and the ordered `::nano::read / read_cast<T> / write(…, static_cast<T>(…))` items of
  both functions, the declared type of every member from the class header and the 16 `using` aliases those types go through, into
  `Gen/CodecLayout.lean`; `Proofs/CodecLayoutGen.lean` (namespace `Codec.Layout`): `model_read_layout_is_generated`,
  `model_write_layout_is_generated`, `model_typedefs_are_generated`, `read_layout_eq_write_layout` (each class reads exactly what it
  writes: the premise of stating ONE codec per class), `model_wire_is_generated` (field by field, the on-the-wire kinds are the `seq`
  structure of the codecs of `Model/Wire.lean`), `layout_bases_closed`. `parameter_t::read / write` (a switch over the variant) is
  not a flat layout and stays `modelled`.
-/
namespace NanoVerif.Codec
open NanoVerif.Gen.CodecConsts

/-! ### generic combinator theorems -/

theorem seq_roundtrip {α β : Type} {a : Codec α} {b : Codec β} {wa : α → Prop} {wb : β → Prop}
    (ha : a.RoundTrip wa) (hb : b.RoundTrip wb) : (seq a b).RoundTrip (fun p => wa p.1 ∧ wb p.2) := by
  intro ⟨x, y⟩ rest ⟨hx, hy⟩
  simp only [seq, dseq, List.append_assoc]
  rw [ha x _ hx]; simp only []
  rw [hb y _ hy]

/-- prefix safety of a sequence needs: the first part round-trips and is prefix safe, the second is prefix safe -/
theorem seq_prefix_safe {α β : Type} {a : Codec α} {b : Codec β} {wa : α → Prop} {wb : β → Prop}
    (ha : Good a wa) (hb : Good b wb) : (seq a b).PrefixSafe (fun p => wa p.1 ∧ wb p.2) :=
  (seq_good ha hb).ps

/-- the second reader may depend on the value the first one produced (length-prefixed data, tagged unions) -/
theorem dseq_roundtrip {α β : Type} {a : Codec α} {b : α → Codec β} {wa : α → Prop} {wb : α → β → Prop}
    (ha : Good a wa) (hb : ∀ x, Good (b x) (wb x)) : (dseq a b).RoundTrip (fun p => wa p.1 ∧ wb p.1 p.2) :=
  (dseq_good ha hb).rt

theorem dseq_prefix_safe {α β : Type} {a : Codec α} {b : α → Codec β} {wa : α → Prop} {wb : α → β → Prop}
    (ha : Good a wa) (hb : ∀ x, Good (b x) (wb x)) : (dseq a b).PrefixSafe (fun p => wa p.1 ∧ wb p.1 p.2) :=
  (dseq_good ha hb).ps

theorem pmap_roundtrip {α β : Type} {c : Codec α} {w : α → Prop} (h : Good c w) (f : α → Option β) (g : β → α) :
    (pmap c f g).RoundTrip (fun y => w (g y) ∧ f (g y) = some y) := (pmap_good h f g).rt

theorem pmap_prefix_safe {α β : Type} {c : Codec α} {w : α → Prop} (h : Good c w) (f : α → Option β) (g : β → α) :
    (pmap c f g).PrefixSafe (fun y => w (g y) ∧ f (g y) = some y) := (pmap_good h f g).ps

theorem raw_roundtrip (n : Nat) : (raw n).RoundTrip (fun x => x.length = n) := (raw_good n).rt
theorem raw_prefix_safe (n : Nat) : (raw n).PrefixSafe (fun x => x.length = n) := (raw_good n).ps

theorem u32_roundtrip : u32.RoundTrip U32 := u32_good.rt
theorem u32_prefix_safe : u32.PrefixSafe U32 := u32_good.ps
theorem u64_roundtrip : u64.RoundTrip U64 := u64_good.rt
theorem u64_prefix_safe : u64.PrefixSafe U64 := u64_good.ps
theorem i32_roundtrip : i32.RoundTrip I32 := i32_good.rt
theorem i32_prefix_safe : i32.PrefixSafe I32 := i32_good.ps
theorem i64_roundtrip : i64.RoundTrip I64 := i64_good.rt
theorem i64_prefix_safe : i64.PrefixSafe I64 := i64_good.ps

theorem str_roundtrip : str.RoundTrip StrOk := str_good.rt
theorem str_prefix_safe : str.PrefixSafe StrOk := str_good.ps

theorem rep_roundtrip {α : Type} {c : Codec α} {w : α → Prop} (h : Good c w) (n : Nat) :
    (rep c n).RoundTrip (fun xs => xs.length = n ∧ ∀ x ∈ xs, w x) := (rep_good h n).rt

theorem rep_prefix_safe {α : Type} {c : Codec α} {w : α → Prop} (h : Good c w) (n : Nat) :
    (rep c n).PrefixSafe (fun xs => xs.length = n ∧ ∀ x ∈ xs, w x) := (rep_good h n).ps

theorem vec_roundtrip {α : Type} {c : Codec α} {w : α → Prop} (h : Good c w) :
    (vec c).RoundTrip (fun xs => xs.length < 18446744073709551616 ∧ ∀ x ∈ xs, w x) := (vec_good h).rt

theorem vec_prefix_safe {α : Type} {c : Codec α} {w : α → Prop} (h : Good c w) :
    (vec c).PrefixSafe (fun xs => xs.length < 18446744073709551616 ∧ ∀ x ∈ xs, w x) := (vec_good h).ps

/-- factory objects: known id + a body that is fine -/
theorem factory_roundtrip {β : Type} {body : Codec β} {w : β → Prop} (ids : List Bytes) (h : Good body w) :
    (factory ids body).RoundTrip (fun p => StrOk p.1 ∧ p.1 ∈ ids ∧ w p.2) := (factory_good ids h).rt

theorem factory_prefix_safe {β : Type} {body : Codec β} {w : β → Prop} (ids : List Bytes) (h : Good body w) :
    (factory ids body).PrefixSafe (fun p => StrOk p.1 ∧ p.1 ∈ ids ∧ w p.2) := (factory_good ids h).ps

/-- an id the factory does not know fails the stream, whatever follows -/
theorem factory_unknown_id_rejected {β : Type} (ids : List Bytes) (body : Codec β) (id rest : Bytes)
    (hid : StrOk id) (hne : id ∉ ids) : (factory ids body).dec (str.enc id ++ rest) = none := by
  simp only [factory, dseq]
  rw [str_good.rt id rest hid]
  simp [hne, fail]

/-! ### tensors -/

theorem tensor_roundtrip (k : Scalar) (rank : Nat) (hr : rank < 4294967296) (t : Tensor) (rest : Bytes)
    (h : Tensor.WF k rank t) : (tensor k rank).dec ((tensor k rank).enc t ++ rest) = some (t, rest) :=
  (tensor_good k rank hr).rt t rest h

theorem tensor_prefix_rejected (k : Scalar) (rank : Nat) (hr : rank < 4294967296) (t : Tensor) (p : Bytes)
    (h : Tensor.WF k rank t) (hp : p <+: (tensor k rank).enc t) (hne : p ≠ (tensor k rank).enc t) :
    (tensor k rank).dec p = none :=
  (tensor_good k rank hr).ps t p h hp hne

/-- version / rank / sizeof(scalar) mismatch (stream.h:44-46) -/
theorem tensor_header_rejected (k : Scalar) (rank : Nat) (v r s : Nat) (ds : List Int) (tail : Bytes)
    (hv : U32 v) (hr : U32 r) (hs : U32 s) (hl : ds.length = rank) (hd : ∀ d ∈ ds, I32 d)
    (hne : v ≠ hashVersion ∨ r ≠ rank ∨ s ≠ k.size) :
    (tensor k rank).dec (u32.enc v ++ (u32.enc r ++ ((rep i32 rank).enc ds ++ (u32.enc s ++ tail)))) = none :=
  tensor_header_mismatch k rank v r s ds tail hv hr hs hl hd hne

/-- `hash_combine(seed, ·)` is injective (over the definition regenerated from hash.h) -/
theorem hashCombine_injective_right (s h1 h2 : UInt64) (h : hashCombine s h1 = hashCombine s h2) : h1 = h2 :=
  hashCombine_inj_right s h1 h2 h

/-- elements that differ in any byte are hashed as different 64-bit values (all ten scalar types) -/
theorem elemHash_injective (k : Scalar) (c1 c2 : Bytes) (h1 : c1.length = k.size) (h2 : c2.length = k.size)
    (h : elemHash k c1 = elemHash k c2) : c1 = c2 := elemHash_inj k c1 c2 h1 h2 h

/-- `tensorStreamWith k rank ds pl pl` is exactly what `nano::write` emits -/
theorem tensor_stream_is_written (k : Scalar) (rank : Nat) (ds : List Int) (pl : Bytes) (h0 : 0 ≤ dimsSize ds) :
    (tensor k rank).enc ⟨ds, pl⟩ = tensorStreamWith k rank ds pl pl := tensor_enc_eq k rank ds pl h0

/-- altering (only) bytes of the last element of the payload is always detected -/
theorem tensor_last_element_corruption_detected (k : Scalar) (rank : Nat) (hr : rank < 4294967296) (ds : List Int)
    (n : Nat) (pre a b rest : Bytes) (hl : ds.length = rank) (hd : ∀ d ∈ ds, I32 d)
    (hn : dimsSize ds = ((n + 1 : Nat) : Int)) (hpre : pre.length = n * k.size) (ha : a.length = k.size)
    (hb : b.length = k.size) (hab : a ≠ b) :
    (tensor k rank).dec (tensorStreamWith k rank ds (pre ++ a) (pre ++ b) ++ rest) = none := by
  have h0 : 0 ≤ dimsSize ds := by omega
  have hN : (dimsSize ds).toNat = n + 1 := by omega
  have hp : (pre ++ b).length = (dimsSize ds).toNat * k.size := by
    rw [hN, List.length_append, hpre, hb, Nat.succ_mul]
  rw [tensor_dec_with k rank hr ds _ _ rest hl hd h0 hp, hN]
  rw [if_neg]
  unfold hashPayload
  rw [chunkN_append_last k.size n pre a hpre ha, chunkN_append_last k.size n pre b hpre hb]
  simp only [List.map_append, List.map_cons, List.map_nil]
  exact hashList_last _ _ _ (fun h => hab (elemHash_inj k a b ha hb h))

/-- a replaced payload is refused exactly when the 64-bit fold over its elements differs from the stored one -/
theorem tensor_payload_corruption_detected_iff_hash (k : Scalar) (rank : Nat) (hr : rank < 4294967296)
    (ds : List Int) (pl pl' rest : Bytes) (hl : ds.length = rank) (hd : ∀ d ∈ ds, I32 d) (h0 : 0 ≤ dimsSize ds)
    (hp : pl'.length = (dimsSize ds).toNat * k.size) :
    (tensor k rank).dec (tensorStreamWith k rank ds pl pl' ++ rest) = none ↔
      hashPayload k (dimsSize ds).toNat pl' ≠ hashPayload k (dimsSize ds).toNat pl := by
  rw [tensor_dec_with k rank hr ds pl pl' rest hl hd h0 hp]
  by_cases he : hashPayload k (dimsSize ds).toNat pl = hashPayload k (dimsSize ds).toNat pl'
  · simp [he]
  · simp only [he, if_false, true_iff]
    exact fun h => he h.symm

/-- PARTIAL. Full claim of the property: `pl' ≠ pl → (tensor k rank).dec (tensorStreamWith k rank ds pl pl' ++ rest) = none`
    (every altered payload is refused). Proved: it is refused *unless the 64-bit fold collides*
    (`hashPayload … pl' = hashPayload … pl`). Missing case: collision freedom of the fold for changes that are not confined
    to the last element — not provable (for payloads longer than 8 bytes collisions exist by counting), `hash_combine` is
    not injective in its first argument. The last-element case is `tensor_last_element_corruption_detected`. -/
theorem tensor_payload_corruption_partial (k : Scalar) (rank : Nat) (hr : rank < 4294967296)
    (ds : List Int) (pl pl' rest : Bytes) (hl : ds.length = rank) (hd : ∀ d ∈ ds, I32 d) (h0 : 0 ≤ dimsSize ds)
    (hp : pl'.length = (dimsSize ds).toNat * k.size) (_hne : pl' ≠ pl) :
    (tensor k rank).dec (tensorStreamWith k rank ds pl pl' ++ rest) = none ∨
      hashPayload k (dimsSize ds).toNat pl' = hashPayload k (dimsSize ds).toNat pl := by
  by_cases he : hashPayload k (dimsSize ds).toNat pl' = hashPayload k (dimsSize ds).toNat pl
  · exact Or.inr he
  · exact Or.inl ((tensor_payload_corruption_detected_iff_hash k rank hr ds pl pl' rest hl hd h0 hp).mpr he)

/-! ### parameters, configurables, features -/

theorem parameter_roundtrip (p : Parameter) (rest : Bytes) (h : p.WF) :
    parameter.dec (parameter.enc p ++ rest) = some (p, rest) := parameter_good.rt p rest h

theorem parameter_prefix_rejected (x : Parameter) (p : Bytes) (h : x.WF) (hp : p <+: parameter.enc x)
    (hne : p ≠ parameter.enc x) : parameter.dec p = none := parameter_good.ps x p h hp hne

/-- a type tag outside -1..5 is refused (`default: critical0(...)`, parameter.cpp:376) -/
theorem parameter_unknown_tag_rejected (tag : Int) (name rest : Bytes) (ht : I32 tag) (hn : StrOk name)
    (hbad : tag < -1 ∨ 5 < tag) : parameter.dec (i32.enc tag ++ (str.enc name ++ rest)) = none := by
  simp only [parameter, pmap, dseq, seq]
  rw [i32_good.rt tag _ ht]
  simp only []
  rw [str_good.rt name rest hn]
  have e : storage tag = fail := by
    unfold storage
    repeat (rw [if_neg (by omega)])
  simp [e, fail]

theorem configurable_roundtrip (c : Configurable) (rest : Bytes) (h : c.WF) :
    configurable.dec (configurable.enc c ++ rest) = some (c, rest) := configurable_good.rt c rest h

theorem configurable_prefix_rejected (x : Configurable) (p : Bytes) (h : x.WF) (hp : p <+: configurable.enc x)
    (hne : p ≠ configurable.enc x) : configurable.dec p = none := configurable_good.ps x p h hp hne

/-- a stream written by a newer library is refused (configurable.cpp:64-68), whatever follows the version -/
theorem configurable_newer_version_rejected (v : Version) (rest : Bytes)
    (h1 : I32 v.1) (h2 : I32 v.2.1) (h3 : I32 v.2.2) (hnew : versionOk v = false) :
    configurable.dec ((seq i32 (seq i32 i32)).enc v ++ rest) = none := by
  simp only [configurable, pmap, seq, dseq, version]
  have := (seq_good i32_good (seq_good i32_good i32_good)).rt v rest ⟨h1, h2, h3⟩
  simp only [seq, dseq] at this
  rw [this]
  simp [hnew]

/-- an older (or equal) version is read, and the object remembers the version it was written with -/
theorem configurable_older_version_accepted (v : Version) (ps : List Parameter) (rest : Bytes)
    (h1 : I32 v.1) (h2 : I32 v.2.1) (h3 : I32 v.2.2) (hold : versionOk v = true)
    (hps : ps.length < 18446744073709551616 ∧ ∀ p ∈ ps, p.WF) :
    configurable.dec ((seq i32 (seq i32 i32)).enc v ++ ((vec parameter).enc ps ++ rest)) = some (⟨v, ps⟩, rest) := by
  simp only [configurable, pmap, seq, dseq, version]
  have := (seq_good i32_good (seq_good i32_good i32_good)).rt v ((vec parameter).enc ps ++ rest) ⟨h1, h2, h3⟩
  simp only [seq, dseq] at this
  rw [this]
  simp only [hold, if_true]
  rw [(vec_good parameter_good).rt ps rest hps]

theorem feature_roundtrip (f : Feature) (rest : Bytes) (h : f.WF) :
    feature.dec (feature.enc f ++ rest) = some (f, rest) := feature_good.rt f rest h

theorem feature_prefix_rejected (x : Feature) (p : Bytes) (h : x.WF) (hp : p <+: feature.enc x)
    (hne : p ≠ feature.enc x) : feature.dec p = none := feature_good.ps x p h hp hne

/-- configured solvers, losses, splitters, tuners, line-search strategies: type id + configurable -/
theorem factory_configurable_roundtrip (ids : List Bytes) (id : Bytes) (c : Configurable) (rest : Bytes)
    (hid : StrOk id) (hmem : id ∈ ids) (h : c.WF) :
    (factory ids configurable).dec ((factory ids configurable).enc (id, c) ++ rest) = some ((id, c), rest) :=
  (factory_good ids configurable_good).rt (id, c) rest ⟨hid, hmem, h⟩

theorem factory_configurable_prefix_rejected (ids : List Bytes) (id : Bytes) (c : Configurable) (p : Bytes)
    (hid : StrOk id) (hmem : id ∈ ids) (h : c.WF) (hp : p <+: (factory ids configurable).enc (id, c))
    (hne : p ≠ (factory ids configurable).enc (id, c)) : (factory ids configurable).dec p = none :=
  (factory_good ids configurable_good).ps (id, c) p ⟨hid, hmem, h⟩ hp hne

/-! ### models -/

theorem learner_roundtrip (l : Learner) (rest : Bytes) (h : l.WF) :
    learner.dec (learner.enc l ++ rest) = some (l, rest) := learner_good.rt l rest h

theorem learner_prefix_rejected (x : Learner) (p : Bytes) (h : x.WF) (hp : p <+: learner.enc x)
    (hne : p ≠ learner.enc x) : learner.dec p = none := learner_good.ps x p h hp hne

theorem linear_roundtrip (l : Linear) (rest : Bytes) (h : l.WF) :
    linear.dec (linear.enc l ++ rest) = some (l, rest) := linear_good.rt l rest h

theorem linear_prefix_rejected (x : Linear) (p : Bytes) (h : x.WF) (hp : p <+: linear.enc x)
    (hne : p ≠ linear.enc x) : linear.dec p = none := linear_good.ps x p h hp hne

theorem factory_linear_roundtrip (ids : List Bytes) (id : Bytes) (l : Linear) (rest : Bytes)
    (hid : StrOk id) (hmem : id ∈ ids) (h : l.WF) :
    (factory ids linear).dec ((factory ids linear).enc (id, l) ++ rest) = some ((id, l), rest) :=
  (factory_good ids linear_good).rt (id, l) rest ⟨hid, hmem, h⟩

theorem factory_linear_prefix_rejected (ids : List Bytes) (id : Bytes) (l : Linear) (p : Bytes)
    (hid : StrOk id) (hmem : id ∈ ids) (h : l.WF) (hp : p <+: (factory ids linear).enc (id, l))
    (hne : p ≠ (factory ids linear).enc (id, l)) : (factory ids linear).dec p = none :=
  (factory_good ids linear_good).ps (id, l) p ⟨hid, hmem, h⟩ hp hne

/-- all eight weak learners (affine, stump, hinge, the four look-up tables, decision tree), through the factory -/
theorem wlearner_roundtrip (w : WLearner) (rest : Bytes) (h : w.WF) :
    wlearner.dec (wlearner.enc w ++ rest) = some (w, rest) := wlearner_good.rt w rest h

theorem wlearner_prefix_rejected (x : WLearner) (p : Bytes) (h : x.WF) (hp : p <+: wlearner.enc x)
    (hne : p ≠ wlearner.enc x) : wlearner.dec p = none := wlearner_good.ps x p h hp hne

theorem gboost_roundtrip (g : GBoost) (rest : Bytes) (h : g.WF) :
    gboost.dec (gboost.enc g ++ rest) = some (g, rest) := gboost_good.rt g rest h

theorem gboost_prefix_rejected (x : GBoost) (p : Bytes) (h : x.WF) (hp : p <+: gboost.enc x)
    (hne : p ≠ gboost.enc x) : gboost.dec p = none := gboost_good.ps x p h hp hne


/-! ### the readers as coded (`Model/WireStream.lean`) implement the codecs -/

open Stream in
/-- the character loop of `read(stream, std::string&)` on a good stream: all `n` bytes, or a failed stream -/
theorem string_loop_reads_n_or_fails (n : Nat) (bs : Bytes) :
    match takeN n bs with
    | some (x, r) => rdChars n ⟨bs, true⟩ = .val x ⟨r, true⟩
    | none => ∃ x, rdChars n ⟨bs, true⟩ = .val x ⟨[], false⟩ := rdChars_spec n bs

theorem string_reader_as_coded : Stream.Impl Stream.rdString str := Stream.impl_string

theorem vector_reader_as_coded {α : Type} {R : Stream.Reader α} {c : Codec α} (h : Stream.Impl R c) :
    Stream.Impl (Stream.rdVec R) (vec c) := Stream.impl_vec h

/-- the look-up of a garbage id after a failed id read cannot turn a failure into a success -/
theorem factory_reader_as_coded {β : Type} [Inhabited β] {B : Stream.Reader β} {body : Codec β} (ids : List Bytes)
    (h : Stream.Impl B body) : Stream.Impl (Stream.rdFactory ids B) (factory ids body) := Stream.impl_factory ids h

theorem tensor_reader_as_coded (k : Scalar) (rank : Nat) : Stream.Impl (Stream.rdTensor k rank) (tensor k rank) :=
  Stream.impl_tensor k rank

theorem configurable_reader_as_coded {P : Stream.Reader Parameter} (hP : Stream.Impl P parameter) :
    Stream.Impl (Stream.rdConfigurable P) configurable := Stream.impl_configurable hP

/-- statement sequences and `||` chains of readers implement `dseq` (every model reader is such a sequence) -/
theorem sequence_reader_as_coded {α β : Type} {A : Stream.Reader α} {a : Codec α} {B : α → Stream.Reader β}
    {b : α → Codec β} (ha : Stream.Impl A a) (hb : ∀ x, Stream.Impl (B x) (b x)) :
    Stream.Impl (Stream.bind A (fun x => Stream.bind (B x) (fun y => Stream.ret (x, y)))) (dseq a b) :=
  Stream.impl_dseq ha hb

/-- a procedure that implements a codec ends with a good stream exactly on the byte strings the codec decodes -/
theorem reader_accepts_iff_codec {α : Type} {R : Stream.Reader α} {c : Codec α} (h : Stream.Impl R c) (bs : Bytes) :
    (R ⟨bs, true⟩).failed = false ↔ (c.dec bs).isSome = true := h.accepts_iff bs

/-- the property for the tensor reader as coded: what was written is read back … -/
theorem tensor_reader_roundtrip (k : Scalar) (rank : Nat) (hr : rank < 4294967296) (t : Tensor) (rest : Bytes)
    (h : Tensor.WF k rank t) :
    Stream.rdTensor k rank ⟨(tensor k rank).enc t ++ rest, true⟩ = .val t ⟨rest, true⟩ :=
  (Stream.impl_tensor k rank).some (tensor_roundtrip k rank hr t rest h)

/-- … and every strict prefix ends with a failed stream -/
theorem tensor_reader_prefix_rejected (k : Scalar) (rank : Nat) (hr : rank < 4294967296) (t : Tensor) (p : Bytes)
    (h : Tensor.WF k rank t) (hp : p <+: (tensor k rank).enc t) (hne : p ≠ (tensor k rank).enc t) :
    (Stream.rdTensor k rank ⟨p, true⟩).failed = true :=
  (Stream.impl_tensor k rank).none (tensor_prefix_rejected k rank hr t p h hp hne)

/-- the same for a configured factory object (solver, loss, …) read by the procedures as coded -/
theorem factory_configurable_reader_prefix_rejected {P : Stream.Reader Parameter} (hP : Stream.Impl P parameter)
    (ids : List Bytes) (id : Bytes) (c : Configurable) (p : Bytes) (hid : StrOk id) (hmem : id ∈ ids) (h : c.WF)
    (hp : p <+: (factory ids configurable).enc (id, c)) (hne : p ≠ (factory ids configurable).enc (id, c)) :
    (Stream.rdFactory ids (Stream.rdConfigurable P) ⟨p, true⟩).failed = true :=
  (Stream.impl_factory ids (Stream.impl_configurable hP)).none
    (factory_configurable_prefix_rejected ids id c p hid hmem h hp hne)

/-- the model readers are sequences of `critical(!read(a) || !read(b) …)` over the procedures above: learner, linear
    model (with its size check), gradient boosting model; `P`, `F`, `W` read one parameter / feature / weak learner -/
theorem learner_reader_as_coded {P : Stream.Reader Parameter} {F : Stream.Reader Feature}
    (hP : Stream.Impl P parameter) (hF : Stream.Impl F feature) : Stream.Impl (Stream.rdLearner P F) learner :=
  Stream.impl_learner hP hF

theorem linear_reader_as_coded {P : Stream.Reader Parameter} {F : Stream.Reader Feature}
    (hP : Stream.Impl P parameter) (hF : Stream.Impl F feature) : Stream.Impl (Stream.rdLinear P F) linear :=
  Stream.impl_linear hP hF

theorem gboost_reader_as_coded {P : Stream.Reader Parameter} {F : Stream.Reader Feature} {W : Stream.Reader WLearner}
    (hP : Stream.Impl P parameter) (hF : Stream.Impl F feature) (hW : Stream.Impl W wlearner) :
    Stream.Impl (Stream.rdGBoost P F W) gboost := Stream.impl_gboost hP hF hW

/-- every strict prefix of the stream of a gradient boosting model makes the reader as coded throw or fail -/
theorem gboost_reader_prefix_rejected {P : Stream.Reader Parameter} {F : Stream.Reader Feature}
    {W : Stream.Reader WLearner} (hP : Stream.Impl P parameter) (hF : Stream.Impl F feature)
    (hW : Stream.Impl W wlearner) (x : GBoost) (p : Bytes) (h : x.WF) (hp : p <+: gboost.enc x)
    (hne : p ≠ gboost.enc x) : (Stream.rdGBoost P F W ⟨p, true⟩).failed = true :=
  (Stream.impl_gboost hP hF hW).none (gboost_prefix_rejected x p h hp hne)

/-! ### version compatibility (configurable.cpp:64-68): all three components -/

/-- lexicographic `≤` on version triples -/
def verLE (v w : Version) : Prop :=
  v.1 < w.1 ∨ (v.1 = w.1 ∧ (v.2.1 < w.2.1 ∨ (v.2.1 = w.2.1 ∧ v.2.2 ≤ w.2.2)))

instance (v w : Version) : Decidable (verLE v w) := by unfold verLE; infer_instance

/-- the three-clause condition of the code is exactly "not newer than the library" in the lexicographic order -/
theorem versionOk_iff_lex (v : Version) : versionOk v = true ↔ verLE v libVersion := by
  unfold versionOk verLE libVersion
  simp only [Bool.not_eq_true', Bool.or_eq_false_iff, Bool.and_eq_false_imp, Bool.and_eq_true, decide_eq_true_eq,
    decide_eq_false_iff_not]
  omega

theorem version_newer_major_rejected (v : Version) (h : v.1 > majorVersion) : versionOk v = false := by
  have := versionOk_iff_lex v
  unfold verLE libVersion at this
  cases hv : versionOk v with
  | false => rfl
  | true => have := this.mp hv; simp only at this; omega

theorem version_newer_minor_rejected (v : Version) (h1 : v.1 = majorVersion) (h2 : v.2.1 > minorVersion) :
    versionOk v = false := by
  have := versionOk_iff_lex v
  unfold verLE libVersion at this
  cases hv : versionOk v with
  | false => rfl
  | true => have := this.mp hv; simp only at this; omega

theorem version_newer_patch_rejected (v : Version) (h1 : v.1 = majorVersion) (h2 : v.2.1 = minorVersion)
    (h3 : v.2.2 > patchVersion) : versionOk v = false := by
  have := versionOk_iff_lex v
  unfold verLE libVersion at this
  cases hv : versionOk v with
  | false => rfl
  | true => have := this.mp hv; simp only at this; omega

/-- an older major version is readable whatever its minor and patch numbers are -/
theorem version_older_major_accepted (v : Version) (h : v.1 < majorVersion) : versionOk v = true :=
  (versionOk_iff_lex v).mpr (Or.inl h)

theorem version_older_minor_accepted (v : Version) (h1 : v.1 = majorVersion) (h2 : v.2.1 < minorVersion) :
    versionOk v = true := (versionOk_iff_lex v).mpr (Or.inr ⟨h1, Or.inl h2⟩)

theorem version_not_newer_patch_accepted (v : Version) (h1 : v.1 = majorVersion) (h2 : v.2.1 = minorVersion)
    (h3 : v.2.2 ≤ patchVersion) : versionOk v = true := (versionOk_iff_lex v).mpr (Or.inr ⟨h1, Or.inr ⟨h2, h3⟩⟩)

/-- the reader's decision on ANY version triple followed by a valid parameter list -/
theorem configurable_version_exact (v : Version) (ps : List Parameter) (rest : Bytes)
    (h1 : I32 v.1) (h2 : I32 v.2.1) (h3 : I32 v.2.2) (hps : ps.length < 18446744073709551616 ∧ ∀ p ∈ ps, p.WF) :
    configurable.dec ((seq i32 (seq i32 i32)).enc v ++ ((vec parameter).enc ps ++ rest)) =
      if verLE v libVersion then some (⟨v, ps⟩, rest) else none := by
  by_cases hv : verLE v libVersion
  · rw [if_pos hv]
    exact configurable_older_version_accepted v ps rest h1 h2 h3 ((versionOk_iff_lex v).mpr hv) hps
  · rw [if_neg hv]
    have : versionOk v = false := by
      cases h : versionOk v with
      | false => rfl
      | true => exact absurd ((versionOk_iff_lex v).mp h) hv
    exact configurable_newer_version_rejected v _ h1 h2 h3 this

/-! ### what the content hash detects beyond the last element -/

/-- `hash_combine(·, h)` is NOT injective: the running hash can forget a difference -/
theorem hashCombine_not_injective_left : ∃ s1 s2 h : UInt64, s1 ≠ s2 ∧ hashCombine s1 h = hashCombine s2 h :=
  ⟨_, _, _, hashCombine_collision⟩

/-- one fold moves the lowest differing bit of two running hashes down by exactly two positions -/
theorem hashCombine_keeps_low_difference (p : Nat) (s1 s2 h : UInt64) (hd : LowDiff (p + 2) s1 s2) :
    LowDiff p (hashCombine s1 h) (hashCombine s2 h) := hashCombine_lowDiff_left p s1 s2 h hd

/-- the fold detects the replacement of an element when the lowest changed bit is at least `2 ·` (elements after it) -/
theorem hash_fold_detects (pre post : List UInt64) (a b : UInt64) (p : Nat) (h : LowDiff p a b)
    (hp : 2 * post.length ≤ p) : hashList (pre ++ a :: post) ≠ hashList (pre ++ b :: post) :=
  hashList_lowDiff pre post a b p h hp

/-- ANY element of the payload (`i` elements before it, `m` after it): a replacement whose lowest changed bit `p`
    (of the 64-bit value the hash sees) satisfies `2 m ≤ p` is refused. `m = 0` is
    `tensor_last_element_corruption_detected`. -/
theorem tensor_element_corruption_detected (k : Scalar) (rank : Nat) (hr : rank < 4294967296) (ds : List Int)
    (i m p : Nat) (pre a b post rest : Bytes) (hl : ds.length = rank) (hd : ∀ d ∈ ds, I32 d)
    (hn : dimsSize ds = ((i + (1 + m) : Nat) : Int)) (hpre : pre.length = i * k.size) (ha : a.length = k.size)
    (hb : b.length = k.size) (hpost : post.length = m * k.size)
    (hdiff : LowDiff p (elemHash k a) (elemHash k b)) (hp : 2 * m ≤ p) :
    (tensor k rank).dec (tensorStreamWith k rank ds (pre ++ (a ++ post)) (pre ++ (b ++ post)) ++ rest) = none :=
  tensor_element_replaced k rank hr ds i m p pre a b post rest hl hd hn hpre ha hb hpost hdiff hp

/-- single-bit flips: flipping bit `q` of the hashed value of an element that is followed by at most `q / 2` elements
    is refused -/
theorem tensor_bit_flip_detected (k : Scalar) (rank : Nat) (hr : rank < 4294967296) (ds : List Int)
    (i m q : Nat) (pre a b post rest : Bytes) (hl : ds.length = rank) (hd : ∀ d ∈ ds, I32 d)
    (hn : dimsSize ds = ((i + (1 + m) : Nat) : Int)) (hpre : pre.length = i * k.size) (ha : a.length = k.size)
    (hb : b.length = k.size) (hpost : post.length = m * k.size) (hq : q < 64)
    (hflip : elemHash k b = elemHash k a ^^^ UInt64.ofNat (2 ^ q)) (hp : 2 * m ≤ q) :
    (tensor k rank).dec (tensorStreamWith k rank ds (pre ++ (a ++ post)) (pre ++ (b ++ post)) ++ rest) = none :=
  tensor_element_replaced k rank hr ds i m q pre a b post rest hl hd hn hpre ha hb hpost
    (hflip ▸ lowDiff_flip (elemHash k a) q hq) hp

/-- two doubles (2^-187 · 1.67…, 0.0359…) -/
def exFlip : Tensor :=
  ⟨[2], [0x87, 0xca, 0x5f, 0xa4, 0x7b, 0xbc, 0x3a, 0x34, 0x97, 0x46, 0x74, 0xa2, 0x53, 0x64, 0xa2, 0x3f]⟩

/-- WITNESS (replayed on the implementation, corpus/C15): flipping ONE BIT (bit 0 of the first payload byte, 0x87 → 0x86)
    of a valid stream of a two-element `double` tensor gives a stream that is read successfully, with the altered
    content. The payload clause of the property does not hold for the code as it is; the bit is below the `2 m ≤ p`
    bound of `tensor_element_corruption_detected` (`p = 0`, `m = 1`). -/
theorem tensor_single_bit_flip_accepted :
    Tensor.WF .f64 1 exFlip ∧ ((tensor .f64 1).enc exFlip).getD 24 0 = 0x87 ∧
      (tensor .f64 1).dec (((tensor .f64 1).enc exFlip).set 24 0x86) = some (⟨[2], exFlip.payload.set 0 0x86⟩, []) := by
  decide

/-- the hypothesis "the 64-bit folds differ" of `tensor_payload_corruption_partial` cannot be dropped -/
theorem tensor_payload_corruption_hash_hypothesis_necessary :
    ∃ (k : Scalar) (rank : Nat) (ds : List Int) (pl pl' : Bytes), pl' ≠ pl ∧ ds.length = rank ∧ (∀ d ∈ ds, I32 d) ∧
      0 ≤ dimsSize ds ∧ pl'.length = (dimsSize ds).toNat * k.size ∧
      ((tensor k rank).dec (tensorStreamWith k rank ds pl pl')).isSome = true :=
  ⟨.f64, 1, [2], exFlip.payload, exFlip.payload.set 0 0x86, by decide, by decide, by decide, by decide, by decide,
    by decide⟩

/-! ### non-vacuity: the hypotheses are satisfiable, the statements bite on concrete streams -/

/-- a 2x1 `int16` tensor -/
def exTensor : Tensor := ⟨[2, 1], [0x01, 0x00, 0xff, 0xff]⟩
example : Tensor.WF .i16 2 exTensor := by decide
example : ((tensor .i16 2).enc exTensor).length = 32 := by decide
example : (tensor .i16 2).dec ((tensor .i16 2).enc exTensor ++ [7]) = some (exTensor, [7]) := by decide
example : (tensor .i16 2).dec (((tensor .i16 2).enc exTensor).take 31) = none := by decide
-- the same bytes are not a `uint16` rank-1 tensor, and flipping a payload bit is refused
example : (tensor .u16 1).dec ((tensor .i16 2).enc exTensor) = none := by decide
example : (tensor .i16 2).dec (((tensor .i16 2).enc exTensor).set 28 0x03) = none := by decide
-- a header corruption that keeps the element count 0 is accepted (outside the property's statement)
example : ((tensor .i16 2).dec (((tensor .i16 2).enc ⟨[0, 3], []⟩).set 12 0x07)).isSome = true := by decide
-- sign extension matters: the element 0xffff hashes as 2^64-1 for int16 and as 65535 for uint16
example : elemHash .i16 [0xff, 0xff] ≠ elemHash .u16 [0xff, 0xff] := by decide

def exParam : Parameter := ⟨[0x65, 0x70, 0x73], .frange 0x3eb0c6f7a0b5ed8d 0 0x3ff0000000000000 false true⟩
example : exParam.WF := by decide
example : parameter.dec (parameter.enc exParam) = some (exParam, []) := by decide
example : parameter.dec ((parameter.enc exParam).take 30) = none := by decide

def exConfig : Configurable := ⟨libVersion, [exParam, ⟨[], .none⟩, ⟨[0x6b], .enum [0x61] [[0x61], [0x62]]⟩]⟩
example : exConfig.WF := by decide
example : versionOk (0, 0, 2) = false ∧ versionOk (0, 0, 0) = true ∧ versionOk libVersion = true := by decide

def exFeature : Feature := ⟨10, (1, 1, 1), [0x66], [[0x61], [0x62, 0x63]]⟩
example : exFeature.WF := by decide
def exLearner : Learner := ⟨exConfig, [exFeature], ⟨9, (1, 1, 1), [0x74], []⟩⟩
example : exLearner.WF := by decide
def exStump : WLearner := ⟨idStump, .stump ⟨exLearner, 0, ⟨[2, 1, 1, 1], List.replicate 16 0⟩⟩ 0x3ff8000000000000⟩
example : exStump.WF := by decide
def exGBoost : GBoost := ⟨exLearner, ⟨[1], List.replicate 8 0⟩, [exStump], [exStump]⟩
example : exGBoost.WF := by decide
example : (wlearner.dec (str.enc [0x78] ++ [])) = none := by decide

-- the readers as coded: a hypothesis `Impl P parameter` is satisfiable (the codec itself, run on a good stream)
def exParamReader : Stream.Reader Parameter := fun s =>
  if s.ok then
    match parameter.dec s.buf with
    | some (v, r) => .val v ⟨r, true⟩
    | none => .throw
  else .throw
example : Stream.Impl exParamReader parameter := by
  refine ⟨fun bs => ?_, fun s hs => ?_⟩
  · cases h : parameter.dec bs with
    | none => simp [exParamReader, h, Stream.Res.failed]
    | some p => obtain ⟨v, r⟩ := p; simp [exParamReader, h]
  · simp [exParamReader, hs, Stream.Res.failed]
-- the string loop on a 3-byte stream asked for 2 / 5 characters; the NUL padding of the short read
example : Stream.rdChars 2 ⟨[1, 2, 3], true⟩ = .val [1, 2] ⟨[3], true⟩ := by decide
example : Stream.rdChars 5 ⟨[1, 2, 3], true⟩ = .val [1, 2, 3, 0, 0] ⟨[], false⟩ := by decide
example : (Stream.rdString ⟨[2, 0, 0, 0, 0x61], true⟩).failed = true := by decide
example : Stream.rdTensor .i16 2 ⟨(tensor .i16 2).enc exTensor ++ [7], true⟩ = .val exTensor ⟨[7], true⟩ := by decide
example : (Stream.rdTensor .i16 2 ⟨((tensor .i16 2).enc exTensor).take 31, true⟩).failed = true := by decide
-- versions around the library's 0.0.1 (all three components matter, in lexicographic order)
example : verLE (0, 0, 1) libVersion ∧ verLE (0, -1, 99) libVersion ∧ verLE (-1, 99, 99) libVersion ∧
    ¬ verLE (0, 0, 2) libVersion ∧ ¬ verLE (0, 1, -99) libVersion ∧ ¬ verLE (1, -99, -99) libVersion := by decide
example : I32 (0 : Int) ∧ ((([] : List Parameter).length < 18446744073709551616) ∧ ∀ p ∈ ([] : List Parameter), p.WF) := by
  decide
-- the low-bit rule: bit 2 of the first of two elements is guarded (2·1 ≤ 2), bit 0 is not (the witness above)
example : LowDiff 2 (5 : UInt64) (1 : UInt64) ∧ LowDiff 0 (0x343abc7ba45fca87 : UInt64) 0x343abc7ba45fca86 := by decide
example : LowDiff 63 (0 : UInt64) (UInt64.ofNat (2 ^ 63)) := by decide
-- bytes to hashed value: flipping bit 2 of byte 0 / bit 7 of byte 7 of a double flips bit 2 / bit 63 of what the hash sees
example : elemHash .f64 [0x83, 0xca, 0x5f, 0xa4, 0x7b, 0xbc, 0x3a, 0x34] =
    elemHash .f64 [0x87, 0xca, 0x5f, 0xa4, 0x7b, 0xbc, 0x3a, 0x34] ^^^ UInt64.ofNat (2 ^ 2) := by decide
example : elemHash .f64 [0x87, 0xca, 0x5f, 0xa4, 0x7b, 0xbc, 0x3a, 0xb4] =
    elemHash .f64 [0x87, 0xca, 0x5f, 0xa4, 0x7b, 0xbc, 0x3a, 0x34] ^^^ UInt64.ofNat (2 ^ 63) := by decide

end NanoVerif.Codec
