import NanoVerif.Model.LSearchStep
import NanoVerif.Proofs.LSearchQuadMT
import Mathlib.Tactic.LinearCombination
/-!
  C07 — the interpolation formulas: the model's text is the generated text, and what the generated formulas compute.

  * `model_lstep_is_generated`: `quadratic`, `secant`, `bisection`, `cubic`, `interpolate` of Model/LSearch.lean are — for every scalar
    type with the core classes, `Float` included — the definitions of Gen/LsStep.lean (re-translated from lstep.cpp on every check).
  * the Hermite cubic through two step records and its slope; `cubic` returns a stationary point of it with curvature `2·d2/(v.t - u.t)`
    (`≥ 0`: a local minimiser) whenever the root exists; `quadratic` returns the stationary point of the interpParabola through
    `(u.t, u.f, u.g)` and `(v.t, v.f)` and `*convexity` is the sign of its leading coefficient; `secant` returns the root of the linear
    interpolant of the slopes; `bisection` the midpoint.
-/
namespace NanoVerif.LSearch
open NanoVerif.Gen

set_option linter.unusedSectionVars false
set_option linter.unusedVariables false

section
variable {α : Type} [Add α] [Sub α] [Mul α] [Div α] [Neg α] [LT α] [LE α] [DecidableLT α] [DecidableLE α] [∀ n, OfNat α n]

/-- the formulas written inside the line-search model are the generated ones (any scalar type: also `Float`) -/
theorem model_lstep_is_generated (u v : Step α) :
    quadratic u v = LsStep.quadratic u.t u.f u.g v.t v.f v.g ∧ secant u v = LsStep.secant u.t u.f u.g v.t v.f v.g ∧
    bisection u v = LsStep.bisection u.t u.f u.g v.t v.f v.g :=
  ⟨rfl, rfl, rfl⟩

/-- … and so are `cubic` and `interpolate` (with `std::sqrt` = the `Sqrt` instance) -/
theorem model_lstep_is_generated_sqrt [Sqrt α] (fin : α → Bool) (mode : Interp) (u v : Step α) :
    cubic u v = LsStep.cubic Sqrt.sqrt u.t u.f u.g v.t v.f v.g ∧
    interpolate fin mode u v = LsStep.interpolate fin Sqrt.sqrt u.t u.f u.g v.t v.f v.g mode.toGen := by
  refine ⟨rfl, ?_⟩
  cases mode <;> rfl

end

/-! ### what the generated formulas compute (ordered fields) -/

section
variable {α : Type} [Field α] [LinearOrder α] [IsStrictOrderedRing α]

/-- the cubic Hermite interpolant of `(ut, uf, ug)` and `(vt, vf, vg)` (value and slope at both ends), in `τ = (x - ut)/(vt - ut)` -/
def hermite (ut uf ug vt vf vg x : α) : α :=
  let s := (vf - uf) / (vt - ut)
  let τ := (x - ut) / (vt - ut)
  uf + (vt - ut) * (ug * τ + (3 * s - 2 * ug - vg) * τ ^ 2 + (ug + vg - 2 * s) * τ ^ 3)

/-- its derivative in `x` -/
def hermiteSlope (ut uf ug vt vf vg x : α) : α :=
  let s := (vf - uf) / (vt - ut)
  let τ := (x - ut) / (vt - ut)
  ug + 2 * (3 * s - 2 * ug - vg) * τ + 3 * (ug + vg - 2 * s) * τ ^ 2

/-- its second derivative in `x` -/
def hermiteCurv (ut uf ug vt vf vg x : α) : α :=
  let s := (vf - uf) / (vt - ut)
  let τ := (x - ut) / (vt - ut)
  (2 * (3 * s - 2 * ug - vg) + 6 * (ug + vg - 2 * s) * τ) / (vt - ut)

/-- `hermite` interpolates values and slopes at both ends -/
theorem hermite_interpolates (ut uf ug vt vf vg : α) (hne : ut ≠ vt) :
    hermite ut uf ug vt vf vg ut = uf ∧ hermite ut uf ug vt vf vg vt = vf ∧
    hermiteSlope ut uf ug vt vf vg ut = ug ∧ hermiteSlope ut uf ug vt vf vg vt = vg := by
  have hd : vt - ut ≠ 0 := sub_ne_zero.mpr (Ne.symm hne)
  refine ⟨?_, ?_, ?_, ?_⟩
  · simp [hermite]
  · simp only [hermite, div_self hd]; field_simp; ring
  · simp [hermiteSlope]
  · simp only [hermiteSlope, div_self hd]; ring

/-- the generated `lsearch_step_t::cubic` returns a STATIONARY POINT of the Hermite cubic through its two arguments, at which the
    curvature is `2·d2/(v.t - u.t)` with `d2 = ±sqrt(d1² - u.g v.g)` the signed root of the formula — non-negative for a square root with
    non-negative values (`sign(v.t - u.t)` is what `v.t > u.t ? +1 : -1` is for): a local minimiser. Hypotheses: distinct steps, `sqrt` is
    a root of the radicand, the denominator of the formula is not zero (otherwise the C++ code returns a non-finite value). -/
theorem generated_cubic_stationary (sqrt : α → α) (ut uf ug vt vf vg : α) (hne : ut ≠ vt)
    (hs : sqrt ((ug + vg - 3 * (uf - vf) / (ut - vt)) * (ug + vg - 3 * (uf - vf) / (ut - vt)) - ug * vg) *
          sqrt ((ug + vg - 3 * (uf - vf) / (ut - vt)) * (ug + vg - 3 * (uf - vf) / (ut - vt)) - ug * vg) =
          (ug + vg - 3 * (uf - vf) / (ut - vt)) * (ug + vg - 3 * (uf - vf) / (ut - vt)) - ug * vg)
    (hD : vg - ug + 2 * ((if vt > ut then 1 else -1) *
          sqrt ((ug + vg - 3 * (uf - vf) / (ut - vt)) * (ug + vg - 3 * (uf - vf) / (ut - vt)) - ug * vg)) ≠ 0) :
    hermiteSlope ut uf ug vt vf vg (LsStep.cubic sqrt ut uf ug vt vf vg) = 0 ∧
    hermiteCurv ut uf ug vt vf vg (LsStep.cubic sqrt ut uf ug vt vf vg) =
      2 * ((if vt > ut then 1 else -1) *
        sqrt ((ug + vg - 3 * (uf - vf) / (ut - vt)) * (ug + vg - 3 * (uf - vf) / (ut - vt)) - ug * vg)) / (vt - ut) := by
  have hd : vt - ut ≠ 0 := sub_ne_zero.mpr (Ne.symm hne)
  have hd' : ut - vt ≠ 0 := sub_ne_zero.mpr hne
  -- names for the sub-terms of the formula
  generalize hd1 : ug + vg - 3 * (uf - vf) / (ut - vt) = d1 at hs hD ⊢
  generalize hq : sqrt (d1 * d1 - ug * vg) = q at hs hD ⊢
  generalize hσ : (if vt > ut then (1 : α) else -1) = σ at hD ⊢
  have hσ2 : σ * σ = 1 := by
    rw [← hσ]; split <;> ring
  have hw : (σ * q) * (σ * q) = d1 * d1 - ug * vg := by
    have : (σ * q) * (σ * q) = (σ * σ) * (q * q) := by ring
    rw [this, hσ2, hs, one_mul]
  have hs' : (vf - uf) / (vt - ut) = (ug + vg - d1) / 3 := by
    rw [← hd1]; field_simp; ring
  have hx : LsStep.cubic sqrt ut uf ug vt vf vg = vt - (vt - ut) * (vg + σ * q - d1) / (vg - ug + 2 * (σ * q)) := by
    simp only [LsStep.cubic, hd1, hq, hσ]
  generalize σ * q = w at hw hD hx ⊢
  have hτ : (LsStep.cubic sqrt ut uf ug vt vf vg - ut) / (vt - ut) = (w + d1 - ug) / (vg - ug + 2 * w) := by
    rw [hx]
    generalize hDdef : vg - ug + 2 * w = D at hD ⊢
    field_simp
    rw [← hDdef]; ring
  constructor
  · simp only [hermiteSlope, hτ, hs']
    field_simp
    linear_combination (ug + vg - 2 * d1) * hw
  · simp only [hermiteCurv, hτ, hs']
    field_simp
    linear_combination (-12 : α) * hw


/-- the interpParabola with value `uf` and slope `ug` at `ut` and value `vf` at `vt`; its leading coefficient -/
def parabolaCoef (ut uf ug vt vf : α) : α := (vf - uf - ug * (vt - ut)) / ((vt - ut) * (vt - ut))
def interpParabola (ut uf ug vt vf x : α) : α := uf + ug * (x - ut) + parabolaCoef ut uf ug vt vf * (x - ut) * (x - ut)
def interpParabolaSlope (ut uf ug vt vf x : α) : α := ug + 2 * parabolaCoef ut uf ug vt vf * (x - ut)

theorem interpParabola_interpolates (ut uf ug vt vf : α) (hne : ut ≠ vt) :
    interpParabola ut uf ug vt vf ut = uf ∧ interpParabolaSlope ut uf ug vt vf ut = ug ∧ interpParabola ut uf ug vt vf vt = vf := by
  have hd : vt - ut ≠ 0 := sub_ne_zero.mpr (Ne.symm hne)
  refine ⟨by simp [interpParabola], by simp [interpParabolaSlope], ?_⟩
  simp only [interpParabola, parabolaCoef]; field_simp; ring

/-- the generated `lsearch_step_t::quadratic` returns the STATIONARY POINT of that interpParabola (the formula divides by its leading
    coefficient times `u.t - v.t`: hypothesis `hq`), and the flag it stores into `*convexity` says exactly that the leading coefficient
    is positive, i.e. that the stationary point is the minimiser -/
theorem generated_quadratic_stationary (ut uf ug vt vf vg : α) (hne : ut ≠ vt) (hq : ug - (uf - vf) / (ut - vt) ≠ 0) :
    interpParabolaSlope ut uf ug vt vf (LsStep.quadratic ut uf ug vt vf vg) = 0 ∧
    (LsStep.quadraticConvexity ut uf ug vt vf vg = true ↔ 0 < parabolaCoef ut uf ug vt vf) := by
  have hd : vt - ut ≠ 0 := sub_ne_zero.mpr (Ne.symm hne)
  have hd' : ut - vt ≠ 0 := sub_ne_zero.mpr hne
  constructor
  · have hx : LsStep.quadratic ut uf ug vt vf vg - ut = -(1 / 2 * ug * (ut - vt) / (ug - (uf - vf) / (ut - vt))) := by
      simp only [LsStep.quadratic]; ring
    have hc : parabolaCoef ut uf ug vt vf = (ug - (uf - vf) / (ut - vt)) / (ut - vt) := by
      simp only [parabolaCoef]; field_simp; ring
    simp only [interpParabolaSlope, hx, hc]
    generalize ug - (uf - vf) / (ut - vt) = Q at hq ⊢
    field_simp
    ring
  · have hpos : 0 < (vt - ut) * (vt - ut) := by
      rcases lt_or_gt_of_ne hd with h' | h'
      · exact mul_pos_of_neg_of_neg h' h'
      · exact mul_pos h' h'
    simp only [LsStep.quadraticConvexity, parabolaCoef, decide_eq_true_eq, gt_iff_lt]
    rw [lt_div_iff₀ hpos, zero_mul]
    constructor <;> intro h' <;> linarith

/-- the linear interpolant of the two slopes -/
def slopeLine (ut ug vt vg x : α) : α := ug + (vg - ug) * (x - ut) / (vt - ut)

/-- the generated `lsearch_step_t::secant` returns the ROOT of the linear interpolant of the slopes `(u.t, u.g)`, `(v.t, v.g)` -/
theorem generated_secant_root (ut uf ug vt vf vg : α) (hne : ut ≠ vt) (hg : ug ≠ vg) :
    slopeLine ut ug vt vg ut = ug ∧ slopeLine ut ug vt vg vt = vg ∧ slopeLine ut ug vt vg (LsStep.secant ut uf ug vt vf vg) = 0 := by
  have hd : vt - ut ≠ 0 := sub_ne_zero.mpr (Ne.symm hne)
  have hg' : ug - vg ≠ 0 := sub_ne_zero.mpr hg
  refine ⟨by simp [slopeLine], ?_, ?_⟩
  · simp only [slopeLine]; field_simp; ring
  · simp only [slopeLine, LsStep.secant]; field_simp; ring

/-- the generated `lsearch_step_t::bisection` returns the midpoint -/
theorem generated_bisection_midpoint (ut uf ug vt vf vg : α) : 2 * LsStep.bisection ut uf ug vt vf vg = ut + vt := by
  simp only [LsStep.bisection]; ring

/-- the generated formulas on two distinct points of a convex quadratic return its minimiser -/
theorem generated_exact_on_quadratics (sqrt : α → α) (hs : ∀ x : α, 0 ≤ x → 0 ≤ sqrt x ∧ sqrt x * sqrt x = x) {f0 g0 h : α}
    (hh : 0 < h) (u v : Step α) (hu : OnQuad f0 g0 h u) (hv : OnQuad f0 g0 h v) (hne : u.t ≠ v.t) :
    LsStep.quadratic u.t u.f u.g v.t v.f v.g = tstar g0 h ∧ LsStep.secant u.t u.f u.g v.t v.f v.g = tstar g0 h ∧
    LsStep.cubic sqrt u.t u.f u.g v.t v.f v.g = tstar g0 h ∧
    (∀ (fin : α → Bool) (mode : LsStep.InterpolationType), fin (tstar g0 h) = true → mode ≠ .bisection →
      LsStep.interpolate fin sqrt u.t u.f u.g v.t v.f v.g mode = tstar g0 h) := by
  let _ : Sqrt α := ⟨sqrt⟩
  have e1 : LsStep.quadratic u.t u.f u.g v.t v.f v.g = tstar g0 h := quadratic_exact hh u v hu hv hne
  have e2 : LsStep.secant u.t u.f u.g v.t v.f v.g = tstar g0 h := secant_exact hh u v hu hv hne
  have e3 : LsStep.cubic sqrt u.t u.f u.g v.t v.f v.g = tstar g0 h := cubic_exact (α := α) hs hh u v hu hv hne
  refine ⟨e1, e2, e3, ?_⟩
  intro fin mode hfin hm
  cases mode with
  | bisection => exact absurd rfl hm
  | quadratic => simp only [LsStep.interpolate, e1, hfin, if_true]
  | cubic => simp only [LsStep.interpolate, e3, hfin, if_true]

/-- a configuration whose `cubic` is the generated formula (with a square root that is one on non-negative arguments) satisfies the
    contract `CubicExact` of the Moré–Thuente theorems -/
theorem generated_cubic_exact (cfg : Cfg α) (sqrt : α → α) (hs : ∀ x : α, 0 ≤ x → 0 ≤ sqrt x ∧ sqrt x * sqrt x = x)
    (hcfg : ∀ u v : Step α, cfg.cubic u v = LsStep.cubic sqrt u.t u.f u.g v.t v.f v.g) {h : α} (hh : 0 < h) : CubicExact cfg h := by
  intro f0 g0 u v hu hv hne
  rw [hcfg]; exact (generated_exact_on_quadratics sqrt hs hh u v hu hv hne).2.2.1

end

end NanoVerif.LSearch
