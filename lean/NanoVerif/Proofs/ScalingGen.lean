import NanoVerif.Model.Scaling
import NanoVerif.Gen.ScalingGuards
/-!
  C14 — the hand-written text of `Model/Scaling.lean` IS the text regenerated from `src/dataset/stats.cpp`
  (`Gen/ScalingGuards.lean`, rewritten by `tools/props/c14_translate.py` on every check), for every scalar type with the core
  classes — `Float` (what the driver runs, what C09's iterator model builds on) and every ordered field (what the theorems are
  about). An edit of `::done`, `::update`, `scalar_stats_t::scale/upscale`, `::make_scaling`, `::nan2zero` or of the constructor's
  fill values changes the generated definitions and these theorems stop checking.

  No Mathlib import: the statements are definitional unfoldings plus case splits on the `if`s.
-/
namespace NanoVerif.Scaling
open NanoVerif.Gen

set_option linter.unusedSectionVars false

section
variable {α : Type} [Add α] [Sub α] [Mul α] [Div α] [Neg α] [LT α] [DecidableLT α] [NatCast α] [OfNat α 0] [OfNat α 1]

/-- the running sums of the model as one index of `scalar_stats_t` before `done` (`m_mean` holds Σx, `m_stdev` holds Σx²,
    the four (de)normalisers still have the constructor's 1.0) -/
def Acc.toCol (a : Acc α) : ScalingGuards.Col α := ⟨a.n, a.mn, a.mx, a.sum, a.sum2, 1, 1, 1, 1⟩

/-- the finalised statistics of the model as one index of `scalar_stats_t` -/
def Stats.toCol (s : Stats α) : ScalingGuards.Col α :=
  ⟨s.n, s.mn, s.mx, s.mean, s.sd, s.divRange, s.mulRange, s.divSd, s.mulSd⟩

def Stats.ofCol (c : ScalingGuards.Col α) : Stats α :=
  ⟨c.samples, c.min, c.max, c.mean, c.stdev, c.div_range, c.mul_range, c.div_stdev, c.mul_stdev⟩

/-- `Mode` ↔ the generated `enum class scaling_type` -/
def Mode.toGen : Mode → ScalingGuards.ScalingType
  | .none => .none
  | .mean => .mean
  | .minmax => .minmax
  | .standard => .standard

theorem Stats.ofCol_toCol (s : Stats α) : Stats.ofCol s.toCol = s := rfl

/-- `std::max` / `std::min` of the model are the generated ones -/
theorem model_cmax_is_generated (a b : α) : cmax a b = ScalingGuards.gmax a b ∧ cmin a b = ScalingGuards.gmin a b :=
  ⟨rfl, rfl⟩

/-- `Acc.init` = the constructor's fill values -/
theorem model_init_is_generated (hi lo : α) : (Acc.init hi lo).toCol = ScalingGuards.initColumn hi lo := rfl

/-- `Acc.push` = the body of `::update`: a value with `std::isfinite` is accumulated (`some v`), any other is skipped (`none`) -/
theorem model_push_is_generated (fin : α → Bool) (a : Acc α) (v : α) :
    (fin v = true → (a.push (some v)).toCol = ScalingGuards.updateColumn fin a.toCol v) ∧
    (fin v = false → (a.push none).toCol = ScalingGuards.updateColumn fin a.toCol v) := by
  constructor
  · intro h
    simp only [ScalingGuards.updateColumn, h, if_true]
    rfl
  · intro h
    simp only [ScalingGuards.updateColumn, h]
    rfl

/-- `finalize` = the body of the loop of `::done`, with `masked` = "the enable mask has a 0x00 at this index":
    the `N > 1` split, the four `std::max(…, epsilon)` guards, the `N == 0` reset and the mask reset are the source's -/
theorem model_finalize_is_generated [Sqrt α] (eps : α) (enabled : Bool) (a : Acc α) :
    finalize eps enabled a = Stats.ofCol (ScalingGuards.doneColumn Sqrt.sqrt eps (!enabled) a.toCol) := by
  -- in every branch both sides are the same record of the same nine expressions
  cases enabled <;> by_cases h1 : a.n > 1 <;> by_cases h0 : a.n = 0 <;>
    simp only [finalize, ScalingGuards.doneColumn, Bool.not_false, Bool.not_true, Bool.false_eq_true, if_true, if_false,
      h1, h0, Stats.ofCol, Acc.toCol] <;> rfl

/-- `nan2zero` -/
theorem model_nan2zero_is_generated [FinTest α] (y : α) : nan2zero y = ScalingGuards.nan2zero FinTest.isFin y := by
  unfold nan2zero ScalingGuards.nan2zero
  cases FinTest.isFin y <;> rfl

/-- `scaleCell` on a present value = the `switch` of `scalar_stats_t::scale`, element-wise -/
theorem model_scale_is_generated [FinTest α] (m : Mode) (s : Stats α) (x : α) :
    scaleCell m s (some x) = ScalingGuards.scaleCell FinTest.isFin m.toGen s.toCol x := by
  cases m <;> simp only [scaleCell, ScalingGuards.scaleCell, Mode.toGen, model_nan2zero_is_generated] <;> rfl

/-- `upscaleCell` = the `switch` of `scalar_stats_t::upscale`, element-wise -/
theorem model_upscale_is_generated (m : Mode) (s : Stats α) (y : α) :
    upscaleCell m s y = ScalingGuards.upscaleCell m.toGen s.toCol y := by
  cases m <;> rfl

/-- `makeScaling` = the `switch` of `::make_scaling`, element-wise -/
theorem model_makeScaling_is_generated (m : Mode) (s : Stats α) :
    makeScaling m s = ScalingGuards.makeScaling m.toGen s.toCol := by
  cases m <;> rfl

end

end NanoVerif.Scaling
