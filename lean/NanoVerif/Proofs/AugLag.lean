import NanoVerif.Proofs.Penalty
/-!
  C05 — helper lemmas about the outer loop of the augmented-Lagrangian solver (`alStep`, `alLoop` of
  `Model/Penalty.lean`) in exact arithmetic: the criterion dominates the feasibility residual, and the loop invariant
  the property theorems of `Props/C05.lean` are assembled from. The inner solver is universally quantified.
-/
namespace NanoVerif.Penalty
open NanoVerif.Constraint
set_option linter.unusedSectionVars false

variable {α : Type} [Field α] [LinearOrder α] [IsStrictOrderedRing α]

/-! ### `lpNorm<Infinity>` -/

theorem maxL_nonneg : ∀ (l : List α), 0 ≤ maxL l
  | [] => le_refl _
  | x :: xs => by
    simp only [maxL, cmax_eq_max]
    exact le_trans (maxL_nonneg xs) (le_max_right _ _)

theorem le_maxL {l : List α} {x : α} (h : x ∈ l) : x ≤ maxL l := by
  induction l with
  | nil => simp at h
  | cons y ys ih =>
    simp only [maxL, cmax_eq_max]
    rcases List.mem_cons.mp h with h | h
    · rw [h]; exact le_max_left _ _
    · exact le_trans (ih h) (le_max_right _ _)

theorem maxL_le {l : List α} {b : α} (hb : 0 ≤ b) (h : ∀ x ∈ l, x ≤ b) : maxL l ≤ b := by
  induction l with
  | nil => exact hb
  | cons y ys ih =>
    simp only [maxL, cmax_eq_max]
    exact max_le (h y (by simp)) (ih (fun x hx => h x (by simp [hx])))

/-! ### the criterion dominates the feasibility residual -/

theorem cmax_le_cmax {a b a' b' : α} (h1 : a ≤ a') (h2 : b ≤ b') : cmax a b ≤ cmax a' b' := by
  rw [cmax_eq_max, cmax_eq_max]; exact max_le_max h1 h2

theorem hinge_le_abs_shifted (g m ro : α) (hro : 0 < ro) (hm : 0 ≤ m) :
    cmax g 0 ≤ absv (cmax g (-m / ro)) := by
  rw [cmax_eq_max, cmax_eq_max, absv_eq_abs]
  have hneg : -m / ro ≤ 0 := div_nonpos_of_nonpos_of_nonneg (by linarith) (le_of_lt hro)
  rcases le_total g 0 with hg | hg
  · rw [max_eq_right hg]; exact abs_nonneg _
  · rw [max_eq_left hg, max_eq_left (le_trans hneg hg), abs_of_nonneg hg]

theorem maxL_hinge_le (ro : α) (hro : 0 < ro) :
    ∀ (gs ms : List α), ms.length = gs.length → (∀ m ∈ ms, 0 ≤ m) →
      maxL (gs.map (fun g => cmax g 0)) ≤ maxL (List.zipWith (fun g m => absv (cmax g (-m / ro))) gs ms)
  | [], _, _, _ => by simp [maxL]
  | _ :: _, [], hl, _ => by simp at hl
  | g :: gs, m :: ms, hl, hpos => by
    simp only [List.map_cons, List.zipWith_cons_cons, maxL]
    have h1 := hinge_le_abs_shifted g m ro hro (hpos m (by simp))
    have h2 := maxL_hinge_le ro hro gs ms (by simpa using hl) (fun m' hm' => hpos m' (by simp [hm']))
    exact cmax_le_cmax h1 h2

/-- `criterion_ge_violation` at the level of one state -/
theorem criterion_ge_violation_st (c : St α) (miu : List α) (ro : α) (hro : 0 < ro)
    (hm : ∀ m ∈ miu, 0 ≤ m) (hlen : miu.length = c.cineq.length) :
    violation c ≤ criterion c miu ro := by
  unfold violation criterion
  rw [cmax_eq_max, cmax_eq_max]
  exact max_le_max (le_refl _) (maxL_hinge_le ro hro c.cineq miu hlen hm)

/-- a residual below `eps` bounds every equality and every inequality -/
theorem violation_le_iff (c : St α) (eps : α) (h : violation c ≤ eps) :
    (∀ v ∈ c.ceq, |v| ≤ eps) ∧ (∀ g ∈ c.cineq, max 0 g ≤ eps) := by
  unfold violation at h
  rw [cmax_eq_max] at h
  constructor
  · intro v hv
    have : absv v ≤ maxL (c.ceq.map absv) := le_maxL (List.mem_map.mpr ⟨v, hv, rfl⟩)
    rw [absv_eq_abs] at this
    exact le_trans this (le_trans (le_max_left _ _) h)
  · intro g hg
    have : cmax g 0 ≤ maxL (c.cineq.map (fun g => cmax g 0)) := le_maxL (List.mem_map.mpr ⟨g, hg, rfl⟩)
    rw [cmax_eq_max, max_comm] at this
    exact le_trans this (le_trans (le_max_right _ _) h)

/-! ### the loop invariant -/

theorem evalIneq_length (cs : List (C α)) (x : List α) : (evalIneq cs x).length = countIneq cs := by
  simp [evalIneq, countIneq]

theorem evalEq_length (cs : List (C α)) (x : List α) : (evalEq cs x).length = countEq cs := by
  simp [evalEq, countEq]

/-- the answer of the oracle is a `solver_state_t` of the constrained function: its constraint values are those of
    the function's constraints at its point (the class invariant kept by `update_constraints`) -/
def Consistent (cs : List (C α)) (a : Answer α) : Prop := a.cstate = mkState cs a.cstate.x

/-- loop invariant of the augmented-Lagrangian outer loop -/
structure ALInv (cs : List (C α)) (s : ALState α) : Prop where
  ro_pos : 0 < s.ro
  miu_nonneg : ∀ m ∈ s.miu, 0 ≤ m
  miu_len : s.miu.length = countIneq cs
  best_eq : s.best = mkState cs s.best.x
  viol_le : violation s.best ≤ s.oldCrit
  not_conv : s.status ≠ 1

theorem alInit_inv (cs : List (C α)) (x0 : List α) (ro1 : α) (hro : 0 < ro1) : ALInv cs (alInit cs x0 ro1) := by
  refine ⟨hro, ?_, ?_, rfl, ?_, by simp [alInit]⟩
  · intro m hm
    simp only [alInit, List.mem_map] at hm
    obtain ⟨_, _, rfl⟩ := hm
    exact le_refl _
  · simp [alInit, mkState, evalIneq_length]
  · apply criterion_ge_violation_st _ _ _ hro
    · intro m hm
      simp only [List.mem_map] at hm
      obtain ⟨_, _, rfl⟩ := hm
      exact le_refl _
    · simp [alInit]

theorem alStep_inv (cs : List (C α)) (p : Params α) (hgamma : 1 < p.gamma) (hmiuMax : 0 ≤ p.miuMax)
    (s : ALState α) (a : Answer α) (ha : Consistent cs a) (hinv : ALInv cs s) :
    ((alStep cs p s a).2 = false → ALInv cs (alStep cs p s a).1) ∧
    ((alStep cs p s a).1.status = 1 → violation (alStep cs p s a).1.best ≤ p.eps) ∧
    (alStep cs p s a).1.best = mkState cs (alStep cs p s a).1.best.x ∧
    violation (alStep cs p s a).1.best ≤ (alStep cs p s a).1.oldCrit ∧
    (∀ m ∈ (alStep cs p s a).1.miu, 0 ≤ m) := by
  have hclen : a.cstate.cineq.length = countIneq cs := by
    rw [ha]; exact evalIneq_length cs _
  have hcrit : violation a.cstate ≤ criterion a.cstate s.miu s.ro :=
    criterion_ge_violation_st _ _ _ hinv.ro_pos hinv.miu_nonneg (by rw [hinv.miu_len, hclen])
  -- the state kept as `bstate`
  have hbesteq : (if alImproved s a then mkState cs a.cstate.x else s.best)
      = mkState cs (if alImproved s a then mkState cs a.cstate.x else s.best).x := by
    split
    · rfl
    · exact hinv.best_eq
  have hbest : a.iterOk = true →
      violation (if alImproved s a then mkState cs a.cstate.x else s.best) ≤ criterion a.cstate s.miu s.ro := by
    intro hok
    by_cases hlt : criterion a.cstate s.miu s.ro < s.oldCrit
    · have : alImproved s a = true := by simp [alImproved, hok, hlt]
      rw [this, if_pos rfl, ← ha]; exact hcrit
    · have : alImproved s a = false := by simp [alImproved, hok, hlt]
      rw [this]
      exact le_trans hinv.viol_le (not_lt.mp hlt)
  have hbest2 : violation (if alImproved s a then mkState cs a.cstate.x else s.best) ≤ s.oldCrit := by
    by_cases himp : alImproved s a = true
    · have h := himp
      simp only [alImproved, Bool.and_eq_true, decide_eq_true_eq] at h
      rw [himp, if_pos rfl, ← ha]
      exact le_trans hcrit (le_of_lt h.2)
    · have : alImproved s a = false := by simpa using himp
      rw [this]; exact hinv.viol_le
  by_cases hstop : (alConverged p s a || !(a.iterOk && a.bvalid)) = true
  · -- the loop stops
    have e1 : (alStep cs p s a).2 = true := by simp only [alStep, hstop, if_true]
    have e2 : (alStep cs p s a).1.best = (if alImproved s a then mkState cs a.cstate.x else s.best) := by
      simp only [alStep, hstop, if_true]
    have e3 : (alStep cs p s a).1.status = (if alConverged p s a then 1 else 2) := by
      simp only [alStep, hstop, if_true]
    have e4 : (alStep cs p s a).1.oldCrit = s.oldCrit := by
      simp only [alStep, hstop, if_true]
    have e5 : (alStep cs p s a).1.miu = s.miu := by
      simp only [alStep, hstop, if_true]
    refine ⟨fun h => (by rw [e1] at h; cases h), fun h => ?_, (by rw [e2]; exact hbesteq),
      (by rw [e2, e4]; exact hbest2), (by rw [e5]; exact hinv.miu_nonneg)⟩
    rw [e3] at h
    by_cases hconv : alConverged p s a = true
    · have hc := hconv
      simp only [alConverged, Bool.and_eq_true, decide_eq_true_eq] at hc
      rw [e2]
      exact le_trans (hbest hc.1.1) hc.1.2
    · simp [hconv] at h
  · -- the loop goes on
    have hstop' : (alConverged p s a || !(a.iterOk && a.bvalid)) = false := by simpa using hstop
    have hok : a.iterOk = true := by
      cases h : a.iterOk
      · simp [h] at hstop'
      · rfl
    have e1 : (alStep cs p s a).1.best = (if alImproved s a then mkState cs a.cstate.x else s.best) := by
      simp only [alStep, hstop', Bool.false_eq_true, if_false]
    have e2 : (alStep cs p s a).1.status = s.status := by
      simp only [alStep, hstop', Bool.false_eq_true, if_false]
    have e3 : (alStep cs p s a).1.ro
        = (if 0 < s.iters ∧ p.tau * s.oldCrit < criterion a.cstate s.miu s.ro then p.gamma * s.ro else s.ro) := by
      simp only [alStep, hstop', Bool.false_eq_true, if_false]
    have e4 : (alStep cs p s a).1.miu
        = List.zipWith (fun m g => cmin (cmax (m + s.ro * g) 0) p.miuMax) s.miu a.cstate.cineq := by
      simp only [alStep, hstop', Bool.false_eq_true, if_false]
    have e5 : (alStep cs p s a).1.oldCrit = criterion a.cstate s.miu s.ro := by
      simp only [alStep, hstop', Bool.false_eq_true, if_false]
    have hmiu : ∀ m ∈ (alStep cs p s a).1.miu, 0 ≤ m := by
      intro m hm
      rw [e4] at hm
      obtain ⟨i, hi, rfl⟩ := List.mem_iff_getElem.mp hm
      simp only [List.getElem_zipWith, cmin_eq_min, cmax_eq_max]
      exact le_min (le_max_right _ _) hmiuMax
    refine ⟨fun _ => ⟨?_, hmiu, ?_, ?_, ?_, ?_⟩, fun h => ?_, (by rw [e1]; exact hbesteq),
      (by rw [e1, e5]; exact hbest hok), hmiu⟩
    · rw [e3]; split
      · exact mul_pos (lt_trans one_pos hgamma) hinv.ro_pos
      · exact hinv.ro_pos
    · rw [e4]; simp [hinv.miu_len, hclen]
    · rw [e1]; exact hbesteq
    · rw [e1, e5]; exact hbest hok
    · rw [e2]; exact hinv.not_conv
    · rw [e2] at h; exact absurd h hinv.not_conv

theorem alLoop_inv (cs : List (C α)) (p : Params α) (hgamma : 1 < p.gamma) (hmiuMax : 0 ≤ p.miuMax)
    (inner : Nat → ALState α → Answer α) (hinner : ∀ k s, Consistent cs (inner k s)) :
    ∀ (fuel : Nat) (s : ALState α), ALInv cs s →
      ((alLoop cs p inner fuel s).status = 1 → violation (alLoop cs p inner fuel s).best ≤ p.eps) ∧
      (alLoop cs p inner fuel s).best = mkState cs (alLoop cs p inner fuel s).best.x ∧
      violation (alLoop cs p inner fuel s).best ≤ (alLoop cs p inner fuel s).oldCrit ∧
      (∀ m ∈ (alLoop cs p inner fuel s).miu, 0 ≤ m) := by
  intro fuel
  induction fuel with
  | zero =>
    intro s hinv
    exact ⟨fun h => absurd h hinv.not_conv, hinv.best_eq, hinv.viol_le, hinv.miu_nonneg⟩
  | succ fuel ih =>
    intro s hinv
    have hstep := alStep_inv cs p hgamma hmiuMax s (inner s.iters s) (hinner _ _) hinv
    simp only [alLoop]
    cases hstop : (alStep cs p s (inner s.iters s)).2 with
    | true =>
      simp only [if_true]
      exact hstep.2
    | false =>
      simp only [Bool.false_eq_true, if_false]
      exact ih _ (hstep.1 hstop)

end NanoVerif.Penalty
