import NanoVerif.Model.Iterator
import NanoVerif.Proofs.ObjectiveSkeleton
/-!
  C09 — lemmas about the iterator model `Model/Iterator.lean` (core Lean only, every scalar type):
  * the ranges of `map(n, batch)` form a chain `0 = b₀ ≤ e₀ = b₁ ≤ … = n` (`chunks_tiles`);
  * the statistics computed batch by batch are the per-column C14 statistics, whatever the batch (`makeStats_eq_defStats`);
  * the uncached path of one range is the slice of the scaled matrix (`computeRows_eq`), the cache fillers produce the whole
    scaled matrix (`fillCache_eq`), a loop hands out the slices of the chain (`loopWith_eq`).
-/
set_option linter.unusedSectionVars false
set_option linter.unusedSimpArgs false
set_option linter.unusedVariables false

namespace NanoVerif.Iterator
open NanoVerif.Scaling NanoVerif.Objective

/-! ### slices -/

theorem sliceOf_append {β : Type} (xs : List β) (a b c : Nat) (h1 : a ≤ b) (h2 : b ≤ c) :
    sliceOf xs a b ++ sliceOf xs b c = sliceOf xs a c := by
  unfold sliceOf
  have hc : c - a = (b - a) + (c - b) := by omega
  rw [hc, List.take_add, List.drop_drop]
  have : a + (b - a) = b := by omega
  rw [this]

theorem sliceOf_self {β : Type} (xs : List β) (a : Nat) : sliceOf xs a a = [] := by simp [sliceOf]

theorem sliceOf_full {β : Type} (xs : List β) : sliceOf xs 0 xs.length = xs := by simp [sliceOf]

theorem sliceOf_map {β γ : Type} (f : β → γ) (xs : List β) (a b : Nat) : sliceOf (xs.map f) a b = (sliceOf xs a b).map f := by
  simp [sliceOf, List.map_take, List.map_drop]

theorem length_sliceOf {β : Type} (xs : List β) (a b : Nat) (h : b ≤ xs.length) : (sliceOf xs a b).length = b - a := by
  simp only [sliceOf, List.length_take, List.length_drop]
  omega

theorem mem_sliceOf {β : Type} (xs : List β) (a b : Nat) (x : β) (h : x ∈ sliceOf xs a b) : x ∈ xs :=
  List.mem_of_mem_drop (List.mem_of_mem_take h)

/-! ### the chain of ranges -/

/-- `cs` is a chain of consecutive ranges from `b` to `n` -/
def Tiles : Nat → Nat → List (Nat × Nat) → Prop
  | b, n, [] => b = n
  | b, n, c :: cs => c.1 = b ∧ b ≤ c.2 ∧ c.2 ≤ n ∧ Tiles c.2 n cs

theorem chunksFrom_tiles (n c : Nat) (hc : 0 < c) : ∀ (fuel b : Nat), n ≤ b + fuel * c → b ≤ n →
    Tiles b n (chunksFrom n c fuel b) := by
  intro fuel
  induction fuel with
  | zero =>
    intro b h hb
    have : b = n := by omega
    simp [chunksFrom, Tiles, this]
  | succ fuel ih =>
    intro b h hb
    by_cases hlt : b < n
    · simp only [chunksFrom, hlt, if_true, Tiles]
      refine ⟨trivial, by omega, by omega, ?_⟩
      by_cases hbc : b + c ≤ n
      · rw [Nat.min_eq_left hbc]
        exact ih (b + c) (by rw [Nat.succ_mul] at h; omega) hbc
      · rw [Nat.min_eq_right (by omega), chunksFrom_nil_of_ge n c fuel (b + c) (by omega)]
        rfl
    · have : b = n := by omega
      subst this
      simp [chunksFrom, Tiles]

/-- the ranges handed out by `map(n, batch, op)`, `batch ≥ 1`, form a chain from `0` to `n` -/
theorem chunks_tiles (n c : Nat) (hc : 0 < c) : Tiles 0 n (chunks n c) := by
  unfold chunks
  exact chunksFrom_tiles n c hc n 0 (by
    have : n ≤ n * c := Nat.le_mul_of_pos_right n hc
    omega) (Nat.zero_le _)

/-- the slices of a chain, concatenated, are the slice of the whole chain: every position exactly once, in order -/
theorem tiles_flatten {β : Type} (xs : List β) : ∀ (cs : List (Nat × Nat)) (b n : Nat), Tiles b n cs →
    (cs.map fun c => sliceOf xs c.1 c.2).flatten = sliceOf xs b n := by
  intro cs
  induction cs with
  | nil =>
    intro b n h
    have : b = n := h
    subst this
    simp [sliceOf_self]
  | cons c cs ih =>
    intro b n h
    obtain ⟨h1, h2, h3, h4⟩ := h
    have hle : c.2 ≤ n := h3
    have hcn : ∀ (cs : List (Nat × Nat)) (b n : Nat), Tiles b n cs → b ≤ n := by
      intro cs
      induction cs with
      | nil => intro b n h; exact Nat.le_of_eq h
      | cons c cs ih2 =>
        intro b n h
        exact Nat.le_trans h.2.1 h.2.2.1
    simp only [List.map_cons, List.flatten_cons, ih c.2 n h4, h1]
    exact sliceOf_append xs b c.2 n h2 h3

theorem tiles_le : ∀ (cs : List (Nat × Nat)) (b n : Nat), Tiles b n cs → b ≤ n := by
  intro cs
  induction cs with
  | nil => intro b n h; exact Nat.le_of_eq h
  | cons c cs _ =>
    intro b n h
    exact Nat.le_trans h.2.1 h.2.2.1

section
variable {α : Type} [Add α] [Sub α] [Mul α] [Div α] [Neg α] [LT α] [DecidableLT α]
  [OfNat α 0] [OfNat α 1] [NatCast α]

/-! ### statistics: batching does not matter, every column sees its cells in sample order -/

theorem updateRows_append (accs : List (Acc α)) (r1 r2 : List (List (Option α))) :
    updateRows accs (r1 ++ r2) = updateRows (updateRows accs r1) r2 := by
  simp [updateRows, List.foldl_append]

/-- the loop over a chain of ranges is one pass over the rows of the whole chain -/
theorem statsLoop_eq (rowOf : Nat → List (Option α)) (samples : List Nat) :
    ∀ (cs : List (Nat × Nat)) (b n : Nat) (accs : List (Acc α)), Tiles b n cs →
      cs.foldl (fun accs c => updateRows accs ((sliceOf samples c.1 c.2).map rowOf)) accs
        = updateRows accs ((sliceOf samples b n).map rowOf) := by
  intro cs
  induction cs with
  | nil =>
    intro b n accs h
    have : b = n := h
    subst this
    simp [sliceOf_self, updateRows]
  | cons c cs ih =>
    intro b n accs h
    obtain ⟨h1, h2, h3, h4⟩ := h
    simp only [List.foldl_cons]
    rw [ih c.2 n _ h4, h1, ← updateRows_append, ← List.map_append, sliceOf_append samples b c.2 n h2 h3]

theorem length_pushRow (accs : List (Acc α)) (row : List (Option α)) (h : row.length = accs.length) :
    (pushRow accs row).length = accs.length := by
  simp [pushRow, h]

/-- column `c` of the running sums after the rows: the fold of `Acc.push` over the column's cells -/
theorem updateRows_getElem? : ∀ (rows : List (List (Option α))) (accs : List (Acc α)) (c : Nat),
    (∀ r ∈ rows, r.length = accs.length) →
    (updateRows accs rows)[c]? = accs[c]?.map fun a => (rows.map fun r => r.getD c none).foldl Acc.push a := by
  intro rows
  induction rows with
  | nil => intro accs c _; simp [updateRows]
  | cons r rows ih =>
    intro accs c h
    have hr : r.length = accs.length := h r (List.mem_cons_self ..)
    have hrest : ∀ r' ∈ rows, r'.length = (pushRow accs r).length := by
      intro r' hr'
      rw [length_pushRow accs r hr]
      exact h r' (List.mem_cons_of_mem _ hr')
    show (updateRows (pushRow accs r) rows)[c]? = _
    rw [ih (pushRow accs r) c hrest]
    simp only [pushRow, List.getElem?_zipWith, List.map_cons, List.foldl_cons]
    by_cases hc : c < accs.length
    · have hc' : c < r.length := by omega
      simp [List.getElem?_eq_getElem hc, List.getElem?_eq_getElem hc', List.getD_eq_getElem?_getD]
    · have h1 : accs[c]? = none := List.getElem?_eq_none (by omega)
      simp [h1]

/-- **the statistics computed by `make_*_stats` in batches of any size `≥ 1` are the C14 statistics of the columns** -/
theorem makeStats_eq_defStats [Sqrt α] (hi lo eps : α) (en : List Bool) (rowOf : Nat → List (Option α))
    (samples : List Nat) (sbatch : Nat) (hsb : 0 < sbatch) (hrows : ∀ s ∈ samples, (rowOf s).length = en.length) :
    makeStats hi lo eps en rowOf samples sbatch = defStats hi lo eps en rowOf samples := by
  unfold makeStats defStats statsAcc
  rw [statsLoop_eq rowOf samples _ 0 samples.length _ (chunks_tiles samples.length sbatch hsb), sliceOf_full]
  apply List.ext_getElem?
  intro c
  rw [List.getElem?_zipWith, updateRows_getElem? _ _ c (by
    intro r hr
    simp only [List.mem_map] at hr
    obtain ⟨s, hs, rfl⟩ := hr
    simp [hrows s hs])]
  by_cases hc : c < en.length
  · simp only [List.getElem?_eq_getElem hc, List.getElem?_replicate, hc, columnStats, accumulate, columnOf,
      List.getD_eq_getElem?_getD, if_true, Option.map_some, List.getElem?_map, List.getElem?_range hc, List.map_map,
      List.getElem_range]
    rfl
  · have h1 : en[c]? = none := List.getElem?_eq_none (by omega)
    have h2 : (List.range en.length)[c]? = none := List.getElem?_eq_none (by simp; omega)
    simp [h1, h2]

theorem length_defStats [Sqrt α] (hi lo eps : α) (en : List Bool) (rowOf : Nat → List (Option α)) (samples : List Nat) :
    (defStats hi lo eps en rowOf samples).length = en.length := by
  simp [defStats]

/-! ### one range on the uncached path -/

theorem mapM_scaleRow [FinTest α] (m : Mode) (ss : List (Stats α)) : ∀ (rows : List (List (Option α))),
    (∀ r ∈ rows, r.length = ss.length) →
    rows.mapM (scaleRow m ss) = some (rows.map fun r => List.zipWith (scaleCell m) ss r) := by
  intro rows
  induction rows with
  | nil => intro _; rfl
  | cons r rows ih =>
    intro h
    have hr : ss.length = r.length := (h r (List.mem_cons_self ..)).symm
    rw [List.mapM_cons, ih (fun r' hr' => h r' (List.mem_cons_of_mem _ hr'))]
    simp [scaleRow, hr]

/-- the size assert of `scale` fails as soon as one row of the batch has the wrong width -/
theorem mapM_scaleRow_none [FinTest α] (m : Mode) (ss : List (Stats α)) (rows : List (List (Option α)))
    (r : List (Option α)) (hr : r ∈ rows) (hbad : r.length ≠ ss.length) : rows.mapM (scaleRow m ss) = none := by
  induction rows with
  | nil => cases hr
  | cons r' rows ih =>
    rw [List.mapM_cons]
    rcases List.mem_cons.1 hr with rfl | h
    · have : ¬ ss.length = r.length := fun h => hbad h.symm
      simp [scaleRow, this]
    · rw [ih h]
      cases scaleRow m ss r' <;> rfl

/-- **uncached path**: the rows served for `[b, e)` are rows `b … e-1` of the scaled matrix of all the samples -/
theorem computeRows_eq [FinTest α] (m : Mode) (ss : List (Stats α)) (rowOf : Nat → List (Option α)) (samples : List Nat)
    (hrows : ∀ s ∈ samples, (rowOf s).length = ss.length) (b e : Nat) :
    computeRows m ss rowOf samples b e = some (sliceOf (scaledAll m ss rowOf samples) b e) := by
  unfold computeRows scaleRows scaledAll
  rw [mapM_scaleRow m ss _ (by
    intro r hr
    simp only [List.mem_map] at hr
    obtain ⟨s, hs, rfl⟩ := hr
    exact hrows s (mem_sliceOf samples b e s hs)), List.map_map, sliceOf_map]
  rfl

theorem length_scaledAll [FinTest α] (m : Mode) (ss : List (Stats α)) (rowOf : Nat → List (Option α)) (samples : List Nat) :
    (scaledAll m ss rowOf samples).length = samples.length := by
  simp [scaledAll]

/-! ### the cache fillers -/

/-- filling along a chain from `b` to `n` keeps the first `b` rows and writes rows `b … n-1` of `full`, for every schedule
    that names an existing worker per chunk and every previous content of the cache -/
theorem fillCache_eq (compute : Nat → Nat → Option (List (List α))) (full : List (List α)) (workers n : Nat)
    (hfull : full.length = n) (hcomp : ∀ b e, compute b e = some (sliceOf full b e)) :
    ∀ (cs : List (Nat × Nat)) (ws : List Nat) (b : Nat) (cache : List (List α)), Tiles b n cs → cache.length = n →
      ws.length = cs.length → (∀ w ∈ ws, w < workers) →
      fillCache compute workers cache cs ws = some (cache.take b ++ sliceOf full b n) := by
  intro cs
  induction cs with
  | nil =>
    intro ws b cache h hlen hws _
    have : b = n := h
    subst this
    cases ws with
    | nil => simp [fillCache, sliceOf_self, ← hlen]
    | cons _ _ => simp at hws
  | cons c cs ih =>
    intro ws b cache h hlen hws hall
    obtain ⟨h1, h2, h3, h4⟩ := h
    cases ws with
    | nil => simp at hws
    | cons w ws =>
      obtain ⟨cb, ce⟩ := c
      simp only at h1 h2 h3 h4
      subst h1
      have hw : w < workers := hall w (List.mem_cons_self ..)
      simp only [fillCache, hw, if_true, hcomp]
      have hsl : (sliceOf full cb ce).length = ce - cb := length_sliceOf full cb ce (by omega)
      have hlen' : (cache.take cb ++ sliceOf full cb ce ++ cache.drop ce).length = n := by
        simp only [List.length_append, List.length_take, List.length_drop, hsl]
        omega
      rw [ih ws ce _ h4 hlen' (by simpa using hws) (fun w' hw' => hall w' (List.mem_cons_of_mem _ hw'))]
      have htk : (cache.take cb ++ sliceOf full cb ce ++ cache.drop ce).take ce = cache.take cb ++ sliceOf full cb ce := by
        rw [List.take_append_of_le_length (by
          simp only [List.length_append, List.length_take, hsl]; omega)]
        apply List.take_of_length_le
        simp only [List.length_append, List.length_take, hsl]; omega
      rw [htk, List.append_assoc, sliceOf_append full cb ce n h2 h3]

theorem fillCache_none_of_bad_worker (compute : Nat → Nat → Option (List (List α))) (workers : Nat) (cache : List (List α))
    (c : Nat × Nat) (cs : List (Nat × Nat)) (w : Nat) (ws : List Nat) (hw : workers ≤ w) :
    fillCache compute workers cache (c :: cs) (w :: ws) = none := by
  obtain ⟨b, e⟩ := c
  have : ¬ w < workers := by omega
  simp [fillCache, this]

/-! ### the loops -/

/-- a loop over a list of ranges with a schedule naming an existing worker per chunk calls the callback once per range, in
    queue order, with the slices of the two matrices -/
theorem loopWith_eq (serve : Nat → Nat → Nat → Option (List (List α) × List (List α))) (X T : List (List α)) (workers : Nat)
    (hserve : ∀ w b e, w < workers → serve w b e = some (sliceOf X b e, sliceOf T b e)) :
    ∀ (cs : List (Nat × Nat)) (ws : List Nat), ws.length = cs.length → (∀ w ∈ ws, w < workers) →
      loopWith serve cs ws
        = some (List.zipWith (fun c w => (⟨c.1, c.2, w, sliceOf X c.1 c.2, sliceOf T c.1 c.2⟩ : Served α)) cs ws) := by
  intro cs
  induction cs with
  | nil =>
    intro ws hws _
    cases ws with
    | nil => rfl
    | cons _ _ => simp at hws
  | cons c cs ih =>
    intro ws hws hall
    cases ws with
    | nil => simp at hws
    | cons w ws =>
      obtain ⟨b, e⟩ := c
      simp only [loopWith, hserve w b e (hall w (List.mem_cons_self ..)),
        ih ws (by simpa using hws) (fun w' hw' => hall w' (List.mem_cons_of_mem _ hw')), List.zipWith_cons_cons]

end
end NanoVerif.Iterator
