import NanoVerif.Model.Solver
/-!
  C01 / C02 — lemmas about the control skeleton of `Model/Solver.lean` that hold for EVERY scalar type (only the core
  operation classes, no axioms about them): objective, direction rule, line search and step oracles are arbitrary.
  Core Lean only. The statements are about the generated decision logic of `Gen/DoneLogic.lean`: they are re-checked
  against what `solver_t::done`, the loop guards and the return statements say now on every run.
-/
namespace NanoVerif.Solver
open NanoVerif.Gen.DoneLogic
set_option linter.unusedSectionVars false

section
variable {α : Type} [Add α] [Sub α] [Mul α] [Div α] [Neg α] [LT α] [LE α] [DecidableLT α] [DecidableLE α] [∀ n, OfNat α n]

/-- the state is an evaluation of `f`: value and gradient are those of `f` at the stored point -/
def Consistent (f : Objective α) (s : State α) : Prop := s.fx = (f s.x).1 ∧ s.gx = (f s.x).2

/-- contract of a line search (C07 `success_state_is_eval`): whatever it returns, the state it leaves behind is an evaluation
    of `f`, and it does not touch the status -/
def LsContract (f : Objective α) (ls : Ls α) : Prop :=
  ∀ k s d, (Consistent f s → Consistent f (ls k s d).1) ∧ (ls k s d).1.status = s.status

/-- function + gradient evaluations reported by a state -/
def evals (s : State α) : Nat := s.fcalls + s.gcalls

/-! ### `solver_t::done` -/

theorem done_x (env : Env α) (s : State α) (a b : Bool) : (done env s a b).1.x = s.x := rfl
theorem done_fx (env : Env α) (s : State α) (a b : Bool) : (done env s a b).1.fx = s.fx := rfl
theorem done_gx (env : Env α) (s : State α) (a b : Bool) : (done env s a b).1.gx = s.gx := rfl
theorem done_fcalls (env : Env α) (s : State α) (a b : Bool) : (done env s a b).1.fcalls = s.fcalls := rfl
theorem done_gcalls (env : Env α) (s : State α) (a b : Bool) : (done env s a b).1.gcalls = s.gcalls := rfl

theorem done_valid (env : Env α) (s : State α) (a b : Bool) : valid env (done env s a b).1 = valid env s := rfl

theorem done_consistent (env : Env α) (f : Objective α) (s : State α) (a b : Bool) (h : Consistent f s) :
    Consistent f (done env s a b).1 := h

/-- what `solver_t::done` decides (C02 `done_spec`): it stops iff `converged || !(iter_ok && valid)`; when it stops the
    status becomes `converged` if the flag is set and `failed` otherwise; when it does not stop the status is untouched,
    the step was ok and the state is valid. -/
theorem done_spec (env : Env α) (s : State α) (iterOk conv : Bool) :
    ((done env s iterOk conv).2 = true ↔ (conv = true ∨ ¬ (iterOk = true ∧ valid env s = true))) ∧
    ((done env s iterOk conv).2 = true →
      (done env s iterOk conv).1.status = (if conv then Status.converged else Status.failed)) ∧
    ((done env s iterOk conv).2 = false →
      (done env s iterOk conv).1.status = s.status ∧ iterOk = true ∧ valid env s = true ∧ conv = false) := by
  simp only [done]
  cases iterOk <;> cases conv <;> cases hv : valid env s <;>
    simp [doneReturn, doneNewStatus, doneCond, doneStatus, doneStepOk]

theorem done_stop_status (env : Env α) (s : State α) (iterOk conv : Bool) (h : (done env s iterOk conv).2 = true) :
    (done env s iterOk conv).1.status = (if conv then Status.converged else Status.failed) :=
  (done_spec env s iterOk conv).2.1 h

theorem done_go (env : Env α) (s : State α) (iterOk conv : Bool) (h : (done env s iterOk conv).2 = false) :
    (done env s iterOk conv).1.status = s.status ∧ iterOk = true ∧ valid env s = true ∧ conv = false :=
  (done_spec env s iterOk conv).2.2 h

/-- the status after `done` is `converged` only if the flag was set (or it was `converged` before) -/
theorem done_converged (env : Env α) (s : State α) (iterOk conv : Bool)
    (h : (done env s iterOk conv).1.status = Status.converged) : conv = true ∨ s.status = Status.converged := by
  cases hstop : (done env s iterOk conv).2
  · exact Or.inr ((done_go env s iterOk conv hstop).1 ▸ h)
  · have := done_stop_status env s iterOk conv hstop
    rw [this] at h
    cases conv
    · simp at h
    · exact Or.inl rfl

/-- the status after `done` is the old one, `converged` or `failed` -/
theorem done_status_cases (env : Env α) (s : State α) (iterOk conv : Bool) :
    (done env s iterOk conv).1.status = s.status ∨ (done env s iterOk conv).1.status = Status.converged ∨
      (done env s iterOk conv).1.status = Status.failed := by
  cases hstop : (done env s iterOk conv).2
  · exact Or.inl (done_go env s iterOk conv hstop).1
  · have := done_stop_status env s iterOk conv hstop
    cases conv
    · exact Or.inr (Or.inr (by simpa using this))
    · exact Or.inr (Or.inl (by simpa using this))

/-! ### the loop of the line-search solvers -/

/-- invariant: the state is an evaluation of `f`, and if it says `converged` then its own stored value and gradient
    passed one of the two convergence tests of the solver body -/
structure Good {M : Type} (f : Objective α) (rule : Rule α M) (eps : α) (s : State α) : Prop where
  cons : Consistent f s
  conv : s.status = Status.converged →
    rule.conv (gradientTestS s) eps = true ∨ rule.convInit (gradientTestS s) eps = true

theorem gradientTestS_done (env : Env α) (s : State α) (a b : Bool) :
    gradientTestS (done env s a b).1 = gradientTestS s := rfl

theorem good_of_not_converged {M : Type} (f : Objective α) (rule : Rule α M) (eps : α) (s : State α)
    (hc : Consistent f s) (hs : s.status ≠ Status.converged) : Good f rule eps s :=
  ⟨hc, fun h => absurd h hs⟩

theorem done_good {M : Type} (env : Env α) (f : Objective α) (rule : Rule α M) (eps : α) (s : State α) (ok : Bool)
    (hc : Consistent f s) (hs : s.status ≠ Status.converged) :
    Good f rule eps (done env s ok (rule.conv (gradientTestS s) eps)).1 := by
  refine ⟨done_consistent env f s _ _ hc, fun h => ?_⟩
  rcases done_converged env s ok _ h with h1 | h1
  · exact Or.inl (by rw [gradientTestS_done]; exact h1)
  · exact absurd h1 hs

theorem done_good_init {M : Type} (env : Env α) (f : Objective α) (rule : Rule α M) (eps : α) (s : State α) (ok : Bool)
    (hc : Consistent f s) (hs : s.status ≠ Status.converged) :
    Good f rule eps (done env s ok (rule.convInit (gradientTestS s) eps)).1 := by
  refine ⟨done_consistent env f s _ _ hc, fun h => ?_⟩
  rcases done_converged env s ok _ h with h1 | h1
  · exact Or.inr (by rw [gradientTestS_done]; exact h1)
  · exact absurd h1 hs

/-- the loop keeps both states good, whatever the direction rule and the line search do (within the contract) -/
theorem lsLoop_good {M : Type} (env : Env α) (f : Objective α) (rule : Rule α M) (ls : Ls α) (hls : LsContract f ls)
    (eps : α) (maxEvals : Nat) :
    ∀ (fuel k : Nat) (m : M) (p c : State α), Good f rule eps p → Good f rule eps c →
      p.status ≠ Status.converged → c.status ≠ Status.converged →
      Good f rule eps (lsLoop env rule ls eps maxEvals fuel k m p c).p ∧
      Good f rule eps (lsLoop env rule ls eps maxEvals fuel k m p c).c ∧
      (lsLoop env rule ls eps maxEvals fuel k m p c).p.status ≠ Status.converged := by
  intro fuel
  induction fuel with
  | zero => intro k m p c hp hc hps _; exact ⟨hp, hc, hps⟩
  | succ fuel ih =>
    intro k m p c hp hc hps hcs
    simp only [lsLoop]
    split
    · have hl : Consistent f (ls k c (rule.direction m p c).1).1 ∧ (ls k c (rule.direction m p c).1).1.status = c.status :=
        ⟨(hls k c (rule.direction m p c).1).1 hc.cons, (hls k c (rule.direction m p c).1).2⟩
      have hns : (ls k c (rule.direction m p c).1).1.status ≠ Status.converged := by rw [hl.2]; exact hcs
      have hg := done_good env f rule eps (ls k c (rule.direction m p c).1).1 (ls k c (rule.direction m p c).1).2 hl.1 hns
      split
      · exact ⟨hc, hg, hcs⟩
      · rename_i hstop
        have hstop' : (done env (ls k c (rule.direction m p c).1).1 (ls k c (rule.direction m p c).1).2
            (rule.conv (gradientTestS (ls k c (rule.direction m p c).1).1) eps)).2 = false := by simpa using hstop
        have hnc := (done_go env _ _ _ hstop').1
        exact ih (k + 1) _ c _ hc hg hcs (by rw [hnc]; exact hns)
    · exact ⟨hp, hc, hps⟩

theorem lsResult_cases {M : Type} (env : Env α) (rule : Rule α M) (o : Out α M) :
    lsResult env rule o = o.c ∨ lsResult env rule o = o.p := by
  unfold lsResult
  split
  · exact Or.inl rfl
  · exact Or.inr rfl

/-- `lsRun` from any consistent, not yet converged initial state -/
theorem lsRun_good {M : Type} (env : Env α) (f : Objective α) (rule : Rule α M) (ls : Ls α) (hls : LsContract f ls)
    (eps : α) (maxEvals fuel : Nat) (c0 : State α) (hc : Consistent f c0) (hs : c0.status ≠ Status.converged) :
    Good f rule eps (lsRun env rule ls eps maxEvals fuel c0).1 := by
  have hg0 := done_good_init env f rule eps c0 true hc hs
  simp only [lsRun]
  split
  · exact hg0
  · rename_i hstop
    have hstop' : (done env c0 true (rule.convInit (gradientTestS c0) eps)).2 = false := by simpa using hstop
    have hnc : (done env c0 true (rule.convInit (gradientTestS c0) eps)).1.status ≠ Status.converged := by
      rw [(done_go env _ _ _ hstop').1]; exact hs
    have h := lsLoop_good env f rule ls hls eps maxEvals fuel 0 rule.init _ _ hg0 hg0 hnc hnc
    rcases lsResult_cases env rule
      (lsLoop env rule ls eps maxEvals fuel 0 rule.init (done env c0 true (rule.convInit (gradientTestS c0) eps)).1
        (done env c0 true (rule.convInit (gradientTestS c0) eps)).1) with hr | hr
    · simp only [hr]; exact h.2.1
    · simp only [hr]; exact h.1

theorem initState_consistent (f : Objective α) (x0 : Vec α) : Consistent f (initState f x0) := ⟨rfl, rfl⟩

theorem initState_status (f : Objective α) (x0 : Vec α) : (initState f x0).status ≠ Status.converged := by
  simp [initState, Status.initial]

/-! ### status trichotomy and validity of what is returned -/

def Tri (s : Status) : Prop := s = Status.max_iters ∨ s = Status.converged ∨ s = Status.failed

theorem done_tri (env : Env α) (s : State α) (iterOk conv : Bool) (h : Tri s.status) :
    Tri (done env s iterOk conv).1.status := by
  rcases done_status_cases env s iterOk conv with h1 | h1 | h1
  · rw [h1]; exact h
  · exact Or.inr (Or.inl h1)
  · exact Or.inr (Or.inr h1)

theorem lsLoop_tri {M : Type} (env : Env α) (rule : Rule α M) (ls : Ls α)
    (hst : ∀ k s d, (ls k s d).1.status = s.status) (eps : α) (maxEvals : Nat) :
    ∀ (fuel k : Nat) (m : M) (p c : State α), Tri p.status → Tri c.status →
      Tri (lsLoop env rule ls eps maxEvals fuel k m p c).p.status ∧
      Tri (lsLoop env rule ls eps maxEvals fuel k m p c).c.status := by
  intro fuel
  induction fuel with
  | zero => intro k m p c hp hc; exact ⟨hp, hc⟩
  | succ fuel ih =>
    intro k m p c hp hc
    simp only [lsLoop]
    split
    · have h1 : Tri (ls k c (rule.direction m p c).1).1.status := by rw [hst]; exact hc
      have h2 := done_tri env (ls k c (rule.direction m p c).1).1 (ls k c (rule.direction m p c).1).2
        (rule.conv (gradientTestS (ls k c (rule.direction m p c).1).1) eps) h1
      split
      · exact ⟨hc, h2⟩
      · exact ih (k + 1) _ c _ hc h2
    · exact ⟨hp, hc⟩

theorem lsRun_tri {M : Type} (env : Env α) (rule : Rule α M) (ls : Ls α)
    (hst : ∀ k s d, (ls k s d).1.status = s.status) (eps : α) (maxEvals fuel : Nat) (c0 : State α)
    (h0 : Tri c0.status) : Tri (lsRun env rule ls eps maxEvals fuel c0).1.status := by
  have hd := done_tri env c0 true (rule.convInit (gradientTestS c0) eps) h0
  simp only [lsRun]
  split
  · exact hd
  · have h := lsLoop_tri env rule ls hst eps maxEvals fuel 0 rule.init _ _ hd hd
    rcases lsResult_cases env rule
      (lsLoop env rule ls eps maxEvals fuel 0 rule.init (done env c0 true (rule.convInit (gradientTestS c0) eps)).1
        (done env c0 true (rule.convInit (gradientTestS c0) eps)).1) with hr | hr
    · simp only [hr]; exact h.2
    · simp only [hr]; exact h.1

/-- inside the loop the previous state is always valid, and the current one is valid whenever the loop goes on -/
theorem lsLoop_p_valid {M : Type} (env : Env α) (rule : Rule α M) (ls : Ls α) (eps : α) (maxEvals : Nat) :
    ∀ (fuel k : Nat) (m : M) (p c : State α), valid env p = true → valid env c = true →
      valid env (lsLoop env rule ls eps maxEvals fuel k m p c).p = true := by
  intro fuel
  induction fuel with
  | zero => intro k m p c hp _; exact hp
  | succ fuel ih =>
    intro k m p c hp hc
    simp only [lsLoop]
    split
    · split
      · exact hc
      · rename_i hstop
        have hstop' : (done env (ls k c (rule.direction m p c).1).1 (ls k c (rule.direction m p c).1).2
            (rule.conv (gradientTestS (ls k c (rule.direction m p c).1).1) eps)).2 = false := by simpa using hstop
        have hv := (done_go env _ _ _ hstop').2.2.1
        exact ih (k + 1) _ c _ hc (by rw [done_valid]; exact hv)
    · exact hp

/-- `return cstate.valid() ? cstate : pstate`: when the body returns the current state only if it is valid, what it
    returns after an initial `done` that did not stop is valid -/
theorem lsRun_valid {M : Type} (env : Env α) (rule : Rule α M) (ls : Ls α) (eps : α) (maxEvals fuel : Nat) (c0 : State α)
    (hret : ∀ b, rule.returnsCurrent b = b)
    (hgo : (done env c0 true (rule.convInit (gradientTestS c0) eps)).2 = false) :
    valid env (lsRun env rule ls eps maxEvals fuel c0).1 = true := by
  have hv0 : valid env (done env c0 true (rule.convInit (gradientTestS c0) eps)).1 = true := by
    rw [done_valid]; exact (done_go env _ _ _ hgo).2.2.1
  simp only [lsRun, hgo]
  have hp := lsLoop_p_valid env rule ls eps maxEvals fuel 0 rule.init _ _ hv0 hv0
  simp only [Bool.false_eq_true, if_false, lsResult, hret]
  split
  · rename_i h; exact h
  · exact hp

/-! ### budget -/

theorem lsLoop_budget {M : Type} (env : Env α) (rule : Rule α M) (ls : Ls α) (eps : α) (maxEvals K : Nat)
    (hguard : ∀ a b m, rule.guard a b m = true → a + b < m)
    (hK : ∀ k s d, evals (ls k s d).1 ≤ evals s + K) :
    ∀ (fuel k : Nat) (m : M) (p c : State α), evals p < maxEvals + K → evals c < maxEvals + K →
      evals (lsLoop env rule ls eps maxEvals fuel k m p c).p < maxEvals + K ∧
      evals (lsLoop env rule ls eps maxEvals fuel k m p c).c < maxEvals + K := by
  intro fuel
  induction fuel with
  | zero => intro k m p c hp hc; exact ⟨hp, hc⟩
  | succ fuel ih =>
    intro k m p c hp hc
    simp only [lsLoop]
    split
    · rename_i hg
      have h1 := hguard _ _ _ hg
      have h2 := hK k c (rule.direction m p c).1
      have h3 : evals (done env (ls k c (rule.direction m p c).1).1 (ls k c (rule.direction m p c).1).2
          (rule.conv (gradientTestS (ls k c (rule.direction m p c).1).1) eps)).1 < maxEvals + K := by
        show (ls k c (rule.direction m p c).1).1.fcalls + (ls k c (rule.direction m p c).1).1.gcalls < maxEvals + K
        unfold evals at h2
        omega
      split
      · exact ⟨hc, h3⟩
      · exact ih (k + 1) _ c _ hc h3
    · exact ⟨hp, hc⟩

/-! ### best-state tracking -/

theorem updateIfBetter_cases (env : Env α) (b : BState α) (x gx : Vec α) (fx : α) :
    ((updateIfBetter env b x gx fx).2 = false ∧ (updateIfBetter env b x gx fx).1.st = b.st) ∨
    ((updateIfBetter env b x gx fx).2 = true ∧ env.fin fx = true ∧ uibBetter (uibDf b.st.fx fx) = true ∧
      (updateIfBetter env b x gx fx).1.st = { b.st with x := x, fx := fx, gx := gx }) := by
  unfold updateIfBetter
  by_cases hf : env.fin fx = true
  · by_cases hb : uibBetter (uibDf b.st.fx fx) = true
    · exact Or.inr (by simp [hf, hb])
    · exact Or.inl (by simp [hf, hb])
  · exact Or.inl (by simp [hf])

/-- every state reachable through `update_if_better` satisfies `P` when the start and every candidate do
    (`P` sees the point, the gradient and the value) -/
theorem applyCands_inv (env : Env α) (P : Vec α → Vec α → α → Prop) :
    ∀ (cands : List (Vec α × Vec α × α)) (b : BState α) (acc : List α), P b.st.x b.st.gx b.st.fx →
      (∀ c ∈ cands, P c.1 c.2.1 c.2.2) →
      P (cands.foldl (fun a c => ((updateIfBetter env a.1 c.1 c.2.1 c.2.2).1, a.1.st.fx :: a.2)) (b, acc)).1.st.x
        (cands.foldl (fun a c => ((updateIfBetter env a.1 c.1 c.2.1 c.2.2).1, a.1.st.fx :: a.2)) (b, acc)).1.st.gx
        (cands.foldl (fun a c => ((updateIfBetter env a.1 c.1 c.2.1 c.2.2).1, a.1.st.fx :: a.2)) (b, acc)).1.st.fx := by
  intro cands
  induction cands with
  | nil => intro b acc hb _; exact hb
  | cons c cs ih =>
    intro b acc hb hc
    simp only [List.foldl_cons]
    apply ih
    · rcases updateIfBetter_cases env b c.1 c.2.1 c.2.2 with ⟨_, h⟩ | ⟨_, _, _, h⟩
      · rw [h]; exact hb
      · rw [h]; exact hc c (by simp)
    · intro c' hc'; exact hc c' (by simp [hc'])

theorem applyCands_status (env : Env α) :
    ∀ (cands : List (Vec α × Vec α × α)) (b : BState α) (acc : List α),
      (cands.foldl (fun a c => ((updateIfBetter env a.1 c.1 c.2.1 c.2.2).1, a.1.st.fx :: a.2)) (b, acc)).1.st.status
        = b.st.status := by
  intro cands
  induction cands with
  | nil => intro b acc; rfl
  | cons c cs ih =>
    intro b acc
    simp only [List.foldl_cons]
    rw [ih]
    rcases updateIfBetter_cases env b c.1 c.2.1 c.2.2 with ⟨_, h⟩ | ⟨_, _, _, h⟩ <;> rw [h]

theorem nmIter_inv (env : Env α) (P : Vec α → Vec α → α → Prop) (patience : Nat) (eps : α) (b : BState α) (r : NmStep α)
    (hb : P b.st.x b.st.gx b.st.fx) (hc : ∀ c ∈ r.cands, P c.1 c.2.1 c.2.2) :
    P (nmIter env patience eps b r).b.st.x (nmIter env patience eps b r).b.st.gx (nmIter env patience eps b r).b.st.fx :=
  applyCands_inv env P r.cands b [] hb hc

/-- the generic non-monotonic loop: what it returns satisfies every predicate that the initial state and all the triples
    handed to `update_if_better` satisfy (`P := "is one of them"`, `P := "is an evaluation of f"`, `P := "value ≤ f(x0)"` …) -/
theorem nmLoop_inv (env : Env α) (P : Vec α → Vec α → α → Prop) (step : Nat → Nat × Nat → BState α → NmStep α)
    (patience : Nat) (eps : α) (maxEvals : Nat)
    (hstep : ∀ k g b, ∀ c ∈ (step k g b).cands, P c.1 c.2.1 c.2.2) :
    ∀ (fuel k gf gg : Nat) (b : BState α), P b.st.x b.st.gx b.st.fx →
      P (nmLoop env step patience eps maxEvals fuel k gf gg b).1.st.x
        (nmLoop env step patience eps maxEvals fuel k gf gg b).1.st.gx
        (nmLoop env step patience eps maxEvals fuel k gf gg b).1.st.fx := by
  intro fuel
  induction fuel with
  | zero => intro k gf gg b hb; exact hb
  | succ fuel ih =>
    intro k gf gg b hb
    simp only [nmLoop]
    split
    · have h := nmIter_inv env P patience eps b (step k (gf, gg) b) hb (hstep k (gf, gg) b)
      split
      · exact h
      · exact ih (k + 1) _ _ _ h
    · exact hb

theorem nmIter_tri (env : Env α) (patience : Nat) (eps : α) (b : BState α) (r : NmStep α) (h : Tri b.st.status) :
    Tri (nmIter env patience eps b r).b.st.status := by
  simp only [nmIter]
  apply done_tri
  show Tri (applyCands env b r.cands).1.st.status
  unfold applyCands
  rw [applyCands_status]; exact h

theorem nmLoop_tri (env : Env α) (step : Nat → Nat × Nat → BState α → NmStep α) (patience : Nat) (eps : α) (maxEvals : Nat) :
    ∀ (fuel k gf gg : Nat) (b : BState α), Tri b.st.status →
      Tri (nmLoop env step patience eps maxEvals fuel k gf gg b).1.st.status := by
  intro fuel
  induction fuel with
  | zero => intro k gf gg b hb; exact hb
  | succ fuel ih =>
    intro k gf gg b hb
    simp only [nmLoop]
    split
    · have h := nmIter_tri env patience eps b (step k (gf, gg) b) hb
      split
      · exact h
      · exact ih (k + 1) _ _ _ h
    · exact hb

/-- budget of the generic loop: if one iteration performs at most `K` evaluations (function's counters at the next guard
    ≤ counters at this guard + `K`) and `done` reports counters that were read no later than the next guard, the reported
    evaluations stay below `max_evals + K` -/
theorem nmLoop_budget (env : Env α) (step : Nat → Nat × Nat → BState α → NmStep α) (patience : Nat) (eps : α)
    (maxEvals K : Nat)
    (hK : ∀ k g b, (step k g b).fcalls + (step k g b).gcalls ≤ (step k g b).guardF + (step k g b).guardG ∧
      (step k g b).guardF + (step k g b).guardG ≤ g.1 + g.2 + K) :
    ∀ (fuel k gf gg : Nat) (b : BState α), evals b.st < maxEvals + K →
      evals (nmLoop env step patience eps maxEvals fuel k gf gg b).1.st < maxEvals + K := by
  intro fuel
  induction fuel with
  | zero => intro k gf gg b hb; exact hb
  | succ fuel ih =>
    intro k gf gg b hb
    simp only [nmLoop]
    split
    · rename_i hg
      have hlt : gf + gg < maxEvals := by simpa [gdGuard] using hg
      have h := hK k (gf, gg) b
      have h3 : evals (nmIter env patience eps b (step k (gf, gg) b)).b.st < maxEvals + K := by
        show (step k (gf, gg) b).fcalls + (step k (gf, gg) b).gcalls < maxEvals + K
        simp only at h
        omega
      split
      · exact h3
      · exact ih (k + 1) _ _ _ h3
    · exact hb

/-! ### the call counters -/

/-- the function's counters after a sequence of evaluations (`true` = the gradient was requested as well) -/
def countersAfter (evs : List Bool) : Nat × Nat :=
  evs.foldl (fun c g => vgradCounters c.1 c.2 g) (0, 0)

theorem countersAfter_foldl (evs : List Bool) (c : Nat × Nat) :
    (evs.foldl (fun c g => vgradCounters c.1 c.2 g) c).1 = c.1 + evs.length ∧
    (evs.foldl (fun c g => vgradCounters c.1 c.2 g) c).2 = c.2 + evs.count true := by
  induction evs generalizing c with
  | nil => simp
  | cons g gs ih =>
    simp only [List.foldl_cons, List.length_cons, List.count_cons]
    have := ih (vgradCounters c.1 c.2 g)
    cases g <;> simp [vgradCounters] at this ⊢ <;> omega

theorem countersAfter_eq (evs : List Bool) :
    (countersAfter evs).1 = evs.length ∧ (countersAfter evs).2 = evs.count true := by
  have := countersAfter_foldl evs (0, 0)
  simpa [countersAfter] using this

/-! ### `value_test` -/

/-- what `lastImprovement` finds: nothing iff no recorded `df` is positive; otherwise the most recent entry with `df > 0`
    (position `i` counted from the most recent entry) -/
theorem lastImprovement_spec : ∀ (h : List (α × α)) (k0 : Nat),
    match lastImprovement h k0 with
    | none => ∀ e ∈ h, ¬ (e.1 > 0)
    | some (k, df, dx) => ∃ i, k = k0 + i ∧ h[i]? = some (df, dx) ∧ df > 0 ∧ ∀ j, j < i → ∀ e, h[j]? = some e → ¬ (e.1 > 0)
  | [], k0 => by simp [lastImprovement]
  | (df, dx) :: rest, k0 => by
    simp only [lastImprovement]
    by_cases hd : df > 0
    · rw [if_pos hd]
      exact ⟨0, rfl, rfl, hd, fun j hj => absurd hj (Nat.not_lt_zero j)⟩
    · rw [if_neg hd]
      have ih := lastImprovement_spec rest (k0 + 1)
      cases hl : lastImprovement rest (k0 + 1) with
      | none =>
        rw [hl] at ih
        simp only at ih ⊢
        intro e he
        rcases List.mem_cons.mp he with rfl | he'
        · exact hd
        · exact ih e he'
      | some r =>
        obtain ⟨k, df', dx'⟩ := r
        rw [hl] at ih
        simp only at ih ⊢
        obtain ⟨i, hk, hi, hpos, hbefore⟩ := ih
        refine ⟨i + 1, by omega, by simpa using hi, hpos, fun j hj e he => ?_⟩
        cases j with
        | zero => simp at he; rw [← he]; exact hd
        | succ j => exact hbefore j (by omega) e (by simpa using he)

theorem mem_take_of_getElem? {β : Type} (l : List β) (i n : Nat) (e : β) (h : l[i]? = some e) (hi : i < n) : e ∈ l.take n := by
  rw [List.mem_iff_getElem?]
  exact ⟨i, by rw [List.getElem?_take]; simp [hi, h]⟩

/-- `solver_state_t::value_test(patience)` (C02 `valueTest_spec`): it is 0 — "converged" for every ε > 0 — exactly when none of
    the `patience` most recent `update_if_better` calls improved the value and at least `patience` calls were made; if one
    of them did, it is `max(df, dx)` of the most recent improvement; with fewer than `patience` calls and no improvement
    ever it is `numeric_limits::max()` -/
theorem valueTest_cases (env : Env α) (patience : Nat) (b : BState α) :
    ((∀ e ∈ b.hist.take patience, ¬ (e.1 > 0)) → patience ≤ b.hist.length → valueTest env patience b = 0) ∧
    ((∃ e ∈ b.hist.take patience, e.1 > 0) →
      ∃ df dx, (df, dx) ∈ b.hist.take patience ∧ df > 0 ∧ valueTest env patience b = cmax df dx) ∧
    ((∀ e ∈ b.hist, ¬ (e.1 > 0)) → b.hist.length < patience → valueTest env patience b = env.maxv) := by
  have hs := lastImprovement_spec b.hist 0
  unfold valueTest
  cases hl : lastImprovement b.hist 0 with
  | none =>
    rw [hl] at hs
    simp only at hs ⊢
    refine ⟨fun _ hp => by simp [hp], fun ⟨e, he, hpos⟩ => absurd hpos (hs e (List.mem_of_mem_take he)), fun _ hlt => ?_⟩
    have : ¬ (b.hist.length ≥ patience) := by omega
    simp [this]
  | some r =>
    obtain ⟨k, df, dx⟩ := r
    rw [hl] at hs
    simp only at hs ⊢
    obtain ⟨i, hk, hi, hpos, hbefore⟩ := hs
    have hki : k = i := by omega
    subst hki
    refine ⟨fun hnone _ => ?_, fun ⟨e, he, hepos⟩ => ?_, fun hnone _ => ?_⟩
    · by_cases hkp : k < patience
      · exact absurd hpos (hnone (df, dx) (mem_take_of_getElem? _ _ _ _ hi hkp))
      · simp [hkp]
    · have hkp : k < patience := by
        rw [List.mem_iff_getElem?] at he
        obtain ⟨j, hj⟩ := he
        rw [List.getElem?_take] at hj
        by_cases hjp : j < patience
        · simp only [hjp, if_true] at hj
          by_cases hkp : k < patience
          · exact hkp
          · exact absurd hepos (hbefore j (by omega) e hj)
        · simp [hjp] at hj
      exact ⟨df, dx, mem_take_of_getElem? _ _ _ _ hi hkp, hpos, by simp [hkp]⟩
    · exact absurd hpos (hnone (df, dx) (List.mem_of_getElem? hi))

end
end NanoVerif.Solver
