import NanoVerif.Proofs.TunerGenWalk
import NanoVerif.Proofs.TunerSpace
import Mathlib.Tactic.Ring
import Mathlib.Tactic.Linarith
/-!
  C13 — the hypothesis of the walk theorems of `Proofs/TunerGenWalk.lean` follows from the constructor's
  `assert(m_model.size() == (size() + 1) * (size() + 2) / 2)`: the loop nest visits `n (n + 1) / 2` index pairs.
-/
namespace NanoVerif.Tuner
open NanoVerif.Gen

theorem sum_range_sub (n : Nat) : ∀ k, k ≤ n →
    2 * ((List.range k).map fun i => n - i).sum + k * k = 2 * n * k + k := by
  intro k
  induction k with
  | zero => intro _; simp
  | succ k ih =>
    intro hk
    have h := ih (by omega)
    rw [List.range_succ, List.map_append, List.sum_append]
    simp only [List.map_cons, List.map_nil, List.sum_cons, List.sum_nil, Nat.add_zero]
    have e : n - k + k = n := by omega
    nlinarith [h, e]

/-- the loop nest `for i < n, for i ≤ j < n` visits `n (n + 1) / 2` pairs -/
theorem two_mul_pairIdx_length (n : Nat) : 2 * (pairIdx n).length = n * (n + 1) := by
  have hl : (pairIdx n).length = ((List.range n).map fun i => n - i).sum := by
    simp [pairIdx, List.length_flatMap]
  have h := sum_range_sub n n (Nat.le_refl n)
  rw [hl]
  nlinarith [h]

theorem walk_inside_of_assert {α : Type} (m x : List α) (h : m.length = quadLen x.length) :
    1 + x.length + (pairIdx x.length).length ≤ m.length := by
  have h1 := two_mul_pairIdx_length x.length
  have h2 := two_mul_quadLen x.length
  rw [h]
  nlinarith [h1, h2]

section
variable {α : Type} [Add α] [Sub α] [Mul α] [Div α] [Neg α] [LT α] [DecidableLT α] [BEq α]
  [OfNat α 0] [OfNat α 1] [OfNat α 2] [Log10 α]

/-- under the constructor's assert the value of the fitted quadratic IS the generated `k++` walk -/
theorem model_quadValue_walk_of_assert (m x : List α) (h : m.length = quadLen x.length) :
    quadValue m x = TunerSpace.quadValueWalk m x :=
  model_quadValue_is_generated_walk m x (walk_inside_of_assert m x h)

/-- … and the second-order part of its gradient -/
theorem model_quadGrad_walk_of_assert (m x : List α) (h : m.length = quadLen x.length) :
    quadGrad m x =
      TunerSpace.quadGradWalk2 addAt m x
        (List.zipWith (fun (_ : α) c => TunerSpace.gradLin 0 c) x ((m.drop TunerSpace.gradK0).take x.length)) :=
  model_quadGrad_is_generated_walk m x (walk_inside_of_assert m x h)

end

end NanoVerif.Tuner
