import NanoVerif.Proofs.WLearnerBasic
/-!
  C10 — predict / split / scale / merge of the fitted weak learners (all five kinds), over an ordered field.
-/
set_option linter.unusedSectionVars false
set_option linter.unusedVariables false

namespace NanoVerif.WLearner
variable {α : Type} [Field α] [LinearOrder α] [IsStrictOrderedRing α]

/-- the vector a learner adds to the outputs of a sample (zero when the sample is not assigned) -/
def contrib (l : Learner α) (s : Nat → FVal α) : Vec α :=
  match eval l s with
  | some (_, v) => v
  | none => zeroV

theorem predictOne_eq (l : Learner α) (s : Nat → FVal α) (out : Vec α) (o : Nat) :
    predictOne l s out o = out o + contrib l s o := by
  unfold predictOne contrib
  cases eval l s with
  | none => simp [zeroV]
  | some p => rfl

/-! ### scale -/

theorem tab_scaleTables (sc : List α) (tables : List (Vec α)) (i : Nat) (hi : i < tables.length) (o : Nat) :
    tab (scaleTables sc tables) i o = tab tables i o * sc.getD (min i (sc.length - 1)) 0 := by
  unfold tab scaleTables
  simp [List.getD_eq_getElem?_getD, List.getElem?_mapIdx, hi]

theorem tab_scaleTables_oob (sc : List α) (tables : List (Vec α)) (i : Nat) (hi : tables.length ≤ i) (o : Nat) :
    tab (scaleTables sc tables) i o = 0 := by
  unfold tab scaleTables
  simp [List.getD_eq_getElem?_getD, List.getElem?_mapIdx, List.getElem?_eq_none hi, zeroV]

theorem tab_oob (tables : List (Vec α)) (i : Nat) (hi : tables.length ≤ i) (o : Nat) : tab tables i o = 0 := by
  unfold tab; simp [List.getD_eq_getElem?_getD, List.getElem?_eq_none hi, zeroV]

/-- a table row scaled: valid for every index (rows that do not exist are zero before and after) -/
theorem tab_scaleTables' (sc : List α) (tables : List (Vec α)) (i : Nat) (o : Nat) :
    tab (scaleTables sc tables) i o = tab tables i o * sc.getD (min i (sc.length - 1)) 0 := by
  by_cases hi : i < tables.length
  · exact tab_scaleTables sc tables i hi o
  · rw [tab_scaleTables_oob sc tables i (not_lt.mp hi) o, tab_oob tables i (not_lt.mp hi) o]; ring

/-! ### merge -/

theorem tab_addTables (a b : List (Vec α)) (h : a.length = b.length) (i o : Nat) :
    tab (addTables a b) i o = tab a i o + tab b i o := by
  unfold tab addTables
  by_cases hi : i < a.length
  · have hb : i < b.length := h ▸ hi
    simp [List.getD_eq_getElem?_getD, List.getElem?_zipWith, List.getElem?_eq_getElem hi, List.getElem?_eq_getElem hb]
  · have hb : ¬ i < b.length := h ▸ hi
    simp [List.getD_eq_getElem?_getD, List.getElem?_zipWith, List.getElem?_eq_none (not_lt.mp hi),
      List.getElem?_eq_none (not_lt.mp hb), zeroV]

end NanoVerif.WLearner

namespace NanoVerif.WLearner
variable {α : Type} [Field α] [LinearOrder α] [IsStrictOrderedRing α]

/-- the feature whose value decides first whether a sample is assigned: the selected feature of a single-feature learner,
    the feature of the root node of a tree -/
def Learner.rootFeature : Learner α → Option Nat
  | .affine f _ => some f
  | .stump f _ _ => some f
  | .hinge f _ _ _ => some f
  | .table f _ _ _ => some f
  | .dtree nodes _ => nodes.head?.map (·.feature)

/-- the learners whose prediction is a stored table row (stump, look-up tables, decision trees) -/
def Learner.isTable : Learner α → Prop
  | .affine _ _ => False
  | .hinge _ _ _ _ => False
  | _ => True

theorem eval_missing (l : Learner α) (s : Nat → FVal α) (f : Nat) (hf : l.rootFeature = some f)
    (hm : s f = FVal.missing) : eval l s = none := by
  cases l with
  | affine f' t => simp [Learner.rootFeature] at hf; subst hf; simp [eval, hm]
  | stump f' thr t => simp [Learner.rootFeature] at hf; subst hf; simp [eval, hm]
  | hinge f' thr left t => simp [Learner.rootFeature] at hf; subst hf; simp [eval, hm]
  | table f' hs h2t t => simp [Learner.rootFeature] at hf; subst hf; simp [eval, hm]
  | dtree nodes t =>
    cases nodes with
    | nil => simp [Learner.rootFeature] at hf
    | cons nd rest =>
      simp [Learner.rootFeature] at hf
      subst hf
      simp [eval, dtreeGroup, hm]

/-- a table learner predicts the stored row of the group `split()` reports -/
theorem eval_isTable (l : Learner α) (hl : l.isTable) (s : Nat → FVal α) (g : Nat) (v : Vec α)
    (h : eval l s = some (g, v)) : v = tab l.tables g := by
  cases l with
  | affine f t => exact absurd hl (by simp [Learner.isTable])
  | hinge f thr left t => exact absurd hl (by simp [Learner.isTable])
  | stump f thr t =>
    simp only [eval] at h
    cases hs : s f with
    | num x => rw [hs] at h; simp at h; obtain ⟨h1, h2⟩ := h; subst h1; exact h2.symm
    | cls c => rw [hs] at h; simp at h
    | missing => rw [hs] at h; simp at h
  | table f hs' h2t t =>
    simp only [eval] at h
    cases hs : s f with
    | num x => rw [hs] at h; simp at h
    | missing => rw [hs] at h; simp at h
    | cls c =>
      rw [hs] at h
      simp only at h
      cases hfind : findHash hs' c with
      | none => rw [hfind] at h; simp at h
      | some i =>
        rw [hfind] at h
        simp only at h
        cases hget : h2t[i]? with
        | none => rw [hget] at h; simp at h
        | some k => rw [hget] at h; simp at h; obtain ⟨h1, h2⟩ := h; subst h1; exact h2.symm
  | dtree nodes t =>
    simp only [eval] at h
    cases hg : dtreeGroup nodes s nodes.length 0 with
    | none => rw [hg] at h; simp at h
    | some k => rw [hg] at h; simp at h; obtain ⟨h1, h2⟩ := h; subst h1; exact h2.symm

/-- the affine learner and the hinge assign group 0 and add `w·x + b` -/
theorem eval_linear (l : Learner α) (hl : ¬ l.isTable) (s : Nat → FVal α) (g : Nat) (v : Vec α)
    (h : eval l s = some (g, v)) :
    g = 0 ∧ ∃ f x, l.rootFeature = some f ∧ s f = FVal.num x ∧ v = lin l.tables x := by
  cases l with
  | stump f thr t => exact absurd (by simp [Learner.isTable]) hl
  | table f hs h2t t => exact absurd (by simp [Learner.isTable]) hl
  | dtree nodes t => exact absurd (by simp [Learner.isTable]) hl
  | affine f t =>
    simp only [eval] at h
    cases hs : s f with
    | num x => rw [hs] at h; simp at h; exact ⟨h.1.symm, f, x, rfl, hs, h.2.symm⟩
    | cls c => rw [hs] at h; simp at h
    | missing => rw [hs] at h; simp at h
  | hinge f thr left t =>
    simp only [eval] at h
    cases hs : s f with
    | cls c => rw [hs] at h; simp at h
    | missing => rw [hs] at h; simp at h
    | num x =>
      rw [hs] at h
      simp only at h
      split at h
      · simp at h; exact ⟨h.1.symm, f, x, rfl, hs, h.2.symm⟩
      · simp at h

/-! ### scale -/

/-- the factor applied to group `g` by `scale(sc)`: `scale(std::min(g, scale.size() - 1))` -/
def factor (sc : List α) (g : Nat) : α := sc.getD (min g (sc.length - 1)) 0

theorem lin_scale_single (c : α) (tables : List (Vec α)) (x : α) (o : Nat) :
    lin (scaleTables [c] tables) x o = lin tables x o * c := by
  unfold lin
  rw [tab_scaleTables', tab_scaleTables']
  simp; ring

/-- `scale` keeps the groups and multiplies the added vector by the group's factor (table learners: any scale vector;
    affine / hinge: the one-element vector they are given since they have one group) -/
theorem eval_scale (l : Learner α) (sc : List α) (hsc : l.isTable ∨ ∃ c, sc = [c]) (s : Nat → FVal α) :
    eval (l.scale sc) s = (eval l s).map fun p => (p.1, fun o => p.2 o * factor sc p.1) := by
  cases l with
  | affine f t =>
    rcases hsc with h | ⟨c, rfl⟩
    · exact absurd h (by simp [Learner.isTable])
    · simp only [Learner.scale, Learner.withTables, Learner.tables, eval]
      cases s f with
      | num x =>
        simp only [Option.map_some]
        congr 2; funext o
        rw [lin_scale_single]; simp [factor]
      | cls c => rfl
      | missing => rfl
  | hinge f thr left t =>
    rcases hsc with h | ⟨c, rfl⟩
    · exact absurd h (by simp [Learner.isTable])
    · simp only [Learner.scale, Learner.withTables, Learner.tables, eval]
      cases s f with
      | num x =>
        simp only
        split
        · simp only [Option.map_some]
          congr 2; funext o
          rw [lin_scale_single]; simp [factor]
        · rfl
      | cls c => rfl
      | missing => rfl
  | stump f thr t =>
    simp only [Learner.scale, Learner.withTables, Learner.tables, eval]
    cases s f with
    | num x =>
      simp only [Option.map_some]
      congr 2; funext o
      rw [tab_scaleTables']; rfl
    | cls c => rfl
    | missing => rfl
  | table f hs h2t t =>
    simp only [Learner.scale, Learner.withTables, Learner.tables, eval]
    cases s f with
    | num x => rfl
    | missing => rfl
    | cls c =>
      simp only
      cases findHash hs c with
      | none => rfl
      | some i =>
        simp only
        cases h2t[i]? with
        | none => rfl
        | some k =>
          simp only [Option.map_some]
          congr 2; funext o
          rw [tab_scaleTables']; rfl
  | dtree nodes t =>
    simp only [Learner.scale, Learner.withTables, Learner.tables, eval]
    cases dtreeGroup nodes s nodes.length 0 with
    | none => rfl
    | some k =>
      simp only [Option.map_some]
      congr 2; funext o
      rw [tab_scaleTables']; rfl

/-! ### merge -/

theorem lin_addTables (a b : List (Vec α)) (h : a.length = b.length) (x : α) (o : Nat) :
    lin (addTables a b) x o = lin a x o + lin b x o := by
  unfold lin
  rw [tab_addTables a b h, tab_addTables a b h]; ring

/-- a successful `try_merge` yields a learner whose prediction is the sum of the two predictions -/
theorem tryMerge_contrib (a b c : Learner α) (h : tryMerge a b = some c) (s : Nat → FVal α) (o : Nat) :
    contrib c s o = contrib a s o + contrib b s o := by
  cases a with
  | stump f thr t => simp [tryMerge] at h
  | hinge f thr left t => simp [tryMerge] at h
  | dtree nodes t => simp [tryMerge] at h
  | affine f t =>
    cases b with
    | stump f' thr t' => simp [tryMerge] at h
    | hinge f' thr left t' => simp [tryMerge] at h
    | dtree nodes t' => simp [tryMerge] at h
    | table f' hs h2t t' => simp [tryMerge] at h
    | affine f' t' =>
      simp only [tryMerge] at h
      split at h
      · rename_i hc
        obtain ⟨hf, hlen⟩ := hc
        subst hf
        simp at h; subst h
        simp only [contrib, eval]
        cases s f with
        | num x => simp only; exact lin_addTables t t' hlen x o
        | cls k => simp [zeroV]
        | missing => simp [zeroV]
      · simp at h
  | table f hs h2t t =>
    cases b with
    | stump f' thr t' => simp [tryMerge] at h
    | hinge f' thr left t' => simp [tryMerge] at h
    | dtree nodes t' => simp [tryMerge] at h
    | affine f' t' => simp [tryMerge] at h
    | table f' hs' h2t' t' =>
      simp only [tryMerge] at h
      split at h
      · rename_i hc
        obtain ⟨h1, h2, h3, hlen⟩ := hc
        subst h1; subst h2; subst h3
        simp at h; subst h
        simp only [contrib, eval]
        cases s f with
        | num x => simp [zeroV]
        | missing => simp [zeroV]
        | cls k =>
          simp only
          cases findHash hs k with
          | none => simp [zeroV]
          | some i =>
            simp only
            cases h2t[i]? with
            | none => simp [zeroV]
            | some j => simp only; exact tab_addTables t t' hlen j o
      · simp at h

/-- the sum of the predictions of a list of learners for one sample -/
def sumContrib (ls : List (Learner α)) (s : Nat → FVal α) (o : Nat) : α := lsum (ls.map fun l => contrib l s o)

theorem absorb_sum (a : Learner α) (bs : List (Learner α)) (s : Nat → FVal α) (o : Nat) :
    contrib (absorb a bs).1 s o + sumContrib (absorb a bs).2.1 s o = contrib a s o + sumContrib bs s o := by
  induction bs generalizing a with
  | nil => simp [absorb, sumContrib]
  | cons b bs ih =>
    simp only [absorb]
    cases hm : tryMerge a b with
    | some a' =>
      simp only
      rw [ih a', tryMerge_contrib a b a' hm]
      simp only [sumContrib, List.map_cons, lsum_cons]; ring
    | none =>
      simp only
      have := ih a
      simp only [sumContrib, List.map_cons, lsum_cons] at *
      linarith

theorem mergeAux_sum (fuel : Nat) (ls : List (Learner α)) (s : Nat → FVal α) (o : Nat) :
    sumContrib (mergeAux fuel ls) s o = sumContrib ls s o := by
  induction fuel generalizing ls with
  | zero => cases ls <;> rfl
  | succ fuel ih =>
    cases ls with
    | nil => rfl
    | cons a rest =>
      simp only [mergeAux]
      have habs := absorb_sum a rest s o
      split
      · have hih := ih (absorb a rest).2.1
        unfold sumContrib at hih habs ⊢
        simp only [List.map_cons, lsum_cons] at habs ⊢
        rw [hih]; exact habs
      · unfold sumContrib at habs ⊢
        simp only [List.map_cons, lsum_cons] at habs ⊢
        exact habs

end NanoVerif.WLearner
