import NanoVerif.Model.BoostFit
import NanoVerif.Proofs.Boost
import Mathlib.Tactic.FieldSimp
/-!
  C11 — the invariant of the fold fit with its data flow (`Model/BoostFit.lean`): at every call of `optimum.done` the tracked
  predictions are bias + Σ predictions of the learners stored so far, and the statistics row written for the call is made of the
  means of `loss.error` / `loss.value` of exactly these predictions. `Good` is what holds whenever the loop is left, `Run` what
  holds while it goes on (the scaling-failure exit appends a learner without touching predictions or history).
-/
namespace NanoVerif.BoostFit
open NanoVerif.Gen.EarlyStopping NanoVerif.EarlyStopping NanoVerif.Boost

set_option linter.unusedSectionVars false

variable {W X S α : Type} [Field α] [LinearOrder α] [IsStrictOrderedRing α]

/-- contract of `wlearner_t::scale` with a one-element vector (C10 `scale_scales`: proved for the modelled learners):
    every prediction is multiplied by the factor -/
def ScaleLaw (env : Env W X S α) : Prop := ∀ (c : α) (w : W) (x : X), env.pred (env.scaleW [c] w) x = env.pred w x * c

/-- contract of `wlearner::merge` (C10 `merge_preserves_sum`): the sum of the predictions is unchanged -/
def MergeLaw (env : Env W X S α) : Prop :=
  ∀ (ws : List W) (x : X), ((env.merge ws).map (fun w => env.pred w x)).sum = (ws.map (fun w => env.pred w x)).sum

theorem predict_snoc (bias : α) (fs : List (X → α)) (f : X → α) (x : X) :
    predict bias (fs ++ [f]) x = predict bias fs x + f x := by
  unfold predict; rw [List.foldl_append]; rfl

theorem modelOut_merge (env : Env W X S α) (hm : MergeLaw env) (b : X → α) (ws : List W) :
    modelOut env b (env.merge ws) = modelOut env b ws := by
  funext c
  unfold modelOut
  rw [predict_eq, predict_eq, List.map_map, List.map_map]
  exact congrArg (b c + ·) (hm ws c)

/-- what is added to the predictions is the prediction of the learner as it is stored (in `local` mode by the scale law) -/
theorem shrunk_pred (cfg : Cfg α) (env : Env W X S α) (hs : cfg.shrinkage = .local_ → ScaleLaw env) (valid : List S)
    (out : X → α) (ratio : α) (x : List α) (w : W) (c : X) :
    (shrunk cfg env valid out ratio x w).2.2 c = env.pred (shrunk cfg env valid out ratio x w).2.1 c := by
  unfold shrunk
  cases h : cfg.shrinkage with
  | off => rfl
  | global => rfl
  | local_ => exact (hs h _ _ c).symm

/-- holds whenever the loop is left (and while it runs) -/
structure Good (cfg : Cfg α) (env : Env W X S α) (train valid : List S) (b : X → α) (st : FitSt W X α) : Prop where
  hist_pos : 1 ≤ st.hist.length
  hist_le : st.hist.length ≤ st.ws.length + 1
  ws_le : st.ws.length ≤ st.hist.length
  rows_ge : st.hist.length ≤ st.rows.length
  outs : ∀ (k : Nat) (h : X → α), st.hist[k]? = some h → ∀ c : X, h c = predict (b c) ((st.ws.take k).map env.pred) c
  rows : ∀ (k : Nat) (h : X → α), st.hist[k]? = some h → ∃ r : α, st.rows[k]? = some (statsRow cfg env train valid h r)
  out_last : st.hist[st.hist.length - 1]? = some st.out
  round_lt : st.es.round < st.hist.length
  snap : st.es.snap - 1 = st.es.round

/-- holds while the loop goes on -/
structure Run (cfg : Cfg α) (env : Env W X S α) (train valid : List S) (b : X → α) (st : FitSt W X α) : Prop where
  good : Good cfg env train valid b st
  hist_eq : st.hist.length = st.ws.length + 1
  rows_eq : st.rows.length = st.ws.length + 1

theorem done_round_snap (eps : α) (pat : Nat) (s : State α) (c : Call α) (hc : c.idx = c.n + 1) (hs : s.snap - 1 = s.round) :
    ((done eps pat s c).1 = s ∨ (done eps pat s c).1 = record c) ∧ (done eps pat s c).1.snap - 1 = (done eps pat s c).1.round := by
  rcases done_state_cases eps pat s c with ⟨h, _⟩ | ⟨h, _⟩
  · exact ⟨Or.inl h, by rw [h]; exact hs⟩
  · refine ⟨Or.inr h, ?_⟩
    rw [h]; show c.idx - 1 = c.n; omega

theorem run_start (cfg : Cfg α) (env : Env W X S α) (train valid : List S) (params : List α) (b : X → α) :
    Run cfg env train valid b (fitStart cfg env train valid params b).1 := by
  have hd := done_round_snap cfg.eps cfg.pat (init cfg.vmax)
    { train := (statsRow cfg env train valid b (startRatio cfg params)).trainErr,
      valid := (statsRow cfg env train valid b (startRatio cfg params)).validErr,
      n := 0, ntrain := train.length, nvalid := valid.length, idx := 1 } rfl rfl
  refine ⟨⟨?_, ?_, ?_, ?_, ?_, ?_, ?_, ?_, ?_⟩, rfl, rfl⟩
  · exact Nat.le_refl 1
  · exact Nat.le_refl 1
  · exact Nat.zero_le 1
  · exact Nat.le_refl 1
  · intro k h hk c
    have hk' : (fitStart cfg env train valid params b).1.hist = [b] := rfl
    rw [hk'] at hk
    cases k with
    | zero => simp at hk; rw [← hk]; rfl
    | succ k => simp at hk
  · intro k h hk
    have hk' : (fitStart cfg env train valid params b).1.hist = [b] := rfl
    rw [hk'] at hk
    cases k with
    | zero => simp at hk; rw [← hk]; exact ⟨_, rfl⟩
    | succ k => simp at hk
  · rfl
  · show (fitStart cfg env train valid params b).1.es.round < 1
    have : (fitStart cfg env train valid params b).1.es = (done cfg.eps cfg.pat (init cfg.vmax) _).1 := rfl
    rcases hd.1 with h | h
    · rw [this, h]; exact Nat.lt_one_iff.mpr rfl
    · rw [this, h]; exact Nat.lt_one_iff.mpr rfl
  · exact hd.2

theorem good_scaleFail (cfg : Cfg α) (env : Env W X S α) (train valid : List S) (b : X → α) (st : FitSt W X α)
    (hr : Run cfg env train valid b st) (w : W) (row : Row α) :
    Good cfg env train valid b { st with ws := st.ws ++ [w], rows := st.rows ++ [row] } := by
  obtain ⟨g, he, hre⟩ := hr
  refine ⟨g.hist_pos, ?_, ?_, ?_, ?_, ?_, g.out_last, g.round_lt, g.snap⟩
  · show st.hist.length ≤ (st.ws ++ [w]).length + 1
    rw [List.length_append]; have := g.hist_le; omega
  · show (st.ws ++ [w]).length ≤ st.hist.length
    rw [List.length_append, List.length_singleton]; omega
  · show st.hist.length ≤ (st.rows ++ [row]).length
    rw [List.length_append]; have := g.rows_ge; omega
  · intro k h hk c
    show h c = predict (b c) (((st.ws ++ [w]).take k).map env.pred) c
    have hlt : k < st.hist.length := (List.getElem?_eq_some_iff.mp hk).1
    rw [List.take_append_of_le_length (by omega)]
    exact g.outs k h hk c
  · intro k h hk
    show ∃ r, (st.rows ++ [row])[k]? = some (statsRow cfg env train valid h r)
    have hlt : k < st.hist.length := (List.getElem?_eq_some_iff.mp hk).1
    rw [List.getElem?_append_left (by omega)]
    exact g.rows k h hk

theorem run_fitted (cfg : Cfg α) (env : Env W X S α) (hs : cfg.shrinkage = .local_ → ScaleLaw env) (train valid : List S)
    (b : X → α) (st : FitSt W X α) (hr : Run cfg env train valid b st) (x : List α) (w : W) :
    Run cfg env train valid b
      { out := fun c => st.out c + (shrunk cfg env valid st.out st.ratio x w).2.2 c,
        ws := st.ws ++ [(shrunk cfg env valid st.out st.ratio x w).2.1],
        ratio := (shrunk cfg env valid st.out st.ratio x w).1,
        rows := st.rows ++ [statsRow cfg env train valid (fun c => st.out c + (shrunk cfg env valid st.out st.ratio x w).2.2 c)
                  (shrunk cfg env valid st.out st.ratio x w).1],
        es := (done cfg.eps cfg.pat st.es
          { train := (statsRow cfg env train valid (fun c => st.out c + (shrunk cfg env valid st.out st.ratio x w).2.2 c)
                        (shrunk cfg env valid st.out st.ratio x w).1).trainErr,
            valid := (statsRow cfg env train valid (fun c => st.out c + (shrunk cfg env valid st.out st.ratio x w).2.2 c)
                        (shrunk cfg env valid st.out st.ratio x w).1).validErr,
            n := (st.ws ++ [(shrunk cfg env valid st.out st.ratio x w).2.1]).length, ntrain := train.length,
            nvalid := valid.length, idx := (st.ws ++ [(shrunk cfg env valid st.out st.ratio x w).2.1]).length + 1 }).1,
        hist := st.hist ++ [fun c => st.out c + (shrunk cfg env valid st.out st.ratio x w).2.2 c] } := by
  obtain ⟨g, he, hre⟩ := hr
  generalize hsh : shrunk cfg env valid st.out st.ratio x w = sh
  have hp : ∀ c, sh.2.2 c = env.pred sh.2.1 c := by
    intro c; rw [← hsh]; exact shrunk_pred cfg env hs valid st.out st.ratio x w c
  have hlast : st.hist[st.ws.length]? = some st.out := by
    have := g.out_last; rw [he] at this; simpa using this
  have hd := done_round_snap cfg.eps cfg.pat st.es
    { train := (statsRow cfg env train valid (fun c => st.out c + sh.2.2 c) sh.1).trainErr,
      valid := (statsRow cfg env train valid (fun c => st.out c + sh.2.2 c) sh.1).validErr,
      n := (st.ws ++ [sh.2.1]).length, ntrain := train.length, nvalid := valid.length,
      idx := (st.ws ++ [sh.2.1]).length + 1 } rfl g.snap
  refine ⟨⟨?_, ?_, ?_, ?_, ?_, ?_, ?_, ?_, hd.2⟩, ?_, ?_⟩
  · show 1 ≤ (st.hist ++ [_]).length
    rw [List.length_append]; simp
  · show (st.hist ++ [_]).length ≤ (st.ws ++ [sh.2.1]).length + 1
    simp only [List.length_append, List.length_singleton]; omega
  · show (st.ws ++ [sh.2.1]).length ≤ (st.hist ++ [_]).length
    simp only [List.length_append, List.length_singleton]; omega
  · show (st.hist ++ [_]).length ≤ (st.rows ++ [_]).length
    simp only [List.length_append, List.length_singleton]; omega
  · intro k h hk c
    show h c = predict (b c) (((st.ws ++ [sh.2.1]).take k).map env.pred) c
    change (st.hist ++ [fun c => st.out c + sh.2.2 c])[k]? = some h at hk
    by_cases hlt : k < st.hist.length
    · rw [List.getElem?_append_left hlt] at hk
      rw [List.take_append_of_le_length (by omega)]
      exact g.outs k h hk c
    · have hlen : k < (st.hist ++ [fun c => st.out c + sh.2.2 c]).length := (List.getElem?_eq_some_iff.mp hk).1
      simp only [List.length_append, List.length_singleton] at hlen
      have hk2 : k = st.hist.length := by omega
      subst hk2
      rw [List.getElem?_append_right (Nat.le_refl _)] at hk
      simp at hk
      rw [← hk, he]
      have : (st.ws ++ [sh.2.1]).take (st.ws.length + 1) = st.ws ++ [sh.2.1] := by
        apply List.take_of_length_le; simp
      rw [this, List.map_append, List.map_singleton, predict_snoc]
      have h0 := g.outs st.ws.length st.out hlast c
      rw [List.take_length] at h0
      show st.out c + sh.2.2 c = _
      rw [hp c, ← h0]
  · intro k h hk
    show ∃ r, (st.rows ++ [statsRow cfg env train valid (fun c => st.out c + sh.2.2 c) sh.1])[k]? =
      some (statsRow cfg env train valid h r)
    change (st.hist ++ [fun c => st.out c + sh.2.2 c])[k]? = some h at hk
    by_cases hlt : k < st.hist.length
    · rw [List.getElem?_append_left hlt] at hk
      rw [List.getElem?_append_left (by omega)]
      exact g.rows k h hk
    · have hlen : k < (st.hist ++ [fun c => st.out c + sh.2.2 c]).length := (List.getElem?_eq_some_iff.mp hk).1
      simp only [List.length_append, List.length_singleton] at hlen
      have hk2 : k = st.hist.length := by omega
      subst hk2
      rw [List.getElem?_append_right (Nat.le_refl _)] at hk
      simp at hk
      refine ⟨sh.1, ?_⟩
      rw [List.getElem?_append_right (by omega)]
      have : st.hist.length - st.rows.length = 0 := by omega
      rw [this, ← hk]; rfl
  · show (st.hist ++ [fun c => st.out c + sh.2.2 c])[(st.hist ++ [fun c => st.out c + sh.2.2 c]).length - 1]? = _
    simp
  · show (done cfg.eps cfg.pat st.es _).1.round < (st.hist ++ [fun c => st.out c + sh.2.2 c]).length
    have hl : (st.hist ++ [fun c => st.out c + sh.2.2 c]).length = st.hist.length + 1 := by simp
    have hw : (st.ws ++ [sh.2.1]).length = st.ws.length + 1 := by simp
    rcases hd.1 with h | h
    · rw [h, hl]; have := g.round_lt; omega
    · rw [h, hl]; show (st.ws ++ [sh.2.1]).length < _
      rw [hw]; omega
  · show (st.hist ++ [_]).length = (st.ws ++ [sh.2.1]).length + 1
    simp only [List.length_append, List.length_singleton]; omega
  · show (st.rows ++ [_]).length = (st.ws ++ [sh.2.1]).length + 1
    simp only [List.length_append, List.length_singleton]; omega

/-- one iteration from a running state: the result is `Good`, and `Run` when the loop goes on -/
theorem step_good (cfg : Cfg α) (env : Env W X S α) (hs : cfg.shrinkage = .local_ → ScaleLaw env) (train valid : List S)
    (b : X → α) (st : FitSt W X α) (hr : Run cfg env train valid b st) (o : RoundOr W S α) :
    Good cfg env train valid b (roundStep cfg env train valid st o).1 ∧
    ((roundStep cfg env train valid st o).2 = false → Run cfg env train valid b (roundStep cfg env train valid st o).1) := by
  unfold roundStep
  cases hb : (pickBest cfg.noFit o.cands).2 with
  | none => exact ⟨hr.good, fun h => absurd h (by simp)⟩
  | some w =>
    by_cases hx : o.xmin < cfg.epsMach
    · simp only [hx, if_true]
      exact ⟨good_scaleFail cfg env train valid b st hr w _, fun h => absurd h (by simp)⟩
    · simp only [hx, if_false]
      have := run_fitted cfg env hs train valid b st hr o.x w
      exact ⟨this.good, fun _ => this⟩

theorem loop_good (cfg : Cfg α) (env : Env W X S α) (hs : cfg.shrinkage = .local_ → ScaleLaw env) (train valid : List S)
    (b : X → α) (ors : List (RoundOr W S α)) :
    ∀ st : FitSt W X α, Run cfg env train valid b st → Good cfg env train valid b (roundLoop cfg env train valid st ors) := by
  induction ors with
  | nil => intro st hr; exact hr.good
  | cons o rest ih =>
    intro st hr
    have hstep := step_good cfg env hs train valid b st hr o
    unfold roundLoop
    by_cases hf : (roundStep cfg env train valid st o).2 = true
    · rw [if_pos hf]; exact hstep.1
    · rw [if_neg hf]
      exact ih _ (hstep.2 (by simpa using hf))

theorem fitRun_good (cfg : Cfg α) (env : Env W X S α) (hs : cfg.shrinkage = .local_ → ScaleLaw env) (train valid : List S)
    (params : List α) (b : X → α) (ors : List (RoundOr W S α)) :
    Good cfg env train valid b (fitRun cfg env train valid params b ors) := by
  unfold fitRun
  have h0 := run_start cfg env train valid params b
  by_cases hf : (fitStart cfg env train valid params b).2 = true
  · simp only [hf, if_true]; exact h0.good
  · simp only [hf]; exact loop_good cfg env hs train valid b _ _ h0

/-! ### the last stage of `gboost_model_t::fit` -/

theorem foldl_gmodel (folds : List (GModel W X α)) (c : X) :
    ∀ m0 : GModel W X α,
      (folds.foldl (fun (m : GModel W X α) f => { bias := fun c => m.bias c + f.bias c, ws := m.ws ++ f.ws }) m0).bias c =
        m0.bias c + (folds.map (fun f => f.bias c)).sum ∧
      (folds.foldl (fun (m : GModel W X α) f => { bias := fun c => m.bias c + f.bias c, ws := m.ws ++ f.ws }) m0).ws =
        m0.ws ++ folds.flatMap (·.ws) := by
  induction folds with
  | nil => intro m0; simp
  | cons f fs ih =>
    intro m0
    simp only [List.foldl_cons, List.map_cons, List.sum_cons, List.flatMap_cons]
    obtain ⟨h1, h2⟩ := ih { bias := fun c => m0.bias c + f.bias c, ws := m0.ws ++ f.ws }
    rw [h1, h2]
    exact ⟨by ring, by simp⟩

theorem sum_flatMap_ws (env : Env W X S α) (folds : List (GModel W X α)) (c : X) :
    ((folds.flatMap (·.ws)).map (fun w => env.pred w c)).sum =
      (folds.map (fun f => (f.ws.map (fun w => env.pred w c)).sum)).sum := by
  induction folds with
  | nil => simp
  | cons f fs ih => simp only [List.flatMap_cons, List.map_append, List.sum_append, List.map_cons, List.sum_cons, ih]

theorem finalize_mean (env : Env W X S α) (hsl : ScaleLaw env) (hm : MergeLaw env) (prev : GModel W X α)
    (folds : List (GModel W X α)) (hF : folds ≠ []) (c : X) :
    modelOut env (finalize env 0 (1 / (folds.length : α)) prev folds).bias (finalize env 0 (1 / (folds.length : α)) prev folds).ws c =
      (folds.map (fun f => modelOut env f.bias f.ws c)).sum / (folds.length : α) := by
  have hF' : (folds.length : α) ≠ 0 := by
    have : folds.length ≠ 0 := by simpa using hF
    exact_mod_cast this
  obtain ⟨hb, hw⟩ := foldl_gmodel folds c { bias := fun _ => (0 : α), ws := [] }
  have hsum : (folds.map (fun f => modelOut env f.bias f.ws c)).sum =
      (folds.map (fun f => f.bias c)).sum + (folds.map (fun f => (f.ws.map (fun w => env.pred w c)).sum)).sum := by
    clear hb hw hF hF'
    induction folds with
    | nil => simp
    | cons f fs ih =>
      simp only [List.map_cons, List.sum_cons, ih]
      unfold modelOut
      rw [predict_eq, List.map_map]
      have : (List.map ((fun w => w c) ∘ env.pred) f.ws) = f.ws.map (fun w => env.pred w c) := rfl
      rw [this]; ring
  rw [hsum]
  unfold modelOut finalize
  simp only
  rw [predict_eq, hb, hw, List.map_map, List.map_map]
  dsimp only
  rw [List.nil_append, zero_add]
  have hsc : (List.map (((fun w => w c) ∘ env.pred) ∘ env.scaleW [1 / (folds.length : α)]) (env.merge (folds.flatMap (·.ws)))).sum =
      ((env.merge (folds.flatMap (·.ws))).map (fun w => env.pred w c)).sum * (1 / (folds.length : α)) := by
    generalize env.merge (folds.flatMap (·.ws)) = l
    induction l with
    | nil => simp
    | cons w ws ih =>
      simp only [List.map_cons, List.sum_cons, Function.comp_apply, ih]
      rw [hsl (1 / (folds.length : α)) w c]; ring
  rw [hsc, hm, sum_flatMap_ws]
  field_simp

/-! ### refinement of the control skeleton of `Model/Boost.lean` -/

/-- the events of the iterations, each seen from the state it starts in -/
def evsOf (cfg : Cfg α) (env : Env W X S α) (train valid : List S) : FitSt W X α → List (RoundOr W S α) → List (RoundEv W α)
  | _, [] => []
  | st, o :: rest => evOf cfg env train valid st o :: evsOf cfg env train valid (roundStep cfg env train valid st o).1 rest

theorem step_refines (cfg : Cfg α) (env : Env W X S α) (train valid : List S) (st : FitSt W X α) (o : RoundOr W S α) :
    step cfg.eps cfg.pat train.length valid.length st.ctl (evOf cfg env train valid st o) =
      ((roundStep cfg env train valid st o).1.ctl, (roundStep cfg env train valid st o).2) := by
  unfold roundStep evOf
  cases hb : (pickBest cfg.noFit o.cands).2 with
  | none => rfl
  | some w =>
    by_cases hx : o.xmin < cfg.epsMach
    · simp only [hx, if_true]; rfl
    · simp only [hx, if_false]; rfl

theorem loop_refines (cfg : Cfg α) (env : Env W X S α) (train valid : List S) (ors : List (RoundOr W S α)) :
    ∀ st : FitSt W X α, (roundLoop cfg env train valid st ors).ctl =
      loop cfg.eps cfg.pat train.length valid.length st.ctl (evsOf cfg env train valid st ors) := by
  induction ors with
  | nil => intro st; rfl
  | cons o rest ih =>
    intro st
    have h := step_refines cfg env train valid st o
    unfold roundLoop evsOf loop
    rw [h]
    by_cases hf : (roundStep cfg env train valid st o).2 = true
    · simp only [hf, if_true]
    · simp only [hf]; exact ih _

theorem evsOf_take (cfg : Cfg α) (env : Env W X S α) (train valid : List S) (n : Nat) :
    ∀ (st : FitSt W X α) (ors : List (RoundOr W S α)),
      evsOf cfg env train valid st (ors.take n) = (evsOf cfg env train valid st ors).take n := by
  induction n with
  | zero => intro st ors; simp [evsOf]
  | succ n ih =>
    intro st ors
    cases ors with
    | nil => simp [evsOf]
    | cons o rest => simp only [List.take_succ_cons, evsOf]; rw [ih]

end NanoVerif.BoostFit
