import NanoVerif.Proofs.ProgramRestate
import NanoVerif.Model.ProgramNewton
import Mathlib.Tactic.LinearCombination
/-!
  C04 — the linear system of the Newton step (`Model/ProgramNewton.lean`) over an arbitrary linear ordered field:
  what `kktMat · (dx, dv)` is, and that every exact solution of `kktMat · z = kktVec` is the Newton direction of the residual
  map `(x, u, v) ↦ (rdual, rcent, rprim)`.
-/
set_option linter.unusedSectionVars false
set_option linter.unusedVariables false

namespace NanoVerif.Program
variable {α : Type} [Field α] [LinearOrder α] [IsStrictOrderedRing α]

/-! ### list-vector toolkit -/

/-- two vectors of length `n` that agree against every test vector are equal -/
theorem eq_of_dot_eq : ∀ (n : Nat) (a b : List α), a.length = n → b.length = n →
    (∀ d : List α, d.length = n → dot a d = dot b d) → a = b
  | 0, a, b, ha, hb, _ => by rw [List.length_eq_zero_iff.mp ha, List.length_eq_zero_iff.mp hb]
  | n + 1, a0 :: a, b0 :: b, ha, hb, h => by
    have h0 := h (1 :: zeros n) (by simp)
    simp only [dot_cons, mul_one] at h0
    rw [dot_comm a, dot_zeros, dot_comm b, dot_zeros] at h0
    have ht := eq_of_dot_eq n a b (by simpa using ha) (by simpa using hb) (fun d hd => by
      have := h (0 :: d) (by simp [hd])
      simpa using this)
    have h00 : a0 = b0 := by linarith
    rw [h00, ht]
  | n + 1, [], _, ha, _, _ => by simp at ha
  | n + 1, _ :: _, [], _, hb, _ => by simp at hb

theorem dot_append : ∀ (a b c d : List α), a.length = c.length → dot (a ++ b) (c ++ d) = dot a c + dot b d
  | [], b, [], d, _ => by simp
  | x :: a, b, y :: c, d, h => by
    have ih := dot_append a b c d (by simpa using h)
    simp only [List.cons_append, dot_cons, ih]; ring
  | [], _, _ :: _, _, h => by simp at h
  | _ :: _, _, [], _, h => by simp at h

theorem dot_vneg_left : ∀ (a b : List α), dot (vneg a) b = -dot a b
  | [], b => by simp [vneg]
  | _ :: _, [] => by simp [vneg]
  | x :: a, y :: b => by
    have ih := dot_vneg_left a b
    simp only [vneg, List.map_cons, dot_cons] at ih ⊢
    rw [ih]; ring

@[simp] theorem vneg_length (a : List α) : (vneg a).length = a.length := by simp [vneg]
@[simp] theorem hmul_length (a b : List α) : (hmul a b).length = min a.length b.length := by simp [hmul]
@[simp] theorem vdivE_length (a b : List α) : (vdivE a b).length = min a.length b.length := by simp [vdivE]

theorem vneg_vneg (a : List α) : vneg (vneg a) = a := by
  induction a with
  | nil => rfl
  | cons x a ih => simp only [vneg, List.map_cons, neg_neg, List.map_map] at ih ⊢; simpa using ih

theorem dot_move_left (a b d : List α) (s : α) (h : a.length = b.length) :
    dot (move a s b) d = dot a d + s * dot b d := by
  rw [dot_comm, dot_move d a b s h, dot_comm d a, dot_comm d b]

theorem mv_move (A : List (List α)) (x d : List α) (s : α) (h : x.length = d.length) :
    mv A (move x s d) = move (mv A x) s (mv A d) := by
  induction A with
  | nil => simp [mv, move, vadd, smul]
  | cons r A ih =>
    simp only [mv, move, vadd, smul, List.map_cons, List.zipWith_cons_cons] at ih ⊢
    rw [ih]
    congr 1
    have := dot_move r x d s h
    simpa [move, vadd, smul] using this

theorem mv_nil_right (A : List (List α)) : mv A ([] : List α) = zeros A.length := by
  induction A with
  | nil => rfl
  | cons r A ih => simp only [mv, List.map_cons, dot_nil_right] at ih ⊢; rw [ih]; simp [zeros, List.replicate_succ]

theorem mv_mneg (X : List (List α)) (x : List α) : mv (mneg X) x = vneg (mv X x) := by
  induction X with
  | nil => rfl
  | cons r X ih =>
    simp only [mv, mneg, vneg, List.map_cons, List.map_map] at ih ⊢
    rw [ih]; congr 1
    exact dot_vneg_left r x

theorem msub_rows (n : Nat) : ∀ (X Y : List (List α)), (∀ r ∈ X, r.length = n) → (∀ r ∈ Y, r.length = n) →
    ∀ r ∈ msub X Y, r.length = n
  | [], _, _, _ => by simp [msub]
  | _ :: _, [], _, _ => by simp [msub]
  | a :: X, b :: Y, hX, hY => by
    intro r hr
    simp only [msub, List.zipWith_cons_cons, List.mem_cons] at hr
    rcases hr with rfl | hr
    · simp [hX a (by simp), hY b (by simp)]
    · exact msub_rows n X Y (fun r' hr' => hX r' (by simp [hr'])) (fun r' hr' => hY r' (by simp [hr'])) r hr

theorem mv_msub : ∀ (X Y : List (List α)) (x : List α), (∀ p ∈ X.zip Y, p.1.length = p.2.length) →
    mv (msub X Y) x = vsub (mv X x) (mv Y x)
  | [], _, _, _ => by simp [msub, mv, vsub]
  | _ :: _, [], _, _ => by simp [msub, mv, vsub]
  | a :: X, b :: Y, x, h => by
    have ih := mv_msub X Y x (fun p hp => h p (by simp [hp]))
    have hab : a.length = b.length := h (a, b) (by simp)
    have e := dot_vsub_left a b x hab
    simp only [msub, mv, vsub, List.zipWith_cons_cons, List.map_cons] at ih e ⊢
    rw [ih, e]

/-- adjoint identity without the length hypothesis on `u` (both sides truncate alike) -/
theorem tmv_adjoint' (n : Nat) : ∀ (A : List (List α)) (u d : List α), (∀ r ∈ A, r.length = n) → d.length = n →
    dot (tmv n A u) d = dot u (mv A d)
  | [], u, d, _, _ => by simp [tmv, mv, dot_zeros]
  | _ :: _, [], d, _, _ => by simp [tmv, dot_zeros]
  | r :: A, u :: us, d, h, hd => by
    have hr : r.length = n := h r (by simp)
    have hA : ∀ r' ∈ A, r'.length = n := fun r' hr' => h r' (by simp [hr'])
    have ih := tmv_adjoint' n A us d hA hd
    simp only [tmv, mv, List.map_cons, dot_cons] at ih ⊢
    rw [dot_axpy_left u r _ d (by rw [hr, tmv_length n A us hA]) (by rw [tmv_length n A us hA, hd]), ih]

/-! ### transposes, products -/

theorem transp_length (n : Nat) : ∀ (M : List (List α)), (∀ r ∈ M, r.length = n) → (transp n M).length = n
  | [], _ => by simp [transp]
  | r :: M, h => by
    have ih := transp_length n M (fun r' hr => h r' (by simp [hr]))
    simp [transp, ih, h r (by simp)]

theorem mv_zipWith_cons (v0 : α) (vs : List α) : ∀ (r : List α) (T : List (List α)),
    mv (List.zipWith (· :: ·) r T) (v0 :: vs) = axpy v0 r (mv T vs)
  | [], _ => by simp [mv, axpy]
  | _ :: _, [] => by simp [mv, axpy]
  | a :: r, t :: T => by
    have ih := mv_zipWith_cons v0 vs r T
    simp only [mv, List.zipWith_cons_cons, List.map_cons, dot_cons, axpy] at ih ⊢
    rw [ih]; congr 1; ring

/-- `Mᵀ v` computed from the list of columns is `tmv` -/
theorem mv_transp (n : Nat) : ∀ (A : List (List α)) (v : List α), (∀ r ∈ A, r.length = n) →
    mv (transp n A) v = tmv n A v
  | [], v, _ => by
    cases v <;> simp [transp, mv, tmv, zeros]
  | r :: A, [], h => by
    rw [mv_nil_right, transp_length n (r :: A) h]
    simp [tmv]
  | r :: A, v0 :: vs, h => by
    have ih := mv_transp n A vs (fun r' hr => h r' (by simp [hr]))
    simp only [transp, tmv]
    rw [mv_zipWith_cons, ih]

theorem mv_mmul (n : Nat) (X Y : List (List α)) (x : List α) (hY : ∀ r ∈ Y, r.length = n) (hx : x.length = n) :
    mv (mmul n X Y) x = mv X (mv Y x) := by
  simp only [mv, mmul, List.map_map]
  apply List.map_congr_left
  intro r _
  simp only [Function.comp]
  have := tmv_adjoint' n Y r x hY hx
  simpa [mv] using this

theorem rowScale_rows (n : Nat) : ∀ (w : List α) (G : List (List α)), (∀ r ∈ G, r.length = n) →
    ∀ r ∈ rowScale w G, r.length = n
  | [], _, _ => by simp [rowScale]
  | _ :: _, [], _ => by simp [rowScale]
  | a :: w, g :: G, h => by
    intro r hr
    simp only [rowScale, List.zipWith_cons_cons, List.mem_cons] at hr
    rcases hr with rfl | hr
    · simp [h g (by simp)]
    · exact rowScale_rows n w G (fun r' hr' => h r' (by simp [hr'])) r hr

theorem mv_rowScale (w : List α) (G : List (List α)) (x : List α) : mv (rowScale w G) x = hmul w (mv G x) :=
  mv_scaleRows w G x

theorem mmul_rows (n : Nat) (X Y : List (List α)) (hY : ∀ r ∈ Y, r.length = n) : ∀ r ∈ mmul n X Y, r.length = n := by
  intro r hr
  simp only [mmul, List.mem_map] at hr
  obtain ⟨c, _, rfl⟩ := hr
  exact tmv_length n Y c hY

/-- `hessvar · dx = Gᵀ ((u / Gxh) ∘ (G dx))` -/
theorem mv_hessvar (P : Prog α) (wf : WF P) (x u dx : List α) (hdx : dx.length = P.n) :
    mv (hessvar P x u) dx = tmv P.n P.G (hmul (vdivE u (slack P x)) (mv P.G dx)) := by
  unfold hessvar
  rw [mv_mmul P.n _ _ dx (rowScale_rows P.n _ _ wf.Grows) hdx, mv_transp P.n P.G _ wf.Grows, mv_rowScale]

theorem hessvar_rows (P : Prog α) (wf : WF P) (x u : List α) : ∀ r ∈ hessvar P x u, r.length = P.n :=
  mmul_rows P.n _ _ (rowScale_rows P.n _ _ wf.Grows)

theorem hessvar_length (P : Prog α) (wf : WF P) (x u : List α) : (hessvar P x u).length = P.n := by
  simp [hessvar, mmul, transp_length P.n P.G wf.Grows]

theorem zeroM_rows (n : Nat) : ∀ r ∈ (zeroM n : List (List α)), r.length = n := by
  intro r hr
  simp only [zeroM, List.mem_replicate] at hr
  simp [hr.2]

theorem mv_zeroM (n : Nat) (x : List α) : mv (zeroM n : List (List α)) x = zeros n := by
  simp only [mv, zeroM, List.map_replicate]
  rw [dot_zeros]; rfl

/-- `(Q − H) dx` tested against `d` (`Q dx` is absent for an LP) -/
theorem dot_mv_topLeft (P : Prog α) (wf : WF P) (H : List (List α)) (hH : ∀ r ∈ H, r.length = P.n)
    (hHl : H.length = P.n) (dx d : List α) :
    dot (mv (topLeftOf P H) dx) d = dot (mv P.Q dx) d - dot (mv H dx) d := by
  unfold topLeftOf
  split
  · rename_i h
    have : P.Q = [] := by simpa using h
    rw [mv_mneg, dot_vneg_left, this]; simp [mv]
  · rename_i h
    rw [mv_msub P.Q H dx (fun p hp => by
      rw [wf.Qrows p.1 (List.of_mem_zip hp).1, hH p.2 (List.of_mem_zip hp).2])]
    rcases wf.Qlen with h0 | h0
    · simp [h0] at h
    · rw [dot_vsub_left _ _ _ (by simp [h0, hHl])]

theorem topLeftOf_length (P : Prog α) (wf : WF P) (H : List (List α)) (hHl : H.length = P.n) :
    (topLeftOf P H).length = P.n := by
  unfold topLeftOf
  split
  · simp [mneg, hHl]
  · rename_i h
    rcases wf.Qlen with h0 | h0
    · simp [h0] at h
    · simp [msub, h0, hHl]

/-! ### `m_lmat · (dx, dv)` -/

theorem mv_zipWith_append (dx dv : List α) : ∀ (H T : List (List α)), (∀ r ∈ H, r.length = dx.length) →
    mv (List.zipWith (· ++ ·) H T) (dx ++ dv) = vadd (mv H dx) (mv T dv)
  | [], _, _ => by simp [mv, vadd]
  | _ :: _, [], _ => by simp [mv, vadd]
  | a :: H, t :: T, h => by
    have ih := mv_zipWith_append dx dv H T (fun r hr => h r (by simp [hr]))
    simp only [mv, vadd, List.zipWith_cons_cons, List.map_cons] at ih ⊢
    rw [ih, dot_append a t dx dv (h a (by simp))]

theorem mv_pad_zeros (p : Nat) (dx dv : List α) : ∀ (A : List (List α)), (∀ r ∈ A, r.length = dx.length) →
    mv (A.map (fun r => r ++ zeros p)) (dx ++ dv) = mv A dx
  | [], _ => rfl
  | a :: A, h => by
    have ih := mv_pad_zeros p dx dv A (fun r hr => h r (by simp [hr]))
    simp only [mv, List.map_cons, List.map_map] at ih ⊢
    rw [ih, dot_append a (zeros p) dx dv (h a (by simp)), dot_zeros]; simp

/-- the system matrix applied to `(dx, dv)`: `(H dx + Aᵀ dv, A dx)` -/
theorem mv_kktMat (P : Prog α) (wf : WF P) (H : List (List α)) (hH : ∀ r ∈ H, r.length = P.n) (dx dv : List α)
    (hdx : dx.length = P.n) :
    mv (kktMat P H) (dx ++ dv) = vadd (mv H dx) (tmv P.n P.A dv) ++ mv P.A dx := by
  unfold kktMat
  have e : ∀ (L1 L2 : List (List α)) (z : List α), mv (L1 ++ L2) z = mv L1 z ++ mv L2 z := by
    intro L1 L2 z; simp [mv]
  rw [e, mv_zipWith_append dx dv _ _ (fun r hr => by rw [hH r hr, hdx]),
    mv_pad_zeros P.p dx dv P.A (fun r hr => by rw [wf.Arows r hr, hdx]), mv_transp P.n P.A dv wf.Arows]

/-! ### elementwise identities behind `du` -/

/-- `(rc − u∘y) / g = rc / g − (u / g) ∘ y` -/
theorem du_split : ∀ (rc u y g : List α),
    vdivE (vsub rc (hmul u y)) g = vsub (vdivE rc g) (hmul (vdivE u g) y)
  | [], _, _, _ => by simp [vdivE, vsub, hmul]
  | _ :: _, [], _, _ => by simp [vdivE, vsub, hmul]
  | _ :: _, _ :: _, [], _ => by simp [vdivE, vsub, hmul]
  | _ :: _, _ :: _, _ :: _, [] => by simp [vdivE, vsub, hmul]
  | a :: rc, b :: u, c :: y, e :: g => by
    have ih := du_split rc u y g
    simp only [vdivE, vsub, hmul, List.zipWith_cons_cons] at ih ⊢
    rw [ih]; congr 1; ring

/-- `u∘y + g ∘ ((rc − u∘y) / g) = rc` when no `g_i` vanishes -/
theorem du_central : ∀ (rc uy g : List α), rc.length = uy.length → rc.length = g.length → (∀ a ∈ g, a ≠ 0) →
    vadd uy (hmul g (vdivE (vsub rc uy) g)) = rc
  | [], [], [], _, _, _ => by simp [vadd, hmul, vdivE, vsub]
  | a :: rc, b :: uy, e :: g, h1, h2, hg => by
    have ih := du_central rc uy g (by simpa using h1) (by simpa using h2) (fun t ht => hg t (by simp [ht]))
    have he : e ≠ 0 := hg e (by simp)
    simp only [vadd, hmul, vdivE, vsub, List.zipWith_cons_cons] at ih ⊢
    rw [ih]; congr 1; field_simp; ring
  | [], _ :: _, _, h, _, _ => by simp at h
  | _ :: _, [], _, h, _, _ => by simp at h
  | [], [], _ :: _, _, h, _ => by simp at h
  | _ :: _, _ :: _, [], _, h, _ => by simp at h

/-! ### lengths of what `update` computes -/

theorem update_rdual_length (P : Prog α) (wf : WF P) (mufx miu : α) (x u v : List α) (st : St α) (hx : x.length = P.n) :
    (update P mufx miu x u v st).rdual.length = P.n := by
  have hg := gradObj_length P wf x hx
  have hA : (tmv P.n P.A v).length = P.n := tmv_length _ _ _ wf.Arows
  have hG : (tmv P.n P.G u).length = P.n := tmv_length _ _ _ wf.Grows
  simp only [update]
  by_cases ha : P.A.isEmpty <;> by_cases hg' : P.G.isEmpty <;> simp [ha, hg', hg, hA, hG]

theorem update_rcent (P : Prog α) (mufx miu : α) (x u v : List α) (st : St α) (hG : P.G ≠ []) :
    (update P mufx miu x u v st).rcent =
      List.zipWith (fun ui gi => -(update P mufx miu x u v st).eta / (miu * (P.m : α)) - ui * gi) u (slack P x) := by
  have : P.G.isEmpty = false := by cases h : P.G <;> simp_all
  simp [update, this]

theorem slack_length (P : Prog α) (x : List α) (hh : P.h.length = P.G.length) : (slack P x).length = P.G.length := by
  simp [slack, hh]

theorem update_rcent_length (P : Prog α) (mufx miu : α) (x u v : List α) (st : St α) (hG : P.G ≠ [])
    (hu : u.length = P.G.length) (hh : P.h.length = P.G.length) :
    (update P mufx miu x u v st).rcent.length = P.G.length := by
  rw [update_rcent P mufx miu x u v st hG]
  simp [hu, slack_length P x hh]

theorem duOf_length (P : Prog α) (mufx miu : α) (x u v dx : List α) (st : St α) (hG : P.G ≠ [])
    (hu : u.length = P.G.length) (hh : P.h.length = P.G.length) :
    (duOf P x u dx (update P mufx miu x u v st)).length = P.G.length := by
  unfold duOf
  simp [update_rcent_length P mufx miu x u v st hG hu hh, hu, slack_length P x hh]

/-! ### an exact solution of the system is the Newton direction -/

/-- the dual residual is affine in `(x, u, v)`: along an exact solution `(dx, dv)` of the system, with `du` as the code
    computes it, `rdual(x + s dx, u + s du, v + s dv) = (1 − s) rdual(x, u, v)` for every step length `s`
    (`s = 1`: the linearised dual residual `rdual + J·Δ` vanishes) -/
theorem newton_rdual (P : Prog α) (wf : WF P) (mufx miu : α) (x u v dx dv : List α) (st0 st1 : St α) (s : α)
    (hG : P.G ≠ []) (hx : x.length = P.n) (hdx : dx.length = P.n) (hu : u.length = P.G.length)
    (hv : v.length = P.A.length) (hdv : dv.length = P.A.length) (hh : P.h.length = P.G.length)
    (htop : vadd (mv (kktTopLeft P x u) dx) (tmv P.n P.A dv) =
      vneg (newtonRhs P x (update P mufx miu x u v st0)).1) :
    (update P mufx miu (move x s dx) (move u s (duOf P x u dx (update P mufx miu x u v st0))) (move v s dv) st1).rdual =
      smul (1 - s) (update P mufx miu x u v st0).rdual := by
  have hdu := duOf_length P mufx miu x u v dx st0 hG hu hh
  have hx' : (move x s dx).length = P.n := by rw [move_length x dx s (by rw [hx, hdx]), hx]
  have hu' : (move u s (duOf P x u dx (update P mufx miu x u v st0))).length = P.G.length := by
    rw [move_length _ _ s (by rw [hu, hdu]), hu]
  have hv' : (move v s dv).length = P.A.length := by rw [move_length v dv s (by rw [hv, hdv]), hv]
  apply eq_of_dot_eq P.n _ _ (update_rdual_length P wf mufx miu _ _ _ st1 hx')
    (by rw [smul_length, update_rdual_length P wf mufx miu x u v st0 hx])
  intro d hd
  rw [dot_rdual P wf mufx miu _ _ _ d st1 hx' hd hu' hv', dot_smul_left, dot_rdual P wf mufx miu x u v d st0 hx hd hu hv,
    dot_gradObj P wf _ d hx', dot_gradObj P wf x d hx, mv_move P.Q x dx s (by rw [hx, hdx]),
    dot_move_left _ _ d s (by simp), dot_move_left v dv _ s (by rw [hv, hdv]), dot_move_left u _ _ s (by rw [hu, hdu])]
  -- the first block row of the system, tested against `d`
  have e1 := congrArg (fun w => dot w d) htop
  simp only [newtonRhs, kktTopLeft] at e1
  have hrd := update_rdual_length P wf mufx miu x u v st0 hx
  have hrc := update_rcent_length P mufx miu x u v st0 hG hu hh
  have hsl := slack_length P x hh
  rw [dot_vadd_left _ _ _ (by
      rw [mv_length, topLeftOf_length P wf _ (hessvar_length P wf x u), tmv_length _ _ _ wf.Arows]),
    dot_mv_topLeft P wf _ (hessvar_rows P wf x u) (hessvar_length P wf x u), mv_hessvar P wf x u dx hdx,
    tmv_adjoint' P.n P.A dv d wf.Arows hd, tmv_adjoint' P.n P.G _ d wf.Grows hd, dot_vneg_left,
    dot_vadd_left _ _ _ (by rw [hrd, tmv_length _ _ _ wf.Grows]), tmv_adjoint' P.n P.G _ d wf.Grows hd,
    dot_rdual P wf mufx miu x u v d st0 hx hd hu hv, dot_gradObj P wf x d hx] at e1
  -- `du` split into its two terms
  have e2 : dot (duOf P x u dx (update P mufx miu x u v st0)) (mv P.G d) =
      dot (vdivE (update P mufx miu x u v st0).rcent (slack P x)) (mv P.G d) -
        dot (hmul (vdivE u (slack P x)) (mv P.G dx)) (mv P.G d) := by
    unfold duOf
    rw [du_split, dot_vsub_left _ _ _ (by simp [hrc, hsl, hu])]
  rw [e2]
  linear_combination s * e1

/-- the primal residual: `A (x + s dx) − b = (1 − s)(A x − b)` when `A dx = −(A x − b)` -/
theorem newton_rprim (x dx : List α) (s : α) (hl : x.length = dx.length) : ∀ (A : List (List α)) (b : List α),
    mv A dx = vneg (vsub (mv A x) b) → vsub (mv A (move x s dx)) b = smul (1 - s) (vsub (mv A x) b)
  | [], _, _ => by simp [mv, vsub, smul]
  | r :: A, [], h => by simp [mv, vsub, vneg] at h
  | r :: A, b0 :: b, h => by
    simp only [mv, vsub, vneg, List.map_cons, List.zipWith_cons_cons, List.cons.injEq] at h
    have ih := newton_rprim x dx s hl A b (by simpa [mv, vsub, vneg] using h.2)
    simp only [mv, vsub, smul, List.map_cons, List.zipWith_cons_cons] at ih ⊢
    rw [ih]; congr 1
    have := dot_move r x dx s hl
    rw [this, h.1]; ring

/-- the centrality residual, linearised with `η / (μ m)` held fixed (as the method does):
    `u ∘ (G dx) + (G x − h) ∘ du = rcent`, i.e. `rcent + J_cent·Δ = 0` -/
theorem newton_rcent (P : Prog α) (mufx miu : α) (x u v dx : List α) (st0 : St α) (hG : P.G ≠ [])
    (hu : u.length = P.G.length) (hh : P.h.length = P.G.length) (hint : ∀ a ∈ slack P x, a ≠ 0) :
    vadd (hmul u (mv P.G dx)) (hmul (slack P x) (duOf P x u dx (update P mufx miu x u v st0))) =
      (update P mufx miu x u v st0).rcent := by
  unfold duOf
  apply du_central
  · simp [update_rcent_length P mufx miu x u v st0 hG hu hh, hu]
  · rw [update_rcent_length P mufx miu x u v st0 hG hu hh, slack_length P x hh]
  · exact hint

/-- splitting the contract `kktMat · (dx, dv) = kktVec` into its two block rows -/
theorem kkt_system_blocks (P : Prog α) (wf : WF P) (H : List (List α)) (hH : ∀ r ∈ H, r.length = P.n)
    (hHl : H.length = P.n) (a : List α × List α) (ha : a.1.length = P.n) (dx dv : List α) (hdx : dx.length = P.n)
    (hsol : mv (kktMat P (topLeftOf P H)) (dx ++ dv) = kktVecOf a) :
    vadd (mv (topLeftOf P H) dx) (tmv P.n P.A dv) = vneg a.1 ∧ mv P.A dx = vneg a.2 := by
  have hrows : ∀ r ∈ topLeftOf P H, r.length = P.n := by
    intro r hr
    unfold topLeftOf at hr
    split at hr
    · simp only [mneg, List.mem_map] at hr
      obtain ⟨c, hc, rfl⟩ := hr
      simp [hH c hc]
    · exact msub_rows P.n P.Q H wf.Qrows hH r hr
  rw [mv_kktMat P wf _ hrows dx dv hdx] at hsol
  unfold kktVecOf at hsol
  exact List.append_inj hsol (by
    simp [topLeftOf_length P wf H hHl, tmv_length _ _ _ wf.Arows, ha])

/-! ### the equality-only path -/

/-- an exact solution `(x, v)` of the system of `solve_without_inequality` has `rdual = 0` and `A x = b` -/
theorem noineq_exact (P : Prog α) (wf : WF P) (mufx miu : α) (x v : List α) (st0 : St α) (hG : P.G = [])
    (hx : x.length = P.n) (hv : v.length = P.A.length)
    (hsol : mv (kktMat P (kktTopLeft0 P)) (x ++ v) = kktVec0 P) :
    (update P mufx miu x [] v st0).rdual = zeros P.n ∧ mv P.A x = P.b := by
  have hz : (zeroM P.n : List (List α)).length = P.n := by simp [zeroM]
  obtain ⟨e1, e2⟩ := kkt_system_blocks P wf (zeroM P.n) (zeroM_rows P.n) hz (P.c, vneg P.b) rfl x v hx hsol
  simp only [vneg_vneg] at e2
  refine ⟨?_, e2⟩
  apply eq_of_dot_eq P.n _ _ (update_rdual_length P wf mufx miu x [] v st0 hx) (by simp)
  intro d hd
  rw [dot_rdual P wf mufx miu x [] v d st0 hx hd (by simp [hG]) hv, dot_gradObj P wf x d hx, dot_zeros]
  have e := congrArg (fun w => dot w d) e1
  simp only at e
  rw [dot_vadd_left _ _ _ (by rw [mv_length, topLeftOf_length P wf _ hz, tmv_length _ _ _ wf.Arows]),
    dot_mv_topLeft P wf _ (zeroM_rows P.n) hz, mv_zeroM, dot_zeros, tmv_adjoint' P.n P.A v d wf.Arows hd,
    dot_vneg_left] at e
  simp only [dot_nil_left]
  linarith

end NanoVerif.Program
