import NanoVerif.Model.LSearch
import Mathlib.Algebra.Order.Field.Basic
import Mathlib.Tactic.Linarith
import Mathlib.Tactic.Ring
/-!
  C07 — helper lemmas about the line-search model (`Model/LSearch.lean`) over an arbitrary linearly ordered field:
  the preamble of `lsearchk_t::get`, backtracking, LeMaréchal, Fletcher (+ zoom).
  Each loop gets one `…_spec` lemma proved by induction on its fuel, collecting
    * how many oracle requests it adds at most,
    * what holds when it reports success (the advertised predicates, evaluated on the returned state and step),
    * that the returned `(state, step)` is either the pair it was entered with or a pair produced by `ask`
      (i.e. the state is the oracle's answer at the returned step),
  and one `…_pos` lemma (the returned step is positive under the parameter domains).
-/
namespace NanoVerif.LSearch
open NanoVerif.Gen.LsPredicates

set_option linter.unusedSectionVars false

variable {α : Type} [Field α] [LinearOrder α] [IsStrictOrderedRing α]

/-- `ctx.cur` is the oracle's answer to the most recent request, and that request was made at step `t` -/
def Cons (φ : Oracle α) (ctx : Ctx α) (t : α) : Prop :=
  ∃ rest, ctx.trace = t :: rest ∧ ctx.cur = φ rest.length t

theorem cons_ask (φ : Oracle α) (ctx : Ctx α) (t : α) : Cons φ (ask φ ctx t) t := ⟨ctx.trace, rfl, rfl⟩

@[simp] theorem ask_trace_length (φ : Oracle α) (ctx : Ctx α) (t : α) :
    (ask φ ctx t).trace.length = ctx.trace.length + 1 := by simp [ask]

/-- either nothing was evaluated since `(ctx, t)`, or the state is the oracle's answer at the returned step -/
def SameOrCons (φ : Oracle α) (ctx : Ctx α) (t : α) (ctx' : Ctx α) (t' : α) : Prop :=
  (ctx' = ctx ∧ t' = t) ∨ Cons φ ctx' t'

/-! ### `std::min`, `std::max`, `std::clamp` over a linear order -/

theorem cmin_eq_min (a b : α) : cmin a b = min a b := by
  unfold cmin; split
  · rw [min_eq_right (le_of_lt ‹_›)]
  · rw [min_eq_left (not_lt.mp ‹_›)]

theorem cmax_eq_max (a b : α) : cmax a b = max a b := by
  unfold cmax; split
  · rw [max_eq_right (le_of_lt ‹_›)]
  · rw [max_eq_left (not_lt.mp ‹_›)]

/-- `std::clamp` never leaves the hull of its two bounds, whatever their order and whatever the value -/
theorem clamp_ge (v lo hi : α) : min lo hi ≤ clamp v lo hi := by
  unfold clamp; split
  · exact min_le_left _ _
  · split
    · exact min_le_right _ _
    · exact le_trans (min_le_left _ _) (not_lt.mp ‹¬ v < lo›)

theorem clamp_pos (v lo hi : α) (hlo : 0 < lo) (hhi : 0 < hi) : 0 < clamp v lo hi :=
  lt_of_lt_of_le (lt_min hlo hhi) (clamp_ge v lo hi)

theorem clamp_gt (v lo hi c : α) (hlo : c < lo) (hhi : c < hi) : c < clamp v lo hi :=
  lt_of_lt_of_le (lt_min hlo hhi) (clamp_ge v lo hi)

/-! ### preamble -/

theorem stpmin_pos (e : α) (he : 0 < e) : 0 < stpmin e := by
  unfold stpmin; positivity

theorem initialStep_pos (cfg : Cfg α) (t0 : α) (he : 0 < cfg.macheps) : 0 < initialStep cfg t0 := by
  unfold initialStep; split
  · exact clamp_pos _ _ _ (stpmin_pos _ he) one_pos
  · exact one_pos

/-- what the first loop of `get` returns: at most `n` requests; a positive step stays positive; if the final state is
    valid it is the oracle's answer at the returned step, unless nothing was evaluated at all -/
theorem shrink_spec (φ : Oracle α) : ∀ (n : Nat) (t : α) (ctx : Ctx α),
    (shrink φ n t ctx).2.trace.length ≤ ctx.trace.length + n ∧
    (0 < t → 0 < (shrink φ n t ctx).1) ∧
    (((shrink φ n t ctx).2 = ctx ∧ n = 0) ∨ (shrink φ n t ctx).2.cur.ok = false ∨
      Cons φ (shrink φ n t ctx).2 (shrink φ n t ctx).1) := by
  intro n
  induction n with
  | zero => intro t ctx; simp [shrink]
  | succ n ih =>
    intro t ctx
    simp only [shrink]
    split
    · refine ⟨by simp, fun h => h, Or.inr (Or.inr (cons_ask φ ctx t))⟩
    · obtain ⟨h1, h2, h3⟩ := ih (t * (3 / 10)) (ask φ ctx t)
      refine ⟨by simp at h1 ⊢; omega, fun h => h2 (by positivity), ?_⟩
      rcases h3 with ⟨h3, h0⟩ | h3 | h3
      · right; left; rw [h3]; simpa using ‹¬ (ask φ ctx t).cur.ok = true›
      · exact Or.inr (Or.inl h3)
      · exact Or.inr (Or.inr h3)

/-- what holds of the outcome of the second loop of `get` -/
def GrowPost (φ : Oracle α) (ctx : Ctx α) (t : α) (n : Nat) : Sum (α × Ctx α) (α × Ctx α) → Prop
  | .inl p => p.2.trace.length ≤ ctx.trace.length + n
  | .inr p => p.2.trace.length ≤ ctx.trace.length + n ∧ (0 < t → 0 < p.1) ∧ SameOrCons φ ctx t p.2 p.1

/-- second loop of `get` -/
theorem grow_spec (φ : Oracle α) (eps1 f0 : α) : ∀ (n : Nat) (t : α) (ctx : Ctx α),
    GrowPost φ ctx t n (grow φ eps1 f0 n t ctx) := by
  intro n
  induction n with
  | zero => intro t ctx; simp [grow, GrowPost, SameOrCons]
  | succ n ih =>
    intro t ctx
    by_cases h : absv (ctx.cur.f - f0) < eps1
    · by_cases hok : (ask φ ctx (t * 3)).cur.ok = true
      · simp only [grow, h, hok, if_true]
        have := ih (t * 3) (ask φ ctx (t * 3))
        revert this
        cases grow φ eps1 f0 n (t * 3) (ask φ ctx (t * 3)) with
        | inl p => simp only [GrowPost, ask_trace_length]; intro h; omega
        | inr p =>
          simp only [GrowPost, ask_trace_length]
          rintro ⟨h1, h2, h3⟩
          refine ⟨by omega, fun h => h2 (by positivity), ?_⟩
          rcases h3 with ⟨h3, h4⟩ | h3
          · right; rw [h3, h4]; exact cons_ask φ ctx (t * 3)
          · exact Or.inr h3
      · simp only [grow, h, hok, if_true]
        simp [GrowPost]
    · simp only [grow, h, if_false]
      simp [GrowPost, SameOrCons]

/-! ### the shape shared by the five `do_get` loops -/

theorem ite_post {β : Type} {P : β → Prop} {c : Prop} [Decidable c] {a b : β} (ha : c → P a) (hb : ¬ c → P b) :
    P (if c then a else b) := by
  split
  · exact ha ‹_›
  · exact hb ‹_›

theorem ite_pos {c : Prop} [Decidable c] {a b : Res α} (ha : c → 0 < a.t) (hb : ¬ c → 0 < b.t) :
    0 < (if c then a else b).t :=
  ite_post (P := fun r : Res α => 0 < r.t) ha hb

/-- outcome `r` of a loop entered with `(ctx, t)` and fuel `n`: at most `n` further requests; on success `Q r` holds and
    the returned state is either the state on entry (with the step on entry) or the oracle's answer at the returned step -/
def Post (φ : Oracle α) (Q : Res α → Prop) (ctx : Ctx α) (t : α) (n : Nat) (r : Res α) : Prop :=
  r.ctx.trace.length ≤ ctx.trace.length + n ∧ (r.ok = true → Q r ∧ SameOrCons φ ctx t r.ctx r.t)

theorem post_here {φ : Oracle α} {Q : Res α → Prop} {ctx : Ctx α} {t : α} {n : Nat} (h : Q ⟨true, t, ctx⟩) :
    Post φ Q ctx t n ⟨true, t, ctx⟩ :=
  ⟨by simp, fun _ => ⟨h, Or.inl ⟨rfl, rfl⟩⟩⟩

theorem post_fail {φ : Oracle α} {Q : Res α → Prop} {ctx ctx' : Ctx α} {t t' : α} {n : Nat}
    (h : ctx'.trace.length ≤ ctx.trace.length + n) : Post φ Q ctx t n ⟨false, t', ctx'⟩ :=
  ⟨h, fun h => by simp at h⟩

theorem post_step {φ : Oracle α} {Q : Res α → Prop} {ctx : Ctx α} {t t' : α} {n : Nat} {r : Res α}
    (h : Post φ Q (ask φ ctx t') t' n r) : Post φ Q ctx t (n + 1) r := by
  obtain ⟨h1, h2⟩ := h
  refine ⟨by simp only [ask_trace_length] at h1; omega, fun h => ?_⟩
  obtain ⟨a, c⟩ := h2 h
  refine ⟨a, Or.inr ?_⟩
  rcases c with ⟨c1, c2⟩ | c
  · rw [c1, c2]; exact cons_ask φ ctx _
  · exact c

theorem post_mono {φ : Oracle α} {Q : Res α → Prop} {ctx : Ctx α} {t : α} {n m : Nat} {r : Res α}
    (h : Post φ Q ctx t n r) (hnm : n ≤ m) : Post φ Q ctx t m r :=
  ⟨by have := h.1; omega, h.2⟩

/-- a loop entered right after the request at `t'` -/
theorem post_trans {φ : Oracle α} {Q : Res α → Prop} {ctx ctx' : Ctx α} {t t' : α} {n m : Nat} {r : Res α}
    (h : Post φ Q ctx' t' n r) (hlen : ctx'.trace.length ≤ ctx.trace.length + m) (hc : SameOrCons φ ctx t ctx' t') :
    Post φ Q ctx t (m + n) r := by
  obtain ⟨h1, h2⟩ := h
  refine ⟨by omega, fun h => ?_⟩
  obtain ⟨a, c⟩ := h2 h
  refine ⟨a, ?_⟩
  rcases c with ⟨c1, c2⟩ | c
  · rw [c1, c2]; exact hc
  · exact Or.inr c

/-! ### backtracking -/

/-- what a success of the backtracking loop guarantees: Armijo (generated predicate) on the returned state and step,
    and a valid state -/
def BtQ (cfg : Cfg α) (s0 : Eval α) (r : Res α) : Prop :=
  hasArmijo s0.f s0.g r.ctx.cur.f r.t cfg.c1 = true ∧ r.ctx.cur.ok = true

theorem backtrack_spec (cfg : Cfg α) (φ : Oracle α) (s0 : Eval α) : ∀ (n : Nat) (t : α) (ctx : Ctx α),
    Post φ (BtQ cfg s0) ctx t n (backtrack cfg φ s0 n t ctx) := by
  intro n
  induction n with
  | zero => intro t ctx; exact post_fail (by simp)
  | succ n ih =>
    intro t ctx
    simp only [backtrack]
    refine ite_post (fun hok => ite_post (fun hA => post_here ⟨hA, hok⟩)
      (fun _ => ite_post (fun _ => post_step (ih _ _)) (fun _ => post_fail (by simp)))) (fun _ => post_fail (by simp))

theorem backtrack_pos (cfg : Cfg α) (φ : Oracle α) (s0 : Eval α) (hs0 : 0 < cfg.safeguard) (hs1 : cfg.safeguard < 1) :
    ∀ (n : Nat) (t : α) (ctx : Ctx α), 0 < t → 0 < (backtrack cfg φ s0 n t ctx).t := by
  intro n
  induction n with
  | zero => intro t ctx h; simpa [backtrack] using h
  | succ n ih =>
    intro t ctx ht
    have hstep : ∀ v : α, 0 < clamp v (cmin 0 t + cfg.safeguard * (cmax 0 t - cmin 0 t))
        (cmax 0 t - cfg.safeguard * (cmax 0 t - cmin 0 t)) := by
      intro v
      rw [cmin_eq_min, cmax_eq_max, min_eq_left (le_of_lt ht), max_eq_right (le_of_lt ht)]
      apply clamp_pos
      · have := mul_pos hs0 ht; linarith
      · have : 0 < (1 - cfg.safeguard) * t := mul_pos (by linarith) ht
        linarith
    simp only [backtrack]
    exact ite_pos (fun _ => ite_pos (fun _ => ht) (fun _ => ite_pos (fun _ => ih _ _ (hstep _)) (fun _ => hstep _)))
      (fun _ => ht)

/-! ### LeMaréchal -/

/-- Armijo and Wolfe (generated predicates) on the returned state and step -/
def LemQ (cfg : Cfg α) (s0 : Eval α) (r : Res α) : Prop :=
  hasArmijo s0.f s0.g r.ctx.cur.f r.t cfg.c1 = true ∧ hasWolfe s0.g r.ctx.cur.g cfg.c2 = true

theorem lemarechal_spec (cfg : Cfg α) (φ : Oracle α) (s0 : Eval α) : ∀ (n : Nat) (L R : Step α) (t : α) (ctx : Ctx α),
    Post φ (LemQ cfg s0) ctx t n (lemarechal cfg φ s0 n L R t ctx) := by
  intro n
  induction n with
  | zero => intro L R t ctx; exact post_fail (by simp)
  | succ n ih =>
    intro L R t ctx
    simp only [lemarechal]
    refine ite_post (fun hA => ite_post (fun hW => post_here ⟨hA, hW⟩)
      (fun _ => ite_post (fun _ => post_step (ih _ _ _ _)) (fun _ => post_fail (by simp))))
      (fun _ => ite_post (fun _ => post_step (ih _ _ _ _)) (fun _ => post_fail (by simp)))

theorem lemInterp_pos (cfg : Cfg α) (L R : Step α) (hs0 : 0 < cfg.safeguard) (hs1 : cfg.safeguard < 1)
    (hL : 0 ≤ L.t) (hR : 0 ≤ R.t) (hLR : 0 < L.t ∨ 0 < R.t) : 0 < lemInterp cfg L R := by
  unfold lemInterp
  have h1 : 0 ≤ cfg.safeguard * R.t := mul_nonneg (le_of_lt hs0) hR
  have h2 : 0 ≤ cfg.safeguard * L.t := mul_nonneg (le_of_lt hs0) hL
  have h3 : 0 ≤ (1 - cfg.safeguard) * L.t := mul_nonneg (by linarith) hL
  have h4 : 0 ≤ (1 - cfg.safeguard) * R.t := mul_nonneg (by linarith) hR
  apply clamp_pos
  · rcases hLR with h | h
    · have : 0 < (1 - cfg.safeguard) * L.t := mul_pos (by linarith) h
      linarith
    · have : 0 < cfg.safeguard * R.t := mul_pos hs0 h
      linarith
  · rcases hLR with h | h
    · have : 0 < cfg.safeguard * L.t := mul_pos hs0 h
      linarith
    · have : 0 < (1 - cfg.safeguard) * R.t := mul_pos (by linarith) h
      linarith

theorem lemarechal_pos (cfg : Cfg α) (φ : Oracle α) (s0 : Eval α) (hs0 : 0 < cfg.safeguard) (hs1 : cfg.safeguard < 1)
    (htau : 0 < cfg.tau1) :
    ∀ (n : Nat) (L R : Step α) (t : α) (ctx : Ctx α), 0 ≤ L.t → 0 ≤ R.t → 0 < t →
      0 < (lemarechal cfg φ s0 n L R t ctx).t := by
  intro n
  induction n with
  | zero => intro L R t ctx _ _ h; simpa [lemarechal] using h
  | succ n ih =>
    intro L R t ctx hL hR ht
    have ht1 : 0 < (if R.t < cfg.eps0 then cfg.tau1 * (stepOf ctx t).t else lemInterp cfg (stepOf ctx t) R) :=
      ite_post (P := fun x : α => 0 < x) (fun _ => mul_pos htau ht)
        (fun _ => lemInterp_pos cfg _ R hs0 hs1 (le_of_lt ht) hR (Or.inl ht))
    have ht2 : 0 < lemInterp cfg L (stepOf ctx t) := lemInterp_pos cfg L _ hs0 hs1 hL (le_of_lt ht) (Or.inr ht)
    simp only [lemarechal]
    exact ite_pos
      (fun _ => ite_pos (fun _ => ht)
        (fun _ => ite_pos (fun _ => ih _ _ _ _ (le_of_lt ht) hR ht1) (fun _ => ht1)))
      (fun _ => ite_pos (fun _ => ih _ _ _ _ hL (le_of_lt ht) ht2) (fun _ => ht2))

/-! ### Fletcher -/

theorem absv_eq_abs (x : α) : absv x = |x| := by
  unfold absv; split
  · rw [abs_of_neg ‹_›]
  · rw [abs_of_nonneg (not_lt.mp ‹_›)]

/-- Armijo and strong Wolfe (generated predicates) on the returned state and step -/
def FlQ (cfg : Cfg α) (s0 : Eval α) (r : Res α) : Prop :=
  hasArmijo s0.f s0.g r.ctx.cur.f r.t cfg.c1 = true ∧ hasStrongWolfe s0.g r.ctx.cur.g cfg.c2 = true

theorem zoom_spec (cfg : Cfg α) (φ : Oracle α) (s0 : Eval α) : ∀ (n : Nat) (lo hi : Step α) (ctx : Ctx α) (t : α),
    Post φ (FlQ cfg s0) ctx t n (zoom cfg φ s0 n lo hi ctx) := by
  intro n
  induction n with
  | zero => intro lo hi ctx t; exact post_fail (by simp)
  | succ n ih =>
    intro lo hi ctx t
    simp only [zoom]
    refine ite_post (fun _ => ite_post (fun _ => ite_post (fun _ => post_step (ih _ _ _ _))
      (fun hA => ite_post (fun hW => post_step (post_here ⟨?_, hW⟩)) (fun _ => post_step (ih _ _ _ _))))
      (fun _ => post_fail (by simp))) (fun _ => post_fail (by simp))
    simpa using (not_or.mp hA).1

theorem fletcher_spec (cfg : Cfg α) (φ : Oracle α) (s0 : Eval α) :
    ∀ (n : Nat) (prev curr : Step α) (t : α) (ctx : Ctx α),
    Post φ (FlQ cfg s0) ctx t (n + cfg.maxIter) (fletcher cfg φ s0 n prev curr t ctx) := by
  intro n
  induction n with
  | zero => intro prev curr t ctx; exact post_fail (by simp)
  | succ n ih =>
    intro prev curr t ctx
    simp only [fletcher]
    refine ite_post (fun _ => post_mono (zoom_spec cfg φ s0 _ _ _ _ _) (by omega))
      (fun hA => ite_post (fun hW => post_here ⟨?_, hW⟩)
        (fun _ => ite_post (fun _ => post_mono (zoom_spec cfg φ s0 _ _ _ _ _) (by omega))
          (fun _ => ite_post (fun _ => post_mono (post_step (ih _ _ _ _)) (by omega))
            (fun _ => post_fail (by simp only [ask_trace_length]; omega)))))
    simpa using (not_or.mp hA).1

theorem zoom_bounds_pos (cfg : Cfg α) (lo hi : Step α) (htau2 : 0 < cfg.tau2) (hc2 : 0 < cfg.c2)
    (htau3' : cfg.tau3 < 1) (heps : 0 ≤ cfg.eps0) (hlo : 0 ≤ lo.t) (hhi : 0 ≤ hi.t)
    (hw : absv (lo.t - hi.t) > cfg.eps0) (v : α) :
    0 < clamp v (cmin lo.t hi.t + cmin cfg.tau2 cfg.c2 * absv (hi.t - lo.t))
      (cmax lo.t hi.t - cfg.tau3 * absv (hi.t - lo.t)) := by
  rw [absv_eq_abs] at hw
  rw [cmin_eq_min, cmin_eq_min, cmax_eq_max, absv_eq_abs]
  have hmu : 0 < min cfg.tau2 cfg.c2 := lt_min htau2 hc2
  have hd : 0 < |hi.t - lo.t| := by rw [abs_sub_comm]; exact lt_of_le_of_lt heps hw
  apply clamp_pos
  · have h1 : 0 ≤ min lo.t hi.t := le_min hlo hhi
    have h2 := mul_pos hmu hd
    linarith
  · rcases le_total lo.t hi.t with h | h
    · rw [max_eq_right h, abs_of_nonneg (by linarith)]
      rw [abs_of_nonneg (by linarith)] at hd
      have h1 : 0 < (1 - cfg.tau3) * (hi.t - lo.t) := mul_pos (by linarith) hd
      have h2 : 0 ≤ (1 - cfg.tau3) * lo.t := mul_nonneg (by linarith) hlo
      nlinarith
    · rw [max_eq_left h, abs_of_nonpos (by linarith)]
      rw [abs_of_nonpos (by linarith)] at hd
      have h1 : 0 < (1 - cfg.tau3) * (-(hi.t - lo.t)) := mul_pos (by linarith) hd
      have h2 : 0 ≤ (1 - cfg.tau3) * hi.t := mul_nonneg (by linarith) hhi
      nlinarith

theorem zoom_pos (cfg : Cfg α) (φ : Oracle α) (s0 : Eval α) (htau2 : 0 < cfg.tau2) (hc2 : 0 < cfg.c2)
    (htau3' : cfg.tau3 < 1) (heps : 0 ≤ cfg.eps0) :
    ∀ (n : Nat) (lo hi : Step α) (ctx : Ctx α), 0 ≤ lo.t → 0 ≤ hi.t →
      (zoom cfg φ s0 n lo hi ctx).ok = true → 0 < (zoom cfg φ s0 n lo hi ctx).t := by
  intro n
  induction n with
  | zero => intro lo hi ctx _ _ h; simp [zoom] at h
  | succ n ih =>
    intro lo hi ctx hlo hhi
    simp only [zoom]
    refine ite_post (P := fun r : Res α => r.ok = true → 0 < r.t) (fun hw => ?_) (fun _ h => by simp at h)
    have hpos := zoom_bounds_pos cfg lo hi htau2 hc2 htau3' heps hlo hhi hw (cfg.interp lo hi)
    refine ite_post (P := fun r : Res α => r.ok = true → 0 < r.t)
      (fun _ => ite_post (P := fun r : Res α => r.ok = true → 0 < r.t) (fun _ => ih _ _ _ hlo (le_of_lt hpos))
        (fun _ => ite_post (P := fun r : Res α => r.ok = true → 0 < r.t) (fun _ _ => hpos)
          (fun _ => ih _ _ _ (le_of_lt hpos) ?_)))
      (fun _ h => by simp at h)
    exact ite_post (P := fun s : Step α => 0 ≤ s.t) (fun _ => hlo) (fun _ => hhi)

theorem fletcher_pos (cfg : Cfg α) (φ : Oracle α) (s0 : Eval α) (htau1 : 0 < cfg.tau1) (htau2 : 0 < cfg.tau2)
    (hc2 : 0 < cfg.c2) (htau3' : cfg.tau3 < 1) (heps : 0 ≤ cfg.eps0) :
    ∀ (n : Nat) (prev curr : Step α) (t : α) (ctx : Ctx α), 0 ≤ prev.t → prev.t < curr.t → curr.t = t →
      (fletcher cfg φ s0 n prev curr t ctx).ok = true → 0 < (fletcher cfg φ s0 n prev curr t ctx).t := by
  intro n
  induction n with
  | zero => intro prev curr t ctx _ _ _ h; simp [fletcher] at h
  | succ n ih =>
    intro prev curr t ctx hp hpc hct
    have hc : 0 < curr.t := lt_of_le_of_lt hp hpc
    have hgt : curr.t < clamp (cfg.interp prev curr) (curr.t + 2 * (curr.t - prev.t))
        (curr.t + cfg.tau1 * (curr.t - prev.t)) := by
      apply clamp_gt
      · linarith
      · have := mul_pos htau1 (sub_pos.mpr hpc); linarith
    simp only [fletcher]
    exact ite_post (P := fun r : Res α => r.ok = true → 0 < r.t)
      (fun _ => zoom_pos cfg φ s0 htau2 hc2 htau3' heps _ _ _ _ hp (le_of_lt hc))
      (fun _ => ite_post (P := fun r : Res α => r.ok = true → 0 < r.t) (fun _ _ => hct ▸ hc)
        (fun _ => ite_post (P := fun r : Res α => r.ok = true → 0 < r.t)
          (fun _ => zoom_pos cfg φ s0 htau2 hc2 htau3' heps _ _ _ _ (le_of_lt hc) hp)
          (fun _ => ite_post (P := fun r : Res α => r.ok = true → 0 < r.t)
            (fun _ => ih _ _ _ _ (le_of_lt hc) hgt rfl) (fun _ h => by simp at h))))

end NanoVerif.LSearch
