import NanoVerif.Model.ScalingClass
import Mathlib.Data.List.Basic
import Mathlib.Tactic.Linarith
/-!
  C14 — `xclass_stats_t`: the class hashes are strictly increasing and are exactly the hashes of the present samples (so the
  precondition of `std::lower_bound`'s contract holds), and `nano::find` returns the position of a hash that is a class and −1 for
  any other hash.
-/
namespace NanoVerif.Scaling

theorem mem_setInsert (h x : Nat) (l : List Nat) : x ∈ setInsert h l ↔ x = h ∨ x ∈ l := by
  induction l with
  | nil => simp [setInsert]
  | cons y ys ih =>
    unfold setInsert
    split
    · simp
    · split
      · simp only [List.mem_cons, ih]; tauto
      · rename_i h1 h2
        have : h = y := by omega
        subst this
        simp

/-- strictly increasing -/
def StrictSorted (l : List Nat) : Prop := l.Pairwise (· < ·)

theorem setInsert_sorted (h : Nat) (l : List Nat) (hs : StrictSorted l) : StrictSorted (setInsert h l) := by
  induction l with
  | nil => simp [setInsert, StrictSorted]
  | cons y ys ih =>
    unfold StrictSorted at hs ⊢
    rw [List.pairwise_cons] at hs
    unfold setInsert
    split
    · rename_i hlt
      rw [List.pairwise_cons]
      refine ⟨fun a ha => ?_, List.pairwise_cons.mpr hs⟩
      rcases List.mem_cons.mp ha with rfl | ha'
      · exact hlt
      · exact lt_trans hlt (hs.1 a ha')
    · split
      · rename_i h1 h2
        rw [List.pairwise_cons]
        refine ⟨fun a ha => ?_, ih hs.2⟩
        rcases (mem_setInsert h a ys).mp ha with rfl | ha'
        · exact h2
        · exact hs.1 a ha'
      · exact List.pairwise_cons.mpr hs

theorem foldl_insert_spec (ss : List (Bool × Nat)) (acc : List Nat) (hacc : StrictSorted acc) :
    StrictSorted (ss.foldl (fun acc s => if s.1 then setInsert s.2 acc else acc) acc) ∧
    ∀ x, x ∈ ss.foldl (fun acc s => if s.1 then setInsert s.2 acc else acc) acc ↔
      x ∈ acc ∨ ∃ s ∈ ss, s.1 = true ∧ s.2 = x := by
  induction ss generalizing acc with
  | nil => simp [hacc]
  | cons s ss ih =>
    simp only [List.foldl_cons]
    cases hp : s.1
    · simp only [Bool.false_eq_true, if_false]
      obtain ⟨h1, h2⟩ := ih acc hacc
      refine ⟨h1, fun x => ?_⟩
      rw [h2 x]
      constructor
      · rintro (h | ⟨t, ht, hh⟩)
        · exact Or.inl h
        · exact Or.inr ⟨t, List.mem_cons_of_mem _ ht, hh⟩
      · rintro (h | ⟨t, ht, hh⟩)
        · exact Or.inl h
        · rcases List.mem_cons.mp ht with rfl | ht'
          · rw [hp] at hh; exact absurd hh.1 (by simp)
          · exact Or.inr ⟨t, ht', hh⟩
    · simp only [if_true]
      obtain ⟨h1, h2⟩ := ih (setInsert s.2 acc) (setInsert_sorted s.2 acc hacc)
      refine ⟨h1, fun x => ?_⟩
      rw [h2 x, mem_setInsert]
      constructor
      · rintro ((h | h) | ⟨t, ht, hh⟩)
        · exact Or.inr ⟨s, by simp, hp, h.symm⟩
        · exact Or.inl h
        · exact Or.inr ⟨t, List.mem_cons_of_mem _ ht, hh⟩
      · rintro (h | ⟨t, ht, hh⟩)
        · exact Or.inl (Or.inr h)
        · rcases List.mem_cons.mp ht with rfl | ht'
          · exact Or.inl (Or.inl hh.2.symm)
          · exact Or.inr ⟨t, ht', hh⟩

/-- `make_hashes` returns a strictly increasing sequence: the precondition of `std::lower_bound` in `nano::find` -/
theorem makeHashes_sorted (ss : List (Bool × Nat)) : StrictSorted (makeHashes ss) :=
  (foldl_insert_spec ss [] List.Pairwise.nil).1

/-- … whose members are exactly the hashes of the present samples (missing samples contribute no class) -/
theorem mem_makeHashes (ss : List (Bool × Nat)) (x : Nat) :
    x ∈ makeHashes ss ↔ ∃ s ∈ ss, s.1 = true ∧ s.2 = x := by
  have := (foldl_insert_spec ss [] List.Pairwise.nil).2 x
  simpa [makeHashes] using this

/-- `nano::find` on a strictly increasing sequence: the position of `h` when `h` is a member, −1 otherwise -/
theorem find_spec (hs : List Nat) (hsorted : StrictSorted hs) (h : Nat) :
    (h ∈ hs → ∃ i : Nat, find hs h = (i : Int) ∧ hs[i]? = some h) ∧ (h ∉ hs → find hs h = -1) := by
  induction hs with
  | nil => simp [find, lowerBound]
  | cons x xs ih =>
    unfold StrictSorted at hsorted
    rw [List.pairwise_cons] at hsorted
    obtain ⟨ih1, ih2⟩ := ih hsorted.2
    by_cases hlt : x < h
    · have hlb : lowerBound (x :: xs) h = lowerBound xs h + 1 := by simp [lowerBound, hlt]
      have hf : find (x :: xs) h = if find xs h = -1 then -1 else find xs h + 1 := by
        unfold find
        rw [hlb]
        simp only [List.getElem?_cons_succ]
        cases hq : xs[lowerBound xs h]? with
        | none => simp
        | some y =>
          by_cases hy : y = h
          · simp only [hy, if_true]
            have : ((lowerBound xs h : Nat) : Int) ≠ -1 := by omega
            simp only [this, if_false]
            push_cast
            rfl
          · simp [hy]
      constructor
      · intro hm
        have hm' : h ∈ xs := by
          rcases List.mem_cons.mp hm with rfl | h'
          · exact absurd hlt (lt_irrefl _)
          · exact h'
        obtain ⟨i, hi1, hi2⟩ := ih1 hm'
        refine ⟨i + 1, ?_, by simpa using hi2⟩
        rw [hf, hi1]
        have : ((i : Nat) : Int) ≠ -1 := by omega
        simp only [this, if_false]
        push_cast
        rfl
      · intro hm
        have hm' : h ∉ xs := fun h' => hm (List.mem_cons_of_mem _ h')
        rw [hf, ih2 hm']
        simp
    · have hlb : lowerBound (x :: xs) h = 0 := by simp [lowerBound, hlt]
      constructor
      · intro hm
        have hx : x = h := by
          rcases List.mem_cons.mp hm with rfl | h'
          · rfl
          · exact absurd (hsorted.1 h h') (by omega)
        refine ⟨0, ?_, by simp [hx]⟩
        unfold find
        rw [hlb]
        simp [hx]
      · intro hm
        have hx : x ≠ h := fun e => hm (by simp [e])
        unfold find
        rw [hlb]
        simp [hx]

/-- a present sample is classified (class index `≥ 0`, pointing at its own hash); a sample whose hash is not the hash of a present
    sample — for sclass: every missing sample — gets class −1 and weight 0 -/
theorem sample_classified (ss : List (Bool × Nat)) (s : Bool × Nat) (hs : s ∈ ss) :
    (s.1 = true → ∃ i : Nat, find (makeHashes ss) s.2 = (i : Int) ∧ (makeHashes ss)[i]? = some s.2) ∧
    ((∀ t ∈ ss, t.1 = true → t.2 ≠ s.2) → find (makeHashes ss) s.2 = -1) := by
  obtain ⟨h1, h2⟩ := find_spec (makeHashes ss) (makeHashes_sorted ss) s.2
  constructor
  · intro hp
    exact h1 ((mem_makeHashes ss s.2).mpr ⟨s, hs, hp, rfl⟩)
  · intro hno
    apply h2
    intro hm
    obtain ⟨t, ht, htp, hte⟩ := (mem_makeHashes ss s.2).mp hm
    exact hno t ht htp hte

end NanoVerif.Scaling
