import NanoVerif.Model.ScalingClass
import Mathlib.Data.List.Basic
import Mathlib.Tactic.Linarith
/-!
  C14 — `xclass_stats_t`: the class hashes are strictly increasing and are exactly the hashes of the present samples (so the
  precondition of `std::lower_bound`'s contract holds), and `nano::find` returns the position of a hash that is a class and −1 for
  any other hash.
-/
namespace NanoVerif.Scaling

theorem mem_setInsert (h x : Nat) (l : List Nat) : x ∈ setInsert h l ↔ x = h ∨ x ∈ l := by
  induction l with
  | nil => simp [setInsert]
  | cons y ys ih =>
    unfold setInsert
    split
    · simp
    · split
      · simp only [List.mem_cons, ih]; tauto
      · rename_i h1 h2
        have : h = y := by omega
        subst this
        simp

/-- strictly increasing -/
def StrictSorted (l : List Nat) : Prop := l.Pairwise (· < ·)

theorem setInsert_sorted (h : Nat) (l : List Nat) (hs : StrictSorted l) : StrictSorted (setInsert h l) := by
  induction l with
  | nil => simp [setInsert, StrictSorted]
  | cons y ys ih =>
    unfold StrictSorted at hs ⊢
    rw [List.pairwise_cons] at hs
    unfold setInsert
    split
    · rename_i hlt
      rw [List.pairwise_cons]
      refine ⟨fun a ha => ?_, List.pairwise_cons.mpr hs⟩
      rcases List.mem_cons.mp ha with rfl | ha'
      · exact hlt
      · exact lt_trans hlt (hs.1 a ha')
    · split
      · rename_i h1 h2
        rw [List.pairwise_cons]
        refine ⟨fun a ha => ?_, ih hs.2⟩
        rcases (mem_setInsert h a ys).mp ha with rfl | ha'
        · exact h2
        · exact hs.1 a ha'
      · exact List.pairwise_cons.mpr hs

theorem foldl_insert_spec (ss : List (Bool × Nat)) (acc : List Nat) (hacc : StrictSorted acc) :
    StrictSorted (ss.foldl (fun acc s => if s.1 then setInsert s.2 acc else acc) acc) ∧
    ∀ x, x ∈ ss.foldl (fun acc s => if s.1 then setInsert s.2 acc else acc) acc ↔
      x ∈ acc ∨ ∃ s ∈ ss, s.1 = true ∧ s.2 = x := by
  induction ss generalizing acc with
  | nil => simp [hacc]
  | cons s ss ih =>
    simp only [List.foldl_cons]
    cases hp : s.1
    · simp only [Bool.false_eq_true, if_false]
      obtain ⟨h1, h2⟩ := ih acc hacc
      refine ⟨h1, fun x => ?_⟩
      rw [h2 x]
      constructor
      · rintro (h | ⟨t, ht, hh⟩)
        · exact Or.inl h
        · exact Or.inr ⟨t, List.mem_cons_of_mem _ ht, hh⟩
      · rintro (h | ⟨t, ht, hh⟩)
        · exact Or.inl h
        · rcases List.mem_cons.mp ht with rfl | ht'
          · rw [hp] at hh; exact absurd hh.1 (by simp)
          · exact Or.inr ⟨t, ht', hh⟩
    · simp only [if_true]
      obtain ⟨h1, h2⟩ := ih (setInsert s.2 acc) (setInsert_sorted s.2 acc hacc)
      refine ⟨h1, fun x => ?_⟩
      rw [h2 x, mem_setInsert]
      constructor
      · rintro ((h | h) | ⟨t, ht, hh⟩)
        · exact Or.inr ⟨s, by simp, hp, h.symm⟩
        · exact Or.inl h
        · exact Or.inr ⟨t, List.mem_cons_of_mem _ ht, hh⟩
      · rintro (h | ⟨t, ht, hh⟩)
        · exact Or.inl (Or.inr h)
        · rcases List.mem_cons.mp ht with rfl | ht'
          · exact Or.inl (Or.inl hh.2.symm)
          · exact Or.inr ⟨t, ht', hh⟩

/-- `make_hashes` returns a strictly increasing sequence: the precondition of `std::lower_bound` in `nano::find` -/
theorem makeHashes_sorted (ss : List (Bool × Nat)) : StrictSorted (makeHashes ss) :=
  (foldl_insert_spec ss [] List.Pairwise.nil).1

/-- … whose members are exactly the hashes of the present samples (missing samples contribute no class) -/
theorem mem_makeHashes (ss : List (Bool × Nat)) (x : Nat) :
    x ∈ makeHashes ss ↔ ∃ s ∈ ss, s.1 = true ∧ s.2 = x := by
  have := (foldl_insert_spec ss [] List.Pairwise.nil).2 x
  simpa [makeHashes] using this

/-- `nano::find` on a strictly increasing sequence: the position of `h` when `h` is a member, −1 otherwise -/
theorem find_spec (hs : List Nat) (hsorted : StrictSorted hs) (h : Nat) :
    (h ∈ hs → ∃ i : Nat, find hs h = (i : Int) ∧ hs[i]? = some h) ∧ (h ∉ hs → find hs h = -1) := by
  induction hs with
  | nil => simp [find, lowerBound]
  | cons x xs ih =>
    unfold StrictSorted at hsorted
    rw [List.pairwise_cons] at hsorted
    obtain ⟨ih1, ih2⟩ := ih hsorted.2
    by_cases hlt : x < h
    · have hlb : lowerBound (x :: xs) h = lowerBound xs h + 1 := by simp [lowerBound, hlt]
      have hf : find (x :: xs) h = if find xs h = -1 then -1 else find xs h + 1 := by
        unfold find
        rw [hlb]
        simp only [List.getElem?_cons_succ]
        cases hq : xs[lowerBound xs h]? with
        | none => simp
        | some y =>
          by_cases hy : y = h
          · simp only [hy, if_true]
            have : ((lowerBound xs h : Nat) : Int) ≠ -1 := by omega
            simp only [this, if_false]
            push_cast
            rfl
          · simp [hy]
      constructor
      · intro hm
        have hm' : h ∈ xs := by
          rcases List.mem_cons.mp hm with rfl | h'
          · exact absurd hlt (lt_irrefl _)
          · exact h'
        obtain ⟨i, hi1, hi2⟩ := ih1 hm'
        refine ⟨i + 1, ?_, by simpa using hi2⟩
        rw [hf, hi1]
        have : ((i : Nat) : Int) ≠ -1 := by omega
        simp only [this, if_false]
        push_cast
        rfl
      · intro hm
        have hm' : h ∉ xs := fun h' => hm (List.mem_cons_of_mem _ h')
        rw [hf, ih2 hm']
        simp
    · have hlb : lowerBound (x :: xs) h = 0 := by simp [lowerBound, hlt]
      constructor
      · intro hm
        have hx : x = h := by
          rcases List.mem_cons.mp hm with rfl | h'
          · rfl
          · exact absurd (hsorted.1 h h') (by omega)
        refine ⟨0, ?_, by simp [hx]⟩
        unfold find
        rw [hlb]
        simp [hx]
      · intro hm
        have hx : x ≠ h := fun e => hm (by simp [e])
        unfold find
        rw [hlb]
        simp [hx]

/-- a present sample is classified (class index `≥ 0`, pointing at its own hash); a sample whose hash is not the hash of a present
    sample — for sclass: every missing sample — gets class −1 and weight 0 -/
theorem sample_classified (ss : List (Bool × Nat)) (s : Bool × Nat) (hs : s ∈ ss) :
    (s.1 = true → ∃ i : Nat, find (makeHashes ss) s.2 = (i : Int) ∧ (makeHashes ss)[i]? = some s.2) ∧
    ((∀ t ∈ ss, t.1 = true → t.2 ≠ s.2) → find (makeHashes ss) s.2 = -1) := by
  obtain ⟨h1, h2⟩ := find_spec (makeHashes ss) (makeHashes_sorted ss) s.2
  constructor
  · intro hp
    exact h1 ((mem_makeHashes ss s.2).mpr ⟨s, hs, hp, rfl⟩)
  · intro hno
    apply h2
    intro hm
    obtain ⟨t, ht, htp, hte⟩ := (mem_makeHashes ss s.2).mp hm
    exact hno t ht htp hte

/-! ### closed form of the class counts (`::update(xclass_stats_t&)` loop) -/
theorem incAt_length (cs : List Nat) (i : Nat) : (incAt cs i).length = cs.length := by
  induction cs generalizing i with
  | nil => rfl
  | cons c cs ih => cases i with
    | zero => rfl
    | succ i => simp [incAt, ih]

theorem incAt_getD (cs : List Nat) (i k : Nat) :
    (incAt cs i).getD k 0 = cs.getD k 0 + (if k = i ∧ i < cs.length then 1 else 0) := by
  induction cs generalizing i k with
  | nil => simp [incAt]
  | cons c cs ih =>
    cases i with
    | zero => cases k with
      | zero => simp [incAt]
      | succ k => simp [incAt]
    | succ i => cases k with
      | zero => simp [incAt]
      | succ k =>
        have := ih i k
        simp only [List.getD_eq_getElem?_getD] at this
        simp [incAt, this]

theorem classFold_length (classes : List Int) (cs : List Nat) :
    (classes.foldl (fun cs c => if c ≥ 0 then incAt cs c.toNat else cs) cs).length = cs.length := by
  induction classes generalizing cs with
  | nil => rfl
  | cons c classes ih =>
    simp only [List.foldl_cons]
    rw [ih]
    split
    · exact incAt_length _ _
    · rfl

theorem classFold_getD (classes : List Int) (cs : List Nat) (k : Nat) (hk : k < cs.length) :
    (classes.foldl (fun cs c => if c ≥ 0 then incAt cs c.toNat else cs) cs).getD k 0 =
      cs.getD k 0 + classes.countP (fun c => c = (k : Int)) := by
  induction classes generalizing cs with
  | nil => simp
  | cons c classes ih =>
    simp only [List.foldl_cons]
    by_cases hc : c ≥ 0
    · rw [if_pos hc, ih _ (by rw [incAt_length]; exact hk), incAt_getD, List.countP_cons]
      by_cases hck : c = (k : Int)
      · subst hck
        simp [hk]
        omega
      · have : ¬ (k = c.toNat ∧ c.toNat < cs.length) := by
          rintro ⟨h1, _⟩
          apply hck
          omega
        simp [this, hck]
    · rw [if_neg hc, ih _ hk, List.countP_cons]
      have : c ≠ (k : Int) := by omega
      simp [this]

/-- `m_class_samples` has one entry per class and entry `k` is the number of samples whose class index is `k` -/
theorem classCounts_spec (n : Nat) (classes : List Int) :
    (classCounts n classes).length = n ∧
    ∀ k, k < n → (classCounts n classes).getD k 0 = classes.countP (fun c => c = (k : Int)) := by
  unfold classCounts
  refine ⟨by rw [classFold_length]; simp, fun k hk => ?_⟩
  rw [classFold_getD _ _ _ (by simpa using hk)]
  simp [hk]

/-- every class of `make_xclass_stats` has at least one sample: the hypothesis `hpos` of `class_weights_pos` holds for what the
    code computes (class `k`'s hash comes from a present sample, which `find` maps back to position `k`: the hashes are distinct) -/
theorem xclass_counts_pos (ss : List (Bool × Nat)) (k : Nat) (hk : k < (makeHashes ss).length) :
    1 ≤ (classCounts (makeHashes ss).length (sampleClasses (makeHashes ss) ss)).getD k 0 := by
  rw [(classCounts_spec _ _).2 k hk]
  have hmem : (makeHashes ss)[k] ∈ makeHashes ss := List.getElem_mem hk
  obtain ⟨s, hs, hp, he⟩ := (mem_makeHashes ss _).mp hmem
  obtain ⟨i, hfi, hgi⟩ := (sample_classified ss s hs).1 hp
  have hnd : (makeHashes ss).Nodup := (makeHashes_sorted ss).imp (fun h => Nat.ne_of_lt h)
  have hik : i = k := by
    have hi : i < (makeHashes ss).length := by
      rcases List.getElem?_eq_some_iff.mp hgi with ⟨h, _⟩; exact h
    have h1 : (makeHashes ss)[i] = s.2 := by
      rcases List.getElem?_eq_some_iff.mp hgi with ⟨_, h⟩; exact h
    exact (List.getElem_inj hnd).mp (h1.trans he)
  subst hik
  apply List.countP_pos_iff.mpr
  refine ⟨find (makeHashes ss) s.2, ?_, by simpa using hfi⟩
  unfold sampleClasses
  exact List.mem_map.mpr ⟨s, hs, rfl⟩

end NanoVerif.Scaling
