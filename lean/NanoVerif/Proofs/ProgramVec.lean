import NanoVerif.Model.Program
import Mathlib.Algebra.Order.Field.Basic
import Mathlib.Tactic.Ring
import Mathlib.Tactic.Linarith
import Mathlib.Tactic.Positivity
/-!
  C04 — list-vector algebra for `Model/Program.lean` over an arbitrary linear ordered field (exact arithmetic):
  bilinearity of `dot`, linearity of `mv`, the adjoint identity `(Aᵀu)·d = u·(A d)`, Cauchy–Schwarz and Hölder on lists.
-/
set_option linter.unusedSectionVars false
set_option linter.unusedVariables false

namespace NanoVerif.Program
variable {α : Type} [Field α] [LinearOrder α] [IsStrictOrderedRing α]

/-! ### `std::max` / `std::min` -/

theorem cmax_eq_max (a b : α) : cmax a b = max a b := by
  unfold cmax
  split
  · rename_i h; exact (max_eq_right (le_of_lt h)).symm
  · rename_i h; exact (max_eq_left (not_lt.mp h)).symm

theorem cmin_eq_min (a b : α) : cmin a b = min a b := by
  unfold cmin
  split
  · rename_i h; exact (min_eq_right (le_of_lt h)).symm
  · rename_i h; exact (min_eq_left (not_lt.mp h)).symm

theorem cmax3_lt_iff (a b c e : α) : cmax3 a b c < e ↔ a < e ∧ b < e ∧ c < e := by
  unfold cmax3
  rw [cmax_eq_max, cmax_eq_max, max_lt_iff, max_lt_iff, and_assoc]

theorem le_cmax3_first (a b c : α) : a ≤ cmax3 a b c := by
  unfold cmax3
  rw [cmax_eq_max, cmax_eq_max]
  exact le_trans (le_max_left _ _) (le_max_left _ _)

/-! ### lengths -/

@[simp] theorem vadd_length (x y : List α) : (vadd x y).length = min x.length y.length := by simp [vadd]
@[simp] theorem vsub_length (x y : List α) : (vsub x y).length = min x.length y.length := by simp [vsub]
@[simp] theorem smul_length (s : α) (x : List α) : (smul s x).length = x.length := by simp [smul]
@[simp] theorem vdivs_length (x : List α) (d : α) : (vdivs x d).length = x.length := by simp [vdivs]
@[simp] theorem mv_length (A : List (List α)) (x : List α) : (mv A x).length = A.length := by simp [mv]
@[simp] theorem zeros_length (n : Nat) : (zeros n : List α).length = n := by simp [zeros]

theorem move_length (x d : List α) (s : α) (h : x.length = d.length) : (move x s d).length = x.length := by
  simp [move, h]

theorem axpy_length (c : α) : ∀ (x y : List α), x.length = y.length → (axpy c x y).length = y.length
  | [], [], _ => rfl
  | _ :: xs, _ :: ys, h => by simp [axpy, axpy_length c xs ys (by simpa using h)]
  | [], _ :: _, h => by simp at h
  | _ :: _, [], h => by simp at h

theorem tmv_length (n : Nat) : ∀ (A : List (List α)) (u : List α), (∀ r ∈ A, r.length = n) → (tmv n A u).length = n
  | [], _, _ => by simp [tmv]
  | _ :: _, [], _ => by simp [tmv]
  | r :: A, u :: us, h => by
    have ih := tmv_length n A us (fun r' hr => h r' (by simp [hr]))
    simp only [tmv]
    rw [axpy_length u r _ (by rw [h r (by simp), ih]), ih]

/-! ### `dot` -/

@[simp] theorem dot_nil_left (x : List α) : dot ([] : List α) x = 0 := by simp [dot]
@[simp] theorem dot_nil_right (x : List α) : dot x ([] : List α) = 0 := by cases x <;> simp [dot]
@[simp] theorem dot_cons (a b : α) (x y : List α) : dot (a :: x) (b :: y) = a * b + dot x y := by simp [dot]

theorem dot_comm : ∀ (x y : List α), dot x y = dot y x
  | [], y => by simp
  | _ :: _, [] => by simp
  | a :: x, b :: y => by simp [dot_comm x y, mul_comm]

theorem dot_zeros (n : Nat) : ∀ (d : List α), dot (zeros n : List α) d = 0 := by
  induction n with
  | zero => intro d; simp [zeros]
  | succ n ih =>
    intro d
    cases d with
    | nil => simp
    | cons a d =>
      have := ih d
      simp only [zeros] at this ⊢
      simp [List.replicate, this]

theorem dot_vdivs_left (d : α) : ∀ (r x : List α), dot (vdivs r d) x = dot r x / d
  | [], x => by simp [vdivs]
  | _ :: _, [] => by simp [vdivs]
  | a :: r, b :: x => by
    have ih := dot_vdivs_left d r x
    simp only [vdivs, List.map_cons, dot_cons] at ih ⊢
    rw [ih]; ring

theorem dot_vdivs_right (d : α) (x r : List α) : dot x (vdivs r d) = dot x r / d := by
  rw [dot_comm, dot_vdivs_left, dot_comm]

theorem dot_smul_left (s : α) : ∀ (r x : List α), dot (smul s r) x = s * dot r x
  | [], x => by simp [smul]
  | _ :: _, [] => by simp [smul]
  | a :: r, b :: x => by
    have ih := dot_smul_left s r x
    simp only [smul, List.map_cons, dot_cons] at ih ⊢
    rw [ih]; ring

theorem dot_smul_right (s : α) (x r : List α) : dot x (smul s r) = s * dot x r := by
  rw [dot_comm, dot_smul_left, dot_comm]

theorem dot_vadd_left : ∀ (a b c : List α), a.length = b.length → dot (vadd a b) c = dot a c + dot b c
  | [], [], c, _ => by simp [vadd]
  | [], _ :: _, _, h => by simp at h
  | _ :: _, [], _, h => by simp at h
  | _ :: _, _ :: _, [], _ => by simp [vadd]
  | x :: a, y :: b, z :: c, h => by
    have ih := dot_vadd_left a b c (by simpa using h)
    simp only [vadd, List.zipWith_cons_cons, dot_cons] at ih ⊢
    rw [ih]; ring

theorem dot_vadd_right (c a b : List α) (h : a.length = b.length) : dot c (vadd a b) = dot c a + dot c b := by
  rw [dot_comm, dot_vadd_left a b c h, dot_comm a, dot_comm b]

theorem dot_vsub_left : ∀ (a b c : List α), a.length = b.length → dot (vsub a b) c = dot a c - dot b c
  | [], [], c, _ => by simp [vsub]
  | [], _ :: _, _, h => by simp at h
  | _ :: _, [], _, h => by simp at h
  | _ :: _, _ :: _, [], _ => by simp [vsub]
  | x :: a, y :: b, z :: c, h => by
    have ih := dot_vsub_left a b c (by simpa using h)
    simp only [vsub, List.zipWith_cons_cons, dot_cons] at ih ⊢
    rw [ih]; ring

theorem dot_vsub_right (c a b : List α) (h : a.length = b.length) : dot c (vsub a b) = dot c a - dot c b := by
  rw [dot_comm, dot_vsub_left a b c h, dot_comm a, dot_comm b]

theorem dot_move (r x d : List α) (s : α) (h : x.length = d.length) :
    dot r (move x s d) = dot r x + s * dot r d := by
  unfold move
  rw [dot_vadd_right r x (smul s d) (by simp [h]), dot_smul_right]

theorem dot_axpy_left (c : α) : ∀ (x y r : List α), x.length = y.length → y.length = r.length →
    dot (axpy c x y) r = c * dot x r + dot y r
  | [], [], [], _, _ => by simp [axpy]
  | b :: x, d :: y, a :: r, h1, h2 => by
    simp only [axpy, dot_cons]
    rw [dot_axpy_left c x y r (by simpa using h1) (by simpa using h2)]; ring
  | [], _ :: _, _, h, _ => by simp at h
  | _ :: _, [], _, h, _ => by simp at h
  | _, [], _ :: _, _, h => by simp at h
  | _, _ :: _, [], _, h => by simp at h

/-! ### `mv`, `tmv` -/

theorem mv_vsub (A : List (List α)) (x y : List α) (h : x.length = y.length) :
    mv A (vsub x y) = vsub (mv A x) (mv A y) := by
  induction A with
  | nil => simp [mv, vsub]
  | cons r A ih =>
    simp only [mv, List.map_cons, vsub, List.zipWith_cons_cons] at ih ⊢
    rw [ih]
    congr 1
    exact dot_vsub_right r x y h

theorem mv_rows_vdivs (d : α) (A : List (List α)) (x : List α) :
    mv (A.map (fun r => vdivs r d)) x = vdivs (mv A x) d := by
  induction A with
  | nil => simp [mv, vdivs]
  | cons r A ih =>
    simp only [mv, vdivs, List.map_cons, List.map_map] at ih ⊢
    rw [ih]
    congr 1
    exact dot_vdivs_left d r x

/-- adjoint identity: `(Aᵀu)·d = u·(A d)` -/
theorem tmv_adjoint (n : Nat) : ∀ (A : List (List α)) (u d : List α), (∀ r ∈ A, r.length = n) → d.length = n →
    A.length = u.length → dot (tmv n A u) d = dot u (mv A d)
  | [], [], d, _, _, _ => by simp [tmv, mv, dot_zeros]
  | r :: A, u :: us, d, h, hd, hl => by
    have hr : r.length = n := h r (by simp)
    have hA : ∀ r' ∈ A, r'.length = n := fun r' hr' => h r' (by simp [hr'])
    have ih := tmv_adjoint n A us d hA hd (by simpa using hl)
    simp only [tmv, mv, List.map_cons, dot_cons] at ih ⊢
    rw [dot_axpy_left u r _ d (by rw [hr, tmv_length n A us hA]) (by rw [tmv_length n A us hA, hd]), ih]
  | [], _ :: _, _, _, _, hl => by simp at hl
  | _ :: _, [], _, _, _, hl => by simp at hl

theorem vadd_zeros (n : Nat) : ∀ (x : List α), x.length = n → vadd x (zeros n) = x := by
  induction n with
  | zero => intro x h; simp [List.length_eq_zero_iff.mp h, vadd, zeros]
  | succ n ih =>
    intro x h
    cases x with
    | nil => simp at h
    | cons a x =>
      have := ih x (by simpa using h)
      simp only [vadd, zeros, List.replicate_succ, List.zipWith_cons_cons] at this ⊢
      rw [this]; simp

/-! ### sums of squares, Cauchy–Schwarz, Hölder -/

theorem sumsq_nonneg : ∀ (x : List α), 0 ≤ sumsq x
  | [] => by simp [sumsq]
  | a :: x => by
    have ih := sumsq_nonneg x
    simp only [sumsq, dot_cons] at ih ⊢
    nlinarith [mul_self_nonneg a]

theorem sq_le_sumsq : ∀ (x : List α) (a : α), a ∈ x → a * a ≤ sumsq x
  | [], _, h => by simp at h
  | b :: x, a, h => by
    have hx := sumsq_nonneg x
    simp only [sumsq, dot_cons] at hx ⊢
    rcases List.mem_cons.mp h with rfl | h'
    · linarith
    · have := sq_le_sumsq x a h'
      simp only [sumsq] at this
      nlinarith [mul_self_nonneg b]

/-- Cauchy–Schwarz on lists (squared form) -/
theorem dot_sq_le : ∀ (a b : List α), dot a b * dot a b ≤ sumsq a * sumsq b
  | [], b => by simp [sumsq]
  | _ :: _, [] => by simp [sumsq]
  | x :: a, y :: b => by
    have ih := dot_sq_le a b
    have ha := sumsq_nonneg a
    have hb := sumsq_nonneg b
    simp only [sumsq, dot_cons] at ih ha hb ⊢
    -- (xy + S)² ≤ (x² + A)(y² + B) with S² ≤ AB
    have key : 2 * (x * y) * dot a b ≤ x * x * dot b b + y * y * dot a a := by
      by_contra hc
      rw [not_le] at hc
      have h1 : 0 ≤ x * x * dot b b + y * y * dot a a := by
        have := mul_nonneg (mul_self_nonneg x) hb
        have := mul_nonneg (mul_self_nonneg y) ha
        linarith
      have h2 : (x * x * dot b b + y * y * dot a a) ^ 2 < (2 * (x * y) * dot a b) ^ 2 := by
        apply pow_lt_pow_left₀ hc h1 (by norm_num)
      have h3 : (2 * (x * y) * dot a b) ^ 2 ≤ 4 * (x * x) * (y * y) * (dot a a * dot b b) := by
        have : (2 * (x * y) * dot a b) ^ 2 = 4 * (x * x) * (y * y) * (dot a b * dot a b) := by ring
        rw [this]
        apply mul_le_mul_of_nonneg_left ih
        have := mul_nonneg (mul_self_nonneg x) (mul_self_nonneg y)
        nlinarith
      nlinarith [sq_nonneg (x * x * dot b b - y * y * dot a a)]
    nlinarith [key]

/-- `‖v‖₁` -/
def norm1 : List α → α
  | [] => 0
  | a :: x => |a| + norm1 x

theorem norm1_nonneg : ∀ (x : List α), 0 ≤ norm1 x
  | [] => le_refl _
  | a :: x => by
    have := norm1_nonneg x
    simp only [norm1]
    positivity

/-- Hölder 1/∞ on lists -/
theorem abs_dot_le_norm1 (M : α) (hM : 0 ≤ M) : ∀ (v r : List α), (∀ a ∈ r, |a| ≤ M) → |dot v r| ≤ norm1 v * M
  | [], r, _ => by simp [norm1]
  | a :: v, [], _ => by
    have := norm1_nonneg (a :: v)
    simp only [dot_nil_right, abs_zero]
    positivity
  | a :: v, b :: r, h => by
    have ih := abs_dot_le_norm1 M hM v r (fun c hc => h c (by simp [hc]))
    have hb : |b| ≤ M := h b (by simp)
    simp only [dot_cons, norm1]
    calc |a * b + dot v r| ≤ |a * b| + |dot v r| := abs_add_le _ _
      _ = |a| * |b| + |dot v r| := by rw [abs_mul]
      _ ≤ |a| * M + norm1 v * M := by
        have := mul_le_mul_of_nonneg_left hb (abs_nonneg a)
        linarith
      _ = (|a| + norm1 v) * M := by ring

end NanoVerif.Program
