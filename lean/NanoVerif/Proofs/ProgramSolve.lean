import NanoVerif.Proofs.ProgramNewton
import NanoVerif.Model.ProgramSolve
/-!
  C04 — the whole loop of `solve_with_inequality` (`Model/ProgramSolve.lean`) over an arbitrary linear ordered field:
  the complete case split of the loop body, the status each exit reports, what the returned state holds at every exit,
  for every answer of the Newton oracle and every number of iterations.
-/
set_option linter.unusedSectionVars false
set_option linter.unusedVariables false

namespace NanoVerif.Program
variable {α : Type} [Field α] [LinearOrder α] [IsStrictOrderedRing α]

/-! ### the status decision of `solver_t::done` (generated definition) -/

theorem doneStatus_cases (feas : Bool) (eta rd rp eps : α) :
    (doneStatus feas eta rd rp eps = .converged ↔ feas = true ∧ cmax3 eta rd rp < eps) ∧
    (doneStatus feas eta rd rp eps = .unbounded ↔ feas = true ∧ ¬ cmax3 eta rd rp < eps) ∧
    (doneStatus feas eta rd rp eps = .unfeasible ↔ feas = false) ∧
    doneStatus feas eta rd rp eps ≠ .failed ∧ doneStatus feas eta rd rp eps ≠ .maxIters := by
  unfold doneStatus
  cases feas <;> by_cases h : cmax3 eta rd rp < eps <;> simp [h]

/-! ### the loop body: complete case split -/

/-- the finiteness test of solver.cpp:365 on the state after the step -/
def finAfter [Sqrt α] [FinTest α] (st2 : St α) : Bool :=
  FinTest.isFin st2.eta && FinTest.isFin (norm2 st2.rdual) && FinTest.isFin (norm2 st2.rprim)

/-- the `epsilon0` test of solver.cpp:372 -/
def noProgressTest [Sqrt α] (par : Params α) (st st2 : St α) : Prop :=
  cmax3 (st.eta - st2.eta) (norm2 st.rdual - norm2 st2.rdual) (norm2 st.rprim - norm2 st2.rprim) < par.epsilon0

/-- One pass through the loop body takes exactly one of six exits; the exit fixes the outcome. -/
theorem iterate_cases [Sqrt α] [FinTest α] (P : Prog α) (mufx : α) (par : Params α) (x u v : List α) (st : St α)
    (ok : Bool) (dx du dv : List α) :
    (ok = false ∧ exitKind P mufx par x u v st ok dx du dv = .unstable ∧
      iterate P mufx par x u v st ok dx du dv = .stop (done P par x st) x u v st) ∨
    (ok = true ∧ stage1 P par.beta x dx par.maxLs (par.s0 * makeSmax par.big u du) = none ∧
      exitKind P mufx par x u v st ok dx du dv = .stage1Failed ∧
      iterate P mufx par x u v st ok dx du dv = .stop (done P par x st) x u v st) ∨
    (∃ s1 stT, ok = true ∧ stage1 P par.beta x dx par.maxLs (par.s0 * makeSmax par.big u du) = some s1 ∧
      stage2 P mufx par.miu par.alpha par.beta x u v dx du dv (residual st) par.maxLs s1 st = (none, stT) ∧
      exitKind P mufx par x u v st ok dx du dv = .stage2Failed ∧
      iterate P mufx par x u v st ok dx du dv =
        .stop (done P par x (update P mufx par.miu x u v stT)) x u v (update P mufx par.miu x u v stT)) ∨
    (∃ s1 s2 st2, ok = true ∧ stage1 P par.beta x dx par.maxLs (par.s0 * makeSmax par.big u du) = some s1 ∧
      stage2 P mufx par.miu par.alpha par.beta x u v dx du dv (residual st) par.maxLs s1 st = (some s2, st2) ∧
      ((finAfter st2 = false ∧ exitKind P mufx par x u v st ok dx du dv = .nonFinite ∧
          iterate P mufx par x u v st ok dx du dv = .stop .failed (move x s2 dx) (move u s2 du) (move v s2 dv) st2) ∨
       (finAfter st2 = true ∧ noProgressTest par st st2 ∧ exitKind P mufx par x u v st ok dx du dv = .noProgress ∧
          iterate P mufx par x u v st ok dx du dv =
            .stop (done P par (move x s2 dx) st2) (move x s2 dx) (move u s2 du) (move v s2 dv) st2) ∨
       (finAfter st2 = true ∧ ¬ noProgressTest par st st2 ∧ exitKind P mufx par x u v st ok dx du dv = .continues ∧
          iterate P mufx par x u v st ok dx du dv = .next (move x s2 dx) (move u s2 du) (move v s2 dv) st2))) := by
  cases ok
  · left; simp [exitKind, iterate]
  · right
    cases h1 : stage1 P par.beta x dx par.maxLs (par.s0 * makeSmax par.big u du) with
    | none => left; simp [exitKind, iterate, h1]
    | some s1 =>
      right
      cases h2 : stage2 P mufx par.miu par.alpha par.beta x u v dx du dv (residual st) par.maxLs s1 st with
      | mk o stT =>
        cases o with
        | none => left; exact ⟨s1, stT, rfl, rfl, h2, by simp [exitKind, h1, h2], by simp [iterate, h1, h2, stage2Fail]⟩
        | some s2 =>
          right
          refine ⟨s1, s2, stT, rfl, rfl, h2, ?_⟩
          by_cases hf : finAfter stT = true
          · right
            by_cases hp : noProgressTest par st stT
            · left
              unfold finAfter at hf
              unfold noProgressTest at hp
              exact ⟨by simpa [finAfter] using hf, by simpa [noProgressTest] using hp,
                by simp [exitKind, h1, h2, hf, hp], by simp [iterate, h1, h2, hf, hp]⟩
            · right
              unfold finAfter at hf
              unfold noProgressTest at hp
              exact ⟨by simpa [finAfter] using hf, by simpa [noProgressTest] using hp,
                by simp [exitKind, h1, h2, hf, hp], by simp [iterate, h1, h2, hf, hp]⟩
          · left
            have hf' : finAfter stT = false := by simpa using hf
            unfold finAfter at hf'
            exact ⟨by simpa [finAfter] using hf', by simp [exitKind, h1, h2, hf'], by simp [iterate, h1, h2, hf']⟩

/-- The status of every exit: `failed` exactly at the non-finite exit; at the four exits through `solver_t::done`
    (unstable system, stage 1 failed, stage 2 failed, no further progress) the status is the `done` decision on the
    RETURNED point and state; the loop never reports `max_iters` from inside. -/
theorem iterate_stop_status [Sqrt α] [FinTest α] (P : Prog α) (mufx : α) (par : Params α) (x u v : List α) (st : St α)
    (ok : Bool) (dx du dv : List α) (status : Status) (x' u' v' : List α) (st' : St α)
    (h : iterate P mufx par x u v st ok dx du dv = .stop status x' u' v' st') :
    exitKind P mufx par x u v st ok dx du dv ≠ .continues ∧
    (exitKind P mufx par x u v st ok dx du dv = .nonFinite → status = .failed) ∧
    (exitKind P mufx par x u v st ok dx du dv ≠ .nonFinite → status = done P par x' st') := by
  rcases iterate_cases P mufx par x u v st ok dx du dv with ⟨_, hk, hi⟩ | ⟨_, _, hk, hi⟩ | ⟨s1, stT, _, _, _, hk, hi⟩ |
    ⟨s1, s2, st2, _, _, _, ⟨_, hk, hi⟩ | ⟨_, _, hk, hi⟩ | ⟨_, _, hk, hi⟩⟩
  all_goals rw [hi] at h
  all_goals first
    | (simp only [Outcome.stop.injEq] at h
       obtain ⟨rfl, rfl, rfl, rfl, rfl⟩ := h
       rw [hk]
       simp)
    | cases h

/-- `converged` out of the loop body, as an equivalence -/
theorem iterate_converged_iff [Sqrt α] [FinTest α] (P : Prog α) (mufx : α) (par : Params α) (x u v : List α) (st : St α)
    (ok : Bool) (dx du dv : List α) (status : Status) (x' u' v' : List α) (st' : St α)
    (h : iterate P mufx par x u v st ok dx du dv = .stop status x' u' v' st') :
    (status = .converged ↔ exitKind P mufx par x u v st ok dx du dv ≠ .nonFinite ∧ feasible P par.eps2 x' = true ∧
        st'.eta < par.epsilon ∧ norm2 st'.rdual < par.epsilon ∧ norm2 st'.rprim < par.epsilon) ∧
    (status = .unbounded ↔ exitKind P mufx par x u v st ok dx du dv ≠ .nonFinite ∧ feasible P par.eps2 x' = true ∧
        ¬ (st'.eta < par.epsilon ∧ norm2 st'.rdual < par.epsilon ∧ norm2 st'.rprim < par.epsilon)) ∧
    (status = .unfeasible ↔ exitKind P mufx par x u v st ok dx du dv ≠ .nonFinite ∧ feasible P par.eps2 x' = false) ∧
    (status = .failed ↔ exitKind P mufx par x u v st ok dx du dv = .nonFinite) ∧ status ≠ .maxIters := by
  obtain ⟨_, hf, hd⟩ := iterate_stop_status P mufx par x u v st ok dx du dv status x' u' v' st' h
  obtain ⟨c1, c2, c3, c4, c5⟩ := doneStatus_cases (feasible P par.eps2 x') st'.eta (norm2 st'.rdual) (norm2 st'.rprim)
    par.epsilon
  by_cases hk : exitKind P mufx par x u v st ok dx du dv = .nonFinite
  · have := hf hk
    subst this
    simp [hk]
  · have hs := hd hk
    unfold done at hs
    rw [cmax3_lt_iff] at c1 c2
    refine ⟨?_, ?_, ?_, ?_, ?_⟩
    · rw [hs, c1]; simp [hk]
    · rw [hs, c2]; simp [hk]
    · rw [hs, c3]; simp [hk]
    · rw [hs]; simp [hk, c4]
    · rw [hs]; exact c5

/-! ### the invariant of the loop -/

/-- what holds of `(x, u, v, state)` at the top of every iteration and at every exit: shapes, `G x < h`, `u > 0`, and
    `fx, eta, rdual, rprim, rcent` are those `program_t::update` computes AT `(x, u, v)` -/
def Inv (P : Prog α) (mufx miu : α) (x u v : List α) (st : St α) : Prop :=
  x.length = P.n ∧ u.length = P.G.length ∧ v.length = P.A.length ∧ (∀ a ∈ slack P x, a < 0) ∧ (∀ a ∈ u, 0 < a) ∧
    ∃ stq, st = update P mufx miu x u v stq

/-- the parameter domains `solver_t` registers and the constants of the code, as far as the invariant needs them -/
structure ParOk (par : Params α) : Prop where
  big : 0 < par.big
  s0pos : 0 < par.s0
  s0lt : par.s0 < 1
  beta0 : 0 ≤ par.beta
  beta1 : par.beta ≤ 1

/-- a step `0 ≤ s ≤ s0 · make_smax(u, du)` keeps the multipliers positive -/
theorem step_u_pos (big s0 s : α) (u du : List α) (hu : ∀ a ∈ u, 0 < a)
    (hs0 : 0 < s0) (hs01 : s0 < 1) (hs : 0 ≤ s) (hle : s ≤ s0 * makeSmax big u du) :
    ∀ a ∈ move u s du, 0 < a := by
  apply move_pos u du s hs hu
  intro p hp hlt
  have hpos : 0 < p.1 := hu p.1 (List.of_mem_zip (a := p.1) (b := p.2) hp).1
  have h1 := makeSmax_le big u du p hp hlt
  have hneg : 0 < -p.2 := by linarith
  have h2 : makeSmax big u du * (-p.2) ≤ p.1 := by
    have := mul_le_mul_of_nonneg_right h1 (le_of_lt hneg)
    have e : -p.1 / p.2 * (-p.2) = p.1 := by
      have : p.2 ≠ 0 := ne_of_lt hlt
      field_simp
    linarith
  have h3 : s * (-p.2) ≤ s0 * makeSmax big u du * (-p.2) := mul_le_mul_of_nonneg_right hle (le_of_lt hneg)
  have h4 : s0 * (makeSmax big u du * (-p.2)) ≤ s0 * p.1 := mul_le_mul_of_nonneg_left h2 (le_of_lt hs0)
  have h5 : s0 * p.1 < p.1 := by nlinarith
  have h6 : s0 * makeSmax big u du * (-p.2) = s0 * (makeSmax big u du * (-p.2)) := by ring
  linarith

/-- an accepted step leads to a point where the invariant holds again -/
theorem moved_inv [Sqrt α] (P : Prog α) (mufx : α) (par : Params α) (pok : ParOk par) (x u v dx du dv : List α) (st st2 : St α)
    (s1 s2 : α) (hinv : Inv P mufx par.miu x u v st)
    (hdx : dx.length = P.n) (hdu : du.length = P.G.length) (hdv : dv.length = P.A.length)
    (h1 : stage1 P par.beta x dx par.maxLs (par.s0 * makeSmax par.big u du) = some s1)
    (h2 : stage2 P mufx par.miu par.alpha par.beta x u v dx du dv (residual st) par.maxLs s1 st = (some s2, st2)) :
    Inv P mufx par.miu (move x s2 dx) (move u s2 du) (move v s2 dv) st2 := by
  obtain ⟨hx, hu, hv, hint, hupos, _⟩ := hinv
  have hsm : 0 < makeSmax par.big u du := makeSmax_pos par.big pok.big u du hupos
  have hinit : 0 ≤ par.s0 * makeSmax par.big u du := le_of_lt (mul_pos pok.s0pos hsm)
  obtain ⟨g1, g2, g3⟩ := stage1_spec P par.beta pok.beta0 pok.beta1 x dx par.maxLs _ s1 hinit h1
  obtain ⟨k1, k2, k3, _⟩ := stage2_spec P mufx par.miu par.alpha par.beta pok.beta0 pok.beta1 x u v dx du dv _ par.maxLs
    s1 s2 st st2 g2 h2
  refine ⟨?_, ?_, ?_, ?_, ?_, k3⟩
  · rw [move_length x dx s2 (by rw [hx, hdx]), hx]
  · rw [move_length u du s2 (by rw [hu, hdu]), hu]
  · rw [move_length v dv s2 (by rw [hv, hdv]), hv]
  · exact slack_interp P.G P.h x dx s1 s2 (by rw [hx, hdx]) hint ((maxLt_iff _ _).1 g1) k1 k2
  · exact step_u_pos par.big par.s0 s2 u du hupos pok.s0pos pok.s0lt k1 (le_trans k2 g3)

/-- whatever the loop body does, the point and state it leaves satisfy the invariant -/
theorem iterate_inv [Sqrt α] [FinTest α] (P : Prog α) (mufx : α) (par : Params α) (pok : ParOk par) (x u v : List α)
    (st : St α) (ok : Bool) (dx du dv : List α) (hinv : Inv P mufx par.miu x u v st)
    (hdx : dx.length = P.n) (hdu : du.length = P.G.length) (hdv : dv.length = P.A.length) :
    (∀ x' u' v' st', iterate P mufx par x u v st ok dx du dv = .next x' u' v' st' → Inv P mufx par.miu x' u' v' st') ∧
    (∀ status x' u' v' st', iterate P mufx par x u v st ok dx du dv = .stop status x' u' v' st' →
      Inv P mufx par.miu x' u' v' st') := by
  have hinv' := hinv
  obtain ⟨hx, hu, hv, hint, hupos, hst⟩ := hinv'
  rcases iterate_cases P mufx par x u v st ok dx du dv with ⟨_, _, hi⟩ | ⟨_, _, _, hi⟩ | ⟨s1, stT, _, _, _, _, hi⟩ |
    ⟨s1, s2, st2, _, h1, h2, ⟨_, _, hi⟩ | ⟨_, _, _, hi⟩ | ⟨_, _, _, hi⟩⟩
  all_goals rw [hi]
  all_goals refine ⟨fun x' u' v' st' heq => ?_, fun status x' u' v' st' heq => ?_⟩
  all_goals cases heq
  all_goals first
    | exact hinv
    | exact ⟨hx, hu, hv, hint, hupos, ⟨_, rfl⟩⟩
    | exact moved_inv P mufx par pok x u v dx du dv st _ s1 s2 hinv hdx hdu hdv h1 h2

/-- the start establishes the invariant; `eta = m` there (`u = −1 / (G x0 − h)`) -/
theorem start_inv (P : Prog α) (mufx miu nan : α) (x0 u0 v0 : List α) (st0 : St α) (hx0 : x0.length = P.n)
    (hh : P.h.length = P.G.length) (h : start P mufx miu nan x0 = some (u0, v0, st0)) :
    Inv P mufx miu x0 u0 v0 st0 ∧ P.G ≠ [] := by
  unfold start at h
  split at h
  · cases h
  · rename_i mx hmx
    split at h
    · cases h
    · rename_i hlt
      simp only [Option.some.injEq, Prod.mk.injEq] at h
      obtain ⟨rfl, rfl, rfl⟩ := h
      have hneg : ∀ a ∈ slack P x0, a < 0 := by
        have : maxLt (slack P x0) 0 = true := by simp [maxLt, hmx, not_le.mp hlt]
        exact (maxLt_iff _ _).1 this
      have hG : P.G ≠ [] := by
        intro h0
        simp [slack, h0, mv, vsub, maxCoeff] at hmx
      refine ⟨⟨hx0, ?_, ?_, hneg, ?_, ⟨_, rfl⟩⟩, hG⟩
      · simp [slack_length P x0 hh]
      · simp [Prog.p]
      · intro a ha
        simp only [List.mem_map] at ha
        obtain ⟨g, hg, rfl⟩ := ha
        have := hneg g hg
        exact div_pos_of_neg_of_neg (by linarith) this

/-- `start` refuses exactly the points that are not strictly inside the inequalities (or a program without any) -/
theorem start_none_iff (P : Prog α) (mufx miu nan : α) (x0 : List α) :
    start P mufx miu nan x0 = none ↔ slack P x0 = [] ∨ ∃ a ∈ slack P x0, 0 ≤ a := by
  unfold start
  cases hs : slack P x0 with
  | nil => simp [maxCoeff]
  | cons g gs =>
    have hm : maxCoeff (g :: gs) = some (gs.foldl cmax g) := rfl
    simp only [hm]
    have key : (gs.foldl cmax g < 0) ↔ ∀ a ∈ g :: gs, a < 0 := by
      rw [foldl_cmax_lt]; simp
    by_cases hc : 0 ≤ gs.foldl cmax g
    · simp only [hc, if_true, true_iff]
      right
      by_contra hcon
      push Not at hcon
      have := key.2 hcon
      linarith
    · simp only [hc, if_false]
      constructor
      · intro h; cases h
      · rintro (h | ⟨a, ha, h0⟩)
        · cases h
        · have := key.1 (not_le.mp hc) a ha
          linarith

/-! ### runs of the loop -/

/-- `Reaches k (x,u,v,st) j (x',u',v',st')`: iterations `k … j−1` all took the `continues` exit and led from the first
    state to the second -/
inductive Reaches [Sqrt α] [FinTest α] (P : Prog α) (mufx : α) (par : Params α) (newton : Newton α) :
    Nat → List α → List α → List α → St α → Nat → List α → List α → List α → St α → Prop
  | refl (k : Nat) (x u v : List α) (st : St α) : Reaches P mufx par newton k x u v st k x u v st
  | head (k : Nat) (x u v : List α) (st : St α) (x1 u1 v1 : List α) (st1 : St α) (j : Nat) (x2 u2 v2 : List α) (st2 : St α) :
      iterate P mufx par x u v st (newton k x u v st).1 (newton k x u v st).2.1 (newton k x u v st).2.2.1
        (newton k x u v st).2.2.2 = .next x1 u1 v1 st1 →
      Reaches P mufx par newton (k + 1) x1 u1 v1 st1 j x2 u2 v2 st2 → Reaches P mufx par newton k x u v st j x2 u2 v2 st2

/-- the oracle answers with vectors of the sizes the code allocates (`dx ∈ ℝⁿ`, `du ∈ ℝᵐ`, `dv ∈ ℝᵖ`) -/
def NewtonShapes (P : Prog α) (newton : Newton α) : Prop :=
  ∀ k x u v st, (newton k x u v st).2.1.length = P.n ∧ (newton k x u v st).2.2.1.length = P.G.length ∧
    (newton k x u v st).2.2.2.length = P.A.length

theorem reaches_inv [Sqrt α] [FinTest α] (P : Prog α) (mufx : α) (par : Params α) (pok : ParOk par) (newton : Newton α)
    (hsh : NewtonShapes P newton) (k : Nat) (x u v : List α) (st : St α) (j : Nat) (x' u' v' : List α) (st' : St α)
    (hr : Reaches P mufx par newton k x u v st j x' u' v' st') (hinv : Inv P mufx par.miu x u v st) :
    Inv P mufx par.miu x' u' v' st' ∧ k ≤ j := by
  induction hr with
  | refl => exact ⟨hinv, le_refl _⟩
  | head k x u v st x1 u1 v1 st1 j x2 u2 v2 st2 hstep _ ih =>
    obtain ⟨s1, s2, s3⟩ := hsh k x u v st
    have := (iterate_inv P mufx par pok x u v st _ _ _ _ hinv s1 s2 s3).1 _ _ _ _ hstep
    obtain ⟨i1, i2⟩ := ih this
    exact ⟨i1, by omega⟩

/-- every run of the loop: either all `fuel` iterations continue (`max_iters`, `m_iters = max`), or some iteration `j`
    takes a stopping exit, whose status, point and state are returned with `m_iters = j` -/
theorem loop_spec [Sqrt α] [FinTest α] (P : Prog α) (mufx : α) (par : Params α) (newton : Newton α) :
    ∀ (fuel k : Nat) (x u v : List α) (st : St α) (kkt : α),
      ((loop P mufx par newton fuel k x u v st kkt).status = .maxIters ∧
        (loop P mufx par newton fuel k x u v st kkt).iters = k + fuel ∧
        Reaches P mufx par newton k x u v st (k + fuel) (loop P mufx par newton fuel k x u v st kkt).x
          (loop P mufx par newton fuel k x u v st kkt).u (loop P mufx par newton fuel k x u v st kkt).v
          (loop P mufx par newton fuel k x u v st kkt).st) ∨
      (∃ j xj uj vj stj, j < k + fuel ∧ Reaches P mufx par newton k x u v st j xj uj vj stj ∧
        (loop P mufx par newton fuel k x u v st kkt).iters = j ∧
        iterate P mufx par xj uj vj stj (newton j xj uj vj stj).1 (newton j xj uj vj stj).2.1 (newton j xj uj vj stj).2.2.1
          (newton j xj uj vj stj).2.2.2 =
          .stop (loop P mufx par newton fuel k x u v st kkt).status (loop P mufx par newton fuel k x u v st kkt).x
            (loop P mufx par newton fuel k x u v st kkt).u (loop P mufx par newton fuel k x u v st kkt).v
            (loop P mufx par newton fuel k x u v st kkt).st)
  | 0, k, x, u, v, st, kkt => by
    left
    exact ⟨rfl, rfl, Reaches.refl k x u v st⟩
  | fuel + 1, k, x, u, v, st, kkt => by
    cases hit : iterate P mufx par x u v st (newton k x u v st).1 (newton k x u v st).2.1 (newton k x u v st).2.2.1
        (newton k x u v st).2.2.2 with
    | next x1 u1 v1 st1 =>
      have e : loop P mufx par newton (fuel + 1) k x u v st kkt =
          loop P mufx par newton fuel (k + 1) x1 u1 v1 st1 (kktTest P false x1 u1 v1) := by
        simp only [loop, hit]
      rw [e]
      rcases loop_spec P mufx par newton fuel (k + 1) x1 u1 v1 st1 (kktTest P false x1 u1 v1) with ⟨a1, a2, a3⟩ |
        ⟨j, xj, uj, vj, stj, b1, b2, b3, b4⟩
      · left
        refine ⟨a1, by rw [a2]; omega, ?_⟩
        have : k + (fuel + 1) = k + 1 + fuel := by omega
        rw [this]
        exact Reaches.head k x u v st x1 u1 v1 st1 _ _ _ _ _ hit a3
      · right
        exact ⟨j, xj, uj, vj, stj, by omega, Reaches.head k x u v st x1 u1 v1 st1 _ _ _ _ _ hit b2, b3, b4⟩
    | stop status x1 u1 v1 st1 =>
      right
      refine ⟨k, x, u, v, st, by omega, Reaches.refl k x u v st, ?_, ?_⟩
      · simp only [loop, hit]
      · simp only [loop, hit]

/-! ### the whole `solve_with_inequality` -/

/-- a starting point that is not strictly inside the inequalities is answered with `unfeasible` at once: `m_iters = 0`,
    `m_x = x0` unchanged, no multipliers -/
theorem solveIneq_refused [Sqrt α] [FinTest α] (P : Prog α) (mufx : α) (par : Params α) (nan : α) (newton : Newton α)
    (x0 : List α) (h : start P mufx par.miu nan x0 = none) :
    (solveIneq P mufx par nan newton x0).status = .unfeasible ∧ (solveIneq P mufx par nan newton x0).iters = 0 ∧
      (solveIneq P mufx par nan newton x0).x = x0 := by
  simp [solveIneq, h]

/-- Every exit of `solve_with_inequality` after a strictly feasible start, with the status it reports and what the state
    holds: the returned `(x, u, v)` is strictly inside `G x < h` with `u > 0`, the returned `fx, eta, rdual, rprim, rcent`
    are those of the returned point, and
    * `max_iters` ⇔ `max_iters` iterations ran and each continued;
    * otherwise iteration `m_iters` took a stopping exit: `failed` at the non-finite one, the `done` decision
      (`converged / unbounded / unfeasible`, `iterate_converged_iff`) on the returned point and state at the other four. -/
theorem solveIneq_exits [Sqrt α] [FinTest α] (P : Prog α) (mufx : α) (par : Params α) (pok : ParOk par) (nan : α)
    (newton : Newton α) (hsh : NewtonShapes P newton) (x0 u0 v0 : List α) (st0 : St α) (hx0 : x0.length = P.n)
    (hh : P.h.length = P.G.length) (hs : start P mufx par.miu nan x0 = some (u0, v0, st0)) :
    Inv P mufx par.miu (solveIneq P mufx par nan newton x0).x (solveIneq P mufx par nan newton x0).u
        (solveIneq P mufx par nan newton x0).v (solveIneq P mufx par nan newton x0).st ∧
    (((solveIneq P mufx par nan newton x0).status = .maxIters ∧ (solveIneq P mufx par nan newton x0).iters = par.maxIters ∧
        Reaches P mufx par newton 0 x0 u0 v0 st0 par.maxIters (solveIneq P mufx par nan newton x0).x
          (solveIneq P mufx par nan newton x0).u (solveIneq P mufx par nan newton x0).v (solveIneq P mufx par nan newton x0).st) ∨
     (∃ j xj uj vj stj, j < par.maxIters ∧ Reaches P mufx par newton 0 x0 u0 v0 st0 j xj uj vj stj ∧
        Inv P mufx par.miu xj uj vj stj ∧ (solveIneq P mufx par nan newton x0).iters = j ∧
        iterate P mufx par xj uj vj stj (newton j xj uj vj stj).1 (newton j xj uj vj stj).2.1 (newton j xj uj vj stj).2.2.1
          (newton j xj uj vj stj).2.2.2 =
          .stop (solveIneq P mufx par nan newton x0).status (solveIneq P mufx par nan newton x0).x
            (solveIneq P mufx par nan newton x0).u (solveIneq P mufx par nan newton x0).v
            (solveIneq P mufx par nan newton x0).st)) := by
  have e : solveIneq P mufx par nan newton x0 = loop P mufx par newton par.maxIters 0 x0 u0 v0 st0 0 := by
    simp [solveIneq, hs]
  rw [e]
  have hinv0 := (start_inv P mufx par.miu nan x0 u0 v0 st0 hx0 hh hs).1
  rcases loop_spec P mufx par newton par.maxIters 0 x0 u0 v0 st0 0 with ⟨a1, a2, a3⟩ | ⟨j, xj, uj, vj, stj, b1, b2, b3, b4⟩
  · refine ⟨?_, Or.inl ⟨a1, by simpa using a2, by simpa using a3⟩⟩
    exact (reaches_inv P mufx par pok newton hsh 0 x0 u0 v0 st0 _ _ _ _ _ a3 hinv0).1
  · have hj := (reaches_inv P mufx par pok newton hsh 0 x0 u0 v0 st0 _ _ _ _ _ b2 hinv0).1
    obtain ⟨s1, s2, s3⟩ := hsh j xj uj vj stj
    refine ⟨?_, Or.inr ⟨j, xj, uj, vj, stj, by simpa using b1, b2, hj, b3, b4⟩⟩
    exact (iterate_inv P mufx par pok xj uj vj stj _ _ _ _ hj s1 s2 s3).2 _ _ _ _ _ b4

/-- `converged` from `solve_with_inequality` means: the returned point passes `program_t::feasible`, the returned
    `eta`, `‖rdual‖₂`, `‖rprim‖₂` are below `epsilon`, they are the residuals OF the returned `(x, u, v)`, `u > 0` and
    `G x < h` strictly — for every Newton oracle, every number of iterations, every exit. -/
theorem solveIneq_converged_sound [Sqrt α] [FinTest α] (P : Prog α) (mufx : α) (par : Params α) (pok : ParOk par) (nan : α)
    (newton : Newton α) (hsh : NewtonShapes P newton) (x0 : List α) (hx0 : x0.length = P.n)
    (hh : P.h.length = P.G.length) (hc : (solveIneq P mufx par nan newton x0).status = .converged) :
    Inv P mufx par.miu (solveIneq P mufx par nan newton x0).x (solveIneq P mufx par nan newton x0).u
        (solveIneq P mufx par nan newton x0).v (solveIneq P mufx par nan newton x0).st ∧ P.G ≠ [] ∧
    feasible P par.eps2 (solveIneq P mufx par nan newton x0).x = true ∧
    (solveIneq P mufx par nan newton x0).st.eta < par.epsilon ∧
    norm2 (solveIneq P mufx par nan newton x0).st.rdual < par.epsilon ∧
    norm2 (solveIneq P mufx par nan newton x0).st.rprim < par.epsilon := by
  cases hs : start P mufx par.miu nan x0 with
  | none =>
    have := (solveIneq_refused P mufx par nan newton x0 hs).1
    rw [this] at hc; cases hc
  | some t =>
    obtain ⟨u0, v0, st0⟩ := t
    obtain ⟨hinv, hcase⟩ := solveIneq_exits P mufx par pok nan newton hsh x0 u0 v0 st0 hx0 hh hs
    have hG := (start_inv P mufx par.miu nan x0 u0 v0 st0 hx0 hh hs).2
    rcases hcase with ⟨a1, _, _⟩ | ⟨j, xj, uj, vj, stj, _, _, _, _, b4⟩
    · rw [a1] at hc; cases hc
    · obtain ⟨c1, _⟩ := iterate_converged_iff P mufx par xj uj vj stj _ _ _ _ _ _ _ _ _ b4
      obtain ⟨_, f1, f2, f3, f4⟩ := c1.1 hc
      exact ⟨hinv, hG, f1, f2, f3, f4⟩

end NanoVerif.Program
