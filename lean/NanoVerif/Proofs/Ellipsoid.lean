import NanoVerif.Model.Ellipsoid
import NanoVerif.Proofs.Bundle
/-!
  C03 — helper definitions and lemmas about `Model/Ellipsoid.lean` over an arbitrary linear ordered field.
  The property theorems are in `Props/C03.lean`.

  * `InE`: membership in the ellipsoid `E(x, H) = {z | (z − x)ᵀ H⁻¹ (z − x) ≤ 1}` in support-function form (inverse-free);
  * the adjoint identity `w·(L u) = (wᵀL)·u`;
  * the loop invariant of the 1-D branch (`Inv1`) and its preservation by `iter1d` / `run1d`.
-/
set_option linter.unusedSectionVars false
set_option linter.unusedVariables false

namespace NanoVerif.Ellipsoid
open NanoVerif.Bundle
variable {α : Type} [Field α] [LinearOrder α] [IsStrictOrderedRing α]

/-- `z ∈ E(x, H)`, support-function form: `(w·(z − x))² ≤ wᵀ H w` for every direction `w` -/
def InE (n : Nat) (x : List α) (H : List (List α)) (z : List α) : Prop :=
  ∀ w : List α, w.length = n → dot w (vsub z x) * dot w (vsub z x) ≤ quad H w

/-! ### adjoint identity -/

theorem vm_length (m : Nat) : ∀ (w : List α) (L : List (List α)), (∀ r ∈ L, r.length = m) → (vm m w L).length = m
  | [], _, _ => by simp [vm, zeros]
  | _ :: _, [], _ => by simp [vm, zeros]
  | wi :: w, r :: L, h => by
    have ih := vm_length m w L (fun r' hr => h r' (List.mem_cons_of_mem _ hr))
    simp only [vm]
    rw [vaxpy_length wi r _ (by rw [h r List.mem_cons_self, ih]), ih]

/-- `w·(L u) = (wᵀ L)·u` (rows of `L` and `u` of length `m`; `w` and `L` may even differ in length: both sides truncate) -/
theorem vm_adjoint (m : Nat) (u : List α) (hu : u.length = m) : ∀ (w : List α) (L : List (List α)),
    (∀ r ∈ L, r.length = m) → dot w (mv L u) = dot (vm m w L) u
  | [], _, _ => by simp [vm, dot_nil_left, dot_zeros]
  | _ :: _, [], _ => by simp [vm, mv, dot_nil_right, dot_zeros]
  | wi :: w, r :: L, h => by
    have hr : r.length = m := h r List.mem_cons_self
    have hL : ∀ r' ∈ L, r'.length = m := fun r' hr' => h r' (List.mem_cons_of_mem _ hr')
    have ih := vm_adjoint m u hu w L hL
    have hv := vm_length m w L hL
    simp only [vm, mv, List.map_cons, dot]
    rw [dot_vaxpy_left wi r _ u (by rw [hr, hv]) (by rw [hv, hu]), ← ih]
    rfl

/-! ### the 1-D branch -/

/-- containment after one 1-D step: the centre moves by the full `h` towards the minimiser, the half-width `2h` halves -/
theorem step1d_contains (f : α → α) (x h g z : α) (hh : 0 ≤ h) (hz : |z - x| ≤ 2 * h) (hg : g ≠ 0)
    (hsub : ∀ w, f x + g * (w - x) ≤ f w) (hmin : ∀ w, f z ≤ f w) :
    |z - (step1d x h g).1| ≤ 2 * (step1d x h g).2 ∧ 0 ≤ (step1d x h g).2 := by
  have h1 := hsub z
  have h2 := hmin x
  have hgz : g * (z - x) ≤ 0 := by linarith
  obtain ⟨hl, hu⟩ := abs_le.mp hz
  by_cases hneg : g < 0
  · have hs : step1d x h g = (x + h * 1, h / 2) := by simp [step1d, hneg]
    rw [hs]
    have hzx : 0 ≤ z - x := by
      by_contra hc
      have := mul_pos_of_neg_of_neg hneg (not_le.mp hc)
      linarith
    refine ⟨abs_le.mpr ⟨?_, ?_⟩, ?_⟩ <;> simp only <;> linarith
  · have hpos : 0 < g := lt_of_le_of_ne (not_lt.mp hneg) (Ne.symm hg)
    have hs : step1d x h g = (x + h * -1, h / 2) := by simp [step1d, hneg]
    rw [hs]
    have hzx : z - x ≤ 0 := by
      by_contra hc
      have := mul_pos hpos (not_le.mp hc)
      linarith
    refine ⟨abs_le.mpr ⟨?_, ?_⟩, ?_⟩ <;> simp only <;> linarith

/-- the gap bound of the 1-D branch: `f(x) − f(z) ≤ 2 |g| h` for every `z` within `2h` of `x` -/
theorem gap1d (f : α → α) (x h g z : α) (hh : 0 ≤ h) (hz : |z - x| ≤ 2 * h) (hsub : ∀ w, f x + g * (w - x) ≤ f w) :
    f x - f z ≤ 2 * |g| * h := by
  have h1 := hsub z
  have h2 : -(g * (z - x)) ≤ |g| * |z - x| := by
    rw [← abs_mul]; exact neg_le_abs _
  have h3 : |g| * |z - x| ≤ |g| * (2 * h) := mul_le_mul_of_nonneg_left hz (abs_nonneg g)
  linarith

theorem gap1d_sharp (f : α → α) (x h g z : α) (hh : 0 ≤ h) (hz : |z - x| ≤ 2 * h)
    (hsub : ∀ w, f x + g * (w - x) ≤ f w) (hg1 : 1 ≤ |g|) :
    f x - f z ≤ 2 * (g * (h * g)) := by
  have h1 := gap1d f x h g z hh hz hsub
  have h2 : |g| ≤ |g| * |g| := by nlinarith [abs_nonneg g]
  have h3 : |g| * |g| = g * g := abs_mul_abs_self g
  have h4 : |g| * h ≤ g * g * h := by
    rw [← h3]; exact mul_le_mul_of_nonneg_right h2 hh
  nlinarith

/-- loop invariant of the 1-D ellipsoid method for the minimiser `z`: `z ∈ [x − 2h, x + 2h]`, the cached value and
    derivative are those of the centre, and the best value is not above the value at the centre -/
def Inv1 (f g' : α → α) (z : α) (s : S1 α) : Prop :=
  |z - s.x| ≤ 2 * s.h ∧ 0 ≤ s.h ∧ s.f = f s.x ∧ s.g = g' s.x ∧ s.best ≤ f s.x

theorem better_le (best f : α) : better best f ≤ best ∧ better best f ≤ f := by
  unfold better
  split
  · rename_i h; exact ⟨by linarith, le_refl _⟩
  · rename_i h; exact ⟨le_refl _, by linarith [not_lt.mp h]⟩

/-- the conclusion of the certificate at a state -/
def Cert1 (f : α → α) (z eps epsM : α) (s : S1 α) : Prop :=
  s.best - f z < 2 * (eps * eps) ∨ s.best - f z < 2 * epsM

theorem iter1d_spec [Sqrt α] (hsqrt : ∀ v : α, 0 ≤ v → 0 ≤ Sqrt.sqrt v ∧ Sqrt.sqrt v * Sqrt.sqrt v = v)
    (f g' : α → α) (z eps epsM : α) (hsub : ∀ x w, f x + g' x * (w - x) ≤ f w) (hmin : ∀ w, f z ≤ f w)
    (hsharp : ∀ x, g' x = 0 ∨ 1 ≤ |g' x|) (hepsM : 0 < epsM) (s : S1 α) (hinv : Inv1 f g' z s) :
    Inv1 f g' z (iter1d eps epsM (fun x => (f x, g' x)) s).2 ∧
      ((iter1d eps epsM (fun x => (f x, g' x)) s).1 = true →
        Cert1 f z eps epsM (iter1d eps epsM (fun x => (f x, g' x)) s).2) := by
  obtain ⟨hz, hh, hf, hg, hb⟩ := hinv
  have hsubx : ∀ w, f s.x + s.g * (w - s.x) ≤ f w := by rw [hg]; exact hsub s.x
  have e1 : iter1d eps epsM (fun x => (f x, g' x)) s =
      if s.g * (s.h * s.g) < epsM then (true, s)
      else (converged eps (s.g * (s.h * s.g)),
        ⟨(step1d s.x s.h s.g).1, (step1d s.x s.h s.g).2, f (step1d s.x s.h s.g).1, g' (step1d s.x s.h s.g).1,
          better s.best (f (step1d s.x s.h s.g).1)⟩) := rfl
  -- the gap at the current centre
  have hgap : s.g = 0 ∨ f s.x - f z ≤ 2 * (s.g * (s.h * s.g)) := by
    rcases hsharp s.x with h0 | h1
    · left; rw [hg]; exact h0
    · right; exact gap1d_sharp f s.x s.h s.g z hh hz hsubx (by rw [hg]; exact h1)
  have hgap0 : s.g = 0 → f s.x - f z ≤ 0 := by
    intro h0
    have := hsubx z
    rw [h0, zero_mul] at this
    linarith
  rw [e1]
  by_cases hc : s.g * (s.h * s.g) < epsM
  · rw [if_pos hc]
    refine ⟨⟨hz, hh, hf, hg, hb⟩, fun _ => Or.inr ?_⟩
    show s.best - f z < 2 * epsM
    rcases hgap with h0 | h1
    · have := hgap0 h0; linarith
    · linarith
  · rw [if_neg hc]
    have hg0 : s.g ≠ 0 := by
      intro h0
      apply hc
      rw [h0]; simpa using hepsM
    obtain ⟨hc1, hc2⟩ := step1d_contains f s.x s.h s.g z hh hz hg0 hsubx hmin
    obtain ⟨hb1, hb2⟩ := better_le s.best (f (step1d s.x s.h s.g).1)
    refine ⟨⟨hc1, hc2, rfl, rfl, hb2⟩, fun hconv => Or.inl ?_⟩
    show better s.best (f (step1d s.x s.h s.g).1) - f z < 2 * (eps * eps)
    have hlt : Sqrt.sqrt (s.g * (s.h * s.g)) < eps := of_decide_eq_true hconv
    have hq0 : 0 ≤ s.g * (s.h * s.g) := by nlinarith [mul_nonneg hh (mul_self_nonneg s.g)]
    obtain ⟨hr0, hr⟩ := hsqrt _ hq0
    have hsq : s.g * (s.h * s.g) < eps * eps := by
      rw [← hr]; exact mul_lt_mul'' hlt hlt hr0 hr0
    rcases hgap with h0 | h1
    · exact absurd h0 hg0
    · linarith

theorem run1d_spec [Sqrt α] (hsqrt : ∀ v : α, 0 ≤ v → 0 ≤ Sqrt.sqrt v ∧ Sqrt.sqrt v * Sqrt.sqrt v = v)
    (f g' : α → α) (z eps epsM : α) (hsub : ∀ x w, f x + g' x * (w - x) ≤ f w) (hmin : ∀ w, f z ≤ f w)
    (hsharp : ∀ x, g' x = 0 ∨ 1 ≤ |g' x|) (hepsM : 0 < epsM) :
    ∀ (fuel : Nat) (s s' : S1 α), Inv1 f g' z s → run1d eps epsM (fun x => (f x, g' x)) fuel s = (true, s') →
      Cert1 f z eps epsM s'
  | 0, s, s', _, h => by simp [run1d] at h
  | k + 1, s, s', hinv, h => by
    obtain ⟨hi, hc⟩ := iter1d_spec hsqrt f g' z eps epsM hsub hmin hsharp hepsM s hinv
    have e : run1d eps epsM (fun x => (f x, g' x)) (k + 1) s =
        if (iter1d eps epsM (fun x => (f x, g' x)) s).1 then iter1d eps epsM (fun x => (f x, g' x)) s
        else run1d eps epsM (fun x => (f x, g' x)) k (iter1d eps epsM (fun x => (f x, g' x)) s).2 := rfl
    rw [e] at h
    by_cases hb : (iter1d eps epsM (fun x => (f x, g' x)) s).1 = true
    · rw [if_pos hb] at h
      have := hc hb
      rw [h] at this
      exact this
    · rw [if_neg hb] at h
      exact run1d_spec hsqrt f g' z eps epsM hsub hmin hsharp hepsM k _ s' hi h

end NanoVerif.Ellipsoid
