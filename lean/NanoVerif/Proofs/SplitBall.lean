import NanoVerif.Model.Split
import Mathlib.Algebra.Order.Field.Basic
import Mathlib.Tactic.Ring
import Mathlib.Tactic.Linarith
/-!
  C12 — `sample_from_ball` with rounding: if every coordinate of the answer differs from the exact point by `eₖ`, the answer is
  within `r + ‖e‖` of the centre (triangle inequality in the 2-norm, through Cauchy–Schwarz on lists, any ordered field).
  This is the shape of the allowance of the python oracle: `‖e‖ ≤ √(Σ (ulp(xₖ)/2)²)` comes from the final addition `x0ₖ + dₖ`
  and is of the size `ulp(‖x0‖)`, whatever the radius.
-/
set_option linter.unusedSectionVars false
namespace NanoVerif.Split

section
variable {α : Type} [Field α] [LinearOrder α] [IsStrictOrderedRing α]

def dotL : List α → List α → α
  | a :: as, b :: bs => a * b + dotL as bs
  | _, _ => 0

theorem sumSq_nonneg' : ∀ l : List α, 0 ≤ sumSq l
  | [] => le_refl _
  | x :: xs => add_nonneg (mul_self_nonneg x) (sumSq_nonneg' xs)

/-- Cauchy–Schwarz -/
theorem dotL_sq_le : ∀ (a b : List α), dotL a b * dotL a b ≤ sumSq a * sumSq b
  | [], _ => by simp [dotL, sumSq]
  | _ :: _, [] => by simp [dotL, sumSq]
  | a :: as, b :: bs => by
    have ih := dotL_sq_le as bs
    have hA := sumSq_nonneg' as
    have hB := sumSq_nonneg' bs
    simp only [dotL, sumSq]
    generalize dotL as bs = D at ih
    generalize sumSq as = A at ih hA
    generalize sumSq bs = B at ih hB
    have key : 2 * (a * b * D) ≤ a * a * B + b * b * A := by
      rcases eq_or_lt_of_le hA with h0 | hpos
      · subst h0
        have hD : D = 0 := by
          have : D * D ≤ 0 := by simpa using ih
          have h2 := mul_self_nonneg D
          exact mul_self_eq_zero.mp (le_antisymm this h2)
        subst hD
        have := mul_nonneg (mul_self_nonneg a) hB
        linarith
      · have h1 : 0 ≤ A * (a * a * B + b * b * A - 2 * (a * b * D)) := by
          have h2 := mul_self_nonneg (a * D - b * A)
          have h3 := mul_nonneg (mul_self_nonneg a) (sub_nonneg.mpr ih)
          nlinarith
        have := nonneg_of_mul_nonneg_right h1 hpos
        linarith
    nlinarith

theorem sumSq_add (d e : List α) :
    sumSq (List.zipWith (fun a b => a + b) d e) =
      sumSq (d.take e.length) + 2 * dotL d e + sumSq (e.take d.length) := by
  induction d generalizing e with
  | nil => simp [sumSq, dotL]
  | cons a as ih =>
    cases e with
    | nil => simp [sumSq, dotL]
    | cons b bs =>
      simp only [List.zipWith_cons_cons, sumSq, dotL, List.length_cons, List.take_succ_cons, ih bs]
      ring

/-- triangle inequality in squared form -/
theorem sumSq_add_le (d e : List α) (hlen : d.length = e.length) (ρ E : α) (hρ : 0 ≤ ρ) (hE : 0 ≤ E)
    (hd : sumSq d ≤ ρ * ρ) (he : sumSq e ≤ E * E) :
    sumSq (List.zipWith (fun a b => a + b) d e) ≤ (ρ + E) * (ρ + E) := by
  rw [sumSq_add, ← hlen, List.take_length, hlen, List.take_length]
  have hcs := dotL_sq_le d e
  have hdot : dotL d e ≤ ρ * E := by
    by_contra hlt
    rw [not_le] at hlt
    have hpos : 0 ≤ ρ * E := mul_nonneg hρ hE
    have h1 : ρ * E * (ρ * E) < dotL d e * dotL d e := by nlinarith
    have h2 : sumSq d * sumSq e ≤ ρ * ρ * (E * E) :=
      mul_le_mul hd he (sumSq_nonneg' e) (mul_self_nonneg ρ)
    nlinarith
  nlinarith

theorem distSq_add (x e x0 : List α) (h1 : x.length = x0.length) (h2 : e.length = x0.length) :
    distSq (List.zipWith (fun a b => a + b) x e) x0 =
      sumSq (List.zipWith (fun a b => a + b) (List.zipWith (fun a b => a - b) x x0) e) := by
  unfold distSq
  induction x generalizing e x0 with
  | nil => simp [sumSq]
  | cons a as ih =>
    cases e with
    | nil => simp [sumSq]
    | cons b bs =>
      cases x0 with
      | nil => simp at h1
      | cons c cs =>
        simp only [List.zipWith_cons_cons, sumSq]
        rw [ih bs cs (by simpa using h1) (by simpa using h2)]
        ring

end

end NanoVerif.Split
