import NanoVerif.Model.Tune
import Mathlib.Order.Defs.LinearOrder
import Mathlib.Data.List.Perm.Basic
import Mathlib.Data.List.Nodup
import Mathlib.Data.List.Range
/-!
  C13 — proofs about the bookkeeping model of `ml::tune` / `ml::result_t` (`Model/Tune.lean`):

  * `decode` / `slot` are inverse bijections between `[0, k * folds)` and `[0, k) × [0, folds)`;
  * whatever the order in which the pool runs the indices, every (trial, fold) is evaluated exactly once and its
    result lands in its own slot, the slots of the earlier trials staying untouched;
  * `optimum_trial` returns the first arg-min.
-/
namespace NanoVerif.Tune

/-! ### index ↔ (trial, fold) -/

theorem slot_decode (folds i : Nat) : slot folds (decode folds i).1 (decode folds i).2 = i := by
  simp only [decode, slot]
  exact Nat.div_add_mod' i folds

theorem decode_slot (folds t f : Nat) (hf : f < folds) : decode folds (slot folds t f) = (t, f) := by
  have hpos : 0 < folds := by omega
  simp only [decode, slot]
  rw [Nat.mul_comm t folds, Nat.mul_add_div hpos, Nat.mul_add_mod, Nat.div_eq_of_lt hf, Nat.mod_eq_of_lt hf,
    Nat.add_zero]

theorem decode_injective (folds : Nat) : Function.Injective (decode folds) := by
  intro i j h
  calc i = slot folds (decode folds i).1 (decode folds i).2 := (slot_decode folds i).symm
    _ = slot folds (decode folds j).1 (decode folds j).2 := by rw [h]
    _ = j := slot_decode folds j

theorem slot_lt (folds k t f : Nat) (ht : t < k) (hf : f < folds) : slot folds t f < k * folds := by
  have h := Nat.mul_le_mul_right folds (show t + 1 ≤ k from ht)
  rw [Nat.add_mul, Nat.one_mul] at h
  simp only [slot]
  omega

theorem decode_bijective (folds k : Nat) (hf : 0 < folds) :
    (∀ i, i < k * folds →
        (decode folds i).1 < k ∧ (decode folds i).2 < folds ∧ slot folds (decode folds i).1 (decode folds i).2 = i) ∧
    (∀ t f, t < k → f < folds → slot folds t f < k * folds ∧ decode folds (slot folds t f) = (t, f)) := by
  refine ⟨fun i hi => ⟨?_, ?_, slot_decode folds i⟩, fun t f ht hf' => ⟨slot_lt folds k t f ht hf', decode_slot folds t f hf'⟩⟩
  · exact (Nat.div_lt_iff_lt_mul hf).mpr hi
  · exact Nat.mod_lt i hf

theorem slots_disjoint (folds t f t' f' : Nat) (hf : f < folds) (hf' : f' < folds)
    (h : slot folds t f = slot folds t' f') : t = t' ∧ f = f' := by
  have h1 := decode_slot folds t f hf
  rw [h, decode_slot folds t' f' hf'] at h1
  exact ⟨(congrArg Prod.fst h1).symm, (congrArg Prod.snd h1).symm⟩

/-- given that the pool runs every index exactly once (any order), every (trial, fold) is called exactly once -/
theorem tune_calls_once (folds k : Nat) (hf : 0 < folds) (order : List Nat)
    (hperm : order.Perm (List.range (k * folds))) :
    (∀ p ∈ callsOf folds order, p.1 < k ∧ p.2 < folds) ∧
    (∀ t f, t < k → f < folds → (callsOf folds order).count (t, f) = 1) := by
  have hnd : order.Nodup := hperm.nodup_iff.mpr List.nodup_range
  have hmem : ∀ i, i ∈ order ↔ i < k * folds := fun i => by rw [hperm.mem_iff, List.mem_range]
  refine ⟨?_, ?_⟩
  · intro p hp
    obtain ⟨i, hi, rfl⟩ := List.mem_map.mp hp
    have h := (decode_bijective folds k hf).1 i ((hmem i).mp hi)
    exact ⟨h.1, h.2.1⟩
  · intro t f ht hf'
    have h2 := (decode_bijective folds k hf).2 t f ht hf'
    apply List.count_eq_one_of_mem
    · exact List.Nodup.map (decode_injective folds) hnd
    · exact List.mem_map.mpr ⟨slot folds t f, (hmem _).mpr h2.1, h2.2⟩

/-! ### a fold of `List.set` writes at pairwise distinct positions -/

theorem foldl_set_length {β ι : Type} (pos : ι → Nat) (val : ι → β) (order : List ι) (l : List β) :
    (order.foldl (fun l i => l.set (pos i) (val i)) l).length = l.length := by
  induction order generalizing l with
  | nil => rfl
  | cons a rest ih => rw [List.foldl_cons, ih, List.length_set]

/-- a position nobody writes to keeps its content -/
theorem foldl_set_getElem?_of_not_mem {β ι : Type} (pos : ι → Nat) (val : ι → β) (order : List ι) (l : List β)
    (j : Nat) (hj : ∀ i ∈ order, pos i ≠ j) :
    (order.foldl (fun l i => l.set (pos i) (val i)) l)[j]? = l[j]? := by
  induction order generalizing l with
  | nil => rfl
  | cons a rest ih =>
    rw [List.foldl_cons, ih _ (fun i hi => hj i (List.mem_cons_of_mem _ hi))]
    exact List.getElem?_set_ne (hj a List.mem_cons_self)

/-- the writers being pairwise at distinct positions, each position written holds the value of its only writer -/
theorem foldl_set_getElem?_of_mem {β ι : Type} (pos : ι → Nat) (val : ι → β) (order : List ι) (l : List β)
    (hinj : ∀ i ∈ order, ∀ i' ∈ order, pos i = pos i' → i = i') (hnd : order.Nodup)
    (i : ι) (hi : i ∈ order) (hlt : pos i < l.length) :
    (order.foldl (fun l i => l.set (pos i) (val i)) l)[pos i]? = some (val i) := by
  induction order generalizing l with
  | nil => cases hi
  | cons a rest ih =>
    obtain ⟨ha, hrest⟩ := List.nodup_cons.mp hnd
    rw [List.foldl_cons]
    rcases List.mem_cons.mp hi with rfl | hi'
    · rw [foldl_set_getElem?_of_not_mem]
      · exact List.getElem?_set_self hlt
      · intro i' hi' heq
        have := hinj i' (List.mem_cons_of_mem _ hi') i List.mem_cons_self heq
        exact ha (this ▸ hi')
    · exact ih _ (fun x hx y hy => hinj x (List.mem_cons_of_mem _ hx) y (List.mem_cons_of_mem _ hy)) hrest hi'
        (by rw [List.length_set]; exact hlt)

/-! ### the batch -/

/-- what the model callback is given for index `i` and returns -/
def payload {σ : Type} (cb : Nat → Nat → Option σ → σ) (closest : Nat → Nat) (pre : Result σ) (i : Nat) : σ :=
  cb (decode pre.folds i).1 (decode pre.folds i).2 (pre.get? (closest (decode pre.folds i).1) (decode pre.folds i).2)

/-- the thread callbacks only write: index `i` writes its payload at position `old * folds + i` -/
theorem foldl_threadCallback {σ : Type} (cb : Nat → Nat → Option σ → σ) (closest : Nat → Nat) (pre : Result σ)
    (old : Nat) (order : List Nat) (r : Result σ) (hf : r.folds = pre.folds) :
    (order.foldl (threadCallback cb closest pre old) r).folds = pre.folds ∧
    (order.foldl (threadCallback cb closest pre old) r).trials = r.trials ∧
    (order.foldl (threadCallback cb closest pre old) r).slots =
      order.foldl (fun l i => l.set (old * pre.folds + i) (some (payload cb closest pre i))) r.slots := by
  induction order generalizing r with
  | nil => exact ⟨hf, rfl, rfl⟩
  | cons a rest ih =>
    simp only [List.foldl_cons]
    have h := ih (threadCallback cb closest pre old r a) hf
    refine ⟨h.1, h.2.1, ?_⟩
    rw [h.2.2]
    have hpos : slot r.folds (old + (decode pre.folds a).1) (decode pre.folds a).2 = old * pre.folds + a := by
      rw [hf]
      simp only [slot, decode, Nat.add_mul, Nat.add_assoc, Nat.div_add_mod']
    simp only [threadCallback, Result.store, hpos, payload]

theorem runBatch_slots {σ : Type} (cb : Nat → Nat → Option σ → σ) (closest : Nat → Nat) (r0 : Result σ) (k : Nat)
    (order : List Nat) :
    (runBatch cb closest r0 k order).folds = r0.folds ∧
    (runBatch cb closest r0 k order).trials = r0.trials + k ∧
    (runBatch cb closest r0 k order).slots =
      order.foldl (fun l i => l.set (r0.trials * r0.folds + i) (some (payload cb closest (r0.add k) i)))
        (r0.slots ++ List.replicate (k * r0.folds) none) :=
  foldl_threadCallback cb closest (r0.add k) r0.trials order (r0.add k) rfl

theorem runBatch_wf {σ : Type} (cb : Nat → Nat → Option σ → σ) (closest : Nat → Nat) (r0 : Result σ) (hwf : r0.wf)
    (k : Nat) (order : List Nat) :
    (runBatch cb closest r0 k order).wf ∧ (runBatch cb closest r0 k order).trials = r0.trials + k ∧
    (runBatch cb closest r0 k order).folds = r0.folds := by
  obtain ⟨h1, h2, h3⟩ := runBatch_slots cb closest r0 k order
  refine ⟨?_, h2, h1⟩
  unfold Result.wf at hwf ⊢
  rw [h1, h2, h3, foldl_set_length, List.length_append, List.length_replicate, hwf, Nat.add_mul]

/-- after the batch, slot (old + t, f) holds exactly what the model callback returned for (t, f), whatever the order -/
theorem batch_slots {σ : Type} (cb : Nat → Nat → Option σ → σ) (closest : Nat → Nat) (r0 : Result σ) (hwf : r0.wf)
    (k : Nat) (order : List Nat) (hperm : order.Perm (List.range (k * r0.folds))) :
    ∀ t f, t < k → f < r0.folds →
      (runBatch cb closest r0 k order).get? (r0.trials + t) f = some (cb t f ((r0.add k).get? (closest t) f)) := by
  intro t f ht hf
  obtain ⟨h1, h2, h3⟩ := runBatch_slots cb closest r0 k order
  have hnd : order.Nodup := hperm.nodup_iff.mpr List.nodup_range
  have hmem : slot r0.folds t f ∈ order := by
    rw [hperm.mem_iff, List.mem_range]; exact slot_lt r0.folds k t f ht hf
  have hlen : (r0.slots ++ List.replicate (k * r0.folds) (none : Option σ)).length = (r0.trials + k) * r0.folds := by
    rw [List.length_append, List.length_replicate, hwf, Nat.add_mul]
  have hlt : r0.trials * r0.folds + slot r0.folds t f <
      (r0.slots ++ List.replicate (k * r0.folds) (none : Option σ)).length := by
    have := slot_lt r0.folds k t f ht hf
    rw [hlen, Nat.add_mul]; omega
  have key := foldl_set_getElem?_of_mem (fun i => r0.trials * r0.folds + i)
    (fun i => some (payload cb closest (r0.add k) i)) order _
    (fun i _ i' _ h => Nat.add_left_cancel h) hnd (slot r0.folds t f) hmem hlt
  have hpos : slot r0.folds (r0.trials + t) f = r0.trials * r0.folds + slot r0.folds t f := by
    simp only [slot, Nat.add_mul, Nat.add_assoc]
  have hpay : payload cb closest (r0.add k) (slot r0.folds t f) = cb t f ((r0.add k).get? (closest t) f) := by
    have hd : decode (r0.add k).folds (slot r0.folds t f) = (t, f) := decode_slot r0.folds t f hf
    simp only [payload, hd]
  unfold Result.get?
  rw [h1, h2, h3, if_pos ⟨hf, by omega⟩, hpos]
  rw [key, hpay]
  rfl

/-- the slots of the earlier trials are untouched -/
theorem batch_keeps_old {σ : Type} (cb : Nat → Nat → Option σ → σ) (closest : Nat → Nat) (r0 : Result σ) (hwf : r0.wf)
    (k : Nat) (order : List Nat) (hperm : order.Perm (List.range (k * r0.folds))) :
    ∀ t f, t < r0.trials → (runBatch cb closest r0 k order).get? t f = r0.get? t f := by
  intro t f ht
  have _ := hperm -- not needed: the writes of any order stay at positions ≥ old * folds
  obtain ⟨h1, h2, h3⟩ := runBatch_slots cb closest r0 k order
  unfold Result.get?
  rw [h1, h2, h3]
  by_cases hf : f < r0.folds
  · have hlt : slot r0.folds t f < r0.trials * r0.folds := slot_lt r0.folds r0.trials t f ht hf
    rw [if_pos ⟨hf, by omega⟩, if_pos ⟨hf, ht⟩, foldl_set_getElem?_of_not_mem _ _ _ _ _ (fun i _ => by omega),
      List.getElem?_append_left (by rw [hwf]; exact hlt)]
  · rw [if_neg (fun h => hf h.1), if_neg (fun h => hf h.1)]

/-! ### `optimum_trial` -/

section Argmin
variable {α : Type} [LinearOrder α]

/-- the step of the scan in `argminScan` -/
def scanStep (acc : Nat × α × Nat) (v : α) : Nat × α × Nat :=
  let (best, bestVal, i) := acc
  if v < bestVal then (i, v, i + 1) else (best, bestVal, i + 1)

theorem argminScan_eq (top : α) (vals : List α) : argminScan top vals = (vals.foldl scanStep (0, top, 0)).1 := rfl

theorem scanStep_mk (b : Nat) (x : α) (n : Nat) (v : α) :
    scanStep (b, x, n) v = if v < x then (n, v, n + 1) else (b, x, n + 1) := rfl

/-- `x` sits at position `b` of `l`, is a minimum of `l`, and everything before position `b` is strictly above it -/
def IsFirstArgmin (l : List α) (b : Nat) (x : α) : Prop :=
  l[b]? = some x ∧ (∀ v ∈ l, x ≤ v) ∧ ∀ j, j < b → ∀ y, l[j]? = some y → x < y

/-- the invariant of the scan: (best index, best value) is the first arg-min of the prefix seen so far -/
theorem scan_inv (rest : List α) : ∀ (pre : List α) (b : Nat) (x : α), IsFirstArgmin pre b x →
    IsFirstArgmin (pre ++ rest) (rest.foldl scanStep (b, x, pre.length)).1
      (rest.foldl scanStep (b, x, pre.length)).2.1 := by
  induction rest with
  | nil => intro pre b x h; simpa using h
  | cons v rest ih =>
    intro pre b x ⟨h1, h2, h3⟩
    have hb : b < pre.length := (List.getElem?_eq_some_iff.mp h1).1
    rw [List.foldl_cons, scanStep_mk, List.append_cons]
    have hlen : (pre ++ [v]).length = pre.length + 1 := by simp
    by_cases hv : v < x
    · rw [if_pos hv, ← hlen]
      refine ih (pre ++ [v]) pre.length v ⟨by simp, ?_, ?_⟩
      · intro w hw
        rcases List.mem_append.mp hw with hw | hw
        · exact le_of_lt (lt_of_lt_of_le hv (h2 w hw))
        · rw [List.mem_singleton.mp hw]
      · intro j hj y hy
        rw [List.getElem?_append_left hj] at hy
        exact lt_of_lt_of_le hv (h2 y (List.mem_of_getElem? hy))
    · rw [if_neg hv, ← hlen]
      refine ih (pre ++ [v]) b x ⟨by rw [List.getElem?_append_left hb]; exact h1, ?_, ?_⟩
      · intro w hw
        rcases List.mem_append.mp hw with hw | hw
        · exact h2 w hw
        · rw [List.mem_singleton.mp hw]; exact not_lt.mp hv
      · intro j hj y hy
        rw [List.getElem?_append_left (by omega)] at hy
        exact h3 j hj y hy

/-- `optimum_trial` returns the FIRST arg-min, provided no value exceeds `top` (= DBL_MAX in the code) -/
theorem optimum_is_argmin {α : Type} [LinearOrder α] (top : α) (values : List α) (hne : values ≠ [])
    (htop : ∀ v ∈ values, v ≤ top) :
    ∃ hb : optimumTrial top values < values.length,
      (∀ j (hj : j < values.length), values[optimumTrial top values] ≤ values[j]) ∧
      (∀ j (hj : j < optimumTrial top values), values[optimumTrial top values] < values[j]) := by
  obtain ⟨v0, rest, rfl⟩ := List.exists_cons_of_ne_nil hne
  have hv0 : v0 ≤ top := htop v0 List.mem_cons_self
  have h0 : scanStep (0, top, 0) v0 = (0, v0, [v0].length) := by
    rw [scanStep_mk]
    by_cases h : v0 < top
    · rw [if_pos h]; rfl
    · rw [if_neg h, le_antisymm hv0 (not_lt.mp h)]; rfl
  have key := scan_inv rest [v0] 0 v0 ⟨rfl, by simp, fun j hj => by omega⟩
  have hopt : optimumTrial top (v0 :: rest) = (rest.foldl scanStep (0, v0, [v0].length)).1 := by
    unfold optimumTrial
    rw [argminScan_eq, List.foldl_cons, h0]
  rw [← hopt] at key
  obtain ⟨h1, h2, h3⟩ := key
  obtain ⟨hb, hx⟩ := List.getElem?_eq_some_iff.mp h1
  refine ⟨hb, ?_, ?_⟩
  · intro j hj
    have : (v0 :: rest)[optimumTrial top (v0 :: rest)] = ([v0] ++ rest)[optimumTrial top (v0 :: rest)] := rfl
    rw [this, hx]
    exact h2 _ (List.getElem_mem hj)
  · intro j hj
    have : (v0 :: rest)[optimumTrial top (v0 :: rest)] = ([v0] ++ rest)[optimumTrial top (v0 :: rest)] := rfl
    rw [this, hx]
    exact h3 j hj _ (List.getElem?_eq_getElem (by omega))

end Argmin

/-! ### non-vacuity -/

example : decode 3 7 = (2, 1) := by decide
example : slot 3 2 1 = 7 := by decide
example : (callsOf 2 [3, 0, 2, 1]).count (1, 0) = 1 := by decide
example : optimumTrial 100 [5, 3, 7, 3] = 1 := by decide
example : optimumTrial 100 [100, 100] = 0 := by decide
example : optimumTrial 100 [100, 99, 99] = 1 := by decide

/-- two folds, one old trial, two new trials run in a scrambled order; the payload records (trial, fold) and what was
    read from the closest old trial -/
example :
    (runBatch (fun t f prev => 100 * (t + 1) + 10 * f + prev.getD 0) (fun _ => 0) ⟨2, 1, [some 1, some 2]⟩ 2
      [3, 0, 2, 1]).slots = [some 1, some 2, some 101, some 112, some 201, some 212] := by decide

example :
    (runBatch (fun t f (_ : Option Nat) => 10 * t + f) (fun _ => 0) (Result.empty 2) 2 [3, 0, 2, 1]).slots
      = [some 0, some 1, some 10, some 11] := by decide

example :
    (runBatch (fun t f (_ : Option Nat) => 10 * t + f) (fun _ => 0) (Result.empty 2) 2 [3, 0, 2, 1]).get? 1 0
      = some 10 := by decide

end NanoVerif.Tune
