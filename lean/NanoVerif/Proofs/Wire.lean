import NanoVerif.Model.Wire
import NanoVerif.Proofs.Codec
/-!
  C15 — well-formedness predicates of the wire formats and the proof that every format is `Good`
  (round trip + every strict prefix refused) on its well-formed values. Core Lean only.
-/
namespace NanoVerif.Codec
open NanoVerif.Gen.CodecConsts

@[reducible] def I32 (i : Int) : Prop := -2147483648 ≤ i ∧ i < 2147483648
@[reducible] def I64 (i : Int) : Prop := -9223372036854775808 ≤ i ∧ i < 9223372036854775808
@[reducible] def U32 (n : Nat) : Prop := n < 4294967296
@[reducible] def U64 (n : Nat) : Prop := n < 18446744073709551616
/-- a string whose length fits the `uint32_t` length field -/
@[reducible] def StrOk (s : Bytes) : Prop := s.length < 4294967296
/-- a list of strings that fits `uint64_t` count + `uint32_t` lengths -/
@[reducible] def StrsOk (l : List Bytes) : Prop := l.length < 18446744073709551616 ∧ ∀ s ∈ l, StrOk s

/-! ### tensors -/

/-- dimensions fit `int32_t`, the element count is not negative, the payload has `size · sizeof(scalar)` bytes -/
def Tensor.WF (k : Scalar) (rank : Nat) (t : Tensor) : Prop :=
  t.dims.length = rank ∧ (∀ d ∈ t.dims, I32 d) ∧ 0 ≤ dimsSize t.dims ∧
    t.payload.length = (dimsSize t.dims).toNat * k.size

instance (k : Scalar) (rank : Nat) (t : Tensor) : Decidable (Tensor.WF k rank t) := by
  unfold Tensor.WF; infer_instance

theorem scalar_size_lt (k : Scalar) : k.size < 4294967296 := by cases k <;> decide

theorem tensorHeader_good (k : Scalar) (rank : Nat) (hr : rank < 4294967296) :
    Good (tensorHeader k rank) (fun ds => ds.length = rank ∧ ∀ d ∈ ds, I32 d) := by
  have hv : hashVersion < 4294967296 := by decide
  refine (pmap_good (seq_good (const_good u32_good hashVersion hv) (seq_good (const_good u32_good rank hr)
    (seq_good (rep_good i32_good rank) (const_good u32_good k.size (scalar_size_lt k))))) _ _).mono ?_
  intro ds hds
  exact ⟨⟨trivial, trivial, hds, trivial⟩, rfl⟩

theorem tensorBody_good (k : Scalar) (n : Nat) : Good (tensorBody k n) (fun pl => pl.length = n * k.size) := by
  refine (pmap_good (seq_good u64_good (raw_good (n * k.size))) _ _).mono ?_
  intro pl hpl
  exact ⟨⟨(hashPayload k n pl).toNat_lt, hpl⟩, by simp⟩

theorem tensor_good (k : Scalar) (rank : Nat) (hr : rank < 4294967296) : Good (tensor k rank) (Tensor.WF k rank) := by
  have hb : ∀ ds : List Int, Good (if dimsSize ds < 0 then fail else tensorBody k (dimsSize ds).toNat)
      (fun pl => 0 ≤ dimsSize ds ∧ pl.length = (dimsSize ds).toNat * k.size) := by
    intro ds
    by_cases h : dimsSize ds < 0
    · simp only [h, if_true]; exact fail_good.mono (fun _ hx => by omega)
    · simp only [h, if_false]; exact (tensorBody_good k _).mono (fun _ hx => hx.2)
  refine (pmap_good (dseq_good (tensorHeader_good k rank hr) hb) _ _).mono ?_
  intro t ht
  exact ⟨⟨⟨ht.1, ht.2.1⟩, ht.2.2.1, ht.2.2.2⟩, rfl⟩

/-! ### parameters -/

def PStorage.WF : PStorage → Prop
  | .none => True
  | .enum v d => StrOk v ∧ StrsOk d
  | .irange v mn mx _ _ => I64 v ∧ I64 mn ∧ I64 mx
  | .frange v mn mx _ _ => U64 v ∧ U64 mn ∧ U64 mx
  | .iprange v1 v2 mn mx _ _ _ => I64 v1 ∧ I64 v2 ∧ I64 mn ∧ I64 mx
  | .fprange v1 v2 mn mx _ _ _ => U64 v1 ∧ U64 v2 ∧ U64 mn ∧ U64 mx
  | .str v => StrOk v

instance : (s : PStorage) → Decidable s.WF
  | .none => inferInstanceAs (Decidable True)
  | .enum v d => inferInstanceAs (Decidable (StrOk v ∧ StrsOk d))
  | .irange v mn mx _ _ => inferInstanceAs (Decidable (I64 v ∧ I64 mn ∧ I64 mx))
  | .frange v mn mx _ _ => inferInstanceAs (Decidable (U64 v ∧ U64 mn ∧ U64 mx))
  | .iprange v1 v2 mn mx _ _ _ => inferInstanceAs (Decidable (I64 v1 ∧ I64 v2 ∧ I64 mn ∧ I64 mx))
  | .fprange v1 v2 mn mx _ _ _ => inferInstanceAs (Decidable (U64 v1 ∧ U64 v2 ∧ U64 mn ∧ U64 mx))
  | .str v => inferInstanceAs (Decidable (StrOk v))

def Parameter.WF (p : Parameter) : Prop := StrOk p.name ∧ p.storage.WF

instance (p : Parameter) : Decidable p.WF := by unfold Parameter.WF; infer_instance

theorem strs_good : Good (vec str) StrsOk := (vec_good str_good).mono (fun _ h => h)

theorem rangeOf_good {α : Type} {c : Codec α} {w : α → Prop} (h : Good c w) :
    Good (rangeOf c) (fun p => w p.1 ∧ w p.2.1 ∧ w p.2.2.1) :=
  (seq_good h (seq_good h (seq_good h (seq_good flag_good flag_good)))).mono
    (fun _ hp => ⟨hp.1, hp.2.1, hp.2.2, trivial, trivial⟩)

theorem prangeOf_good {α : Type} {c : Codec α} {w : α → Prop} (h : Good c w) :
    Good (prangeOf c) (fun p => w p.1 ∧ w p.2.1 ∧ w p.2.2.1 ∧ w p.2.2.2.1) :=
  (seq_good h (seq_good h (seq_good h (seq_good h (seq_good flag_good (seq_good flag_good flag_good)))))).mono
    (fun _ hp => ⟨hp.1, hp.2.1, hp.2.2.1, hp.2.2.2, trivial, trivial, trivial⟩)

theorem storage_good (tag : Int) : Good (storage tag) (fun s => s.tag = tag ∧ s.WF) := by
  unfold storage
  split
  · rename_i h; subst h
    refine (pmap_good unit_good _ _).mono ?_
    intro s ⟨ht, _⟩
    cases s <;> simp [PStorage.tag] at ht
    exact ⟨trivial, rfl⟩
  split
  · rename_i h; subst h
    refine (pmap_good (seq_good str_good strs_good) _ _).mono ?_
    intro s ⟨ht, hw⟩
    cases s <;> simp [PStorage.tag] at ht
    exact ⟨hw, rfl⟩
  split
  · rename_i h; subst h
    refine (pmap_good (rangeOf_good i64_good) _ _).mono ?_
    intro s ⟨ht, hw⟩
    cases s <;> simp [PStorage.tag] at ht
    exact ⟨hw, rfl⟩
  split
  · rename_i h; subst h
    refine (pmap_good (rangeOf_good u64_good) _ _).mono ?_
    intro s ⟨ht, hw⟩
    cases s <;> simp [PStorage.tag] at ht
    exact ⟨hw, rfl⟩
  split
  · rename_i h; subst h
    refine (pmap_good (prangeOf_good i64_good) _ _).mono ?_
    intro s ⟨ht, hw⟩
    cases s <;> simp [PStorage.tag] at ht
    exact ⟨hw, rfl⟩
  split
  · rename_i h; subst h
    refine (pmap_good (prangeOf_good u64_good) _ _).mono ?_
    intro s ⟨ht, hw⟩
    cases s <;> simp [PStorage.tag] at ht
    exact ⟨hw, rfl⟩
  split
  · rename_i h; subst h
    refine (pmap_good str_good _ _).mono ?_
    intro s ⟨ht, hw⟩
    cases s <;> simp [PStorage.tag] at ht
    exact ⟨hw, rfl⟩
  · refine fail_good.mono ?_
    intro s ⟨ht, _⟩
    cases s <;> simp only [PStorage.tag] at ht <;> omega

theorem tag_i32 (s : PStorage) : I32 s.tag := by
  cases s <;> simp [PStorage.tag, I32]

theorem parameter_good : Good parameter Parameter.WF := by
  refine (pmap_good (dseq_good i32_good (fun tag => seq_good str_good (storage_good tag))) _ _).mono ?_
  intro p hp
  exact ⟨⟨tag_i32 p.storage, hp.1, rfl, hp.2⟩, rfl⟩

/-! ### configurables -/

/-- the object carries the library's version (what `configurable_t::write` emits), and the parameter list fits -/
def Configurable.WF (c : Configurable) : Prop :=
  c.ver = libVersion ∧ c.params.length < 18446744073709551616 ∧ ∀ p ∈ c.params, p.WF

instance (c : Configurable) : Decidable c.WF := by unfold Configurable.WF; infer_instance

theorem version_good : Good version (fun v => v = libVersion) := by
  refine (pmap_good (seq_good i32_good (seq_good i32_good i32_good)) _ _).mono ?_
  intro v hv
  subst hv
  exact ⟨by decide, by decide⟩

theorem configurable_good : Good configurable Configurable.WF := by
  refine (pmap_good (seq_good version_good (vec_good parameter_good)) _ _).mono ?_
  intro c hc
  exact ⟨⟨hc.1, hc.2.1, hc.2.2⟩, rfl⟩

/-! ### features -/

def Feature.WF (f : Feature) : Prop :=
  f.type < 12 ∧ I64 f.dims.1 ∧ I64 f.dims.2.1 ∧ I64 f.dims.2.2 ∧ StrOk f.name ∧ StrsOk f.labels

instance (f : Feature) : Decidable f.WF := by unfold Feature.WF; infer_instance

theorem featureType_names : ∀ i : Fin 12,
    (featureNames.getD i.val []).length < 4294967296 ∧ featureTypeOf (featureNames.getD i.val []) = some i.val := by
  decide

theorem featureType_good : Good featureType (fun i => i < 12) := by
  refine (pmap_good str_good _ _).mono ?_
  intro i hi
  exact featureType_names ⟨i, hi⟩

theorem feature_good : Good feature Feature.WF := by
  refine (pmap_good (seq_good featureType_good (seq_good (seq_good i64_good (seq_good i64_good i64_good))
    (seq_good str_good strs_good))) _ _).mono ?_
  intro f hf
  exact ⟨⟨hf.1, ⟨hf.2.1, hf.2.2.1, hf.2.2.2.1⟩, hf.2.2.2.2.1, hf.2.2.2.2.2⟩, rfl⟩

/-! ### learners, linear models -/

def Learner.WF (l : Learner) : Prop :=
  l.cfg.WF ∧ l.inputs.length < 18446744073709551616 ∧ (∀ f ∈ l.inputs, f.WF) ∧ l.target.WF

instance (l : Learner) : Decidable l.WF := by unfold Learner.WF; infer_instance

theorem learner_good : Good learner Learner.WF := by
  refine (pmap_good (seq_good configurable_good (seq_good (vec_good feature_good) feature_good)) _ _).mono ?_
  intro l hl
  exact ⟨⟨hl.1, ⟨hl.2.1, hl.2.2.1⟩, hl.2.2.2⟩, rfl⟩

/-- `bias.size() == weights.rows()` is what `linear_t::read` insists on -/
def Linear.WF (l : Linear) : Prop :=
  l.base.WF ∧ Tensor.WF .f64 1 l.bias ∧ Tensor.WF .f64 2 l.weights ∧ linearOk l.bias l.weights = true

instance (l : Linear) : Decidable l.WF := by unfold Linear.WF; infer_instance

theorem linear_good : Good linear Linear.WF := by
  refine (pmap_good (seq_good learner_good (seq_good (tensor_good .f64 1 (by decide))
    (tensor_good .f64 2 (by decide)))) _ _).mono ?_
  intro l hl
  refine ⟨⟨hl.1, hl.2.1, hl.2.2.1⟩, ?_⟩
  simp only [hl.2.2.2, if_true]

/-! ### weak learners -/

def Single.WF (s : Single) : Prop := s.base.WF ∧ I64 s.feature ∧ Tensor.WF .f64 4 s.tables

instance (s : Single) : Decidable s.WF := by unfold Single.WF; infer_instance

theorem single_good : Good single Single.WF := by
  refine (pmap_good (seq_good learner_good (seq_good i64_good (tensor_good .f64 4 (by decide)))) _ _).mono ?_
  intro s hs
  exact ⟨⟨hs.1, hs.2.1, hs.2.2⟩, rfl⟩

def DNode.WF (n : DNode) : Prop := I32 n.feature ∧ U64 n.threshold ∧ U32 n.next ∧ I32 n.table

instance (n : DNode) : Decidable n.WF := by unfold DNode.WF; infer_instance

theorem dnode_good : Good dnode DNode.WF := by
  refine (pmap_good (seq_good i32_good (seq_good u64_good (seq_good u32_good i32_good))) _ _).mono ?_
  intro n hn
  exact ⟨⟨hn.1, hn.2.1, hn.2.2.1, hn.2.2.2⟩, rfl⟩

def WBody.WF : WBody → Prop
  | .affine s => s.WF
  | .stump s t => s.WF ∧ U64 t
  | .hinge s t h => s.WF ∧ U64 t ∧ h < 256
  | .table s h t => s.WF ∧ Tensor.WF .u64 1 h ∧ Tensor.WF .i64 1 t
  | .dtree l ns f t =>
    l.WF ∧ ns.length < 18446744073709551616 ∧ (∀ n ∈ ns, n.WF) ∧ Tensor.WF .i64 1 f ∧ Tensor.WF .f64 4 t

instance : (b : WBody) → Decidable b.WF
  | .affine s => inferInstanceAs (Decidable s.WF)
  | .stump s t => inferInstanceAs (Decidable (s.WF ∧ U64 t))
  | .hinge s t h => inferInstanceAs (Decidable (s.WF ∧ U64 t ∧ h < 256))
  | .table s h t => inferInstanceAs (Decidable (s.WF ∧ Tensor.WF .u64 1 h ∧ Tensor.WF .i64 1 t))
  | .dtree l ns f t => inferInstanceAs (Decidable (l.WF ∧ ns.length < 18446744073709551616 ∧ (∀ n ∈ ns, n.WF) ∧
      Tensor.WF .i64 1 f ∧ Tensor.WF .f64 4 t))

theorem hinge_good : Good (pmap u32 (fun h => some (h % 256)) id) (fun h => h < 256) := by
  refine (pmap_good u32_good _ _).mono ?_
  intro h hh
  refine ⟨by simp only [id]; omega, ?_⟩
  simp only [id]; congr 1; omega

theorem wbodyOf_good (kind : Nat) : Good (wbodyOf kind) (fun b => b.kind = kind ∧ b.WF) := by
  unfold wbodyOf
  split
  · rename_i h; subst h
    refine (pmap_good single_good _ _).mono ?_
    intro b ⟨hk, hw⟩
    cases b <;> simp [WBody.kind] at hk
    exact ⟨hw, rfl⟩
  split
  · rename_i h; subst h
    refine (pmap_good (seq_good single_good u64_good) _ _).mono ?_
    intro b ⟨hk, hw⟩
    cases b <;> simp [WBody.kind] at hk
    exact ⟨hw, rfl⟩
  split
  · rename_i h; subst h
    refine (pmap_good (seq_good single_good (seq_good u64_good hinge_good)) _ _).mono ?_
    intro b ⟨hk, hw⟩
    cases b <;> simp [WBody.kind] at hk
    exact ⟨hw, rfl⟩
  split
  · rename_i h; subst h
    refine (pmap_good (seq_good single_good (seq_good (tensor_good .u64 1 (by decide))
      (tensor_good .i64 1 (by decide)))) _ _).mono ?_
    intro b ⟨hk, hw⟩
    cases b <;> simp [WBody.kind] at hk
    exact ⟨hw, rfl⟩
  split
  · rename_i h; subst h
    refine (pmap_good (seq_good learner_good (seq_good (vec_good dnode_good)
      (seq_good (tensor_good .i64 1 (by decide)) (tensor_good .f64 4 (by decide))))) _ _).mono ?_
    intro b ⟨hk, hw⟩
    cases b <;> simp [WBody.kind] at hk
    exact ⟨⟨hw.1, ⟨hw.2.1, hw.2.2.1⟩, hw.2.2.2.1, hw.2.2.2.2⟩, rfl⟩
  · refine fail_good.mono ?_
    intro b ⟨hk, _⟩
    cases b <;> simp only [WBody.kind] at hk <;> omega

/-- the type id is one the factory knows and names the class of the body -/
def WLearner.WF (w : WLearner) : Prop := StrOk w.id ∧ wkind w.id = some w.body.kind ∧ w.body.WF

instance (w : WLearner) : Decidable w.WF := by unfold WLearner.WF; infer_instance

theorem wlearner_good : Good wlearner WLearner.WF := by
  have hb : ∀ id : Bytes, Good (match wkind id with | some k => wbodyOf k | none => fail)
      (fun b => wkind id = some b.kind ∧ b.WF) := by
    intro id
    cases h : wkind id with
    | none => exact fail_good.mono (fun _ hx => by simp at hx)
    | some k =>
      exact (wbodyOf_good k).mono (fun b hx => ⟨(Option.some.inj hx.1).symm, hx.2⟩)
  refine (pmap_good (dseq_good str_good hb) _ _).mono ?_
  intro w hw
  exact ⟨⟨hw.1, hw.2.1, hw.2.2⟩, rfl⟩

/-! ### gradient boosting model -/

def GBoost.WF (g : GBoost) : Prop :=
  g.base.WF ∧ Tensor.WF .f64 1 g.bias ∧
    (g.wlearners.length < 18446744073709551616 ∧ ∀ w ∈ g.wlearners, w.WF) ∧
    (g.protos.length < 18446744073709551616 ∧ ∀ w ∈ g.protos, w.WF)

instance (g : GBoost) : Decidable g.WF := by unfold GBoost.WF; infer_instance

theorem gboost_good : Good gboost GBoost.WF := by
  refine (pmap_good (seq_good learner_good (seq_good (tensor_good .f64 1 (by decide))
    (seq_good (vec_good wlearner_good) (vec_good wlearner_good)))) _ _).mono ?_
  intro g hg
  exact ⟨⟨hg.1, hg.2.1, hg.2.2.1, hg.2.2.2⟩, rfl⟩

end NanoVerif.Codec
