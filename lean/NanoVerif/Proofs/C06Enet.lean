import NanoVerif.Proofs.C06RealFn
/-!
  C06 — the elastic-net prototypes `loss(inputs·x + b, targets)/N + α₁‖x‖₁ + ½‖√α₂ x‖²` (elastic_net.cpp): the declared
  convexity and the declared strong-convexity coefficient `α₂` follow from the kernel's tangent inequality.
-/
set_option linter.unusedSectionVars false
set_option linter.unusedVariables false

namespace NanoVerif.C06
open NanoVerif.Loss NanoVerif.Fn

theorem enetOutputs_length (A : List (List ℝ)) (b : ℝ) (x : List ℝ) : (enetOutputs A b x).length = A.length := by
  simp [enetOutputs, mulVec]

theorem enetOutputs_vsub : ∀ (A : List (List ℝ)) (b : ℝ) (z x : List ℝ), z.length = x.length →
    vsub (enetOutputs A b z) (enetOutputs A b x) = mulVec A (vsub z x)
  | [], _, _, _, _ => by simp [enetOutputs, mulVec, vsub]
  | r :: A, b, z, x, h => by
    have ih := enetOutputs_vsub A b z x h
    simp only [enetOutputs, mulVec, List.map, vsub] at *
    rw [ih, dot_vsub_right r z x h]
    congr 1; ring

theorem dot_map_div (c : ℝ) : ∀ (v d : List ℝ), dot (v.map (fun a => a / c)) d = dot v d / c
  | [], d => by simp [dot_nil_left]
  | _ :: _, [] => by simp [dot]
  | a :: v, e :: d => by
    simp only [List.map, dot]; rw [dot_map_div c v d]; ring

theorem l1_subgrad : ∀ (x z : List ℝ), z.length = x.length →
    sumL (z.map abs') ≥ sumL (x.map abs') + dot (x.map sign') (vsub z x)
  | [], [], _ => by simp [sumL, dot, vsub]
  | x :: xs, z :: zs, h => by
    have ih := l1_subgrad xs zs (by simpa using h)
    have h0 := maeK_subgrad (0 : ℝ) x z
    unfold maeV maeG at h0
    simp only [sub_zero] at h0
    simp only [List.map, sumL, vsub, dot]
    linarith
  | [], _ :: _, h => by simp at h
  | _ :: _, [], h => by simp at h

theorem dot_smul_smul (s : ℝ) (x : List ℝ) : dot (smul s x) (smul s x) = s * s * dot x x := by
  rw [dot_smul_left, dot_smul_right]; ring

/-- elastic net: convex, and `α₂`-strongly convex, for every kernel that lies above its tangents -/
theorem enet_aux (kV kG : ℝ → ℝ → ℝ) (hk : ∀ t x z, kV t z ≥ kV t x + kG t x * (z - x))
    (a1 a2 : ℝ) (h1 : 0 ≤ a1) (h2 : 0 ≤ a2) (A : List (List ℝ)) (b : ℝ) (t x z : List ℝ)
    (hne : t ≠ []) (hA : A.length = t.length) (hrows : ∀ r ∈ A, r.length = x.length) (hl : z.length = x.length) :
    enetF kV a1 a2 A b t z ≥ enetF kV a1 a2 A b t x + dot (enetG kG a1 a2 A b t x) (vsub z x)
      + a2 / 2 * dot (vsub z x) (vsub z x) := by
  have hN : (0 : ℝ) < (t.length : ℝ) := by
    have : 0 < t.length := List.length_pos_iff.2 hne
    exact_mod_cast this
  have hox : (enetOutputs A b x).length = t.length := by rw [enetOutputs_length, hA]
  have hoz : (enetOutputs A b z).length = t.length := by rw [enetOutputs_length, hA]
  -- the loss part
  have hloss := sum2_subgrad kV kG hk t (enetOutputs A b x) (enetOutputs A b z) hox hoz
  rw [enetOutputs_vsub A b z x hl] at hloss
  have hggl : (map2 kG t (enetOutputs A b x)).length = t.length := by rw [map2_length _ _ _ hox.symm, hox]
  have hadj := tmulVec_adjoint x.length A (map2 kG t (enetOutputs A b x)) (vsub z x) hrows (by rw [hA, hggl])
  -- the l1 part and the ridge part
  have hl1 := l1_subgrad x z hl
  have hs : Real.sqrt a2 * Real.sqrt a2 = a2 := Real.mul_self_sqrt h2
  have hnorm := norm_vsub z x hl
  have hT : (tmulVec x.length A (map2 kG t (enetOutputs A b x))).length = x.length :=
    tmulVec_length x.length A _ hrows
  have hlen2 : (smul a1 (x.map sign')).length = (smul a2 x).length := by simp
  have hlen1 : ((tmulVec x.length A (map2 kG t (enetOutputs A b x))).map (fun v => v / (t.length : ℝ))).length =
      (vadd (smul a1 (x.map sign')) (smul a2 x)).length := by
    rw [List.length_map, vadd_length _ _ hlen2, smul_length]; exact hT
  unfold enetF enetG
  simp only [tsqrt_eq]
  rw [dot_smul_smul, dot_smul_smul, hs]
  rw [dot_vadd_left _ _ _ hlen1, dot_vadd_left _ _ _ hlen2, dot_map_div, hadj, dot_smul_left,
    dot_smul_left, dot_vsub_right x z x hl]
  have hdiv : sum2 kV t (enetOutputs A b z) / (t.length : ℝ) ≥ sum2 kV t (enetOutputs A b x) / (t.length : ℝ)
      + dot (map2 kG t (enetOutputs A b x)) (mulVec A (vsub z x)) / (t.length : ℝ) := by
    rw [← add_div]; exact div_le_div_of_nonneg_right hloss (le_of_lt hN)
  have hl1' : a1 * sumL (z.map abs') ≥ a1 * sumL (x.map abs') + a1 * dot (x.map sign') (vsub z x) := by
    rw [← mul_add]; exact mul_le_mul_of_nonneg_left hl1 h1
  rw [hnorm]
  linarith

/-! ### the kernels of elastic_net.h -/

theorem enetMseK (t x z : ℝ) : enetMseV t z ≥ enetMseV t x + enetMseG t x * (z - x) := by
  unfold enetMseV enetMseG; nlinarith [sq_nonneg (z - x)]

theorem enetHingeK (t x z : ℝ) : enetHingeV t z ≥ enetHingeV t x + enetHingeG t x * (z - x) := by
  unfold enetHingeV enetHingeG max0 sign'
  split_ifs <;> nlinarith

theorem enetLogisticK (t x z : ℝ) : enetLogisticV t z ≥ enetLogisticV t x + enetLogisticG t x * (z - x) := by
  unfold enetLogisticV enetLogisticG
  simp only [texp_eq, tlog_eq]
  have := softplus_tangent (-x * t) (-z * t)
  have h : Real.exp (-x * t) / (1 + Real.exp (-x * t)) * (-z * t - -x * t) =
      -t * Real.exp (-x * t) / (1 + Real.exp (-x * t)) * (z - x) := by ring
  rw [h] at this
  exact this

end NanoVerif.C06
