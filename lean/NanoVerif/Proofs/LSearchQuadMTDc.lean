import NanoVerif.Proofs.LSearchQuadMT
/-!
  C07 — helper lemmas: `dcstep` (morethuente.cpp:8-137) case by case, for ANY data on which the two trial values that the case
  compares coincide (`cubic = quadratic = c` in case 1, `cubic = secant = c` in cases 2 and 3 — which is what happens on a quadratic,
  where all three interpolants return the minimiser), and the two shapes of `mtBounds` (morethuente.cpp:242-270).
  Nothing here is about quadratics yet; `Proofs/LSearchQuadMTFull.lean` instantiates the lemmas.

    case 1 (`fp > fx`)                                   : brackets, `sty := stp`, next step `c`
    case 2 (`fp ≤ fx`, slopes of opposite sign)           : brackets, `sty := stx`, `stx := stp`, next step `c`
    case 3 (`fp ≤ fx`, same sign, `|dp| < |dx|`), not yet bracketed, `isfinite(c)`, `c` beyond `stp` :
                                                           `stx := stp`, next step `max(stmin, min(stmax, c))` — the safeguarded
                                                           extrapolation, `stmin/stmax` = the arguments the loop passes
-/
namespace NanoVerif.LSearch
open NanoVerif.Gen.LsPredicates

set_option linter.unusedSectionVars false
set_option linter.unusedVariables false

variable {α : Type} [Field α] [LinearOrder α] [IsStrictOrderedRing α]

/-- `dcstep`, case 1: the value increased -/
theorem dcstep_case1 (cfg : Cfg α) (s : DC α) (fp dp lo hi c : α) (h1 : fp > s.fx)
    (hc : cfg.cubic ⟨s.stx, s.fx, s.dx⟩ ⟨s.stp, fp, dp⟩ = c) (hq : quadratic ⟨s.stx, s.fx, s.dx⟩ ⟨s.stp, fp, dp⟩ = c) :
    dcstep cfg s fp dp lo hi = { s with sty := s.stp, fy := fp, dy := dp, stp := c, brackt := true } := by
  simp only [dcstep, h1, if_true, hc, hq, lt_irrefl, if_false, sub_self, zero_div, add_zero]

/-- `dcstep`, case 2: the value did not increase, the slopes have opposite signs -/
theorem dcstep_case2 (cfg : Cfg α) (s : DC α) (fp dp lo hi c : α) (h1 : ¬ fp > s.fx) (h2 : dp * (s.dx / absv s.dx) < 0)
    (hc : cfg.cubic ⟨s.stx, s.fx, s.dx⟩ ⟨s.stp, fp, dp⟩ = c) (hq : secant ⟨s.stx, s.fx, s.dx⟩ ⟨s.stp, fp, dp⟩ = c) :
    dcstep cfg s fp dp lo hi =
      { stx := s.stp, fx := fp, dx := dp, sty := s.stx, fy := s.fx, dy := s.dx, stp := c, brackt := true } := by
  simp only [dcstep, h1, if_false, h2, if_true, hc, hq, gt_iff_lt, lt_irrefl]

/-- `dcstep`, case 3 before a bracket exists: the safeguarded extrapolation `max(lo, min(hi, c))` -/
theorem dcstep_case3_unbracketed (cfg : Cfg α) (s : DC α) (fp dp lo hi c : α) (h1 : ¬ fp > s.fx)
    (h2 : ¬ dp * (s.dx / absv s.dx) < 0) (h3 : absv dp < absv s.dx) (hb : s.brackt = false)
    (hc : cfg.cubic ⟨s.stx, s.fx, s.dx⟩ ⟨s.stp, fp, dp⟩ = c) (hq : secant ⟨s.stx, s.fx, s.dx⟩ ⟨s.stp, fp, dp⟩ = c)
    (hfin : cfg.fin c = true) (hdir : (s.stp - s.stx) * (c - s.stp) > 0) :
    dcstep cfg s fp dp lo hi = { s with stx := s.stp, fx := fp, dx := dp, stp := max lo (min hi c), brackt := false } := by
  have hcond : cfg.fin c = true ∧ (s.stp - s.stx) * (c - s.stp) > 0 := ⟨hfin, hdir⟩
  simp only [dcstep, h1, if_false, h2, h3, if_true, hc, hq, hcond, and_self, hb, Bool.false_eq_true, gt_iff_lt, lt_irrefl,
    cmin_eq_min, cmax_eq_max]

/-- `mtBounds` while no bracket exists: the step is clamped to `[stpmin(), stpmax()]`, the next extrapolation bounds are
    `stp + 1.1 (stp - stx)` and `stp + 4 (stp - stx)` (computed from the UNCLAMPED step) -/
theorem mtBounds_unbracketed (cfg : Cfg α) (m : MT α) (st : Bool) (dc : DC α) (hb : dc.brackt = false) :
    mtBounds cfg m st dc = ⟨st, { dc with stp := clamp dc.stp (stpmin cfg.macheps) (stpmax cfg.macheps) },
      dc.stp + (dc.stp - dc.stx) * (11 / 10), dc.stp + (dc.stp - dc.stx) * 4, m.width, m.width1⟩ := by
  simp [mtBounds, hb]

/-- `mtBounds` once a bracket exists, no bisection forced, the clamped step strictly inside a bracket that has not collapsed:
    the next trial step is the clamped step -/
theorem mtBounds_bracketed_stp (cfg : Cfg α) (m : MT α) (st : Bool) (dc : DC α) (hb : dc.brackt = true)
    (hbis : ¬ absv (dc.sty - dc.stx) ≥ m.width1 * (66 / 100))
    (hin : ¬ (clamp dc.stp (stpmin cfg.macheps) (stpmax cfg.macheps) ≤ min dc.stx dc.sty ∨
      clamp dc.stp (stpmin cfg.macheps) (stpmax cfg.macheps) ≥ max dc.stx dc.sty))
    (hw : ¬ max dc.stx dc.sty - min dc.stx dc.sty ≤ cfg.eps0 * max dc.stx dc.sty) :
    (mtBounds cfg m st dc).dc.stp = clamp dc.stp (stpmin cfg.macheps) (stpmax cfg.macheps) := by
  simp only [mtBounds, hb, if_true, hbis, if_false, cmin_eq_min, cmax_eq_max, true_and]
  rw [if_neg]
  rintro (h' | h')
  · exact hin h'
  · exact hw h'

/-- one iteration of the loop that neither converges nor gives up, on an always-valid line function -/
theorem morethuente_step (cfg : Cfg α) (ψ : α → Eval α) (hok : ∀ t, (ψ t).ok = true) (s0 : Eval α) (n : Nat) (m : MT α)
    (ctx : Ctx α) (h0 : mtConverged cfg s0 m ctx.cur.f ctx.cur.g = false) (h0' : mtGiveUp cfg s0 m ctx.cur.f ctx.cur.g = false) :
    morethuente cfg (fun _ => ψ) s0 (n + 1) m ctx =
      morethuente cfg (fun _ => ψ) s0 n (mtNext cfg s0 m ctx.cur.f ctx.cur.g)
        (ask (fun _ => ψ) ctx (mtNext cfg s0 m ctx.cur.f ctx.cur.g).dc.stp) := by
  have hok' : (ask (fun _ => ψ) ctx (mtNext cfg s0 m ctx.cur.f ctx.cur.g).dc.stp).cur.ok = true := by simp [ask, hok]
  rw [morethuente, h0, h0']
  simp only [Bool.false_eq_true, if_false, hok', if_true]

end NanoVerif.LSearch
