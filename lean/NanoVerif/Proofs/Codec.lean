import NanoVerif.Model.Codec
/-!
  C15 — generic theorems about the codec combinators (core Lean only).

  `Good c wf` bundles the two facts every wire format has to satisfy on its well-formed values:
  * `rt` — round trip: reading what was written (followed by anything) gives the value back and leaves the rest;
  * `ps` — prefix safety: every *strict* prefix of what was written is refused.
-/
namespace NanoVerif.Codec

def Codec.RoundTrip {α : Type} (c : Codec α) (wf : α → Prop) : Prop :=
  ∀ x rest, wf x → c.dec (c.enc x ++ rest) = some (x, rest)

/-- every strict prefix of a valid encoding is rejected -/
def Codec.PrefixSafe {α : Type} (c : Codec α) (wf : α → Prop) : Prop :=
  ∀ x p, wf x → p <+: c.enc x → p ≠ c.enc x → c.dec p = none

structure Good {α : Type} (c : Codec α) (wf : α → Prop) : Prop where
  rt : c.RoundTrip wf
  ps : c.PrefixSafe wf

theorem Good.mono {α : Type} {c : Codec α} {w w' : α → Prop} (h : Good c w) (hw : ∀ x, w' x → w x) : Good c w' :=
  ⟨fun x rest hx => h.rt x rest (hw x hx), fun x p hx => h.ps x p (hw x hx)⟩

/-- a reader that succeeded on a complete stream never looks at less than the whole encoding:
    for a well-formed value the whole encoding decodes to the value with nothing left -/
theorem Good.dec_enc {α : Type} {c : Codec α} {w : α → Prop} (h : Good c w) (x : α) (hx : w x) :
    c.dec (c.enc x) = some (x, []) := by
  have := h.rt x [] hx
  simpa using this

/-! ### lists -/

theorem prefix_append_cases {α : Type} {p l₁ l₂ : List α} (h : p <+: l₁ ++ l₂) :
    p <+: l₁ ∨ ∃ q, p = l₁ ++ q ∧ q <+: l₂ := by
  rcases List.prefix_or_prefix_of_prefix h (List.prefix_append l₁ l₂) with h1 | h1
  · exact Or.inl h1
  · obtain ⟨q, rfl⟩ := h1
    exact Or.inr ⟨q, rfl, (List.prefix_append_right_inj l₁).mp h⟩

theorem strict_prefix_length {α : Type} {p l : List α} (h : p <+: l) (hne : p ≠ l) : p.length < l.length := by
  rcases Nat.lt_or_ge p.length l.length with h1 | h1
  · exact h1
  · exact absurd (h.eq_of_length (Nat.le_antisymm h.length_le h1)) hne

/-! ### raw bytes -/

theorem takeN_append : ∀ (x rest : Bytes), takeN x.length (x ++ rest) = some (x, rest)
  | [], rest => by simp [takeN]
  | b :: x, rest => by simp [takeN, takeN_append x rest]

theorem takeN_short : ∀ (n : Nat) (p : Bytes), p.length < n → takeN n p = none
  | 0, _, h => by omega
  | n + 1, [], _ => by simp [takeN]
  | n + 1, b :: p, h => by
    have : p.length < n := by simp at h; omega
    simp [takeN, takeN_short n p this]

theorem takeN_some : ∀ (n : Nat) (bs x r : Bytes), takeN n bs = some (x, r) → bs = x ++ r ∧ x.length = n
  | 0, bs, x, r, h => by simp [takeN] at h; obtain ⟨rfl, rfl⟩ := h; simp
  | n + 1, [], x, r, h => by simp [takeN] at h
  | n + 1, b :: bs, x, r, h => by
    simp only [takeN] at h
    cases h1 : takeN n bs with
    | none => simp [h1] at h
    | some q =>
      obtain ⟨x', r'⟩ := q
      simp [h1] at h
      obtain ⟨rfl, rfl⟩ := h
      obtain ⟨rfl, hl⟩ := takeN_some n bs x' r' h1
      simp [hl]

theorem raw_good (n : Nat) : Good (raw n) (fun x => x.length = n) := by
  refine ⟨?_, ?_⟩
  · intro x rest hx
    simp only [raw]
    rw [← hx]; exact takeN_append x rest
  · intro x p hx hp hne
    simp only [raw] at hp hne ⊢
    exact takeN_short n p (hx ▸ strict_prefix_length hp hne)

theorem unit_good : Good unit (fun _ => True) := by
  refine ⟨fun x rest _ => by simp [unit], ?_⟩
  intro x p _ hp hne
  simp only [unit] at hp hne
  exact absurd (List.prefix_nil.mp hp) hne

theorem fail_good {α : Type} : Good (fail : Codec α) (fun _ => False) :=
  ⟨fun _ _ h => h.elim, fun _ _ h => h.elim⟩

/-! ### pmap / dseq -/

theorem pmap_good {α β : Type} {c : Codec α} {w : α → Prop} (h : Good c w) (f : α → Option β) (g : β → α) :
    Good (pmap c f g) (fun y => w (g y) ∧ f (g y) = some y) := by
  refine ⟨?_, ?_⟩
  · intro y rest ⟨hw, hf⟩
    simp only [pmap]
    rw [h.rt (g y) rest hw]
    simp only [hf]
  · intro y p ⟨hw, _⟩ hp hne
    simp only [pmap] at hp hne ⊢
    rw [h.ps (g y) p hw hp hne]

theorem dseq_good {α β : Type} {a : Codec α} {b : α → Codec β} {wa : α → Prop} {wb : α → β → Prop}
    (ha : Good a wa) (hb : ∀ x, Good (b x) (wb x)) :
    Good (dseq a b) (fun p => wa p.1 ∧ wb p.1 p.2) := by
  refine ⟨?_, ?_⟩
  · intro ⟨x, y⟩ rest ⟨hx, hy⟩
    simp only [dseq, List.append_assoc]
    rw [ha.rt x _ hx]
    simp only []
    rw [(hb x).rt y _ hy]
  · intro ⟨x, y⟩ p ⟨hx, hy⟩ hp hne
    simp only [dseq] at hp hne ⊢
    rcases prefix_append_cases hp with h | ⟨q, rfl, hq⟩
    · by_cases he : p = a.enc x
      · subst he
        rw [ha.dec_enc x hx]
        simp only []
        have hy' : ([] : Bytes) ≠ (b x).enc y := by
          intro h0; apply hne; rw [← h0]; simp
        rw [(hb x).ps y [] hy List.nil_prefix hy']
      · rw [ha.ps x p hx h he]
    · rw [ha.rt x q hx]
      simp only []
      have : q ≠ (b x).enc y := by intro h0; apply hne; rw [h0]
      rw [(hb x).ps y q hy hq this]

theorem seq_good {α β : Type} {a : Codec α} {b : Codec β} {wa : α → Prop} {wb : β → Prop}
    (ha : Good a wa) (hb : Good b wb) : Good (seq a b) (fun p => wa p.1 ∧ wb p.2) :=
  dseq_good ha (fun _ => hb)

/-! ### scalars -/

theorem leBytes_length : ∀ (k n : Nat), (leBytes k n).length = k
  | 0, _ => rfl
  | k + 1, n => by simp [leBytes, leBytes_length k]

theorem leNat_leBytes : ∀ (k n : Nat), n < 256 ^ k → leNat (leBytes k n) = n
  | 0, n, h => by simp at h; simp [leBytes, leNat, h]
  | k + 1, n, h => by
    have h1 : n / 256 < 256 ^ k := by
      apply Nat.div_lt_of_lt_mul
      rw [Nat.pow_succ, Nat.mul_comm] at h; exact h
    simp only [leBytes, leNat, leNat_leBytes k _ h1, UInt8.toNat_ofNat']
    omega

theorem leNat_lt : ∀ (bs : Bytes), leNat bs < 256 ^ bs.length
  | [] => by simp [leNat]
  | b :: bs => by
    have := leNat_lt bs
    have hb : b.toNat < 256 := b.toNat_lt
    simp only [leNat, List.length_cons, Nat.pow_succ]
    omega

theorem leBytes_leNat : ∀ (bs : Bytes), leBytes bs.length (leNat bs) = bs
  | [] => rfl
  | b :: bs => by
    have hb : b.toNat < 256 := b.toNat_lt
    have h1 : (b.toNat + 256 * leNat bs) % 256 = b.toNat := by omega
    have h2 : (b.toNat + 256 * leNat bs) / 256 = leNat bs := by omega
    simp only [leNat, List.length_cons, leBytes, h1, h2, leBytes_leNat bs]
    simp

theorem uintLE_good (k : Nat) : Good (uintLE k) (fun n => n < 256 ^ k) :=
  (pmap_good (raw_good k) _ _).mono (fun n hn => ⟨leBytes_length k n, by simp [leNat_leBytes k n hn]⟩)

theorem u32_good : Good u32 (fun n => n < 4294967296) := uintLE_good 4
theorem u64_good : Good u64 (fun n => n < 18446744073709551616) := uintLE_good 8

theorem signed_rt (M : Nat) (i : Int) (h1 : -((M / 2 : Nat) : Int) ≤ i) (h2 : i < ((M / 2 : Nat) : Int))
    (hE : M % 2 = 0) :
    (i % (M : Int)).toNat < M ∧
      (if (i % (M : Int)).toNat < M / 2 then (((i % (M : Int)).toNat : Nat) : Int)
       else (((i % (M : Int)).toNat : Nat) : Int) - (M : Int)) = i := by
  by_cases hc : i < 0
  · have e : i % (M : Int) = i + M := by
      rw [← Int.add_emod_right]
      exact Int.emod_eq_of_lt (by omega) (by omega)
    rw [e]
    refine ⟨by omega, ?_⟩
    rw [if_neg (by omega)]; omega
  · have e : i % (M : Int) = i := Int.emod_eq_of_lt (by omega) (by omega)
    rw [e]
    refine ⟨by omega, ?_⟩
    rw [if_pos (by omega)]; omega

theorem intLE_good (k : Nat) (hk : 0 < k) :
    Good (intLE k) (fun i => -((256 ^ k / 2 : Nat) : Int) ≤ i ∧ i < ((256 ^ k / 2 : Nat) : Int)) := by
  unfold intLE
  refine (pmap_good (uintLE_good k) _ _).mono ?_
  intro i ⟨h1, h2⟩
  have hE : 256 ^ k % 2 = 0 := by
    cases k with
    | zero => omega
    | succ k => rw [Nat.pow_succ]; omega
  have := signed_rt (256 ^ k) i h1 h2 hE
  exact ⟨this.1, congrArg some this.2⟩

theorem i32_good : Good i32 (fun i => -2147483648 ≤ i ∧ i < 2147483648) :=
  (intLE_good 4 (by decide)).mono (fun i h => by
    have e : (256 ^ 4 / 2 : Nat) = 2147483648 := by decide
    rw [e]; exact ⟨by omega, by omega⟩)

theorem i64_good : Good i64 (fun i => -9223372036854775808 ≤ i ∧ i < 9223372036854775808) :=
  (intLE_good 8 (by decide)).mono (fun i h => by
    have e : (256 ^ 8 / 2 : Nat) = 9223372036854775808 := by decide
    rw [e]; exact ⟨by omega, by omega⟩)

theorem const_good {α : Type} [DecidableEq α] {c : Codec α} {w : α → Prop} (h : Good c w) (v : α) (hv : w v) :
    Good (const c v) (fun _ => True) :=
  (pmap_good h _ _).mono (fun _ _ => ⟨hv, by simp⟩)

theorem flag_good : Good flag (fun _ => True) := by
  refine (pmap_good u32_good _ _).mono ?_
  intro b _
  cases b <;> simp

/-! ### repetition, vectors, strings, factories -/

theorem rep_good {α : Type} {c : Codec α} {w : α → Prop} (h : Good c w) :
    ∀ n, Good (rep c n) (fun xs => xs.length = n ∧ ∀ x ∈ xs, w x) := by
  intro n
  induction n with
  | zero =>
    refine ⟨?_, ?_⟩
    · intro xs rest ⟨hl, _⟩
      have : xs = [] := List.length_eq_zero_iff.mp hl
      subst this; simp [rep, encList, decN]
    · intro xs p ⟨hl, _⟩ hp hne
      have : xs = [] := List.length_eq_zero_iff.mp hl
      subst this
      simp only [rep, encList] at hp hne
      exact absurd (List.prefix_nil.mp hp) hne
  | succ n ih =>
    refine ⟨?_, ?_⟩
    · intro xs rest ⟨hl, hw⟩
      cases xs with
      | nil => simp at hl
      | cons x xs =>
        have hx : w x := hw x (by simp)
        have hxs : xs.length = n ∧ ∀ y ∈ xs, w y := ⟨by simpa using hl, fun y hy => hw y (by simp [hy])⟩
        have := ih.rt xs rest hxs
        simp only [rep] at this
        simp only [rep, encList, decN, List.append_assoc]
        rw [h.rt x _ hx]
        simp only []
        rw [this]
    · intro xs p ⟨hl, hw⟩ hp hne
      cases xs with
      | nil => simp at hl
      | cons x xs =>
        have hx : w x := hw x (by simp)
        have hxs : xs.length = n ∧ ∀ y ∈ xs, w y := ⟨by simpa using hl, fun y hy => hw y (by simp [hy])⟩
        simp only [rep, encList] at hp hne
        simp only [rep, decN]
        rcases prefix_append_cases hp with h1 | ⟨q, rfl, hq⟩
        · by_cases he : p = c.enc x
          · subst he
            rw [h.dec_enc x hx]
            simp only []
            have hy' : ([] : Bytes) ≠ encList c xs := by
              intro h0; apply hne; rw [← h0]; simp
            have := ih.ps xs [] hxs List.nil_prefix hy'
            simp only [rep] at this
            rw [this]
          · rw [h.ps x p hx h1 he]
        · rw [h.rt x q hx]
          simp only []
          have hq' : q ≠ encList c xs := by intro h0; apply hne; rw [h0]
          have := ih.ps xs q hxs hq hq'
          simp only [rep] at this
          rw [this]

theorem vec_good {α : Type} {c : Codec α} {w : α → Prop} (h : Good c w) :
    Good (vec c) (fun xs => xs.length < 18446744073709551616 ∧ ∀ x ∈ xs, w x) :=
  (pmap_good (dseq_good u64_good (rep_good h)) _ _).mono (fun _ hx => ⟨⟨hx.1, rfl, hx.2⟩, rfl⟩)

theorem str_good : Good str (fun s => s.length < 4294967296) :=
  (pmap_good (dseq_good u32_good raw_good) _ _).mono (fun _ hx => ⟨⟨hx, rfl⟩, rfl⟩)

theorem factory_good {β : Type} {body : Codec β} {w : β → Prop} (ids : List Bytes) (h : Good body w) :
    Good (factory ids body) (fun p => p.1.length < 4294967296 ∧ p.1 ∈ ids ∧ w p.2) := by
  have hb : ∀ id : Bytes, Good (if id ∈ ids then body else fail) (fun y => id ∈ ids ∧ w y) := by
    intro id
    by_cases hid : id ∈ ids
    · simp only [hid, if_true]; exact h.mono (fun _ hx => hx.2)
    · simp only [hid, if_false]; exact fail_good.mono (fun _ hx => hx.1)
  exact (dseq_good str_good hb).mono (fun _ hx => ⟨hx.1, hx.2.1, hx.2.2⟩)

end NanoVerif.Codec
