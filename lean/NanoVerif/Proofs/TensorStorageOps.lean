import NanoVerif.Proofs.TensorStorage
/-!
  C16 — the conversions / assignments / copies / moves / resizes of the three tensor storages on the heap model
  (`Model/TensorStorage.lean`): what each operation does to the destination, to the source and to EVERY other cell of the heap.
  Core Lean only.
-/
namespace NanoVerif.Tensor.Store
open NanoVerif.Tensor

variable {α : Type}

/-! ### objects -/

theorem inBuf_iff (p : Ptr) (c : Nat) : p.inBuf c = true ↔ ∃ off, p = some (c, off) := by
  cases p with
  | none => simp [Ptr.inBuf]
  | some q =>
    obtain ⟨b, o⟩ := q
    simp only [Ptr.inBuf, beq_iff_eq, Option.some.injEq, Prod.mk.injEq]
    constructor
    · intro hb; exact ⟨o, hb, rfl⟩
    · intro ⟨_, hb, _⟩; exact hb

theorem count_of_view {h : Heap α} {o : Obj} (hk : o.kind ≠ .mem) : o.count h = size o.dims := by
  simp [Obj.count, hk]

theorem len_of_okMem {h : Heap α} {o : Obj} (ho : o.OkMem h) : h.len o.ptr = size o.dims := by
  obtain ⟨_, ho⟩ := ho
  rcases ho with ⟨hp, hs⟩ | ⟨b, buf, hp, hb, hl, _⟩
  · rw [hp, hs]; rfl
  · rw [hp]; simp [Heap.len, hb, hl]

/-- a well-formed owning tensor copies exactly its `size()` elements -/
theorem count_of_okMem {h : Heap α} {o : Obj} (ho : o.OkMem h) : o.count h = size o.dims := by
  simp [Obj.count, ho.1, len_of_okMem ho]

/-- a well-formed owning tensor is readable: its `size()` elements are its whole allocation -/
theorem ok_of_okMem {h : Heap α} {o : Obj} (ho : o.OkMem h) : o.Ok h := by
  obtain ⟨_, ho⟩ := ho
  unfold Obj.Ok Obj.elems
  rcases ho with ⟨hp, hs⟩ | ⟨b, buf, hp, hb, hl, _⟩
  · rw [hs, read_zero]; rfl
  · rw [hp, read_of_buf hb (by omega)]; rfl

/-- the pointer of a well-formed owner is null or addresses an allocation that exists -/
theorem ptr_lt_of_okMem {h : Heap α} {o : Obj} (ho : o.OkMem h) : ∀ b off, o.ptr = some (b, off) → b < h.length ∧ off = 0 := by
  intro b off hp
  obtain ⟨_, ho⟩ := ho
  rcases ho with ⟨hp', _⟩ | ⟨b', buf, hp', hb, _, _⟩
  · rw [hp'] at hp; cases hp
  · rw [hp'] at hp
    cases hp
    exact ⟨buf_lt hb, rfl⟩

/-- a readable object with elements addresses an existing allocation -/
theorem ptr_lt_of_read {h : Heap α} {p : Ptr} {n : Nat} {xs : List α} (hn : 0 < n) (hr : h.read p n = some xs) :
    ∃ b off, p = some (b, off) ∧ b < h.length := by
  cases p with
  | none => rw [read_null h n hn] at hr; cases hr
  | some q =>
    obtain ⟨b, off⟩ := q
    obtain ⟨buf, hb, _, _⟩ := read_some hn hr
    exact ⟨b, off, rfl, buf_lt hb⟩

/-- reading a sub-range through an advanced pointer: `(p + k)[0, m)` = `p[k, k + m)` — no element outside `p[0, n)` -/
theorem read_add {h : Heap α} {p : Ptr} {n : Nat} {xs : List α} (hr : h.read p n = some xs) (k m : Nat) (hkm : k + m ≤ n) :
    h.read (p.add k) m = some ((xs.drop k).take m) := by
  by_cases hm : m = 0
  · subst hm; simp [read_zero]
  · cases p with
    | none => rw [read_null h n (by omega)] at hr; cases hr
    | some q =>
      obtain ⟨b, off⟩ := q
      obtain ⟨buf, hb, hle, hx⟩ := read_some (by omega) hr
      subst hx
      show h.read (some (b, off + k)) m = _
      rw [read_of_buf hb (by omega)]
      congr 1
      apply List.ext_getElem?
      intro j
      simp only [List.getElem?_take, List.getElem?_drop]
      by_cases hj : j < m
      · rw [if_pos hj, if_pos hj, if_pos (by omega)]
        congr 1
        omega
      · rw [if_neg hj, if_neg hj]

/-! ### fresh allocations: the two orders in which the code allocates and releases -/

/-- allocate, then release the previous allocation (`owning = map`): the new object is well-formed and holds the elements -/
theorem alloc_then_free (h : Heap α) (xs : List α) (dims : List Nat) (p : Ptr) (hx : xs.length = size dims)
    (hp : ∀ b off, p = some (b, off) → b < h.length) :
    (⟨.mem, (h.alloc xs).2, dims⟩ : Obj).OkMem ((h.alloc xs).1.free p) ∧
    ((h.alloc xs).1.free p).read (h.alloc xs).2 (size dims) = some xs := by
  rcases alloc_ptr h xs with ⟨h0, he⟩ | ⟨hpos, he⟩
  · rw [he]
    have hs : size dims = 0 := by omega
    refine ⟨⟨rfl, Or.inl ⟨rfl, hs⟩⟩, ?_⟩
    rw [hs, read_zero]
    congr 1
    exact (List.eq_nil_of_length_eq_zero h0).symm
  · rw [he]
    have hb : ((h ++ [some xs]).free p).buf h.length = some xs := by
      cases p with
      | none => exact buf_append_new h (some xs)
      | some q =>
        obtain ⟨b, off⟩ := q
        rw [buf_free_other _ b off _ (by have := hp b off rfl; omega)]
        exact buf_append_new h (some xs)
    refine ⟨⟨rfl, Or.inr ⟨h.length, xs, rfl, hb, hx, (by show 0 < size dims; omega)⟩⟩, ?_⟩
    rw [read_of_buf hb (by omega)]
    simp [← hx]

/-- allocate without releasing / after releasing (`h` is the heap the allocation is made in) -/
theorem alloc_okMem (h : Heap α) (xs : List α) (dims : List Nat) (hx : xs.length = size dims) :
    (⟨.mem, (h.alloc xs).2, dims⟩ : Obj).OkMem (h.alloc xs).1 ∧ (h.alloc xs).1.read (h.alloc xs).2 (size dims) = some xs := by
  have := alloc_then_free h xs dims none hx (by intro b off hp; cases hp)
  exact this

/-! ### copy construction of an owning tensor (storage.h:35, 53-63) -/

/-- `assign_preserves_elements`, constructor form: the new owning tensor has the source's dims and the source's element
    sequence; it is well-formed -/
theorem memCopy_elems {h h' : Heap α} {src o : Obj} (hc : src.count h = size src.dims)
    (hm : memCopy h src = some (h', o)) :
    o.dims = src.dims ∧ o.elems h' = src.elems h ∧ o.OkMem h' := by
  unfold memCopy at hm
  rw [hc] at hm
  cases hr : h.read src.ptr (size src.dims) with
  | none => simp [hr] at hm
  | some xs =>
    simp only [hr, Option.bind_eq_bind, Option.bind_some, Option.pure_def, Option.some.injEq, Prod.mk.injEq] at hm
    obtain ⟨h1, h2⟩ := hm
    subst h1 h2
    have hl := read_length hr
    obtain ⟨hok, hrd⟩ := alloc_okMem h xs src.dims hl
    exact ⟨rfl, by unfold Obj.elems; rw [hrd, hr], hok⟩

/-- no fault: copying a readable source succeeds -/
theorem memCopy_succeeds {h : Heap α} {src : Obj} (hc : src.count h = size src.dims) (hs : src.Ok h) :
    ∃ r, memCopy h src = some r := by
  unfold Obj.Ok Obj.elems at hs
  unfold memCopy
  rw [hc]
  cases hr : h.read src.ptr (size src.dims) with
  | none => rw [hr] at hs; cases hs
  | some xs => exact ⟨_, rfl⟩

/-- FRAME: the copy construction changes no existing buffer (it only appends a fresh allocation) -/
theorem memCopy_frame {h h' : Heap α} {src o : Obj} (hm : memCopy h src = some (h', o)) (b : Nat) (hb : b < h.length) :
    h'.buf b = h.buf b := by
  unfold memCopy at hm
  cases hr : h.read src.ptr (src.count h) with
  | none => simp [hr] at hm
  | some xs =>
    simp only [hr, Option.bind_eq_bind, Option.bind_some, Option.pure_def, Option.some.injEq, Prod.mk.injEq] at hm
    rw [← hm.1]
    exact buf_alloc_old h xs b hb

/-- the copy lives in an allocation that did not exist before: no pointer valid in the old heap addresses it -/
theorem memCopy_fresh {h h' : Heap α} {src o : Obj} (hm : memCopy h src = some (h', o)) :
    ∀ b off, o.ptr = some (b, off) → b = h.length ∧ off = 0 := by
  unfold memCopy at hm
  cases hr : h.read src.ptr (src.count h) with
  | none => simp [hr] at hm
  | some xs =>
    simp only [hr, Option.bind_eq_bind, Option.bind_some, Option.pure_def, Option.some.injEq, Prod.mk.injEq] at hm
    rw [← hm.2]
    intro b off hp
    rcases alloc_ptr h xs with ⟨_, he⟩ | ⟨_, he⟩
    · rw [he] at hp; cases hp
    · rw [he] at hp
      cases hp
      exact ⟨rfl, rfl⟩

/-- every object readable before the copy reads the same afterwards -/
theorem memCopy_others {h h' : Heap α} {src o : Obj} (hm : memCopy h src = some (h', o)) (q : Obj) (ys : List α)
    (hq : q.elems h = some ys) : q.elems h' = some ys := by
  unfold memCopy at hm
  cases hr : h.read src.ptr (src.count h) with
  | none => simp [hr] at hm
  | some xs =>
    simp only [hr, Option.bind_eq_bind, Option.bind_some, Option.pure_def, Option.some.injEq, Prod.mk.injEq] at hm
    rw [← hm.1]
    exact read_alloc_keep h xs q.ptr _ ys hq

/-- COPIES ARE INDEPENDENT (1): writing the copy never changes the source — nor any other object that was readable
    before the copy was made -/
theorem copy_independent_of_writes_to_copy {h h' h'' : Heap α} {src o : Obj} (hm : memCopy h src = some (h', o))
    (vals : List α) (hw : o.write h' vals = some h'') (q : Obj) (ys : List α) (hq : q.elems h = some ys) :
    q.elems h'' = some ys := by
  have hq' := memCopy_others hm q ys hq
  unfold Obj.write at hw
  by_cases hg : o.kind ≠ .cmap ∧ vals.length = size o.dims
  · rw [if_pos hg] at hw
    by_cases hn : size q.dims = 0
    · unfold Obj.elems at hq ⊢
      rw [hn, read_zero] at hq ⊢
      exact hq
    · obtain ⟨c, o2, hqp, hc⟩ := ptr_lt_of_read (Nat.pos_of_ne_zero hn) hq
      cases hop : o.ptr with
      | none =>
        rw [hop] at hw
        by_cases hv : vals.length = 0
        · simp [Heap.write, hv] at hw
          subst hw; exact hq'
        · simp [Heap.write, hv] at hw
      | some pp =>
        obtain ⟨b, off⟩ := pp
        obtain ⟨hb, _⟩ := memCopy_fresh hm b off hop
        rw [hop] at hw
        unfold Obj.elems at hq' ⊢
        rw [hqp] at hq' ⊢
        rw [read_write_disjoint hw c o2 _ (Or.inl (by omega))]
        exact hq'
  · rw [if_neg hg] at hw; cases hw

/-- COPIES ARE INDEPENDENT (2): writing through any pointer that was valid before the copy was made (the source, a view
    of it, anything else) never changes the copy -/
theorem copy_independent_of_writes_to_source {h h' h'' : Heap α} {src o : Obj} (hm : memCopy h src = some (h', o))
    (b off : Nat) (hb : b < h.length) (vals : List α) (hw : h'.write (some (b, off)) vals = some h'') :
    o.elems h'' = o.elems h' := by
  unfold Obj.elems
  cases hop : o.ptr with
  | none =>
    by_cases hn : size o.dims = 0
    · rw [hn, read_zero, read_zero]
    · rw [read_null _ _ (Nat.pos_of_ne_zero hn), read_null _ _ (Nat.pos_of_ne_zero hn)]
  | some pp =>
    obtain ⟨c, o2⟩ := pp
    obtain ⟨hc, _⟩ := memCopy_fresh hm c o2 hop
    exact read_write_disjoint hw c o2 _ (Or.inl (by omega))

/-! ### `owning = map / constant map` (storage.h:65-79) -/

/-- `assign_preserves_elements`, also for a source that views the destination's own buffer (`t = t.slice(b, e)`, any
    offset, any shape): the assigned tensor holds the elements the source had BEFORE the assignment, has the source's
    dims and is well-formed. Nothing relates `src` to `dst` in the hypotheses. -/
theorem memAssignView_elems {h h' : Heap α} {dst src o : Obj} (hd : dst.OkMem h)
    (hm : memAssignView h dst src = some (h', o)) :
    o.dims = src.dims ∧ o.elems h' = src.elems h ∧ o.OkMem h' := by
  unfold memAssignView at hm
  cases hr : h.read src.ptr (size src.dims) with
  | none => simp [hr] at hm
  | some xs =>
    simp only [hr, Option.bind_eq_bind, Option.bind_some, Option.pure_def, Option.some.injEq, Prod.mk.injEq] at hm
    obtain ⟨h1, h2⟩ := hm
    subst h1 h2
    obtain ⟨hok, hrd⟩ := alloc_then_free h xs src.dims dst.ptr (read_length hr)
      (fun b off hp => (ptr_lt_of_okMem hd b off hp).1)
    exact ⟨rfl, by unfold Obj.elems; rw [hrd, hr], hok⟩

theorem memAssignView_succeeds {h : Heap α} {dst src : Obj} (hs : src.Ok h) : ∃ r, memAssignView h dst src = some r := by
  unfold Obj.Ok Obj.elems at hs
  unfold memAssignView
  cases hr : h.read src.ptr (size src.dims) with
  | none => rw [hr] at hs; cases hs
  | some xs => exact ⟨_, rfl⟩

/-- `owning = map` ALWAYS moves the tensor into a fresh allocation — also when the element count is unchanged -/
theorem memAssignView_fresh {h h' : Heap α} {dst src o : Obj} (hm : memAssignView h dst src = some (h', o)) :
    ∀ b off, o.ptr = some (b, off) → b = h.length ∧ off = 0 := by
  unfold memAssignView at hm
  cases hr : h.read src.ptr (size src.dims) with
  | none => simp [hr] at hm
  | some xs =>
    simp only [hr, Option.bind_eq_bind, Option.bind_some, Option.pure_def, Option.some.injEq, Prod.mk.injEq] at hm
    rw [← hm.2]
    intro b off hp
    rcases alloc_ptr h xs with ⟨_, he⟩ | ⟨_, he⟩
    · rw [he] at hp; cases hp
    · rw [he] at hp
      cases hp
      exact ⟨rfl, rfl⟩

/-- FRAME: every existing buffer except the destination's previous allocation is untouched; that one is released -/
theorem memAssignView_frame {h h' : Heap α} {dst src o : Obj} (hm : memAssignView h dst src = some (h', o)) (c : Nat)
    (hc : c < h.length) :
    h'.buf c = if dst.ptr.inBuf c then none else h.buf c := by
  unfold memAssignView at hm
  cases hr : h.read src.ptr (size src.dims) with
  | none => simp [hr] at hm
  | some xs =>
    simp only [hr, Option.bind_eq_bind, Option.bind_some, Option.pure_def, Option.some.injEq, Prod.mk.injEq] at hm
    rw [← hm.1]
    cases hp : dst.ptr with
    | none =>
      rw [if_neg (by simp [Ptr.inBuf])]
      exact buf_alloc_old h xs c hc
    | some q =>
      obtain ⟨b, off⟩ := q
      by_cases hcb : c = b
      · subst hcb
        rw [if_pos (by simp [Ptr.inBuf])]
        exact buf_free_same _ _ _
      · rw [if_neg (by simp [Ptr.inBuf]; exact fun hx => hcb hx.symm)]
        rw [buf_free_other _ b off c hcb]
        exact buf_alloc_old h xs c hc

/-- … so a view of the destination's PREVIOUS allocation (the source itself included, when it viewed the destination)
    points into released memory afterwards: any access through it is an access outside every live buffer -/
theorem memAssignView_stale_view_dangles {h h' : Heap α} {dst src o : Obj} (hd : dst.OkMem h)
    (hm : memAssignView h dst src = some (h', o)) (q : Obj) (b off : Nat) (hq : q.ptr = some (b, off))
    (hdp : ∃ o2, dst.ptr = some (b, o2)) (hn : 0 < size q.dims) : q.elems h' = none := by
  obtain ⟨o2, hdp'⟩ := hdp
  have hb := (ptr_lt_of_okMem hd b o2 hdp').1
  have := memAssignView_frame hm b hb
  rw [if_pos ((inBuf_iff _ _).mpr ⟨o2, hdp'⟩)] at this
  unfold Obj.elems
  rw [hq]
  simp only [Heap.read, this]
  rw [if_neg (by omega)]

/-- objects that do not view the destination's previous allocation read as before -/
theorem memAssignView_others {h h' : Heap α} {dst src o : Obj} (hm : memAssignView h dst src = some (h', o)) (q : Obj)
    (ys : List α) (hq : q.elems h = some ys) (hne : ∀ b o1 o2, q.ptr = some (b, o1) → dst.ptr ≠ some (b, o2)) :
    q.elems h' = some ys := by
  by_cases hn : size q.dims = 0
  · unfold Obj.elems at hq ⊢
    rw [hn, read_zero] at hq ⊢
    exact hq
  · obtain ⟨c, o2, hqp, hc⟩ := ptr_lt_of_read (Nat.pos_of_ne_zero hn) hq
    have := memAssignView_frame hm c hc
    rw [if_neg (by intro hx; obtain ⟨o3, hx⟩ := (inBuf_iff _ _).mp hx; exact hne c o2 o3 hqp hx)] at this
    unfold Obj.elems at hq ⊢
    rw [hqp] at hq ⊢
    rw [read_congr this]
    exact hq

/-! ### `resize` (storage.h:81-92) -/

/-- resize to the same number of elements: nothing is allocated, released or written — the allocation and every element
    (in flat order) are kept, only the dims change; maps of the tensor stay valid -/
theorem memResize_same_count (junk : α) (h : Heap α) (dst : Obj) (dims : List Nat) (hs : h.len dst.ptr = size dims) :
    memResize junk h dst dims = (h, ⟨.mem, dst.ptr, dims⟩) := by
  unfold memResize
  rw [if_pos hs]

theorem memResize_same_count_elems (junk : α) (h : Heap α) (dst : Obj) (dims : List Nat) (hd : dst.OkMem h)
    (hs : size dst.dims = size dims) :
    (memResize junk h dst dims).1 = h ∧ (memResize junk h dst dims).2.elems h = dst.elems h ∧
    (memResize junk h dst dims).2.OkMem h := by
  rw [memResize_same_count junk h dst dims (by rw [len_of_okMem hd, hs])]
  refine ⟨rfl, by unfold Obj.elems; rw [← hs], ?_⟩
  obtain ⟨_, hd⟩ := hd
  refine ⟨rfl, ?_⟩
  rcases hd with ⟨hp, hz⟩ | ⟨b, buf, hp, hb, hl, hpos⟩
  · exact Or.inl ⟨hp, (by show size dims = 0; omega)⟩
  · exact Or.inr ⟨b, buf, hp, hb, (by show buf.length = size dims; omega), (by show 0 < size dims; omega)⟩

/-- resize to another number of elements: the previous allocation is released, the tensor moves to a fresh allocation of
    uninitialised elements (the previous contents are LOST), every other buffer is untouched -/
theorem memResize_other_count (junk : α) (h : Heap α) (dst : Obj) (dims : List Nat) (hd : dst.OkMem h)
    (hs : size dst.dims ≠ size dims) :
    let r := memResize junk h dst dims
    r.2.OkMem r.1 ∧ r.2.elems r.1 = some (List.replicate (size dims) junk) ∧ r.2.dims = dims ∧
    (∀ b off, r.2.ptr = some (b, off) → b = h.length ∧ off = 0) ∧
    (∀ c, c < h.length → r.1.buf c = if dst.ptr.inBuf c then none else h.buf c) := by
  intro r
  have hne : ¬ h.len dst.ptr = size dims := by rw [len_of_okMem hd]; exact hs
  have hr : r = (((h.free dst.ptr).alloc (List.replicate (size dims) junk)).1,
      ⟨.mem, ((h.free dst.ptr).alloc (List.replicate (size dims) junk)).2, dims⟩) := by
    show memResize junk h dst dims = _
    unfold memResize
    rw [if_neg hne]
  rw [hr]
  obtain ⟨hok, hrd⟩ := alloc_okMem (h.free dst.ptr) (List.replicate (size dims) junk) dims (by simp)
  refine ⟨hok, hrd, rfl, ?_, ?_⟩
  · intro b off hp
    rcases alloc_ptr (h.free dst.ptr) (List.replicate (size dims) junk) with ⟨_, he⟩ | ⟨_, he⟩
    · rw [he] at hp; cases hp
    · rw [he] at hp
      cases hp
      exact ⟨free_length h dst.ptr, rfl⟩
  · intro c hc
    rw [buf_alloc_old _ _ c (by rw [free_length]; exact hc)]
    cases hp : dst.ptr with
    | none => rw [if_neg (by simp [Ptr.inBuf])]; rfl
    | some q =>
      obtain ⟨b, off⟩ := q
      by_cases hcb : c = b
      · subst hcb
        rw [if_pos (by simp [Ptr.inBuf])]
        exact buf_free_same _ _ _
      · rw [if_neg (by simp [Ptr.inBuf]; exact fun hx => hcb hx.symm)]
        exact buf_free_other _ b off c hcb

/-! ### `owning = owning` (storage.h:37 → Eigen `_set`) -/

/-- same element count: the destination KEEPS its allocation (no allocation, no release) and receives the source's elements
    and dims; the source is unchanged; exactly the cells of the destination's allocation are written -/
theorem memAssignMem_same_count {h : Heap α} {dst src : Obj} (hd : dst.OkMem h) (hs : src.OkMem h)
    (hc : size dst.dims = size src.dims) :
    ∃ h', memAssignMem h dst src = some (h', ⟨.mem, dst.ptr, src.dims⟩) ∧ h'.length = h.length ∧
      (⟨.mem, dst.ptr, src.dims⟩ : Obj).elems h' = src.elems h ∧ (⟨.mem, dst.ptr, src.dims⟩ : Obj).OkMem h' ∧
      (∀ c, (∀ off, dst.ptr ≠ some (c, off)) → h'.buf c = h.buf c) := by
  have hld := len_of_okMem hd
  have hls := len_of_okMem hs
  obtain ⟨xs, hxs⟩ := Option.isSome_iff_exists.mp (ok_of_okMem hs)
  unfold Obj.elems at hxs
  have hxl := read_length hxs
  unfold memAssignMem
  simp only [hld, hls, hc, if_true, hxs, Option.bind_eq_bind, Option.bind_some]
  obtain ⟨_, hd'⟩ := hd
  rcases hd' with ⟨hp, hz⟩ | ⟨b, buf, hp, hb, hl, hpos⟩
  · -- empty destination, empty source
    have hx0 : xs.length = 0 := by omega
    have hxn : xs = [] := List.eq_nil_of_length_eq_zero hx0
    subst hxn
    rw [write_nil]
    refine ⟨h, rfl, rfl, ?_, ⟨rfl, Or.inl ⟨hp, (by show size src.dims = 0; omega)⟩⟩, fun _ _ => rfl⟩
    unfold Obj.elems
    rw [hxs, ← hc, hz, read_zero]
  · have hw := write_of_buf (off := 0) (vals := xs) hb (by omega) (by omega)
    rw [hp, hw]
    have hlen : (splice buf 0 xs).length = buf.length := splice_length _ _ _ (by omega)
    have hb' : Heap.buf (h.set b (some (splice buf 0 xs))) b = some (splice buf 0 xs) := buf_set_same _ _ _ (buf_lt hb)
    refine ⟨_, rfl, by simp, ?_, ⟨rfl, Or.inr ⟨b, _, rfl, hb', (by show (splice buf 0 xs).length = size src.dims; omega), (by show 0 < size src.dims; omega)⟩⟩, ?_⟩
    · unfold Obj.elems
      have := read_write_same hw
      rw [hxl] at this
      rw [this, hxs]
    · intro c hne
      exact buf_set_other _ _ _ _ (by intro hx; exact hne 0 (by rw [hx]))

/-- another element count: the destination releases its allocation and moves to a fresh one holding the source's elements;
    the source (a DIFFERENT owner: a different allocation) is unchanged -/
theorem memAssignMem_other_count {h : Heap α} {dst src : Obj} (hd : dst.OkMem h) (hs : src.OkMem h)
    (hc : size dst.dims ≠ size src.dims)
    (hdis : ∀ b c o1 o2, dst.ptr = some (b, o1) → src.ptr = some (c, o2) → b ≠ c) :
    ∃ h' o, memAssignMem h dst src = some (h', o) ∧ o.dims = src.dims ∧ o.elems h' = src.elems h ∧ o.OkMem h' ∧
      (∀ b off, o.ptr = some (b, off) → b = h.length ∧ off = 0) ∧
      (∀ c, c < h.length → h'.buf c = if dst.ptr.inBuf c then none else h.buf c) := by
  have hld := len_of_okMem hd
  have hls := len_of_okMem hs
  obtain ⟨xs, hxs⟩ := Option.isSome_iff_exists.mp (ok_of_okMem hs)
  unfold Obj.elems at hxs
  have hxl := read_length hxs
  -- the source reads the same after the destination's allocation has been released
  have hxs' : (h.free dst.ptr).read src.ptr (size src.dims) = some xs := by
    by_cases hn : size src.dims = 0
    · rw [hn, read_zero] at hxs ⊢; exact hxs
    · obtain ⟨c, o2, hsp, _⟩ := ptr_lt_of_read (Nat.pos_of_ne_zero hn) hxs
      rw [hsp] at hxs ⊢
      rw [read_free_other h dst.ptr c o2 _ (fun b o hp => (hdis b c o o2 hp hsp).symm)]
      exact hxs
  unfold memAssignMem
  simp only [hld, hls, if_neg hc, hxs', Option.bind_eq_bind, Option.bind_some, Option.pure_def]
  obtain ⟨hok, hrd⟩ := alloc_okMem (h.free dst.ptr) xs src.dims hxl
  refine ⟨_, _, rfl, rfl, by unfold Obj.elems; rw [hrd, hxs], hok, ?_, ?_⟩
  · intro b off hp
    rcases alloc_ptr (h.free dst.ptr) xs with ⟨_, he⟩ | ⟨_, he⟩
    · rw [he] at hp; cases hp
    · rw [he] at hp
      cases hp
      exact ⟨free_length h dst.ptr, rfl⟩
  · intro c hcl
    rw [buf_alloc_old _ _ c (by rw [free_length]; exact hcl)]
    cases hp : dst.ptr with
    | none => rw [if_neg (by simp [Ptr.inBuf])]; rfl
    | some q =>
      obtain ⟨b, off⟩ := q
      by_cases hcb : c = b
      · subst hcb
        rw [if_pos (by simp [Ptr.inBuf])]
        exact buf_free_same _ _ _
      · rw [if_neg (by simp [Ptr.inBuf]; exact fun hx => hcb hx.symm)]
        exact buf_free_other _ b off c hcb

/-! ### bounds of element writes -/

/-- a successful write of `n > 0` elements lies inside one live allocation -/
theorem write_in_bounds {h h' : Heap α} {b off : Nat} {vals : List α} (hv : 0 < vals.length)
    (hw : h.write (some (b, off)) vals = some h') : off + vals.length ≤ h.len (some (b, off)) := by
  obtain ⟨buf, hb, hle, _⟩ := write_some hv hw
  simp [Heap.len, hb, hle]

/-- no fault: writing all elements of a readable non-constant tensor succeeds, and they are read back -/
theorem obj_write_succeeds {h : Heap α} {o : Obj} (ho : o.Ok h) (hk : o.kind ≠ .cmap) (vals : List α)
    (hl : vals.length = size o.dims) : ∃ h', o.write h vals = some h' ∧ o.elems h' = some vals := by
  unfold Obj.write
  rw [if_pos ⟨hk, hl⟩]
  by_cases hn : size o.dims = 0
  · have : vals = [] := List.eq_nil_of_length_eq_zero (by omega)
    subst this
    refine ⟨h, write_nil h _, ?_⟩
    unfold Obj.elems
    rw [hn, read_zero]
  · obtain ⟨ys, hys⟩ := Option.isSome_iff_exists.mp ho
    unfold Obj.elems at hys
    obtain ⟨b, off, hp, _⟩ := ptr_lt_of_read (Nat.pos_of_ne_zero hn) hys
    rw [hp] at hys ⊢
    obtain ⟨buf, hb, hle, _⟩ := read_some (Nat.pos_of_ne_zero hn) hys
    have hw := write_of_buf (off := off) (vals := vals) hb (by omega) (by omega)
    refine ⟨_, hw, ?_⟩
    unfold Obj.elems
    rw [hp, ← hl]
    exact read_write_same hw

/-- a write keeps every well-formed owning tensor well-formed (allocations stay allocated, lengths are unchanged) -/
theorem okMem_write {h h' : Heap α} {p : Ptr} {vals : List α} (hw : h.write p vals = some h') {o : Obj} (ho : o.OkMem h) :
    o.OkMem h' := by
  obtain ⟨hk, ho'⟩ := ho
  refine ⟨hk, ?_⟩
  rcases ho' with ⟨hp, hz⟩ | ⟨b, buf, hp, hb, hl, hpos⟩
  · exact Or.inl ⟨hp, hz⟩
  · have hlen := len_write hw (some (b, 0))
    simp only [Heap.len, hb, Option.map_some, Option.getD_some] at hlen
    cases hb' : h'.buf b with
    | none => simp [hb'] at hlen; omega
    | some buf' =>
      simp only [hb', Option.map_some, Option.getD_some] at hlen
      exact Or.inr ⟨b, buf', hp, hb', by omega, hpos⟩

/-- assignment of an Eigen expression to an owning tensor: it takes the expression's dims, holds exactly the
    expression's elements and is well-formed — whatever it held before -/
theorem assignExpr_mem (junk : α) {h : Heap α} {dst : Obj} (hd : dst.OkMem h) (dims : List Nat) (vals : List α)
    (hl : vals.length = size dims) :
    ∃ h' o, assignExpr junk h dst dims vals = some (h', o) ∧ o.dims = dims ∧ o.elems h' = some vals ∧ o.OkMem h' := by
  unfold assignExpr
  rw [if_pos hd.1]
  have hok : (memResize junk h dst dims).2.OkMem (memResize junk h dst dims).1 ∧ (memResize junk h dst dims).2.dims = dims := by
    by_cases hs : size dst.dims = size dims
    · have := memResize_same_count_elems junk h dst dims hd hs
      rw [this.1]
      refine ⟨this.2.2, ?_⟩
      rw [memResize_same_count junk h dst dims (by rw [len_of_okMem hd, hs])]
    · have := memResize_other_count junk h dst dims hd hs
      exact ⟨this.1, this.2.2.1⟩
  obtain ⟨h', hw, he⟩ := obj_write_succeeds (ok_of_okMem hok.1) (by rw [hok.1.1]; decide) vals (by rw [hok.2]; exact hl)
  refine ⟨h', _, by simp only [hw]; rfl, hok.2, he, ?_⟩
  unfold Obj.write at hw
  split at hw
  · exact okMem_write hw hok.1
  · cases hw

/-- … to a map (same number of elements): the map keeps pointer and dims and holds the expression's elements -/
theorem assignExpr_map (junk : α) {h : Heap α} {dst : Obj} (hk : dst.kind = .map) (hd : dst.Ok h) (dims : List Nat)
    (vals : List α) (hl : vals.length = size dst.dims) :
    ∃ h', assignExpr junk h dst dims vals = some (h', dst) ∧ dst.elems h' = some vals := by
  unfold assignExpr
  rw [if_neg (by rw [hk]; decide)]
  obtain ⟨h', hw, he⟩ := obj_write_succeeds hd (by rw [hk]; decide) vals hl
  exact ⟨h', by rw [hw]; rfl, he⟩

/-! ### moves of owning tensors -/

/-- move construction transfers the allocation: the new tensor reads what the source read, no element is copied; the
    moved-from tensor holds nullptr but KEEPS its dims (base.h:45 copies them) -/
theorem memMoveCtor_spec (h : Heap α) (src : Obj) :
    (memMoveCtor src).1.elems h = src.elems h ∧ (memMoveCtor src).1.ptr = src.ptr ∧ (memMoveCtor src).1.dims = src.dims ∧
    (memMoveCtor src).2.ptr = none ∧ (memMoveCtor src).2.dims = src.dims := ⟨rfl, rfl, rfl, rfl, rfl⟩

/-- as coded, a moved-from tensor with elements is NOT well-formed: `size()` still reports the old count over a null
    pointer; every element access through it would leave every buffer -/
theorem memMoveCtor_source_unusable (h : Heap α) (src : Obj) (hn : 0 < size src.dims) :
    ¬ (memMoveCtor src).2.OkMem h ∧ (memMoveCtor src).2.elems h = none := by
  refine ⟨?_, read_null h _ hn⟩
  intro ⟨_, hx⟩
  rcases hx with ⟨_, hz⟩ | ⟨b, buf, hp, _⟩
  · simp [memMoveCtor] at hz; omega
  · simp [memMoveCtor] at hp

/-- move assignment exchanges the allocations: the destination reads what the source read; the moved-from source is left
    with the destination's previous allocation under its OWN dims — well-formed only if the two counts happened to agree -/
theorem memMoveAssign_spec (h : Heap α) (dst src : Obj) :
    (memMoveAssign dst src).1.elems h = src.elems h ∧ (memMoveAssign dst src).1.dims = src.dims ∧
    (memMoveAssign dst src).2.ptr = dst.ptr ∧ (memMoveAssign dst src).2.dims = src.dims := ⟨rfl, rfl, rfl, rfl⟩

theorem memMoveAssign_source_okMem_iff (h : Heap α) (dst src : Obj) (hd : dst.OkMem h) :
    (memMoveAssign dst src).2.OkMem h ↔ size src.dims = size dst.dims := by
  obtain ⟨hk, hd'⟩ := hd
  constructor
  · intro ⟨_, hx⟩
    rcases hd' with ⟨hp, hz⟩ | ⟨b, buf, hp, hb, hl, hpos⟩
    · rcases hx with ⟨_, hz'⟩ | ⟨b', buf', hp', _⟩
      · simp [memMoveAssign] at hz'; omega
      · simp [memMoveAssign, hp] at hp'
    · rcases hx with ⟨hp', _⟩ | ⟨b', buf', hp', hb', hl', _⟩
      · simp [memMoveAssign, hp] at hp'
      · simp only [memMoveAssign, hp, Option.some.injEq, Prod.mk.injEq] at hp'
        obtain ⟨hbb, _⟩ := hp'
        subst hbb
        rw [hb] at hb'
        cases hb'
        simp only [memMoveAssign] at hl'
        omega
  · intro he
    refine ⟨rfl, ?_⟩
    rcases hd' with ⟨hp, hz⟩ | ⟨b, buf, hp, hb, hl, hpos⟩
    · exact Or.inl ⟨hp, by simp only [memMoveAssign]; omega⟩
    · exact Or.inr ⟨b, buf, hp, hb, by simp only [memMoveAssign]; omega, by simp only [memMoveAssign]; omega⟩

/-! ### `map = anything` (storage.h:215-246) -/

/-- the assignment to a mutable map: under `assert(size() == other.size())`, for a readable source, a destination inside
    a live allocation, and a destination that does not start INSIDE the source's range (another allocation, disjoint ranges,
    or `dst ≤ src` for the ascending copy) — the map holds the elements the source had BEFORE the assignment, and exactly
    the destination's cells changed -/
theorem mapAssign_elems {h : Heap α} {dst src : Obj} {xs : List α} (hn : size dst.dims = size src.dims)
    (hs : src.elems h = some xs) (hd : dst.Ok h)
    (hsafe : ∀ b d s, dst.ptr = some (b, d) → src.ptr = some (b, s) → d ≤ s ∨ s + size dst.dims ≤ d) :
    ∃ h', mapAssign h dst src = some h' ∧ dst.elems h' = some xs ∧ h'.length = h.length ∧
      ∀ c i, h'.cell c i =
        match dst.ptr with
        | some (b, d) => if c = b ∧ d ≤ i ∧ i < d + size dst.dims then xs[i - d]? else h.cell c i
        | none => h.cell c i := by
  unfold mapAssign Heap.copyFwd
  by_cases hz : size dst.dims = 0
  · rw [if_pos hz]
    refine ⟨h, rfl, ?_, rfl, ?_⟩
    · unfold Obj.elems at hs ⊢
      rw [← hn, hz, read_zero] at hs
      rw [hz, read_zero]; exact hs
    · intro c i
      cases dst.ptr with
      | none => rfl
      | some q => obtain ⟨b, d⟩ := q; simp only; rw [if_neg (by omega)]
  · rw [if_neg hz]
    have hpos : 0 < size dst.dims := Nat.pos_of_ne_zero hz
    obtain ⟨ys, hys⟩ := Option.isSome_iff_exists.mp hd
    unfold Obj.elems at hs hys
    obtain ⟨db, d, hdp, _⟩ := ptr_lt_of_read hpos hys
    obtain ⟨sb, s, hsp, _⟩ := ptr_lt_of_read (by omega) hs
    rw [hdp] at hys
    rw [hsp] at hs
    rw [hdp, hsp]
    obtain ⟨dbuf, hdb, hdle, _⟩ := read_some hpos hys
    have hxl := read_length hs
    simp only
    by_cases hbb : db = sb
    · subst hbb
      rw [if_pos rfl]
      rw [← hn] at hs
      obtain ⟨sbuf, hsb, hsle, hxe⟩ := read_some hpos hs
      rw [hdb] at hsb
      cases hsb
      simp only [hdb]
      rw [if_pos ⟨hdle, hsle⟩]
      have hsf := hsafe db d s hdp hsp
      have hfw := fwd_eq_splice dbuf d s (size dst.dims) hsf hsle hdle
      rw [hfw, ← hxe]
      have hw : h.write (some (db, d)) xs = some (h.set db (some (splice dbuf d xs))) :=
        write_of_buf hdb (by omega) (by omega)
      refine ⟨_, rfl, ?_, by simp, ?_⟩
      · unfold Obj.elems
        rw [hdp]
        have := read_write_same hw
        rw [hxl, ← hn] at this
        exact this
      · intro c i
        rw [cell_write hw c i, hxl, ← hn]
    · rw [if_neg hbb]
      rw [← hn] at hs
      simp only [hs, Option.bind_eq_bind, Option.bind_some]
      have hw : h.write (some (db, d)) xs = some (h.set db (some (splice dbuf d xs))) :=
        write_of_buf hdb (by omega) (by omega)
      rw [hw]
      refine ⟨_, rfl, ?_, by simp, ?_⟩
      · unfold Obj.elems
        rw [hdp]
        have := read_write_same hw
        rw [hxl, ← hn] at this
        exact this
      · intro c i
        rw [cell_write hw c i, hxl, ← hn]

/-- `mapAssign` looks only at the source's POINTER and at the destination's element count -/
theorem mapAssign_src_dims (h : Heap α) (dst src : Obj) (k : Kind) :
    mapAssign h dst src = mapAssign h dst ⟨k, src.ptr, dst.dims⟩ := rfl

/-- the assert violated with a BIGGER source (`size() < other.size()`), release build: no fault — the first `size()` elements
    of the source are copied, the rest is ignored, the destination keeps its own dims -/
theorem mapAssign_bigger_source {h : Heap α} {dst src : Obj} {xs : List α} (hn : size dst.dims ≤ size src.dims)
    (hs : src.elems h = some xs) (hd : dst.Ok h)
    (hsafe : ∀ b d s, dst.ptr = some (b, d) → src.ptr = some (b, s) → d ≤ s ∨ s + size dst.dims ≤ d) :
    ∃ h', mapAssign h dst src = some h' ∧ dst.elems h' = some (xs.take (size dst.dims)) := by
  have hs' : (⟨src.kind, src.ptr, dst.dims⟩ : Obj).elems h = some (xs.take (size dst.dims)) := by
    have := read_add hs 0 (size dst.dims) (by omega)
    cases hp : src.ptr with
    | none => simpa [Obj.elems, Ptr.add, hp] using this
    | some q => simpa [Obj.elems, Ptr.add, hp] using this
  obtain ⟨h', hm, he, _⟩ := mapAssign_elems (dst := dst) (src := ⟨src.kind, src.ptr, dst.dims⟩) rfl hs' hd hsafe
  exact ⟨h', hm, he⟩

/-- WHAT `map = map` DOES when the destination starts inside (or after the start of) the source range in the same allocation
    (`s < d`; not guaranteed to preserve the source's elements — `mapAssign_overlap_witness`): cell `d + i` of the allocation
    receives the ORIGINAL element `s + i mod (d - s)`; every other cell of the allocation, and every other allocation, is
    unchanged; no access leaves the allocation -/
theorem mapAssign_overlap {h : Heap α} {dst src : Obj} {b d s : Nat} {buf : List α} (hdp : dst.ptr = some (b, d))
    (hsp : src.ptr = some (b, s)) (hb : h.buf b = some buf) (hsd : s < d) (hd : d + size dst.dims ≤ buf.length) :
    ∃ h', mapAssign h dst src = some h' ∧ (∀ c, c ≠ b → h'.buf c = h.buf c) ∧
      ∀ k, h'.cell b k = if d ≤ k ∧ k < d + size dst.dims then buf[s + (k - d) % (d - s)]? else buf[k]? := by
  unfold mapAssign Heap.copyFwd
  by_cases hz : size dst.dims = 0
  · rw [if_pos hz]
    refine ⟨h, rfl, fun _ _ => rfl, ?_⟩
    intro k
    rw [if_neg (by omega)]
    simp [Heap.cell, hb]
  · rw [if_neg hz, hdp, hsp]
    simp only [if_true, hb]
    rw [if_pos ⟨hd, by omega⟩]
    refine ⟨_, rfl, fun c hc => buf_set_other _ _ _ _ hc, ?_⟩
    intro k
    unfold Heap.cell
    rw [buf_set_same _ _ _ (buf_lt hb)]
    simp only [Option.bind_some]
    exact fwd_periodic (size dst.dims) buf d s hsd hd k

/-- WITNESS (overlap in the unsupported direction, `src < dst < src + n` inside one allocation): the ascending element-wise
    copy re-reads elements it has already overwritten — the map does NOT receive the elements the source had before the
    assignment (`[1, 2, 3]`) but `[1, 1, 1]` -/
theorem mapAssign_overlap_witness :
    (⟨.map, some (0, 0), [3]⟩ : Obj).elems [some [(1 : Int), 2, 3, 4]] = some [1, 2, 3] ∧
    (mapAssign [some [(1 : Int), 2, 3, 4]] ⟨.map, some (0, 1), [3]⟩ ⟨.map, some (0, 0), [3]⟩).bind
      (fun h' => (⟨.map, some (0, 1), [3]⟩ : Obj).elems h') = some [1, 1, 1] := by decide

/-- WITNESS (the assert violated with a SMALLER source, release build): the loop runs over the destination's `size()`
    elements — it reads the source's NEIGHBOURS inside the source's allocation (silently: `[5, 6, 7]` although the source
    is `[5, 6]`), and leaves the allocation (a fault) when the source ends where its allocation ends -/
theorem mapAssign_smaller_source_witness :
    (mapAssign [some [(1 : Int), 2, 3], some [5, 6, 7]] ⟨.map, some (0, 0), [3]⟩ ⟨.cmap, some (1, 0), [2]⟩)
      = some [some [5, 6, 7], some [5, 6, 7]] ∧
    (mapAssign [some [(1 : Int), 2, 3], some [5, 6, 7]] ⟨.map, some (0, 0), [3]⟩ ⟨.cmap, some (1, 1), [2]⟩) = none := by decide

/-- only the element COUNT is asserted by `map = other`, not the shape: a `2 × 3` map accepts a `3 × 2` source, keeps its
    own dims and receives the six elements in flat order -/
theorem mapAssign_shape_witness :
    (mapAssign [some [(0 : Int), 0, 0, 0, 0, 0], some [1, 2, 3, 4, 5, 6]] ⟨.map, some (0, 0), [2, 3]⟩ ⟨.mem, some (1, 0), [3, 2]⟩)
      = some [some [1, 2, 3, 4, 5, 6], some [1, 2, 3, 4, 5, 6]] := by decide

end NanoVerif.Tensor.Store
