import NanoVerif.Proofs.TensorStorageOps
/-!
  C16 — histories of storage operations (`step` / `run` of `Model/TensorStorage.lean`): the OWNERSHIP invariant — every owning
  tensor holds nullptr or the start of a LIVE allocation, and no allocation has two owners — is kept by every operation of
  every history (no double release, no owner ever left dangling, whatever maps do). Core Lean only.
-/
namespace NanoVerif.Tensor.Store
open NanoVerif.Tensor

variable {α : Type}

/-- allocation `b` is live -/
def Heap.live (h : Heap α) (b : Nat) : Prop := (h.buf b).isSome

/-- the ownership invariant of a program state -/
structure Inv (st : St α) : Prop where
  /-- an owning tensor's pointer is the start of a live allocation -/
  owner : ∀ (i : Nat) (x : Obj), st.objs[i]? = some x → x.kind = .mem → ∀ b off, x.ptr = some (b, off) → off = 0 ∧ st.heap.live b
  /-- two different owning tensors never hold the same allocation -/
  unique : ∀ (i j : Nat) (x y : Obj), i ≠ j → st.objs[i]? = some x → st.objs[j]? = some y → x.kind = .mem → y.kind = .mem →
    ∀ b o1 o2, x.ptr = some (b, o1) → y.ptr = some (b, o2) → False

theorem live_lt {h : Heap α} {b : Nat} (hl : h.live b) : b < h.length := by
  unfold Heap.live at hl
  obtain ⟨buf, hb⟩ := Option.isSome_iff_exists.mp hl
  exact buf_lt hb

/-! ### liveness through the primitives -/

theorem live_write {h h' : Heap α} {p : Ptr} {vals : List α} (hw : h.write p vals = some h') (b : Nat) (hl : h.live b) :
    h'.live b := by
  by_cases hv : vals.length = 0
  · simp [Heap.write, hv] at hw
    subst hw; exact hl
  · cases p with
    | none => simp [Heap.write, hv] at hw
    | some q =>
      obtain ⟨c, off⟩ := q
      obtain ⟨buf, hb, _, hh⟩ := write_some (Nat.pos_of_ne_zero hv) hw
      unfold Heap.live
      by_cases hc : b = c
      · subst hc
        rw [hh, buf_set_same _ _ _ (buf_lt hb)]
        rfl
      · rw [buf_write_other hw b hc]
        exact hl

theorem live_alloc (h : Heap α) (xs : List α) (b : Nat) (hl : h.live b) : (h.alloc xs).1.live b := by
  unfold Heap.live
  rw [buf_alloc_old h xs b (live_lt hl)]
  exact hl

theorem live_free_other (h : Heap α) (p : Ptr) (b : Nat) (hl : h.live b) (hne : p.inBuf b = false) : (h.free p).live b := by
  cases p with
  | none => exact hl
  | some q =>
    obtain ⟨c, off⟩ := q
    unfold Heap.live
    rw [buf_free_other h c off b (by simp [Ptr.inBuf] at hne; exact fun hx => hne hx.symm)]
    exact hl

/-- a fresh allocation with elements: offset 0, identity `h.length`, live -/
theorem alloc_some (h : Heap α) (xs : List α) (b off : Nat) (hp : (h.alloc xs).2 = some (b, off)) :
    off = 0 ∧ b = h.length ∧ (h.alloc xs).1.live b := by
  rcases alloc_ptr h xs with ⟨_, he⟩ | ⟨_, he⟩
  · rw [he] at hp; cases hp
  · rw [he] at hp ⊢
    cases hp
    refine ⟨rfl, rfl, ?_⟩
    unfold Heap.live
    rw [buf_append_new]
    rfl

theorem live_copyFwd {h h' : Heap α} {dp sp : Ptr} {n : Nat} (hc : h.copyFwd dp sp n = some h') (b : Nat) (hl : h.live b) :
    h'.live b := by
  unfold Heap.copyFwd at hc
  by_cases hn : n = 0
  · rw [if_pos hn] at hc
    cases hc; exact hl
  · rw [if_neg hn] at hc
    cases dp with
    | none => simp at hc
    | some dq =>
      cases sp with
      | none => simp at hc
      | some sq =>
        obtain ⟨db, d⟩ := dq
        obtain ⟨sb, s⟩ := sq
        simp only at hc
        by_cases hbb : db = sb
        · rw [if_pos hbb] at hc
          cases hb : h.buf db with
          | none => simp [hb] at hc
          | some buf =>
            simp only [hb] at hc
            split at hc
            · cases hc
              unfold Heap.live
              by_cases hx : b = db
              · subst hx
                rw [buf_set_same _ _ _ (buf_lt hb)]; rfl
              · rw [buf_set_other _ _ _ _ hx]; exact hl
            · cases hc
        · rw [if_neg hbb] at hc
          cases hr : h.read (some (sb, s)) n with
          | none => simp [hr] at hc
          | some xs =>
            simp only [hr, Option.bind_eq_bind, Option.bind_some] at hc
            exact live_write hc b hl

/-! ### the invariant under a change of the heap / of one object -/

/-- the heap changes, no allocation is released, the objects stay: the invariant stays -/
theorem inv_heap {st : St α} (hinv : Inv st) (h' : Heap α) (hl : ∀ b, st.heap.live b → h'.live b) : Inv ⟨h', st.objs⟩ :=
  ⟨fun i x hx hk b off hp => ⟨(hinv.owner i x hx hk b off hp).1, hl b (hinv.owner i x hx hk b off hp).2⟩, hinv.unique⟩

/-- slot `o` (holding `x`) receives the object `x'`, the heap becomes `h'`: the invariant stays if (1) every allocation that
    was live and is not the one `x` owned is still live, and (2) a new OWNING object points at offset 0 of a live
    allocation that no other slot owns -/
theorem inv_set {st : St α} (hinv : Inv st) (o : Nat) (x x' : Obj) (h' : Heap α) (hx : st.objs[o]? = some x)
    (hlive : ∀ b, st.heap.live b → (x.kind = .mem → x.ptr.inBuf b = false) → h'.live b)
    (hnew : x'.kind = .mem → ∀ b off, x'.ptr = some (b, off) → off = 0 ∧ h'.live b ∧
      ∀ (j : Nat) (y : Obj), j ≠ o → st.objs[j]? = some y → y.kind = .mem → y.ptr.inBuf b = false) :
    Inv ⟨h', st.objs.set o x'⟩ := by
  have ho : o < st.objs.length := (List.getElem?_eq_some_iff.mp hx).1
  have hget : ∀ i z, (st.objs.set o x')[i]? = some z → (i = o ∧ z = x') ∨ (i ≠ o ∧ st.objs[i]? = some z) := by
    intro i z hz
    by_cases hio : i = o
    · subst hio
      rw [List.getElem?_set_self ho] at hz
      exact Or.inl ⟨rfl, (Option.some.inj hz).symm⟩
    · rw [List.getElem?_set_ne (Ne.symm hio)] at hz
      exact Or.inr ⟨hio, hz⟩
  -- an owner in another slot: its allocation is not the one `x` owned
  have hother : ∀ i z, i ≠ o → st.objs[i]? = some z → z.kind = .mem → ∀ b off, z.ptr = some (b, off) →
      (x.kind = .mem → x.ptr.inBuf b = false) := by
    intro i z hio hz hk b off hp hxk
    cases hxp : x.ptr with
    | none => rfl
    | some q =>
      obtain ⟨c, o2⟩ := q
      simp only [Ptr.inBuf, beq_eq_false_iff_ne]
      intro hcb
      subst hcb
      exact hinv.unique i o z x hio hz hx hk hxk c off o2 hp hxp
  constructor
  · intro i z hz hk b off hp
    rcases hget i z hz with ⟨_, hzx⟩ | ⟨hio, hz'⟩
    · subst hzx
      exact ⟨(hnew hk b off hp).1, (hnew hk b off hp).2.1⟩
    · obtain ⟨h0, hl⟩ := hinv.owner i z hz' hk b off hp
      exact ⟨h0, hlive b hl (hother i z hio hz' hk b off hp)⟩
  · intro i j z w hij hz hw hkz hkw b o1 o2 hpz hpw
    rcases hget i z hz with ⟨hio, hzx⟩ | ⟨hio, hz'⟩
    · rcases hget j w hw with ⟨hjo, _⟩ | ⟨hjo, hw'⟩
      · exact hij (hio.trans hjo.symm)
      · subst hzx
        have := (hnew hkz b o1 hpz).2.2 j w hjo hw' hkw
        simp [Ptr.inBuf, hpw] at this
    · rcases hget j w hw with ⟨hjo, hwx⟩ | ⟨hjo, hw'⟩
      · subst hwx
        have := (hnew hkw b o2 hpw).2.2 i z hio hz' hkz
        simp [Ptr.inBuf, hpz] at this
      · exact hinv.unique i j z w hij hz' hw' hkz hkw b o1 o2 hpz hpw

/-- an allocation with identity `≥ length` of the old heap is owned by nobody -/
theorem fresh_unowned {st : St α} (hinv : Inv st) (b : Nat) (hb : st.heap.length ≤ b) :
    ∀ (j : Nat) (y : Obj), st.objs[j]? = some y → y.kind = .mem → y.ptr.inBuf b = false := by
  intro j y hy hk
  cases hp : y.ptr with
  | none => rfl
  | some q =>
    obtain ⟨c, o2⟩ := q
    simp only [Ptr.inBuf, beq_eq_false_iff_ne]
    intro hcb
    subst hcb
    have := live_lt (hinv.owner j y hy hk c o2 hp).2
    omega

/-- the allocation slot `o` owns is owned by no other slot -/
theorem own_unowned {st : St α} (hinv : Inv st) (o : Nat) (x : Obj) (hx : st.objs[o]? = some x) (hk : x.kind = .mem)
    (b off : Nat) (hp : x.ptr = some (b, off)) :
    ∀ (j : Nat) (y : Obj), j ≠ o → st.objs[j]? = some y → y.kind = .mem → y.ptr.inBuf b = false := by
  intro j y hjo hy hky
  cases hyp : y.ptr with
  | none => rfl
  | some q =>
    obtain ⟨c, o2⟩ := q
    simp only [Ptr.inBuf, beq_eq_false_iff_ne]
    intro hcb
    subst hcb
    exact hinv.unique j o y x hjo hy hx hky hk c o2 off hyp hp

/-- liveness after the destructor of the object in a slot -/
theorem live_dropObj (h : Heap α) (x : Obj) (b : Nat) (hl : h.live b) (hne : x.kind = .mem → x.ptr.inBuf b = false) :
    (dropObj h x).live b := by
  unfold dropObj
  by_cases hk : x.kind = .mem
  · rw [if_pos hk]
    exact live_free_other h x.ptr b hl (hne hk)
  · rw [if_neg hk]; exact hl

theorem dropObj_length (h : Heap α) (x : Obj) : (dropObj h x).length = h.length := by
  unfold dropObj
  split
  · exact free_length h x.ptr
  · rfl

/-- `objs[o].emplace(source)` for any kind of slot: the invariant stays (the old object is destroyed, an owning result lives
    in a fresh allocation, a map owns nothing) -/
theorem inv_construct {st : St α} (hinv : Inv st) (o : Nat) (x v : Obj) (r : Heap α × Obj) (hx : st.objs[o]? = some x)
    (hc : construct (dropObj st.heap x) x.kind v = some r) : Inv ⟨r.1, st.objs.set o r.2⟩ := by
  unfold construct at hc
  cases hk : x.kind with
  | mem =>
    rw [hk] at hc
    simp only at hc
    unfold memCopy at hc
    cases hr : (dropObj st.heap x).read v.ptr (v.count (dropObj st.heap x)) with
    | none => simp [hr] at hc
    | some xs =>
      simp only [hr, Option.bind_eq_bind, Option.bind_some, Option.pure_def, Option.some.injEq] at hc
      subst hc
      apply inv_set hinv o x _ _ hx
      · intro b hl hne
        exact live_alloc _ xs b (live_dropObj st.heap x b hl hne)
      · intro _ b off hp
        obtain ⟨h0, hb, hl⟩ := alloc_some _ xs b off hp
        refine ⟨h0, hl, fun j y _ hy hky => fresh_unowned hinv b (by rw [hb, dropObj_length]; exact Nat.le_refl _) j y hy hky⟩
  | map =>
    rw [hk] at hc
    simp only at hc
    split at hc
    · cases hc
    · cases hc
      apply inv_set hinv o x _ _ hx
      · intro b hl _
        exact live_dropObj st.heap x b hl (by intro hx'; rw [hk] at hx'; cases hx')
      · intro hk' ; simp [viewOf] at hk'
  | cmap =>
    rw [hk] at hc
    simp only at hc
    cases hc
    apply inv_set hinv o x _ _ hx
    · intro b hl _
      exact live_dropObj st.heap x b hl (by intro hx'; rw [hk] at hx'; cases hx')
    · intro hk'; simp [viewOf] at hk'

/-- assignment to an owning tensor (`owning = owning`, `owning = map`): the invariant stays -/
theorem inv_assign_mem {st : St α} (hinv : Inv st) (o : Nat) (x src : Obj) (r : Heap α × Obj) (hx : st.objs[o]? = some x)
    (hk : x.kind = .mem)
    (hr : (if src.kind = .mem then memAssignMem st.heap x src else memAssignView st.heap x src) = some r) :
    Inv ⟨r.1, st.objs.set o r.2⟩ := by
  by_cases hs : src.kind = .mem
  · rw [if_pos hs] at hr
    unfold memAssignMem at hr
    simp only at hr
    by_cases hcnt : st.heap.len x.ptr = st.heap.len src.ptr
    · rw [if_pos hcnt] at hr
      cases hrd : st.heap.read src.ptr (st.heap.len src.ptr) with
      | none => simp [hrd] at hr
      | some xs =>
        simp only [hrd, Option.bind_eq_bind, Option.bind_some] at hr
        cases hw : st.heap.write x.ptr xs with
        | none => simp [hw] at hr
        | some h' =>
          simp only [hw, Option.bind_some, Option.pure_def, Option.some.injEq] at hr
          subst hr
          apply inv_set hinv o x _ _ hx
          · intro b hl _
            exact live_write hw b hl
          · intro _ b off hp
            obtain ⟨h0, hl⟩ := hinv.owner o x hx hk b off hp
            exact ⟨h0, live_write hw b hl, own_unowned hinv o x hx hk b off hp⟩
    · rw [if_neg hcnt] at hr
      cases hrd : (st.heap.free x.ptr).read src.ptr (st.heap.len src.ptr) with
      | none => simp [hrd] at hr
      | some xs =>
        simp only [hrd, Option.bind_eq_bind, Option.bind_some, Option.pure_def, Option.some.injEq] at hr
        subst hr
        apply inv_set hinv o x _ _ hx
        · intro b hl hne
          exact live_alloc _ xs b (live_free_other st.heap x.ptr b hl (hne hk))
        · intro _ b off hp
          obtain ⟨h0, hb, hl⟩ := alloc_some _ xs b off hp
          exact ⟨h0, hl, fun j y _ hy hky => fresh_unowned hinv b (by rw [hb, free_length]; exact Nat.le_refl _) j y hy hky⟩
  · rw [if_neg hs] at hr
    unfold memAssignView at hr
    cases hrd : st.heap.read src.ptr (size src.dims) with
    | none => simp [hrd] at hr
    | some xs =>
      simp only [hrd, Option.bind_eq_bind, Option.bind_some, Option.pure_def, Option.some.injEq] at hr
      subst hr
      apply inv_set hinv o x _ _ hx
      · intro b hl hne
        exact live_free_other _ x.ptr b (live_alloc st.heap xs b hl) (hne hk)
      · intro _ b off hp
        obtain ⟨h0, hb, hl⟩ := alloc_some _ xs b off hp
        refine ⟨h0, ?_, fun j y _ hy hky => fresh_unowned hinv b (by rw [hb]; exact Nat.le_refl _) j y hy hky⟩
        -- the fresh allocation is not the one released
        apply live_free_other _ x.ptr b hl
        cases hxp : x.ptr with
        | none => rfl
        | some q =>
          obtain ⟨c, o2⟩ := q
          simp only [Ptr.inBuf, beq_eq_false_iff_ne]
          intro hcb
          subst hcb
          have := live_lt (hinv.owner o x hx hk c o2 hxp).2
          omega

theorem inv_assignObj {st st' : St α} (hinv : Inv st) (o : Nat) (x src : Obj) (hx : st.objs[o]? = some x)
    (ha : assignObj st o x src = some st') : Inv st' := by
  unfold assignObj at ha
  cases hk : x.kind with
  | mem =>
    rw [hk] at ha
    simp only at ha
    by_cases hs : src.kind = .mem
    · rw [if_pos hs] at ha
      cases hr : memAssignMem st.heap x src with
      | none => simp [hr] at ha
      | some r =>
        simp only [hr, Option.bind_eq_bind, Option.bind_some, Option.pure_def, Option.some.injEq] at ha
        subst ha
        exact inv_assign_mem hinv o x src r hx hk (by rw [if_pos hs]; exact hr)
    · rw [if_neg hs] at ha
      cases hr : memAssignView st.heap x src with
      | none => simp [hr] at ha
      | some r =>
        simp only [hr, Option.bind_eq_bind, Option.bind_some, Option.pure_def, Option.some.injEq] at ha
        subst ha
        exact inv_assign_mem hinv o x src r hx hk (by rw [if_neg hs]; exact hr)
  | map =>
    rw [hk] at ha
    simp only at ha
    cases hm : mapAssign st.heap x src with
    | none => simp [hm] at ha
    | some h' =>
      simp only [hm, Option.bind_eq_bind, Option.bind_some, Option.pure_def, Option.some.injEq] at ha
      subst ha
      exact inv_heap hinv h' (fun b hl => live_copyFwd hm b hl)
  | cmap =>
    rw [hk] at ha
    cases ha

/-! ### moves of owning tensors -/

/-- the null owner installed in slot `s` -/
theorem inv_null {st : St α} (hinv : Inv st) (s : Nat) (y : Obj) (dims : List Nat) (hy : st.objs[s]? = some y) :
    Inv ⟨st.heap, st.objs.set s ⟨.mem, none, dims⟩⟩ := by
  apply inv_set hinv s y _ _ hy
  · intro b hl _; exact hl
  · intro _ b off hp; cases hp

theorem inv_moveCtor {st : St α} (hinv : Inv st) (o s : Nat) (x y : Obj) (hx : st.objs[o]? = some x)
    (hy : st.objs[s]? = some y) (hkx : x.kind = .mem) (hky : y.kind = .mem) (hos : o ≠ s) :
    Inv ⟨dropObj st.heap x, (st.objs.set s (memMoveCtor y).2).set o (memMoveCtor y).1⟩ := by
  have h1 := inv_null hinv s y y.dims hy
  have hx1 : (st.objs.set s ⟨.mem, none, y.dims⟩)[o]? = some x := by
    rw [List.getElem?_set_ne (Ne.symm hos)]; exact hx
  have hs : s < st.objs.length := (List.getElem?_eq_some_iff.mp hy).1
  apply inv_set h1 o x _ _ hx1
  · intro b hl hne
    exact live_dropObj st.heap x b hl hne
  · intro _ b off hp
    have hp' : y.ptr = some (b, off) := hp
    obtain ⟨h0, hl⟩ := hinv.owner s y hy hky b off hp'
    refine ⟨h0, ?_, ?_⟩
    · apply live_dropObj st.heap x b hl
      intro _
      exact own_unowned hinv s y hy hky b off hp' o x hos hx hkx
    · intro j w hjo hw hkw
      by_cases hjs : j = s
      · subst hjs
        rw [List.getElem?_set_self hs] at hw
        cases hw; rfl
      · rw [List.getElem?_set_ne (Ne.symm hjs)] at hw
        exact own_unowned hinv s y hy hky b off hp' j w hjs hw hkw

theorem inv_moveAssign {st : St α} (hinv : Inv st) (o s : Nat) (x y : Obj) (hx : st.objs[o]? = some x)
    (hy : st.objs[s]? = some y) (hkx : x.kind = .mem) (hky : y.kind = .mem) :
    Inv ⟨st.heap, (st.objs.set s (memMoveAssign x y).2).set o (memMoveAssign x y).1⟩ := by
  have ho : o < st.objs.length := (List.getElem?_eq_some_iff.mp hx).1
  have hs : s < st.objs.length := (List.getElem?_eq_some_iff.mp hy).1
  by_cases hos : o = s
  · subst hos
    rw [hx] at hy
    cases hy
    rw [List.set_set]
    apply inv_set hinv o x _ _ hx
    · intro b hl _; exact hl
    · intro _ b off hp
      have hp' : x.ptr = some (b, off) := hp
      obtain ⟨h0, hl⟩ := hinv.owner o x hx hkx b off hp'
      exact ⟨h0, hl, own_unowned hinv o x hx hkx b off hp'⟩
  · -- source nulled, destination takes the source's allocation, source takes the destination's previous one
    have h1 := inv_null hinv s y y.dims hy
    have hx1 : (st.objs.set s ⟨.mem, none, y.dims⟩)[o]? = some x := by
      rw [List.getElem?_set_ne (fun hx => hos hx.symm)]; exact hx
    have h2 : Inv ⟨st.heap, (st.objs.set s ⟨.mem, none, y.dims⟩).set o ⟨.mem, y.ptr, y.dims⟩⟩ := by
      apply inv_set h1 o x _ _ hx1
      · intro b hl _; exact hl
      · intro _ b off hp
        have hp' : y.ptr = some (b, off) := hp
        obtain ⟨h0, hl⟩ := hinv.owner s y hy hky b off hp'
        refine ⟨h0, hl, ?_⟩
        intro j w hjo hw hkw
        by_cases hjs : j = s
        · subst hjs
          rw [List.getElem?_set_self hs] at hw
          cases hw; rfl
        · rw [List.getElem?_set_ne (Ne.symm hjs)] at hw
          exact own_unowned hinv s y hy hky b off hp' j w hjs hw hkw
    have hs2 : ((st.objs.set s ⟨.mem, none, y.dims⟩).set o ⟨.mem, y.ptr, y.dims⟩)[s]? = some ⟨.mem, none, y.dims⟩ := by
      rw [List.getElem?_set_ne hos, List.getElem?_set_self hs]
    have h3 := inv_set h2 s ⟨.mem, none, y.dims⟩ ⟨.mem, x.ptr, y.dims⟩ st.heap hs2 (fun b hl _ => hl) (by
      intro _ b off hp
      have hp' : x.ptr = some (b, off) := hp
      obtain ⟨h0, hl⟩ := hinv.owner o x hx hkx b off hp'
      refine ⟨h0, hl, ?_⟩
      intro j w hjs hw hkw
      by_cases hjo : j = o
      · rw [hjo, List.getElem?_set_self (by simp; exact ho)] at hw
        cases hw
        exact own_unowned hinv o x hx hkx b off hp' s y (fun hx => hos hx.symm) hy hky
      · rw [List.getElem?_set_ne (Ne.symm hjo), List.getElem?_set_ne (Ne.symm hjs)] at hw
        exact own_unowned hinv o x hx hkx b off hp' j w hjo hw hkw)
    have heq : ((st.objs.set s ⟨.mem, none, y.dims⟩).set o ⟨.mem, y.ptr, y.dims⟩).set s ⟨.mem, x.ptr, y.dims⟩
        = (st.objs.set s (memMoveAssign x y).2).set o (memMoveAssign x y).1 := by
      apply List.ext_getElem?
      intro k
      simp only [memMoveAssign]
      by_cases hks : k = s
      · subst hks
        rw [List.getElem?_set_self (by simp; exact hs), List.getElem?_set_ne hos, List.getElem?_set_self hs]
      · rw [List.getElem?_set_ne (Ne.symm hks)]
        by_cases hko : k = o
        · subst hko
          rw [List.getElem?_set_self (by simp; exact ho), List.getElem?_set_self (by simp; exact ho)]
        · rw [List.getElem?_set_ne (Ne.symm hko), List.getElem?_set_ne (Ne.symm hks), List.getElem?_set_ne (Ne.symm hko),
            List.getElem?_set_ne (Ne.symm hks)]
    rw [← heq]
    exact h3

/-! ### every operation, every history -/

/-- the default objects a program starts from: nobody owns anything -/
theorem inv_init (objs : List Obj) (hp : ∀ (i : Nat) (x : Obj), objs[i]? = some x → x.ptr = none) :
    Inv (⟨[], objs⟩ : St α) := by
  constructor
  · intro i x hx _ b off hpx
    rw [hp i x hx] at hpx; cases hpx
  · intro i j x y _ hx _ _ _ b o1 o2 hpx _
    rw [hp i x hx] at hpx; cases hpx

/-- EVERY operation keeps the ownership invariant -/
theorem step_inv (junk : α) {st st' : St α} (hinv : Inv st) (op : Op α) (hs : step junk st op = some st') : Inv st' := by
  cases op with
  | drop o =>
    simp only [step, Option.bind_eq_bind, Option.pure_def] at hs
    cases hx : st.objs[o]? with
    | none => simp [hx] at hs
    | some x =>
      simp only [hx, Option.bind_some, Option.some.injEq] at hs
      subst hs
      apply inv_set hinv o x _ _ hx
      · intro b hl hne; exact live_dropObj st.heap x b hl hne
      · intro _ b off hp; simp [Obj.default] at hp
  | new o dims =>
    simp only [step, Option.bind_eq_bind, Option.pure_def] at hs
    cases hx : st.objs[o]? with
    | none => simp [hx] at hs
    | some x =>
      simp only [hx, Option.bind_some] at hs
      by_cases hk : x.kind = .mem
      · simp only [hk, ne_eq, not_true_eq_false, if_false, Option.some.injEq] at hs
        subst hs
        apply inv_set hinv o x _ _ hx
        · intro b hl hne
          exact live_alloc _ _ b (live_dropObj st.heap x b hl hne)
        · intro _ b off hp
          obtain ⟨h0, hb, hl⟩ := alloc_some _ _ b off hp
          exact ⟨h0, hl, fun j y _ hy hky => fresh_unowned hinv b (by rw [hb, dropObj_length]; exact Nat.le_refl _) j y hy hky⟩
      · simp [hk] at hs
  | fill o vals =>
    simp only [step, Option.bind_eq_bind, Option.pure_def] at hs
    cases hx : st.objs[o]? with
    | none => simp [hx] at hs
    | some x =>
      simp only [hx, Option.bind_some] at hs
      cases hw : x.write st.heap vals with
      | none => simp [hw] at hs
      | some h' =>
        simp only [hw, Option.bind_some, Option.some.injEq] at hs
        subst hs
        unfold Obj.write at hw
        split at hw
        · exact inv_heap hinv h' (fun b hl => live_write hw b hl)
        · cases hw
  | ctor o s =>
    simp only [step, Option.bind_eq_bind, Option.pure_def] at hs
    cases hx : st.objs[o]? with
    | none => simp [hx] at hs
    | some x =>
      cases hy : st.objs[s]? with
      | none => simp [hx, hy] at hs
      | some y =>
        simp only [hx, hy, Option.bind_some] at hs
        cases hc : construct (dropObj st.heap x) x.kind y with
        | none => simp [hc] at hs
        | some r =>
          simp only [hc, Option.bind_some, Option.some.injEq] at hs
          subst hs
          exact inv_construct hinv o x y r hx hc
  | moveCtor o s =>
    simp only [step, Option.bind_eq_bind, Option.pure_def] at hs
    cases hx : st.objs[o]? with
    | none => simp [hx] at hs
    | some x =>
      cases hy : st.objs[s]? with
      | none => simp [hx, hy] at hs
      | some y =>
        simp only [hx, hy, Option.bind_some] at hs
        by_cases hk : x.kind = .mem ∧ y.kind = .mem
        · rw [if_pos hk] at hs
          by_cases hos : o = s
          · simp [hos] at hs
          · simp only [hos, if_false, Option.some.injEq] at hs
            subst hs
            exact inv_moveCtor hinv o s x y hx hy hk.1 hk.2 hos
        · rw [if_neg hk] at hs
          cases hc : construct (dropObj st.heap x) x.kind y with
          | none => simp [hc] at hs
          | some r =>
            simp only [hc, Option.bind_some, Option.some.injEq] at hs
            subst hs
            exact inv_construct hinv o x y r hx hc
  | assign o s =>
    simp only [step, Option.bind_eq_bind] at hs
    cases hx : st.objs[o]? with
    | none => simp [hx] at hs
    | some x =>
      cases hy : st.objs[s]? with
      | none => simp [hx, hy] at hs
      | some y =>
        simp only [hx, hy, Option.bind_some] at hs
        exact inv_assignObj hinv o x y hx hs
  | moveAssign o s =>
    simp only [step, Option.bind_eq_bind, Option.pure_def] at hs
    cases hx : st.objs[o]? with
    | none => simp [hx] at hs
    | some x =>
      cases hy : st.objs[s]? with
      | none => simp [hx, hy] at hs
      | some y =>
        simp only [hx, hy, Option.bind_some] at hs
        by_cases hk : x.kind = .mem ∧ y.kind = .mem
        · rw [if_pos hk] at hs
          simp only [Option.some.injEq] at hs
          subst hs
          exact inv_moveAssign hinv o s x y hx hy hk.1 hk.2
        · rw [if_neg hk] at hs
          by_cases hc : x.kind = .cmap ∧ y.kind = .cmap
          · rw [if_pos hc] at hs
            simp only [Option.some.injEq] at hs
            subst hs
            apply inv_set hinv o x _ _ hx
            · intro b hl _; exact hl
            · intro hk'; simp [viewOf] at hk'
          · rw [if_neg hc] at hs
            exact inv_assignObj hinv o x y hx hs
  | resize o dims =>
    simp only [step, Option.bind_eq_bind, Option.pure_def] at hs
    cases hx : st.objs[o]? with
    | none => simp [hx] at hs
    | some x =>
      simp only [hx, Option.bind_some] at hs
      by_cases hk : x.kind = .mem
      · simp only [hk, ne_eq, not_true_eq_false, if_false, Option.some.injEq] at hs
        subst hs
        unfold memResize
        by_cases hc : st.heap.len x.ptr = size dims
        · rw [if_pos hc]
          apply inv_set hinv o x _ _ hx
          · intro b hl _; exact hl
          · intro _ b off hp
            have hp' : x.ptr = some (b, off) := hp
            obtain ⟨h0, hl⟩ := hinv.owner o x hx hk b off hp'
            exact ⟨h0, hl, own_unowned hinv o x hx hk b off hp'⟩
        · rw [if_neg hc]
          apply inv_set hinv o x _ _ hx
          · intro b hl hne
            exact live_alloc _ _ b (live_free_other st.heap x.ptr b hl (hne hk))
          · intro _ b off hp
            obtain ⟨h0, hb, hl⟩ := alloc_some _ _ b off hp
            exact ⟨h0, hl, fun j y _ hy hky => fresh_unowned hinv b (by rw [hb, free_length]; exact Nat.le_refl _) j y hy hky⟩
      · simp [hk] at hs
  | expr o dims vals =>
    simp only [step, Option.bind_eq_bind, Option.pure_def] at hs
    cases hx : st.objs[o]? with
    | none => simp [hx] at hs
    | some x =>
      simp only [hx, Option.bind_some] at hs
      cases hr : assignExpr junk st.heap x dims vals with
      | none => simp [hr] at hs
      | some r =>
        simp only [hr, Option.bind_some, Option.some.injEq] at hs
        subst hs
        unfold assignExpr at hr
        by_cases hk : x.kind = .mem
        · rw [if_pos hk] at hr
          cases hw : (memResize junk st.heap x dims).2.write (memResize junk st.heap x dims).1 vals with
          | none => simp [hw] at hr
          | some h' =>
            simp only [hw, Option.map_some, Option.some.injEq] at hr
            subst hr
            have hw' : ∃ p, (memResize junk st.heap x dims).1.write p vals = some h' := by
              unfold Obj.write at hw
              split at hw
              · exact ⟨_, hw⟩
              · cases hw
            obtain ⟨p, hw'⟩ := hw'
            unfold memResize at hw' ⊢
            by_cases hc : st.heap.len x.ptr = size dims
            · rw [if_pos hc] at hw' ⊢
              apply inv_set hinv o x _ _ hx
              · intro b hl _; exact live_write hw' b hl
              · intro _ b off hp
                have hp' : x.ptr = some (b, off) := hp
                obtain ⟨h0, hl⟩ := hinv.owner o x hx hk b off hp'
                exact ⟨h0, live_write hw' b hl, own_unowned hinv o x hx hk b off hp'⟩
            · rw [if_neg hc] at hw' ⊢
              apply inv_set hinv o x _ _ hx
              · intro b hl hne
                exact live_write hw' b (live_alloc _ _ b (live_free_other st.heap x.ptr b hl (hne hk)))
              · intro _ b off hp
                obtain ⟨h0, hb, hl⟩ := alloc_some _ _ b off hp
                exact ⟨h0, live_write hw' b hl, fun j y _ hy hky =>
                  fresh_unowned hinv b (by rw [hb, free_length]; exact Nat.le_refl _) j y hy hky⟩
        · rw [if_neg hk] at hr
          cases hw : x.write st.heap vals with
          | none => simp [hw] at hr
          | some h' =>
            simp only [hw, Option.map_some, Option.some.injEq] at hr
            subst hr
            unfold Obj.write at hw
            split at hw
            · apply inv_set hinv o x _ _ hx
              · intro b hl _; exact live_write hw b hl
              · intro hk'; exact absurd hk' hk
            · cases hw
  | slice o s c b e =>
    simp only [step, Option.bind_eq_bind, Option.pure_def] at hs
    cases hx : st.objs[o]? with
    | none => simp [hx] at hs
    | some x =>
      cases hy : st.objs[s]? with
      | none => simp [hx, hy] at hs
      | some y =>
        simp only [hx, hy, Option.bind_some] at hs
        cases hv : y.slice c b e with
        | none => simp [hv] at hs
        | some v =>
          simp only [hv, Option.bind_some] at hs
          cases hc : construct (dropObj st.heap x) x.kind v with
          | none => simp [hc] at hs
          | some r =>
            simp only [hc, Option.bind_some, Option.some.injEq] at hs
            subst hs
            exact inv_construct hinv o x v r hx hc
  | reshape o s c sizes =>
    simp only [step, Option.bind_eq_bind, Option.pure_def] at hs
    cases hx : st.objs[o]? with
    | none => simp [hx] at hs
    | some x =>
      cases hy : st.objs[s]? with
      | none => simp [hx, hy] at hs
      | some y =>
        simp only [hx, hy, Option.bind_some] at hs
        cases hv : y.reshape c sizes with
        | none => simp [hv] at hs
        | some v =>
          simp only [hv, Option.bind_some] at hs
          cases hc : construct (dropObj st.heap x) x.kind v with
          | none => simp [hc] at hs
          | some r =>
            simp only [hc, Option.bind_some, Option.some.injEq] at hs
            subst hs
            exact inv_construct hinv o x v r hx hc
  | sub o s c pre =>
    simp only [step, Option.bind_eq_bind, Option.pure_def] at hs
    cases hx : st.objs[o]? with
    | none => simp [hx] at hs
    | some x =>
      cases hy : st.objs[s]? with
      | none => simp [hx, hy] at hs
      | some y =>
        simp only [hx, hy, Option.bind_some] at hs
        cases hv : y.sub c pre with
        | none => simp [hv] at hs
        | some v =>
          simp only [hv, Option.bind_some] at hs
          cases hc : construct (dropObj st.heap x) x.kind v with
          | none => simp [hc] at hs
          | some r =>
            simp only [hc, Option.bind_some, Option.some.injEq] at hs
            subst hs
            exact inv_construct hinv o x v r hx hc
  | raw o s off dims =>
    simp only [step, Option.bind_eq_bind, Option.pure_def] at hs
    cases hx : st.objs[o]? with
    | none => simp [hx] at hs
    | some x =>
      cases hy : st.objs[s]? with
      | none => simp [hx, hy] at hs
      | some y =>
        simp only [hx, hy, Option.bind_some] at hs
        by_cases hk : x.kind = .mem
        · simp [hk] at hs
        · simp only [hk, if_false] at hs
          cases hc : construct (dropObj st.heap x) x.kind (rawMap (y.viewKind (decide (x.kind = .cmap))) y off dims) with
          | none => simp [hc] at hs
          | some r =>
            simp only [hc, Option.bind_some, Option.some.injEq] at hs
            subst hs
            exact inv_construct hinv o x _ r hx hc

/-- EVERY history keeps the ownership invariant: whatever sequence of constructions, conversions, assignments, moves,
    resizes, views and writes a program performs, as long as no step faults, no allocation is ever owned twice or released
    while an owning tensor still holds it -/
theorem run_inv (junk : α) : ∀ (ops : List (Op α)) (st st' : St α), Inv st → run junk st ops = some st' → Inv st'
  | [], st, st', hinv, hr => by
    simp only [run, Option.some.injEq] at hr
    subst hr; exact hinv
  | op :: ops, st, st', hinv, hr => by
    simp only [run] at hr
    cases hs : step junk st op with
    | none => simp [hs] at hr
    | some st1 =>
      simp only [hs, Option.bind_some] at hr
      exact run_inv junk ops st1 st' (step_inv junk hinv op hs) hr

end NanoVerif.Tensor.Store
