import NanoVerif.Model.TunerSurrogate
import NanoVerif.Proofs.Tune
import NanoVerif.Proofs.TunerGrid
import Mathlib.Algebra.Order.Field.Basic
import Mathlib.Algebra.Order.AbsoluteValue.Basic
import Mathlib.Data.Nat.Sqrt
import Mathlib.Algebra.Group.Nat.Even
import Mathlib.Tactic.Ring
import Mathlib.Tactic.Linarith
/-!
  C13 — `param_space_t` (`Model/TunerSurrogate.lean`): the closest grid point is the first nearest one, the surrogate
  coordinate of a grid point leads back to it, the linear map to the surrogate space is strictly increasing onto
  `[0, 1]` with `from_surrogate` as its inverse, the centre proposed by the surrogate tuner is a point of the grid box;
  the dimension recovered from the number of coefficients of a quadratic (`quadDim`) is the right one.
-/
set_option linter.unusedSectionVars false

namespace NanoVerif.Tuner

section
variable {α : Type} [Field α] [LinearOrder α] [IsStrictOrderedRing α]

theorem fabs_eq_abs (x : α) : fabs x = |x| := by
  unfold fabs
  split
  · rename_i h; rw [abs_of_neg h]
  · rename_i h; rw [abs_of_nonneg (not_lt.mp h)]

/-! ### the scan of `closest_grid_point_from_surrogate` -/

/-- whatever the distances: the scan returns a point of the grid -/
theorem argminScan_lt (top : α) : ∀ (vals : List α), vals ≠ [] → Tune.argminScan top vals < vals.length := by
  have key : ∀ (l : List α) (b : Nat) (x : α) (i : Nat),
      (l.foldl Tune.scanStep (b, x, i)).1 = b ∨
        (i ≤ (l.foldl Tune.scanStep (b, x, i)).1 ∧ (l.foldl Tune.scanStep (b, x, i)).1 < i + l.length) := by
    intro l
    induction l with
    | nil => intro b x i; exact Or.inl rfl
    | cons v rest ih =>
      intro b x i
      rw [List.foldl_cons, Tune.scanStep_mk]
      by_cases hv : v < x
      · rw [if_pos hv]
        rcases ih i v (i + 1) with h | ⟨h1, h2⟩
        · right; rw [h]; simp
        · right; simp only [List.length_cons]; omega
      · rw [if_neg hv]
        rcases ih b x (i + 1) with h | ⟨h1, h2⟩
        · exact Or.inl h
        · right; simp only [List.length_cons]; omega
  intro vals hne
  rw [Tune.argminScan_eq]
  rcases key vals 0 top 0 with h | ⟨_, h⟩
  · rw [h]; exact List.length_pos_iff.mpr hne
  · simpa using h

theorem closestScan_lt (top : α) (sg : List α) (v : α) (hne : sg ≠ []) : closestScan top sg v < sg.length := by
  have := argminScan_lt top (sg.map fun g => fabs (v - g)) (by simpa using hne)
  simpa [closestScan] using this

/-- **closest-point optimality**: the returned grid point is a nearest one (in surrogate coordinates) and the first such,
    provided no distance exceeds `top` = `DBL_MAX` -/
theorem closestScan_spec (top : α) (sg : List α) (v : α) (hne : sg ≠ []) (htop : ∀ g ∈ sg, |v - g| ≤ top) :
    ∃ hb : closestScan top sg v < sg.length,
      (∀ j (hj : j < sg.length), |v - sg[closestScan top sg v]| ≤ |v - sg[j]|) ∧
      (∀ j (hj : j < closestScan top sg v), |v - sg[closestScan top sg v]| < |v - sg[j]'(by omega)|) := by
  have hne' : (sg.map fun g => fabs (v - g)) ≠ [] := by simpa using hne
  have htop' : ∀ d ∈ sg.map (fun g => fabs (v - g)), d ≤ top := by
    intro d hd
    obtain ⟨g, hg, rfl⟩ := List.mem_map.mp hd
    rw [fabs_eq_abs]; exact htop g hg
  obtain ⟨hb, h1, h2⟩ := Tune.optimum_is_argmin top _ hne' htop'
  have hb' : closestScan top sg v < sg.length := by simpa [closestScan, Tune.optimumTrial] using hb
  refine ⟨hb', ?_, ?_⟩
  · intro j hj
    have := h1 j (by simpa using hj)
    simpa [closestScan, Tune.optimumTrial, fabs_eq_abs] using this
  · intro j hj
    have := h2 j (by simpa [closestScan, Tune.optimumTrial] using hj)
    simpa [closestScan, Tune.optimumTrial, fabs_eq_abs] using this

/-- **round trip on grid points**: with strictly increasing surrogate coordinates, the coordinate of grid point `k` is
    mapped back to `k` -/
theorem closestScan_roundtrip (top : α) (sg : List α) (hinc : sg.Pairwise (· < ·)) (k : Nat) (hk : k < sg.length)
    (htop : ∀ g ∈ sg, |sg[k] - g| ≤ top) : closestScan top sg sg[k] = k := by
  have hne : sg ≠ [] := by intro h; subst h; simp at hk
  obtain ⟨hb, h1, _⟩ := closestScan_spec top sg sg[k] hne htop
  have h := h1 k hk
  rw [sub_self, abs_zero] at h
  have heq : sg[closestScan top sg sg[k]] = sg[k] := by
    have := abs_nonpos_iff.mp h
    exact (sub_eq_zero.mp this).symm
  have hnd : sg.Nodup := hinc.imp (fun hab => ne_of_lt hab)
  exact (hnd.getElem_inj_iff).mp heq

/-! ### the maps to and from the surrogate space -/

variable [Log10 α]

theorem toSurrogate_some (s : Space α) (v : α) (h1 : s.mn ≤ v) (h2 : v ≤ s.mx) :
    s.toSurrogate v = some (match s.kind with
      | .linear => (v - s.mn) / (s.mx - s.mn)
      | .log10 => Log10.log10 v) := by
  unfold Space.toSurrogate
  rw [if_neg (by rintro (h | h) <;> [exact absurd h (not_lt.mpr h1); exact absurd h (not_lt.mpr h2)])]
  cases s.kind <;> rfl

/-- `to_surrogate` refuses exactly the values outside `[m_min, m_max]` -/
theorem toSurrogate_none_iff (s : Space α) (v : α) : s.toSurrogate v = none ↔ v < s.mn ∨ s.mx < v := by
  unfold Space.toSurrogate
  split <;> simp_all

/-- linear space: strictly increasing, onto `[0, 1]` -/
theorem toSurrogate_linear (s : Space α) (hk : s.kind = .linear) (hlt : s.mn < s.mx) (v : α) (h1 : s.mn ≤ v)
    (h2 : v ≤ s.mx) :
    ∃ a, s.toSurrogate v = some a ∧ 0 ≤ a ∧ a ≤ 1 ∧ a = (v - s.mn) / (s.mx - s.mn) := by
  have hpos : 0 < s.mx - s.mn := sub_pos.mpr hlt
  refine ⟨(v - s.mn) / (s.mx - s.mn), ?_, div_nonneg (sub_nonneg.mpr h1) hpos.le, ?_, rfl⟩
  · rw [toSurrogate_some s v h1 h2, hk]
  · rw [div_le_one hpos]; linarith

theorem toSurrogate_linear_strictMono (s : Space α) (hk : s.kind = .linear) (hlt : s.mn < s.mx) (v w a b : α)
    (hv : s.toSurrogate v = some a) (hw : s.toSurrogate w = some b) (hvw : v < w) : a < b := by
  have hpos : 0 < s.mx - s.mn := sub_pos.mpr hlt
  unfold Space.toSurrogate at hv hw
  split at hv
  · cases hv
  split at hw
  · cases hw
  rw [hk] at hv hw
  simp only [Option.some.injEq] at hv hw
  rw [← hv, ← hw]
  exact div_lt_div_of_pos_right (by linarith) hpos

theorem clamp_mem (v lo hi : α) (h : lo ≤ hi) : lo ≤ clamp v lo hi ∧ clamp v lo hi ≤ hi := by
  unfold clamp
  split
  · exact ⟨le_refl _, h⟩
  · rename_i h1
    split
    · exact ⟨h, le_refl _⟩
    · rename_i h2
      exact ⟨not_lt.mp h1, not_lt.mp h2⟩

/-- `from_surrogate` always answers within `[m_min, m_max]` (both kinds of spaces) -/
theorem fromSurrogate_mem (s : Space α) (v : α) (h : s.mn ≤ s.mx) :
    s.mn ≤ s.fromSurrogate v ∧ s.fromSurrogate v ≤ s.mx := by
  unfold Space.fromSurrogate
  cases s.kind <;> exact clamp_mem _ _ _ h

/-- linear space: `from_surrogate ∘ to_surrogate` is the identity on `[m_min, m_max]` -/
theorem fromSurrogate_toSurrogate_linear (s : Space α) (hk : s.kind = .linear) (hlt : s.mn < s.mx) (v a : α)
    (hv : s.toSurrogate v = some a) : s.fromSurrogate a = v := by
  have hpos : 0 < s.mx - s.mn := sub_pos.mpr hlt
  have hne : s.mx - s.mn ≠ 0 := ne_of_gt hpos
  unfold Space.toSurrogate at hv
  split at hv
  · cases hv
  rename_i hin
  rw [hk] at hv
  simp only [Option.some.injEq] at hv
  have hval : s.mn + a * (s.mx - s.mn) = v := by
    rw [← hv, div_mul_cancel₀ _ hne]; ring
  unfold Space.fromSurrogate
  rw [hk]
  simp only [hval]
  unfold clamp
  have h1 : ¬ v < s.mn := fun h => hin (Or.inl h)
  have h2 : ¬ s.mx < v := fun h => hin (Or.inr h)
  rw [if_neg h1, if_neg h2]

/-! ### the grid in surrogate coordinates -/

theorem mapM_toSurrogate_spec (s : Space α) : ∀ (grid sg : List α), grid.mapM s.toSurrogate = some sg →
    sg.length = grid.length ∧ ∀ i (hi : i < grid.length) (hi' : i < sg.length), s.toSurrogate grid[i] = some sg[i]
  | [], sg, h => by
    simp at h; subst h; exact ⟨rfl, fun i hi => by simp at hi⟩
  | g :: grid, sg, h => by
    rw [List.mapM_cons] at h
    cases hg : s.toSurrogate g with
    | none => simp [hg] at h
    | some a =>
      cases hrest : grid.mapM s.toSurrogate with
      | none => simp [hg, hrest] at h
      | some rest =>
        simp [hg, hrest] at h
        subst h
        obtain ⟨hl, hget⟩ := mapM_toSurrogate_spec s grid rest hrest
        refine ⟨by simp [hl], ?_⟩
        intro i hi hi'
        cases i with
        | zero => simpa using hg
        | succ i => simpa using hget i (by simpa using hi) (by simpa using hi')

/-- a strictly increasing grid of a linear space has strictly increasing surrogate coordinates -/
theorem sgrid_linear_increasing (s : Space α) (hk : s.kind = .linear) (hlt : s.mn < s.mx) (sg : List α)
    (hsg : s.sgrid = some sg) (hinc : s.grid.Pairwise (· < ·)) : sg.Pairwise (· < ·) := by
  obtain ⟨hl, hget⟩ := mapM_toSurrogate_spec s s.grid sg hsg
  rw [List.pairwise_iff_getElem] at hinc ⊢
  intro i j hi hj hij
  exact toSurrogate_linear_strictMono s hk hlt _ _ _ _ (hget i (by omega) hi) (hget j (by omega) hj)
    (hinc i j (by omega) (by omega) hij)

/-- **`closest_grid_point_from_surrogate(to_surrogate(grid value k)) = k`** for a linear space with a strictly increasing
    grid (what the constructor insists on) -/
theorem closestGridPoint_roundtrip_linear (top : α) (s : Space α) (hk : s.kind = .linear) (hlt : s.mn < s.mx)
    (hinc : s.grid.Pairwise (· < ·)) (sg : List α) (hsg : s.sgrid = some sg) (k : Nat) (hk' : k < sg.length)
    (htop : ∀ g ∈ sg, |sg[k] - g| ≤ top) : s.closestGridPoint top sg[k] = some k := by
  unfold Space.closestGridPoint
  rw [hsg]
  simp only [Option.map_some, Option.some.injEq]
  exact closestScan_roundtrip top sg (sgrid_linear_increasing s hk hlt sg hsg hinc) k hk' htop

/-! ### the centre proposed by the surrogate tuner is a point of the grid -/

theorem closestGridPoint_lt (top : α) (s : Space α) (v : α) (k : Nat) (hne : s.grid ≠ [])
    (h : s.closestGridPoint top v = some k) : k < s.grid.length := by
  unfold Space.closestGridPoint at h
  cases hsg : s.sgrid with
  | none => simp [hsg] at h
  | some sg =>
    simp [hsg] at h
    obtain ⟨hl, _⟩ := mapM_toSurrogate_spec s s.grid sg hsg
    have hne' : sg ≠ [] := by
      intro h0; subst h0; simp at hl; exact hne (List.length_eq_zero_iff.mp hl.symm)
    rw [← h, ← hl]
    exact closestScan_lt top sg v hne'

/-- whatever the solver returned: the grid point derived from it lies in the box `[0, size − 1]` of every grid -/
theorem centreOf_inGrid (top : α) : ∀ (spaces : List (Space α)) (x : List α) (c : IGrid),
    (∀ s ∈ spaces, s.grid ≠ []) → centreOf top spaces x = some c →
    inGrid (minOf (spaces.map (·.grid.length))) (maxOf (spaces.map (·.grid.length))) c = true
  | [], [], c, _, h => by
    simp [centreOf] at h; subst h; rfl
  | [], _ :: _, c, _, h => by simp [centreOf] at h
  | _ :: _, [], c, _, h => by simp [centreOf] at h
  | s :: spaces, v :: x, c, hne, h => by
    unfold centreOf at h
    cases hk : s.closestGridPoint top v with
    | none => simp [hk] at h
    | some k =>
      cases hrest : centreOf top spaces x with
      | none => simp [hk, hrest] at h
      | some rest =>
        simp [hk, hrest] at h
        subst h
        have ih := centreOf_inGrid top spaces x rest (fun s' hs' => hne s' (List.mem_cons_of_mem _ hs')) hrest
        have hlt := closestGridPoint_lt top s v k (hne s List.mem_cons_self) hk
        simp only [List.map_cons, minOf, maxOf, inGrid, Int.ofNat_eq_natCast] at ih ⊢
        simp only [Bool.and_eq_true, decide_eq_true_eq]
        refine ⟨⟨by omega, by omega⟩, ih⟩

end

/-! ### the dimension recovered from the number of coefficients (surrogate.cpp:66) -/

theorem two_mul_quadLen (n : Nat) : 2 * quadLen n = (n + 1) * (n + 2) := by
  unfold quadLen
  exact Nat.two_mul_div_two_of_even (Nat.even_mul_succ_self (n + 1))

/-- `static_cast<tensor_size_t>(std::sqrt(2 * size)) - 1` recovers `n` from `size = (n + 1)(n + 2) / 2` -/
theorem quadDim_quadLen (n : Nat) : quadDim (quadLen n) = n := by
  unfold quadDim
  rw [two_mul_quadLen]
  have : n + 1 = Nat.sqrt ((n + 1) * (n + 2)) := Nat.eq_sqrt.mpr ⟨by nlinarith, by nlinarith⟩
  rw [← this]; rfl

theorem quadSize_quadLen {α : Type} (m : List α) (n : Nat) (hn : 0 < n) (hm : m.length = quadLen n) :
    quadSize? m = some n := by
  unfold quadSize?
  simp only [hm, quadDim_quadLen]
  rw [if_pos ⟨hn, trivial⟩]

/-- the `assert`s of the constructor of `quadratic_surrogate_t` leave room for the constant and the linear coefficients -/
theorem quadSize_le {α : Type} (m : List α) (n : Nat) (h : quadSize? m = some n) :
    0 < n ∧ m.length = quadLen n ∧ 1 + n ≤ m.length := by
  simp only [quadSize?] at h
  split at h
  · rename_i hc
    simp only [Option.some.injEq] at h
    rw [h] at hc
    refine ⟨hc.1, hc.2, ?_⟩
    have := two_mul_quadLen n
    have hlen := hc.2
    nlinarith
  · cases h

end NanoVerif.Tuner
