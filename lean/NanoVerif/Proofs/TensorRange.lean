import NanoVerif.Model.TensorRange
import NanoVerif.Proofs.TensorView
/-!
  C16 — theorems about the helpers of `Model/TensorRange.lean`: ranges, `cat_dims`, `remove_if` over several tensors, the
  vector form of `stack` as coded, `arange`, the factories. Core Lean only.
-/
namespace NanoVerif.Tensor

/-! ### range.h -/

/-- `valid(size)` says: non-empty and inside `[0, size)` -/
theorem range_valid_iff (r : Range) (n : Int) : r.valid n = true ↔ 0 ≤ r.b ∧ r.b < r.e ∧ r.e ≤ n := by
  simp [Range.valid, and_assoc]

/-- a valid range has a positive size and satisfies the assert of `slice` -/
theorem range_valid_slice (r : Range) (n : Int) (h : r.valid n = true) : 0 < r.size ∧ sliceAssert r.b r.e n = true := by
  obtain ⟨h1, h2, h3⟩ := (range_valid_iff r n).mp h
  refine ⟨by unfold Range.size; omega, ?_⟩
  simp [sliceAssert, h1, h3]
  omega

/-- `make_range(b, e)` is the range `[b, e)` with `e - b` indices -/
theorem makeRange_spec (b e : Int) : (makeRange b e).b = b ∧ (makeRange b e).e = e ∧ (makeRange b e).size = e - b :=
  ⟨rfl, rfl, rfl⟩

/-- the range overload of `slice` is the two-argument overload on the range's ends: for a range `valid` for the first
    dimension it succeeds and yields `[b, e)` -/
theorem sliceRange_eq {α} (t : T α) (r : Range) (d : Nat) (ds : List Nat) (hd : t.dims = d :: ds)
    (hv : r.valid (Int.ofNat d) = true) :
    t.sliceRange r = t.slice r.b.toNat r.e.toNat ∧ (t.sliceRange r).isSome := by
  obtain ⟨h1, h2, h3⟩ := (range_valid_iff r _).mp hv
  have hs : t.sliceRange r = t.slice r.b.toNat r.e.toNat := by
    unfold T.sliceRange
    rw [if_pos ⟨h1, by omega⟩]
  refine ⟨hs, ?_⟩
  rw [hs]
  unfold T.slice
  rw [hd]
  simp only
  have hd' : (0 : Int) ≤ Int.ofNat d := Int.natCast_nonneg d
  have h3' : r.e.toNat ≤ d := by
    have : ((r.e.toNat : Nat) : Int) = r.e := Int.toNat_of_nonneg (by omega)
    have h3'' : r.e ≤ (d : Int) := h3
    omega
  rw [if_pos ⟨by omega, h3'⟩]
  rfl

/-! ### dims.h -/

theorem makeDims_spec (sizes : List Nat) : makeDims sizes = sizes := rfl

/-- `cat_dims(n, dims)`: `n` sub-tensors of shape `dims` — size, addressing and the shape left after fixing the first
    index -/
theorem catDims_spec (n : Nat) (dims : List Nat) :
    size (catDims n dims) = n * size dims ∧ dims0 (catDims n dims) 1 = dims ∧
    ∀ i is, index (catDims n dims) (i :: is) = i * size dims + index dims is :=
  ⟨rfl, rfl, fun _ _ => rfl⟩

/-! ### algorithm.h: `remove_if` over a pack of tensors -/

theorem removeIfLoop_step {α} (ms : List Bool) (curr last : Nat) (rs : List (List α)) :
    removeIfLoop (false :: ms) curr last rs = removeIfLoop ms (curr + 1) (last + 1) (copyRowD curr last rs) := by
  unfold copyRowD
  rw [removeIfLoop]
  simp only [Bool.false_eq_true, if_false]
  cases rs[curr]? <;> rfl

/-- the loop over a pack is the loop over each tensor of the pack, with the same kept count -/
theorem removeIfLoopN_eq {α} : ∀ (ms : List Bool) (curr last : Nat) (ts : List (List (List α))),
    (removeIfLoopN ms curr last ts).2 = ts.map (fun rs => (removeIfLoop ms curr last rs).2) ∧
    ∀ rs : List (List α), (removeIfLoopN ms curr last ts).1 = (removeIfLoop ms curr last rs).1
  | [], curr, last, ts => by
    simp [removeIfLoopN, removeIfLoop]
  | true :: ms, curr, last, ts => by
    have ih := removeIfLoopN_eq ms (curr + 1) last ts
    simp only [removeIfLoopN, removeIfLoop, if_true]
    exact ih
  | false :: ms, curr, last, ts => by
    have ih := removeIfLoopN_eq ms (curr + 1) (last + 1) (ts.map (copyRowD curr last))
    constructor
    · rw [removeIfLoopN]
      simp only [Bool.false_eq_true, if_false]
      rw [ih.1, List.map_map]
      apply List.map_congr_left
      intro rs _
      simp only [Function.comp]
      rw [removeIfLoop_step]
    · intro rs
      rw [removeIfLoopN]
      simp only [Bool.false_eq_true, if_false]
      rw [ih.2 (copyRowD curr last rs), removeIfLoop_step]

/-- `remove_if(op, tensors…)`: every tensor of the pack is compacted exactly as `remove_if(op, tensor)` compacts it alone, and
    the returned count is that of each of them -/
theorem removeIfRowsN_eq {α} (mask : List Bool) (ts : List (List (List α))) :
    (removeIfRowsN mask ts).2 = ts.map (fun rs => (removeIfRows mask rs).2) ∧
    ∀ rs : List (List α), (removeIfRowsN mask ts).1 = (removeIfRows mask rs).1 := by
  unfold removeIfRowsN removeIfRows
  exact removeIfLoopN_eq _ _ _ ts

/-- `detail::copy` under its asserts = the release-build copy -/
theorem copyRow_eq {α} (isrc idst : Nat) (rs rs' : List (List α)) (h : copyRow isrc idst rs = some rs') :
    rs' = copyRowD isrc idst rs ∧ isrc < rs.length ∧ idst < rs.length ∧ rs'.length = rs.length ∧
    rs'[idst]? = rs[isrc]? ∧ ∀ k, k ≠ idst → rs'[k]? = rs[k]? := by
  unfold copyRow at h
  cases hr : rs[isrc]? with
  | none => simp [hr] at h
  | some r =>
    simp only [hr] at h
    by_cases hd : idst < rs.length
    · rw [if_pos hd] at h
      cases h
      have hs : isrc < rs.length := (List.getElem?_eq_some_iff.mp hr).1
      refine ⟨by simp [copyRowD, hr], hs, hd, by simp, by rw [List.getElem?_set_self hd], ?_⟩
      intro k hk
      rw [List.getElem?_set_ne (Ne.symm hk)]
    · rw [if_neg hd] at h
      cases h

/-! ### stack.h: the vector form as coded = concatenation -/

theorem stackVecGo_eq {α} (n : Nat) : ∀ (blocks : List (List α)) (row : Nat) (v : List α), blocks ≠ [] → v.length = n →
    stackVecGo n blocks row v =
      if row + blocks.flatten.length = n then some (v.take row ++ blocks.flatten) else none
  | [], _, _, hne, _ => absurd rfl hne
  | [b], row, v, _, hv => by
    simp only [stackVecGo, List.flatten_cons, List.flatten_nil, List.append_nil]
    by_cases hle : row + b.length ≤ n
    · rw [if_pos hle]
      by_cases he : row + b.length = n
      · rw [if_pos he, if_pos he]
        congr 1
        unfold splice
        rw [List.drop_of_length_le (by omega), List.append_nil]
      · rw [if_neg he, if_neg he]
    · rw [if_neg hle, if_neg (by omega)]
  | b :: b' :: bs, row, v, _, hv => by
    rw [stackVecGo]
    by_cases hle : row + b.length ≤ n
    · rw [if_pos hle]
      simp only
      have hl : (splice v row b).length = n := by rw [splice_length _ _ _ (by omega)]; exact hv
      rw [stackVecGo_eq n (b' :: bs) (row + b.length) (splice v row b) (by simp) hl]
      rw [splice_take v row b (by omega)]
      have hf : (b :: b' :: bs).flatten = b ++ (b' :: bs).flatten := rfl
      rw [hf, List.length_append, ← Nat.add_assoc, List.append_assoc]
    · rw [if_neg hle, if_neg]
      have hf : (b :: b' :: bs).flatten = b ++ (b' :: bs).flatten := rfl
      rw [hf, List.length_append]
      omega

/-- the running-row loop of the vector form of `stack` computes the concatenation of the blocks, and succeeds exactly when
    their sizes add up to the size of the vector (`stackVec`, whose elements `stackVec_get` locates); no cell keeps the
    uninitialised `fill` -/
theorem stackVecCoded_eq {α} (fill : α) (n : Nat) (blocks : List (List α)) (hne : blocks ≠ []) :
    stackVecCoded fill n blocks = stackVec n blocks := by
  cases blocks with
  | nil => exact absurd rfl hne
  | cons b bs =>
    simp only [stackVecCoded, stackVec]
    rw [stackVecGo_eq n (b :: bs) 0 (List.replicate n fill) (by simp) (by simp)]
    simp

/-- a rank-1 tensor as a block of the matrix form is a well-formed `size × 1` block -/
theorem blockOfVec_spec {α} (xs : List α) :
    (Block.ofVec xs).rows = xs.length ∧ (Block.ofVec xs).cols = 1 ∧ (Block.ofVec xs).data.length = (Block.ofVec xs).rows * (Block.ofVec xs).cols := by
  simp [Block.ofVec]

/-! ### tensor.h: arange, full, factories -/

/-- `arange(min, max)` holds `max - min` consecutive integers starting at `min` -/
theorem arange_spec (min max : Int) (v : List Int) (h : arange min max = some v) :
    min ≤ max ∧ v.length = (max - min).toNat ∧ ∀ i, i < v.length → v[i]? = some (min + Int.ofNat i) := by
  unfold arange at h
  by_cases hle : min ≤ max
  · rw [if_pos hle] at h
    cases h
    refine ⟨hle, by simp, ?_⟩
    intro i hi
    rw [List.length_map, List.length_range] at hi
    rw [List.getElem?_map, List.getElem?_range hi]
    rfl
  · rw [if_neg hle] at h
    cases h

/-- every element of `arange(0, n)` is a valid index of a dimension of `n` elements, each exactly once (the identity
    gather) -/
theorem arange_indices (n : Nat) : arange 0 (Int.ofNat n) = some ((List.range n).map Int.ofNat) := by
  unfold arange
  rw [if_pos (by simp)]
  simp

theorem arange_rejects (min max : Int) (h : max < min) : arange min max = none := by
  unfold arange
  rw [if_neg (by omega)]

/-- `full(v)`: the dims are kept, every element is `v` -/
theorem full_spec {α} (t : T α) (v : α) (hwf : t.wf) :
    (t.full v).dims = t.dims ∧ (t.full v).wf ∧ ∀ i, i < size t.dims → (t.full v).data[i]? = some v := by
  unfold T.wf at hwf
  refine ⟨rfl, by simp [T.full, T.wf, hwf], ?_⟩
  intro i hi
  simp only [T.full]
  rw [List.getElem?_replicate, if_pos (by omega)]

theorem makeTensor_wf {α} (dims : List Nat) (values : List α) (t : T α) (h : makeTensor dims values = some t) :
    t.wf ∧ t.dims = dims ∧ t.data = values := by
  unfold makeTensor at h
  by_cases hs : size dims = values.length
  · rw [if_pos hs] at h
    cases h
    exact ⟨hs.symm, rfl, rfl⟩
  · rw [if_neg hs] at h
    cases h

/-- `make_matrix(rows, values…)`: exactly when the number of values is a multiple of `rows > 0` the result is the
    well-formed `rows × (count / rows)` matrix holding the values row-major -/
theorem makeMatrix_wf {α} (rows : Nat) (values : List α) (t : T α) (h : makeMatrix rows values = some t) :
    t.wf ∧ t.dims = [rows, values.length / rows] ∧ t.data = values ∧ 0 < rows ∧ values.length % rows = 0 := by
  unfold makeMatrix at h
  by_cases hr : rows = 0
  · rw [if_pos hr] at h; cases h
  · rw [if_neg hr] at h
    by_cases hm : values.length % rows = 0
    · rw [if_pos hm] at h
      cases h
      refine ⟨?_, rfl, rfl, Nat.pos_of_ne_zero hr, hm⟩
      simp only [T.wf, size, Nat.mul_one]
      exact (Nat.mul_div_cancel' (Nat.dvd_of_mod_eq_zero hm)).symm
    · rw [if_neg hm] at h
      cases h

theorem makeVector_wf {α} (values : List α) : (makeVector values).wf := by
  simp [makeVector, T.wf, size]

theorem makeFullTensor_wf {α} (dims : List Nat) (v : α) :
    (makeFullTensor dims v).wf ∧ ∀ i, i < size dims → (makeFullTensor dims v).data[i]? = some v := by
  refine ⟨by simp [makeFullTensor, T.wf], ?_⟩
  intro i hi
  simp only [makeFullTensor]
  rw [List.getElem?_replicate, if_pos hi]

end NanoVerif.Tensor
