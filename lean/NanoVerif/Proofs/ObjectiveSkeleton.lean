import NanoVerif.Model.Objective
/-!
  C09 — lemmas about the map-reduce skeleton of `Model/Objective.lean` (core Lean only):
  * the chunks of `map(n, batch)` tile `[0, n)` (`chunks_tile`);
  * for every accumulator type with an associative, commutative addition with a neutral element, every assignment of the
    chunks to workers and every batch size, the reduced accumulator is the plain sum of the per-sample terms
    (`mapReduce_eq`);
  * the slice-writing loop of `grads_function_t` overwrites the whole buffer (`fillChunks_chunks`).
-/
namespace NanoVerif.Objective

/-! ### chunks tile `[0, n)` -/

theorem rangeList_append (a b c : Nat) (h1 : a ≤ b) (h2 : b ≤ c) : rangeList a b ++ rangeList b c = rangeList a c := by
  unfold rangeList
  have : c - a = (b - a) + (c - b) := by omega
  rw [this, List.range_add, List.map_append, List.map_map]
  congr 1
  apply List.map_congr_left
  intro x _
  simp only [Function.comp]
  omega

theorem rangeList_zero (n : Nat) : rangeList 0 n = List.range n := by simp [rangeList]

theorem rangeList_self (b : Nat) : rangeList b b = [] := by simp [rangeList]

theorem length_rangeList (b e : Nat) : (rangeList b e).length = e - b := by simp [rangeList]

theorem chunksFrom_nil_of_ge (n c fuel b : Nat) (h : n ≤ b) : chunksFrom n c fuel b = [] := by
  cases fuel with
  | zero => rfl
  | succ f =>
    simp only [chunksFrom]
    split
    · omega
    · rfl

/-- the chunks starting at `b` tile `[b, n)` -/
theorem chunksFrom_tile (n c : Nat) (hc : 0 < c) : ∀ (fuel b : Nat), n ≤ b + fuel * c → b ≤ n →
    ((chunksFrom n c fuel b).map fun p => rangeList p.1 p.2).flatten = rangeList b n := by
  intro fuel
  induction fuel with
  | zero =>
    intro b h hb
    have : b = n := by omega
    subst this
    simp [chunksFrom, rangeList]
  | succ fuel ih =>
    intro b h hb
    by_cases hlt : b < n
    · simp only [chunksFrom, hlt, if_true, List.map_cons, List.flatten_cons]
      by_cases hbc : b + c ≤ n
      · rw [Nat.min_eq_left hbc]
        rw [ih (b + c) (by rw [Nat.succ_mul] at h; omega) hbc]
        exact rangeList_append b (b + c) n (by omega) hbc
      · rw [Nat.min_eq_right (by omega)]
        rw [chunksFrom_nil_of_ge n c fuel (b + c) (by omega)]
        simp
    · have : b = n := by omega
      subst this
      simp [chunksFrom, rangeList]

/-- **the ranges handed out by `map(n, batch, op)` are consecutive, disjoint and cover `[0, n)` exactly once**
    (their concatenation is `0, 1, …, n-1`), for every `n` and every `batch ≥ 1` -/
theorem chunks_tile (n c : Nat) (hc : 0 < c) :
    ((chunks n c).map fun p => rangeList p.1 p.2).flatten = List.range n := by
  unfold chunks
  rw [chunksFrom_tile n c hc n 0 (by
    have : n ≤ n * c := Nat.le_mul_of_pos_right n hc
    omega) (Nat.zero_le _)]
  simp [rangeList]

/-- the shape of the chunk list seen from position `b`: consecutive, each ends where the next one starts, the last
    ends at `n` -/
theorem chunksFrom_consecutive (n c : Nat) (hc : 0 < c) {β : Type} (f : Nat → β) :
    ∀ (fuel b : Nat) (buf : List β), n ≤ b + fuel * c → b ≤ n → buf.length = n →
      fillChunks f buf (chunksFrom n c fuel b) = buf.take b ++ (rangeList b n).map f := by
  intro fuel
  induction fuel with
  | zero =>
    intro b buf h hb hlen
    have : b = n := by omega
    subst this
    simp [chunksFrom, fillChunks, rangeList_self, ← hlen]
  | succ fuel ih =>
    intro b buf h hb hlen
    by_cases hlt : b < n
    · simp only [chunksFrom, hlt, if_true, fillChunks, List.foldl_cons]
      have hfold : ∀ (bf : List β) cs, List.foldl (fun buf c => writeRange f buf c.1 c.2) bf cs = fillChunks f bf cs :=
        fun _ _ => rfl
      rw [hfold]
      have hm : min (b + c) n ≤ n := Nat.min_le_right _ _
      have hbm : b ≤ min (b + c) n := by
        rw [Nat.le_min]; exact ⟨by omega, hb⟩
      have hwlen : (writeRange f buf b (min (b + c) n)).length = n := by
        simp only [writeRange, List.length_append, List.length_take, List.length_map, length_rangeList,
          List.length_drop, hlen]
        omega
      by_cases hbc : b + c ≤ n
      · rw [Nat.min_eq_left hbc] at hwlen ⊢
        rw [ih (b + c) _ (by rw [Nat.succ_mul] at h; omega) hbc hwlen]
        rw [← rangeList_append b (b + c) n (by omega) hbc, List.map_append, ← List.append_assoc]
        congr 1
        simp only [writeRange]
        rw [List.take_append_of_le_length (by
          simp only [List.length_append, List.length_take, List.length_map, length_rangeList, hlen]; omega)]
        rw [List.take_of_length_le (by
          simp only [List.length_append, List.length_take, List.length_map, length_rangeList, hlen]; omega)]
      · have hmin : min (b + c) n = n := Nat.min_eq_right (by omega)
        rw [hmin, chunksFrom_nil_of_ge n c fuel (b + c) (by omega)]
        simp only [fillChunks, List.foldl_nil, writeRange]
        rw [List.drop_of_length_le (by omega)]
        simp
    · have : b = n := by omega
      subst this
      simp [chunksFrom, fillChunks, rangeList_self, ← hlen]

/-- **`grads_function_t::gradients`: after the loop every entry of the buffer has been overwritten with the value of
    its own sample**, whatever the buffer held before and whatever the batch size -/
theorem fillChunks_chunks {β : Type} (f : Nat → β) (buf : List β) (n c : Nat) (hc : 0 < c) (hlen : buf.length = n) :
    fillChunks f buf (chunks n c) = (List.range n).map f := by
  unfold chunks
  rw [chunksFrom_consecutive n c hc f n 0 buf (by
    have : n ≤ n * c := Nat.le_mul_of_pos_right n hc
    omega) (Nat.zero_le _) hlen]
  simp [rangeList_zero]

/-! ### sums in a commutative monoid given by explicit operations -/

/-- the laws of the accumulator addition used by the reduction -/
structure Laws {M : Type} (add : M → M → M) (zero : M) : Prop where
  assoc : ∀ a b c, add (add a b) c = add a (add b c)
  comm : ∀ a b, add a b = add b a
  add_zero : ∀ a, add a zero = a

section monoid
variable {M : Type} {add : M → M → M} {zero : M}

theorem Laws.zero_add (h : Laws add zero) (a : M) : add zero a = a := by rw [h.comm, h.add_zero]

theorem foldl_add_init (h : Laws add zero) (a : M) : ∀ (l : List M) (b : M),
    List.foldl add (add a b) l = add a (List.foldl add b l)
  | [], _ => rfl
  | x :: l, b => by
    simp only [List.foldl_cons]
    rw [h.assoc, foldl_add_init h a l (add b x)]

theorem msum_nil : msum add zero [] = zero := rfl

theorem msum_cons (h : Laws add zero) (x : M) (l : List M) : msum add zero (x :: l) = add x (msum add zero l) := by
  unfold msum
  rw [List.foldl_cons, h.zero_add]
  conv => lhs; rw [← h.add_zero x]
  exact foldl_add_init h x l zero

theorem msum_append (h : Laws add zero) : ∀ (l1 l2 : List M),
    msum add zero (l1 ++ l2) = add (msum add zero l1) (msum add zero l2)
  | [], l2 => by rw [List.nil_append, msum_nil, h.zero_add]
  | x :: l1, l2 => by
    rw [List.cons_append, msum_cons h, msum_cons h, msum_append h l1 l2, h.assoc]

theorem msum_flatten (h : Laws add zero) : ∀ (ls : List (List M)),
    msum add zero ls.flatten = msum add zero (ls.map (msum add zero))
  | [] => rfl
  | l :: ls => by
    rw [List.flatten_cons, msum_append h, List.map_cons, msum_cons h, msum_flatten h ls]

theorem msum_replicate_zero (h : Laws add zero) : ∀ k : Nat, msum add zero (List.replicate k zero) = zero
  | 0 => rfl
  | k + 1 => by rw [List.replicate_succ, msum_cons h, msum_replicate_zero h k, h.add_zero]

/-- adding `d` to one accumulator adds `d` to the total -/
theorem msum_set (h : Laws add zero) : ∀ (accs : List M) (w : Nat) (a d : M), accs[w]? = some a →
    msum add zero (accs.set w (add a d)) = add (msum add zero accs) d
  | [], _, _, _, hw => by simp at hw
  | x :: accs, 0, a, d, hw => by
    simp only [List.getElem?_cons_zero, Option.some.injEq] at hw
    subst hw
    rw [List.set_cons_zero, msum_cons h, msum_cons h, h.assoc, h.assoc, h.comm d]
  | x :: accs, w + 1, a, d, hw => by
    simp only [List.getElem?_cons_succ] at hw
    rw [List.set_cons_succ, msum_cons h, msum_cons h, msum_set h accs w a d hw, h.assoc]

/-- `accumulator0 += accumulators[i]` for `i ≥ 1` yields the total -/
theorem foldl_tail_eq_msum (h : Laws add zero) (a0 : M) (rest : List M) :
    List.foldl add a0 rest = msum add zero (a0 :: rest) := by
  unfold msum
  rw [List.foldl_cons, h.zero_add]

variable {step : M → Nat → Nat → M} {contrib : Nat → Nat → M}

/-- whichever workers execute the chunks, the total over all accumulators grows by the contribution of each chunk -/
theorem runChunks_total (h : Laws add zero) (hstep : ∀ a b e, step a b e = add a (contrib b e)) :
    ∀ (cs : List (Nat × Nat)) (ws : List Nat) (accs accs' : List M), runChunks step accs cs ws = some accs' →
      msum add zero accs' = add (msum add zero accs) (msum add zero (cs.map fun p => contrib p.1 p.2)) ∧
      accs'.length = accs.length
  | [], [], accs, accs', hr => by
    simp only [runChunks, Option.some.injEq] at hr
    subst hr
    exact ⟨by rw [List.map_nil, msum_nil, h.add_zero], rfl⟩
  | [], _ :: _, _, _, hr => by simp [runChunks] at hr
  | _ :: _, [], _, _, hr => by simp [runChunks] at hr
  | (b, e) :: cs, w :: ws, accs, accs', hr => by
    simp only [runChunks] at hr
    cases hw : accs[w]? with
    | none => simp [hw] at hr
    | some a =>
      simp only [hw] at hr
      obtain ⟨h1, h2⟩ := runChunks_total h hstep cs ws _ accs' hr
      refine ⟨?_, by simpa using h2⟩
      rw [h1, hstep, msum_set h accs w a _ hw, List.map_cons, msum_cons h, h.assoc]

/-- the loop does not hit the `tnum < size` assert when every named worker exists -/
theorem runChunks_isSome : ∀ (cs : List (Nat × Nat)) (ws : List Nat) (accs : List M),
    ws.length = cs.length → (∀ w ∈ ws, w < accs.length) → ∃ accs', runChunks step accs cs ws = some accs'
  | [], [], accs, _, _ => ⟨accs, rfl⟩
  | [], _ :: _, _, hl, _ => by simp at hl
  | _ :: _, [], _, hl, _ => by simp at hl
  | (b, e) :: cs, w :: ws, accs, hl, hw => by
    have hlt : w < accs.length := hw w (by simp)
    simp only [runChunks, List.getElem?_eq_getElem hlt]
    exact runChunks_isSome cs ws _ (by simpa using hl) (fun v hv => by
      rw [List.length_set]; exact hw v (by simp [hv]))

/-- … and it does hit it when a chunk is handed to a worker that has no accumulator -/
theorem runChunks_none_of_bad_worker (b e w : Nat) (cs : List (Nat × Nat)) (ws : List Nat) (accs : List M)
    (hw : accs.length ≤ w) : runChunks step accs ((b, e) :: cs) (w :: ws) = none := by
  simp [runChunks, List.getElem?_eq_none hw]

/-- **the skeleton**: with `workers ≥ 1` accumulators, `batch ≥ 1` and any assignment of the chunks to existing
    workers, clear + loop + `sum_reduce` returns `(Σ_{i < n} term i) / n` -/
theorem mapReduce_eq (h : Laws add zero) (divN : M → Nat → M) (term : Nat → M)
    (hstep : ∀ a b e, step a b e = add a (msum add zero ((rangeList b e).map term)))
    (workers n batch : Nat) (asg : List Nat) (hw : 0 < workers) (hb : 0 < batch)
    (hasg : ValidAsg workers n batch asg) :
    mapReduce add zero divN step workers n batch asg = some (divN (msum add zero ((List.range n).map term)) n) := by
  unfold mapReduce
  rw [if_neg (by omega)]
  obtain ⟨accs', hr⟩ := runChunks_isSome (step := step) (chunks n batch) asg (List.replicate workers zero) hasg.1
    (fun w hw' => by rw [List.length_replicate]; exact hasg.2 w hw')
  rw [hr]
  obtain ⟨htot, hlen⟩ := runChunks_total h hstep _ _ _ _ hr
  rw [List.length_replicate] at hlen
  cases accs' with
  | nil => simp at hlen; omega
  | cons a0 rest =>
    simp only [sumReduce]
    rw [foldl_tail_eq_msum h, htot, msum_replicate_zero h, h.zero_add]
    have : (List.map (fun p : Nat × Nat => msum add zero ((rangeList p.1 p.2).map term)) (chunks n batch))
        = ((chunks n batch).map fun p => (rangeList p.1 p.2).map term).map (msum add zero) := by
      rw [List.map_map]; rfl
    rw [this, ← msum_flatten h]
    have : ((chunks n batch).map fun p => (rangeList p.1 p.2).map term).flatten
        = (((chunks n batch).map fun p => rangeList p.1 p.2).flatten).map term := by
      rw [List.map_flatten, List.map_map]; rfl
    rw [this, chunks_tile n batch hb]

theorem mapReduce_none_of_batch_zero (divN : M → Nat → M) (workers n : Nat) (asg : List Nat) :
    mapReduce add zero divN step workers n 0 asg = none := by
  simp [mapReduce]

theorem mapReduce_none_of_no_worker (divN : M → Nat → M) (n batch : Nat) (asg : List Nat) :
    mapReduce add zero divN step 0 n batch asg = none := by
  unfold mapReduce
  split
  · rfl
  · cases hr : runChunks step (List.replicate 0 zero) (chunks n batch) asg with
    | none => rfl
    | some accs =>
      simp only
      have : accs = [] := by
        cases hc : chunks n batch with
        | nil =>
          cases asg with
          | nil => simp [hc, runChunks] at hr; exact hr
          | cons _ _ => simp [hc, runChunks] at hr
        | cons c cs =>
          cases asg with
          | nil => simp [hc, runChunks] at hr
          | cons w ws => obtain ⟨b, e⟩ := c; simp [hc, runChunks] at hr
      subst this
      rfl

/-- a homomorphism into the scalars turns the accumulator sum into the scalar sum of the images -/
theorem foldl_proj {α : Type} (addα : α → α → α) (φ : M → α) (hφ : ∀ a b, φ (add a b) = addα (φ a) (φ b)) :
    ∀ (l : List M) (a : M), φ (List.foldl add a l) = List.foldl addα (φ a) (l.map φ)
  | [], _ => rfl
  | x :: l, a => by
    simp only [List.foldl_cons, List.map_cons]
    rw [foldl_proj addα φ hφ l (add a x), hφ]

end monoid
end NanoVerif.Objective
