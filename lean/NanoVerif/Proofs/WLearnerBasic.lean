import NanoVerif.Model.WLearner
import Mathlib.Algebra.Order.Field.Basic
import Mathlib.Tactic.Ring
import Mathlib.Tactic.Linarith
import Mathlib.Tactic.Positivity
import Mathlib.Tactic.FieldSimp
/-!
  C10 — helper lemmas about `Model/WLearner.lean` over an arbitrary linear ordered field (exact arithmetic):
  sums over the outputs and over the samples, the accumulators as sums, the one-dimensional least-squares facts.
  The property theorems are in `Props/C10.lean`.
-/
set_option linter.unusedSectionVars false
set_option linter.unusedVariables false

namespace NanoVerif.WLearner
variable {α : Type} [Field α] [LinearOrder α] [IsStrictOrderedRing α]

/-! ### `vsum`, `lsum`, `sumL` -/

@[simp] theorem vsum_zero_dim (v : Vec α) : vsum v 0 = 0 := rfl
theorem vsum_succ (v : Vec α) (T : Nat) : vsum v (T + 1) = vsum v T + v T := rfl

theorem vsum_congr {u v : Vec α} (T : Nat) (h : ∀ o, o < T → u o = v o) : vsum u T = vsum v T := by
  induction T with
  | zero => rfl
  | succ T ih =>
    rw [vsum_succ, vsum_succ, ih (fun o ho => h o (by omega)), h T (by omega)]

theorem vsum_add (u v : Vec α) (T : Nat) : vsum (fun o => u o + v o) T = vsum u T + vsum v T := by
  induction T with
  | zero => simp
  | succ T ih => rw [vsum_succ, vsum_succ, vsum_succ, ih]; ring

theorem vsum_sub (u v : Vec α) (T : Nat) : vsum (fun o => u o - v o) T = vsum u T - vsum v T := by
  induction T with
  | zero => simp
  | succ T ih => rw [vsum_succ, vsum_succ, vsum_succ, ih]; ring

theorem vsum_const_zero (T : Nat) : vsum (fun _ => (0 : α)) T = 0 := by
  induction T with
  | zero => rfl
  | succ T ih => rw [vsum_succ, ih]; ring

theorem vsum_le {u v : Vec α} (T : Nat) (h : ∀ o, o < T → u o ≤ v o) : vsum u T ≤ vsum v T := by
  induction T with
  | zero => simp
  | succ T ih =>
    rw [vsum_succ, vsum_succ]
    have := ih (fun o ho => h o (by omega))
    have := h T (by omega)
    linarith

theorem vsum_nonneg {u : Vec α} (T : Nat) (h : ∀ o, o < T → 0 ≤ u o) : 0 ≤ vsum u T := by
  have := vsum_le (u := fun _ => 0) (v := u) T h
  rwa [vsum_const_zero] at this

@[simp] theorem lsum_nil : lsum ([] : List α) = 0 := rfl
@[simp] theorem lsum_cons (a : α) (l : List α) : lsum (a :: l) = a + lsum l := rfl

theorem lsum_append (a b : List α) : lsum (a ++ b) = lsum a + lsum b := by
  induction a with
  | nil => simp
  | cons x xs ih => simp [ih]; ring

theorem lsum_map_add {β : Type} (f g : β → α) (l : List β) :
    lsum (l.map fun x => f x + g x) = lsum (l.map f) + lsum (l.map g) := by
  induction l with
  | nil => simp
  | cons x xs ih => simp [ih]; ring

theorem lsum_map_le {β : Type} (f g : β → α) (l : List β) (h : ∀ x ∈ l, f x ≤ g x) :
    lsum (l.map f) ≤ lsum (l.map g) := by
  induction l with
  | nil => simp
  | cons x xs ih =>
    simp only [List.map_cons, lsum_cons]
    have h1 := h x (by simp)
    have h2 := ih (fun y hy => h y (by simp [hy]))
    linarith

theorem lsum_map_nonneg {β : Type} (f : β → α) (l : List β) (h : ∀ x ∈ l, 0 ≤ f x) : 0 ≤ lsum (l.map f) := by
  induction l with
  | nil => simp
  | cons x xs ih =>
    simp only [List.map_cons, lsum_cons]
    have h1 := h x (by simp)
    have h2 := ih (fun y hy => h y (by simp [hy]))
    linarith

theorem lsum_map_congr {β : Type} (f g : β → α) (l : List β) (h : ∀ x ∈ l, f x = g x) :
    lsum (l.map f) = lsum (l.map g) := by
  induction l with
  | nil => simp
  | cons x xs ih =>
    simp only [List.map_cons, lsum_cons]
    rw [h x (by simp), ih (fun y hy => h y (by simp [hy]))]

theorem lsum_perm {a b : List α} (h : a.Perm b) : lsum a = lsum b := by
  induction h with
  | nil => rfl
  | cons x _ ih => simp [ih]
  | swap x y l => simp; ring
  | trans _ _ ih1 ih2 => rw [ih1, ih2]

/-- `Σ_o Σ_i = Σ_i Σ_o` -/
theorem vsum_lsum {β : Type} (f : β → Vec α) (l : List β) (T : Nat) :
    vsum (fun o => lsum (l.map fun x => f x o)) T = lsum (l.map fun x => vsum (f x) T) := by
  induction l with
  | nil => simp [vsum_const_zero]
  | cons x xs ih =>
    simp only [List.map_cons, lsum_cons]
    rw [vsum_add, ih]

/-- a left fold of `+=` is the start value plus the sum -/
theorem sumL_eq {β : Type} (f : β → α) (l : List β) (a : α) : sumL f l a = a + lsum (l.map f) := by
  unfold sumL
  induction l generalizing a with
  | nil => simp
  | cons x xs ih => simp only [List.foldl_cons, List.map_cons, lsum_cons]; rw [ih]; ring

theorem countOf_nil {β : Type} : countOf ([] : List β) = (0 : α) := rfl
theorem countOf_cons {β : Type} (x : β) (l : List β) : countOf (x :: l) = (1 : α) + countOf l := rfl

theorem countOf_nonneg {β : Type} (l : List β) : (0 : α) ≤ countOf l := by
  induction l with
  | nil => simp [countOf_nil]
  | cons x xs ih => rw [countOf_cons]; linarith

theorem countOf_pos {β : Type} (l : List β) (h : l ≠ []) : (0 : α) < countOf l := by
  cases l with
  | nil => exact absurd rfl h
  | cons x xs => rw [countOf_cons]; have := countOf_nonneg (α := α) xs; linarith

theorem countOf_append {β : Type} (a b : List β) : (countOf (a ++ b) : α) = countOf a + countOf b := by
  unfold countOf; rw [List.map_append, lsum_append]

theorem countOf_map {β γ : Type} (f : β → γ) (l : List β) : (countOf (l.map f) : α) = countOf l := by
  unfold countOf; rw [List.map_map]; rfl

/-! ### `cmax` -/

theorem cmax_eq_max (a b : α) : cmax a b = max a b := by
  unfold cmax
  split
  · rename_i h; exact (max_eq_right (le_of_lt h)).symm
  · rename_i h; exact (max_eq_left (not_lt.mp h)).symm

theorem cmax_mono {a b : α} (K : α) (h : a ≤ b) : cmax a K ≤ cmax b K := by
  rw [cmax_eq_max, cmax_eq_max]; exact max_le_max h (le_refl _)

/-! ### the accumulators are sums -/

theorem foldl_upd0_x0 (rs : List (Vec α)) (m : Mom α) :
    (rs.foldl Mom.upd0 m).x0 = m.x0 + countOf rs := by
  induction rs generalizing m with
  | nil => simp [countOf_nil]
  | cons r rs ih => simp only [List.foldl_cons]; rw [ih, countOf_cons]; simp only [Mom.upd0]; ring

theorem foldl_upd0_n (rs : List (Vec α)) (m : Mom α) :
    (rs.foldl Mom.upd0 m).n = m.n + rs.length := by
  induction rs generalizing m with
  | nil => simp
  | cons r rs ih => simp only [List.foldl_cons]; rw [ih]; simp only [Mom.upd0, List.length_cons]; omega

theorem foldl_upd0_r1 (rs : List (Vec α)) (m : Mom α) (o : Nat) :
    (rs.foldl Mom.upd0 m).r1 o = m.r1 o + lsum (rs.map fun r => r o) := by
  induction rs generalizing m with
  | nil => simp
  | cons r rs ih => simp only [List.foldl_cons]; rw [ih]; simp only [Mom.upd0, List.map_cons, lsum_cons]; ring

theorem foldl_upd0_r2 (rs : List (Vec α)) (m : Mom α) (o : Nat) :
    (rs.foldl Mom.upd0 m).r2 o = m.r2 o + lsum (rs.map fun r => r o * r o) := by
  induction rs generalizing m with
  | nil => simp
  | cons r rs ih => simp only [List.foldl_cons]; rw [ih]; simp only [Mom.upd0, List.map_cons, lsum_cons]; ring

theorem foldl_upd0_x1 (rs : List (Vec α)) (m : Mom α) : (rs.foldl Mom.upd0 m).x1 = m.x1 := by
  induction rs generalizing m with
  | nil => rfl
  | cons r rs ih => simp only [List.foldl_cons]; rw [ih]; rfl

theorem foldl_upd0_x2 (rs : List (Vec α)) (m : Mom α) : (rs.foldl Mom.upd0 m).x2 = m.x2 := by
  induction rs generalizing m with
  | nil => rfl
  | cons r rs ih => simp only [List.foldl_cons]; rw [ih]; rfl

theorem foldl_upd0_rx (rs : List (Vec α)) (m : Mom α) : (rs.foldl Mom.upd0 m).rx = m.rx := by
  induction rs generalizing m with
  | nil => rfl
  | cons r rs ih => simp only [List.foldl_cons]; rw [ih]; rfl

/-- the moments of a list of residual vectors (`x0` = count, `r1` = sums, `r2` = sums of squares) -/
def momOf (rs : List (Vec α)) : Mom α := rs.foldl Mom.upd0 Mom.zero

theorem momOf_x0 (rs : List (Vec α)) : (momOf rs).x0 = countOf rs := by
  unfold momOf; rw [foldl_upd0_x0]; simp [Mom.zero]
theorem momOf_r1 (rs : List (Vec α)) (o : Nat) : (momOf rs).r1 o = lsum (rs.map fun r => r o) := by
  unfold momOf; rw [foldl_upd0_r1]; simp [Mom.zero, zeroV]
theorem momOf_r2 (rs : List (Vec α)) (o : Nat) : (momOf rs).r2 o = lsum (rs.map fun r => r o * r o) := by
  unfold momOf; rw [foldl_upd0_r2]; simp [Mom.zero, zeroV]
theorem momOf_n (rs : List (Vec α)) : (momOf rs).n = rs.length := by
  unfold momOf; rw [foldl_upd0_n]; simp [Mom.zero]

theorem foldl_itemUpd0 (items : List (Item α)) (m : Mom α) :
    items.foldl Item.upd0 m = (items.map (·.r)).foldl Mom.upd0 m := by
  rw [List.foldl_map]; rfl

/-! ### least squares in one dimension -/

/-- `Σ (r − c)² = Σ r² − 2 c Σ r + c² n` -/
theorem lsum_sq_dev (l : List α) (c : α) :
    lsum (l.map fun r => (r - c) * (r - c)) = lsum (l.map fun r => r * r) - 2 * c * lsum l + c * c * countOf l := by
  induction l with
  | nil => simp [countOf_nil]
  | cons r rs ih => simp only [List.map_cons, lsum_cons, countOf_cons, ih]; ring

/-- the mean minimises the squared deviations; the minimum is `Σ r² − (Σ r)² / n` -/
theorem scalar_const_fit (l : List α) (hl : l ≠ []) (c : α) :
    lsum (l.map fun r => r * r) - lsum l * lsum l / countOf l ≤ lsum (l.map fun r => (r - c) * (r - c)) ∧
    lsum (l.map fun r => r * r) - lsum l * lsum l / countOf l =
      lsum (l.map fun r => (r - lsum l / countOf l) * (r - lsum l / countOf l)) := by
  have hn : (0 : α) < countOf l := countOf_pos l hl
  have hne : (countOf l : α) ≠ 0 := ne_of_gt hn
  rw [lsum_sq_dev, lsum_sq_dev]
  constructor
  · have : lsum (l.map fun r => r * r) - 2 * c * lsum l + c * c * countOf l
        - (lsum (l.map fun r => r * r) - lsum l * lsum l / countOf l)
        = countOf l * ((c - lsum l / countOf l) * (c - lsum l / countOf l)) := by
      field_simp; ring
    have h2 : 0 ≤ (countOf l : α) * ((c - lsum l / countOf l) * (c - lsum l / countOf l)) :=
      mul_nonneg (le_of_lt hn) (mul_self_nonneg _)
    linarith
  · field_simp; ring

end NanoVerif.WLearner
