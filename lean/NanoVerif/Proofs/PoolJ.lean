import NanoVerif.Proofs.PoolInv
/-!
  C17 — the no-lost-wake-up invariant `J` and the auxiliary invariants used by `quiescent_complete`,
  `map_returns_after_all_done` and `raise_rethrows`, each preserved by all fourteen events. Core Lean only.
-/
namespace NanoVerif.Pool

def owesNotify : CPc → Bool
  | .pushed _ _ => true
  | .stopSet => true
  | _ => false

def active : WPc → Bool
  | .ready => true
  | .running _ => true
  | _ => false

/-- J: work pending or stop requested ⇒ somebody will react: a worker is on its way to the predicate, or a client still
    owes the notification, or every worker has already exited -/
def J (s : St) : Prop :=
  (s.queue ≠ [] ∨ s.stop = true) →
    (∃ w, w < s.nw ∧ active (s.wpc w) = true) ∨ (∃ c, owesNotify (s.cpc c) = true) ∨ (∀ w, w < s.nw → s.wpc w = .exited)

theorem exists_active_or_all_exited (nw : Nat) (wpc : Nat → WPc) (hns : ∀ v, v < nw → wpc v ≠ .sleeping) :
    (∃ w, w < nw ∧ active (wpc w) = true) ∨ (∀ w, w < nw → wpc w = .exited) := by
  by_cases hall : ∀ w, w < nw → wpc w = .exited
  · exact Or.inr hall
  · left
    obtain ⟨w, hw⟩ := Classical.not_forall.mp hall
    obtain ⟨hwlt, hne⟩ := Classical.not_imp.mp hw
    refine ⟨w, hwlt, ?_⟩
    cases hpcw : wpc w with
    | ready => simp [active]
    | sleeping => exact absurd hpcw (hns w hwlt)
    | running t => simp [active]
    | exited => exact absurd hpcw hne

/-- an event that only moves one client between two states that owe no notification keeps J -/
theorem J_frame (s s' : St) (c : Nat) (x : CPc) (hj : J s) (hq : s'.queue = s.queue) (hstop : s'.stop = s.stop)
    (hnw : s'.nw = s.nw) (hw : s'.wpc = s.wpc) (hc : s'.cpc = upd s.cpc c x) (hpre : owesNotify (s.cpc c) = false) :
    J s' := by
  intro hprem
  rw [hq, hstop] at hprem
  rw [hnw, hw, hc]
  rcases hj hprem with h1 | ⟨c', hc'⟩ | h1
  · exact Or.inl h1
  · refine Or.inr (Or.inl ⟨c', ?_⟩)
    have hne : c' ≠ c := by intro heq; subst heq; rw [hpre] at hc'; cases hc'
    rw [upd_other _ _ _ _ hne]; exact hc'
  · exact Or.inr (Or.inr h1)

theorem J_init (nw : Nat) : J (init nw) := by
  intro h; simp [init] at h

theorem J_step (s s' : St) (e : Ev) (hj : J s) (h : step s e = some s') : J s' := by
  cases e with
  | wTake w =>
    obtain ⟨hw, _, _, t, q, _, rfl⟩ := step_wTake h
    intro _
    exact Or.inl ⟨w, hw, by show active (upd s.wpc w (.running t) w) = true; simp [upd_same, active]⟩
  | wSleep w =>
    obtain ⟨_, _, hstop, hq, rfl⟩ := step_wSleep h
    intro hprem
    rcases hprem with h1 | h1
    · exact absurd hq h1
    · rw [hstop] at h1; cases h1
  | wExit w =>
    obtain ⟨_, _, _, rfl⟩ := step_wExit h
    intro _
    have := exists_active_or_all_exited s.nw (fun v => if v = w then WPc.exited else wake (s.wpc v))
      (by
        intro v _
        by_cases hvw : v = w
        · simp [hvw]
        · simp [hvw, wake_ne_sleeping])
    rcases this with h1 | h1
    · exact Or.inl h1
    · exact Or.inr (Or.inr h1)
  | wRunEnd w b =>
    obtain ⟨hw, t, _, rfl⟩ := step_wRunEnd h
    intro _
    exact Or.inl ⟨w, hw, by show active (upd s.wpc w .ready w) = true; simp [upd_same, active]⟩
  | wWake w =>
    obtain ⟨hw, _, rfl⟩ := step_wWake h
    intro _
    exact Or.inl ⟨w, hw, by show active (upd s.wpc w .ready w) = true; simp [upd_same, active]⟩
  | cPush c ts all =>
    obtain ⟨_, _, _, _, rfl⟩ := step_cPush h
    intro _
    exact Or.inr (Or.inl ⟨c, by show owesNotify (upd s.cpc c (.pushed ts all) c) = true; simp [upd_same, owesNotify]⟩)
  | dStop c =>
    obtain ⟨_, rfl⟩ := step_dStop h
    intro _
    exact Or.inr (Or.inl ⟨c, by show owesNotify (upd s.cpc c .stopSet c) = true; simp [upd_same, owesNotify]⟩)
  | cNotify c w =>
    have hall : ∀ cpc', J { s with wpc := fun v => wake (s.wpc v), cpc := cpc' } := by
      intro cpc' _
      have := exists_active_or_all_exited s.nw (fun v => wake (s.wpc v)) (by intro v _; exact wake_ne_sleeping _)
      rcases this with h1 | h1
      · exact Or.inl h1
      · exact Or.inr (Or.inr h1)
    rcases step_cNotify h with ⟨ts, _, rfl⟩ | ⟨ts, v, _, _, hv, _, rfl⟩ | ⟨ts, _, _, hns, rfl⟩ | ⟨_, rfl⟩
    · exact hall _
    · intro _
      exact Or.inl ⟨v, hv, by show active (upd s.wpc v .ready v) = true; simp [upd_same, active]⟩
    · intro _
      rcases exists_active_or_all_exited s.nw s.wpc hns with h1 | h1
      · exact Or.inl h1
      · exact Or.inr (Or.inr h1)
    · exact hall _
  | cReturn c =>
    obtain ⟨ts, hpc, _, rfl⟩ := step_cReturn h
    exact J_frame s _ c .finished hj rfl rfl rfl rfl rfl (by rw [hpc]; rfl)
  | dJoined c =>
    obtain ⟨hpc, _, rfl⟩ := step_dJoined h
    exact J_frame s _ c .finished hj rfl rfl rfl rfl rfl (by rw [hpc]; rfl)
  | sStart c n =>
    obtain ⟨hpc, rfl⟩ := step_sStart h
    exact J_frame s _ c _ hj rfl rfl rfl rfl rfl (by rw [hpc]; rfl)
  | sOpBegin c =>
    obtain ⟨n, i, err, hpc, _, rfl⟩ := step_sOpBegin h
    exact J_frame s _ c _ hj rfl rfl rfl rfl rfl (by rw [hpc]; rfl)
  | sOpEnd c b =>
    obtain ⟨n, i, err, hpc, rfl⟩ := step_sOpEnd h
    exact J_frame s _ c _ hj rfl rfl rfl rfl rfl (by rw [hpc]; rfl)
  | sReturn c =>
    obtain ⟨n, err, hpc, rfl⟩ := step_sReturn h
    exact J_frame s _ c _ hj rfl rfl rfl rfl rfl (by rw [hpc]; rfl)

/-! ### auxiliary invariants -/

structure Inv2 (s : St) : Prop where
  /-- nobody exits before stop -/
  K : s.stop = false → ∀ w, w < s.nw → s.wpc w ≠ .exited
  /-- once a worker has exited the queue stays empty -/
  Q : (∃ w, w < s.nw ∧ s.wpc w = .exited) → s.queue = []
  /-- the tasks a client waits for have been pushed -/
  C : ∀ c ts, (s.cpc c = .waiting ts ∨ ∃ all, s.cpc c = .pushed ts all) → ∀ t ∈ ts, s.ts t ≠ .fresh
  /-- a destructor in progress has set stop -/
  S : ∀ c, (s.cpc c = .stopSet ∨ s.cpc c = .joining) → s.stop = true
  /-- no task is dropped before stop -/
  D : s.stop = false → ∀ t, s.ts t ≠ .dropped
  /-- an exception is stored only by a task that ran -/
  T : ∀ t, s.threw t = true → s.ts t = .done

theorem inv2_init (nw : Nat) : Inv2 (init nw) := by
  refine ⟨?_, ?_, ?_, ?_, ?_, ?_⟩ <;> simp [init]

/-- events that touch only one client's pc (towards a state that neither waits nor destroys) and ghost state -/
theorem inv2_frame (s s' : St) (c : Nat) (x : CPc) (h2 : Inv2 s) (hq : s'.queue = s.queue) (hstop : s'.stop = s.stop)
    (hnw : s'.nw = s.nw) (hw : s'.wpc = s.wpc) (hts : s'.ts = s.ts) (hth : s'.threw = s.threw)
    (hc : s'.cpc = upd s.cpc c x)
    (hx1 : ∀ ts, x ≠ .waiting ts) (hx2 : ∀ ts all, x ≠ .pushed ts all) (hx3 : x ≠ .stopSet) (hx4 : x ≠ .joining) :
    Inv2 s' := by
  refine ⟨?_, ?_, ?_, ?_, ?_, ?_⟩
  · rw [hstop, hnw, hw]; exact h2.K
  · rw [hnw, hw, hq]; exact h2.Q
  · intro c' ts hc'
    rw [hts]
    rw [hc] at hc'
    by_cases hcc : c' = c
    · subst hcc; rw [upd_same] at hc'
      rcases hc' with h1 | ⟨all, h1⟩
      · exact absurd h1 (hx1 ts)
      · exact absurd h1 (hx2 ts all)
    · rw [upd_other _ _ _ _ hcc] at hc'; exact h2.C c' ts hc'
  · intro c' hc'
    rw [hstop]
    rw [hc] at hc'
    by_cases hcc : c' = c
    · subst hcc; rw [upd_same] at hc'
      rcases hc' with h1 | h1
      · exact absurd h1 hx3
      · exact absurd h1 hx4
    · rw [upd_other _ _ _ _ hcc] at hc'; exact h2.S c' hc'
  · rw [hstop, hts]; exact h2.D
  · rw [hth, hts]; exact h2.T

theorem inv2_step (s s' : St) (e : Ev) (hi : Inv s) (h2 : Inv2 s) (h : step s e = some s') : Inv2 s' := by
  cases e with
  | wTake w =>
    obtain ⟨hw, hpc, hstop, t, q, hq, rfl⟩ := step_wTake h
    have htq : s.ts t = .queued := (hi.q_iff t).mp (by rw [hq]; simp)
    refine ⟨?_, ?_, ?_, ?_, ?_, ?_⟩
    · intro hs v hv
      show upd s.wpc w (.running t) v ≠ .exited
      by_cases hvw : v = w
      · subst hvw; rw [upd_same]; simp
      · rw [upd_other _ _ _ _ hvw]; exact h2.K hs v hv
    · rintro ⟨v, hv, hve⟩
      exfalso
      have hve' : upd s.wpc w (.running t) v = .exited := hve
      by_cases hvw : v = w
      · subst hvw; rw [upd_same] at hve'; cases hve'
      · rw [upd_other _ _ _ _ hvw] at hve'; exact h2.K hstop v hv hve'
    · intro c ts hc u hu
      show upd s.ts t (.running w) u ≠ .fresh
      by_cases hut : u = t
      · subst hut; rw [upd_same]; simp
      · rw [upd_other _ _ _ _ hut]; exact h2.C c ts hc u hu
    · exact h2.S
    · intro hs u
      show upd s.ts t (.running w) u ≠ .dropped
      by_cases hut : u = t
      · subst hut; rw [upd_same]; simp
      · rw [upd_other _ _ _ _ hut]; exact h2.D hs u
    · intro u hu
      show upd s.ts t (.running w) u = .done
      by_cases hut : u = t
      · subst hut
        have := h2.T u hu
        rw [htq] at this; cases this
      · rw [upd_other _ _ _ _ hut]; exact h2.T u hu
  | wSleep w =>
    obtain ⟨_, hpc, _, hq, rfl⟩ := step_wSleep h
    refine ⟨?_, ?_, h2.C, h2.S, h2.D, h2.T⟩
    · intro hs v hv
      show upd s.wpc w .sleeping v ≠ .exited
      by_cases hvw : v = w
      · subst hvw; rw [upd_same]; simp
      · rw [upd_other _ _ _ _ hvw]; exact h2.K hs v hv
    · intro _; exact hq
  | wWake w =>
    obtain ⟨_, hpc, rfl⟩ := step_wWake h
    refine ⟨?_, ?_, h2.C, h2.S, h2.D, h2.T⟩
    · intro hs v hv
      show upd s.wpc w .ready v ≠ .exited
      by_cases hvw : v = w
      · subst hvw; rw [upd_same]; simp
      · rw [upd_other _ _ _ _ hvw]; exact h2.K hs v hv
    · rintro ⟨v, hv, hve⟩
      have hve' : upd s.wpc w .ready v = .exited := hve
      by_cases hvw : v = w
      · subst hvw; rw [upd_same] at hve'; cases hve'
      · rw [upd_other _ _ _ _ hvw] at hve'; exact h2.Q ⟨v, hv, hve'⟩
  | wRunEnd w b =>
    obtain ⟨hw, t, hpc, rfl⟩ := step_wRunEnd h
    refine ⟨?_, ?_, ?_, h2.S, ?_, ?_⟩
    · intro hs v hv
      show upd s.wpc w .ready v ≠ .exited
      by_cases hvw : v = w
      · subst hvw; rw [upd_same]; simp
      · rw [upd_other _ _ _ _ hvw]; exact h2.K hs v hv
    · rintro ⟨v, hv, hve⟩
      have hve' : upd s.wpc w .ready v = .exited := hve
      by_cases hvw : v = w
      · subst hvw; rw [upd_same] at hve'; cases hve'
      · rw [upd_other _ _ _ _ hvw] at hve'; exact h2.Q ⟨v, hv, hve'⟩
    · intro c ts hc u hu
      show upd s.ts t .done u ≠ .fresh
      by_cases hut : u = t
      · subst hut; rw [upd_same]; simp
      · rw [upd_other _ _ _ _ hut]; exact h2.C c ts hc u hu
    · intro hs u
      show upd s.ts t .done u ≠ .dropped
      by_cases hut : u = t
      · subst hut; rw [upd_same]; simp
      · rw [upd_other _ _ _ _ hut]; exact h2.D hs u
    · intro u hu
      show upd s.ts t .done u = .done
      have hu' : upd s.threw t b u = true := hu
      by_cases hut : u = t
      · subst hut; rw [upd_same]
      · rw [upd_other _ _ _ _ hut] at hu' ⊢; exact h2.T u hu'
  | wExit w =>
    obtain ⟨_, hpc, hstop, rfl⟩ := step_wExit h
    refine ⟨?_, ?_, ?_, h2.S, ?_, ?_⟩
    · intro hs; rw [hstop] at hs; cases hs
    · intro _; rfl
    · intro c ts hc u hu
      show drop (s.ts u) ≠ .fresh
      rw [Ne, drop_fresh]; exact h2.C c ts hc u hu
    · intro hs; rw [hstop] at hs; cases hs
    · intro u hu
      show drop (s.ts u) = .done
      rw [drop_done]; exact h2.T u hu
  | cPush c ts all =>
    obtain ⟨hidle, hfresh, _, hstop, rfl⟩ := step_cPush h
    refine ⟨h2.K, ?_, ?_, ?_, ?_, ?_⟩
    · rintro ⟨v, hv, hve⟩
      exact absurd hve (h2.K hstop v hv)
    · intro c' ts' hc' u hu
      show (if u ∈ ts then TS.queued else s.ts u) ≠ .fresh
      by_cases hut : u ∈ ts
      · simp [hut]
      · simp only [hut, if_false]
        have hc'' : upd s.cpc c (.pushed ts all) c' = .waiting ts' ∨ ∃ a, upd s.cpc c (.pushed ts all) c' = .pushed ts' a := hc'
        by_cases hcc : c' = c
        · subst hcc; rw [upd_same] at hc''
          rcases hc'' with h1 | ⟨a, h1⟩
          · cases h1
          · cases h1; exact absurd hu hut
        · rw [upd_other _ _ _ _ hcc] at hc''; exact h2.C c' ts' hc'' u hu
    · intro c' hc'
      have hc'' : upd s.cpc c (.pushed ts all) c' = .stopSet ∨ upd s.cpc c (.pushed ts all) c' = .joining := hc'
      by_cases hcc : c' = c
      · subst hcc; rw [upd_same] at hc''
        rcases hc'' with h1 | h1 <;> cases h1
      · rw [upd_other _ _ _ _ hcc] at hc''; exact h2.S c' hc''
    · intro hs u
      show (if u ∈ ts then TS.queued else s.ts u) ≠ .dropped
      by_cases hut : u ∈ ts
      · simp [hut]
      · simp only [hut, if_false]; exact h2.D hs u
    · intro u hu
      show (if u ∈ ts then TS.queued else s.ts u) = .done
      by_cases hut : u ∈ ts
      · have := h2.T u hu
        rw [hfresh u hut] at this; cases this
      · simp only [hut, if_false]; exact h2.T u hu
  | cNotify c w =>
    have hall : ∀ x, (∀ ts, s.cpc c = .pushed ts true → x = .waiting ts) → (s.cpc c = .stopSet → x = .joining) →
        (s.cpc c = .stopSet ∨ ∃ ts, s.cpc c = .pushed ts true) →
        Inv2 { s with wpc := fun v => wake (s.wpc v), cpc := upd s.cpc c x } := by
      intro x hx1 hx2 hx3
      refine ⟨?_, ?_, ?_, ?_, h2.D, h2.T⟩
      · intro hs v hv
        show wake (s.wpc v) ≠ .exited
        rw [Ne, wake_exited]; exact h2.K hs v hv
      · rintro ⟨v, hv, hve⟩
        have hve' : wake (s.wpc v) = .exited := hve
        rw [wake_exited] at hve'
        exact h2.Q ⟨v, hv, hve'⟩
      · intro c' ts' hc'
        have hc'' : upd s.cpc c x c' = .waiting ts' ∨ ∃ a, upd s.cpc c x c' = .pushed ts' a := hc'
        by_cases hcc : c' = c
        · subst hcc; rw [upd_same] at hc''
          rcases hx3 with h3 | ⟨ts, h3⟩
          · rw [hx2 h3] at hc''
            rcases hc'' with h1 | ⟨a, h1⟩ <;> cases h1
          · rw [hx1 ts h3] at hc''
            rcases hc'' with h1 | ⟨a, h1⟩
            · cases h1; exact h2.C c' _ (Or.inr ⟨true, h3⟩)
            · cases h1
        · rw [upd_other _ _ _ _ hcc] at hc''; exact h2.C c' ts' hc''
      · intro c' hc'
        have hc'' : upd s.cpc c x c' = .stopSet ∨ upd s.cpc c x c' = .joining := hc'
        by_cases hcc : c' = c
        · subst hcc
          rcases hx3 with h3 | ⟨ts, h3⟩
          · exact h2.S c' (Or.inl h3)
          · rw [upd_same, hx1 ts h3] at hc''
            rcases hc'' with h1 | h1 <;> cases h1
        · rw [upd_other _ _ _ _ hcc] at hc''; exact h2.S c' hc''
    rcases step_cNotify h with ⟨ts, hpc, rfl⟩ | ⟨ts, v, hpc, _, hv, hsl, rfl⟩ | ⟨ts, hpc, _, hns, rfl⟩ | ⟨hpc, rfl⟩
    · exact hall _ (by intro ts' h'; rw [hpc] at h'; cases h'; rfl) (by intro h'; rw [hpc] at h'; cases h')
        (Or.inr ⟨ts, hpc⟩)
    · refine ⟨?_, ?_, ?_, ?_, h2.D, h2.T⟩
      · intro hs u hu
        show upd s.wpc v .ready u ≠ .exited
        by_cases huv : u = v
        · subst huv; rw [upd_same]; simp
        · rw [upd_other _ _ _ _ huv]; exact h2.K hs u hu
      · rintro ⟨u, hu, hue⟩
        have hue' : upd s.wpc v .ready u = .exited := hue
        by_cases huv : u = v
        · subst huv; rw [upd_same] at hue'; cases hue'
        · rw [upd_other _ _ _ _ huv] at hue'; exact h2.Q ⟨u, hu, hue'⟩
      · intro c' ts' hc'
        have hc'' : upd s.cpc c (.waiting ts) c' = .waiting ts' ∨ ∃ a, upd s.cpc c (.waiting ts) c' = .pushed ts' a := hc'
        by_cases hcc : c' = c
        · subst hcc; rw [upd_same] at hc''
          rcases hc'' with h1 | ⟨a, h1⟩
          · cases h1; exact h2.C c' _ (Or.inr ⟨false, hpc⟩)
          · cases h1
        · rw [upd_other _ _ _ _ hcc] at hc''; exact h2.C c' ts' hc''
      · intro c' hc'
        have hc'' : upd s.cpc c (.waiting ts) c' = .stopSet ∨ upd s.cpc c (.waiting ts) c' = .joining := hc'
        by_cases hcc : c' = c
        · subst hcc; rw [upd_same] at hc''
          rcases hc'' with h1 | h1 <;> cases h1
        · rw [upd_other _ _ _ _ hcc] at hc''; exact h2.S c' hc''
    · refine ⟨h2.K, h2.Q, ?_, ?_, h2.D, h2.T⟩
      · intro c' ts' hc'
        have hc'' : upd s.cpc c (.waiting ts) c' = .waiting ts' ∨ ∃ a, upd s.cpc c (.waiting ts) c' = .pushed ts' a := hc'
        by_cases hcc : c' = c
        · subst hcc; rw [upd_same] at hc''
          rcases hc'' with h1 | ⟨a, h1⟩
          · cases h1; exact h2.C c' _ (Or.inr ⟨false, hpc⟩)
          · cases h1
        · rw [upd_other _ _ _ _ hcc] at hc''; exact h2.C c' ts' hc''
      · intro c' hc'
        have hc'' : upd s.cpc c (.waiting ts) c' = .stopSet ∨ upd s.cpc c (.waiting ts) c' = .joining := hc'
        by_cases hcc : c' = c
        · subst hcc; rw [upd_same] at hc''
          rcases hc'' with h1 | h1 <;> cases h1
        · rw [upd_other _ _ _ _ hcc] at hc''; exact h2.S c' hc''
    · exact hall _ (by intro ts' h'; rw [hpc] at h'; cases h') (by intro _; rfl) (Or.inl hpc)
  | cReturn c =>
    obtain ⟨ts, hpc, _, rfl⟩ := step_cReturn h
    exact inv2_frame s _ c .finished h2 rfl rfl rfl rfl rfl rfl rfl (by simp) (by simp) (by simp) (by simp)
  | dStop c =>
    obtain ⟨hpc, rfl⟩ := step_dStop h
    refine ⟨?_, h2.Q, ?_, ?_, ?_, h2.T⟩
    · intro hs; cases hs
    · intro c' ts' hc'
      have hc'' : upd s.cpc c .stopSet c' = .waiting ts' ∨ ∃ a, upd s.cpc c .stopSet c' = .pushed ts' a := hc'
      by_cases hcc : c' = c
      · subst hcc; rw [upd_same] at hc''
        rcases hc'' with h1 | ⟨a, h1⟩ <;> cases h1
      · rw [upd_other _ _ _ _ hcc] at hc''; exact h2.C c' ts' hc''
    · intro _ _; rfl
    · intro hs; cases hs
  | dJoined c =>
    obtain ⟨hpc, _, rfl⟩ := step_dJoined h
    exact inv2_frame s _ c .finished h2 rfl rfl rfl rfl rfl rfl rfl (by simp) (by simp) (by simp) (by simp)
  | sStart c n =>
    obtain ⟨hpc, rfl⟩ := step_sStart h
    exact inv2_frame s _ c _ h2 rfl rfl rfl rfl rfl rfl rfl (by simp) (by simp) (by simp) (by simp)
  | sOpBegin c =>
    obtain ⟨n, i, err, hpc, _, rfl⟩ := step_sOpBegin h
    exact inv2_frame s _ c _ h2 rfl rfl rfl rfl rfl rfl rfl (by simp) (by simp) (by simp) (by simp)
  | sOpEnd c b =>
    obtain ⟨n, i, err, hpc, rfl⟩ := step_sOpEnd h
    exact inv2_frame s _ c _ h2 rfl rfl rfl rfl rfl rfl rfl (by simp) (by simp) (by simp) (by simp)
  | sReturn c =>
    obtain ⟨n, err, hpc, rfl⟩ := step_sReturn h
    exact inv2_frame s _ c _ h2 rfl rfl rfl rfl rfl rfl rfl (by simp) (by simp) (by simp) (by simp)

end NanoVerif.Pool
