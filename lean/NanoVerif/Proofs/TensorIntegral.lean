import NanoVerif.Model.Tensor
import NanoVerif.Proofs.TensorRemoveIf
/-!
  C16 — helper lemmas for `integral` (list level: running sums, row accumulation, rows of a buffer).
  Core Lean only.
-/
namespace NanoVerif.Tensor

theorem sumTo_succ_shift (g : Nat → Int) : ∀ i, sumTo (i + 1) g = g 0 + sumTo i (fun j => g (j + 1))
  | 0 => by simp [sumTo]
  | i + 1 => by
    have ih := sumTo_succ_shift g i
    rw [sumTo, ih]
    simp only [sumTo]
    omega

theorem sumTo_congr {g h : Nat → Int} : ∀ i, (∀ j, j ≤ i → g j = h j) → sumTo i g = sumTo i h
  | 0, e => by simp [sumTo, e 0 (Nat.le_refl _)]
  | i + 1, e => by
    simp only [sumTo]
    rw [sumTo_congr i (fun j hj => e j (by omega)), e (i + 1) (Nat.le_refl _)]

/-- `integral_t<1>::get`: `otensor(i0) = otensor(i0 - 1) + itensor(i0)` -/
theorem prefixSums_get : ∀ (xs : List Int) (acc : Int) (g : Nat → Int),
    (∀ j, j < xs.length → xs[j]? = some (g j)) →
    ∀ i, i < xs.length → (prefixSums acc xs)[i]? = some (acc + sumTo i g)
  | [], _, _, _, i, hi => by simp at hi
  | x :: xs, acc, g, hg, 0, _ => by
    have := hg 0 (by simp)
    simp only [List.getElem?_cons_zero, Option.some.injEq] at this
    simp [prefixSums, sumTo, this]
  | x :: xs, acc, g, hg, i + 1, hi => by
    have h0 := hg 0 (by simp)
    simp only [List.getElem?_cons_zero, Option.some.injEq] at h0
    have ih := prefixSums_get xs (acc + x) (fun j => g (j + 1))
      (fun j hj => by simpa using hg (j + 1) (by simpa using hj)) i (by simpa using hi)
    simp only [prefixSums, List.getElem?_cons_succ]
    rw [ih, sumTo_succ_shift g i, h0]
    congr 1; omega

theorem prefixSums_length : ∀ (xs : List Int) (acc : Int), (prefixSums acc xs).length = xs.length
  | [], _ => rfl
  | x :: xs, acc => by simp [prefixSums, prefixSums_length xs]

theorem prefixSums1_length (xs : List Int) : (prefixSums1 xs).length = xs.length := by
  cases xs <;> simp [prefixSums1, prefixSums_length]

theorem prefixSums1_get (xs : List Int) (g : Nat → Int) (hg : ∀ j, j < xs.length → xs[j]? = some (g j))
    (i : Nat) (hi : i < xs.length) : (prefixSums1 xs)[i]? = some (sumTo i g) := by
  cases xs with
  | nil => simp at hi
  | cons x xs =>
    have h0 := hg 0 (by simp)
    simp only [List.getElem?_cons_zero, Option.some.injEq] at h0
    cases i with
    | zero => simp [prefixSums1, sumTo, h0]
    | succ i =>
      have := prefixSums_get xs x (fun j => g (j + 1))
        (fun j hj => by simpa using hg (j + 1) (by simpa using hj)) i (by simpa using hi)
      simp only [prefixSums1, List.getElem?_cons_succ]
      rw [this, sumTo_succ_shift g i, h0]

/-! ### rows -/

/-- `IsRow n g r`: `r` is the row `g 0, …, g (n-1)` -/
def IsRow (n : Nat) (g : Nat → Int) (r : List Int) : Prop :=
  r.length = n ∧ ∀ k, k < n → r[k]? = some (g k)

theorem IsRow.congr {n : Nat} {g h : Nat → Int} {r : List Int} (hr : IsRow n g r)
    (e : ∀ k, k < n → g k = h k) : IsRow n h r :=
  ⟨hr.1, fun k hk => by rw [hr.2 k hk, e k hk]⟩

theorem zipAdd_length : ∀ (xs ys : List Int), (zipAdd xs ys).length = min xs.length ys.length
  | [], _ => by simp [zipAdd]
  | _ :: _, [] => by simp [zipAdd]
  | x :: xs, y :: ys => by simp [zipAdd, zipAdd_length xs ys]

theorem zipAdd_get : ∀ (xs ys : List Int) (k : Nat) (a b : Int), xs[k]? = some a → ys[k]? = some b →
    (zipAdd xs ys)[k]? = some (a + b)
  | [], _, _, _, _, h, _ => by simp at h
  | _ :: _, [], _, _, _, _, h => by simp at h
  | x :: xs, y :: ys, 0, a, b, ha, hb => by
    simp only [List.getElem?_cons_zero, Option.some.injEq] at ha hb
    simp [zipAdd, ha, hb]
  | x :: xs, y :: ys, k + 1, a, b, ha, hb => by
    simp only [List.getElem?_cons_succ] at ha hb
    simp [zipAdd, zipAdd_get xs ys k a b ha hb]

theorem zipAdd_isRow {n : Nat} {g p : Nat → Int} {r q : List Int} (hr : IsRow n g r) (hq : IsRow n p q) :
    IsRow n (fun k => g k + p k) (zipAdd r q) :=
  ⟨by rw [zipAdd_length, hr.1, hq.1]; omega, fun k hk => zipAdd_get r q k _ _ (hr.2 k hk) (hq.2 k hk)⟩

theorem accRows_length : ∀ (rs : List (List Int)) (prev : List Int), (accRows prev rs).length = rs.length
  | [], _ => rfl
  | r :: rs, prev => by simp [accRows, accRows_length rs]

theorem accRows1_length (rs : List (List Int)) : (accRows1 rs).length = rs.length := by
  cases rs <;> simp [accRows1, accRows_length]

/-- `otensor.vector(i0) += otensor.vector(i0 - 1)`: row `i` of the result is `Σ_{j ≤ i} row j` + the row before -/
theorem accRows_spec (n : Nat) : ∀ (rs : List (List Int)) (prev : List Int) (G : Nat → Nat → Int) (P : Nat → Int),
    IsRow n P prev → (∀ j r, rs[j]? = some r → IsRow n (G j) r) →
    ∀ i row, (accRows prev rs)[i]? = some row → IsRow n (fun k => sumTo i (fun j => G j k) + P k) row
  | [], _, _, _, _, _, i, row, h => by simp [accRows] at h
  | r :: rs, prev, G, P, hp, hG, 0, row, h => by
    simp only [accRows, List.getElem?_cons_zero, Option.some.injEq] at h
    subst h
    have hr := hG 0 r (by simp)
    exact (zipAdd_isRow hr hp).congr (fun k _ => by simp [sumTo])
  | r :: rs, prev, G, P, hp, hG, i + 1, row, h => by
    simp only [accRows, List.getElem?_cons_succ] at h
    have hr := hG 0 r (by simp)
    have ih := accRows_spec n rs (zipAdd r prev) (fun j => G (j + 1)) (fun k => G 0 k + P k)
      (zipAdd_isRow hr hp) (fun j r' hj => hG (j + 1) r' (by simpa using hj)) i row h
    exact ih.congr (fun k _ => by rw [sumTo_succ_shift (fun j => G j k) i]; omega)

theorem accRows1_spec (n : Nat) (rs : List (List Int)) (G : Nat → Nat → Int)
    (hG : ∀ j r, rs[j]? = some r → IsRow n (G j) r) (i : Nat) (row : List Int)
    (h : (accRows1 rs)[i]? = some row) : IsRow n (fun k => sumTo i (fun j => G j k)) row := by
  cases rs with
  | nil => simp [accRows1] at h
  | cons r rs =>
    have hr := hG 0 r (by simp)
    cases i with
    | zero =>
      simp only [accRows1, List.getElem?_cons_zero, Option.some.injEq] at h
      subst h
      exact hr.congr (fun k _ => by simp [sumTo])
    | succ i =>
      simp only [accRows1, List.getElem?_cons_succ] at h
      have := accRows_spec n rs r (fun j => G (j + 1)) (G 0) hr
        (fun j r' hj => hG (j + 1) r' (by simpa using hj)) i row h
      exact this.congr (fun k _ => by rw [sumTo_succ_shift (fun j => G j k) i]; omega)

/-- row `j` of a buffer split into rows of length `n` -/
theorem rows_get {α} (n : Nat) : ∀ (k : Nat) (xs : List α) (j : Nat), j < k →
    (rows n k xs)[j]? = some ((xs.drop (j * n)).take n)
  | 0, _, _, h => by omega
  | k + 1, xs, 0, _ => by simp [rows]
  | k + 1, xs, j + 1, h => by
    simp only [rows, List.getElem?_cons_succ]
    rw [rows_get n k (xs.drop n) j (by omega), List.drop_drop, Nat.add_mul, Nat.one_mul, Nat.add_comm]

/-- element `k` of row `i` of a list of rows of equal length `n` sits at offset `i * n + k` of the flattened list -/
theorem flatten_get {α} (n : Nat) : ∀ (rs : List (List α)) (i k : Nat) (row : List α),
    (∀ r ∈ rs, r.length = n) → rs[i]? = some row → k < n → rs.flatten[i * n + k]? = row[k]?
  | [], _, _, _, _, h, _ => by simp at h
  | r :: rs, 0, k, row, hl, h, hk => by
    simp only [List.getElem?_cons_zero, Option.some.injEq] at h
    subst h
    have h0 := hl r (by simp)
    simp only [List.flatten_cons, Nat.zero_mul, Nat.zero_add]
    rw [List.getElem?_append_left (by omega)]
  | r :: rs, i + 1, k, row, hl, h, hk => by
    simp only [List.getElem?_cons_succ] at h
    have h0 := hl r (by simp)
    have ih := flatten_get n rs i k row (fun x hx => hl x (by simp [hx])) h hk
    simp only [List.flatten_cons]
    rw [List.getElem?_append_right (by rw [h0, Nat.add_mul]; omega), h0, ← ih]
    congr 1
    rw [Nat.add_mul]; omega

end NanoVerif.Tensor
