import NanoVerif.Proofs.C06Loss
import Mathlib.Analysis.SpecialFunctions.Log.Basic
import Mathlib.Analysis.SpecialFunctions.Trigonometric.Arctan
import Mathlib.Analysis.SpecialFunctions.Sqrt
/-!
  C06 — the kernels with exp / log over `ℝ`: exponential, logistic (as coded, with the `x < 1` switch), class negative
  log-likelihood (log-sum-exp with the max-shift and the `+ε` inside the logarithm as coded), and the non-negativity of
  the non-convex kernels. `Transc ℝ` reads `std::exp/log/log1p/atan` as `Real.exp/log/log(1+·)/arctan`.
-/
set_option linter.unusedSectionVars false
set_option linter.unusedVariables false

namespace NanoVerif.C06
open NanoVerif.Loss NanoVerif.Fn

noncomputable instance instTranscReal : Transc ℝ :=
  ⟨Real.exp, Real.log, fun y => Real.log (1 + y), Real.arctan, Real.sqrt⟩

@[simp] theorem texp_eq (x : ℝ) : Transc.exp x = Real.exp x := rfl
@[simp] theorem tlog_eq (x : ℝ) : Transc.log x = Real.log x := rfl
@[simp] theorem tlog1p_eq (x : ℝ) : Transc.log1p x = Real.log (1 + x) := rfl
@[simp] theorem tatan_eq (x : ℝ) : Transc.atan x = Real.arctan x := rfl
@[simp] theorem tsqrt_eq (x : ℝ) : Transc.sqrt x = Real.sqrt x := rfl

/-- the tangent of `exp` at `u` lies below `exp` -/
theorem exp_tangent (u v : ℝ) : Real.exp v ≥ Real.exp u * (1 + (v - u)) := by
  have h : v = u + (v - u) := by ring
  have h2 := Real.add_one_le_exp (v - u)
  have h3 : 0 < Real.exp u := Real.exp_pos _
  calc Real.exp v = Real.exp u * Real.exp (v - u) := by rw [← Real.exp_add]; congr 1
    _ ≥ Real.exp u * (1 + (v - u)) := by
      apply mul_le_mul_of_nonneg_left _ (le_of_lt h3); linarith

/-! ### exponential loss -/

theorem expK_subgrad (t x z : ℝ) : expV t z ≥ expV t x + expG t x * (z - x) := by
  unfold expV expG
  simp only [texp_eq]
  have := exp_tangent (-t * x) (-t * z)
  nlinarith

theorem expV_nonneg (t o : ℝ) : 0 ≤ expV t o := by
  unfold expV; simp only [texp_eq]; exact le_of_lt (Real.exp_pos _)

/-! ### logistic loss as coded -/

theorem softplus_eq (x : ℝ) : softplus x = Real.log (1 + Real.exp x) := by
  unfold softplus
  simp only [texp_eq, tlog1p_eq]
  split
  · rfl
  · have h1 : 0 < Real.exp x := Real.exp_pos _
    have h2 : 0 < 1 + Real.exp (-x) := by have := Real.exp_pos (-x); linarith
    have : 1 + Real.exp x = Real.exp x * (1 + Real.exp (-x)) := by
      rw [mul_add, mul_one, ← Real.exp_add]; simp; ring
    rw [this, Real.log_mul (ne_of_gt h1) (ne_of_gt h2), Real.log_exp]

theorem sigmoid_eq (x : ℝ) : sigmoid x = Real.exp x / (1 + Real.exp x) := by
  unfold sigmoid
  simp only [texp_eq]
  split
  · rfl
  · have h1 : 0 < Real.exp x := Real.exp_pos _
    rw [Real.exp_neg]
    field_simp
    ring

/-- `log(1 + e^v) ≥ log(1 + e^u) + σ(u) (v − u)` -/
theorem softplus_tangent (u v : ℝ) :
    Real.log (1 + Real.exp v) ≥ Real.log (1 + Real.exp u) + Real.exp u / (1 + Real.exp u) * (v - u) := by
  have hu : 0 < Real.exp u := Real.exp_pos _
  have hS : 0 < 1 + Real.exp u := by linarith
  set m := Real.exp u / (1 + Real.exp u) * (v - u) with hm
  have hmS : m * (1 + Real.exp u) = Real.exp u * (v - u) := by
    rw [hm]; field_simp
  have hem : 0 < Real.exp m := Real.exp_pos _
  -- 1 = e^0 ≥ e^m (1 − m),  e^(v−u) ≥ e^m (1 + (v − u) − m)
  have t0 := exp_tangent m 0
  have t1 := exp_tangent m (v - u)
  rw [Real.exp_zero] at t0
  have hv : Real.exp v = Real.exp u * Real.exp (v - u) := by rw [← Real.exp_add]; congr 1; ring
  have key : 1 + Real.exp v ≥ (1 + Real.exp u) * Real.exp m := by
    rw [hv]
    have h2 : Real.exp u * Real.exp (v - u) ≥ Real.exp u * (Real.exp m * (1 + (v - u - m))) :=
      mul_le_mul_of_nonneg_left t1 (le_of_lt hu)
    have h3 : (1 + Real.exp u) * Real.exp m =
        Real.exp m * (1 + (0 - m)) + Real.exp u * (Real.exp m * (1 + (v - u - m))) := by
      have : Real.exp m * (1 + (0 - m)) + Real.exp u * (Real.exp m * (1 + (v - u - m))) =
          Real.exp m * ((1 + Real.exp u) - m * (1 + Real.exp u) + Real.exp u * (v - u)) := by ring
      rw [this, hmS]; ring
    rw [h3]; linarith
  have hpos : 0 < (1 + Real.exp u) * Real.exp m := mul_pos hS hem
  have := Real.log_le_log hpos key
  rw [Real.log_mul (ne_of_gt hS) (ne_of_gt hem), Real.log_exp] at this
  linarith

theorem logisticK_subgrad (t x z : ℝ) : logisticV t z ≥ logisticV t x + logisticG t x * (z - x) := by
  unfold logisticV logisticG
  rw [softplus_eq, softplus_eq, sigmoid_eq]
  have := softplus_tangent (-t * x) (-t * z)
  have h : Real.exp (-t * x) / (1 + Real.exp (-t * x)) * (-t * z - -t * x) =
      -t * (Real.exp (-t * x) / (1 + Real.exp (-t * x))) * (z - x) := by ring
  rw [h] at this
  exact this

theorem logisticV_nonneg (t o : ℝ) : 0 ≤ logisticV t o := by
  unfold logisticV; rw [softplus_eq]
  apply Real.log_nonneg
  have := Real.exp_pos (-t * o); linarith

/-! ### the non-convex kernels are non-negative -/

theorem cauchyV_nonneg (t o : ℝ) : 0 ≤ cauchyV t o := by
  unfold cauchyV; simp only [tlog_eq]
  apply Real.log_nonneg; nlinarith [mul_self_nonneg (t - o)]

theorem savageV_nonneg (t o : ℝ) : 0 ≤ savageV t o := by
  unfold savageV; simp only [texp_eq]
  have := Real.exp_pos (t * o)
  positivity

theorem tangentV_nonneg (t o : ℝ) : 0 ≤ tangentV t o := by
  unfold tangentV; exact mul_self_nonneg _

/-! ### log-sum-exp -/

theorem expSum_pos (c : ℝ) : ∀ (o : List ℝ), o ≠ [] → 0 < expSum c o
  | [], h => absurd rfl h
  | [x], _ => by simp only [expSum, texp_eq]; have := Real.exp_pos (x - c); linarith
  | x :: y :: r, _ => by
    have ih := expSum_pos c (y :: r) (by simp)
    have := Real.exp_pos (x - c)
    simp only [expSum, texp_eq] at *
    linarith

theorem expSum_nonneg (c : ℝ) : ∀ (o : List ℝ), 0 ≤ expSum c o
  | [] => le_refl _
  | x :: r => by
    have := expSum_nonneg c r; have := Real.exp_pos (x - c)
    simp only [expSum, texp_eq]; linarith

theorem expSum_shift (c : ℝ) : ∀ (o : List ℝ), expSum c o = Real.exp (-c) * expSum 0 o
  | [] => by simp [expSum]
  | x :: r => by
    simp only [expSum, texp_eq]
    rw [expSum_shift c r, sub_zero, mul_add, ← Real.exp_add]
    congr 2; ring

/-- `Σ_i exp(x_i) (z_i − x_i)` -/
noncomputable def wsum : List ℝ → List ℝ → ℝ
  | x :: xs, z :: zs => Real.exp x * (z - x) + wsum xs zs
  | _, _ => 0

/-- `Σ e^{z_i} ≥ e^m (Σ e^{x_i} + Σ e^{x_i} (z_i − x_i) − m Σ e^{x_i})` for every `m` (tangents of exp at `x_i + m`) -/
theorem expSum_tangent (m : ℝ) : ∀ (x z : List ℝ), z.length = x.length →
    expSum 0 z ≥ Real.exp m * (expSum 0 x + wsum x z - m * expSum 0 x)
  | [], [], _ => by simp [expSum, wsum]
  | x :: xs, z :: zs, h => by
    have ih := expSum_tangent m xs zs (by simpa using h)
    have t := exp_tangent (x + m) z
    simp only [expSum, wsum, texp_eq, sub_zero]
    rw [Real.exp_add] at t
    nlinarith [Real.exp_pos m, Real.exp_pos x]
  | [], _ :: _, h => by simp at h
  | _ :: _, [], h => by simp at h

/-- the gradient of `classnll_t::vgrad` paired with a direction -/
theorem classnllG_dot (c s : ℝ) : ∀ (t x z : List ℝ), x.length = t.length → z.length = t.length →
    dot (map2 (fun ti oi => if 0 < ti then Transc.exp (oi - c) / s - 1 else Transc.exp (oi - c) / s) t x) (vsub z x)
      = Real.exp (-c) * wsum x z / s - (posSum t z - posSum t x)
  | [], [], [], _, _ => by simp [map2, vsub, dot, wsum, posSum]
  | t :: ts, x :: xs, z :: zs, hx, hz => by
    have ih := classnllG_dot c s ts xs zs (by simpa using hx) (by simpa using hz)
    simp only [map2, vsub, dot, wsum, posSum, texp_eq]
    simp only [texp_eq] at ih
    rw [ih]
    have he : Real.exp (x - c) = Real.exp (-c) * Real.exp x := by rw [← Real.exp_add]; congr 1; ring
    rw [he]
    split <;> ring
  | [], _ :: _, _, h, _ => by simp at h
  | [], _, _ :: _, _, h => by simp at h
  | _ :: _, [], _, h, _ => by simp at h
  | _ :: _, _, [], _, h => by simp at h

/-- log-sum-exp lies above its tangent whose slope is the soft-max; any shifts `cx`, `cz` -/
theorem lse_tangent (cx cz : ℝ) (x z : List ℝ) (hne : x ≠ []) (hl : z.length = x.length) :
    Real.log (expSum cz z) + cz ≥
      Real.log (expSum cx x) + cx + Real.exp (-cx) * wsum x z / expSum cx x := by
  have hz : z ≠ [] := by intro h; rw [h] at hl; simp at hl; exact hne (List.eq_nil_of_length_eq_zero hl.symm)
  have hSx := expSum_pos cx x hne
  have hSz := expSum_pos cz z hz
  have hEx := expSum_pos 0 x hne
  have hEz := expSum_pos 0 z hz
  -- in terms of the unshifted sums
  have e1 : Real.log (expSum cz z) + cz = Real.log (expSum 0 z) := by
    rw [expSum_shift cz z, Real.log_mul (ne_of_gt (Real.exp_pos _)) (ne_of_gt hEz), Real.log_exp]; ring
  have e2 : Real.log (expSum cx x) + cx = Real.log (expSum 0 x) := by
    rw [expSum_shift cx x, Real.log_mul (ne_of_gt (Real.exp_pos _)) (ne_of_gt hEx), Real.log_exp]; ring
  have e3 : Real.exp (-cx) * wsum x z / expSum cx x = wsum x z / expSum 0 x := by
    rw [expSum_shift cx x]; field_simp
  rw [e1, e2, e3]
  set m := wsum x z / expSum 0 x with hm
  have hmE : m * expSum 0 x = wsum x z := by rw [hm]; field_simp
  have key := expSum_tangent m x z hl
  have : expSum 0 x + wsum x z - m * expSum 0 x = expSum 0 x := by rw [hmE]; ring
  rw [this] at key
  have hpos : 0 < Real.exp m * expSum 0 x := mul_pos (Real.exp_pos _) hEx
  have := Real.log_le_log hpos key
  rw [Real.log_mul (ne_of_gt (Real.exp_pos _)) (ne_of_gt hEx), Real.log_exp] at this
  linarith

theorem expSum_ge_one (c : ℝ) : ∀ (o : List ℝ), c ∈ o → 1 ≤ expSum c o
  | [], h => by simp at h
  | x :: r, h => by
    simp only [expSum, texp_eq]
    rcases List.mem_cons.1 h with h1 | h1
    · rw [← h1, sub_self, Real.exp_zero]; have := expSum_nonneg c r; linarith
    · have := expSum_ge_one c r h1; have := Real.exp_pos (x - c); linarith

/-! ### one-hot targets -/

theorem posSum_append : ∀ (t1 o1 t2 o2 : List ℝ), t1.length = o1.length →
    posSum (t1 ++ t2) (o1 ++ o2) = posSum t1 o1 + posSum t2 o2
  | [], [], t2, o2, _ => by simp [posSum]
  | t :: ts, o :: os, t2, o2, h => by
    simp only [List.cons_append, posSum]
    rw [posSum_append ts os t2 o2 (by simpa using h)]; ring
  | [], _ :: _, _, _, h => by simp at h
  | _ :: _, [], _, _, h => by simp at h

theorem posSum_nonpos_targets : ∀ (t o : List ℝ), (∀ v ∈ t, ¬ 0 < v) → posSum t o = 0
  | [], _, _ => by simp [posSum]
  | _ :: _, [], _ => by simp [posSum]
  | t :: ts, o :: os, h => by
    simp only [posSum]
    rw [posSum_nonpos_targets ts os (fun v hv => h v (by simp [hv]))]
    have := h t (by simp)
    simp [this]

theorem expSum_append (c : ℝ) : ∀ (o1 o2 : List ℝ), expSum c (o1 ++ o2) = expSum c o1 + expSum c o2
  | [], o2 => by simp [expSum]
  | x :: r, o2 => by simp only [List.cons_append, expSum]; rw [expSum_append c r o2]; ring

end NanoVerif.C06
