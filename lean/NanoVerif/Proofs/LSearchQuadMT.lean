import NanoVerif.Proofs.LSearchQuadFl
/-!
  C07 — helper lemmas: Moré–Thuente on a convex quadratic `φ(t) = f0 + g0 t + h t²/2` when the first trial step `t` does not
  undershoot (`(1 - c2) t* ≤ t`). Besides the case `2t* < t` of `morethuente_quad_overshoot`:
    * `(1 - c2) t* ≤ t ≤ min((1 + c2) t*, T)` (`T = 2(1 - c1) t*`): accepted at once;
    * `T < t ≤ 2t*` (Armijo fails, the value did not increase): stage 1 works on the MODIFIED function
      `ψ(t) = φ(t) - φ(0) - c1 φ'(0) t`, a quadratic with minimiser `(1 - c1) t*`; `dcstep` (case 1) brackets `[0, t]`, the next
      trial is `(1 - c1) t*`, and it is accepted (`c1 ≤ c2`) — Moré–Thuente does NOT end at `t*` here;
    * `(1 + c2) t* < t ≤ T` (Armijo holds, the slope is positive): stage 2, `dcstep` (case 2: slopes of opposite sign) brackets,
      the next trial is `t*`.
-/
namespace NanoVerif.LSearch
open NanoVerif.Gen.LsPredicates

set_option linter.unusedSectionVars false
set_option linter.unusedVariables false

variable {α : Type} [Field α] [LinearOrder α] [IsStrictOrderedRing α]

/-- `cfg.cubic` is exact on every quadratic with curvature `h` (the real `lsearch_step_t::cubic` is: `cubic_exact`) -/
def CubicExact (cfg : Cfg α) (h : α) : Prop :=
  ∀ (f0 g0 : α) (u v : Step α), OnQuad f0 g0 h u → OnQuad f0 g0 h v → u.t ≠ v.t → cfg.cubic u v = tstar g0 h

theorem tstar_scale (g0 h c : α) : tstar ((1 - c) * g0) h = (1 - c) * tstar g0 h := by
  unfold tstar; ring

/-- a Moré–Thuente iteration whose convergence test holds -/
theorem morethuente_exit_now (cfg : Cfg α) (φ : Oracle α) (s0 : Eval α) (n : Nat) (m : MT α) (ctx : Ctx α)
    (h : mtConverged cfg s0 m ctx.cur.f ctx.cur.g = true) :
    morethuente cfg φ s0 (n + 1) m ctx = ⟨true, m.dc.stp, ctx⟩ := by
  simp only [morethuente, h, if_true]

/-- a Moré–Thuente iteration that neither converges nor gives up, followed by one whose convergence test holds -/
theorem morethuente_two_steps (cfg : Cfg α) (ψ : α → Eval α) (hok : ∀ t, (ψ t).ok = true) (s0 : Eval α) (n : Nat) (m : MT α)
    (ctx : Ctx α) (h0 : mtConverged cfg s0 m ctx.cur.f ctx.cur.g = false) (h0' : mtGiveUp cfg s0 m ctx.cur.f ctx.cur.g = false)
    (h1 : mtConverged cfg s0 (mtNext cfg s0 m ctx.cur.f ctx.cur.g) (ψ (mtNext cfg s0 m ctx.cur.f ctx.cur.g).dc.stp).f
      (ψ (mtNext cfg s0 m ctx.cur.f ctx.cur.g).dc.stp).g = true) :
    morethuente cfg (fun _ => ψ) s0 (n + 2) m ctx =
      ⟨true, (mtNext cfg s0 m ctx.cur.f ctx.cur.g).dc.stp, ask (fun _ => ψ) ctx (mtNext cfg s0 m ctx.cur.f ctx.cur.g).dc.stp⟩ := by
  have hok' : (ask (fun _ => ψ) ctx (mtNext cfg s0 m ctx.cur.f ctx.cur.g).dc.stp).cur.ok = true := by simp [ask, hok]
  have hcur' : (ask (fun _ => ψ) ctx (mtNext cfg s0 m ctx.cur.f ctx.cur.g).dc.stp).cur =
      ψ (mtNext cfg s0 m ctx.cur.f ctx.cur.g).dc.stp := by simp [ask]
  rw [morethuente, h0, h0']
  simp only [Bool.false_eq_true, if_false, hok', if_true]
  rw [morethuente_exit_now]
  rw [hcur']; exact h1

section
variable (cfg : Cfg α) (f0 g0 h : α) (hg : g0 < 0) (hh : 0 < h) (hC : CubicExact cfg h)
  (hc10 : 0 ≤ cfg.c1) (hc1 : cfg.c1 ≤ 1 / 2) (hc12 : cfg.c1 ≤ cfg.c2) (heps : cfg.eps0 < 1)
include hg hh hC hc10 hc1 hc12 heps

/-- the convergence test on the quadratic, in terms of the step -/
theorem mt_convergence_quad (m : MT α) (ht0 : 0 < m.dc.stp) (hA : m.dc.stp ≤ 2 * (1 - cfg.c1) * tstar g0 h)
    (hS : |m.dc.stp - tstar g0 h| ≤ cfg.c2 * tstar g0 h) :
    mtConverged cfg ⟨f0, g0, true⟩ m (quadLine f0 g0 h m.dc.stp).f (quadLine f0 g0 h m.dc.stp).g = true := by
  rw [mtConverged_iff]
  constructor
  · exact (armijo_of_ftest ..).mp ((armijo_quad_iff hh ht0).mpr hA)
  · have := (strongWolfe_quad_iff (f0 := f0) hg hh).mpr hS
    simp only [hasStrongWolfe, decide_eq_true_eq] at this
    have e : absv g0 = -g0 := by unfold absv; simp [hg]
    rw [e] at this; exact this

/-- `T < t ≤ 2t*`: modified function, the next trial is `(1 - c1) t*`, accepted -/
theorem morethuente_quad_modified (n : Nat) (t : α) (ctx : Ctx α) (hc : ctx.cur = quadLine f0 g0 h t)
    (ht : 2 * (1 - cfg.c1) * tstar g0 h < t) (ht2 : t ≤ 2 * tstar g0 h)
    (hlo : stpmin cfg.macheps ≤ (1 - cfg.c1) * tstar g0 h) (hhi : (1 - cfg.c1) * tstar g0 h ≤ stpmax cfg.macheps)
    (hbis : t < 2 * (stpmax cfg.macheps - stpmin cfg.macheps) * (66 / 100)) :
    morethuente cfg (fun _ => quadLine f0 g0 h) ⟨f0, g0, true⟩ (n + 2) (morethuenteInit cfg ⟨f0, g0, true⟩ t) ctx =
      ⟨true, (1 - cfg.c1) * tstar g0 h, ask (fun _ => quadLine f0 g0 h) ctx ((1 - cfg.c1) * tstar g0 h)⟩ := by
  have hp := tstar_pos hg hh
  have e := h_tstar (g0 := g0) hh
  have htm0 : 0 < (1 - cfg.c1) * tstar g0 h := mul_pos (by linarith) hp
  have ht0 : 0 < t := by linarith
  have hA : ¬ hasArmijo f0 g0 ctx.cur.f t cfg.c1 = true := by
    rw [hc, armijo_quad_iff hh ht0]; exact not_le.mpr ht
  have hftest : ¬ ctx.cur.f ≤ f0 + t * (cfg.c1 * g0) := fun h' => hA ((armijo_of_ftest ..).mpr h')
  have hfx : ctx.cur.f ≤ f0 := by
    rw [hc]; simp only [quadLine]
    have : g0 * t = -(h * tstar g0 h * t) := by rw [e]; ring
    nlinarith [mul_nonneg (mul_nonneg (le_of_lt hh) (le_of_lt ht0)) (sub_nonneg.mpr ht2)]
  have hstpmin : ¬ t ≤ stpmin cfg.macheps := by
    have : (1 - cfg.c1) * tstar g0 h < t := by nlinarith
    linarith
  have hx0 : mtConverged cfg ⟨f0, g0, true⟩ (morethuenteInit cfg ⟨f0, g0, true⟩ t) ctx.cur.f ctx.cur.g = false := by
    rw [Bool.eq_false_iff]; intro hx
    exact hftest (by simpa [morethuenteInit] using ((mtConverged_iff ..).mp hx).1)
  have hx0' : mtGiveUp cfg ⟨f0, g0, true⟩ (morethuenteInit cfg ⟨f0, g0, true⟩ t) ctx.cur.f ctx.cur.g = false := by
    simp [mtGiveUp, morethuenteInit, hftest, hstpmin]
  -- the modified data lie on the quadratic with slope `(1 - c1) g0` at the origin
  have hX : OnQuad f0 ((1 - cfg.c1) * g0) h ⟨0, f0 - 0 * (cfg.c1 * g0), g0 - cfg.c1 * g0⟩ := by
    constructor <;> simp
    ring
  have hP : OnQuad f0 ((1 - cfg.c1) * g0) h ⟨t, ctx.cur.f - t * (cfg.c1 * g0), ctx.cur.g - cfg.c1 * g0⟩ := by
    rw [hc]; constructor <;> simp [quadLine] <;> ring
  have hcub : cfg.cubic ⟨0, f0 - 0 * (cfg.c1 * g0), g0 - cfg.c1 * g0⟩ ⟨t, ctx.cur.f - t * (cfg.c1 * g0), ctx.cur.g - cfg.c1 * g0⟩
      = (1 - cfg.c1) * tstar g0 h := by
    rw [hC f0 ((1 - cfg.c1) * g0) _ _ hX hP (ne_of_lt ht0), tstar_scale]
  have hquad : quadratic ⟨0, f0 - 0 * (cfg.c1 * g0), g0 - cfg.c1 * g0⟩ ⟨t, ctx.cur.f - t * (cfg.c1 * g0), ctx.cur.g - cfg.c1 * g0⟩
      = (1 - cfg.c1) * tstar g0 h := by
    rw [quadratic_exact hh _ _ hX hP (ne_of_lt ht0), tstar_scale]
  have hfm : f0 - 0 * (cfg.c1 * g0) < ctx.cur.f - t * (cfg.c1 * g0) := by
    have := not_le.mp hftest; linarith
  have hnext : mtNext cfg ⟨f0, g0, true⟩ (morethuenteInit cfg ⟨f0, g0, true⟩ t) ctx.cur.f ctx.cur.g =
      ⟨true, ⟨0, f0, g0, t, ctx.cur.f, ctx.cur.g, (1 - cfg.c1) * tstar g0 h, true⟩, 0, t, t,
        stpmax cfg.macheps - stpmin cfg.macheps⟩ := by
    have hnb : ¬ t ≥ 2 * (stpmax cfg.macheps - stpmin cfg.macheps) * (66 / 100) := not_le.mpr hbis
    have hcl : clamp ((1 - cfg.c1) * tstar g0 h) (stpmin cfg.macheps) (stpmax cfg.macheps) = (1 - cfg.c1) * tstar g0 h :=
      clamp_id hlo hhi
    have hfb : ¬ (((1 - cfg.c1) * tstar g0 h ≤ 0 ∨ (1 - cfg.c1) * tstar g0 h ≥ t) ∨ t ≤ cfg.eps0 * t) := by
      rintro ((h' | h') | h')
      · linarith
      · have : (1 - cfg.c1) * tstar g0 h ≥ t := h'; nlinarith
      · nlinarith
    have hstage : ¬ (ctx.cur.f ≤ f0 + t * (cfg.c1 * g0) ∧ ctx.cur.g ≥ 0) := fun h' => hftest h'.1
    have hmod : ctx.cur.f ≤ f0 ∧ ctx.cur.f > f0 + t * (cfg.c1 * g0) := ⟨hfx, not_le.mp hftest⟩
    simp only [mtNext, morethuenteInit, hstage, true_and, if_false, mtDcstep, hmod, and_self, if_true, dcstep, gt_iff_lt, hfm,
      hcub, hquad, lt_irrefl, sub_self, zero_div, add_zero, mtBounds, cmin_eq_min, cmax_eq_max,
      min_eq_left (le_of_lt ht0), max_eq_right (le_of_lt ht0), absv_eq_abs, sub_zero, abs_of_pos ht0]
    rw [if_neg hnb, hcl, if_neg hfb]
    simp
  have h1 := mt_convergence_quad cfg f0 g0 h hg hh hC hc10 hc1 hc12 heps
    ⟨true, ⟨0, f0, g0, t, ctx.cur.f, ctx.cur.g, (1 - cfg.c1) * tstar g0 h, true⟩, 0, t, t,
      stpmax cfg.macheps - stpmin cfg.macheps⟩ htm0 (by nlinarith)
    (by
      have : (1 - cfg.c1) * tstar g0 h - tstar g0 h = -(cfg.c1 * tstar g0 h) := by ring
      rw [this, abs_neg, abs_of_nonneg (mul_nonneg hc10 (le_of_lt hp))]
      exact mul_le_mul_of_nonneg_right hc12 (le_of_lt hp))
  have := morethuente_two_steps cfg (quadLine f0 g0 h) (fun _ => rfl) ⟨f0, g0, true⟩ n (morethuenteInit cfg ⟨f0, g0, true⟩ t) ctx hx0 hx0'
    (by rw [hnext]; exact h1)
  rw [this, hnext]

/-- `(1 + c2) t* < t ≤ T`: stage 2, slopes of opposite sign, the next trial is `t*`, accepted -/
theorem morethuente_quad_opposite (n : Nat) (t : α) (ctx : Ctx α) (hc : ctx.cur = quadLine f0 g0 h t)
    (hc20 : 0 ≤ cfg.c2) (ht : (1 + cfg.c2) * tstar g0 h < t) (htT : t ≤ 2 * (1 - cfg.c1) * tstar g0 h)
    (hlo : stpmin cfg.macheps ≤ tstar g0 h) (hhi : tstar g0 h ≤ stpmax cfg.macheps)
    (hbis : t < 2 * (stpmax cfg.macheps - stpmin cfg.macheps) * (66 / 100)) :
    morethuente cfg (fun _ => quadLine f0 g0 h) ⟨f0, g0, true⟩ (n + 2) (morethuenteInit cfg ⟨f0, g0, true⟩ t) ctx =
      ⟨true, tstar g0 h, ask (fun _ => quadLine f0 g0 h) ctx (tstar g0 h)⟩ := by
  have hp := tstar_pos hg hh
  have e := h_tstar (g0 := g0) hh
  have htgt : tstar g0 h < t := by nlinarith
  have ht0 : 0 < t := by linarith
  have hA : hasArmijo f0 g0 ctx.cur.f t cfg.c1 = true := by rw [hc, armijo_quad_iff hh ht0]; exact htT
  have hftest : ctx.cur.f ≤ f0 + t * (cfg.c1 * g0) := (armijo_of_ftest ..).mp hA
  have hgpos : 0 < ctx.cur.g := by rw [hc, quad_slope hh]; exact mul_pos hh (by linarith)
  have hgabs : ¬ absv ctx.cur.g ≤ cfg.c2 * -g0 := by
    rw [absv_eq_abs, abs_of_pos hgpos, hc, quad_slope hh, ← e]
    have : cfg.c2 * (h * tstar g0 h) < h * (t - tstar g0 h) := by nlinarith
    exact not_le.mpr this
  have hstpmin : ¬ t ≤ stpmin cfg.macheps := by linarith
  have hgtest : ¬ ctx.cur.g ≤ cfg.c1 * g0 := by
    have : cfg.c1 * g0 ≤ 0 := by nlinarith
    exact not_le.mpr (by linarith)
  have hx0 : mtConverged cfg ⟨f0, g0, true⟩ (morethuenteInit cfg ⟨f0, g0, true⟩ t) ctx.cur.f ctx.cur.g = false := by
    rw [Bool.eq_false_iff]; intro hx
    exact hgabs ((mtConverged_iff ..).mp hx).2
  have hx0' : mtGiveUp cfg ⟨f0, g0, true⟩ (morethuenteInit cfg ⟨f0, g0, true⟩ t) ctx.cur.f ctx.cur.g = false := by
    rw [Bool.eq_false_iff]
    intro hx
    rcases mtGiveUp_cases cfg _ _ _ _ hx with (⟨h1, _⟩ | ⟨h1, _⟩) | ⟨_, _, h3⟩ | ⟨h1, _⟩
    · simp [morethuenteInit] at h1
    · simp [morethuenteInit] at h1
    · exact hgtest h3
    · exact hstpmin (by simpa [morethuenteInit] using h1)
  have hX : OnQuad f0 g0 h ⟨0, f0, g0⟩ := onQuad_origin f0 g0 h
  have hP : OnQuad f0 g0 h ⟨t, ctx.cur.f, ctx.cur.g⟩ := onQuad_stepOf f0 g0 h ctx t hc
  have hcub : cfg.cubic ⟨0, f0, g0⟩ ⟨t, ctx.cur.f, ctx.cur.g⟩ = tstar g0 h := hC f0 g0 _ _ hX hP (ne_of_lt ht0)
  have hsec : secant ⟨0, f0, g0⟩ ⟨t, ctx.cur.f, ctx.cur.g⟩ = tstar g0 h := secant_exact hh _ _ hX hP (ne_of_lt ht0)
  have hfx : ¬ f0 < ctx.cur.f := by
    have : t * (cfg.c1 * g0) ≤ 0 := by
      have := mul_nonneg hc10 (le_of_lt (neg_pos.mpr hg)); nlinarith
    exact not_lt.mpr (by linarith)
  have hsgnd : ctx.cur.g * (g0 / |g0|) < 0 := by
    rw [abs_of_neg hg]
    have : g0 / -g0 = -1 := by
      rw [div_neg, div_self (ne_of_lt hg)]
    rw [this]; linarith
  have hnext : mtNext cfg ⟨f0, g0, true⟩ (morethuenteInit cfg ⟨f0, g0, true⟩ t) ctx.cur.f ctx.cur.g =
      ⟨false, ⟨t, ctx.cur.f, ctx.cur.g, 0, f0, g0, tstar g0 h, true⟩, 0, t, t, stpmax cfg.macheps - stpmin cfg.macheps⟩ := by
    have hnb : ¬ t ≥ 2 * (stpmax cfg.macheps - stpmin cfg.macheps) * (66 / 100) := not_le.mpr hbis
    have hcl : clamp (tstar g0 h) (stpmin cfg.macheps) (stpmax cfg.macheps) = tstar g0 h := clamp_id hlo hhi
    have hfb : ¬ ((tstar g0 h ≤ 0 ∨ tstar g0 h ≥ t) ∨ t - 0 ≤ cfg.eps0 * t) := by
      rintro ((h' | h') | h')
      · linarith
      · have : tstar g0 h ≥ t := h'; linarith
      · nlinarith
    have hstage : ctx.cur.f ≤ f0 + t * (cfg.c1 * g0) ∧ ctx.cur.g ≥ 0 := ⟨hftest, le_of_lt hgpos⟩
    simp only [mtNext, morethuenteInit, hstage, true_and, and_self, if_true, mtDcstep, Bool.false_eq_true, false_and, if_false,
      dcstep, gt_iff_lt, hfx, hsgnd, hcub, hsec, lt_irrefl, mtBounds, cmin_eq_min, cmax_eq_max,
      min_eq_right (le_of_lt ht0), max_eq_left (le_of_lt ht0), absv_eq_abs, zero_sub, abs_neg, abs_of_pos ht0]
    rw [if_neg hnb, hcl, if_neg hfb]
  have h1 := mt_convergence_quad cfg f0 g0 h hg hh hC hc10 hc1 hc12 heps
    ⟨false, ⟨t, ctx.cur.f, ctx.cur.g, 0, f0, g0, tstar g0 h, true⟩, 0, t, t, stpmax cfg.macheps - stpmin cfg.macheps⟩ hp
    (by nlinarith) (by simp; exact mul_nonneg hc20 (le_of_lt hp))
  have := morethuente_two_steps cfg (quadLine f0 g0 h) (fun _ => rfl) ⟨f0, g0, true⟩ n (morethuenteInit cfg ⟨f0, g0, true⟩ t) ctx hx0 hx0'
    (by rw [hnext]; exact h1)
  rw [this, hnext]

end

end NanoVerif.LSearch
