import NanoVerif.Proofs.C06Line
/-!
  C06 — "the gradient is the derivative along every line" is inherited by the compositions the ML objectives are made
  of: composition with an affine map (gradient `Aᵀ g_h(b + A x)`), sums, a ridge term.
-/
set_option linter.unusedSectionVars false
set_option linter.unusedVariables false

namespace NanoVerif.C06
open NanoVerif.Loss NanoVerif.Fn

theorem affine_comp_grad_aux (h : List ℝ → ℝ) (gh : List ℝ → List ℝ) (A : List (List ℝ)) (b : List ℝ) (n : Nat)
    (hrows : ∀ r ∈ A, r.length = n) (hb : b.length = A.length)
    (hgh : ∀ u : List ℝ, u.length = A.length → (gh u).length = A.length)
    (hh : ∀ u w : List ℝ, u.length = A.length → w.length = A.length →
      HasDerivAt (fun t : ℝ => h (line u w t)) (dot (gh u) w) 0)
    (x d : List ℝ) (hx : x.length = n) (hd : d.length = n) :
    HasDerivAt (fun t : ℝ => h (vadd b (mulVec A (line x d t))))
      (dot (tmulVec n A (gh (vadd b (mulVec A x)))) d) 0 := by
  have hdx : d.length = x.length := by rw [hd, hx]
  have hu : (vadd b (mulVec A x)).length = A.length := by
    rw [vadd_length b _ (by rw [mulVec_length, hb]), mulVec_length]
  rw [tmulVec_adjoint n A _ d hrows (hgh _ hu).symm]
  have e : (fun t : ℝ => h (vadd b (mulVec A (line x d t)))) =
      fun t => h (line (vadd b (mulVec A x)) (mulVec A d) t) := by
    funext t
    rw [mulVec_line A x d t hdx, vadd_line b _ _ t (by rw [mulVec_length, hb]) (by rw [mulVec_length, hb])]
  rw [e]
  exact hh _ _ hu (mulVec_length A d)

theorem sum_grad_aux (f1 f2 : List ℝ → ℝ) (g1 g2 x d : List ℝ) (hg : g1.length = g2.length)
    (h1 : HasDerivAt (fun t : ℝ => f1 (line x d t)) (dot g1 d) 0)
    (h2 : HasDerivAt (fun t : ℝ => f2 (line x d t)) (dot g2 d) 0) :
    HasDerivAt (fun t : ℝ => f1 (line x d t) + f2 (line x d t)) (dot (vadd g1 g2) d) 0 := by
  rw [dot_vadd_left _ _ _ hg]
  exact h1.add h2

theorem ridge_grad_aux (f : List ℝ → ℝ) (g : List ℝ) (c : ℝ) (x d : List ℝ) (hd : d.length = x.length)
    (hg : g.length = x.length) (h : HasDerivAt (fun t : ℝ => f (line x d t)) (dot g d) 0) :
    HasDerivAt (fun t : ℝ => f (line x d t) + c / 2 * dot (line x d t) (line x d t))
      (dot (vadd g (smul c x)) d) 0 := by
  rw [dot_vadd_left _ _ _ (by rw [smul_length, hg]), dot_smul_left]
  have h2 := (dot_self_line_deriv x d hd).const_mul (c / 2)
  exact (h.add h2).congr_deriv (by ring)

end NanoVerif.C06
