import NanoVerif.Props.C10
import NanoVerif.Proofs.IteratorSelect
/-!
  C18 — schedule / thread-count independence of the weak-learner fits on the models of C10 (`Model/WLearnerTree.lean`) and C09
  (`Model/IteratorSelect.lean`).

  * `dtreeLoopS`: the BFS loop of `dtree_wlearner_t::do_fit` where the stump fit of EVERY processed node runs under its own
    assignment of the features to the pool's workers (the assignment may change from node to node and from call to call);
  * `stumpFitAssigned_eq`: the node fit under any index-sorted assignment = the node fit of one thread (C10
    `fit_assignment_independent` instantiated with the stump candidates);
  * `dtree_fit_schedule_independent`: hence the whole tree fit;
  * `select_loop_thread_count_independent`: the per-feature loop of `select_iterator_t` visits the same features whatever the pool
    size; `seeded_loop_drops_features`: the seeded variant ("one contiguous range per worker", C18-e3) does not.
-/
set_option linter.unusedSectionVars false
set_option linter.unusedVariables false

namespace NanoVerif.Sharing
open NanoVerif.WLearner

section tree
variable {α : Type} [LT α] [DecidableLT α] [Add α] [OfNat α 0]

/-- `dtreeLoop` (C10) with the node fit indexed by the step: `fitAt fuel samples` is what the stump fit of the node processed
    when `fuel` steps remain returns — its own pool call, its own schedule -/
def dtreeLoopS (cfg : TreeCfg α) (fitAt : Nat → List Nat → Option (Cand α)) : Nat → List TCache → TState α → TResult α
  | _, [], st => .ok st
  | 0, _ :: _, _ => .fuel
  | fuel + 1, c :: rest, st =>
    match fitAt fuel c.samples with
    | none => .nofit st
    | some cand =>
      let r := dtreeStep cfg st c cand
      dtreeLoopS cfg fitAt fuel (rest ++ r.2) r.1

/-- a node fit that does not depend on the step gives the loop of C10 -/
theorem dtreeLoopS_eq (cfg : TreeCfg α) (fitAt : Nat → List Nat → Option (Cand α))
    (h : ∀ n sel, fitAt n sel = cfg.fit sel) : ∀ (fuel : Nat) (q : List TCache) (st : TState α),
    dtreeLoopS cfg fitAt fuel q st = dtreeLoop cfg fuel q st := by
  intro fuel
  induction fuel with
  | zero =>
    intro q st
    cases q <;> rfl
  | succ n ih =>
    intro q st
    cases q with
    | nil => rfl
    | cons c rest =>
      simp only [dtreeLoopS, dtreeLoop, h]
      cases cfg.fit c.samples with
      | none => rfl
      | some cand => exact ih _ _

end tree

section stump
variable {α : Type} [Field α] [LinearOrder α] [IsStrictOrderedRing α] [Log α] [FinTest α]

/-- `stump_wlearner_t::fit` on the samples of a node under an assignment of the features to the workers of the dataset's pool:
    `workers` = per worker, the features it processed, in its order; per-worker caches, then `min_reduce_feature` -/
def stumpFitAssigned (sort : List (Item α) → List (Item α)) (T : Nat) (K big : α) (crit : Crit)
    (workers : List (List Nat)) (val : Nat → Nat → FVal α) (resid : Nat → Vec α) (sel : List Nat) : Option (Cand α) :=
  let c := fitAssigned big (workers.map fun w => w.flatMap fun f => stumpCands sort T K crit f (rowsOf val resid sel f))
  if c.fitted big then some c else none

theorem stumpCands_feature (sort : List (Item α) → List (Item α)) (T : Nat) (K : α) (crit : Crit) (f : Nat)
    (rows : List (Row α)) (c : Cand α) (hc : c ∈ stumpCands sort T K crit f rows) : c.feature = f := by
  unfold stumpCands at hc
  obtain ⟨sc, _, rfl⟩ := List.mem_map.mp hc
  rfl

/-- **the stump fit of a node is assignment independent**: `feats` = the scalar features in increasing index order; every
    feature goes to exactly one worker (`hperm`, C17) and every worker sees ITS features in increasing order (what `pool_t::map`
    produces) — any number of workers, exact score ties allowed. -/
theorem stumpFitAssigned_eq (sort : List (Item α) → List (Item α)) (T : Nat) (K big : α) (crit : Crit) (feats : List Nat)
    (hinc : feats.Pairwise (· < ·)) (workers : List (List Nat)) (hperm : workers.flatten.Perm feats)
    (hsorted : ∀ w ∈ workers, w.Pairwise (· < ·)) (val : Nat → Nat → FVal α) (resid : Nat → Vec α) (sel : List Nat) :
    stumpFitAssigned sort T K big crit workers val resid sel = stumpFitOn sort T K big crit feats val resid sel := by
  let F : Nat → FeatC α := fun f => (f, stumpCands sort T K crit f (rowsOf val resid sel f))
  have hfst : ∀ l : List Nat, (l.map F).map Prod.fst = l := by
    intro l
    induction l with
    | nil => rfl
    | cons a l ih => simp only [List.map_cons, ih]; rfl
  have hstream : ∀ l : List Nat, streamC (l.map F) = l.flatMap fun f => stumpCands sort T K crit f (rowsOf val resid sel f) := by
    intro l
    induction l with
    | nil => rfl
    | cons a l ih =>
      simp only [List.map_cons, List.flatMap_cons]
      rw [← ih]
      simp [streamC, F]
  have hmain := (fit_assignment_independent big (feats.map F) (workers.map (·.map F))
    (by
      intro p hp c hc
      obtain ⟨f, _, rfl⟩ := List.mem_map.mp hp
      exact stumpCands_feature sort T K crit f _ c hc)
    (by rw [hfst]; exact hinc)
    (by
      have : (workers.map (·.map F)).flatten = workers.flatten.map F := by
        induction workers with
        | nil => rfl
        | cons w ws ih => simp [List.flatten_cons, List.map_append]
      rw [this]
      exact hperm.map F)
    (by
      intro w hw
      obtain ⟨w0, hw0, rfl⟩ := List.mem_map.mp hw
      rw [hfst]
      exact hsorted w0 hw0)).1
  unfold stumpFitAssigned stumpFitOn
  have e1 : (workers.map fun w => w.flatMap fun f => stumpCands sort T K crit f (rowsOf val resid sel f)) =
      (workers.map (·.map F)).map streamC := by
    rw [List.map_map]
    apply List.map_congr_left
    intro w _
    exact (hstream w).symm
  rw [e1, hmain, hstream feats]

/-- **The tree fit is schedule independent.** `sched fuel sel` = the assignment of the scalar features to the pool's workers
    during the stump fit of the node processed when `fuel` steps remain (on the samples `sel`): ANY family of assignments in
    which every feature goes to one worker and every worker sees its features in increasing index order — different at every
    node, any number of workers. The BFS loop then produces exactly the tree (nodes, tables, score, ghost log) that one thread
    produces (`dtreeFit` of C10, about which `dtree_fit_wellformed`, `dtree_leaves_partition`, `dtree_leaf_table_is_mean` speak). -/
theorem dtree_fit_schedule_independent (sort : List (Item α) → List (Item α)) (T : Nat) (K big : α) (crit : Crit)
    (feats : List Nat) (hinc : feats.Pairwise (· < ·)) (val : Nat → Nat → FVal α) (resid : Nat → Vec α)
    (N maxDepth minSplit : Nat) (sched : Nat → List Nat → List (List Nat))
    (hs : ∀ n sel, (sched n sel).flatten.Perm feats ∧ ∀ w ∈ sched n sel, w.Pairwise (· < ·)) (samples : List Nat) :
    dtreeLoopS (stumpTreeCfg sort T K big crit feats val resid N maxDepth minSplit)
        (fun n sel => stumpFitAssigned sort T K big crit (sched n sel) val resid sel)
        (2 ^ maxDepth) [⟨samples, 0, 0⟩] TState.init =
      dtreeFit (stumpTreeCfg sort T K big crit feats val resid N maxDepth minSplit) samples := by
  unfold dtreeFit
  exact dtreeLoopS_eq _ _
    (fun n sel => stumpFitAssigned_eq sort T K big crit feats hinc (sched n sel) (hs n sel).1 (hs n sel).2 val resid sel) _ _ _

end stump

/-! ### the per-feature loop of `select_iterator_t` -/

section select
open NanoVerif.Iterator NanoVerif.Objective

/-- **The features a fit looks at do not depend on the pool size**: for every dataset (`kinds`), every kind of callback, any
    two pool sizes and any two schedules naming one existing worker per chunk, `select_iterator_t::loop(samples, callback)`
    calls the callback for the same features — exactly the dataset's features of that kind, each once, in increasing order. -/
theorem select_loop_thread_count_independent (kinds : List FKind) (k : FKind) (w1 w2 : Nat) (asg1 asg2 : List Nat)
    (h1 : ValidAsg w1 (makeFeatures kinds k).length (featuresPerThread (makeFeatures kinds k).length w1) asg1)
    (h2 : ValidAsg w2 (makeFeatures kinds k).length (featuresPerThread (makeFeatures kinds k).length w2) asg2) :
    ∃ c1 c2, loopKind kinds k w1 asg1 = some c1 ∧ loopKind kinds k w2 asg2 = some c2 ∧
      c1.map Call.ifeature = c2.map Call.ifeature ∧ c1.map Call.ifeature = makeFeatures kinds k ∧
      (∀ c ∈ c1, c.tnum < w1) ∧ (∀ c ∈ c2, c.tnum < w2) := by
  obtain ⟨c1, a1, a2, a3⟩ := loopList_visits (makeFeatures kinds k) w1 asg1 h1
  obtain ⟨c2, b1, b2, b3⟩ := loopList_visits (makeFeatures kinds k) w2 asg2 h2
  exact ⟨c1, c2, a1, b1, by rw [a2, b2], a2, a3, b3⟩

/-- the seeded variant C18-e3 (`loop_features`: `tasks = min(concurrency, n)` tasks, task `i` handles the positions
    `[i * chunk, min((i + 1) * chunk, n))` with `chunk = features_per_thread(n, concurrency)`): the positions it visits -/
def seededVisits (n concurrency : Nat) : List Nat :=
  let chunk := featuresPerThread n concurrency
  (List.range (min concurrency n)).flatMap fun task =>
    (List.range n).filter fun i => decide (task * chunk ≤ i) && decide (i < min (task * chunk + chunk) n)

/-- … drops trailing features for some (features, threads) pairs — 9 features on 8 threads: position 8 is never visited; 17 on
    16 — while it is complete for others (9 on 2, 8 on 8), which is why a fixed test configuration does not see it. The loop as
    coded visits every position for the same pairs. -/
theorem seeded_loop_drops_features :
    seededVisits 9 8 = [0, 1, 2, 3, 4, 5, 6, 7] ∧ seededVisits 17 16 = List.range 16 ∧ seededVisits 9 2 = List.range 9 ∧
    seededVisits 8 8 = List.range 8 ∧
    (loopList (List.range 9) 8 [0, 1, 2, 3, 4, 5, 6, 7, 0]).map (·.map Call.ifeature) = some (List.range 9) := by
  decide

end select
end NanoVerif.Sharing
