import NanoVerif.Model.SolverStep
import NanoVerif.Proofs.SolverAlgebra
/-!
  C01 — the four `lsearch0` strategies in exact arithmetic (any linear ordered field): the formula each one evaluates, when
  the step it hands out is positive, where it is not (kernel-checked witnesses; the same call histories are run on the real
  code by the op family `ls0 hist`, corpus/C01/ops.txt), and what the private members are after a call / a history of calls.
-/
namespace NanoVerif.SolverStep
open NanoVerif.Gen.DoneLogic NanoVerif.Solver
set_option linter.unusedSectionVars false

variable {α : Type} [Field α] [LinearOrder α] [IsStrictOrderedRing α]

/-- the registered domains of the parameters as far as the theorems need them (lsearch0.cpp:12, constant.cpp:8, linear.cpp:8-9,
    quadratic.cpp:8-9, cgdescent.cpp:8-10; every registered interval is open; the upper ends `1e6` are never needed) -/
structure Dom (P : Params α) : Prop where
  epsilon : 0 < P.epsilon
  constT0 : 0 < P.constT0
  linBeta : 1 < P.linBeta
  linAlpha : 1 < P.linAlpha
  quadBeta : 1 < P.quadBeta
  quadAlpha : 1 < P.quadAlpha
  phi0 : 0 < P.phi0
  phi1 : 0 < P.phi1
  phi2 : 1 < P.phi2

theorem cmin_eq_min (a b : α) : cmin a b = min a b := by
  unfold cmin
  split
  · rename_i h; exact (min_eq_right (le_of_lt h)).symm
  · rename_i h; exact (min_eq_left (not_lt.mp h)).symm

/-! ### constant -/

theorem constant_t0 (P : Params α) (m : Mem α) (s : Scal α) : t0Of .constant P m s = P.constT0 := rfl

theorem constant_pos (P : Params α) (m : Mem α) (s : Scal α) (hd : Dom P) : 0 < t0Of .constant P m s := hd.constT0

/-! ### linear -/

theorem linear_first (P : Params α) (m : Mem α) (s : Scal α) (h : s.last < 0) : linearT0 P m s = 1 := by
  simp [linearT0, h]

theorem linear_formula (P : Params α) (m : Mem α) (s : Scal α) (h : ¬ s.last < 0) :
    linearT0 P m s = min 1 (P.linAlpha * max (-(s.last * m.prevdg)) (P.linBeta * P.epsilon) / (-s.dg)) := by
  simp only [linearT0, h, if_false, cmin_eq_min, cmax_eq_max, neg_mul, neg_div, div_neg]

theorem floor_pos (a b e : α) (hb : 1 < b) (he : 0 < e) : 0 < max a (b * e) :=
  lt_of_lt_of_le (mul_pos (lt_trans one_pos hb) he) (le_max_right _ _)

/-- along a descent direction the linear strategy hands out a step in `(0, 1]`, whatever its memory and `last_step_size` -/
theorem linear_pos (P : Params α) (m : Mem α) (s : Scal α) (hd : Dom P) (hg : s.dg < 0) :
    0 < linearT0 P m s ∧ linearT0 P m s ≤ 1 := by
  by_cases h : s.last < 0
  · rw [linear_first P m s h]; exact ⟨one_pos, le_refl _⟩
  · rw [linear_formula P m s h]
    refine ⟨lt_min one_pos (div_pos (mul_pos (lt_trans one_pos hd.linAlpha) ?_) (neg_pos.mpr hg)), min_le_left _ _⟩
    exact floor_pos _ _ _ hd.linBeta hd.epsilon

/-- … and along an ascent direction (`g·d > 0`, not a first call) a NEGATIVE one -/
theorem linear_neg_of_ascent (P : Params α) (m : Mem α) (s : Scal α) (hd : Dom P) (h : ¬ s.last < 0) (hg : 0 < s.dg) :
    linearT0 P m s < 0 := by
  rw [linear_formula P m s h]
  refine lt_of_le_of_lt (min_le_right _ _) (div_neg_of_pos_of_neg (mul_pos (lt_trans one_pos hd.linAlpha) ?_) (neg_neg_of_pos hg))
  exact floor_pos _ _ _ hd.linBeta hd.epsilon

/-! ### quadratic -/

theorem quadratic_first (P : Params α) (m : Mem α) (s : Scal α) (h : s.last < 0) : quadraticT0 P m s = 1 := by
  simp [quadraticT0, h]

theorem quadratic_formula (P : Params α) (m : Mem α) (s : Scal α) (h : ¬ s.last < 0) :
    quadraticT0 P m s = min 1 (P.quadAlpha * (2 * max (m.prevf - s.fx) (P.quadBeta * P.epsilon)) / (-m.prevdg)) := by
  simp only [quadraticT0, h, if_false, cmin_eq_min, cmax_eq_max, neg_mul, neg_div, div_neg, mul_assoc]

/-- the quadratic strategy hands out a step in `(0, 1]` whenever the direction of the PREVIOUS call was a descent direction
    (`m_prevdg < 0`), whatever the two function values are -/
theorem quadratic_pos (P : Params α) (m : Mem α) (s : Scal α) (hd : Dom P) (hg : m.prevdg < 0) :
    0 < quadraticT0 P m s ∧ quadraticT0 P m s ≤ 1 := by
  by_cases h : s.last < 0
  · rw [quadratic_first P m s h]; exact ⟨one_pos, le_refl _⟩
  · rw [quadratic_formula P m s h]
    refine ⟨lt_min one_pos (div_pos (mul_pos (lt_trans one_pos hd.quadAlpha) (mul_pos two_pos ?_)) (neg_pos.mpr hg)),
      min_le_left _ _⟩
    exact floor_pos _ _ _ hd.quadBeta hd.epsilon

/-- … and a NEGATIVE one when the previous call was made along an ascent direction (not a first call) -/
theorem quadratic_neg_of_prev_ascent (P : Params α) (m : Mem α) (s : Scal α) (hd : Dom P) (h : ¬ s.last < 0)
    (hg : 0 < m.prevdg) : quadraticT0 P m s < 0 := by
  rw [quadratic_formula P m s h]
  refine lt_of_le_of_lt (min_le_right _ _)
    (div_neg_of_pos_of_neg (mul_pos (lt_trans one_pos hd.quadAlpha) (mul_pos two_pos ?_)) (neg_neg_of_pos hg))
  exact floor_pos _ _ _ hd.quadBeta hd.epsilon

/-- what the uncapped, unscaled formula `2 (f_prev − f) / (−dg_prev)` is: the step `s` at which the parabola with value `f_prev`
    and slope `dg_prev` at `0` attains its minimum, when that minimum VALUE is `f` (Nocedal & Wright (3.60)) -/
theorem quadratic_is_parabola_minimiser (fprev f dgprev : α) (hdg : dgprev ≠ 0) (hf : f ≠ fprev) :
    let s := 2 * (fprev - f) / (-dgprev)
    let a := (-dgprev) / (2 * s)
    fprev + dgprev * s + a * (s * s) = f ∧ dgprev + 2 * a * s = 0 := by
  intro s a
  have hs : s ≠ 0 := by
    simp only [s]
    exact div_ne_zero (mul_ne_zero two_ne_zero (sub_ne_zero.mpr (Ne.symm hf))) (neg_ne_zero.mpr hdg)
  have has : a * s = -dgprev / 2 := by simp only [a]; field_simp
  have hss : dgprev * s = -(2 * (fprev - f)) := by simp only [s]; field_simp
  refine ⟨?_, by rw [mul_assoc, has]; ring⟩
  have e1 : a * (s * s) = a * s * s := by ring
  have e2 : -dgprev / 2 * s = -(dgprev * s) / 2 := by ring
  rw [e1, has, e2, hss]; ring

/-! ### CG_DESCENT -/

theorem cg_first_formula (P : Params α) (s : Scal α) (h : s.last < 0) :
    cgdescentT0 P s =
      if 0 < s.xnorm then P.phi0 * s.xnorm / s.gnorm else if 0 < |s.fx| then P.phi0 * |s.fx| / s.gsq else 1 := by
  simp only [cgdescentT0, h, if_true, cgFirst, absv_eq_abs, gt_iff_lt]

/-- first call: the step is positive when the gradient is not zero (`0 < ‖g‖∞`, `0 < ‖g‖₂²`) -/
theorem cg_first_pos (P : Params α) (s : Scal α) (hd : Dom P) (h : s.last < 0) (h1 : 0 < s.gnorm) (h2 : 0 < s.gsq) :
    0 < cgdescentT0 P s := by
  rw [cg_first_formula P s h]
  split
  · rename_i hx; exact div_pos (mul_pos hd.phi0 hx) h1
  · split
    · rename_i hf; exact div_pos (mul_pos hd.phi0 hf) h2
    · exact one_pos

/-- first call at a stationary point away from the origin: the quotient is `phi0 ‖x‖∞ / 0`. In a field that is `0` (not positive);
    in binary64 it is `+inf` (run on the real code: corpus/C01/ops.txt `ls0 hist cgdescent … # zero-gradient`; `lsearchk_t::get`
    replaces a non-finite step by `1`, lsearchk.cpp:52) -/
theorem cg_first_zero_gradient (P : Params α) (s : Scal α) (h : s.last < 0) (hx : 0 < s.xnorm) (hg : s.gnorm = 0) :
    cgdescentT0 P s = 0 := by
  rw [cg_first_formula P s h, if_pos hx, hg, div_zero]

theorem quadConvex_iff (f0 g0 t1 f1 : α) :
    quadConvex (⟨0, f0, g0⟩ : LSearch.Step α) ⟨t1, f1, 0⟩ = true ↔ f0 + t1 * g0 < f1 := by
  simp only [quadConvex, decide_eq_true_eq, gt_iff_lt]
  constructor <;> intro h <;> linarith

/-- a later call: with `t1 = last·phi1` the trial step and `f1 = f(x + t1 d)`: when `f1 < f` and `f1` lies above the tangent
    (`f + t1·dg < f1`, i.e. the interpolating parabola is convex) the step is `dg·t1² / (2 (dg·t1 + f − f1))`, otherwise `last·phi2` -/
theorem cg_next_formula (P : Params α) (s : Scal α) (h : ¬ s.last < 0) :
    cgdescentT0 P s =
      if s.ftrial < s.fx ∧ s.fx + s.last * P.phi1 * s.dg < s.ftrial then
        s.dg * (s.last * P.phi1) * (s.last * P.phi1) / (2 * (s.dg * (s.last * P.phi1) + (s.fx - s.ftrial)))
      else s.last * P.phi2 := by
  simp only [cgdescentT0, h, if_false, cgNext, quadConvex_iff]
  by_cases hc : s.ftrial < s.fx ∧ s.fx + s.last * P.phi1 * s.dg < s.ftrial
  · rw [if_pos hc, if_pos hc]
    obtain ⟨h1, h2⟩ := hc
    have ht : s.last * P.phi1 ≠ 0 := by
      intro h0; rw [h0, zero_mul, add_zero] at h2; exact lt_irrefl _ (lt_trans h1 h2)
    have hden : s.dg * (s.last * P.phi1) + (s.fx - s.ftrial) ≠ 0 := by
      apply ne_of_lt; nlinarith
    simp only [LSearch.quadratic, zero_sub]
    have hneg : (-(s.last * P.phi1)) ≠ 0 := neg_ne_zero.mpr ht
    have e : s.dg - (s.fx - s.ftrial) / (-(s.last * P.phi1))
        = (s.dg * (s.last * P.phi1) + (s.fx - s.ftrial)) / (s.last * P.phi1) := by
      rw [div_neg, sub_neg_eq_add, add_div, mul_div_assoc, div_self ht, mul_one]
    rw [e, div_div_eq_mul_div, one_div]
    field_simp
  · rw [if_neg hc, if_neg hc]

/-- the parabola behind `cg_next_formula`: `q(t) = f + dg·t + a·t²` with `a = (f1 − f − dg·t1)/t1²` passes through `(t1, f1)`, is
    convex exactly when the flag of `lsearch_step_t::quadratic` says so, and the step handed out is its stationary point -/
theorem cg_next_is_parabola_minimiser (f dg t1 f1 : α) (ht : t1 ≠ 0) (hc : f + t1 * dg < f1) :
    let a := (f1 - f - dg * t1) / (t1 * t1)
    let tq := dg * t1 * t1 / (2 * (dg * t1 + (f - f1)))
    f + dg * t1 + a * (t1 * t1) = f1 ∧ 0 < a ∧ dg + 2 * a * tq = 0 := by
  intro a tq
  have htt : 0 < t1 * t1 := mul_self_pos.mpr ht
  have hnum : 0 < f1 - f - dg * t1 := by linarith
  have hden : dg * t1 + (f - f1) ≠ 0 := by apply ne_of_lt; linarith
  refine ⟨?_, div_pos hnum htt, ?_⟩
  · simp only [a]; field_simp; ring
  · simp only [a, tq]; field_simp; ring

/-- a later call after a POSITIVE last step: the step handed out is positive (whatever the direction, the values, the slope) -/
theorem cg_next_pos (P : Params α) (s : Scal α) (hd : Dom P) (h : 0 < s.last) : 0 < cgdescentT0 P s := by
  rw [cg_next_formula P s (not_lt.mpr (le_of_lt h))]
  have ht : 0 < s.last * P.phi1 := mul_pos h hd.phi1
  split
  · rename_i hc
    obtain ⟨h1, h2⟩ := hc
    have hg : s.dg * (s.last * P.phi1) < 0 := by nlinarith
    refine div_pos_of_neg_of_neg (mul_neg_of_neg_of_pos hg ht) ?_
    nlinarith
  · exact mul_pos h (lt_trans one_pos hd.phi2)

/-- a later call after the last step `0` (a failed search may hand back `0`: C07 `morethuente_zero_step_accepted_if_inconsistent`,
    first two components): the step handed out is `0`, for every parameter value and every state — the trial point is `x` itself -/
theorem cg_zero_last (P : Params α) (s : Scal α) (h : s.last = 0) : cgdescentT0 P s = 0 := by
  rw [cg_next_formula P s (by rw [h]; exact lt_irrefl _), h, zero_mul, zero_mul, add_zero]
  split
  · rename_i hc; exact absurd (lt_trans hc.1 hc.2) (lt_irrefl _)
  · exact zero_mul _

/-! ### the members after a call, after a history of calls -/

theorem memAfter_constant (m : Mem α) (s : Scal α) : memAfter .constant m s = m := rfl
theorem memAfter_cgdescent (m : Mem α) (s : Scal α) : memAfter .cgdescent m s = m := rfl
theorem memAfter_linear (m : Mem α) (s : Scal α) : memAfter .linear m s = ⟨m.prevf, s.dg⟩ := rfl
theorem memAfter_quadratic (m : Mem α) (s : Scal α) : memAfter .quadratic m s = ⟨s.fx, s.dg⟩ := rfl

theorem l0run_append (st : Strategy) (P : Params α) : ∀ (a b : List (Scal α)) (m : Mem α),
    l0run st P m (a ++ b) = ((l0run st P m a).1 ++ (l0run st P (l0run st P m a).2 b).1, (l0run st P (l0run st P m a).2 b).2)
  | [], b, m => by simp [l0run]
  | s :: a, b, m => by
    simp only [List.cons_append, l0run]
    rw [l0run_append st P a b (memAfter st m s)]

theorem l0run_length (st : Strategy) (P : Params α) : ∀ (a : List (Scal α)) (m : Mem α), (l0run st P m a).1.length = a.length
  | [], _ => rfl
  | s :: a, m => by simp [l0run, l0run_length st P a]

/-- the linear strategy never touches `m_prevf` (it has no such member) -/
theorem l0run_linear_prevf (P : Params α) : ∀ (a : List (Scal α)) (m : Mem α), (l0run .linear P m a).2.prevf = m.prevf
  | [], _ => rfl
  | s :: a, m => by simp only [l0run]; rw [l0run_linear_prevf P a]; rfl

/-- the members after ANY non-empty history of calls are the documented function of the LAST call alone:
    quadratic `(fx, dg)`, linear `dg`; the other two strategies are stateless -/
theorem history_members (st : Strategy) (P : Params α) (m : Mem α) (pre : List (Scal α)) (a : Scal α) :
    (l0run st P m (pre ++ [a])).2 =
      match st with
      | .quadratic => ⟨a.fx, a.dg⟩
      | .linear => ⟨m.prevf, a.dg⟩
      | _ => (l0run st P m pre).2 := by
  rw [l0run_append]
  cases st
  · simp [l0run, memAfter]
  · simp only [l0run, memAfter]; rw [l0run_linear_prevf]
  · simp [l0run, memAfter]
  · simp [l0run, memAfter]

theorem l0run_stateless (st : Strategy) (hst : st = .constant ∨ st = .cgdescent) (P : Params α) :
    ∀ (a : List (Scal α)) (m : Mem α), (l0run st P m a).2 = m ∧ (l0run st P m a).1 = a.map (t0Of st P m)
  | [], _ => ⟨rfl, rfl⟩
  | s :: a, m => by
    have hm : memAfter st m s = m := by rcases hst with rfl | rfl <;> rfl
    simp only [l0run, hm, List.map_cons]
    exact ⟨(l0run_stateless st hst P a m).1, by rw [(l0run_stateless st hst P a m).2]⟩

/-- the step handed out by a call that has a predecessor depends on the history only through that predecessor:
    it is the strategy's formula on the members `history_members` describes -/
theorem history_step (st : Strategy) (P : Params α) (m : Mem α) (pre : List (Scal α)) (a b : Scal α) :
    (l0run st P m (pre ++ [a, b])).1 = (l0run st P m (pre ++ [a])).1 ++ [t0Of st P (l0run st P m (pre ++ [a])).2 b] := by
  have : pre ++ [a, b] = (pre ++ [a]) ++ [b] := by simp
  rw [this, l0run_append st P (pre ++ [a]) [b]]
  simp [l0run]

/-- the quadratic strategy, any history: the step of a call with a predecessor `a` is
    `min(1, α·2·max(f_a − f_b, β ε) / (−dg_a))` (or `1` when `last_step_size < 0`) -/
theorem quadratic_history_step (P : Params α) (m : Mem α) (pre : List (Scal α)) (a b : Scal α) :
    (l0run .quadratic P m (pre ++ [a, b])).1.getLast? = some (quadraticT0 P ⟨a.fx, a.dg⟩ b) := by
  rw [history_step, history_members]; simp [t0Of]

/-- the linear strategy, any history: the step of a call with a predecessor `a` is
    `min(1, α·max(−last·dg_a, β ε) / (−dg_b))` (or `1` when `last_step_size < 0`) -/
theorem linear_history_step (P : Params α) (m : Mem α) (pre : List (Scal α)) (a b : Scal α) :
    (l0run .linear P m (pre ++ [a, b])).1.getLast? = some (linearT0 P ⟨m.prevf, a.dg⟩ b) := by
  rw [history_step, history_members]; simp [t0Of]

end NanoVerif.SolverStep
