import NanoVerif.Model.Wire
import NanoVerif.Gen.CodecLayout
/-!
  C15 — the FIELD LAYOUTS of the serialised classes, regenerated from the source (`Gen/CodecLayout.lean`, by
  `tools/props/c15_translate.py`) and tied to what `Model/Wire.lean` encodes.

  `modelLayouts` is the hand-written table: for every class the base-class codec that comes first and the fields in
  stream order, each with the cast applied on the wire and the declared member type. `wireOf` maps (cast, declared type)
  to the on-the-wire kind `Wire` — the codec of `Model/Wire.lean` that the model uses at that position — and `modelWire`
  lists, codec by codec, the `seq` structure of `Model/Wire.lean` (`configurable`, `feature`, `learner`, `linear`, `gboost`,
  `single`, `wbodyOf 1 … 4`, `dnode`).

  Obligations (all closed by kernel evaluation of literal tables):
  * `model_read_layout_is_generated`, `model_write_layout_is_generated`: what the source reads / writes NOW is the table;
  * `read_layout_eq_write_layout`: every class reads exactly the fields it writes, in the same order, with the same casts
    (a necessary condition of every `…_roundtrip` theorem: they are stated for ONE codec per class);
  * `model_typedefs_are_generated`: the aliases `wireOf` relies on (`scalar_t = double`, `indices_t = tensor_mem_t<tensor_size_t, 1>`, …);
  * `model_wire_is_generated`: the wire kinds of the generated layouts are the `seq` structure of the model's codecs;
  * `layout_bases_closed`: every base named by a layout has a layout itself, or is one of the two classes that only inherit
    (`wlearner_t` → `learner_t`; the translator checks that they still define no read / write of their own).
-/
namespace NanoVerif.Codec.Layout
open NanoVerif.Gen.CodecLayout

/-- what `Model/Wire.lean` encodes, class by class (same shape as the generated tables) -/
def modelLayouts : List Layout := [
  ⟨"configurable_t", "", [("major_version", "", "int32_t"), ("minor_version", "", "int32_t"), ("patch_version", "", "int32_t"), ("parameters", "", "parameters_t")]⟩,
  ⟨"feature_t", "", [("type", "string", "feature_type"), ("dims", "", "tensor3d_dims_t"), ("name", "", "string_t"), ("labels", "", "strings_t")]⟩,
  ⟨"learner_t", "configurable_t", [("inputs", "", "features_t"), ("target", "", "feature_t")]⟩,
  ⟨"linear_t", "learner_t", [("bias", "", "tensor1d_t"), ("weights", "", "tensor2d_t")]⟩,
  ⟨"gboost_model_t", "learner_t", [("bias", "", "tensor1d_t"), ("wlearners", "", "rwlearners_t"), ("prototypes", "", "rwlearners_t")]⟩,
  ⟨"single_feature_wlearner_t", "wlearner_t", [("feature", "int64_t", "tensor_size_t"), ("tables", "", "tensor4d_t")]⟩,
  ⟨"stump_wlearner_t", "single_feature_wlearner_t", [("threshold", "", "scalar_t")]⟩,
  ⟨"hinge_wlearner_t", "single_feature_wlearner_t", [("threshold", "", "scalar_t"), ("hinge", "uint32_t", "hinge_type")]⟩,
  ⟨"table_wlearner_t", "single_feature_wlearner_t", [("hashes", "", "hashes_t"), ("hash2tables", "", "indices_t")]⟩,
  ⟨"dtree_wlearner_t", "wlearner_t", [("nodes", "", "dtree_nodes_t"), ("features", "", "indices_t"), ("tables", "", "tensor4d_t")]⟩,
  ⟨"dtree_node_t", "", [("feature", "int32_t", "tensor_size_t"), ("threshold", "", "scalar_t"), ("next", "uint32_t", "size_t"), ("table", "int32_t", "tensor_size_t")]⟩]

/-- the aliases as `wireOf` assumes them -/
def modelTypedefs : List (String × String) := [
  ("scalar_t", "double"),
  ("tensor_size_t", "Eigen::Index"),
  ("string_t", "std::string"),
  ("strings_t", "std::vector<string_t>"),
  ("tensor1d_t", "tensor_mem_t<scalar_t, 1>"),
  ("tensor2d_t", "tensor_mem_t<scalar_t, 2>"),
  ("tensor3d_t", "tensor_mem_t<scalar_t, 3>"),
  ("tensor4d_t", "tensor_mem_t<scalar_t, 4>"),
  ("tensor3d_dims_t", "tensor3d_t::tdims"),
  ("indices_t", "tensor_mem_t<tensor_size_t, 1>"),
  ("hashes_t", "tensor_mem_t<uint64_t, 1>"),
  ("features_t", "std::vector<feature_t>"),
  ("parameters_t", "std::vector<parameter_t>"),
  ("rwlearner_t", "std::unique_ptr<wlearner_t>"),
  ("rwlearners_t", "std::vector<rwlearner_t>"),
  ("dtree_nodes_t", "std::vector<dtree_node_t>")]

/-- on-the-wire kinds = the codecs of `Model/Codec.lean` / `Model/Wire.lean` used at a position -/
inductive Wire
  | i32 | i64 | u32            -- `Codec.i32`, `Codec.i64`, `Codec.u32` (little endian, fixed width)
  | f64                        -- 8 raw bytes of a double (`Codec.u64` on the bit pattern)
  | str | strs                 -- `Codec.str`, `vec str`
  | typeName                   -- `featureType` (the enum's name as a string)
  | dims3                      -- `seq i64 (seq i64 i64)`
  | params | features | feature | wlearners | dnodes   -- `vec parameter`, `vec feature`, `feature`, `vec wlearner`, `vec dnode`
  | tensorF64 (rank : Nat) | tensorU64 (rank : Nat) | tensorI64 (rank : Nat)   -- `tensor .f64 r`, `tensor .u64 r`, `tensor .i64 r`
  deriving DecidableEq, Repr

/-- (cast, declared type) ↦ wire kind; `none` for a combination the model has no codec for -/
def wireOf (cast decl : String) : Option Wire :=
  if cast = "int32_t" then some .i32
  else if cast = "int64_t" then some .i64
  else if cast = "uint32_t" then some .u32
  else if cast = "string" then (if decl = "feature_type" then some .typeName else none)
  else if cast ≠ "" then none
  else if decl = "int32_t" then some .i32
  else if decl = "scalar_t" then some .f64
  else if decl = "string_t" then some .str
  else if decl = "strings_t" then some .strs
  else if decl = "tensor3d_dims_t" then some .dims3
  else if decl = "parameters_t" then some .params
  else if decl = "features_t" then some .features
  else if decl = "feature_t" then some .feature
  else if decl = "rwlearners_t" then some .wlearners
  else if decl = "dtree_nodes_t" then some .dnodes
  else if decl = "tensor1d_t" then some (.tensorF64 1)
  else if decl = "tensor2d_t" then some (.tensorF64 2)
  else if decl = "tensor4d_t" then some (.tensorF64 4)
  else if decl = "hashes_t" then some (.tensorU64 1)
  else if decl = "indices_t" then some (.tensorI64 1)
  else none

def wiresOf (l : Layout) : String × String × List (Option Wire) :=
  (l.cls, l.base, l.items.map (fun it => wireOf it.2.1 it.2.2))

/-- the `seq` structure of the codecs of `Model/Wire.lean`, in its order:
    `configurable` = `seq version (vec parameter)` with `version` = `seq i32 (seq i32 i32)`; `feature`; `learner` = `seq configurable …`;
    `linear` = `seq learner (seq (tensor .f64 1) (tensor .f64 2))`; `gboost` = `seq learner (seq (tensor .f64 1) (seq (vec wlearner) (vec wlearner)))`;
    `single` = `seq learner (seq i64 (tensor .f64 4))`; `wbodyOf 1` = `seq single u64`; `wbodyOf 2` = `seq single (seq u64 u32…)`;
    `wbodyOf 3` = `seq single (seq (tensor .u64 1) (tensor .i64 1))`; `wbodyOf 4` = `seq learner (seq (vec dnode) (seq (tensor .i64 1) (tensor .f64 4)))`;
    `dnode` = `seq i32 (seq u64 (seq u32 i32))` -/
def modelWire : List (String × String × List (Option Wire)) := [
  ("configurable_t", "", [some .i32, some .i32, some .i32, some .params]),
  ("feature_t", "", [some .typeName, some .dims3, some .str, some .strs]),
  ("learner_t", "configurable_t", [some .features, some .feature]),
  ("linear_t", "learner_t", [some (.tensorF64 1), some (.tensorF64 2)]),
  ("gboost_model_t", "learner_t", [some (.tensorF64 1), some .wlearners, some .wlearners]),
  ("single_feature_wlearner_t", "wlearner_t", [some .i64, some (.tensorF64 4)]),
  ("stump_wlearner_t", "single_feature_wlearner_t", [some .f64]),
  ("hinge_wlearner_t", "single_feature_wlearner_t", [some .f64, some .u32]),
  ("table_wlearner_t", "single_feature_wlearner_t", [some (.tensorU64 1), some (.tensorI64 1)]),
  ("dtree_wlearner_t", "wlearner_t", [some .dnodes, some (.tensorI64 1), some (.tensorF64 4)]),
  ("dtree_node_t", "", [some .i32, some .f64, some .u32, some .i32])]

/-- classes without read / write of their own: the name resolves to the functions of the next class up -/
def inherited : List (String × String) := [("wlearner_t", "learner_t")]

theorem model_read_layout_is_generated : readLayouts = modelLayouts := rfl

theorem model_write_layout_is_generated : writeLayouts = modelLayouts := rfl

theorem model_typedefs_are_generated : typedefs = modelTypedefs := rfl

/-- every class reads exactly what it writes: same base-class call first, same fields, same order, same casts -/
theorem read_layout_eq_write_layout : readLayouts = writeLayouts :=
  model_read_layout_is_generated.trans model_write_layout_is_generated.symm

/-- field by field, the on-the-wire kinds of what the source reads and writes are the codecs `Model/Wire.lean` is built from;
    in particular no field falls outside the kinds the model has a codec for (`none` nowhere) -/
theorem model_wire_is_generated :
    readLayouts.map wiresOf = modelWire ∧ writeLayouts.map wiresOf = modelWire ∧
    ∀ c ∈ modelWire, ∀ w ∈ c.2.2, w ≠ none := by
  rw [model_read_layout_is_generated, model_write_layout_is_generated]
  refine ⟨by decide, by decide, by decide⟩

/-- the base of every layout is a class with a layout, or inherits from one -/
theorem layout_bases_closed :
    ∀ l ∈ readLayouts, l.base = "" ∨ l.base ∈ readLayouts.map (·.cls) ∨
      ∃ p ∈ inherited, p.1 = l.base ∧ p.2 ∈ readLayouts.map (·.cls) := by
  rw [model_read_layout_is_generated]
  decide

end NanoVerif.Codec.Layout
