import NanoVerif.Model.Ellipsoid
import NanoVerif.Gen.EllipsoidStep
/-!
  C03 (translation round) — the hand-written model of the ellipsoid method (Model/Ellipsoid.lean) uses exactly the formulas
  re-translated from src/solver/ellipsoid.cpp on every check (Gen/EllipsoidStep.lean). Every theorem is `rfl` (or an unfolding
  followed by `rfl`): an edit of a C++ formula changes the generated text and breaks the theorem. No Mathlib.
-/
set_option linter.unusedSectionVars false
namespace NanoVerif.Ellipsoid
open NanoVerif.Bundle
open NanoVerif.Gen

section
variable {α : Type} [Add α] [Sub α] [Mul α] [Div α] [Neg α] [LT α] [LE α] [DecidableLT α] [DecidableLE α]
  [OfNat α 0] [OfNat α 1] [OfNat α 2] [NatCast α]

/-- ellipsoid.cpp:36-37: the start matrix is `initScale · I` with the generated scale (`R` for n = 1, `R²` otherwise) -/
theorem model_initH_is_generated (n : Nat) (R : α) :
    initH n R = (List.range n).map (fun i => (List.range n).map (fun j => if i = j then EllipsoidStep.initScale n R else 0)) := rfl

/-- ellipsoid.cpp:47: the early-exit test -/
theorem model_earlyStop_is_generated : (earlyStop : α → α → Bool) = EllipsoidStep.earlyStop := rfl

/-- ellipsoid.cpp:58-59: the 1-D step -/
theorem model_step1d_is_generated (x h g : α) : step1d x h g = (EllipsoidStep.step1dX x h g, EllipsoidStep.step1dH h) := rfl

variable [Sqrt α]

/-- ellipsoid.cpp:64: the deep-cut parameter -/
theorem model_alphaCut_is_generated : (alphaCut : α → α → α → α) = EllipsoidStep.alphaCut Sqrt.sqrt := rfl

/-- ellipsoid.cpp:66: the centre step, element-wise over `x` and `H g` -/
theorem model_stepX_is_generated (n : α) (x Hg : List α) (a gHg : α) :
    stepX n x Hg a gHg = List.zipWith (fun xi hgi => EllipsoidStep.stepXElem Sqrt.sqrt n a gHg xi hgi) x Hg := rfl

/-- ellipsoid.cpp:67-68: the update of the shape matrix, element-wise over `H`, `H g` and `gᵀ H` -/
theorem model_stepH_is_generated (n : α) (H : List (List α)) (Hg gH : List α) (a gHg : α) :
    stepH n H Hg gH a gHg =
      List.zipWith (fun row hgi => List.zipWith (fun hij ghj => EllipsoidStep.stepHElem n a gHg hij hgi ghj) row gH) H Hg := rfl

/-- ellipsoid.cpp:75: the stopping test -/
theorem model_converged_is_generated : (converged : α → α → Bool) = EllipsoidStep.converged Sqrt.sqrt := rfl

/-- ellipsoid.cpp:47-53: on the early exit the model hands to `done` the flags the code hands over (`iter_ok = true`,
    `converged = true`) and leaves the state alone -/
theorem model_iterND_early_is_generated (dim : Nat) (eps epsM : α) (fin : α → Bool) (valid : SN α → Bool)
    (oracle : List α → α × List α) (s : SN α) (h : EllipsoidStep.earlyStop epsM (quad s.H s.g) = true) :
    iterND dim eps epsM fin valid oracle s = (doneE EllipsoidStep.earlyIterOk EllipsoidStep.earlyConverged (valid s), s) := by
  have h' : quad s.H s.g < epsM := of_decide_eq_true h
  simp only [iterND, h', if_true]; rfl

/-- ellipsoid.cpp:55-79: on a regular pass of the n-D loop the flags handed to `done` are the generated `iterOk` and
    `converged` of the point that was just left -/
theorem model_iterND_regular_is_generated (dim : Nat) (eps epsM : α) (fin : α → Bool) (valid : SN α → Bool)
    (oracle : List α → α × List α) (s : SN α) (h : EllipsoidStep.earlyStop epsM (quad s.H s.g) = false) :
    (iterND dim eps epsM fin valid oracle s).1 =
      doneE (EllipsoidStep.iterOk fin (oracle (stepND dim s.x s.g s.H s.f s.best).1).1)
        (EllipsoidStep.converged Sqrt.sqrt eps (quad s.H s.g)) (valid (iterND dim eps epsM fin valid oracle s).2) := by
  have h' : ¬ quad s.H s.g < epsM := of_decide_eq_false h
  simp only [iterND, h', if_false]; rfl

end

/-- the flags of the early exit, as generated -/
example : EllipsoidStep.earlyIterOk = true ∧ EllipsoidStep.earlyConverged = true := ⟨rfl, rfl⟩

/-- the hypotheses of `model_iterND_early_is_generated` / `model_iterND_regular_is_generated` are satisfiable (scalar `Int`, the empty
    state: `gHg = 0`, with `epsM = 1` resp. `epsM = 0`) -/
example : EllipsoidStep.earlyStop (1 : Int) (quad (⟨[], [], 0, [], 0, []⟩ : SN Int).H (⟨[], [], 0, [], 0, []⟩ : SN Int).g) = true ∧
    EllipsoidStep.earlyStop (0 : Int) (quad (⟨[], [], 0, [], 0, []⟩ : SN Int).H (⟨[], [], 0, [], 0, []⟩ : SN Int).g) = false :=
  ⟨by decide, by decide⟩

end NanoVerif.Ellipsoid
