import NanoVerif.Proofs.Split
import NanoVerif.Proofs.SplitDiscrete
import Mathlib.Data.List.Sort
/-!
  C12 — helper lemmas for the gap-closing theorems of `Props/C12.lean`: consecutive draws with a threaded generator, the
  contracts of the remaining oracles, uniqueness of the sorted arrangement, the splitter objects.
-/
set_option linter.unusedSectionVars false
namespace NanoVerif.Split

/-! ### contracts of the oracles -/

/-- `std::shuffle` returns a permutation, `uniform_int_distribution(0, hi)` a value in `[0, hi]` — whatever the generator -/
structure StdLib.Ok {G α : Type} (L : StdLib G α) : Prop where
  shuffle_perm : ∀ g l, (L.shuffle g l).1.Perm l
  uniform_le : ∀ g hi, (L.uniform g hi).1 ≤ hi

/-- `generate_canonical` returns a value in `(0, 1]` (`canonNum_pos`, `canonNum_lt` for `minstd_rand`: in fact in `(0, 1)`) -/
def StdLib.CanonOk {G α : Type} [LT α] [LE α] [OfNat α 0] [OfNat α 1] (L : StdLib G α) : Prop :=
  ∀ g, 0 < (L.canon g).1 ∧ (L.canon g).1 ≤ 1

/-- conversions: a count is non-negative as a scalar; truncating a scalar that is at most the integer `n` gives at most `n`;
    a 2-norm is non-negative -/
structure Num.Ok {α : Type} [LE α] [OfNat α 0] (N : Num α) : Prop where
  ofNat_nonneg : ∀ n, 0 ≤ N.ofNat n
  trunc_le : ∀ x n, x ≤ N.ofNat n → N.trunc x ≤ n
  norm2_nonneg : ∀ l, 0 ≤ N.norm2 l

/-! ### consecutive draws -/

theorem drawsG_length {G : Type} (draw : G → Nat × G) : ∀ (k : Nat) (g : G), (drawsG draw k g).1.length = k
  | 0, _ => rfl
  | k + 1, g => by simp [drawsG, drawsG_length draw k]

theorem drawsG_forall {G : Type} (draw : G → Nat × G) (P : Nat → Prop) (h : ∀ g, P (draw g).1) :
    ∀ (k : Nat) (g : G), ∀ d ∈ (drawsG draw k g).1, P d
  | 0, _ => by simp [drawsG]
  | k + 1, g => by
    intro d hd
    simp only [drawsG, List.mem_cons] at hd
    rcases hd with rfl | hd
    · exact h g
    · exact drawsG_forall draw P h k _ d hd

theorem drawsG_const {G : Type} (draw : G → Nat × G) (c : Nat) (h : ∀ g, (draw g).1 = c) :
    ∀ (k : Nat) (g : G), (drawsG draw k g).1 = List.replicate k c
  | 0, _ => rfl
  | k + 1, g => by simp [drawsG, h g, drawsG_const draw c h k, List.replicate_succ]

/-! ### sorting -/

/-- two sorted arrangements of the same multiset are equal -/
theorem sorted_perm_unique {a b : List Int} (hp : a.Perm b) (ha : a.Pairwise (· ≤ ·)) (hb : b.Pairwise (· ≤ ·)) : a = b :=
  List.Perm.eq_of_pairwise (fun _ _ _ _ h1 h2 => Int.le_antisymm h1 h2) ha hb hp

theorem SortSpec.eq_sortI {sort} (hs : SortSpec sort) (l : List Int) : sort l = sortI l :=
  sorted_perm_unique ((hs.perm l).trans (sortI_perm l).symm) (hs.sorted l) (sortI_sorted l)

theorem SortSpec.congr {sort} (hs : SortSpec sort) {a b : List Int} (h : a.Perm b) : sort a = sort b :=
  sorted_perm_unique ((hs.perm a).trans (h.trans (hs.perm b).symm)) (hs.sorted a) (hs.sorted b)

theorem SortSpec.replicate {sort} (hs : SortSpec sort) (k : Nat) (x : Int) : sort (List.replicate k x) = List.replicate k x :=
  sorted_perm_unique (hs.perm _) (hs.sorted _) (by simp [List.pairwise_replicate])

theorem pick_replicate_zero (samples : List Int) (x : Int) (h : samples[0]? = some x) :
    ∀ k, pick samples (List.replicate k 0) = some (List.replicate k x)
  | 0 => rfl
  | k + 1 => by simp [List.replicate_succ, pick, h, pick_replicate_zero samples x h k]

/-! ### splitter objects -/

/-- the registered domains hold -/
def Splitter.Ok (s : Splitter) : Prop := paramsOk s.folds s.seed = true ∧ trainPerOk s.trainPer = true

theorem Splitter.fresh_ok (k : Kind) : (Splitter.fresh k).Ok := by
  cases k <;> exact ⟨by decide, by decide⟩

end NanoVerif.Split
